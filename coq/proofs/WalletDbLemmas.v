(* C43: proofs about the wallet database model (model/WalletDb.v). *)
From Coq Require Import ZArith List Bool Lia.
From BV Require Import lib.Ints model.WalletDb.
Import ListNotations.
Open Scope Z_scope.

Lemma addr_eqb_eq a b : addr_eqb a b = true <-> a = b.
Proof.
  destruct a as [s i|k], b as [s' i'|k']; cbn; try (split; [discriminate|intros H; inversion H]).
  - rewrite andb_true_iff, Nat.eqb_eq, Z.eqb_eq. split; [intros [-> ->]; reflexivity|intros H; inversion H; auto].
  - rewrite Z.eqb_eq. split; [intros ->; reflexivity|intros H; inversion H; auto].
Qed.

Lemma addr_eqb_refl a : addr_eqb a a = true.
Proof. apply addr_eqb_eq; reflexivity. Qed.

(* ---------------------------------------------------------------------------------------------- *)
(* the database layer *)

Definition plain (c : call) : bool :=
  match c with CBegin | CCommit | CAbort => false | _ => true end.

Lemma apply_plain_pending cs : forall c p,
  forallb plain cs = true ->
  apply_calls (mkDb c (Some p)) cs = mkDb c (Some (fold_left db_apply cs p)).
Proof.
  induction cs as [|x r IH]; intros c p H; cbn; [reflexivity|].
  cbn in H. apply andb_true_iff in H. destruct H as [Hx Hr].
  unfold apply_calls in IH. destruct x; try discriminate; cbn; apply IH; exact Hr.
Qed.

Lemma apply_plain_auto cs : forall c,
  forallb plain cs = true ->
  apply_calls (mkDb c None) cs = mkDb (fold_left db_apply cs c) None.
Proof.
  induction cs as [|x r IH]; intros c H; cbn; [reflexivity|].
  cbn in H. apply andb_true_iff in H. destruct H as [Hx Hr].
  unfold apply_calls in IH. destruct x; try discriminate; cbn; apply IH; exact Hr.
Qed.

Lemma apply_calls_app s a b : apply_calls s (a ++ b) = apply_calls (apply_calls s a) b.
Proof. unfold apply_calls. apply fold_left_app. Qed.

(* a transaction: nothing is visible before the commit, everything after *)
Lemma txn_commit c ws :
  forallb plain ws = true ->
  apply_calls (mkDb c None) (CBegin :: ws ++ [CCommit]) = mkDb (fold_left db_apply ws c) None.
Proof.
  intros H. change (CBegin :: ws ++ [CCommit]) with ([CBegin] ++ (ws ++ [CCommit])).
  rewrite apply_calls_app. cbn [apply_calls fold_left apply_call committed]. rewrite apply_calls_app.
  rewrite apply_plain_pending by exact H. reflexivity.
Qed.

Lemma txn_abort c ws :
  forallb plain ws = true ->
  apply_calls (mkDb c None) (CBegin :: ws ++ [CAbort]) = mkDb c None.
Proof.
  intros H. change (CBegin :: ws ++ [CAbort]) with ([CBegin] ++ (ws ++ [CAbort])).
  rewrite apply_calls_app. cbn [apply_calls fold_left apply_call committed]. rewrite apply_calls_app.
  rewrite apply_plain_pending by exact H. reflexivity.
Qed.

Lemma firstn_txn_cases {A} (b e : A) ws j :
  (exists ws', firstn j (b :: ws ++ [e]) = [] /\ ws' = @nil A) \/
  (exists k, firstn j (b :: ws ++ [e]) = b :: firstn k ws) \/
  firstn j (b :: ws ++ [e]) = b :: ws ++ [e].
Proof.
  destruct j as [|j]; [left; exists []; split; reflexivity|]. right.
  cbn [firstn]. destruct (Nat.le_gt_cases j (length ws)) as [Hle|Hgt].
  - left. exists j. f_equal. rewrite firstn_app. replace (j - length ws)%nat with 0%nat by lia. cbn. apply app_nil_r.
  - right. f_equal. apply firstn_all2. rewrite app_length. cbn. lia.
Qed.

Lemma forallb_firstn {A} (f : A -> bool) l k : forallb f l = true -> forallb f (firstn k l) = true.
Proof.
  revert k. induction l as [|a r IH]; intros k H; destruct k; cbn; auto.
  cbn in H. apply andb_true_iff in H. destruct H as [Ha Hr]. rewrite Ha. cbn. apply IH; exact Hr.
Qed.

Lemma txn_atomic c ws j :
  forallb plain ws = true ->
  crash (apply_calls (mkDb c None) (firstn j (CBegin :: ws ++ [CCommit]))) = c \/
  crash (apply_calls (mkDb c None) (firstn j (CBegin :: ws ++ [CCommit]))) = crash (apply_calls (mkDb c None) (CBegin :: ws ++ [CCommit])).
Proof.
  intros H. destruct (firstn_txn_cases CBegin CCommit ws j) as [[ws' [E _]]|[[k E]|E]]; rewrite E.
  - left; reflexivity.
  - left. change (CBegin :: firstn k ws) with ([CBegin] ++ firstn k ws). rewrite apply_calls_app.
    cbn [apply_calls fold_left apply_call committed]. change (fold_left apply_call (firstn k ws) ?s) with (apply_calls s (firstn k ws)).
    rewrite apply_plain_pending by (apply forallb_firstn; exact H). reflexivity.
  - right; reflexivity.
Qed.

Lemma txn_abort_atomic c ws j :
  forallb plain ws = true ->
  crash (apply_calls (mkDb c None) (firstn j (CBegin :: ws ++ [CAbort]))) = c.
Proof.
  intros H. destruct (firstn_txn_cases CBegin CAbort ws j) as [[ws' [E _]]|[[k E]|E]]; rewrite E.
  - reflexivity.
  - change (CBegin :: firstn k ws) with ([CBegin] ++ firstn k ws). rewrite apply_calls_app.
    cbn [apply_calls fold_left apply_call committed]. change (fold_left apply_call (firstn k ws) ?s) with (apply_calls s (firstn k ws)).
    rewrite apply_plain_pending by (apply forallb_firstn; exact H). reflexivity.
  - change (CBegin :: ws ++ [CAbort]) with ([CBegin] ++ (ws ++ [CAbort])). rewrite apply_calls_app.
    cbn [apply_calls fold_left apply_call committed]. change (fold_left apply_call (ws ++ [CAbort]) ?s) with (apply_calls s (ws ++ [CAbort])).
    rewrite apply_calls_app. rewrite apply_plain_pending by exact H. reflexivity.
Qed.

(* ---------------------------------------------------------------------------------------------- *)
(* the running wallet agrees with what LoadWallet would rebuild from the committed records *)

Definition lv (m : mem) (d : db) : Prop :=
  (forall s, d (KDesc s) = Some (VDesc (fst (m_desc m s)) (snd (m_desc m s)))) /\
  (forall k, m_imp m k = m_imp (load_mem d []) k) /\
  (forall a, m_label m a = m_label (load_mem d []) a) /\
  (forall a, m_purpose m a = m_purpose (load_mem d []) a) /\
  (forall a, m_used m a = m_used (load_mem d []) a) /\
  (forall a id, m_rr m a id = m_rr (load_mem d []) a id) /\
  (forall k, m_tx m k = m_tx (load_mem d []) k) /\
  m_opn m = m_opn (load_mem d []) /\
  m_flag m = m_flag (load_mem d []).

Definition pview (f : Z -> option bool) (n : Z) : bool := match f n with Some true => true | _ => false end.
Definition lv_locks (m : mem) (d : db) : Prop :=
  (forall n, pview (m_locks m) n = match d (KLock n) with Some _ => true | None => false end) /\
  (forall n, m_locks m n <> None -> In n (m_lk m)).

Definition synced (st : wst) : Prop := pending (w_db st) = None /\ lv (w_mem st) (committed (w_db st)).
Definition synced_locks (st : wst) : Prop := lv_locks (w_mem st) (committed (w_db st)).

Ltac lvsplit := unfold lv; cbn [m_desc m_imp m_label m_purpose m_used m_rr m_tx m_opn m_flag load_mem];
  repeat match goal with |- _ /\ _ => split end.

Ltac caseb := repeat match goal with
  | |- context [if ?c then _ else _] => destruct c eqn:?
  | |- context [match ?d ?k with _ => _ end] => destruct (d k) eqn:?
  end.

Lemma tx_remove_get ks : forall f k', tx_remove f ks k' = if existsb (Z.eqb k') ks then None else f k'.
Proof.
  induction ks as [|k r IH]; intros f k'; cbn; [reflexivity|].
  rewrite IH. unfold zset. destruct (k' =? k); cbn; [destruct (existsb (Z.eqb k') r); reflexivity|reflexivity].
Qed.

Lemma rm_calls_plain m ks : forallb plain (fst (rm_calls m ks)) = true.
Proof.
  induction ks as [|k r IH]; cbn; [reflexivity|].
  destruct (m_tx m k); [|reflexivity]. destruct (rm_calls m r) as [cs ok]. cbn in *. exact IH.
Qed.

Lemma rm_calls_apply m ks : snd (rm_calls m ks) = true ->
  forall d key, fold_left db_apply (fst (rm_calls m ks)) d key =
    match key with
    | KTx k' | KTxVar k' => if existsb (Z.eqb k') ks then None else d key
    | _ => d key
    end.
Proof.
  induction ks as [|k r IH]; intros H d key; cbn in H |- *.
  - destruct key; reflexivity.
  - destruct (m_tx m k); [|discriminate]. destruct (rm_calls m r) as [cs ok] eqn:R. cbn [fst snd] in *.
    cbn [fold_left]. rewrite (IH H). cbn [db_apply]. unfold db_set.
    destruct key; cbn [key_eqb]; try reflexivity.
    + destruct (k0 =? k); cbn; [destruct (existsb (Z.eqb k0) r); reflexivity|reflexivity].
    + destruct (k0 =? k); cbn; [destruct (existsb (Z.eqb k0) r); reflexivity|reflexivity].
Qed.

Lemma unlock_all_plain f lk : forallb plain (unlock_all_calls f lk) = true.
Proof.
  unfold unlock_all_calls. induction lk as [|n r IH]; cbn; [reflexivity|].
  rewrite forallb_app, IH. destruct (f n) as [[|]|]; reflexivity.
Qed.

Lemma unlock_all_apply f lk : forall d key,
  fold_left db_apply (unlock_all_calls f lk) d key =
    match key with
    | KLock n => if existsb (fun n' => (n =? n') && pview f n') lk then None else d key
    | _ => d key
    end.
Proof.
  unfold unlock_all_calls. induction lk as [|n r IH]; intros d key; cbn [flat_map fold_left existsb].
  - destruct key; reflexivity.
  - rewrite fold_left_app, IH. unfold pview. destruct (f n) as [[|]|]; cbn [fold_left db_apply app].
    + unfold db_set. destruct key; cbn [key_eqb]; try reflexivity.
      destruct (n0 =? n) eqn:E; cbn; [destruct (existsb _ r); reflexivity|reflexivity].
    + destruct key; try reflexivity. rewrite andb_false_r. reflexivity.
    + destruct key; try reflexivity. rewrite andb_false_r. reflexivity.
Qed.

Ltac fin := repeat match goal with
   | |- context [addr_eqb ?x ?y] => destruct (addr_eqb x y) eqn:?
   | |- context [Z.eqb ?x ?y] => destruct (Z.eqb x y) eqn:?
   | |- context [Nat.eqb ?x ?y] => destruct (Nat.eqb x y) eqn:?
   end; cbn; auto.
Ltac std := eexists; split; [cbn; reflexivity|]; split; [|intros; cbn; auto];
  lvsplit; intros; cbn; unfold db_set, fset, zset, nset; cbn; fin.

(* one operation (not a restart) keeps the wallet and its database in step *)
Lemma op_synced upgrade kp m d o m1 cs r :
  lv m d -> op_effect upgrade kp m o = (m1, cs, r) ->
  exists d1, apply_calls (mkDb d None) cs = mkDb d1 None /\ lv m1 d1 /\
             (forall n, match o with OLock _ _ | OUnlock _ | OUnlockAll => True | _ => d1 (KLock n) = d (KLock n) /\ m_locks m1 = m_locks m /\ m_lk m1 = m_lk m end).
Proof.
  intros L H. pose proof L as L'. unfold lv in L'. cbn [m_desc m_imp m_label m_purpose m_used m_rr m_tx m_opn m_flag load_mem] in L'.
  destruct L' as (A & B & C & D & E & F & G & Hh & I).
  destruct o; cbn [op_effect] in H.
  - (* ONew *)
    unfold topup_calls in H. cbn [fst snd] in H.
    destruct (Nat.ltb s 4); inversion H; subst; clear H; std.
  - (* OLabel *)
    inversion H; subst; clear H. destruct p as [q|]; std.
  - (* ODel *)
    destruct (is_mine m a); inversion H; subst; clear H.
    + exists d. split; [reflexivity|]. split; [exact L|intros n; auto].
    + std.
  - (* OSpent *)
    inversion H; subst; clear H. destruct u; std.
  - (* ORr *)
    inversion H; subst; clear H. std.
    apply addr_eqb_eq in Heqb; subst. apply F.
  - (* ORrDel *)
    inversion H; subst; clear H. std.
    apply addr_eqb_eq in Heqb; subst. apply F.
  - (* OLock *)
    inversion H; subst; clear H. destruct persist.
    + eexists. split; [cbn; reflexivity|]. split; [|intros; exact Logic.I].
      lvsplit; intros; cbn; unfold db_set; cbn; auto.
    + exists d. split; [reflexivity|]. split; [|intros; exact Logic.I]. lvsplit; auto.
  - (* OUnlock *)
    inversion H; subst; clear H. destruct (m_locks m n) as [[|]|].
    + eexists. split; [cbn; reflexivity|]. split; [|intros; exact Logic.I].
      lvsplit; intros; cbn; unfold db_set; cbn; auto.
    + exists d. split; [reflexivity|]. split; [|intros; exact Logic.I]. lvsplit; auto.
    + exists d. split; [reflexivity|]. split; [|intros; exact Logic.I]. lvsplit; auto.
  - (* OUnlockAll *)
    inversion H; subst; clear H.
    eexists. split; [apply apply_plain_auto; apply unlock_all_plain|]. split; [|intros; exact Logic.I].
    lvsplit; intros; rewrite ?unlock_all_apply; auto.
  - (* OTx *)
    destruct (m_tx m k) eqn:T; inversion H; subst; clear H.
    + exists d. split; [reflexivity|]. split; [exact L|intros n; auto].
    + std.
  - (* ORmTx *)
    pose proof (rm_calls_plain m ks) as Rp. pose proof (rm_calls_apply m ks) as Ra.
    destruct (rm_calls m ks) as [cs0 ok] eqn:R. cbn [fst snd] in Rp, Ra. destruct ok; inversion H; subst; clear H.
    + eexists. split; [apply txn_commit; exact Rp|]. split.
      * lvsplit; intros; rewrite ?(Ra eq_refl); auto.
        rewrite tx_remove_get, G. destruct (existsb (Z.eqb k) ks); reflexivity.
      * intros n. rewrite (Ra eq_refl). auto.
    + exists d. split; [apply txn_abort; exact Rp|]. split; [exact L|intros n; auto].
  - (* OTop *)
    unfold topup_calls in H. inversion H; subst; clear H. std.
  - (* OFlag *)
    inversion H; subst; clear H. std.
  - (* OImport *)
    inversion H; subst; clear H. std.
  - inversion H; subst. exists d. split; [reflexivity|]. split; [exact L|intros n; auto].
  - inversion H; subst. exists d. split; [reflexivity|]. split; [exact L|intros n; auto].
Qed.

Lemma mkdb_inj d1 d2 : mkDb d1 None = mkDb d2 None -> d1 = d2.
Proof. intros H; inversion H; reflexivity. Qed.

Lemma lk_add_in n l x : In x (lk_add n l) <-> x = n \/ In x l.
Proof.
  unfold lk_add. destruct (existsb (Z.eqb n) l) eqn:E.
  - split; [auto|]. intros [->|H]; [|exact H]. apply existsb_exists in E. destruct E as [y [Hy Ey]]. apply Z.eqb_eq in Ey; subst; exact Hy.
  - cbn. split; intros [H|H]; auto.
Qed.

(* persistent locks: with the upgrading LockCoin the records are exactly the persistent in-memory locks *)
Lemma op_locks kp m d o m1 cs r d1 :
  lv m d -> lv_locks m d -> op_effect true kp m o = (m1, cs, r) ->
  apply_calls (mkDb d None) cs = mkDb d1 None -> lv_locks m1 d1.
Proof.
  intros L [P Q] H Ha.
  destruct (op_synced _ _ _ _ _ _ _ _ L H) as (d1' & Ha' & _ & K). rewrite Ha in Ha'. apply mkdb_inj in Ha'. subst d1'.
  destruct o; try (split; intros x; destruct (K x) as (K1 & K2 & K3); rewrite ?K1, ?K2, ?K3; auto; fail).
  - (* OLock *)
    cbn [op_effect] in H. inversion H; subst; clear H.
    unfold lv_locks. cbn [m_locks m_lk]. unfold lock_mem.
    assert (P' : forall n0, match m_locks m n0 with Some true => true | _ => false end = match d (KLock n0) with Some _ => true | None => false end) by exact P.
    destruct persist; cbn in Ha; apply mkdb_inj in Ha; subst d1.
    + split; intros n0.
      * destruct (m_locks m n) as [[|]|] eqn:Ln; cbn [andb negb]; unfold pview, zset, db_set; cbn [key_eqb];
        destruct (n0 =? n) eqn:En; try (apply Z.eqb_eq in En; subst n0); rewrite ?Ln; auto.
      * intros Hn. apply lk_add_in. destruct (n0 =? n) eqn:En; [left; apply Z.eqb_eq; exact En|right; apply Q].
        destruct (m_locks m n) as [[|]|] eqn:Ln; cbn [andb negb] in Hn; unfold zset in Hn; rewrite ?En in Hn; exact Hn.
    + split; intros n0.
      * destruct (m_locks m n) as [[|]|] eqn:Ln; cbn [andb negb]; unfold pview, zset; auto.
        destruct (n0 =? n) eqn:En; [apply Z.eqb_eq in En; subst n0; rewrite <- P', Ln; reflexivity|apply P'].
      * intros Hn. apply lk_add_in. destruct (n0 =? n) eqn:En; [left; apply Z.eqb_eq; exact En|right; apply Q].
        destruct (m_locks m n) as [[|]|] eqn:Ln; cbn [andb negb] in Hn; unfold zset in Hn; rewrite ?En in Hn; exact Hn.
  - (* OUnlock *)
    cbn [op_effect] in H. inversion H; subst; clear H.
    unfold lv_locks. cbn [m_locks m_lk].
    assert (P' : forall n0, match m_locks m n0 with Some true => true | _ => false end = match d (KLock n0) with Some _ => true | None => false end) by exact P.
    destruct (m_locks m n) as [[|]|] eqn:Ln; cbn in Ha; apply mkdb_inj in Ha; subst d1; split; intros n0.
    + unfold pview, zset, db_set. cbn [key_eqb]. destruct (n0 =? n); [reflexivity|apply P'].
    + unfold zset. destruct (n0 =? n); [congruence|apply Q].
    + unfold pview, zset. destruct (n0 =? n) eqn:En; [|apply P'].
      apply Z.eqb_eq in En; subst n0. rewrite <- P', Ln. reflexivity.
    + unfold zset. destruct (n0 =? n); [congruence|apply Q].
    + unfold pview, zset. destruct (n0 =? n) eqn:En; [|apply P'].
      apply Z.eqb_eq in En; subst n0. rewrite <- P', Ln. reflexivity.
    + unfold zset. destruct (n0 =? n); [congruence|apply Q].
  - (* OUnlockAll *)
    cbn [op_effect] in H. inversion H; subst; clear H. unfold lv_locks. cbn [m_locks m_lk].
    rewrite apply_plain_auto in Ha by apply unlock_all_plain. apply mkdb_inj in Ha. subst d1. split; intros n0; [|congruence].
    unfold pview at 1. rewrite unlock_all_apply.
    destruct (existsb (fun n' : Z => (n0 =? n') && pview (m_locks m) n') (m_lk m)) eqn:Ex; [reflexivity|].
    destruct (d (KLock n0)) eqn:Dn; [|reflexivity]. exfalso.
    specialize (P n0). rewrite Dn in P.
    assert (Hin : In n0 (m_lk m)) by (apply Q; unfold pview in P; destruct (m_locks m n0); congruence).
    assert (Ht : existsb (fun n' : Z => (n0 =? n') && pview (m_locks m) n') (m_lk m) = true).
    { apply existsb_exists. exists n0. split; [exact Hin|]. rewrite Z.eqb_refl, P. reflexivity. }
    congruence.
Qed.

(* loading *)
Lemma load_topup_props kp n : forall m s m1 s1 d,
  s = mkDb d None -> lv m d -> load_topup kp n m s = (m1, s1) ->
  exists d1, s1 = mkDb d1 None /\ lv m1 d1 /\
    (forall k, match k with KDesc _ => True | _ => d1 k = d k end) /\
    (forall t, fst (m_desc m1 t) = fst (m_desc m t) /\ snd (m_desc m t) <= snd (m_desc m1 t)) /\
    m_imp m1 = m_imp m /\ m_label m1 = m_label m /\ m_purpose m1 = m_purpose m /\ m_used m1 = m_used m /\ m_rr m1 = m_rr m /\
    m_locks m1 = m_locks m /\ m_lk m1 = m_lk m /\ m_tx m1 = m_tx m /\ m_opn m1 = m_opn m /\ m_flag m1 = m_flag m.
Proof.
  induction n as [|n IH]; intros m s m1 s1 d Hs L H; cbn [load_topup] in H.
  - inversion H; subst. exists d. split; [reflexivity|]. split; [exact L|]. split; [intros k; destruct k; auto|].
    split; [intros t; split; [reflexivity|lia]|]. repeat split; reflexivity.
  - destruct (load_topup kp n m s) as [m0 s0] eqn:R.
    destruct (IH _ _ _ _ _ Hs L R) as (d0 & E0 & L0 & K0 & D0 & I1 & I2 & I3 & I4 & I5 & I6 & I7 & I8 & I9 & I10).
    unfold topup_calls in H. cbn [fst snd] in H. inversion H; subst; clear H.
    eexists. split; [cbn; reflexivity|]. split.
    { pose proof L0 as L'. unfold lv in L'. cbn [m_desc m_imp m_label m_purpose m_used m_rr m_tx m_opn m_flag load_mem] in L'.
      destruct L' as (A & B & C & D & E & F & G & Hh & I).
      lvsplit; intros; cbn; unfold db_set, nset; cbn; fin. }
    split.
    { intros k. destruct k; auto; unfold db_set; cbn [key_eqb]; match goal with |- _ ?kk = _ => exact (K0 kk) end. }
    split.
    { intros t. cbn [m_desc]. unfold nset. destruct (Nat.eqb t n) eqn:En.
      - apply Nat.eqb_eq in En; subst t. cbn [fst snd]. destruct (D0 n) as [Da Db]. split; [exact Da|]. lia.
      - apply D0. }
    cbn. repeat split; assumption.
Qed.

Lemma load_mem_lv m d lk : lv m d -> lv (load_mem d lk) d.
Proof.
  intros L. pose proof L as L'. unfold lv in L'. cbn [m_desc m_imp m_label m_purpose m_used m_rr m_tx m_opn m_flag load_mem] in L'.
  destruct L' as (A & _). lvsplit; intros; auto. rewrite A. reflexivity.
Qed.

(* a restart: the reloaded wallet is in step with the database, answers every getter like the running wallet did;
   only range_end may have grown (the loader tops the keypools up) and memory-only locks are gone *)
Lemma reopen_props st :
  synced st ->
  synced (reopen st) /\
  (forall t, fst (m_desc (w_mem (reopen st)) t) = fst (m_desc (w_mem st) t) /\ snd (m_desc (w_mem st) t) <= snd (m_desc (w_mem (reopen st)) t)) /\
  (forall k, m_imp (w_mem (reopen st)) k = m_imp (w_mem st) k) /\
  (forall a, m_label (w_mem (reopen st)) a = m_label (w_mem st) a) /\
  (forall a, m_purpose (w_mem (reopen st)) a = m_purpose (w_mem st) a) /\
  (forall a, m_used (w_mem (reopen st)) a = m_used (w_mem st) a) /\
  (forall a id, m_rr (w_mem (reopen st)) a id = m_rr (w_mem st) a id) /\
  (forall k, m_tx (w_mem (reopen st)) k = m_tx (w_mem st) k) /\
  m_opn (w_mem (reopen st)) = m_opn (w_mem st) /\
  m_flag (w_mem (reopen st)) = m_flag (w_mem st) /\
  (forall n, m_locks (w_mem (reopen st)) n = match committed (w_db st) (KLock n) with Some _ => Some true | None => None end) /\
  (forall n, committed (w_db (reopen st)) (KLock n) = committed (w_db st) (KLock n)) /\
  m_lk (w_mem (reopen st)) = m_lk (w_mem st) /\
  (forall k, match k with KDesc _ => True | _ => committed (w_db (reopen st)) k = committed (w_db st) k end).
Proof.
  intros [Hp L]. unfold reopen, crash.
  destruct (load_topup (w_kp st) 8 (load_mem (committed (w_db st)) (m_lk (w_mem st))) (mkDb (committed (w_db st)) None)) as [m1 s1] eqn:R.
  pose proof (load_mem_lv _ _ (m_lk (w_mem st)) L) as L0.
  destruct (load_topup_props _ _ _ _ _ _ _ eq_refl L0 R) as (d1 & E1 & L1 & K1 & D1 & I1 & I2 & I3 & I4 & I5 & I6 & I7 & I8 & I9 & I10).
  subst s1. cbn [w_mem w_db committed pending].
  pose proof L as L'. unfold lv in L'. cbn [m_desc m_imp m_label m_purpose m_used m_rr m_tx m_opn m_flag load_mem] in L'.
  destruct L' as (A & B & C & D & E & F & G & Hh & I).
  split; [split; [reflexivity|exact L1]|].
  split.
  { intros t. destruct (D1 t) as [Da Db]. cbn [load_mem m_desc] in Da, Db. rewrite A in Da, Db. cbn [fst snd] in *. split; [exact Da|exact Db]. }
  rewrite I1, I2, I3, I4, I5, I6, I7, I8, I9, I10. cbn [load_mem m_imp m_label m_purpose m_used m_rr m_locks m_lk m_tx m_opn m_flag].
  repeat split; intros; auto; [apply (K1 (KLock n))|]. destruct k; auto; match goal with |- _ ?kk = _ => exact (K1 kk) end.
Qed.

#[local] Opaque reopen.

Definition is_restart (o : op) : bool := match o with OReload | OCrash => true | _ => false end.
Lemma step_restart upgrade st o : is_restart o = true -> step upgrade st o = (reopen st, true).
Proof. destruct o; intros H; try discriminate; reflexivity. Qed.
Lemma step_normal upgrade st o : is_restart o = false ->
  step upgrade st o = (let '(m1, cs, r) := op_effect upgrade (w_kp st) (w_mem st) o in (mkW m1 (apply_calls (w_db st) cs) (w_kp st), r)).
Proof. destruct o; intros H; try discriminate; reflexivity. Qed.

Lemma step_synced upgrade st o st' r : synced st -> step upgrade st o = (st', r) -> synced st'.
Proof.
  intros S H. destruct (is_restart o) eqn:Ro.
  - rewrite step_restart in H by exact Ro. apply (f_equal fst) in H. cbn [fst] in H. rewrite <- H. destruct (reopen_props _ S) as [R _]. exact R.
  - rewrite step_normal in H by exact Ro. destruct S as [Hp L].
    destruct (op_effect upgrade (w_kp st) (w_mem st) o) as [[m1 cs] r1] eqn:OE. inversion H; subst; clear H.
    destruct (op_synced _ _ _ _ _ _ _ _ L OE) as (d1 & Ha & L1 & _).
    destruct (w_db st) as [c p]. cbn in Hp; subst p. cbn [w_mem w_db committed pending] in *. rewrite Ha. split; [reflexivity|exact L1].
Qed.

Lemma step_synced_locks st o st' r :
  synced st -> synced_locks st -> step true st o = (st', r) -> synced_locks st'.
Proof.
  intros S SL H. destruct (is_restart o) eqn:Ro.
  - rewrite step_restart in H by exact Ro. apply (f_equal fst) in H. cbn [fst] in H. rewrite <- H. clear H. unfold synced_locks.
    destruct (reopen_props _ S) as (_ & _ & _ & _ & _ & _ & _ & _ & _ & _ & RL & RD & RK & _).
    destruct SL as [P Q]. split; intros n.
    + unfold pview. rewrite RL, RD. destruct (committed (w_db st) (KLock n)); reflexivity.
    + rewrite RL, RK. intros Hn. apply Q. specialize (P n). unfold pview in P.
      destruct (committed (w_db st) (KLock n)); [destruct (m_locks (w_mem st) n); congruence|congruence].
  - rewrite step_normal in H by exact Ro. destruct S as [Hp L]. unfold synced_locks in *.
    destruct (op_effect true (w_kp st) (w_mem st) o) as [[m1 cs] r1] eqn:OE. inversion H; subst; clear H.
    destruct (w_db st) as [c p] eqn:Edb. cbn [committed pending] in *. subst p.
    destruct (op_synced _ _ _ _ _ _ _ _ L OE) as (d1 & Ha & L1 & _).
    cbn [w_mem w_db]. rewrite Ha. cbn [committed]. exact (op_locks _ _ _ _ _ _ _ _ L SL OE Ha).
Qed.

(* ---------------------------------------------------------------------------------------------- *)
(* runs *)

Lemma init_synced kp : synced (init kp) /\ synced_locks (init kp).
Proof.
  split; [split; [reflexivity|]|split].
  - lvsplit; intros; reflexivity.
  - intros n. reflexivity.
  - intros n H. cbn in H. congruence.
Qed.

Lemma run_synced ops : forall st rs st',
  synced st -> synced_locks st -> run true st ops = (rs, st') -> synced st' /\ synced_locks st'.
Proof.
  induction ops as [|o r IH]; intros st rs st' S SL H; cbn [run] in H.
  - inversion H; subst. split; assumption.
  - destruct (step true st o) as [st1 x] eqn:E. destruct (run true st1 r) as [xs st2] eqn:R. inversion H; subst; clear H.
    eapply IH; [eapply step_synced; eassumption|eapply step_synced_locks; eassumption|exact R].
Qed.

(* C43, clean restart: whatever the history, the reloaded wallet answers every getter like the running wallet;
   range_end may have grown (top-up on load), memory-only locks are gone *)
Lemma clean_restart kp ops :
  let st := snd (run true (init kp) ops) in
  let m := w_mem st in let m' := w_mem (reopen st) in
  (forall t, fst (m_desc m' t) = fst (m_desc m t) /\ snd (m_desc m t) <= snd (m_desc m' t)) /\
  (forall k, m_imp m' k = m_imp m k) /\
  (forall a, m_label m' a = m_label m a) /\
  (forall a, m_purpose m' a = m_purpose m a) /\
  (forall a, m_used m' a = m_used m a) /\
  (forall a id, m_rr m' a id = m_rr m a id) /\
  (forall k, m_tx m' k = m_tx m k) /\
  m_opn m' = m_opn m /\
  m_flag m' = m_flag m /\
  (forall n, m_locks m' n = if pview (m_locks m) n then Some true else None).
Proof.
  destruct (run true (init kp) ops) as [rs st] eqn:R. cbn [snd].
  destruct (init_synced kp) as [S0 SL0]. destruct (run_synced _ _ _ _ S0 SL0 R) as [S [P Q]].
  destruct (reopen_props _ S) as (_ & A & B & C & D & E & F & G & Hh & I & RL & _).
  repeat split; try (intros; auto; fail); try apply A.
  intros n. rewrite RL, P. destruct (committed (w_db st) (KLock n)); reflexivity.
Qed.

(* the pre-fix LockCoin: lock in memory, lock persistently, unlock -> the record survives and the coin is locked
   again after the restart *)
Lemma lock_upgrade_witness :
  let st := snd (run false (init 2) [OLock 1 false; OLock 1 true; OUnlock 1]) in
  m_locks (w_mem st) 1 = None /\ committed (w_db st) (KLock 1) = Some VUnit.
Proof. vm_compute. split; reflexivity. Qed.

Lemma lock_upgrade_fixed_witness :
  let st := snd (run true (init 2) [OLock 1 false; OLock 1 true; OUnlock 1]) in
  m_locks (w_mem st) 1 = None /\ committed (w_db st) (KLock 1) = None.
Proof. vm_compute. split; reflexivity. Qed.

(* ---------------------------------------------------------------------------------------------- *)
(* crashes: transactional updates are all-or-nothing *)

Definition is_txn_op (o : op) : bool := match o with ODel _ | ORmTx _ | OTop _ _ => true | _ => false end.

Lemma txn_all_or_nothing upgrade st o j :
  synced st -> is_txn_op o = true ->
  crash_in upgrade st o j = committed (w_db st) \/
  crash_in upgrade st o j = committed (w_db (fst (step upgrade st o))).
Proof.
  intros [Hp _] Ho. unfold crash_in. rewrite step_normal by (destruct o; try discriminate; reflexivity).
  destruct (w_db st) as [c p] eqn:Edb. cbn in Hp. subst p. cbn [committed].
  destruct o; try discriminate; cbn [op_effect].
  - (* ODel *)
    destruct (is_mine (w_mem st) a); cbn [fst w_db].
    + left. apply (txn_abort_atomic c [] j). reflexivity.
    + apply (txn_atomic c [CErasePrefixDest a; CErase (KPurpose a); CErase (KName a)] j). reflexivity.
  - (* ORmTx *)
    pose proof (rm_calls_plain (w_mem st) ks) as Rp.
    destruct (rm_calls (w_mem st) ks) as [cs ok] eqn:R. cbn [fst] in Rp. destruct ok; cbn [fst w_db].
    + apply (txn_atomic c cs j). exact Rp.
    + left. apply (txn_abort_atomic c cs j). exact Rp.
  - (* OTop *)
    unfold topup_calls. cbn [fst w_db].
    apply (txn_atomic c [CWrite (KDesc s) (VDesc (fst (m_desc (w_mem st) s)) (Z.max (fst (m_desc (w_mem st) s) + (if 0 <? n then n else w_kp st)) (snd (m_desc (w_mem st) s))))] j). reflexivity.
Qed.

(* crashes: the wallet still loads *)
Definition ok_db (d : db) : Prop := forall k, load_ok_at d k = true.
Definition dbok (s : dbst) : Prop := ok_db (committed s) /\ forall p, pending s = Some p -> ok_db p.

Definition neutral (c : call) : bool :=
  match c with
  | CWrite (KImpDesc _) _ => false
  | CErase (KImpCache _) => false
  | _ => true
  end.

Lemma db_apply_ok d c : neutral c = true -> ok_db d -> ok_db (db_apply d c).
Proof.
  intros N H k. specialize (H k). unfold load_ok_at in *.
  destruct c; cbn [db_apply]; try exact H.
  - (* CWrite *)
    unfold db_set. destruct k0; cbn [key_eqb]; try exact H; try discriminate.
    destruct (k =? k0); [destruct (d (KImpDesc k)); reflexivity|exact H].
  - (* CErase *)
    unfold db_set. destruct k0; cbn [key_eqb]; try exact H; try discriminate.
    destruct (k =? k0); [reflexivity|exact H].
Qed.

Lemma neutral_plain s c : neutral c = true -> dbok s ->
  dbok (match pending s with
        | Some p => mkDb (committed s) (Some (db_apply p c))
        | None => mkDb (db_apply (committed s) c) None
        end).
Proof.
  intros N [A B]. destruct (pending s) as [p|] eqn:E; split; cbn [committed pending].
  - exact A.
  - intros q Eq. inversion Eq; subst. apply db_apply_ok; [exact N|apply B; reflexivity].
  - apply db_apply_ok; [exact N|exact A].
  - discriminate.
Qed.

Lemma neutral_step s c : neutral c = true -> dbok s -> dbok (apply_call s c).
Proof.
  intros N D. destruct c; cbn [apply_call]; try (apply neutral_plain; assumption); destruct D as [A B].
  - split; cbn [committed pending]; [exact A|intros p E; inversion E; subst; exact A].
  - destruct (pending s) as [p|] eqn:E; [split; cbn [committed pending]; [apply B; reflexivity|discriminate]|split; [exact A|intros q Eq; rewrite E in Eq; discriminate]].
  - split; cbn [committed pending]; [exact A|discriminate].
Qed.

Lemma neutral_calls cs : forall s, forallb neutral cs = true -> dbok s -> dbok (apply_calls s cs).
Proof.
  induction cs as [|c r IH]; intros s H D; cbn; [exact D|].
  cbn in H. apply andb_true_iff in H. destruct H as [Hc Hr]. apply IH; [exact Hr|apply neutral_step; assumption].
Qed.

Lemma rm_calls_neutral m ks : forallb neutral (fst (rm_calls m ks)) = true.
Proof.
  induction ks as [|k r IH]; cbn; [reflexivity|].
  destruct (m_tx m k); [|reflexivity]. destruct (rm_calls m r) as [cs ok]. cbn in *. exact IH.
Qed.

Lemma unlock_all_neutral f lk : forallb neutral (unlock_all_calls f lk) = true.
Proof.
  unfold unlock_all_calls. induction lk as [|n r IH]; cbn; [reflexivity|].
  rewrite forallb_app, IH. destruct (f n) as [[|]|]; reflexivity.
Qed.

Lemma op_calls_neutral upgrade kp m o m1 cs r :
  op_effect upgrade kp m o = (m1, cs, r) -> (forall k, o <> OImport k) -> forallb neutral cs = true.
Proof.
  intros H Hn. destruct o; cbn [op_effect] in H.
  - unfold topup_calls in H. destruct (Nat.ltb s 4); inversion H; reflexivity.
  - inversion H; subst. destruct p; reflexivity.
  - destruct (is_mine m a); inversion H; reflexivity.
  - inversion H; subst. destruct u; reflexivity.
  - inversion H; reflexivity.
  - inversion H; reflexivity.
  - inversion H; subst. destruct persist; reflexivity.
  - inversion H; subst. destruct (m_locks m n) as [[|]|]; reflexivity.
  - inversion H; subst. apply unlock_all_neutral.
  - destruct (m_tx m k); inversion H; reflexivity.
  - pose proof (rm_calls_neutral m ks) as Rn. destruct (rm_calls m ks) as [cs0 ok] eqn:R. cbn [fst] in Rn.
    destruct ok; inversion H; subst; cbn; rewrite forallb_app, Rn; reflexivity.
  - unfold topup_calls in H. inversion H; reflexivity.
  - inversion H; reflexivity.
  - exfalso. eapply Hn. reflexivity.
  - inversion H; reflexivity.
  - inversion H; reflexivity.
Qed.

Lemma forallb_firstn' {A} (f : A -> bool) l k : forallb f l = true -> forallb f (firstn k l) = true.
Proof. apply forallb_firstn. Qed.

Lemma import_prefix_ok d k j :
  ok_db d ->
  ok_db (crash (apply_calls (mkDb d None) (firstn j [CWrite (KImpKey k) VUnit; CWrite (KImpCache k) VUnit; CWrite (KImpDesc k) VUnit; CWrite (KImpDesc k) VUnit]))).
Proof.
  intros H. destruct j as [|[|[|[|[|j]]]]]; cbn; intros k0; specialize (H k0); unfold load_ok_at in *; unfold db_set; cbn [key_eqb];
  try exact H; destruct (k0 =? k); try exact H; try reflexivity; destruct (d (KImpDesc k0)); reflexivity.
Qed.

(* at whatever database call an operation is interrupted, what is left on disk loads *)
Lemma crash_loads upgrade st o j :
  pending (w_db st) = None -> ok_db (committed (w_db st)) -> ok_db (crash_in upgrade st o j).
Proof.
  intros Hp Hok. unfold crash_in.
  destruct (op_effect upgrade (w_kp st) (w_mem st) o) as [[m1 cs] r] eqn:OE.
  destruct (w_db st) as [c p]. cbn in Hp, Hok. subst p.
  destruct o; try (apply neutral_calls; [apply forallb_firstn; eapply op_calls_neutral; [exact OE|intros k0; discriminate]|split; [exact Hok|discriminate]]).
  cbn [op_effect] in OE. inversion OE; subst. apply import_prefix_ok. exact Hok.
Qed.

Lemma firstn_length_all {A} (l : list A) : firstn (length l) l = l.
Proof. apply firstn_all. Qed.

Lemma step_ok upgrade st o st' r :
  synced st -> ok_db (committed (w_db st)) -> step upgrade st o = (st', r) -> ok_db (committed (w_db st')).
Proof.
  intros S Hok H. destruct (is_restart o) eqn:Ro.
  - rewrite step_restart in H by exact Ro. apply (f_equal fst) in H. cbn [fst] in H. rewrite <- H.
    destruct (reopen_props _ S) as (_ & _ & _ & _ & _ & _ & _ & _ & _ & _ & _ & _ & _ & K).
    intros k. specialize (Hok k). unfold load_ok_at in *.
    rewrite (K (KImpDesc k)), (K (KImpCache k)). exact Hok.
  - destruct S as [Hp _]. pose proof (crash_loads upgrade st o (length (snd (fst (op_effect upgrade (w_kp st) (w_mem st) o)))) Hp Hok) as C.
    unfold crash_in in C. rewrite step_normal in H by exact Ro.
    destruct (op_effect upgrade (w_kp st) (w_mem st) o) as [[m1 cs] r1] eqn:OE. cbn [fst snd] in C. rewrite firstn_all in C.
    inversion H; subst. exact C.
Qed.

Lemma run_ok upgrade ops : forall st rs st',
  synced st -> ok_db (committed (w_db st)) -> run upgrade st ops = (rs, st') ->
  synced st' /\ ok_db (committed (w_db st')).
Proof.
  induction ops as [|o r IH]; intros st rs st' S Hok H; cbn [run] in H.
  - inversion H; subst. split; assumption.
  - destruct (step upgrade st o) as [st1 x] eqn:E. destruct (run upgrade st1 r) as [xs st2] eqn:R. inversion H; subst; clear H.
    eapply IH; [eapply step_synced; eassumption|eapply step_ok; eassumption|exact R].
Qed.

(* C43, crash: after any history, a crash before any database call of any operation leaves a wallet that loads *)
Lemma crash_anywhere_loads upgrade kp ops o j :
  ok_db (crash_in upgrade (snd (run upgrade (init kp) ops)) o j).
Proof.
  destruct (run upgrade (init kp) ops) as [rs st] eqn:R. cbn [snd].
  destruct (init_synced kp) as [S0 _].
  assert (H0 : ok_db (committed (w_db (init kp)))) by (intros k; reflexivity).
  destruct (run_ok _ _ _ _ _ S0 H0 R) as [[Hp _] Hok]. apply crash_loads; assumption.
Qed.

Lemma crash_anywhere_atomic upgrade kp ops o j :
  is_txn_op o = true ->
  let st := snd (run upgrade (init kp) ops) in
  crash_in upgrade st o j = committed (w_db st) \/ crash_in upgrade st o j = committed (w_db (fst (step upgrade st o))).
Proof.
  intros Ho. destruct (run upgrade (init kp) ops) as [rs st] eqn:R. cbn [snd].
  destruct (init_synced kp) as [S0 _].
  assert (H0 : ok_db (committed (w_db (init kp)))) by (intros k; reflexivity).
  destruct (run_ok _ _ _ _ _ S0 H0 R) as [S _]. apply txn_all_or_nothing; assumption.
Qed.
