(* The chain side: what block_ok / chain_okb give (distinct txids, every spent outpoint was created in the chain), how the
   UTXO lookup changes when a block is connected or disconnected, and monotonicity of the median time past and of finality. *)
From Coq Require Import Sorting.Permutation.
From BV Require Import lib.Ints gen.Params_gen model.Locks model.Mempool proofs.LocksLemmas proofs.MempoolBase.
Local Open Scope Z_scope.

Definition ids_of (txs : list tx) : list Z := map t_id txs.

Lemma chain_txids_cons b c : chain_txids (b :: c) = ids_of (b_txs b) ++ chain_txids c.
Proof. reflexivity. Qed.
Lemma in_chain_txids c x : In x (chain_txids c) <-> exists b t, In b c /\ In t (b_txs b) /\ t_id t = x.
Proof.
  unfold chain_txids. rewrite in_flat_map. split.
  - intros (b & Hb & H). apply in_map_iff in H. destruct H as (t & E & Ht). eauto.
  - intros (b & t & Hb & Ht & E). exists b. split; [exact Hb|]. apply in_map_iff. eauto.
Qed.

Lemma height_cons b c : height (b :: c) = height c + 1.
Proof. unfold height. simpl length. lia. Qed.

(* ---- tx_creates / find_creator ---- *)
Lemma tx_creates_id t o : tx_creates t o = true -> fst o = t_id t.
Proof. unfold tx_creates. rewrite !andb_true_iff, Z.eqb_eq. tauto. Qed.

Lemma find_creator_Some c o h cb : find_creator c o = Some (h, cb) ->
  exists b t, In b c /\ In t (b_txs b) /\ tx_creates t o = true /\ cb = is_cb t /\ 0 <= h <= height c.
Proof.
  revert h cb. induction c as [|b r IH]; simpl; intros h cb H; [discriminate|].
  destruct (find _ (b_txs b)) as [t|] eqn:F.
  - inversion H; subst. apply find_some in F. destruct F as [F1 F2]. exists b, t.
    repeat split; auto; unfold height; simpl length; lia.
  - apply IH in H. destruct H as (b' & t & Hb & Ht & Hc & Hcb & Hh). exists b', t.
    repeat split; auto; try lia. rewrite height_cons. lia.
Qed.
Lemma find_creator_id c o x : find_creator c o = Some x -> In (fst o) (chain_txids c).
Proof.
  destruct x as [h cb]. intros H. apply find_creator_Some in H. destruct H as (b & t & Hb & Ht & Hc & _).
  apply in_chain_txids. exists b, t. repeat split; auto. symmetry. apply tx_creates_id. exact Hc.
Qed.
Lemma find_creator_None c o : ~ In (fst o) (chain_txids c) -> find_creator c o = None.
Proof. intros H. destruct (find_creator c o) eqn:F; [|reflexivity]. exfalso. apply H. eapply find_creator_id. exact F. Qed.
Lemma utxo_Some_creator c o x : utxo c o = Some x -> find_creator c o = Some x /\ spent_in_chain c o = false.
Proof. unfold utxo. destruct (spent_in_chain c o); [discriminate|auto]. Qed.
Lemma utxo_id c o : utxo c o <> None -> In (fst o) (chain_txids c).
Proof. destruct (utxo c o) eqn:E; [|tauto]. intros _. apply utxo_Some_creator in E. eapply find_creator_id. apply E. Qed.

Lemma spent_in_block_iff b o : spent_in_block b o = true <-> exists t, In t (b_txs b) /\ In o (t_ins t).
Proof.
  unfold spent_in_block. rewrite existsb_exists. split; intros (t & Ht & H); exists t; split; auto; apply memo_In; auto.
Qed.
Lemma spent_in_chain_cons b c o : spent_in_chain (b :: c) o = spent_in_block b o || spent_in_chain c o.
Proof. reflexivity. Qed.

(* ---- block_ok ---- *)
Lemma txs_ok_spec c : forall txs earlier spent, txs_ok c earlier spent txs = true ->
  forall pre t post, txs = pre ++ t :: post ->
    is_cb t = false /\ NoDup (t_ins t) /\
    forall o, In o (t_ins t) ->
      ~ In o spent /\ (forall t', In t' pre -> ~ In o (t_ins t')) /\
      (utxo c o <> None \/ exists t', (In t' earlier \/ In t' pre) /\ tx_creates t' o = true).
Proof.
  induction txs as [|a r IH]; intros earlier spent H pre t post E.
  - destruct pre; discriminate.
  - simpl in H. rewrite !andb_true_iff in H. destruct H as [[[H1 H2] H3] H4].
    destruct pre as [|a' pre]; simpl in E; inversion E; subst.
    + split; [apply negb_true_iff; exact H1|]. split; [apply nodupb_o_NoDup; exact H2|].
      intros o Ho. rewrite forallb_forall in H3. specialize (H3 o Ho). rewrite andb_true_iff, negb_true_iff, memo_false in H3.
      destruct H3 as [S C]. split; [exact S|]. split; [intros t' []|].
      apply orb_true_iff in C. destruct C as [C|C].
      * left. destruct (utxo c o); [discriminate|discriminate C].
      * right. apply existsb_exists in C. destruct C as (t' & Ht' & C). exists t'. auto.
    + destruct (IH _ _ H4 pre t post eq_refl) as (A & B & C). split; [exact A|]. split; [exact B|].
      intros o Ho. destruct (C o Ho) as (C1 & C2 & C3). split; [|split].
      * intros X. apply C1. apply in_app_iff. auto.
      * intros t' [<-|Ht']; [|apply C2; exact Ht']. intros X. apply C1. apply in_app_iff. auto.
      * destruct C3 as [C3|(t' & Ht' & C3)]; [left; exact C3|]. right. exists t'. split; [|exact C3].
        destruct Ht' as [Ht'|Ht']; [|right; right; exact Ht']. apply in_app_iff in Ht'. destruct Ht' as [Ht'|[<-|[]]]; auto.
        right. left. reflexivity.
Qed.

Record block_facts (c : chain) (b : block) : Prop := {
  bf_shape : exists cb rest, b_txs b = cb :: rest /\ is_cb cb = true /\ forall t, In t rest -> is_cb t = false;
  bf_nodup : NoDup (ids_of (b_txs b));
  bf_fresh : forall x, In x (ids_of (b_txs b)) -> ~ In x (chain_txids c);
  bf_time : mtp_tip c < b_time b;
  bf_height : height c + 1 < INT32_MAX;
  (* every input of every transaction is unspent in the chain or created by an earlier transaction of the block, and is
     not spent by an earlier transaction of the block *)
  bf_inputs : forall pre t post o, b_txs b = pre ++ t :: post -> In o (t_ins t) ->
     (forall t', In t' pre -> ~ In o (t_ins t')) /\ (utxo c o <> None \/ exists t', In t' pre /\ tx_creates t' o = true);
  bf_ins_nodup : forall t, In t (b_txs b) -> NoDup (t_ins t) }.

Lemma is_cb_ins t : is_cb t = true -> t_ins t = [].
Proof. unfold is_cb, t_ins. destruct (t_vin t); simpl; [reflexivity|discriminate]. Qed.

Lemma block_ok_facts c b : block_ok c b = true -> block_facts c b.
Proof.
  unfold block_ok. destruct (b_txs b) as [|cb rest] eqn:E; [discriminate|].
  rewrite !andb_true_iff, negb_true_iff, !Z.ltb_lt. intros [[[[[H1 H2] H3] H4] H5] H6].
  pose proof (txs_ok_spec c rest [] [] H5) as S.
  constructor; rewrite ?E.
  - exists cb, rest. split; [reflexivity|]. split; [exact H1|]. intros t Ht. apply in_split in Ht.
    destruct Ht as (pre & post & ->). apply (S pre t post eq_refl).
  - apply nodupb_z_NoDup. exact H2.
  - intros x Hx. apply (proj1 (intersects_false _ _) H3). exact Hx.
  - exact H4.
  - exact H6.
  - intros pre t post o Ep Ho. destruct pre as [|x pre]; simpl in Ep; inversion Ep; subst.
    + rewrite (is_cb_ins _ H1) in Ho. destruct Ho.
    + destruct (S pre t post eq_refl) as (_ & _ & C). destruct (C o Ho) as (_ & C2 & C3). split.
      * intros t' [<-|Ht']; [rewrite (is_cb_ins _ H1); intros []|apply C2; exact Ht'].
      * destruct C3 as [C3|(t' & [[]|Ht'] & C3)]; [left; exact C3|]. right. exists t'. split; [right; exact Ht'|exact C3].
  - intros t [<-|Ht]; [rewrite (is_cb_ins _ H1); constructor|]. apply in_split in Ht.
    destruct Ht as (pre & post & ->). apply (S pre t post eq_refl).
Qed.

(* ---- chain_okb ---- *)
Lemma chain_ok_nonempty c : chain_okb c = true -> c <> [].
Proof. destruct c; simpl; [discriminate|discriminate]. Qed.
Lemma chain_ok_inv b c : c <> [] -> chain_okb (b :: c) = true -> block_ok c b = true /\ chain_okb c = true.
Proof. destruct c as [|b' c]; [tauto|]. intros _. simpl. rewrite andb_true_iff. tauto. Qed.
Lemma chain_ok_cons b c : c <> [] -> block_ok c b = true -> chain_okb c = true -> chain_okb (b :: c) = true.
Proof. destruct c as [|b' c]; [tauto|]. intros _ H1 H2. change (block_ok (b' :: c) b && chain_okb (b' :: c) = true). rewrite H1, H2. reflexivity. Qed.

Lemma NoDup_app_intro {A} (a b : list A) : NoDup a -> NoDup b -> (forall x, In x a -> ~ In x b) -> NoDup (a ++ b).
Proof.
  induction a as [|x a IH]; simpl; intros Na Nb D; [exact Nb|].
  inversion Na; subst. constructor.
  - rewrite in_app_iff. intros [H|H]; [tauto|]. apply (D x); auto.
  - apply IH; auto.
Qed.

Lemma chain_ok_nodup c : chain_okb c = true -> NoDup (chain_txids c).
Proof.
  induction c as [|b r IH]; intros H; [discriminate|].
  destruct r as [|b' r].
  - simpl in H. apply andb_true_iff in H. destruct H as [_ H]. simpl. rewrite app_nil_r. apply nodupb_z_NoDup. exact H.
  - apply chain_ok_inv in H; [|discriminate]. destruct H as [H1 H2]. apply block_ok_facts in H1.
    rewrite chain_txids_cons. apply NoDup_app_intro; [exact (bf_nodup _ _ H1)|apply IH; exact H2|exact (bf_fresh _ _ H1)].
Qed.

(* every outpoint a transaction of the chain spends was created by a transaction of the chain *)
Lemma chain_ok_spent c : chain_okb c = true -> forall o, spent_in_chain c o = true -> In (fst o) (chain_txids c).
Proof.
  induction c as [|b r IH]; intros H o S; [discriminate|].
  destruct r as [|b' r].
  - exfalso. simpl in H. apply andb_true_iff in H. destruct H as [H _]. rewrite forallb_forall in H.
    simpl in S. rewrite orb_false_r in S. apply spent_in_block_iff in S. destruct S as (t & Ht & Ho).
    rewrite (is_cb_ins t (H t Ht)) in Ho. destruct Ho.
  - apply chain_ok_inv in H; [|discriminate]. destruct H as [H1 H2]. apply block_ok_facts in H1.
    rewrite spent_in_chain_cons in S. rewrite chain_txids_cons. apply in_app_iff.
    apply orb_true_iff in S. destruct S as [S|S]; [|right; apply IH; assumption].
    apply spent_in_block_iff in S. destruct S as (t & Ht & Ho). apply in_split in Ht. destruct Ht as (pre & post & E).
    destruct (bf_inputs _ _ H1 pre t post o E Ho) as [_ [U|(t' & Ht' & C)]].
    + right. apply utxo_id. exact U.
    + left. unfold ids_of. rewrite E. rewrite (tx_creates_id _ _ C). apply in_map. apply in_app_iff. auto.
Qed.

(* ---- connecting a block ---- *)
Section Connect.
  Variables (c : chain) (b : block).
  Hypothesis Hc : chain_okb c = true.
  Hypothesis Hb : block_ok c b = true.
  Let F := block_ok_facts c b Hb.

  Lemma find_in_block_None o : In (fst o) (chain_txids c) -> find (fun t => tx_creates t o) (b_txs b) = None.
  Proof.
    intros H. destruct (find _ _) as [t|] eqn:E; [|reflexivity]. exfalso. apply find_some in E. destruct E as [E1 E2].
    apply (bf_fresh _ _ F (t_id t)); [apply in_map; exact E1|]. rewrite <- (tx_creates_id _ _ E2). exact H.
  Qed.

  Lemma utxo_connect_old o x : utxo c o = Some x -> spent_in_block b o = false -> utxo (b :: c) o = Some x.
  Proof.
    intros U S. pose proof (utxo_Some_creator _ _ _ U) as [U1 U2]. unfold utxo. rewrite spent_in_chain_cons, S, U2. simpl.
    rewrite find_in_block_None; [exact U1|]. eapply find_creator_id. exact U1.
  Qed.

  Lemma find_unique_id t o : In t (b_txs b) -> tx_creates t o = true -> find (fun t => tx_creates t o) (b_txs b) = Some t.
  Proof.
    intros Ht Ct. destruct (find _ _) as [t'|] eqn:E.
    - apply find_some in E. destruct E as [E1 E2]. f_equal.
      pose proof (bf_nodup _ _ F) as N. unfold ids_of in N.
      assert (t_id t' = t_id t) as Eid by (rewrite <- (tx_creates_id _ _ E2), <- (tx_creates_id _ _ Ct); reflexivity).
      clear -N E1 Ht Eid. induction (b_txs b) as [|a l IH]; [destruct Ht|]. simpl in N. inversion N; subst.
      destruct E1 as [->|E1], Ht as [->|Ht]; auto.
      + exfalso. apply H1. rewrite Eid. apply in_map. exact Ht.
      + exfalso. apply H1. rewrite <- Eid. apply in_map. exact E1.
    - exfalso. pose proof (find_none _ _ E t Ht) as X. simpl in X. congruence.
  Qed.

  Lemma utxo_connect_new t o : In t (b_txs b) -> tx_creates t o = true -> spent_in_block b o = false ->
    utxo (b :: c) o = Some (Z.of_nat (length c), is_cb t).
  Proof.
    intros Ht Ct S. unfold utxo. rewrite spent_in_chain_cons, S. simpl.
    destruct (spent_in_chain c o) eqn:Sc.
    - exfalso. apply (bf_fresh _ _ F (t_id t)); [apply in_map; exact Ht|]. rewrite <- (tx_creates_id _ _ Ct).
      apply chain_ok_spent; assumption.
    - rewrite (find_unique_id t o Ht Ct). reflexivity.
  Qed.
End Connect.

(* the other direction needs no well-formedness *)
Lemma utxo_cons_inv b c o h cb : utxo (b :: c) o = Some (h, cb) ->
  utxo c o = Some (h, cb) \/ exists t, In t (b_txs b) /\ tx_creates t o = true /\ cb = is_cb t /\ h = Z.of_nat (length c).
Proof.
  unfold utxo. rewrite spent_in_chain_cons. destruct (spent_in_block b o); [discriminate|]. simpl.
  destruct (spent_in_chain c o); [discriminate|]. destruct (find _ (b_txs b)) as [t|] eqn:E.
  - intros X. inversion X; subst. right. apply find_some in E. exists t. tauto.
  - auto.
Qed.
Lemma utxo_disconnect b c o : utxo (b :: c) o <> None -> utxo c o <> None \/ exists t, In t (b_txs b) /\ tx_creates t o = true.
Proof.
  destruct (utxo (b :: c) o) as [[h cb]|] eqn:E; [|tauto]. intros _. apply utxo_cons_inv in E.
  destruct E as [E|(t & A & B & _)]; [left; congruence|right; eauto].
Qed.

(* ---- median time past ---- *)
Lemma times_cons b c : times (b :: c) = times c ++ [b_time b].
Proof. reflexivity. Qed.
Lemma times_length c : length (times c) = length c.
Proof. unfold times. rewrite rev_length, map_length. reflexivity. Qed.

Lemma mtp_tip_some c : c <> [] -> mtp_at (times c) (height c) = Some (mtp_tip c).
Proof.
  intros H. unfold mtp_tip. destruct (mtp_at_some (times c) (height c)) as (m & E).
  - rewrite times_length. unfold height. destruct c; [tauto|]. simpl length. lia.
  - rewrite E. reflexivity.
Qed.

Lemma count_lt_app m a b : count_lt m (a ++ b) = (count_lt m a + count_lt m b)%nat.
Proof. unfold count_lt. rewrite filter_app, app_length. reflexivity. Qed.
Lemma count_lt_skipn m k l : (count_lt m (skipn k l) <= count_lt m l)%nat.
Proof.
  revert l. induction k as [|k IH]; intros l; simpl; [lia|]. destruct l as [|a l]; [simpl; lia|].
  rewrite count_lt_cons. specialize (IH l). lia.
Qed.

Lemma skipn_skipn' {A} (x y : nat) (l : list A) : skipn x (skipn y l) = skipn (y + x) l.
Proof.
  revert l. induction y as [|y IH]; intros l; simpl; [reflexivity|]. destruct l as [|a l]; [destruct x; reflexivity|]. apply IH.
Qed.
Lemma last_times_tip l : l <> [] ->
  last_times l (length l - 1) = skipn (length l - Nat.min 11 (length l)) l.
Proof.
  intros H. unfold last_times. assert (0 < length l)%nat by (destruct l; [tauto|simpl; lia]).
  replace (length l - 1 + 1)%nat with (length l) by lia.
  apply firstn_all2. rewrite skipn_length. lia.
Qed.

Lemma mtp_monotone l t m m' : l <> [] ->
  mtp_at l (Z.of_nat (length l) - 1) = Some m -> m < t ->
  mtp_at (l ++ [t]) (Z.of_nat (length l)) = Some m' -> m <= m'.
Proof.
  intros Hl Hm Ht Hm'.
  assert (0 < length l)%nat as Lp by (destruct l; [tauto|simpl; lia]).
  apply mtp_at_iff in Hm, Hm'. destruct Hm as [_ Hm], Hm' as [_ Hm'].
  replace (Z.to_nat (Z.of_nat (length l) - 1)) with (length l - 1)%nat in Hm by lia.
  rewrite Nat2Z.id in Hm'.
  rewrite (last_times_tip l Hl) in Hm.
  assert (last_times (l ++ [t]) (length l) = skipn (length l + 1 - Nat.min 11 (length l + 1)) l ++ [t]) as E.
  { pose proof (last_times_tip (l ++ [t])) as X. rewrite app_length in X. simpl length in X.
    replace (length l + 1 - 1)%nat with (length l) in X by lia. rewrite X by (destruct l; discriminate).
    rewrite skipn_app. f_equal. replace (length l + 1 - Nat.min 11 (length l + 1) - length l)%nat with 0%nat by lia. reflexivity. }
  rewrite E in Hm'. clear E.
  set (w := skipn (length l - Nat.min 11 (length l)) l) in *.
  set (k' := (length l + 1 - Nat.min 11 (length l + 1))%nat) in *.
  assert (skipn k' l = skipn (k' - (length l - Nat.min 11 (length l))) w) as Ew.
  { unfold w. rewrite skipn_skipn'. f_equal. unfold k'. lia. }
  rewrite Ew in Hm'.
  set (j := (k' - (length l - Nat.min 11 (length l)))%nat) in *.
  apply median_of_counts in Hm, Hm'.
  destruct Hm as (_ & Hlt & _), Hm' as (_ & _ & Hle').
  destruct (Z_lt_le_dec m' m) as [Lt|Ge]; [|exact Ge]. exfalso.
  pose proof (count_le_lt_mono m' m (skipn j w ++ [t]) Lt) as M.
  rewrite count_lt_app in M.
  assert (count_lt m [t] = 0)%nat as Z0.
  { unfold count_lt. simpl. destruct (Z.ltb_spec t m); [lia|reflexivity]. }
  pose proof (count_lt_skipn m j w) as Sk.
  assert (length w <= length (skipn j w ++ [t]))%nat as Len.
  { rewrite app_length, skipn_length. simpl. unfold w, j, k'. rewrite skipn_length. lia. }
  assert (Nat.div (length w) 2 <= Nat.div (length (skipn j w ++ [t])) 2)%nat as D by (apply Nat.div_le_mono; lia).
  lia.
Qed.

Lemma mtp_tip_mono b c : c <> [] -> mtp_tip c < b_time b -> mtp_tip c <= mtp_tip (b :: c).
Proof.
  intros Hc Ht. pose proof (mtp_tip_some c Hc) as A. pose proof (mtp_tip_some (b :: c)) as B.
  rewrite times_cons, height_cons in B. specialize (B ltac:(discriminate)).
  unfold height in A, B. rewrite <- times_length in A, B.
  replace (Z.of_nat (length (times c)) - 1 + 1) with (Z.of_nat (length (times c))) in B by lia.
  eapply mtp_monotone; [|exact A|exact Ht|exact B].
  intros E. apply Hc. apply (f_equal (@length Z)) in E. rewrite times_length in E. destruct c; [reflexivity|discriminate].
Qed.

(* ---- finality is monotone in (height, time) ---- *)
Lemma is_final_mono t h m h' m' : 0 <= lt_locktime t <= 4294967295 ->
  -2147483648 <= h <= 2147483647 -> -2147483648 <= h' <= 2147483647 -> h <= h' -> m <= m' ->
  is_final_tx t h m = true -> is_final_tx t h' m' = true.
Proof.
  intros Hl Hh Hh' L1 L2. rewrite !is_final_iff by assumption. intros [A|[A|[A|A]]]; [auto| | |auto].
  - right. left. lia.
  - right. right. left. lia.
Qed.

(* ---- cached lock points ---- *)
Lemma block_id_at_cons b c h : 0 <= h <= height c -> block_id_at (b :: c) h = block_id_at c h.
Proof.
  intros Hh. unfold block_id_at. destruct (Z.ltb_spec h 0); [lia|]. simpl. rewrite nth_error_app1; [reflexivity|].
  rewrite rev_length, map_length. unfold height in Hh. lia.
Qed.
Lemma block_id_at_range c h x : block_id_at c h = Some x -> 0 <= h <= height c.
Proof.
  unfold block_id_at. destruct (Z.ltb_spec h 0); [discriminate|]. intros E.
  assert (nth_error (rev (map b_id c)) (Z.to_nat h) <> None) as X by congruence.
  apply nth_error_Some in X. rewrite rev_length, map_length in X. unfold height. lia.
Qed.
Lemma lock_points_valid_cons b c lp : lock_points_valid c lp = true -> lock_points_valid (b :: c) lp = true.
Proof.
  unfold lock_points_valid. destruct (block_id_at c (lp_maxh lp)) eqn:E; [|discriminate].
  rewrite (block_id_at_cons b c _ (block_id_at_range _ _ _ E)), E. auto.
Qed.

Lemma last_times_app l l' h : (h < length l)%nat -> last_times (l ++ l') h = last_times l h.
Proof.
  intros Hh. unfold last_times. set (n := Nat.min 11 (h + 1)). set (k := (h + 1 - n)%nat).
  assert (k + n <= length l)%nat as L by (unfold k, n; lia).
  rewrite skipn_app. replace (k - length l)%nat with 0%nat by lia. simpl skipn at 2.
  rewrite firstn_app. rewrite skipn_length. replace (n - (length l - k))%nat with 0%nat by lia. simpl. apply app_nil_r.
Qed.
Lemma mtp_at_app l l' h : 0 <= h < Z.of_nat (length l) -> mtp_at (l ++ l') h = mtp_at l h.
Proof.
  intros Hh. destruct (mtp_at_some l h Hh) as (m & E). rewrite E. apply mtp_at_iff. apply mtp_at_iff in E. destruct E as [_ E].
  split; [rewrite app_length; lia|]. rewrite last_times_app by lia. exact E.
Qed.

(* EvaluateSequenceLocks for the block after the tip: the lock height is below height + 1 and the lock time below the
   median time past of the tip *)
Lemma check_seq_locks_iff c lp : c <> [] ->
  (check_seq_locks c lp = true <-> lp_height lp < height c + 1 /\ lp_time lp < mtp_tip c).
Proof.
  intros Hc. unfold check_seq_locks, evaluate_sequence_locks.
  assert (block_height (times c ++ [0]) = height c + 1) as EH.
  { unfold block_height, height. rewrite app_length, times_length. simpl. lia. }
  rewrite EH. assert (0 <= height c) as Hh by (unfold height; destruct c; [tauto|simpl length; lia]).
  destruct (Z.ltb_spec (height c + 1) 1); [lia|].
  replace (height c + 1 - 1) with (height c) by lia.
  rewrite mtp_at_app by (rewrite times_length; unfold height in *; lia). rewrite (mtp_tip_some c Hc).
  rewrite negb_true_iff, orb_false_iff. split; [intros [A B]|intros [A B]]; lia.
Qed.
Lemma check_seq_locks_cons b c lp : c <> [] -> mtp_tip c < b_time b ->
  check_seq_locks c lp = true -> check_seq_locks (b :: c) lp = true.
Proof.
  intros Hc Ht H. apply (check_seq_locks_iff c lp Hc) in H. apply check_seq_locks_iff; [discriminate|].
  rewrite height_cons. pose proof (mtp_tip_mono b c Hc Ht). lia.
Qed.
