(* C49 — AEADChaCha20Poly1305: Encrypt is RFC 8439 section 2.8 for every split of the plaintext;
   Decrypt accepts exactly when the 16 supplied tag bytes equal the Poly1305 tag of (aad, ciphertext)
   under the one-time key, and then returns the plaintext; round trip; tamper rejection. *)
From Coq Require Import NArith Arith.
From BV Require Import lib.Ints model.CryptoBase model.CryptoMD model.CryptoChaCha model.CryptoPoly1305 model.CryptoAEAD
  proofs.CryptoBaseLemmas proofs.CryptoMDLemmas proofs.CryptoChaChaLemmas proofs.CryptoPoly1305Lemmas.
Local Open Scope Z_scope.

(* conversion should never unfold the block function (it only affects the order in which the
   kernel unfolds constants, not what is provable) *)
Strategy 1000 [chacha20_block_words chacha20_block aligned_block inner_block poly1305_update poly1305_finish poly1305_init].

(* ---------- the tag comparison loop looks at all n bytes ---------- *)
Lemma fold_lor_zero : forall (l : list (N * N)) acc,
  fold_left (fun ret xy => N.lor ret (N.lxor (fst xy) (snd xy))) l acc = 0%N <->
  acc = 0%N /\ Forall (fun xy => fst xy = snd xy) l.
Proof.
  induction l as [|[x y] l IH]; intros acc; cbn [fold_left fst snd].
  - split; [intros H; split; [exact H | constructor] | intros [H _]; exact H].
  - rewrite IH. rewrite N.lor_eq_0_iff, N.lxor_eq_0_iff. split.
    + intros [[Ha Hxy] Hl]. split; [exact Ha|]. constructor; [exact Hxy | exact Hl].
    + intros [Ha Hl]. inversion Hl as [|? ? Hxy Hl']. subst. cbn [fst snd] in Hxy. auto.
Qed.

Lemma combine_forall_eq : forall (a b : list N), length a = length b ->
  Forall (fun xy => fst xy = snd xy) (combine a b) -> a = b.
Proof.
  induction a as [|x a IH]; intros [|y b] Hl Hf; simpl in *; try discriminate; [reflexivity|].
  inversion Hf as [|? ? Hxy Hf']. subst. cbn [fst snd] in Hxy. f_equal; [exact Hxy|]. apply IH; [lia | exact Hf'].
Qed.

Lemma combine_forall_refl : forall (a : list N), Forall (fun xy => fst xy = snd xy) (combine a a).
Proof. induction a as [|x a IH]; simpl; constructor; auto. Qed.

(* timingsafe_bcmp_internal(a, b, n) returns 0 exactly when the n bytes are equal *)
Lemma timingsafe_bcmp_false_iff a b n : length a = n -> length b = n ->
  timingsafe_bcmp a b n = false <-> a = b.
Proof.
  intros Ha Hb. unfold timingsafe_bcmp. rewrite negb_false_iff, N.eqb_eq, fold_lor_zero.
  rewrite !firstn_all2 by lia. split.
  - intros [_ Hf]. apply combine_forall_eq; [lia | exact Hf].
  - intros ->. split; [reflexivity | apply combine_forall_refl].
Qed.

(* ---------- ComputeTag ---------- *)
Lemma le32_words_length_8 : forall key, length key = 32%nat -> length (le32_words key) = 8%nat.
Proof.
  intros key Hl. do 32 (destruct key as [|? key]; [discriminate|]). destruct key; [reflexivity | discriminate].
Qed.

Lemma ak_one inp : aligned_keystream 1 inp = (aligned_block inp ++ [], aligned_next inp).
Proof. reflexivity. Qed.

Lemma take_from_empty n inp : (0 < n)%nat ->
  take n (inp, []) =
  (firstn n (fst (aligned_keystream (blocks_needed n) inp)),
   (snd (aligned_keystream (blocks_needed n) inp), skipn n (fst (aligned_keystream (blocks_needed n) inp)))).
Proof.
  intros Hn. unfold take. cbn [length]. destruct (n <=? 0)%nat eqn:E; [apply Nat.leb_le in E; lia|].
  rewrite Nat.sub_0_r. destruct (aligned_keystream (blocks_needed n) inp) as [ks inp']. reflexivity.
Qed.

Lemma blocks_needed_64 : blocks_needed 64 = 1%nat.
Proof. apply (bn_exact 1). Qed.

Lemma chacha20_block_length key ctr nonce : length (le32_words key) = 8%nat -> length (le32_words nonce) = 3%nat ->
  length (chacha20_block key ctr nonce) = 64%nat.
Proof. intros Hk Hn. unfold chacha20_block. rewrite block_words_length, !app_length, Hk, Hn. reflexivity. Qed.

Lemma take64_at_0 key nonce : length (le32_words key) = 8%nat -> length (le32_words nonce) = 3%nat ->
  take 64 (rfc_input (le32_words key) 0 (le32_words nonce), []) =
  (chacha20_block key 0 nonce, (rfc_input (le32_words key) 1 (le32_words nonce), [])).
Proof.
  intros Hk Hn3. rewrite take_from_empty by lia. rewrite blocks_needed_64, ak_one. cbn [fst snd].
  rewrite aligned_next_rfc by (try assumption; lia). rewrite aligned_block_rfc.
  pose proof (chacha20_block_length key 0 nonce Hk Hn3) as Hbl64.
  rewrite app_nil_r. rewrite firstn_all2 by lia. rewrite skipn_all2 by lia. reflexivity.
Qed.

Lemma keystream64_at_0 c key nonce : positioned c key nonce 0 ->
  fst (chacha20_keystream c 64) = chacha20_block key 0 nonce /\ positioned (snd (chacha20_keystream c 64)) key nonce 1.
Proof.
  intros (Hin & Hk & Hn3 & Hbuf & Hbl).
  assert (Hok : input_ok (cc_input c)) by (rewrite Hin; apply rfc_input_ok; assumption).
  assert (HR : Rc c (cc_input c, [])).
  { unfold Rc. cbn [fst snd]. rewrite Hbl. repeat split; auto; try lia. rewrite skipn_all2 by lia. reflexivity. }
  destruct (keystream_refines c _ 64 HR) as [Ho HR1].
  rewrite Hin in Ho, HR1. rewrite (take64_at_0 key nonce Hk Hn3) in Ho, HR1. cbn [fst snd] in Ho, HR1.
  split; [exact Ho|].
  pose proof (Rc_left_length _ _ HR1) as Hll. cbn [snd length] in Hll.
  destruct HR1 as (Hin1 & _ & Hbuf1 & _ & _). cbn [fst] in Hin1.
  exact (conj Hin1 (conj Hk (conj Hn3 (conj Hbuf1 (eq_sym Hll))))).
Qed.

Lemma firstn_zeros k n : (k <= n)%nat -> firstn k (zeros n) = zeros k.
Proof. intros H. unfold zeros. apply firstn_repeat'. exact H. Qed.

Lemma poly1305_stream_5 pbuf k a b c d e :
  poly1305_finish (poly1305_update (poly1305_update (poly1305_update (poly1305_update (poly1305_update
    (poly1305_init pbuf k) a) b) c) d) e) = poly1305_stream pbuf k [a; b; c; d; e].
Proof. unfold poly1305_stream. cbn [fold_left]. reflexivity. Qed.

Lemma compute_tag_spec pbuf c key nonce aad ct :
  positioned c key nonce 0 -> length pbuf = 16%nat ->
  Z.of_nat (length aad) < 2 ^ 64 -> Z.of_nat (length ct) < 2 ^ 64 ->
  fst (compute_tag pbuf c aad ct) = aead_tag_spec key nonce aad ct /\
  positioned (snd (compute_tag pbuf c aad ct)) key nonce 1.
Proof.
  intros Hpos Hpb Ha Hc. unfold compute_tag.
  destruct (keystream64_at_0 c key nonce Hpos) as [Hblk Hpos1].
  destruct (chacha20_keystream c 64) as [first_block c1]. cbn [fst snd] in *. split; [|exact Hpos1].
  subst first_block. fold (poly1305_key_gen key nonce).
  set (otk := poly1305_key_gen key nonce).
  set (pa := firstn ((16 - length aad mod 16) mod 16) (zeros 16)).
  set (pc := firstn ((16 - length ct mod 16) mod 16) (zeros 16)).
  set (ld := le_bytes 8 (wrapu64 (Z.of_nat (length aad))) ++ le_bytes 8 (wrapu64 (Z.of_nat (length ct)))).
  rewrite poly1305_stream_5.
  rewrite poly1305_stream_eq_spec by exact Hpb.
  unfold aead_tag_spec. f_equal. cbn [concat]. rewrite app_nil_r.
  unfold aead_mac_data, pad16, pa, pc, ld.
  rewrite !firstn_zeros by (pose proof (Nat.mod_upper_bound (16 - length aad mod 16) 16 ltac:(lia));
                            pose proof (Nat.mod_upper_bound (16 - length ct mod 16) 16 ltac:(lia)); lia).
  rewrite !wrapu64_id by (unfold UINT64_MAX; change (2 ^ 64) with 18446744073709551616 in *; lia).
  rewrite <- ?app_assoc. reflexivity.
Qed.

Lemma poly1305_spec_length key msg : length (poly1305_spec key msg) = 16%nat.
Proof. unfold poly1305_spec. apply le_bytes_length. Qed.

(* ---------- Crypt keeps lengths ---------- *)
Lemma crypt_length c st d : Rc c st -> length (fst (chacha20_crypt c d)) = length d.
Proof.
  intros HR. rewrite (crypt_is_xor_keystream c st d HR). cbn [fst].
  destruct (keystream_refines c st (length d) HR) as [Ho _]. rewrite Ho.
  destruct HR as (_ & Hok & _). destruct (take_future (length d) st Hok) as [Hl _].
  rewrite xor_bytes_length, Hl. lia.
Qed.

Lemma positioned_Rc c key nonce ctr : positioned c key nonce ctr -> Rc c (cc_input c, []).
Proof.
  intros (Hin & Hk & Hn3 & Hbuf & Hbl). unfold Rc. cbn [fst snd]. rewrite Hbl.
  repeat split; auto; try lia.
  - rewrite Hin. apply rfc_input_ok; assumption.
  - rewrite skipn_all2 by lia. reflexivity.
Qed.

Lemma positioned_key_loaded c key nonce ctr : positioned c key nonce ctr -> key_loaded c key.
Proof.
  intros (Hin & Hk & Hn3 & Hbuf & Hbl). unfold key_loaded. repeat split; auto.
  rewrite Hin. unfold rfc_input. rewrite <- Hk at 1. apply firstn_exact_app.
Qed.

(* two consecutive Crypt calls from a position: outputs and the key survive *)
Lemma crypt2_positioned c key nonce ctr d1 d2 :
  positioned c key nonce ctr -> 0 <= ctr ->
  ctr + Z.of_nat (blocks_needed (length (d1 ++ d2))) <= 2 ^ 32 ->
  let r1 := chacha20_crypt c d1 in
  let r2 := chacha20_crypt (snd r1) d2 in
  fst r1 ++ fst r2 = chacha20_encrypt key ctr nonce (d1 ++ d2) /\
  length (fst r1) = length d1 /\ length (fst r2) = length d2 /\
  key_loaded (snd r2) key.
Proof.
  intros Hpos Hc Hov r1 r2.
  pose proof (chacha20_positioned_is_rfc8439 c key nonce ctr [d1; d2] Hpos Hc) as Hrfc.
  cbn [concat chacha20_crypt_seq] in Hrfc. rewrite app_nil_r in Hrfc.
  pose proof (positioned_Rc _ _ _ _ Hpos) as HR.
  pose proof (positioned_key_loaded _ _ _ _ Hpos) as Hkl.
  pose proof (run_op_as_take c _ (OpCrypt d1) HR) as [_ HR1].
  pose proof (run_op_keeps c _ (OpCrypt d1) key HR Hkl) as Hkl1.
  pose proof (crypt_length c _ d1 HR) as Hl1.
  cbn [cc_run_op] in HR1, Hkl1.
  fold r1 in HR1, Hkl1, Hl1.
  pose proof (run_op_keeps (snd r1) _ (OpCrypt d2) key HR1 Hkl1) as Hkl2.
  pose proof (crypt_length (snd r1) _ d2 HR1) as Hl2.
  cbn [cc_run_op] in Hkl2. fold r2 in Hkl2, Hl2.
  subst r1 r2.
  destruct (chacha20_crypt c d1) as [o1 c2]. cbn [fst snd] in *.
  destruct (chacha20_crypt c2 d2) as [o2 c3]. cbn [fst snd concat] in *.
  rewrite app_nil_r in Hrfc. rewrite Hrfc by exact Hov. auto.
Qed.

Lemma blocks_bound n : 1 + Z.of_nat (blocks_needed n) <= 2 ^ 32 -> Z.of_nat n < 2 ^ 64.
Proof.
  intros H. pose proof (blocks_needed_ge n).
  change (2 ^ 32) with 4294967296 in H. change (2 ^ 64) with 18446744073709551616. lia.
Qed.

(* ---------- Encrypt ---------- *)
Theorem aead_encrypt_is_rfc8439 pbuf c key plain1 plain2 aad nf ns :
  key_loaded c key -> length pbuf = 16%nat ->
  0 <= nf < 2 ^ 32 -> 0 <= ns < 2 ^ 64 ->
  1 + Z.of_nat (blocks_needed (length (plain1 ++ plain2))) <= 2 ^ 32 ->
  Z.of_nat (length aad) < 2 ^ 64 ->
  fst (aead_encrypt pbuf c plain1 plain2 aad nf ns) = aead_encrypt_spec key (rfc_nonce nf ns) aad (plain1 ++ plain2) /\
  key_loaded (snd (aead_encrypt pbuf c plain1 plain2 aad nf ns)) key.
Proof.
  intros Hkl Hpb Hf Hs Hov Ha. unfold aead_encrypt.
  set (nonce := rfc_nonce nf ns).
  pose proof (seek_positioned c key nf ns 1 Hkl Hf Hs) as Hpos1. fold nonce in Hpos1.
  destruct (crypt2_positioned _ key nonce 1 plain1 plain2 Hpos1 ltac:(lia) Hov) as (Hct & Hl1 & Hl2 & Hkl3).
  destruct (chacha20_crypt (chacha20_seek c nf ns 1) plain1) as [o1 c2]. cbn [fst snd] in *.
  destruct (chacha20_crypt c2 plain2) as [o2 c3]. cbn [fst snd] in *.
  pose proof (seek_positioned c3 key nf ns 0 Hkl3 Hf Hs) as Hpos0. fold nonce in Hpos0.
  assert (Hctl : Z.of_nat (length (o1 ++ o2)) < 2 ^ 64).
  { rewrite app_length, Hl1, Hl2, <- app_length. apply blocks_bound. exact Hov. }
  destruct (compute_tag_spec pbuf _ key nonce aad (o1 ++ o2) Hpos0 Hpb Ha Hctl) as [Htag Hpos5].
  destruct (compute_tag pbuf (chacha20_seek c3 nf ns 0) aad (o1 ++ o2)) as [tag c5]. cbn [fst snd] in *.
  split.
  - unfold aead_encrypt_spec. rewrite <- Hct, Htag, app_assoc. reflexivity.
  - eapply positioned_key_loaded. exact Hpos5.
Qed.

(* ---------- Decrypt ---------- *)
Lemma firstn_add_split {A} (a b : nat) (l : list A) : firstn (a + b) l = firstn a l ++ firstn b (skipn a l).
Proof.
  revert l. induction a as [|a IH]; intros l; [reflexivity|].
  destruct l as [|x l]; [destruct b; reflexivity|]. cbn [Nat.add firstn skipn app]. f_equal. apply IH.
Qed.

Theorem aead_decrypt_characterised pbuf c key cipher aad nf ns len1 :
  key_loaded c key -> length pbuf = 16%nat ->
  0 <= nf < 2 ^ 32 -> 0 <= ns < 2 ^ 64 ->
  (16 <= length cipher)%nat -> (len1 <= length cipher - 16)%nat ->
  1 + Z.of_nat (blocks_needed (length cipher - 16)) <= 2 ^ 32 ->
  Z.of_nat (length aad) < 2 ^ 64 ->
  let ct := firstn (length cipher - 16) cipher in
  let tag := skipn (length cipher - 16) cipher in
  let pt := chacha20_encrypt key 1 (rfc_nonce nf ns) ct in
  (tag = aead_tag_spec key (rfc_nonce nf ns) aad ct ->
     fst (aead_decrypt pbuf c cipher aad nf ns len1) = Some (firstn len1 pt, skipn len1 pt)) /\
  (tag <> aead_tag_spec key (rfc_nonce nf ns) aad ct ->
     fst (aead_decrypt pbuf c cipher aad nf ns len1) = None) /\
  key_loaded (snd (aead_decrypt pbuf c cipher aad nf ns len1)) key.
Proof.
  intros Hkl Hpb Hf Hs H16 Hlen1 Hov Ha ct tag pt.
  set (nonce := rfc_nonce nf ns) in *.
  set (ctlen := (length cipher - 16)%nat) in *.
  assert (Hctl : length ct = ctlen) by (unfold ct; apply firstn_length_le; unfold ctlen; lia).
  assert (Htl : length tag = 16%nat) by (unfold tag; rewrite skipn_length; unfold ctlen; lia).
  unfold aead_decrypt. fold ctlen. fold ct. fold tag.
  pose proof (seek_positioned c key nf ns 0 Hkl Hf Hs) as Hpos0. fold nonce in Hpos0.
  assert (Hctz : Z.of_nat (length ct) < 2 ^ 64) by (rewrite Hctl; apply blocks_bound; exact Hov).
  destruct (compute_tag_spec pbuf _ key nonce aad ct Hpos0 Hpb Ha Hctz) as [Htag Hpos1].
  destruct (compute_tag pbuf (chacha20_seek c nf ns 0) aad ct) as [expected c2]. cbn [fst snd] in *.
  assert (Hel : length expected = 16%nat) by (rewrite Htag; apply poly1305_spec_length).
  pose proof (timingsafe_bcmp_false_iff expected tag 16 Hel Htl) as Hcmp.
  set (d1 := firstn len1 cipher). set (d2 := firstn (ctlen - len1) (skipn len1 cipher)).
  assert (Hd : d1 ++ d2 = ct).
  { unfold d1, d2, ct. replace ctlen with (len1 + (ctlen - len1))%nat at 2 by lia. symmetry. apply firstn_add_split. }
  assert (Hd1l : length d1 = len1) by (unfold d1; apply firstn_length_le; unfold ctlen in *; lia).
  destruct (crypt2_positioned c2 key nonce 1 d1 d2 Hpos1 ltac:(lia)) as (Hpt & Hl1 & Hl2 & Hkl4).
  { rewrite Hd, Hctl. exact Hov. }
  destruct (timingsafe_bcmp expected tag 16) eqn:Ecmp.
  - (* mismatch *)
    cbn [fst snd]. split; [|split].
    + intros Heq. exfalso. assert (Hfalse : true = false) by (apply Hcmp; rewrite Htag; symmetry; exact Heq). discriminate.
    + intros _. reflexivity.
    + eapply positioned_key_loaded. exact Hpos1.
  - (* tags equal *)
    assert (Heqt : expected = tag) by (apply Hcmp; reflexivity).
    destruct (chacha20_crypt c2 d1) as [p1 c3]. cbn [fst snd] in *.
    destruct (chacha20_crypt c3 d2) as [p2 c4]. cbn [fst snd] in *.
    split; [|split].
    + intros _. rewrite Hd in Hpt. fold pt in Hpt. rewrite <- Hpt.
      rewrite <- Hd1l, <- Hl1. rewrite firstn_exact_app, skipn_exact_app. reflexivity.
    + intros Hne. exfalso. apply Hne. rewrite <- Htag. symmetry. exact Heqt.
    + exact Hkl4.
Qed.

(* ---------- round trip ---------- *)
Lemma concat_map_length_const {A} (f : A -> list N) n : (forall x, length (f x) = n) ->
  forall l, length (concat (map f l)) = (n * length l)%nat.
Proof.
  intros Hf. induction l as [|x l IH]; [cbn; lia|]. cbn [map concat length]. rewrite app_length, Hf, IH. lia.
Qed.

Lemma block_stream_length key ctr nonce K : length (le32_words key) = 8%nat -> length (le32_words nonce) = 3%nat ->
  length (concat (map (fun i => chacha20_block key (ctr + Z.of_nat i) nonce) (seq 0 K))) = (64 * K)%nat.
Proof.
  intros Hk Hn. rewrite (concat_map_length_const _ 64), seq_length; [reflexivity|].
  intros i. apply chacha20_block_length; assumption.
Qed.

Lemma chacha20_encrypt_length key ctr nonce msg :
  length (le32_words key) = 8%nat -> length (le32_words nonce) = 3%nat ->
  length (chacha20_encrypt key ctr nonce msg) = length msg.
Proof.
  intros Hk Hn. unfold chacha20_encrypt.
  rewrite (chacha20_encrypt_fuel_stream key nonce Hk Hn (blocks_needed (length msg))) by (try apply blocks_needed_ge; lia).
  rewrite xor_bytes_length.
  rewrite block_stream_length by assumption. pose proof (blocks_needed_ge (length msg)). lia.
Qed.

Lemma chacha20_encrypt_involutive key ctr nonce msg :
  length (le32_words key) = 8%nat -> length (le32_words nonce) = 3%nat ->
  chacha20_encrypt key ctr nonce (chacha20_encrypt key ctr nonce msg) = msg.
Proof.
  intros Hk Hn.
  pose proof (chacha20_encrypt_length key ctr nonce msg Hk Hn) as Hl.
  set (K := blocks_needed (length msg)).
  unfold chacha20_encrypt at 1. rewrite Hl.
  rewrite (chacha20_encrypt_fuel_stream key nonce Hk Hn K) by (rewrite ?Hl; try apply blocks_needed_ge; lia).
  unfold chacha20_encrypt.
  rewrite (chacha20_encrypt_fuel_stream key nonce Hk Hn K) by (try apply blocks_needed_ge; lia).
  apply xor_bytes_involutive.
  rewrite block_stream_length by assumption. apply blocks_needed_ge.
Qed.

Lemma rfc_nonce_words nf ns : 0 <= nf < 2 ^ 32 -> 0 <= ns < 2 ^ 64 -> length (le32_words (rfc_nonce nf ns)) = 3%nat.
Proof. intros Hf Hs. unfold rfc_nonce. rewrite le32_words_nonce by assumption. reflexivity. Qed.

Theorem aead_roundtrip pbuf pbuf' c c' key plain1 plain2 aad nf ns :
  key_loaded c key -> key_loaded c' key -> length pbuf = 16%nat -> length pbuf' = 16%nat ->
  0 <= nf < 2 ^ 32 -> 0 <= ns < 2 ^ 64 ->
  1 + Z.of_nat (blocks_needed (length (plain1 ++ plain2))) <= 2 ^ 32 ->
  Z.of_nat (length aad) < 2 ^ 64 ->
  fst (aead_decrypt pbuf' c' (fst (aead_encrypt pbuf c plain1 plain2 aad nf ns)) aad nf ns (length plain1))
  = Some (plain1, plain2).
Proof.
  intros Hkl Hkl' Hpb Hpb' Hf Hs Hov Ha.
  destruct (aead_encrypt_is_rfc8439 pbuf c key plain1 plain2 aad nf ns Hkl Hpb Hf Hs Hov Ha) as [Henc _].
  rewrite Henc. unfold aead_encrypt_spec.
  set (nonce := rfc_nonce nf ns).
  destruct Hkl as (_ & Hk & _).
  pose proof (rfc_nonce_words nf ns Hf Hs) as Hn3. fold nonce in Hn3.
  set (ct := chacha20_encrypt key 1 nonce (plain1 ++ plain2)).
  set (tag := aead_tag_spec key nonce aad ct).
  assert (Hctl : length ct = length (plain1 ++ plain2)) by (apply chacha20_encrypt_length; assumption).
  assert (Htl : length tag = 16%nat) by apply poly1305_spec_length.
  assert (Hcl : (length (ct ++ tag) - 16 = length ct)%nat) by (rewrite app_length, Htl; lia).
  destruct (aead_decrypt_characterised pbuf' c' key (ct ++ tag) aad nf ns (length plain1)) as (Hacc & _ & _);
    try assumption.
  - rewrite app_length, Htl. lia.
  - rewrite Hcl, Hctl, app_length. lia.
  - rewrite Hcl, Hctl. exact Hov.
  - rewrite Hcl in Hacc. rewrite firstn_exact_app, skipn_exact_app in Hacc. fold nonce in Hacc. fold ct in Hacc.
    rewrite Hacc by reflexivity.
    unfold ct. rewrite chacha20_encrypt_involutive by assumption.
    rewrite firstn_exact_app, skipn_exact_app. reflexivity.
Qed.

(* ---------- tampering ---------- *)
(* If Decrypt accepts (ct', tag') with aad', then tag' IS the Poly1305 tag of (aad', ct') under the one-time
   key of (key, nonce).  Hence a modified ciphertext, tag or aad is accepted only if the attacker supplied
   the correct tag of the modified transcript; in particular changing the tag alone is always rejected. *)
Theorem aead_accept_implies_tag pbuf c key cipher aad nf ns len1 res :
  key_loaded c key -> length pbuf = 16%nat ->
  0 <= nf < 2 ^ 32 -> 0 <= ns < 2 ^ 64 ->
  (16 <= length cipher)%nat -> (len1 <= length cipher - 16)%nat ->
  1 + Z.of_nat (blocks_needed (length cipher - 16)) <= 2 ^ 32 ->
  Z.of_nat (length aad) < 2 ^ 64 ->
  fst (aead_decrypt pbuf c cipher aad nf ns len1) = Some res ->
  skipn (length cipher - 16) cipher =
  aead_tag_spec key (rfc_nonce nf ns) aad (firstn (length cipher - 16) cipher).
Proof.
  intros Hkl Hpb Hf Hs H16 Hl1 Hov Ha Hres.
  destruct (aead_decrypt_characterised pbuf c key cipher aad nf ns len1 Hkl Hpb Hf Hs H16 Hl1 Hov Ha) as (_ & Hrej & _).
  destruct (list_eq_dec N.eq_dec (skipn (length cipher - 16) cipher)
              (aead_tag_spec key (rfc_nonce nf ns) aad (firstn (length cipher - 16) cipher))) as [E | E]; [exact E|].
  rewrite (Hrej E) in Hres. discriminate.
Qed.

Theorem aead_modified_tag_rejected pbuf pbuf' c c' key plain1 plain2 aad nf ns tag' len1 :
  key_loaded c key -> key_loaded c' key -> length pbuf = 16%nat -> length pbuf' = 16%nat ->
  0 <= nf < 2 ^ 32 -> 0 <= ns < 2 ^ 64 ->
  1 + Z.of_nat (blocks_needed (length (plain1 ++ plain2))) <= 2 ^ 32 ->
  Z.of_nat (length aad) < 2 ^ 64 ->
  let out := fst (aead_encrypt pbuf c plain1 plain2 aad nf ns) in
  let ct := firstn (length out - 16) out in
  length tag' = 16%nat -> tag' <> skipn (length out - 16) out -> (len1 <= length ct)%nat ->
  fst (aead_decrypt pbuf' c' (ct ++ tag') aad nf ns len1) = None.
Proof.
  intros Hkl Hkl' Hpb Hpb' Hf Hs Hov Ha out ct Htl Hne Hl1.
  destruct (aead_encrypt_is_rfc8439 pbuf c key plain1 plain2 aad nf ns Hkl Hpb Hf Hs Hov Ha) as [Henc _].
  fold out in Henc. unfold aead_encrypt_spec in Henc.
  set (nonce := rfc_nonce nf ns) in *.
  destruct Hkl as (_ & Hk & _).
  pose proof (rfc_nonce_words nf ns Hf Hs) as Hn3. fold nonce in Hn3.
  set (ct0 := chacha20_encrypt key 1 nonce (plain1 ++ plain2)) in *.
  assert (Hct0l : length ct0 = length (plain1 ++ plain2)) by (apply chacha20_encrypt_length; assumption).
  assert (Htag0l : length (aead_tag_spec key nonce aad ct0) = 16%nat) by apply poly1305_spec_length.
  assert (Hol : (length out - 16 = length ct0)%nat) by (rewrite Henc, app_length, Htag0l; lia).
  assert (Hct : ct = ct0) by (unfold ct; rewrite Hol, Henc; apply firstn_exact_app).
  assert (Htag : skipn (length out - 16) out = aead_tag_spec key nonce aad ct0) by (rewrite Hol, Henc; apply skipn_exact_app).
  assert (Hcl : (length (ct ++ tag') - 16 = length ct)%nat) by (rewrite app_length, Htl; lia).
  destruct (aead_decrypt_characterised pbuf' c' key (ct ++ tag') aad nf ns len1) as (_ & Hrej & _); try assumption.
  - rewrite app_length, Htl. lia.
  - rewrite Hcl. exact Hl1.
  - rewrite Hcl, Hct, Hct0l. exact Hov.
  - apply Hrej. rewrite Hcl, firstn_exact_app, skipn_exact_app. fold nonce. rewrite Hct, <- Htag. exact Hne.
Qed.
