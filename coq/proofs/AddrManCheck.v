(* C37: in every state satisfying the invariant the transcription of AddrManImpl::CheckAddrman() returns 0. *)
From Coq Require Import Sorted.
From BV Require Import lib.Ints model.AddrMan proofs.AddrManMaps proofs.AddrManInv proofs.AddrManOps.
Local Open Scope Z_scope.

Lemma mcount_partition {K V} (f : K * V -> bool) (m : list (K * V)) : mcount f m + mcount (fun e => negb (f e)) m = zlen m.
Proof. induction m as [|x r IH]; [reflexivity|]. rewrite !mcount_cons. unfold zlen in *. cbn [length]. destruct (f x); cbn [negb b2z]; lia. Qed.

Lemma all_none_nil {V} (m : list (Z * V)) : (forall k, zfind k m = None) -> m = [].
Proof. destruct m as [|[k v] r]; auto. intros H. specialize (H k). unfold zfind in H. simpl in H. rewrite Z.eqb_refl in H. discriminate. Qed.

Lemma zfind_cons {V} k k' (v : V) r : zfind k ((k', v) :: r) = if k =? k' then Some v else zfind k r.
Proof. reflexivity. Qed.

Section Check.
  Variable c : cfg.
  Variable tried_bucket : Z -> Z.
  Variable new_bucket : Z -> Z -> Z.
  Variable bucket_pos : bool -> Z -> Z -> Z.
  Variable routable : Z -> bool.
  Variable network : Z -> Z.
  Hypothesis H_tb : forall k, 0 <= tried_bucket k < c_NT c.
  Hypothesis H_bp : forall f b k, 0 <= bucket_pos f b k < c_BS c.

  Notation tslot := (tslot tried_bucket bucket_pos).
  Notation SA := (SA c tried_bucket bucket_pos routable).
  Notation Inv := (Inv c tried_bucket bucket_pos routable network).

  (* accumulated results of the loop over mapInfo *)
  Definition tried_ids (l : list (Z * ainfo)) : list Z := map fst (filter (fun e => a_tried (snd e)) l).
  Fixpoint new_map (l : list (Z * ainfo)) (mn : list (Z * Z)) : list (Z * Z) :=
    match l with [] => mn | (n, a) :: r => new_map r (if a_tried a then mn else zset n (a_ref a) mn) end.
  Fixpoint loc_map (l : list (Z * ainfo)) (lc : list (Z * (Z * Z))) : list (Z * (Z * Z)) :=
    match l with [] => lc | (n, a) :: r => loc_map r (if a_tried a then nc_add 0 1 (network (a_key a)) lc else nc_add 1 0 (network (a_key a)) lc) end.

  Definition entry_good (s : st) (n : Z) (a : ainfo) : Prop :=
    (a_tried a = true -> a_last_success a <> 0 /\ a_ref a = 0) /\
    (a_tried a = false -> 1 <= a_ref a <= c_MAXREF c) /\
    zfind (a_key a) (s_addr s) = Some n /\ znth (a_rpos a) (s_random s) = Some n /\ 0 <= a_last_try a /\ 0 <= a_last_success a.

  Lemma check_infos_ok s l : forall st0 mn0 lc0,
    (forall n a, In (n, a) l -> entry_good s n a) ->
    check_infos c network s l st0 mn0 lc0 = Ok (rev (tried_ids l) ++ st0, new_map l mn0, loc_map l lc0).
  Proof.
    induction l as [|[n a] r IH]; intros st0 mn0 lc0 H; [reflexivity|].
    destruct (H n a (or_introl eq_refl)) as (E1 & E2 & E3 & E4 & E5 & E6).
    cbn [check_infos]. unfold tried_ids. cbn [filter new_map loc_map snd]. destruct (a_tried a) eqn:T.
    - destruct (E1 eq_refl) as [L R]. rewrite (proj2 (Z.eqb_neq _ _) L). rewrite R. cbn [Z.eqb negb bind].
      rewrite E3, E4, Z.eqb_refl. cbn [negb]. rewrite (proj2 (Z.ltb_ge _ _) E5), (proj2 (Z.ltb_ge _ _) E6).
      rewrite IH by (intros; apply H; right; auto). cbn [map fst rev]. rewrite <- app_assoc. reflexivity.
    - destruct (E2 eq_refl) as [L R].
      replace (a_ref a <? 0) with false by (symmetry; apply Z.ltb_ge; lia).
      replace (a_ref a >? c_MAXREF c) with false by (symmetry; rewrite Z.gtb_ltb; apply Z.ltb_ge; lia).
      replace (a_ref a =? 0) with false by (symmetry; apply Z.eqb_neq; lia). cbn [orb bind].
      rewrite E3, E4, Z.eqb_refl. cbn [negb]. rewrite (proj2 (Z.ltb_ge _ _) E5), (proj2 (Z.ltb_ge _ _) E6).
      rewrite IH by (intros; apply H; right; auto). reflexivity.
  Qed.

  (* new_map: keys and values *)
  Lemma new_map_find l : forall mn id, NoDup (keys l) ->
    zfind id (new_map l mn) = match zfind id l with
                              | Some a => if a_tried a then zfind id mn else Some (a_ref a)
                              | None => zfind id mn end.
  Proof.
    induction l as [|[n a] r IH]; intros mn id ND; [reflexivity|].
    assert (ND1 : ~ In n (keys r)) by (inversion ND; auto). assert (ND2 : NoDup (keys r)) by (inversion ND; auto).
    cbn [new_map]. rewrite IH by auto. rewrite zfind_cons. destruct (id =? n) eqn:E.
    - apply Z.eqb_eq in E. subst id. assert (zfind n r = None) as -> by (apply z_find_None; auto).
      destruct (a_tried a); auto. rewrite zfind_zset, Z.eqb_refl. auto.
    - destruct (zfind id r) as [a0|]; [destruct (a_tried a0); auto|];
        destruct (a_tried a); auto; rewrite zfind_zset; rewrite Z.eqb_sym, E; auto.
  Qed.
  Lemma new_map_len l : forall mn, NoDup (keys l) -> (forall n, In n (keys l) -> zfind n mn = None) ->
    zlen (new_map l mn) = zlen mn + mcount (fun e => negb (a_tried (snd e))) l.
  Proof.
    induction l as [|[n a] r IH]; intros mn ND H; [rewrite mcount_nil; cbn [new_map]; lia|].
    assert (ND1 : ~ In n (keys r)) by (inversion ND; auto). assert (ND2 : NoDup (keys r)) by (inversion ND; auto).
    cbn [new_map]. rewrite mcount_cons. cbn [snd]. destruct (a_tried a); cbn [negb b2z].
    - rewrite (IH mn ND2); [lia|]. intros n0 I. apply H. right. auto.
    - rewrite (IH (zset n (a_ref a) mn) ND2).
      + rewrite (z_len_set_new n (a_ref a) mn) by (apply H; left; auto). lia.
      + intros n0 I. rewrite zfind_zset. destruct (n =? n0) eqn:E; [apply Z.eqb_eq in E; subst; contradiction|]. apply H. right. auto.
  Qed.
  Lemma tried_ids_len l : zlen (tried_ids l) = mcount (fun e => a_tried (snd e)) l.
  Proof. unfold tried_ids, mcount, zlen. rewrite map_length. reflexivity. Qed.

  (* loc_map: the per-network counts *)
  Lemma loc_map_get l : forall lc net, zlen l + fst (nc_get lc net) + snd (nc_get lc net) <= IDLIM -> 0 <= fst (nc_get lc net) -> 0 <= snd (nc_get lc net) ->
    nc_get (loc_map l lc) net =
    (fst (nc_get lc net) + mcount (fun e => negb (a_tried (snd e)) && (network (a_key (snd e)) =? net)) l,
     snd (nc_get lc net) + mcount (fun e => a_tried (snd e) && (network (a_key (snd e)) =? net)) l).
  Proof.
    induction l as [|[n a] r IH]; intros lc net B P1 P2.
    - cbn [loc_map]. rewrite !mcount_nil. destruct (nc_get lc net); simpl; f_equal; lia.
    - cbn [loc_map]. rewrite !mcount_cons. cbn [snd]. unfold zlen in B. cbn [length] in B. unfold IDLIM in *.
      destruct (a_tried a); cbn [negb andb].
      + assert (Q : nc_get (nc_add 0 1 (network (a_key a)) lc) net =
                    (fst (nc_get lc net), snd (nc_get lc net) + b2z (network (a_key a) =? net))).
        { rewrite nc_get_add. destruct (network (a_key a) =? net) eqn:E.
          - apply Z.eqb_eq in E. subst net. rewrite !wrapu64_id by (unfold UINT64_MAX; lia). simpl. f_equal; lia.
          - destruct (nc_get lc net); simpl; f_equal; lia. }
        rewrite (IH _ net); rewrite ?Q; cbn [fst snd b2z]; [f_equal; lia | | |];
          destruct (network (a_key a) =? net); cbn [b2z]; unfold zlen; lia.
      + assert (Q : nc_get (nc_add 1 0 (network (a_key a)) lc) net =
                    (fst (nc_get lc net) + b2z (network (a_key a) =? net), snd (nc_get lc net))).
        { rewrite nc_get_add. destruct (network (a_key a) =? net) eqn:E.
          - apply Z.eqb_eq in E. subst net. rewrite !wrapu64_id by (unfold UINT64_MAX; lia). simpl. f_equal; lia.
          - destruct (nc_get lc net); simpl; f_equal; lia. }
        rewrite (IH _ net); rewrite ?Q; cbn [fst snd b2z]; [f_equal; lia | | |];
          destruct (network (a_key a) =? net); cbn [b2z]; unfold zlen; lia.
  Qed.
  Lemma nc_add_keys dn dt net lc : NoDup (keys lc) -> NoDup (keys (nc_add dn dt net lc)).
  Proof. intros H. unfold nc_add. apply z_NoDup_set; auto. Qed.
  Lemma nc_add_key_in dn dt net lc k : In k (keys (nc_add dn dt net lc)) <-> k = net \/ In k (keys lc).
  Proof. unfold nc_add. apply z_In_keys_set. Qed.
  Lemma loc_map_keys l : forall lc, NoDup (keys lc) ->
    NoDup (keys (loc_map l lc)) /\ (forall k, In k (keys (loc_map l lc)) <-> In k (keys lc) \/ exists n a, In (n, a) l /\ network (a_key a) = k).
  Proof.
    induction l as [|[n a] r IH]; intros lc ND; cbn [loc_map].
    - split; auto. intros k. split; [auto | intros [H|(n & a & [] & _)]; auto].
    - set (lc' := if a_tried a then nc_add 0 1 (network (a_key a)) lc else nc_add 1 0 (network (a_key a)) lc).
      assert (ND' : NoDup (keys lc')) by (unfold lc'; destruct (a_tried a); apply nc_add_keys; auto).
      assert (K' : forall k, In k (keys lc') <-> k = network (a_key a) \/ In k (keys lc)) by (intros k; unfold lc'; destruct (a_tried a); apply nc_add_key_in).
      destruct (IH lc' ND') as [A B]. split; auto. intros k. rewrite B, K'. split.
      + intros [[H|H]|(n0 & a0 & I & E)]; auto; right; [exists n, a | exists n0, a0]; simpl; auto.
      + intros [H|(n0 & a0 & [I|I] & E)]; auto; [inversion I; subst; auto | right; exists n0, a0; auto].
  Qed.

  (* the loop over the tried table *)
  Lemma check_tried_ok s l : forall S0, SA s ->
    (forall sl id, In (sl, id) l -> sfind sl (s_tried s) = Some id) -> NoDup (map snd l) ->
    (forall sl id, In (sl, id) l -> In id S0) ->
    exists S', check_tried_slots tried_bucket bucket_pos s l S0 = Ok S' /\ (forall x, In x S' <-> In x S0 /\ ~ In x (map snd l)).
  Proof.
    induction l as [|[[b p] id] r IH]; intros S0 HA HF ND HS.
    - exists S0. split; [reflexivity|]. intros x. simpl. tauto.
    - cbn [check_tried_slots].
      assert (I0 : In id S0) by (eapply HS; left; reflexivity).
      replace (existsb (Z.eqb id) S0) with true by (symmetry; apply existsb_exists; exists id; split; auto; apply Z.eqb_refl). cbn [negb].
      destruct (S_tried1 _ _ _ _ _ HA _ _ (HF _ _ (or_introl eq_refl))) as (a & F & T & E). rewrite F.
      unfold AddrMan.tslot in E. injection E as E1 E2. rewrite <- E1, Z.eqb_refl. cbn [negb]. rewrite E1, <- E2, Z.eqb_refl. cbn [negb].
      cbn [map snd] in ND. assert (ND1 : ~ In id (map snd r)) by (inversion ND; auto). assert (ND2 : NoDup (map snd r)) by (inversion ND; auto).
      destruct (IH (filter (fun x => negb (x =? id)) S0) HA) as (S' & CK & MEM); auto.
      + intros sl i I. apply HF. right. auto.
      + intros sl i I. apply filter_In. split; [eapply HS; right; eauto|]. apply negb_true_iff, Z.eqb_neq. intros K. subst i.
        apply ND1. apply in_map_iff. exists (sl, id). auto.
      + exists S'. split; [exact CK|]. intros x. rewrite MEM, filter_In, negb_true_iff, Z.eqb_neq. cbn [map snd In]. intuition.
  Qed.

  (* the loop over the new table: the map holds, per id, the number of its slots not yet visited *)
  Lemma check_new_ok s l : forall mn, SA s ->
    (forall sl id, In (sl, id) l -> sfind sl (s_new s) = Some id) ->
    (forall id, zfind id mn = if refs id l >? 0 then Some (refs id l) else None) ->
    check_new_slots bucket_pos s l mn = Ok [].
  Proof.
    induction l as [|[[b p] id] r IH]; intros mn HA HF HM.
    - cbn [check_new_slots]. f_equal. apply all_none_nil. intros k. rewrite HM. reflexivity.
    - cbn [check_new_slots]. pose proof (HM id) as Q. unfold refs in Q. rewrite mcount_cons in Q. cbn [snd] in Q. rewrite Z.eqb_refl in Q. cbn [b2z] in Q.
      pose proof (mcount_nonneg (fun e : slot * Z => snd e =? id) r) as NN.
      replace (1 + mcount (fun e : slot * Z => snd e =? id) r >? 0) with true in Q by (symmetry; apply Z.gtb_lt; lia).
      rewrite Q.
      destruct (S_new _ _ _ _ _ HA _ _ _ (HF _ _ (or_introl eq_refl))) as (a & F & T & E & _). rewrite F. rewrite <- E, Z.eqb_refl. cbn [negb].
      apply IH; auto.
      + intros sl i I. apply HF. right. auto.
      + intros i. fold (refs id r) in *. replace (1 + refs id r - 1) with (refs id r) by lia.
        specialize (HM i). unfold refs in HM. rewrite mcount_cons in HM. cbn [snd] in HM. fold (refs i r) in HM.
        destruct (id =? i) eqn:EI.
        * apply Z.eqb_eq in EI. subst i. destruct (refs id r =? 0) eqn:Z0.
          -- apply Z.eqb_eq in Z0. rewrite zfind_zdel, Z.eqb_refl. rewrite Z0. reflexivity.
          -- apply Z.eqb_neq in Z0. rewrite zfind_zset, Z.eqb_refl. replace (refs id r >? 0) with true by (symmetry; apply Z.gtb_lt; lia). reflexivity.
        * cbn [b2z] in HM. replace (0 + refs i r) with (refs i r) in HM by lia.
          destruct (refs id r =? 0); [rewrite zfind_zdel | rewrite zfind_zset]; rewrite EI; exact HM.
  Qed.

  Lemma entries_good s : Inv s -> forall n a, In (n, a) (s_info s) -> entry_good s n a.
  Proof.
    intros (HA & HR & HC & HX) n a I. assert (F : zfind n (s_info s) = Some a) by (apply z_In_find; auto; apply (S_nd_info _ _ _ _ _ HA)).
    destruct (S_stats _ _ _ _ _ HA _ _ F) as (Q1 & Q2 & Q3 & Q4 & Q5). destruct (S_ref _ _ _ _ _ HA _ _ F) as [Q6 Q7].
    unfold entry_good. split; [|split; [|split; [|split; [|split]]]]; auto.
    - intros T. split; auto. eapply tried_ref0; eauto.
    - intros T. split; auto. apply (HX n a F T). intros [].
    - apply (S_addr1 _ _ _ _ _ HA _ _ F).
    - apply (S_rand1 _ HR _ _ F).
  Qed.

  Theorem check_addrman_zero s : Inv s -> s_idcount s <= IDLIM -> check_addrman c tried_bucket bucket_pos network s = 0.
  Proof.
    intros G LIM. pose proof G as (HA & HR & HC & HX). unfold check_addrman.
    pose proof (mcount_partition (fun e : Z * ainfo => a_tried (snd e)) (s_info s)) as PART. cbv beta in PART.
    assert (EN : s_nnew s = mcount (fun e : Z * ainfo => negb (a_tried (snd e))) (s_info s)).
    { rewrite (C_new _ _ _ HC). apply z_count_ext; [|apply (S_nd_info _ _ _ _ _ HA)]. intros k v _. unfold is_new. simpl. rewrite andb_true_r. auto. }
    assert (ET : s_ntried s = mcount (fun e : Z * ainfo => a_tried (snd e)) (s_info s)) by apply (C_tried _ _ _ HC).
    rewrite (S_randlen _ HR). replace (zlen (s_info s) =? s_ntried s + s_nnew s) with true by (symmetry; apply Z.eqb_eq; lia). cbn [negb].
    rewrite (check_infos_ok s (s_info s) [] [] [] (entries_good s G)). rewrite app_nil_r.
    unfold zlen at 1. rewrite rev_length. fold (zlen (tried_ids (s_info s))). rewrite tried_ids_len, <- ET, Z.eqb_refl. cbn [negb].
    rewrite (new_map_len (s_info s) []) by (auto; apply (S_nd_info _ _ _ _ _ HA)).
    replace (zlen (@nil (Z * Z))) with 0 by reflexivity. rewrite Z.add_0_l, <- EN, Z.eqb_refl. cbn [negb].
    (* slot ranges *)
    assert (RT : forallb (slot_in_range c (c_NT c)) (s_tried s) = true).
    { apply forallb_forall. intros [[b p] id] I. apply s_In_find in I; [|apply (S_nd_tried _ _ _ _ _ HA)].
      destruct (S_tried1 _ _ _ _ _ HA _ _ I) as (a & F & T & E). unfold AddrMan.tslot in E. injection E as -> ->. unfold slot_in_range.
      pose proof (H_tb (a_key a)). pose proof (H_bp false (tried_bucket (a_key a)) (a_key a)).
      apply andb_true_iff; split; [apply andb_true_iff; split; [apply andb_true_iff; split|]|]; try apply Z.leb_le; try apply Z.ltb_lt; lia. }
    assert (RN : forallb (slot_in_range c (c_NB c)) (s_new s) = true).
    { apply forallb_forall. intros [[b p] id] I. apply s_In_find in I; [|apply (S_nd_new _ _ _ _ _ HA)].
      destruct (S_new _ _ _ _ _ HA _ _ _ I) as (a & F & T & E & RB). subst p. unfold slot_in_range.
      pose proof (H_bp true b (a_key a)).
      apply andb_true_iff; split; [apply andb_true_iff; split; [apply andb_true_iff; split|]|]; try apply Z.leb_le; try apply Z.ltb_lt; lia. }
    rewrite RT, RN. cbn [andb negb].
    (* tried slots *)
    assert (NDT : NoDup (map snd (s_tried s))).
    { assert (INJ : forall l, NoDup (keys l) -> (forall sl id, In (sl, id) l -> sfind sl (s_tried s) = Some id) -> NoDup (map (@snd slot Z) l)).
      { induction l as [|[sl id] r IH]; intros ND HF; [constructor|]. cbn [map snd]. constructor.
        - intros I. apply in_map_iff in I. destruct I as ([sl' id'] & E & I). simpl in E. subst id'.
          pose proof (HF sl id (or_introl eq_refl)) as F1. pose proof (HF sl' id (or_intror I)) as F2.
          destruct (S_tried1 _ _ _ _ _ HA _ _ F1) as (a1 & A1 & _ & E1). destruct (S_tried1 _ _ _ _ _ HA _ _ F2) as (a2 & A2 & _ & E2).
          rewrite A1 in A2. injection A2 as <-. assert (sl = sl') by congruence. subst sl'.
          assert (NI : ~ In sl (keys r)) by (inversion ND; auto). apply NI. apply in_map_iff. exists (sl, id). split; [reflexivity | rewrite E1; exact I].
        - apply IH; [inversion ND; auto|]. intros sl0 id0 I. apply HF. right. auto. }
      apply INJ; [apply (S_nd_tried _ _ _ _ _ HA)|]. intros sl id I. apply s_In_find; auto. apply (S_nd_tried _ _ _ _ _ HA). }
    destruct (check_tried_ok s (s_tried s) (rev (tried_ids (s_info s))) HA) as (S' & CT & MEM); auto.
    { intros sl id I. apply s_In_find; auto. apply (S_nd_tried _ _ _ _ _ HA). }
    { intros sl id I. apply s_In_find in I; [|apply (S_nd_tried _ _ _ _ _ HA)]. destruct (S_tried1 _ _ _ _ _ HA _ _ I) as (a & F & T & _).
      apply in_rev. rewrite rev_involutive. unfold tried_ids. apply in_map_iff. exists (id, a). split; auto. apply filter_In. split; auto. apply z_find_In; auto. }
    rewrite CT.
    assert (S'nil : S' = []).
    { destruct S' as [|x r]; auto. exfalso. destruct (proj1 (MEM x) (or_introl eq_refl)) as [I N]. apply N.
      apply in_rev in I. rewrite ?rev_involutive in I. unfold tried_ids in I. apply in_map_iff in I. destruct I as ([n a] & E & I). simpl in E. subst n.
      apply filter_In in I. destruct I as [I T]. simpl in T. assert (F : zfind x (s_info s) = Some a) by (apply z_In_find; auto; apply (S_nd_info _ _ _ _ _ HA)).
      pose proof (S_tried2 _ _ _ _ _ HA _ _ F T) as F2. apply s_find_In in F2. apply in_map_iff. exists (tslot (a_key a), x). auto. }
    subst S'.
    (* new slots *)
    rewrite (check_new_ok s (s_new s) (new_map (s_info s) []) HA).
    2:{ intros sl id I. apply s_In_find; auto. apply (S_nd_new _ _ _ _ _ HA). }
    2:{ intros id. rewrite new_map_find by apply (S_nd_info _ _ _ _ _ HA). destruct (zfind id (s_info s)) as [a|] eqn:F.
        - destruct (S_ref _ _ _ _ _ HA _ _ F) as [Q _]. destruct (a_tried a) eqn:T.
          + rewrite <- Q, (tried_ref0 c tried_bucket bucket_pos routable s id a HA F T). reflexivity.
          + pose proof (HX id a F T (fun x => x)) as RP. rewrite <- Q. replace (a_ref a >? 0) with true by (symmetry; apply Z.gtb_lt; lia). reflexivity.
        - assert (refs id (s_new s) = 0) as ->; [|reflexivity]. apply nofind_refs_zero; [|apply (S_nd_new _ _ _ _ _ HA)].
          intros [b p] Q. destruct (S_new _ _ _ _ _ HA _ _ _ Q) as (a & F' & _). congruence. }
    cbn [negb].
    (* network counts *)
    destruct (loc_map_keys (s_info s) [] (NoDup_nil _)) as [LND LK].
    assert (LG : forall net, nc_get (loc_map (s_info s) []) net = nc_get (s_netcnt s) net).
    { intros net. rewrite loc_map_get.
      - rewrite (C_net _ _ _ HC). cbn [nc_get zfind mfind fst snd]. f_equal; rewrite Z.add_0_l; apply z_count_ext; try apply (S_nd_info _ _ _ _ _ HA);
          intros k v _; unfold is_new, is_tried, on_net; simpl; rewrite ?andb_true_r; auto.
      - cbn [nc_get zfind mfind fst snd]. pose proof (S_info_len _ _ _ _ _ HA). lia.
      - cbn [nc_get zfind mfind fst snd]. lia.
      - cbn [nc_get zfind mfind fst snd]. lia. }
    assert (SUBK : incl (keys (loc_map (s_info s) [])) (keys (s_netcnt s))).
    { intros k I. apply LK in I. destruct I as [[]|(n & a & I & E)].
      assert (F : zfind n (s_info s) = Some a) by (apply z_In_find; auto; apply (S_nd_info _ _ _ _ _ HA)).
      destruct (zfind k (s_netcnt s)) as [v|] eqn:FK; [eapply z_find_key; eauto|]. exfalso.
      pose proof (C_net _ _ _ HC k) as Q. unfold nc_get in Q. rewrite FK in Q. injection Q as Q1 Q2.
      destruct (a_tried a) eqn:T.
      - symmetry in Q2. pose proof (mcount_zero_all Z.eqb zeqb_spec _ _ Q2 n a I) as Z0. unfold is_tried, on_net in Z0. simpl in Z0. rewrite T, E, Z.eqb_refl in Z0. discriminate.
      - symmetry in Q1. pose proof (mcount_zero_all Z.eqb zeqb_spec _ _ Q1 n a I) as Z0. unfold is_new, on_net in Z0. simpl in Z0. rewrite T, E, Z.eqb_refl in Z0. discriminate. }
    assert (LEN : zlen (loc_map (s_info s) []) <= zlen (s_netcnt s)).
    { replace (zlen (loc_map (s_info s) [])) with (zlen (keys (loc_map (s_info s) []))) by (unfold zlen, keys; rewrite map_length; auto).
      replace (zlen (s_netcnt s)) with (zlen (keys (s_netcnt s))) by (unfold zlen, keys; rewrite map_length; auto).
      unfold zlen. apply inj_le. apply NoDup_incl_length; auto. }
    replace (zlen (s_netcnt s) <? zlen (loc_map (s_info s) [])) with false by (symmetry; apply Z.ltb_ge; lia).
    match goal with |- context [forallb ?f (s_netcnt s)] => assert (FA : forallb f (s_netcnt s) = true) end.
    { apply forallb_forall. intros [net [n t]] I. rewrite LG. apply z_In_find in I; [|apply (C_nd _ _ _ HC)].
      unfold nc_get. rewrite I. simpl. rewrite !Z.eqb_refl. reflexivity. }
    rewrite FA. reflexivity.
  Qed.
End Check.
