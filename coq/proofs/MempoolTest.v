(* Test-accept (C28): on the model, a test-accept leaves the state alone and gives the verdict a submission would give,
   except that a submission can end in "mempool full". *)
From BV Require Import lib.Ints gen.Params_gen model.Locks model.Mempool.
Local Open Scope Z_scope.

Lemma accept_test pol c now p t :
  fst (accept true pol c now p t) = p /\ snd (accept true pol c now p t) = snd (accept false pol c now p t).
Proof.
  unfold accept.
  destruct (is_nil (t_vin t)); [auto|].
  destruct (negb (nodupb_o (t_ins t))); [auto|].
  destruct (pol_at pol P_early); [auto|].
  destruct (negb (check_final c t)); [auto|].
  destruct (in_pool p (t_id t)); [auto|].
  destruct (view_coins p c (t_ins t)) as [coins|]; [|auto].
  destruct (calc_lock_points c coins t) as [lp|]; [|auto].
  destruct (negb (check_seq_locks c lp)); [auto|].
  destruct (negb (mature c coins)); [auto|].
  destruct (pol_at pol P_pre); [auto|].
  destruct (pol_at pol P_rbf); [auto|].
  destruct (negb (is_nil (direct_conflicts p t)) && intersects (ancestors_of_tx p t) (direct_conflicts p t)); [auto|].
  destruct (pol_at pol P_late); [auto|].
  destruct (negb (t_script_ok t)); [auto|].
  simpl. auto.
Qed.

Lemma test_accept_pure st t pol evict : fst (process_transaction true pol evict st t) = st.
Proof. unfold process_transaction. destruct (accept true pol _ _ _ t) as [p1 r]. destruct r; reflexivity. Qed.

Lemma test_accept_verdict st t pol evict evict' :
  let r_test := snd (process_transaction true pol evict st t) in
  let r_submit := snd (process_transaction false pol evict' st t) in
  r_submit = r_test \/ (r_submit = Rejected R_full /\ exists repl, r_test = Accepted repl).
Proof.
  unfold process_transaction.
  destruct (accept_test pol (s_chain st) (s_now st) (s_pool st) t) as [_ E].
  destruct (accept true pol (s_chain st) (s_now st) (s_pool st) t) as [p1 r1].
  destruct (accept false pol (s_chain st) (s_now st) (s_pool st) t) as [p2 r2]. simpl in E. subst r2.
  destruct r1 as [repl|r]; simpl; [|left; reflexivity].
  destruct (in_pool _ (t_id t)); [left; reflexivity|]. right. split; [reflexivity|eauto].
Qed.
