(* Proofs about model/SerTx.v: byte vectors, vectors, transactions. *)
From Coq Require Import NArith.
From BV Require Import lib.Ints gen.Params_gen model.SerBase model.SerTx proofs.SerBaseLemmas.
Local Open Scope Z_scope.

(* ---- signed/unsigned 64-bit views ---- *)
Lemma wrap64_wrapu64 v : INT64_MIN <= v <= INT64_MAX -> wrap64 (wrapu64 v) = v.
Proof.
  unfold INT64_MIN, INT64_MAX, wrap64, wraps, wrapu64, wrapu. intros H.
  change (2 ^ 64) with 18446744073709551616. change (2 ^ (64 - 1)) with 9223372036854775808.
  rewrite Z.mod_mod by lia.
  destruct (Z_lt_le_dec v 0) as [Hn|Hp].
  - assert (E : v mod 18446744073709551616 = v + 18446744073709551616).
    { symmetry. apply Z.mod_unique with (q := -1); lia. }
    rewrite E. destruct (_ <? _) eqn:C; lia.
  - rewrite Z.mod_small by lia. destruct (_ <? _) eqn:C; lia.
Qed.

Lemma wrapu64_wrap64 v : 0 <= v < 2 ^ 64 -> wrapu64 (wrap64 v) = v /\ INT64_MIN <= wrap64 v <= INT64_MAX.
Proof.
  unfold INT64_MIN, INT64_MAX, wrap64, wraps, wrapu64, wrapu.
  change (2 ^ 64) with 18446744073709551616. change (2 ^ (64 - 1)) with 9223372036854775808. intros H.
  rewrite (Z.mod_small v) by lia.
  destruct (v <? 9223372036854775808) eqn:C.
  - rewrite Z.mod_small by lia. lia.
  - split; [|lia]. symmetry. apply Z.mod_unique with (q := -1); lia.
Qed.

(* ---- byte vectors ---- *)
Lemma ser_bytes_roundtrip b rest : Z.of_nat (length b) <= MAX_SIZE ->
  unser_bytes (ser_bytes b ++ rest) = Ok b rest.
Proof.
  intros L. unfold unser_bytes, ser_bytes. rewrite <- app_assoc.
  rewrite compact_size_roundtrip by lia. cbn [bind].
  rewrite read_bytes_z_eq by lia. rewrite Nat2Z.id. apply read_bytes_app.
Qed.

Lemma unser_bytes_canonical s b rest : bytes_ok s -> unser_bytes s = Ok b rest ->
  s = ser_bytes b ++ rest /\ Z.of_nat (length b) <= MAX_SIZE /\ bytes_ok b /\ bytes_ok rest.
Proof.
  intros Hs H. unfold unser_bytes in H.
  destruct (read_compact_size true s) as [n s1|e] eqn:R; [|discriminate]. cbn [bind] in H.
  apply compact_size_canonical in R; [|exact Hs]. destruct R as [Es [Hn Hm]]. specialize (Hm eq_refl).
  rewrite read_bytes_z_eq in H by lia. apply read_bytes_inv in H. destruct H as [Es1 L].
  assert (Hs1 : bytes_ok s1) by (rewrite Es in Hs; apply bytes_ok_app in Hs; tauto).
  rewrite Es1 in Hs1. apply bytes_ok_app in Hs1. destruct Hs1 as [Hb Hr].
  unfold ser_bytes. rewrite L, Z2Nat.id by lia. rewrite <- app_assoc, <- Es1.
  repeat split; assumption.
Qed.

Lemma ser_bytes_nonempty b : (1 <= length (ser_bytes b))%nat.
Proof.
  unfold ser_bytes, write_compact_size. rewrite app_length.
  destruct (_ <? 253); [|destruct (_ <=? 65535); [|destruct (_ <=? UINT32_MAX)]];
    cbn [length]; unfold write_le; rewrite ?le_bytes_length; lia.
Qed.

(* ---- vectors ---- *)
Section Vector.
  Context {A : Type}.
  Variable f : A -> list N.                (* element serializer *)
  Variable rd : list N -> res A.           (* element deserializer *)

  Lemma read_n_roundtrip (l : list A) rest :
    (forall x r, In x l -> rd (f x ++ r) = Ok x r) ->
    read_n rd (length l) (concat (map f l) ++ rest) = Ok l rest.
  Proof.
    induction l as [|x l IH]; intros H; [reflexivity|].
    cbn [length map concat read_n]. rewrite <- app_assoc.
    rewrite H by (left; reflexivity). cbn [bind].
    rewrite IH by (intros y r Hy; apply H; right; exact Hy). reflexivity.
  Qed.

  Lemma concat_length_ge (l : list A) :
    (forall x, In x l -> (1 <= length (f x))%nat) -> (length l <= length (concat (map f l)))%nat.
  Proof.
    induction l as [|x l IH]; intros H; [simpl; lia|].
    cbn [map concat length]. rewrite app_length.
    specialize (H x (or_introl eq_refl)) as H1.
    specialize (IH (fun y Hy => H y (or_intror Hy))). lia.
  Qed.

  Lemma vector_roundtrip (l : list A) rest :
    Z.of_nat (length l) <= MAX_SIZE ->
    (forall x, In x l -> (1 <= length (f x))%nat) ->
    (forall x r, In x l -> rd (f x ++ r) = Ok x r) ->
    unser_vector rd (ser_vector f l ++ rest) = Ok l rest.
  Proof.
    intros L Hne H. unfold unser_vector, ser_vector. rewrite <- app_assoc.
    rewrite compact_size_roundtrip by lia. cbn [bind].
    pose proof (concat_length_ge l Hne) as Hlen.
    assert (Ek : Z.min (Z.of_nat (length l)) (Z.of_nat (length (concat (map f l) ++ rest)) + 1) = Z.of_nat (length l)).
    { rewrite app_length. lia. }
    rewrite Ek. rewrite Nat2Z.id. rewrite read_n_roundtrip by exact H. cbn [bind].
    rewrite Z.ltb_irrefl. reflexivity.
  Qed.

  Variable P : A -> Prop.
  Hypothesis rd_canonical : forall s x r, bytes_ok s -> rd s = Ok x r ->
    s = f x ++ r /\ bytes_ok r /\ P x.

  Lemma read_n_canonical k : forall s xs r, bytes_ok s -> read_n rd k s = Ok xs r ->
    s = concat (map f xs) ++ r /\ length xs = k /\ bytes_ok r /\ Forall P xs.
  Proof.
    induction k as [|k IH]; intros s xs r Hs H.
    - cbn [read_n] in H. inversion H; subst. repeat split; auto.
    - cbn [read_n] in H. destruct (rd s) as [x s1|e] eqn:R; [|discriminate]. cbn [bind] in H.
      destruct (read_n rd k s1) as [xs' s2|e] eqn:R2; [|discriminate]. cbn [bind] in H.
      inversion H; subst xs r. clear H.
      destruct (rd_canonical s x s1 Hs R) as [Es [Hs1 Px]].
      destruct (IH s1 xs' s2 Hs1 R2) as [Es1 [L [Hs2 Pxs]]].
      cbn [map concat length]. rewrite <- app_assoc, <- Es1, <- Es.
      repeat split; auto.
  Qed.

  Lemma vector_canonical s l rest : bytes_ok s -> unser_vector rd s = Ok l rest ->
    s = ser_vector f l ++ rest /\ Z.of_nat (length l) <= MAX_SIZE /\ bytes_ok rest /\ Forall P l.
  Proof.
    intros Hs H. unfold unser_vector in H.
    destruct (read_compact_size true s) as [n s1|e] eqn:R; [|discriminate]. cbn [bind] in H.
    apply compact_size_canonical in R; [|exact Hs]. destruct R as [Es [Hn Hm]]. specialize (Hm eq_refl).
    assert (Hs1 : bytes_ok s1) by (rewrite Es in Hs; apply bytes_ok_app in Hs; tauto).
    set (k := Z.min n (Z.of_nat (length s1) + 1)) in *.
    destruct (read_n rd (Z.to_nat k) s1) as [xs s2|e] eqn:R2; [|discriminate]. cbn [bind] in H.
    destruct (k <? n) eqn:C; [discriminate|]. inversion H; subst xs s2. clear H.
    assert (k = n) by (unfold k in *; lia).
    destruct (read_n_canonical _ _ _ _ Hs1 R2) as [Es1 [L [Hr Pl]]].
    unfold ser_vector. rewrite L, Z2Nat.id by lia. rewrite <- app_assoc, <- Es1.
    repeat split; auto; try lia. congruence.
  Qed.
End Vector.

(* ---- inputs, outputs, witness stacks ---- *)
Definition strip_in (i : txin) : txin := mk_txin (in_hash i) (in_n i) (in_script i) (in_sequence i) [].

Lemma pow_8_4 : 2 ^ (8 * Z.of_nat 4) = 4294967296. Proof. reflexivity. Qed.
Lemma pow_8_8 : 2 ^ (8 * Z.of_nat 8) = 18446744073709551616. Proof. reflexivity. Qed.
Lemma pow_8_1 : 2 ^ (8 * Z.of_nat 1) = 256. Proof. reflexivity. Qed.

Lemma txin_roundtrip i rest : txin_wf i -> unser_txin (ser_txin i ++ rest) = Ok (strip_in i) rest.
Proof.
  intros [Lh [_ [Hn [_ [Ls [Hq _]]]]]]. unfold UINT32_MAX in *.
  unfold unser_txin, ser_txin. rewrite <- !app_assoc.
  rewrite <- Lh at 1. rewrite read_bytes_app. cbn [bind].
  rewrite read_le_write. cbn [bind]. rewrite wrapu_id by (rewrite pow_8_4; lia).
  rewrite ser_bytes_roundtrip by exact Ls. cbn [bind].
  rewrite read_le_write. cbn [bind]. rewrite wrapu_id by (rewrite pow_8_4; lia).
  reflexivity.
Qed.

Lemma ser_txin_strip i : ser_txin (strip_in i) = ser_txin i.
Proof. reflexivity. Qed.

Lemma ser_txin_nonempty i : length (in_hash i) = 32%nat -> (1 <= length (ser_txin i))%nat.
Proof. intros L. unfold ser_txin. rewrite app_length. lia. Qed.

Definition txin_nowit (i : txin) : Prop := txin_wf i /\ in_witness i = [].

Lemma txin_canonical s i r : bytes_ok s -> unser_txin s = Ok i r ->
  s = ser_txin i ++ r /\ bytes_ok r /\ txin_nowit i.
Proof.
  intros Hs H. unfold unser_txin in H.
  destruct (read_bytes 32 s) as [h s1|e] eqn:R1; [|discriminate]. cbn [bind] in H.
  apply read_bytes_inv in R1. destruct R1 as [Es Lh].
  rewrite Es in Hs. apply bytes_ok_app in Hs. destruct Hs as [Hh Hs1].
  destruct (read_le 4 s1) as [n s2|e] eqn:R2; [|discriminate]. cbn [bind] in H.
  apply read_le_inv in R2; [|exact Hs1]. destruct R2 as [Es1 Hn]. rewrite pow_8_4 in Hn.
  rewrite Es1 in Hs1. apply bytes_ok_app in Hs1. destruct Hs1 as [_ Hs2].
  destruct (unser_bytes s2) as [sc s3|e] eqn:R3; [|discriminate]. cbn [bind] in H.
  apply unser_bytes_canonical in R3; [|exact Hs2]. destruct R3 as [Es2 [Lsc [Hsc Hs3]]].
  destruct (read_le 4 s3) as [sq s4|e] eqn:R4; [|discriminate]. cbn [bind] in H.
  apply read_le_inv in R4; [|exact Hs3]. destruct R4 as [Es3 Hq]. rewrite pow_8_4 in Hq.
  rewrite Es3 in Hs3. apply bytes_ok_app in Hs3. destruct Hs3 as [_ Hs4].
  inversion H; subst i r. clear H.
  split; [|split; [exact Hs4|]].
  - unfold ser_txin. cbn [in_hash in_n in_script in_sequence]. rewrite <- !app_assoc.
    rewrite <- Es3, <- Es2, <- Es1. exact Es.
  - split; [|reflexivity]. unfold txin_wf, UINT32_MAX. cbn [in_hash in_n in_script in_sequence in_witness length].
    repeat split; try assumption; try lia; try (rewrite max_size_value; lia); try constructor.
Qed.

Lemma txout_roundtrip o rest : txout_wf o -> unser_txout (ser_txout o ++ rest) = Ok o rest.
Proof.
  intros [Hv [_ Ls]]. unfold unser_txout, ser_txout. rewrite <- app_assoc.
  rewrite read_le_write. cbn [bind]. rewrite ser_bytes_roundtrip by exact Ls. cbn [bind].
  change (wrapu (8 * Z.of_nat 8)) with wrapu64. rewrite wrap64_wrapu64 by exact Hv.
  destruct o; reflexivity.
Qed.

Lemma ser_txout_nonempty o : (1 <= length (ser_txout o))%nat.
Proof. unfold ser_txout, write_le. rewrite app_length, le_bytes_length. lia. Qed.

Lemma txout_canonical s o r : bytes_ok s -> unser_txout s = Ok o r ->
  s = ser_txout o ++ r /\ bytes_ok r /\ txout_wf o.
Proof.
  intros Hs H. unfold unser_txout in H.
  destruct (read_le 8 s) as [v s1|e] eqn:R1; [|discriminate]. cbn [bind] in H.
  apply read_le_inv in R1; [|exact Hs]. destruct R1 as [Es Hv]. rewrite pow_8_8 in Hv.
  rewrite Es in Hs. apply bytes_ok_app in Hs. destruct Hs as [_ Hs1].
  destruct (unser_bytes s1) as [sc s2|e] eqn:R2; [|discriminate]. cbn [bind] in H.
  apply unser_bytes_canonical in R2; [|exact Hs1]. destruct R2 as [Es1 [Lsc [Hsc Hs2]]].
  inversion H; subst o r. clear H.
  destruct (wrapu64_wrap64 v ltac:(change (2 ^ 64) with 18446744073709551616; lia)) as [W1 W2].
  split; [|split; [exact Hs2|]].
  - unfold ser_txout. cbn [out_value out_script]. rewrite <- app_assoc, <- Es1.
    unfold write_le. change (wrapu (8 * Z.of_nat 8)) with wrapu64. rewrite W1.
    rewrite Es. unfold write_le. change (wrapu (8 * Z.of_nat 8)) with wrapu64.
    rewrite wrapu64_id by (unfold UINT64_MAX; lia). reflexivity.
  - unfold txout_wf. cbn [out_value out_script]. repeat split; try assumption; lia.
Qed.

Definition stack_wf (st : list (list N)) : Prop :=
  Z.of_nat (length st) <= MAX_SIZE /\ Forall (fun e => bytes_ok e /\ Z.of_nat (length e) <= MAX_SIZE) st.

Lemma witness_roundtrip st rest : stack_wf st -> unser_witness (ser_witness st ++ rest) = Ok st rest.
Proof.
  intros [L F]. unfold unser_witness, ser_witness. apply vector_roundtrip; [exact L| |].
  - intros x _. apply ser_bytes_nonempty.
  - intros x r Hx. rewrite Forall_forall in F. apply ser_bytes_roundtrip. apply F. exact Hx.
Qed.

Lemma witness_canonical s st r : bytes_ok s -> unser_witness s = Ok st r ->
  s = ser_witness st ++ r /\ bytes_ok r /\ stack_wf st.
Proof.
  intros Hs H. unfold unser_witness in H.
  destruct (vector_canonical ser_bytes unser_bytes (fun e => bytes_ok e /\ Z.of_nat (length e) <= MAX_SIZE)
              ltac:(intros s0 x r0 Hs0 H0; destruct (unser_bytes_canonical s0 x r0 Hs0 H0) as [? [? [? ?]]]; tauto)
              s st r Hs H) as [Es [L [Hr F]]].
  unfold ser_witness, stack_wf. tauto.
Qed.

(* ---- transactions ---- *)
Lemma ser_vin_strip vin : ser_vector ser_txin (map strip_in vin) = ser_vector ser_txin vin.
Proof.
  unfold ser_vector. rewrite map_length, map_map. reflexivity.
Qed.

Lemma strip_wf i : txin_wf i -> txin_wf (strip_in i).
Proof.
  unfold txin_wf. cbn [strip_in in_hash in_n in_script in_sequence in_witness length].
  intros [A [B [C [D [E [F _]]]]]]. repeat split; try assumption; try lia; try (rewrite max_size_value; lia); constructor.
Qed.

Lemma vin_roundtrip vin rest : Z.of_nat (length vin) <= MAX_SIZE -> Forall txin_wf vin ->
  unser_vector unser_txin (ser_vector ser_txin vin ++ rest) = Ok (map strip_in vin) rest.
Proof.
  intros L F. rewrite <- ser_vin_strip. rewrite Forall_forall in F.
  apply vector_roundtrip; [rewrite map_length; exact L| |].
  - intros x Hx. apply in_map_iff in Hx. destruct Hx as [y [<- Hy]].
    apply ser_txin_nonempty. apply (F y Hy).
  - intros x r Hx. apply in_map_iff in Hx. destruct Hx as [y [<- Hy]].
    apply (txin_roundtrip (strip_in y) r). apply strip_wf. apply (F y Hy).
Qed.

Lemma vout_roundtrip vout rest : Z.of_nat (length vout) <= MAX_SIZE -> Forall txout_wf vout ->
  unser_vector unser_txout (ser_vector ser_txout vout ++ rest) = Ok vout rest.
Proof.
  intros L F. rewrite Forall_forall in F. apply vector_roundtrip; [exact L| |].
  - intros x _. apply ser_txout_nonempty.
  - intros x r Hx. apply txout_roundtrip. apply F. exact Hx.
Qed.

Lemma no_witness_strip vin : has_witness vin = false -> map strip_in vin = vin.
Proof.
  induction vin as [|i vin IH]; intros H; [reflexivity|].
  cbn [has_witness existsb] in H. apply orb_false_iff in H. destruct H as [H1 H2].
  cbn [map]. rewrite (IH H2). f_equal. destruct i as [h n sc sq w]. cbn in *. destruct w; [reflexivity|discriminate].
Qed.

Lemma txin_wf_stack i : txin_wf i -> stack_wf (in_witness i).
Proof. unfold txin_wf, stack_wf. tauto. Qed.

Lemma read_witnesses_roundtrip vin rest : Forall txin_wf vin ->
  read_witnesses (map strip_in vin) (concat (map (fun i => ser_witness (in_witness i)) vin) ++ rest) = Ok vin rest.
Proof.
  induction 1 as [|i vin Hi Hv IH]; [reflexivity|].
  cbn [map concat read_witnesses]. rewrite <- app_assoc.
  rewrite witness_roundtrip by (apply txin_wf_stack; exact Hi). cbn [bind].
  rewrite IH. cbn [bind strip_in in_hash in_n in_script in_sequence]. destruct i; reflexivity.
Qed.

Lemma ser_empty_vin : ser_vector ser_txin [] = [0%N].
Proof. reflexivity. Qed.

Lemma unser_empty_vin rest : unser_vector unser_txin (0%N :: rest) = Ok [] rest.
Proof.
  change (0%N :: rest) with (ser_vector ser_txin [] ++ rest).
  apply vector_roundtrip; [rewrite max_size_value; simpl; lia | intros x [] | intros x r []].
Qed.

Lemma read_le1_byte b rest : (b < 256)%N -> read_le 1 (b :: rest) = Ok (Z.of_N b) rest.
Proof.
  intros Hb. unfold read_le, read_bytes. cbn [length Nat.leb firstn skipn bind le_value]. f_equal. lia.
Qed.

(* ROUND TRIP, witness serialization allowed.  Side condition: a transaction with no inputs but some
   outputs is NOT readable back (its output count is taken for the flags byte) - the well known
   ambiguity of the extended format. *)
Lemma tx_roundtrip_witness t rest : tx_wf t -> (tx_vin t <> [] \/ tx_vout t = []) ->
  unser_tx true (ser_tx true t ++ rest) = Ok t rest.
Proof.
  intros [Hver [Hlock [Lin [Lout [Fin Fout]]]]] Hside. unfold UINT32_MAX in *.
  destruct t as [ver vin vout lock]. cbn [tx_version tx_vin tx_vout tx_locktime] in *.
  unfold ser_tx, unser_tx. cbn [tx_version tx_vin tx_vout tx_locktime andb].
  destruct (has_witness vin) eqn:HW.
  - (* extended format *)
    change (1 =? 0) with false. change (Z.land 1 1 =? 0) with false. cbv iota.
    rewrite ser_empty_vin. rewrite <- !app_assoc.
    rewrite read_le_write. cbn [bind]. rewrite wrapu_id by (rewrite pow_8_4; lia).
    cbn [app]. rewrite unser_empty_vin. cbn [bind].
    change (write_le 1 1) with [1%N]. cbn [app].
    rewrite read_le1_byte by reflexivity. cbn [bind]. change (Z.of_N 1 =? 0) with false. cbv iota.
    rewrite vin_roundtrip by assumption. cbn [bind].
    rewrite vout_roundtrip by assumption. cbn [bind].
    change (Z.land (Z.of_N 1) 1 =? 0) with false. cbn [negb andb].
    rewrite read_witnesses_roundtrip by assumption. cbn [bind]. rewrite HW. cbn [bind]. cbv beta iota.
    change (Z.lxor (Z.of_N 1) 1 =? 0) with true. cbn [negb].
    rewrite read_le_write. cbn [bind]. rewrite wrapu_id by (rewrite pow_8_4; lia). reflexivity.
  - change (0 =? 0) with true. change (Z.land 0 1 =? 0) with true. cbv iota. cbn [app].
    rewrite <- !app_assoc.
    rewrite read_le_write. cbn [bind]. rewrite wrapu_id by (rewrite pow_8_4; lia).
    rewrite vin_roundtrip by assumption. cbn [bind]. rewrite (no_witness_strip vin HW).
    destruct vin as [|i vin].
    + destruct Hside as [Hside|Hside]; [congruence|]. subst vout.
      change (ser_vector ser_txout []) with [0%N]. cbn [app].
      rewrite read_le1_byte by reflexivity. cbn [bind]. change (Z.of_N 0 =? 0) with true. cbv iota.
      cbn [bind]. change (Z.land (Z.of_N 0) 1 =? 0) with true. cbn [negb andb bind]. cbv beta iota.
      change (Z.of_N 0 =? 0) with true. cbn [negb].
      rewrite read_le_write. cbn [bind]. rewrite wrapu_id by (rewrite pow_8_4; lia). reflexivity.
    + rewrite vout_roundtrip by assumption. cbn [bind].
      change (Z.land 0 1 =? 0) with true. cbn [negb andb bind]. cbv beta iota. change (0 =? 0) with true. cbn [negb].
      rewrite read_le_write. cbn [bind]. rewrite wrapu_id by (rewrite pow_8_4; lia). reflexivity.
Qed.

(* ROUND TRIP without witness (TX_NO_WITNESS): the witness stacks are dropped, nothing else changes;
   no side condition *)
Lemma tx_roundtrip_nowitness t rest : tx_wf t ->
  unser_tx false (ser_tx false t ++ rest) = Ok (strip_witness t) rest.
Proof.
  intros [Hver [Hlock [Lin [Lout [Fin Fout]]]]]. unfold UINT32_MAX in *.
  destruct t as [ver vin vout lock]. cbn [tx_version tx_vin tx_vout tx_locktime] in *.
  change (strip_witness (mk_tx ver vin vout lock)) with (mk_tx ver (map strip_in vin) vout lock).
  unfold ser_tx, unser_tx. cbn [tx_version tx_vin tx_vout tx_locktime andb].
  change (0 =? 0) with true. change (Z.land 0 1 =? 0) with true. cbv iota. cbn [app].
  rewrite <- !app_assoc.
  rewrite read_le_write. cbn [bind]. rewrite wrapu_id by (rewrite pow_8_4; lia).
  rewrite vin_roundtrip by assumption. cbn [bind].
  destruct (map strip_in vin) as [|i0 vin0] eqn:E.
  - rewrite vout_roundtrip by assumption. cbn [bind].
    change (Z.land 0 1 =? 0) with true. cbn [negb andb bind]. cbv beta iota. change (0 =? 0) with true. cbn [negb].
    rewrite read_le_write. cbn [bind]. rewrite wrapu_id by (rewrite pow_8_4; lia). reflexivity.
  - rewrite vout_roundtrip by assumption. cbn [bind].
    change (Z.land 0 1 =? 0) with true. cbn [negb andb bind]. cbv beta iota. change (0 =? 0) with true. cbn [negb].
    rewrite read_le_write. cbn [bind]. rewrite wrapu_id by (rewrite pow_8_4; lia). reflexivity.
Qed.

(* ---- canonical form: whatever deserialises re-serialises to exactly the consumed bytes ---- *)
Lemma nowit_has_witness l : Forall txin_nowit l -> has_witness l = false.
Proof.
  induction 1 as [|i l [_ Hi] _ IH]; [reflexivity|].
  cbn [has_witness existsb]. rewrite Hi. exact IH.
Qed.

Lemma read_witnesses_canonical vin : forall s vin' r, bytes_ok s ->
  read_witnesses vin s = Ok vin' r ->
  s = concat (map (fun i => ser_witness (in_witness i)) vin') ++ r /\ bytes_ok r /\
  map strip_in vin' = map strip_in vin.
Proof.
  induction vin as [|i vin IH]; intros s vin' r Hs H.
  - cbn [read_witnesses] in H. inversion H; subst. repeat split; auto.
  - cbn [read_witnesses] in H.
    destruct (unser_witness s) as [w s1|e] eqn:R1; [|discriminate]. cbn [bind] in H.
    destruct (witness_canonical s w s1 Hs R1) as [Es [Hs1 _]].
    destruct (read_witnesses vin s1) as [r' s2|e] eqn:R2; [|discriminate]. cbn [bind] in H.
    destruct (IH s1 r' s2 Hs1 R2) as [Es1 [Hs2 Em]].
    inversion H; subst vin' r. clear H.
    cbn [map concat in_witness]. rewrite <- app_assoc, <- Es1, <- Es.
    repeat split; auto. cbn [strip_in in_hash in_n in_script in_sequence]. rewrite Em. reflexivity.
Qed.

Lemma ser_vin_same_strip a b : map strip_in a = map strip_in b ->
  ser_vector ser_txin a = ser_vector ser_txin b.
Proof. intros H. rewrite <- (ser_vin_strip a), <- (ser_vin_strip b), H. reflexivity. Qed.

Lemma write_le1_byte v : 0 <= v < 256 -> write_le 1 v = [Z.to_N v].
Proof.
  intros Hv. unfold write_le. rewrite wrapu_id by (rewrite pow_8_1; lia).
  cbn [le_bytes]. rewrite Z.mod_small by lia. reflexivity.
Qed.

Lemma tx_canonical aw s t rest : bytes_ok s -> unser_tx aw s = Ok t rest ->
  s = ser_tx aw t ++ rest.
Proof.
  intros Hs H. unfold unser_tx in H.
  destruct (read_le 4 s) as [ver s1|e] eqn:R1; [|discriminate]. cbn [bind] in H.
  apply read_le_inv in R1; [|exact Hs]. destruct R1 as [Es Hver].
  assert (Hs1 : bytes_ok s1) by (rewrite Es in Hs; apply bytes_ok_app in Hs; tauto).
  destruct (unser_vector unser_txin s1) as [vin0 s2|e] eqn:R2; [|discriminate]. cbn [bind] in H.
  destruct (vector_canonical ser_txin unser_txin txin_nowit txin_canonical s1 vin0 s2 Hs1 R2) as [Es1 [_ [Hs2 Fnw]]].
  (* the common tail: once (flags, vin, vout) = (0, vin0, vout) with vin0 witness-free *)
  assert (Tail : forall vout s3,
            bind (Ok (0, vin0, vout) s3) (fun fvv s6 =>
              let '(flags, vin, vout) := fvv in
              bind (if negb (Z.land flags 1 =? 0) && aw then
                      bind (read_witnesses vin s6) (fun vin' s7 =>
                        if has_witness vin' then Ok (Z.lxor flags 1, vin') s7 else Err ESuperfluous)
                    else Ok (flags, vin) s6)
                (fun fv s8 => let '(flags', vin') := fv in
                   if negb (flags' =? 0) then Err EUnknownOptional
                   else bind (read_le 4 s8) (fun lock s9 => Ok (mk_tx ver vin' vout lock) s9))) = Ok t rest ->
            s2 = ser_vector ser_txout vout ++ s3 ->
            s = write_le 4 ver ++ ser_vector ser_txin vin0 ++ ser_vector ser_txout vout ++ write_le 4 (tx_locktime t) ++ rest
            /\ t = mk_tx ver vin0 vout (tx_locktime t)).
  { intros vout s3 HT Es2. cbn [bind] in HT. cbv beta iota in HT.
    change (Z.land 0 1 =? 0) with true in HT. cbn [negb andb bind] in HT. cbv beta iota in HT.
    change (0 =? 0) with true in HT. cbn [negb] in HT.
    destruct (read_le 4 s3) as [lock s9|e] eqn:R4; [|discriminate]. cbn [bind] in HT.
    assert (Hs3 : bytes_ok s3) by (rewrite Es2 in Hs2; apply bytes_ok_app in Hs2; tauto).
    apply read_le_inv in R4; [|exact Hs3]. destruct R4 as [Es3 _].
    inversion HT; subst t rest. cbn [tx_locktime]. split; [|reflexivity].
    rewrite Es, Es1, Es2, Es3. reflexivity. }
  assert (NW : has_witness vin0 = false) by (apply nowit_has_witness; exact Fnw).
  destruct vin0 as [|i0 vin0'].
  - destruct aw.
    + (* witness allowed, empty first vector: a flags byte follows *)
      destruct (read_le 1 s2) as [flags s3|e] eqn:R3; [|discriminate]. cbn [bind] in H.
      apply read_le_inv in R3; [|exact Hs2]. destruct R3 as [Es2 Hfl]. rewrite pow_8_1 in Hfl.
      assert (Hs3 : bytes_ok s3) by (rewrite Es2 in Hs2; apply bytes_ok_app in Hs2; tauto).
      destruct (flags =? 0) eqn:F0.
      * assert (flags = 0) by lia. subst flags.
        cbn [bind] in H. cbv beta iota in H.
        change (Z.land 0 1 =? 0) with true in H. cbn [negb andb bind] in H. cbv beta iota in H.
        change (0 =? 0) with true in H. cbn [negb] in H.
        destruct (read_le 4 s3) as [lock s9|e] eqn:R4; [|discriminate]. cbn [bind] in H.
        apply read_le_inv in R4; [|exact Hs3]. destruct R4 as [Es3 _].
        inversion H; subst t rest.
        unfold ser_tx. cbn [tx_version tx_vin tx_vout tx_locktime has_witness existsb andb].
        change (0 =? 0) with true. change (Z.land 0 1 =? 0) with true. cbv iota. cbn [app].
        rewrite Es, Es1, Es2, Es3. rewrite <- !app_assoc. reflexivity.
      * destruct (unser_vector unser_txin s3) as [vin s4|e] eqn:R4; [|discriminate]. cbn [bind] in H.
        destruct (vector_canonical ser_txin unser_txin txin_nowit txin_canonical s3 vin s4 Hs3 R4) as [Es3 [_ [Hs4 Fv]]].
        destruct (unser_vector unser_txout s4) as [vout s5|e] eqn:R5; [|discriminate]. cbn [bind] in H.
        destruct (vector_canonical ser_txout unser_txout txout_wf txout_canonical s4 vout s5 Hs4 R5) as [Es4 [_ [Hs5 _]]].
        cbv beta iota in H. rewrite andb_true_r in H.
        destruct (Z.land flags 1 =? 0) eqn:FL; cbn [negb bind] in H.
        -- cbv beta iota in H. rewrite F0 in H. cbn [negb] in H. discriminate.
        -- destruct (read_witnesses vin s5) as [vin' s7|e] eqn:R6; [|discriminate]. cbn [bind] in H.
           destruct (read_witnesses_canonical vin s5 vin' s7 Hs5 R6) as [Es5 [Hs7 Em]].
           destruct (has_witness vin') eqn:HW; [|discriminate]. cbn [bind] in H. cbv beta iota in H.
           destruct (Z.lxor flags 1 =? 0) eqn:FX; cbn [negb] in H; [|discriminate].
           assert (flags = 1) by (apply Z.lxor_eq; lia). subst flags.
           destruct (read_le 4 s7) as [lock s9|e] eqn:R7; [|discriminate]. cbn [bind] in H.
           apply read_le_inv in R7; [|exact Hs7]. destruct R7 as [Es7 _].
           inversion H; subst t rest.
           unfold ser_tx. cbn [tx_version tx_vin tx_vout tx_locktime andb]. rewrite HW.
           change (1 =? 0) with false. change (Z.land 1 1 =? 0) with false. cbv iota.
           rewrite (ser_vin_same_strip vin' vin Em).
           rewrite Es, Es1, Es2, Es3, Es4, Es5, Es7. rewrite <- !app_assoc. reflexivity.
    + destruct (unser_vector unser_txout s2) as [vout s3|e] eqn:R3; [|discriminate].
      destruct (vector_canonical ser_txout unser_txout txout_wf txout_canonical s2 vout s3 Hs2 R3) as [Es2 _].
      destruct (Tail vout s3 H Es2) as [E1 E2].
      rewrite E2. unfold ser_tx. cbn [tx_version tx_vin tx_vout tx_locktime has_witness existsb andb].
      change (0 =? 0) with true. change (Z.land 0 1 =? 0) with true. cbv iota. cbn [app].
      rewrite E1. rewrite <- !app_assoc. reflexivity.
  - destruct (unser_vector unser_txout s2) as [vout s3|e] eqn:R3; [|discriminate].
    destruct (vector_canonical ser_txout unser_txout txout_wf txout_canonical s2 vout s3 Hs2 R3) as [Es2 _].
    destruct (Tail vout s3 H Es2) as [E1 E2].
    rewrite E2. unfold ser_tx. cbn [tx_version tx_vin tx_vout tx_locktime]. rewrite NW, andb_false_r.
    change (0 =? 0) with true. change (Z.land 0 1 =? 0) with true. cbv iota. cbn [app].
    rewrite E1. rewrite <- !app_assoc. reflexivity.
Qed.


(* ---- headers and blocks ---- *)
Lemma wrap32_wrapu32 v : INT32_MIN <= v <= INT32_MAX -> wrap32 (wrapu32 v) = v.
Proof.
  unfold INT32_MIN, INT32_MAX, wrap32, wraps, wrapu32, wrapu. intros H.
  change (2 ^ 32) with 4294967296. change (2 ^ (32 - 1)) with 2147483648.
  rewrite Z.mod_mod by lia.
  destruct (Z_lt_le_dec v 0) as [Hn|Hp].
  - assert (E : v mod 4294967296 = v + 4294967296).
    { symmetry. apply Z.mod_unique with (q := -1); lia. }
    rewrite E. destruct (_ <? _) eqn:C; lia.
  - rewrite Z.mod_small by lia. destruct (_ <? _) eqn:C; lia.
Qed.

Lemma wrapu32_wrap32 v : 0 <= v < 2 ^ 32 -> wrapu32 (wrap32 v) = v.
Proof.
  unfold wrap32, wraps, wrapu32, wrapu.
  change (2 ^ 32) with 4294967296. change (2 ^ (32 - 1)) with 2147483648. intros H.
  rewrite (Z.mod_small v) by lia.
  destruct (v <? 2147483648) eqn:C.
  - rewrite Z.mod_small by lia. lia.
  - symmetry. apply Z.mod_unique with (q := -1); lia.
Qed.

Lemma header_roundtrip h rest : header_wf h -> unser_header (ser_header h ++ rest) = Ok h rest.
Proof.
  intros [Hv [Lp [Lm [Ht [Hb Hn]]]]]. unfold UINT32_MAX in *.
  unfold unser_header, ser_header. rewrite <- !app_assoc.
  rewrite read_le_write. cbn [bind].
  rewrite <- Lp at 1. rewrite read_bytes_app. cbn [bind].
  rewrite <- Lm at 1. rewrite read_bytes_app. cbn [bind].
  rewrite !read_le_write. cbn [bind]. rewrite !read_le_write. cbn [bind]. rewrite !read_le_write. cbn [bind].
  change (wrapu (8 * Z.of_nat 4)) with wrapu32.
  rewrite wrap32_wrapu32 by exact Hv.
  rewrite !wrapu32_id by (unfold UINT32_MAX; lia). destruct h; reflexivity.
Qed.

Lemma header_length h : length (h_prev h) = 32%nat -> length (h_merkle h) = 32%nat -> length (ser_header h) = 80%nat.
Proof.
  intros Lp Lm. unfold ser_header, write_le. rewrite !app_length, !le_bytes_length, Lp, Lm. reflexivity.
Qed.

Lemma header_canonical s h r : bytes_ok s -> unser_header s = Ok h r ->
  s = ser_header h ++ r /\ bytes_ok r /\ length (ser_header h) = 80%nat.
Proof.
  intros Hs H. unfold unser_header in H.
  destruct (read_le 4 s) as [v s1|e] eqn:R1; [|discriminate]. cbn [bind] in H.
  apply read_le_inv in R1; [|exact Hs]. destruct R1 as [Es Hv]. rewrite pow_8_4 in Hv.
  rewrite Es in Hs. apply bytes_ok_app in Hs. destruct Hs as [_ Hs1].
  destruct (read_bytes 32 s1) as [p s2|e] eqn:R2; [|discriminate]. cbn [bind] in H.
  apply read_bytes_inv in R2. destruct R2 as [Es1 Lp].
  rewrite Es1 in Hs1. apply bytes_ok_app in Hs1. destruct Hs1 as [_ Hs2].
  destruct (read_bytes 32 s2) as [m s3|e] eqn:R3; [|discriminate]. cbn [bind] in H.
  apply read_bytes_inv in R3. destruct R3 as [Es2 Lm].
  rewrite Es2 in Hs2. apply bytes_ok_app in Hs2. destruct Hs2 as [_ Hs3].
  destruct (read_le 4 s3) as [t s4|e] eqn:R4; [|discriminate]. cbn [bind] in H.
  apply read_le_inv in R4; [|exact Hs3]. destruct R4 as [Es3 _].
  rewrite Es3 in Hs3. apply bytes_ok_app in Hs3. destruct Hs3 as [_ Hs4].
  destruct (read_le 4 s4) as [b s5|e] eqn:R5; [|discriminate]. cbn [bind] in H.
  apply read_le_inv in R5; [|exact Hs4]. destruct R5 as [Es4 _].
  rewrite Es4 in Hs4. apply bytes_ok_app in Hs4. destruct Hs4 as [_ Hs5].
  destruct (read_le 4 s5) as [n s6|e] eqn:R6; [|discriminate]. cbn [bind] in H.
  apply read_le_inv in R6; [|exact Hs5]. destruct R6 as [Es5 _].
  rewrite Es5 in Hs5. apply bytes_ok_app in Hs5. destruct Hs5 as [_ Hs6].
  inversion H; subst h r. clear H.
  split; [|split; [exact Hs6|apply header_length; assumption]].
  unfold ser_header. cbn [h_version h_prev h_merkle h_time h_bits h_nonce]. rewrite <- !app_assoc.
  rewrite <- Es5, <- Es4, <- Es3, <- Es2, <- Es1.
  unfold write_le at 1. change (wrapu (8 * Z.of_nat 4)) with wrapu32. rewrite wrapu32_wrap32 by lia.
  rewrite Es. unfold write_le. change (wrapu (8 * Z.of_nat 4)) with wrapu32.
  rewrite wrapu32_id by (unfold UINT32_MAX; lia). reflexivity.
Qed.

Lemma ser_tx_nonempty aw t : (1 <= length (ser_tx aw t))%nat.
Proof. unfold ser_tx, write_le. rewrite app_length, le_bytes_length. lia. Qed.

(* BLOCK ROUND TRIP (witness serialization, as stored on disk and sent over the network) *)
Lemma block_roundtrip b rest : header_wf (b_header b) -> Z.of_nat (length (b_vtx b)) <= MAX_SIZE ->
  Forall (fun t => tx_wf t /\ (tx_vin t <> [] \/ tx_vout t = [])) (b_vtx b) ->
  unser_block true (ser_block true b ++ rest) = Ok b rest.
Proof.
  intros Hh L F. unfold unser_block, ser_block. rewrite <- app_assoc.
  rewrite header_roundtrip by exact Hh. cbn [bind].
  rewrite Forall_forall in F.
  rewrite vector_roundtrip; [destruct b; reflexivity | exact L | intros x _; apply ser_tx_nonempty |].
  intros x r Hx. destruct (F x Hx) as [W S]. apply tx_roundtrip_witness; assumption.
Qed.

Lemma block_canonical aw s b rest : bytes_ok s -> unser_block aw s = Ok b rest ->
  s = ser_block aw b ++ rest.
Proof.
  intros Hs H. unfold unser_block in H.
  destruct (unser_header s) as [h s1|e] eqn:R1; [|discriminate]. cbn [bind] in H.
  destruct (header_canonical s h s1 Hs R1) as [Es [Hs1 _]].
  destruct (unser_vector (unser_tx aw) s1) as [vtx s2|e] eqn:R2; [|discriminate]. cbn [bind] in H.
  assert (TC : forall s0 x r0, bytes_ok s0 -> unser_tx aw s0 = Ok x r0 -> s0 = ser_tx aw x ++ r0 /\ bytes_ok r0 /\ True).
  { intros s0 x r0 Hs0 H0. pose proof (tx_canonical aw s0 x r0 Hs0 H0) as C. split; [exact C|]. split; [|exact I].
    rewrite C in Hs0. apply bytes_ok_app in Hs0. tauto. }
  destruct (vector_canonical (ser_tx aw) (unser_tx aw) (fun _ => True) TC s1 vtx s2 Hs1 R2) as [Es1 _].
  inversion H; subst b rest. unfold ser_block. cbn [b_header b_vtx]. rewrite <- app_assoc, <- Es1. exact Es.
Qed.
