(* C32, v1 transport: the receive loop is an "absorb then look" iteration; fragmentation independence,
   round trip of the sender's encoding, rejection of checksum / magic / size violations. *)
From Coq Require Import NArith.
From BV Require Import lib.Ints gen.Params_gen model.Transport proofs.TransportNode.
Local Open Scope nat_scope.

(* ------------------------------------------------------------------------------------------------ *)
(* the generated constants, as numbers (a changed constant breaks these and what depends on them) *)
Lemma HEADER_SIZE_24 : HEADER_SIZE = 24. Proof. reflexivity. Qed.
Lemma MESSAGE_START_SIZE_4 : MESSAGE_START_SIZE = 4. Proof. reflexivity. Qed.
Lemma MESSAGE_TYPE_SIZE_12 : MESSAGE_TYPE_SIZE = 12. Proof. reflexivity. Qed.
Lemma MESSAGE_SIZE_SIZE_4 : MESSAGE_SIZE_SIZE = 4. Proof. reflexivity. Qed.
Lemma CHECKSUM_SIZE_4 : CHECKSUM_SIZE = 4. Proof. reflexivity. Qed.
Lemma header_layout : MESSAGE_START_SIZE + MESSAGE_TYPE_SIZE + MESSAGE_SIZE_SIZE + CHECKSUM_SIZE = HEADER_SIZE.
Proof. reflexivity. Qed.

Definition V1_MAX_PAYLOAD : Z := Z.min TR_MAX_SIZE TR_MAX_PROTOCOL_MESSAGE_LENGTH.
Lemma V1_MAX_PAYLOAD_u32 : (0 <= V1_MAX_PAYLOAD <= UINT32_MAX)%Z.
Proof. vm_compute. split; discriminate. Qed.

(* chunks handed to ReceiveMsgBytes are shorter than 2^32 bytes (the socket buffer is 64 KiB) *)
Definition small (w : list N) : Prop := (Z.of_nat (length w) <= UINT32_MAX)%Z.
Lemma small_app_l a b : small (a ++ b) -> small a.
Proof. unfold small. rewrite app_length. lia. Qed.
Lemma small_app_r a b : small (a ++ b) -> small b.
Proof. unfold small. rewrite app_length. lia. Qed.

(* ------------------------------------------------------------------------------------------------ *)
(* byte-string facts *)

Lemma bytes_eqb_eq a b : bytes_eqb a b = true <-> a = b.
Proof.
  revert b. induction a as [|x a IH]; destruct b as [|y b]; simpl; split; intros H; try congruence; auto.
  - apply andb_true_iff in H. destruct H as [H1 H2]. apply N.eqb_eq in H1. apply IH in H2. congruence.
  - inversion H; subst. rewrite N.eqb_refl. simpl. apply IH. auto.
Qed.
Lemma bytes_eqb_refl a : bytes_eqb a a = true.
Proof. apply bytes_eqb_eq. auto. Qed.
Lemma bytes_eqb_neq a b : bytes_eqb a b = false <-> a <> b.
Proof.
  split; intros H.
  - intros E. apply bytes_eqb_eq in E. congruence.
  - destruct (bytes_eqb a b) eqn:E; auto. apply bytes_eqb_eq in E. congruence.
Qed.

Lemma le_value_nonneg l : (0 <= le_value l)%Z.
Proof. induction l as [|a l IH]; cbn [le_value]; [lia|]. pose proof (N2Z.is_nonneg a). lia. Qed.

Definition byte_ok (b : N) : Prop := (b < 256)%N.
Definition bytes_ok (l : list N) : Prop := Forall byte_ok l.

Lemma le_value_bytes k v : (0 <= v < 256 ^ Z.of_nat k)%Z -> le_value (le_bytes k v) = v.
Proof.
  revert v. induction k as [|k IH]; intros v Hv.
  - simpl in *. lia.
  - rewrite Nat2Z.inj_succ, Z.pow_succ_r in Hv by lia.
    cbn [le_value le_bytes]. rewrite Z2N.id by (apply Z.mod_pos_bound; lia).
    rewrite IH.
    + lia.
    + split. apply Z.div_pos; lia. apply Z.div_lt_upper_bound; lia.
Qed.
Lemma le_bytes_length k v : length (le_bytes k v) = k.
Proof. revert v. induction k; simpl; auto. Qed.
Lemma le_bytes_ok k v : bytes_ok (le_bytes k v).
Proof.
  revert v. induction k as [|k IH]; intros v; cbn [le_bytes]; constructor; try apply IH.
  unfold byte_ok. pose proof (Z.mod_pos_bound v 256 ltac:(lia)). lia.
Qed.

Lemma firstn_min_len {A} (k : nat) (l : list A) : firstn (Nat.min k (length l)) l = firstn k l.
Proof.
  destruct (Nat.le_ge_cases k (length l)).
  - rewrite Nat.min_l; auto.
  - rewrite Nat.min_r; auto. rewrite !firstn_all2; auto.
Qed.
Lemma skipn_min_len {A} (k : nat) (l : list A) : skipn (Nat.min k (length l)) l = skipn k l.
Proof.
  destruct (Nat.le_ge_cases k (length l)).
  - rewrite Nat.min_l; auto.
  - rewrite Nat.min_r; auto. rewrite !skipn_all2; auto.
Qed.

Lemma firstn_app_exact {A} (a b : list A) n : length a = n -> firstn n (a ++ b) = a.
Proof. intros H. rewrite firstn_app, H, Nat.sub_diag. rewrite firstn_all2 by lia. cbn [firstn]. apply app_nil_r. Qed.
Lemma skipn_app_exact {A} (a b : list A) n : length a = n -> skipn n (a ++ b) = b.
Proof. intros H. rewrite skipn_app, H, Nat.sub_diag. rewrite skipn_all2 by lia. reflexivity. Qed.

(* ---------------------------------------------------------------------------------------------- *)
(* message types a well-behaved sender uses: at most 12 printable ASCII characters (0x20..0x7E) *)
Definition char_ok (hi b : N) : bool := negb (N.eqb b 0) && negb (N.ltb b 32 || N.ltb hi b).
Definition type_ok (hi : N) (t : list N) : Prop := length t <= MESSAGE_TYPE_SIZE /\ forallb (char_ok hi) t = true.

Lemma all_zero_zeros k : all_zero (zeros k) = true.
Proof. induction k; cbn [zeros repeat all_zero]; auto. Qed.
Lemma until_nul_pad t k hi : forallb (char_ok hi) t = true -> until_nul (t ++ zeros k) = t.
Proof.
  induction t as [|b t IH]; intros Hc.
  - destruct k; reflexivity.
  - cbn [forallb] in Hc. apply andb_true_iff in Hc. destruct Hc as [Hb Ht].
    unfold char_ok in Hb. apply andb_true_iff in Hb. destruct Hb as [Hb0 _].
    cbn [app until_nul]. apply negb_true_iff in Hb0. rewrite Hb0. rewrite IH; auto.
Qed.
Lemma type_chars_valid_pad t k hi : forallb (char_ok hi) t = true -> type_chars_valid hi (t ++ zeros k) = true.
Proof.
  induction t as [|b t IH]; intros Hc.
  - destruct k; [reflexivity|]. cbn [app zeros repeat type_chars_valid]. apply (all_zero_zeros k).
  - cbn [forallb] in Hc. apply andb_true_iff in Hc. destruct Hc as [Hb Ht].
    unfold char_ok in Hb. apply andb_true_iff in Hb. destruct Hb as [Hb0 Hb1].
    cbn [app type_chars_valid]. apply negb_true_iff in Hb0, Hb1. rewrite Hb0, Hb1. auto.
Qed.
Lemma pad_type_length t : length t <= MESSAGE_TYPE_SIZE -> length (pad_type t) = 12.
Proof.
  intros H. unfold pad_type, zeros. rewrite app_length, repeat_length. rewrite MESSAGE_TYPE_SIZE_12 in H |- *. lia.
Qed.


Section V1Proofs.
  Variable magic : list N.
  Variable H4 : list N -> list N.
  Hypothesis magic_len : length magic = MESSAGE_START_SIZE.
  Hypothesis H4_len : forall p, length (H4 p) = CHECKSUM_SIZE.

  Notation v1_iter := (v1_iter magic H4).
  Notation v1_received_bytes := (v1_received_bytes magic).
  Notation v1_get_received_message := (v1_get_received_message H4).

  (* invariant of the receive state between iterations *)
  Definition v1_wf (s : v1st) : Prop :=
    match s with
    | V1H buf => length buf < HEADER_SIZE
    | V1D hdr data => length hdr = HEADER_SIZE /\ (hdr_size hdr <= V1_MAX_PAYLOAD)%Z /\
                      (Z.of_nat (length data) < hdr_size hdr)%Z
    end.

  Definition v1_need (s : v1st) : nat :=
    match s with
    | V1H buf => HEADER_SIZE - length buf
    | V1D hdr data => Z.to_nat (hdr_size hdr) - length data
    end.

  Definition v1_done (s1 : v1st) : option (v1st * list out) :=
    if v1_complete s1 then Some (v1_init, [v1_get_received_message s1]) else Some (s1, []).

  Definition v1_G (s : v1st) (t : list N) : option (v1st * list out) :=
    match s with
    | V1H buf =>
        let buf' := buf ++ t in
        if Nat.ltb (length buf') HEADER_SIZE then Some (V1H buf', [])
        else if negb (bytes_eqb (hdr_magic buf') magic) then None
        else if (TR_MAX_SIZE <? hdr_size buf')%Z || (TR_MAX_PROTOCOL_MESSAGE_LENGTH <? hdr_size buf')%Z then None
        else v1_done (V1D buf' [])
    | V1D hdr data => v1_done (V1D hdr (data ++ t))
    end.

  Lemma ncopy_small rem avail : (0 <= rem <= UINT32_MAX)%Z -> (Z.of_nat avail <= UINT32_MAX)%Z ->
      ncopy rem avail = Nat.min (Z.to_nat rem) avail.
  Proof.
    intros Hr Ha. unfold ncopy. rewrite !wrapu32_id by lia.
    destruct (Z.le_ge_cases rem (Z.of_nat avail)).
    - rewrite Z.min_l by lia. rewrite Nat.min_l by lia. auto.
    - rewrite Z.min_r by lia. rewrite Nat.min_r by lia. apply Nat2Z.id.
  Qed.

  Lemma v1_iter_aiter s w : v1_wf s -> small w -> v1_iter s w = aiter _ v1_need v1_G s w.
  Proof.
    intros Hwf Hs. unfold Transport.v1_iter, aiter, Transport.v1_received_bytes.
    pose proof HEADER_SIZE_24 as H24.
    destruct s as [buf|hdr data]; cbn [v1_wf v1_need v1_G] in Hwf |- *.
    - rewrite ncopy_small; [|unfold UINT32_MAX; lia|exact Hs].
      replace (Z.to_nat (Z.of_nat HEADER_SIZE - Z.of_nat (length buf))) with (HEADER_SIZE - length buf) by lia.
      rewrite firstn_min_len, skipn_min_len.
      destruct (Nat.ltb _ HEADER_SIZE); [reflexivity|].
      destruct (negb _); [reflexivity|]. destruct (_ || _); [reflexivity|].
      unfold v1_done. destruct (v1_complete _); reflexivity.
    - destruct Hwf as [Hh [Hmax Hd]].
      pose proof V1_MAX_PAYLOAD_u32.
      rewrite ncopy_small; [|lia|exact Hs].
      replace (Z.to_nat (hdr_size hdr - Z.of_nat (length data))) with (Z.to_nat (hdr_size hdr) - length data) by lia.
      rewrite firstn_min_len, skipn_min_len.
      unfold v1_done. destruct (v1_complete _); reflexivity.
  Qed.

  Lemma v1_need_pos s : v1_wf s -> 1 <= v1_need s.
  Proof. pose proof HEADER_SIZE_24. destruct s; cbn [v1_wf v1_need]; intros; lia. Qed.

  Lemma size_checks_max h :
      ((TR_MAX_SIZE <? hdr_size h)%Z || (TR_MAX_PROTOCOL_MESSAGE_LENGTH <? hdr_size h)%Z) = false <->
      (hdr_size h <= V1_MAX_PAYLOAD)%Z.
  Proof.
    unfold V1_MAX_PAYLOAD. rewrite orb_false_iff, !Z.ltb_ge. lia.
  Qed.

  Lemma v1_done_wf s1 s' o : (match s1 with V1D h d => length h = HEADER_SIZE /\ (hdr_size h <= V1_MAX_PAYLOAD)%Z /\
                                                   (Z.of_nat (length d) <= hdr_size h)%Z | _ => False end) ->
      v1_done s1 = Some (s', o) -> v1_wf s'.
  Proof.
    destruct s1 as [|h d]; [tauto|]. intros [Hh [Hm Hd]]. unfold v1_done. cbn [v1_complete].
    destruct (Z.eqb_spec (hdr_size h) (Z.of_nat (length d))); intros E; inversion E; subst; cbn [v1_wf v1_init].
    - rewrite HEADER_SIZE_24. cbn [length]. lia.
    - repeat split; auto. lia.
  Qed.

  Lemma v1_G_wf s t s' o : v1_wf s -> t <> [] -> length t <= v1_need s -> v1_G s t = Some (s', o) -> v1_wf s'.
  Proof.
    intros Hwf Ht Hl E. pose proof HEADER_SIZE_24 as H24.
    destruct s as [buf|hdr data]; cbn [v1_wf v1_need v1_G] in *.
    - destruct (Nat.ltb_spec (length (buf ++ t)) HEADER_SIZE) as [Hlt|Hge].
      + inversion E; subst. cbn [v1_wf]. auto.
      + destruct (negb _); [discriminate|].
        destruct (_ || _) eqn:Es; [discriminate|]. apply size_checks_max in Es.
        eapply v1_done_wf; eauto. cbn [length]. rewrite app_length in *. repeat split; try lia.
        apply le_value_nonneg.
    - destruct Hwf as [Hh [Hm Hd]]. eapply v1_done_wf; eauto. cbn beta iota. rewrite app_length.
      repeat split; auto. lia.
  Qed.

  Lemma v1_G_partial s t s1 o : v1_wf s -> t <> [] -> length t < v1_need s -> v1_G s t = Some (s1, o) ->
      o = [] /\ v1_need s1 = v1_need s - length t /\
      forall t', t' <> [] -> length t' <= v1_need s1 -> v1_G s (t ++ t') = v1_G s1 t'.
  Proof.
    intros Hwf Ht Hl E. pose proof HEADER_SIZE_24 as H24.
    destruct s as [buf|hdr data]; cbn [v1_wf v1_need v1_G] in *.
    - destruct (Nat.ltb_spec (length (buf ++ t)) HEADER_SIZE) as [Hlt|Hge]; [|rewrite app_length in Hge; lia].
      inversion E; subst. cbn [v1_need v1_G]. rewrite app_length. repeat split; try lia.
      intros t' _ _. rewrite app_assoc. reflexivity.
    - destruct Hwf as [Hh [Hm Hd]]. unfold v1_done in E. cbn [v1_complete] in E.
      destruct (Z.eqb_spec (hdr_size hdr) (Z.of_nat (length (data ++ t)))) as [He|Hn].
      { rewrite app_length in He. lia. }
      inversion E; subst. cbn [v1_need v1_G]. rewrite app_length. repeat split; try lia.
      intros t' _ _. rewrite app_assoc. reflexivity.
  Qed.

  Lemma v1_G_fail_mono s t t' : v1_wf s -> t <> [] -> t' <> [] -> length t + length t' <= v1_need s ->
      v1_G s t = None -> v1_G s (t ++ t') = None.
  Proof.
    intros Hwf Ht Ht' Hl E. pose proof HEADER_SIZE_24 as H24.
    destruct s as [buf|hdr data]; cbn [v1_wf v1_need v1_G] in *.
    - assert (length t' > 0) by (destruct t'; [congruence|cbn [length]; lia]).
      destruct (Nat.ltb_spec (length (buf ++ t)) HEADER_SIZE) as [Hlt|Hge]; [discriminate|].
      rewrite app_length in Hge. lia.
    - unfold v1_done in E. destruct (v1_complete _); discriminate.
  Qed.

  Definition v1_doomed (s : v1st) : bool := false.

  Lemma v1_G_partial' : forall s t s1 o, v1_wf s -> t <> [] -> length t < v1_need s -> v1_G s t = Some (s1, o) ->
      o = [] /\
      ((v1_need s1 = v1_need s - length t /\
        forall t', t' <> [] -> length t' <= v1_need s1 -> v1_G s (t ++ t') = v1_G s1 t')
       \/
       (v1_need s - length t <= v1_need s1 /\
        forall t', t' <> [] -> length t' <= v1_need s - length t ->
          exists s2, v1_G s (t ++ t') = Some (s2, []) /\
                     (v1_G s1 t' = Some (s2, []) \/ (v1_G s1 t' = None /\ v1_doomed s2 = true)))).
  Proof.
    intros s t s1 o Hwf Ht Hl E. destruct (v1_G_partial s t s1 o Hwf Ht Hl E) as [Ho [Hn HG]].
    split; auto.
  Qed.

  Ltac v1h := first [exact v1_need_pos | exact v1_G_wf | exact v1_G_fail_mono | exact v1_G_partial' | eassumption].

  Lemma v1_ok_wf_iter s w s' r o : v1_wf s -> small w -> w <> [] -> v1_iter s w = ICont s' r o ->
      v1_wf s' /\ exists c, c <> [] /\ w = c ++ r.
  Proof.
    intros Hwf Hs Hne E. rewrite v1_iter_aiter in E by auto.
    eapply (aiter_wf _ v1_need v1_G v1_wf v1_doomed); v1h.
  Qed.

  Lemma v1_M1 s a b s1 ra o : v1_wf s -> small (a ++ b) -> v1_iter s a = ICont s1 ra o -> ra <> [] ->
      v1_iter s (a ++ b) = ICont s1 (ra ++ b) o.
  Proof.
    intros Hwf Hs E Hra. pose proof (small_app_l _ _ Hs).
    rewrite v1_iter_aiter in * by auto. eapply (aiter_M1 _ v1_need v1_G v1_wf v1_doomed); v1h.
  Qed.

  Lemma v1_M1f s a b : v1_wf s -> small (a ++ b) -> a <> [] -> v1_iter s a = IFail -> v1_iter s (a ++ b) = IFail.
  Proof.
    intros Hwf Hs Ha E. pose proof (small_app_l _ _ Hs).
    rewrite v1_iter_aiter in * by auto.
    eapply (aiter_M1f _ v1_need v1_G v1_wf v1_doomed); v1h.
  Qed.

  Lemma v1_M2 s a b s1 o : v1_wf s -> small (a ++ b) -> a <> [] -> b <> [] -> v1_iter s a = ICont s1 [] o ->
      v1_iter s (a ++ b) = ICont s1 b o
      \/ (o = [] /\ v1_iter s (a ++ b) = v1_iter s1 b)
      \/ (o = [] /\ exists c d s2, b = c ++ d /\ c <> [] /\ v1_iter s (a ++ b) = ICont s2 d [] /\
            (v1_iter s1 c = ICont s2 [] [] \/ (v1_iter s1 c = IFail /\ v1_doomed s2 = true))).
  Proof.
    intros Hwf Hs Ha Hb E. pose proof (small_app_l _ _ Hs) as Hsa. pose proof (small_app_r _ _ Hs) as Hsb.
    assert (Hwf1 : v1_wf s1) by (destruct (v1_ok_wf_iter s a s1 [] o Hwf Hsa Ha E); auto).
    rewrite v1_iter_aiter in E by auto.
    assert (HM2 := aiter_M2 _ v1_need v1_G v1_wf v1_doomed).
    specialize (HM2 ltac:(v1h) ltac:(v1h) ltac:(v1h) ltac:(v1h) s a b s1 o Hwf Ha Hb E).
    destruct HM2 as [H1 | [[Ho H2] | [Ho [c [d [s2 [Hbd [Hc [Hit Hd]]]]]]]]].
    - left. rewrite v1_iter_aiter by auto. exact H1.
    - right. left. split; auto. rewrite !v1_iter_aiter by auto. exact H2.
    - right. right. split; auto. exists c, d, s2. split; auto. split; auto.
      assert (small c) by (rewrite Hbd in Hsb; eapply small_app_l; eauto).
      rewrite !v1_iter_aiter by auto. auto.
  Qed.

  Lemma v1_doomed_fail s w : v1_wf s -> v1_doomed s = true -> w <> [] -> v1_iter s w = IFail.
  Proof. discriminate. Qed.

  (* ---------------------------------------------------------------------------------------------- *)
  (* THEOREM (fragmentation independence, v1): for every receive state, every byte stream and every way of
     cutting it into chunks (each call of ReceiveMsgBytes gets one chunk), the delivered/rejected sequence,
     the final receive state and whether the peer was disconnected are those of feeding the whole stream in
     one call. *)
  Theorem v1_fragmentation : forall chunks s acc, v1_wf s -> small (concat chunks) ->
      node_recv_chunks v1_iter (Alive s acc) chunks = node_recv v1_iter (Alive s acc) (concat chunks).
  Proof.
    intros chunks s acc Hwf Hs.
    destruct (node_chunks _ v1_iter v1_wf small v1_doomed small_app_l small_app_r v1_ok_wf_iter v1_M1 v1_M1f v1_M2
                v1_doomed_fail chunks (Alive s acc) Hwf Hs) as [Hn _].
    unfold norm, v1_doomed in Hn.
    destruct (node_recv_chunks _ _ _), (node_recv _ _ _); auto.
  Qed.

  Lemma v1_run_step s w acc : v1_wf s -> small w -> w <> [] ->
      run _ v1_iter s w acc = match v1_iter s w with IFail => Dead acc | ICont s' r o => run _ v1_iter s' r (acc ++ o) end.
  Proof.
    intros. eapply (run_step _ v1_iter v1_wf small);
      first [exact small_app_l | exact small_app_r | exact v1_ok_wf_iter | exact v1_M1 | exact v1_M1f | exact v1_M2
            | exact v1_doomed_fail | eassumption].
  Qed.

  (* ---------------------------------------------------------------------------------------------- *)
  (* header fields of an encoded header *)

  Definition mk_header (m t12 : list N) (size : Z) (cks : list N) : list N :=
    m ++ t12 ++ le_bytes MESSAGE_SIZE_SIZE size ++ cks.

  Lemma mk_header_fields m t12 size cks : length m = 4 -> length t12 = 12 -> length cks = 4 ->
      (0 <= size <= UINT32_MAX)%Z ->
      length (mk_header m t12 size cks) = 24 /\
      hdr_magic (mk_header m t12 size cks) = m /\ hdr_type (mk_header m t12 size cks) = t12 /\
      hdr_size (mk_header m t12 size cks) = size /\ hdr_cks (mk_header m t12 size cks) = cks.
  Proof.
    intros Hm Ht Hc Hs. unfold mk_header, hdr_magic, hdr_type, hdr_size, hdr_cks.
    rewrite MESSAGE_START_SIZE_4, MESSAGE_TYPE_SIZE_12, MESSAGE_SIZE_SIZE_4, CHECKSUM_SIZE_4.
    pose proof (le_bytes_length 4 size) as Hl.
    repeat split.
    - rewrite !app_length. lia.
    - apply firstn_app_exact; auto.
    - rewrite skipn_app_exact by auto. apply firstn_app_exact; auto.
    - replace (m ++ t12 ++ le_bytes 4 size ++ cks) with ((m ++ t12) ++ le_bytes 4 size ++ cks) by (rewrite <- !app_assoc; reflexivity).
      rewrite skipn_app_exact by (rewrite app_length; lia). rewrite firstn_app_exact by auto.
      apply (le_value_bytes 4). unfold UINT32_MAX in Hs. change (256 ^ Z.of_nat 4)%Z with 4294967296%Z. lia.
    - replace (m ++ t12 ++ le_bytes 4 size ++ cks) with ((m ++ t12 ++ le_bytes 4 size) ++ cks)
        by (rewrite <- !app_assoc; reflexivity).
      rewrite skipn_app_exact by (rewrite !app_length; lia). apply firstn_all2. lia.
  Qed.

  (* ---------------------------------------------------------------------------------------------- *)
  (* a complete, acceptable frame (24 header bytes ‖ payload) from the idle state: consumed in two
     iterations (one if the payload is empty), yields exactly one output, returns to idle *)
  Lemma v1_init_wf : v1_wf v1_init.
  Proof. cbn [v1_wf v1_init length]. rewrite HEADER_SIZE_24. lia. Qed.

  Lemma v1_G_header hdr : length hdr = 24 -> hdr_magic hdr = magic -> (hdr_size hdr <= V1_MAX_PAYLOAD)%Z ->
      v1_G v1_init hdr = v1_done (V1D hdr []).
  Proof.
    intros Hl Hm Hmax. cbn [v1_G v1_init app]. rewrite Hl, HEADER_SIZE_24.
    change (Nat.ltb 24 24) with false. cbn iota.
    rewrite Hm, bytes_eqb_refl. cbn [negb]. rewrite (proj2 (size_checks_max hdr) Hmax). reflexivity.
  Qed.

  Lemma v1_frame hdr payload rest acc :
      length hdr = 24 -> hdr_magic hdr = magic -> (hdr_size hdr = Z.of_nat (length payload))%Z ->
      (hdr_size hdr <= V1_MAX_PAYLOAD)%Z -> small (hdr ++ payload ++ rest) ->
      run _ v1_iter v1_init (hdr ++ payload ++ rest) acc =
      run _ v1_iter v1_init rest (acc ++ [v1_get_received_message (V1D hdr payload)]).
  Proof.
    intros Hl Hm Hsz Hmax Hs.
    pose proof v1_init_wf as Hwf0.
    assert (Hne : hdr ++ payload ++ rest <> []) by (destruct hdr; [cbn [length] in Hl; lia|discriminate]).
    rewrite v1_run_step by auto. rewrite v1_iter_aiter by auto.
    unfold aiter. change (v1_need v1_init) with (HEADER_SIZE - 0). rewrite HEADER_SIZE_24.
    change (24 - 0) with 24.
    rewrite firstn_app_exact, skipn_app_exact by auto.
    rewrite v1_G_header by auto.
    unfold v1_done. cbn [v1_complete length].
    destruct payload as [|p0 payload'].
    - cbn [length] in Hsz. rewrite Hsz. change (0 =? Z.of_nat 0)%Z with true. cbn iota. reflexivity.
    - destruct (Z.eqb_spec (hdr_size hdr) (Z.of_nat 0)) as [He|_].
      { cbn [length] in Hsz. lia. }
      set (payload := p0 :: payload') in *.
      assert (Hwf1 : v1_wf (V1D hdr [])).
      { cbn [v1_wf length]. rewrite HEADER_SIZE_24. repeat split; auto. rewrite Hsz. unfold payload. cbn [length]. lia. }
      assert (Hs1 : small (payload ++ rest)) by (eapply small_app_r; eauto).
      rewrite app_nil_r.
      rewrite v1_run_step; auto; [|unfold payload; discriminate].
      rewrite v1_iter_aiter by auto. unfold aiter. cbn [v1_need length].
      rewrite Hsz, Nat2Z.id, Nat.sub_0_r.
      rewrite firstn_app_exact, skipn_app_exact by auto.
      cbn [v1_G app]. unfold v1_done. cbn [v1_complete]. rewrite Hsz, Z.eqb_refl. reflexivity.
  Qed.
  Definition payload_ok (payload : list N) : Prop := (Z.of_nat (length payload) <= V1_MAX_PAYLOAD)%Z.

  Lemma v1_header_is_mk type payload :
      v1_header magic H4 type payload =
      mk_header magic (pad_type type) (wrapu32 (Z.of_nat (length payload))) (H4 payload).
  Proof. reflexivity. Qed.

  (* one honestly encoded message, followed by anything, from the idle state *)
  Lemma v1_encoded_frame type payload rest acc : type_ok 126 type -> payload_ok payload ->
      small (v1_encode magic H4 type payload ++ rest) ->
      run _ v1_iter v1_init (v1_encode magic H4 type payload ++ rest) acc =
      run _ v1_iter v1_init rest (acc ++ [Delivered type payload]).
  Proof.
    intros [Htl Htc] Hp Hs. unfold v1_encode in *. rewrite v1_header_is_mk in *.
    pose proof V1_MAX_PAYLOAD_u32 as HM. unfold payload_ok in Hp.
    rewrite wrapu32_id in * by lia.
    destruct (mk_header_fields magic (pad_type type) (Z.of_nat (length payload)) (H4 payload))
      as [Hl [Hm [Ht [Hsz Hc]]]];
      [exact magic_len | apply pad_type_length; auto | exact (H4_len payload) | lia |].
    rewrite <- app_assoc in *.
    rewrite v1_frame; auto; [|lia].
    f_equal. f_equal. f_equal.
    unfold Transport.v1_get_received_message. rewrite Hc, Ht, bytes_eqb_refl. cbn [negb].
    unfold v1_type_valid, pad_type. rewrite type_chars_valid_pad by auto. cbn [negb].
    rewrite (until_nul_pad _ _ 126) by auto. reflexivity.
  Qed.

  Fixpoint v1_stream (msgs : list (list N * list N)) : list N :=
    match msgs with
    | [] => []
    | (t, p) :: r => v1_encode magic H4 t p ++ v1_stream r
    end.

  Lemma v1_stream_run msgs : forall acc,
      Forall (fun m => type_ok 126 (fst m) /\ payload_ok (snd m)) msgs -> small (v1_stream msgs) ->
      run _ v1_iter v1_init (v1_stream msgs) acc = Alive v1_init (acc ++ map (fun m => Delivered (fst m) (snd m)) msgs).
  Proof.
    induction msgs as [|[t p] r IH]; intros acc Hall Hs.
    - cbn [v1_stream map]. rewrite app_nil_r. reflexivity.
    - inversion Hall as [|? ? [Ht Hp] Hr]; subst. cbn [v1_stream map fst snd] in *.
      rewrite v1_encoded_frame; auto.
      rewrite IH; auto. + rewrite <- app_assoc. reflexivity. + eapply small_app_r; eauto.
  Qed.

  (* THEOREM (v1 round trip under every fragmentation): any sequence of messages with sendable types and
     payloads within the receive bound, serialised by the sender and delivered in chunks cut anywhere, is
     received as exactly that sequence; the connection stays up and the receiver is idle again. *)
  Theorem v1_roundtrip msgs chunks :
      Forall (fun m => type_ok 126 (fst m) /\ payload_ok (snd m)) msgs ->
      concat chunks = v1_stream msgs -> small (v1_stream msgs) ->
      node_recv_chunks v1_iter (Alive v1_init []) chunks =
      Alive v1_init (map (fun m => Delivered (fst m) (snd m)) msgs).
  Proof.
    intros Hall Hc Hs. rewrite v1_fragmentation; [|apply v1_init_wf|rewrite Hc; auto].
    rewrite Hc. rewrite node_recv_alive. rewrite v1_stream_run; auto.
  Qed.

  (* THEOREM (v1 checksum): a frame with the right magic and a size within bounds whose checksum field differs
     from the checksum of the payload that follows is never delivered: it is dropped (reject_message), the
     connection stays up, and the bytes after it are processed from the idle state. *)
  Theorem v1_checksum_mismatch_rejected hdr payload rest acc :
      length hdr = 24 -> hdr_magic hdr = magic -> (hdr_size hdr = Z.of_nat (length payload))%Z ->
      (hdr_size hdr <= V1_MAX_PAYLOAD)%Z -> small (hdr ++ payload ++ rest) ->
      H4 payload <> hdr_cks hdr ->
      run _ v1_iter v1_init (hdr ++ payload ++ rest) acc = run _ v1_iter v1_init rest (acc ++ [Rejected]).
  Proof.
    intros Hl Hm Hsz Hmax Hs Hne. rewrite v1_frame; auto.
    unfold Transport.v1_get_received_message. apply bytes_eqb_neq in Hne. rewrite Hne. reflexivity.
  Qed.

  (* the same for a sender's frame whose payload was altered in transit (any alteration of the same length,
     in particular any bit flips) while the header arrived intact — premise: the 4-byte checksums differ *)
  Theorem v1_tampered_payload_rejected type payload payload' rest acc :
      type_ok 126 type -> payload_ok payload -> length payload' = length payload ->
      H4 payload' <> H4 payload ->
      small (v1_header magic H4 type payload ++ payload' ++ rest) ->
      run _ v1_iter v1_init (v1_header magic H4 type payload ++ payload' ++ rest) acc =
      run _ v1_iter v1_init rest (acc ++ [Rejected]).
  Proof.
    intros [Htl Htc] Hp Hlen Hne Hs. rewrite v1_header_is_mk in *.
    pose proof V1_MAX_PAYLOAD_u32 as HM. unfold payload_ok in Hp.
    rewrite wrapu32_id in * by lia.
    destruct (mk_header_fields magic (pad_type type) (Z.of_nat (length payload)) (H4 payload))
      as [Hl [Hm [Ht [Hsz Hc]]]];
      [exact magic_len | apply pad_type_length; auto | exact (H4_len payload) | lia |].
    apply v1_checksum_mismatch_rejected; auto; try lia. rewrite Hc. auto.
  Qed.

  (* THEOREM (v1 header errors disconnect): wrong message start bytes, or a size above
     min(MAX_SIZE, MAX_PROTOCOL_MESSAGE_LENGTH), make ReceiveMsgBytes return false as soon as the 24th header
     byte has arrived; nothing of that frame or after it is delivered. *)
  Theorem v1_bad_header_disconnects hdr rest acc :
      length hdr = 24 -> small (hdr ++ rest) ->
      hdr_magic hdr <> magic \/ (V1_MAX_PAYLOAD < hdr_size hdr)%Z ->
      run _ v1_iter v1_init (hdr ++ rest) acc = Dead acc.
  Proof.
    intros Hl Hs Hbad. pose proof v1_init_wf as Hwf0.
    assert (Hne : hdr ++ rest <> []) by (destruct hdr; [cbn [length] in Hl; lia|discriminate]).
    rewrite v1_run_step by auto. rewrite v1_iter_aiter by auto.
    unfold aiter. change (v1_need v1_init) with (HEADER_SIZE - 0). rewrite HEADER_SIZE_24.
    change (24 - 0) with 24. rewrite firstn_app_exact by auto.
    cbn [v1_G v1_init app]. rewrite Hl, HEADER_SIZE_24. change (Nat.ltb 24 24) with false. cbn iota.
    destruct (bytes_eqb (hdr_magic hdr) magic) eqn:Em; cbn [negb]; [|reflexivity].
    apply bytes_eqb_eq in Em. destruct Hbad as [Hb|Hb]; [congruence|].
    destruct (_ || _) eqn:Es; [reflexivity|]. apply size_checks_max in Es. lia.
  Qed.

  (* the size bound is exact: a header announcing exactly the bound is accepted (the frame lemma applies to it) *)
  Theorem v1_size_bound_exact hdr payload rest acc :
      length hdr = 24 -> hdr_magic hdr = magic -> hdr_size hdr = V1_MAX_PAYLOAD ->
      (Z.of_nat (length payload) = V1_MAX_PAYLOAD)%Z -> small (hdr ++ payload ++ rest) ->
      run _ v1_iter v1_init (hdr ++ payload ++ rest) acc =
      run _ v1_iter v1_init rest (acc ++ [v1_get_received_message (V1D hdr payload)]).
  Proof. intros. apply v1_frame; auto; lia. Qed.
  (* ---------------------------------------------------------------------------------------------- *)
  (* ANY stream: what the receiver outputs is a parse of the stream into frames (24 header bytes announcing the
     length of the payload that follows), one output per frame, in order; a frame is Delivered only if its checksum
     field is the checksum of its payload.  No premise on the stream: tampered, truncated, garbage. *)
  Definition v1_pend (s : v1st) : list N := match s with V1H buf => buf | V1D hdr data => hdr ++ data end.
  Definition frame_ok (f : list N * list N) : Prop :=
    length (fst f) = 24 /\ hdr_size (fst f) = Z.of_nat (length (snd f)).
  Definition frame_out (f : list N * list N) : out := v1_get_received_message (V1D (fst f) (snd f)).
  Definition frame_bytes (f : list N * list N) : list N := fst f ++ snd f.

  Lemma v1_G_parse s t s' o : v1_wf s -> length t <= v1_need s -> v1_G s t = Some (s', o) ->
      (o = [] /\ v1_pend s' = v1_pend s ++ t) \/
      (exists f, frame_ok f /\ o = [frame_out f] /\ frame_bytes f = v1_pend s ++ t /\ s' = v1_init).
  Proof.
    intros Hwf Hlen E. pose proof HEADER_SIZE_24 as H24.
    assert (Hdone : forall h d, length h = 24 -> v1_done (V1D h d) = Some (s', o) ->
              (o = [] /\ v1_pend s' = h ++ d) \/
              (exists f, frame_ok f /\ o = [frame_out f] /\ frame_bytes f = h ++ d /\ s' = v1_init)).
    { intros h d Hl Hd. unfold v1_done in Hd. cbn [v1_complete] in Hd.
      destruct (Z.eqb_spec (hdr_size h) (Z.of_nat (length d))) as [He|Hn]; inversion Hd; subst.
      - right. exists (h, d). unfold frame_ok, frame_out, frame_bytes. cbn [fst snd]. auto.
      - left. auto. }
    destruct s as [buf|hdr data]; cbn [v1_wf v1_G v1_pend v1_need] in *.
    - destruct (Nat.ltb_spec (length (buf ++ t)) HEADER_SIZE) as [Hlt|Hge].
      + inversion E; subst. left. auto.
      + destruct (negb _); [discriminate|]. destruct (_ || _); [discriminate|].
        assert (Hl : length (buf ++ t) = 24) by (rewrite app_length in *; lia).
        destruct (Hdone (buf ++ t) [] Hl E) as [[Ho Hp]|Hf].
        * left. rewrite app_nil_r in Hp. auto.
        * right. rewrite app_nil_r in Hf. exact Hf.
    - destruct Hwf as [Hh _]. rewrite H24 in Hh. rewrite <- app_assoc. apply Hdone; auto.
  Qed.

  Fixpoint flat_frames (fs : list (list N * list N)) : list N :=
    match fs with [] => [] | f :: r => frame_bytes f ++ flat_frames r end.
  Lemma flat_frames_app a b : flat_frames (a ++ b) = flat_frames a ++ flat_frames b.
  Proof. induction a as [|f r IH]; cbn [app flat_frames]; auto. rewrite IH, app_assoc. reflexivity. Qed.

  Definition parsed (W : list N) (c : conn v1st) : Prop :=
    match c with
    | Alive s outs => exists fs, Forall frame_ok fs /\ outs = map frame_out fs /\ W = flat_frames fs ++ v1_pend s
    | Dead outs => exists fs junk, Forall frame_ok fs /\ outs = map frame_out fs /\ W = flat_frames fs ++ junk
    | OutOfFuel => False
    end.

  Theorem v1_parse_sound W : small W -> parsed W (run _ v1_iter v1_init W []).
  Proof.
    intros Hs.
    set (P := fun (s : v1st) (w : list N) (acc : list out) =>
                exists fs, Forall frame_ok fs /\ acc = map frame_out fs /\ W = flat_frames fs ++ v1_pend s ++ w).
    assert (HH := run_inv _ v1_iter v1_wf small v1_doomed).
    specialize (HH small_app_l small_app_r v1_ok_wf_iter v1_M1 v1_M1f v1_M2 v1_doomed_fail P (parsed W)).
    apply HH with (n := length W); auto.
    - intros s acc [fs [Hf [Ha Hw]]]. cbn [parsed]. exists fs. rewrite app_nil_r in Hw. auto.
    - intros s w acc _ _ _ [fs [Hf [Ha Hw]]] _. cbn [parsed]. exists fs, (v1_pend s ++ w). auto.
    - intros s w acc s' r o Hwf Hok Hne [fs [Hf [Ha Hw]]] E.
      rewrite v1_iter_aiter in E by auto. unfold aiter in E.
      destruct (v1_G s (firstn (v1_need s) w)) as [[s2 o2]|] eqn:EG; [|discriminate].
      injection E as E1 E2 E3. subst s2 o2.
      pose proof (firstn_skipn (v1_need s) w) as Hfs. rewrite E2 in Hfs.
      pose proof (firstn_le_length (v1_need s) w) as Hle.
      remember (firstn (v1_need s) w) as tk eqn:Etk. clear Etk.
      destruct (v1_G_parse s tk s' o Hwf Hle EG)
        as [[Ho Hp]|[f [Hfo [Ho [Hb Hs']]]]].
      + exists fs. subst o. rewrite app_nil_r. split; auto. split; auto.
        rewrite Hp, <- app_assoc, Hfs. exact Hw.
      + exists (fs ++ [f]). split; [apply Forall_app; auto|]. split.
        * rewrite map_app, Ha, Ho. reflexivity.
        * rewrite flat_frames_app. cbn [flat_frames]. rewrite app_nil_r, Hb, Hs'. cbn [v1_pend v1_init app].
          rewrite Hw, <- Hfs. rewrite <- !app_assoc. reflexivity.
    - apply v1_init_wf.
    - exists []. cbn. auto.
  Qed.

  (* hence: whatever the stream, a Delivered payload carries the checksum that stood in its frame's header *)
  Lemma frame_out_delivered f t p : frame_out f = Delivered t p -> p = snd f /\ H4 p = hdr_cks (fst f).
  Proof.
    unfold frame_out, Transport.v1_get_received_message.
    destruct (bytes_eqb (H4 (snd f)) (hdr_cks (fst f))) eqn:E; cbn [negb]; [|discriminate].
    destruct (v1_type_valid _); cbn [negb]; [|discriminate]. intros H. inversion H; subst.
    apply bytes_eqb_eq in E. auto.
  Qed.
  (* ---------------------------------------------------------------------------------------------- *)
  (* the sender: whatever the socket writer's schedule of partial sends, the bytes handed out are the encoding *)
  Definition send_remaining (s : v1send) : list N :=
    if sd_hdr_phase s then skipn (sd_sent s) (sd_header s) ++ sd_data s else skipn (sd_sent s) (sd_data s).
  Definition send_wf (s : v1send) : Prop :=
    if sd_hdr_phase s then sd_sent s < length (sd_header s) else (sd_sent s < length (sd_data s) \/ sd_sent s = 0)%nat.

  Lemma skipn_add {A} (a b : nat) (l : list A) : skipn (a + b) l = skipn b (skipn a l).
  Proof. revert l. induction a as [|a IH]; intros l; cbn [Nat.add skipn]; auto. destruct l; auto. destruct b; auto. Qed.

  Lemma bytes_to_send_nil s : send_wf s -> v1_bytes_to_send s = [] -> send_remaining s = [] /\ sd_hdr_phase s = false.
  Proof.
    unfold send_wf, v1_bytes_to_send, send_remaining. destruct (sd_hdr_phase s); intros Hwf He.
    - exfalso. apply (f_equal (@length N)) in He. rewrite skipn_length in He. cbn [length] in He. lia.
    - auto.
  Qed.

  Lemma pump_step s k : send_wf s -> v1_bytes_to_send s <> [] ->
      let avail := v1_bytes_to_send s in
      let k' := Nat.max 1 (Nat.min k (length avail)) in
      let s' := v1_mark_bytes_sent s k' in
      firstn k' avail ++ send_remaining s' = send_remaining s /\ send_wf s' /\
      length (send_remaining s') < length (send_remaining s).
  Proof.
    intros Hwf Hne. cbv zeta.
    remember (v1_bytes_to_send s) as avail eqn:Eav.
    assert (Hal : 1 <= length avail) by (destruct avail; [congruence|cbn [length]; lia]).
    remember (Nat.max 1 (Nat.min k (length avail))) as k' eqn:Ek.
    assert (Hk : 1 <= k' <= length avail) by lia. clear Ek Hne.
    destruct s as [ph sent hdr data]. unfold send_wf, v1_bytes_to_send, send_remaining, v1_mark_bytes_sent in *.
    cbn [sd_hdr_phase sd_sent sd_header sd_data] in *.
    destruct ph; cbn [andb negb].
    - assert (Hav : length avail = length hdr - sent) by (rewrite Eav; apply skipn_length).
      destruct (Nat.eqb_spec (sent + k') (length hdr)) as [He|Hn]; cbn [sd_hdr_phase sd_sent sd_header sd_data].
      + assert (Hka : k' = length avail) by lia. rewrite Hka, firstn_all. cbn [skipn]. rewrite Eav.
        split; auto. split; [right; auto|]. rewrite app_length, skipn_length. lia.
      + rewrite skipn_add, <- Eav. rewrite app_assoc, firstn_skipn. split; auto.
        split; [lia|]. rewrite !app_length, !skipn_length. lia.
    - assert (Hav : length avail = length data - sent) by (rewrite Eav; apply skipn_length).
      destruct (Nat.eqb_spec (sent + k') (length data)) as [He|Hn]; cbn [sd_hdr_phase sd_sent sd_header sd_data].
      + assert (Hka : k' = length avail) by lia. rewrite Hka, firstn_all. cbn [skipn]. rewrite app_nil_r, Eav.
        split; auto. split; [right; auto|]. cbn [length]. rewrite skipn_length. lia.
      + rewrite skipn_add, <- Eav. rewrite firstn_skipn. split; auto.
        split; [left; lia|]. rewrite !skipn_length. lia.
  Qed.

  Lemma v1_pump_emits : forall sched s acc, send_wf s ->
      let r := v1_pump sched s acc in
      snd r ++ send_remaining (fst r) = acc ++ send_remaining s /\ send_wf (fst r) /\
      (length (send_remaining s) <= length sched -> send_remaining (fst r) = [] /\ sd_hdr_phase (fst r) = false).
  Proof.
    induction sched as [|k r IH]; intros s acc Hwf; cbn [v1_pump].
    - cbn [fst snd length]. split; auto. split; auto. intros Hl.
      assert (send_remaining s = []) by (destruct (send_remaining s); [auto|cbn [length] in Hl; lia]).
      split; auto. unfold send_remaining, send_wf in *. destruct (sd_hdr_phase s); auto.
      exfalso. apply (f_equal (@length N)) in H. rewrite app_length, skipn_length in H. cbn [length] in H. lia.
    - destruct (v1_bytes_to_send s) as [|b0 av] eqn:Eav.
      + cbn [fst snd]. destruct (bytes_to_send_nil s Hwf Eav) as [Hr Hp]. split; auto.
      + assert (Hne : v1_bytes_to_send s <> []) by (rewrite Eav; discriminate).
        destruct (pump_step s k Hwf Hne) as [H1 [H2 H3]]. rewrite Eav in H1, H2, H3.
        cbv zeta in H1, H2, H3.
        specialize (IH (v1_mark_bytes_sent s (Nat.max 1 (Nat.min k (length (b0 :: av)))))
                       (acc ++ firstn (Nat.max 1 (Nat.min k (length (b0 :: av)))) (b0 :: av)) H2).
        cbv zeta in IH. destruct IH as [I1 [I2 I3]].
        split; [rewrite I1, <- app_assoc, H1; reflexivity|]. split; auto.
        intros Hl. apply I3. cbn [length] in Hl. lia.
  Qed.

  (* THEOREM (v1 sender): after SetMessageToSend, for every schedule of partial sends with enough steps, the bytes
     handed out by GetBytesToSend / MarkBytesSent are exactly the encoding, and the next message can be set *)
  Theorem v1_sender_emits_encoding type payload sched s0 :
      v1_set_message_to_send magic H4 v1send_init type payload = Some s0 ->
      length (v1_encode magic H4 type payload) <= length sched ->
      snd (v1_pump sched s0 []) = v1_encode magic H4 type payload /\
      (forall t p, v1_set_message_to_send magic H4 (fst (v1_pump sched s0 [])) t p <> None).
  Proof.
    intros Hset Hlen. unfold v1_set_message_to_send, v1send_init in Hset. cbn in Hset. inversion Hset; subst s0. clear Hset.
    set (s0 := {| sd_hdr_phase := true; sd_sent := 0; sd_header := v1_header magic H4 type payload; sd_data := payload |}).
    assert (Hl24 : 0 < length (v1_header magic H4 type payload)).
    { unfold v1_header. rewrite !app_length, magic_len, MESSAGE_START_SIZE_4. lia. }
    assert (Hwf : send_wf s0) by (unfold send_wf, s0; cbn [sd_hdr_phase sd_sent sd_header]; exact Hl24).
    destruct (v1_pump_emits sched s0 [] Hwf) as [H1 [H2 H3]]. cbv zeta in H1, H2, H3.
    assert (Hrem : send_remaining s0 = v1_encode magic H4 type payload) by reflexivity.
    rewrite Hrem in H1, H3. destruct (H3 Hlen) as [Hr Hp]. rewrite Hr, app_nil_r in H1. cbn [app] in H1.
    split; auto. intros t p. unfold v1_set_message_to_send. rewrite Hp. cbn [orb].
    unfold send_remaining, send_wf in *. rewrite Hp in Hr, H2.
    destruct (Nat.ltb_spec (sd_sent (fst (v1_pump sched s0 []))) (length (sd_data (fst (v1_pump sched s0 []))))) as [Hlt|Hge]; [|discriminate].
    exfalso. apply (f_equal (@length N)) in Hr. rewrite skipn_length in Hr. cbn [length] in Hr. lia.
  Qed.
End V1Proofs.


