(* Proofs about model/Codec.v, part 3: base58 (EncodeBase58 / DecodeBase58 round trip). *)
From Coq Require Import NArith.
From BV Require Import lib.Ints gen.Params_gen model.SerBase model.Codec proofs.SerBaseLemmas proofs.CodecLemmas.
Local Open Scope Z_scope.

(* value of a least-significant-first digit list *)
Fixpoint lev (base : Z) (ds : list Z) : Z := match ds with [] => 0 | d :: r => d + base * lev base r end.
Definition digs (base : Z) (ds : list Z) : Prop := Forall (fun d => 0 <= d < base) ds.
(* all entries at index >= k are zero / the entry at index k-1 is not zero (k > 0) *)
Definition zeros_from (k : Z) (ds : list Z) : Prop := forall j, k <= Z.of_nat j -> nth j ds 0 = 0.
Definition top_nz (k : Z) (ds : list Z) : Prop := 0 < k -> nth (Z.to_nat (k - 1)) ds 0 <> 0.

Lemma lev_nonneg base ds : 0 < base -> digs base ds -> 0 <= lev base ds.
Proof. intros Hb H. induction H as [|d r Hd Hr IH]; cbn [lev]; nia. Qed.

Lemma lev_bound base ds : 0 < base -> digs base ds -> lev base ds < base ^ Z.of_nat (length ds).
Proof.
  intros Hb H. induction H as [|d r Hd Hr IH]; [cbn; lia|].
  cbn [lev length]. rewrite Nat2Z.inj_succ, Z.pow_succ_r by lia. nia.
Qed.

Lemma zeros_from_tail k d r : zeros_from k (d :: r) -> zeros_from (k - 1) r.
Proof. intros H j Hj. specialize (H (S j) ltac:(lia)). exact H. Qed.

Lemma zeros_all_lev base ds : zeros_from 0 ds -> lev base ds = 0.
Proof.
  induction ds as [|d r IH]; intros H; [reflexivity|]. cbn [lev].
  pose proof (H 0%nat ltac:(lia)) as H0. cbn in H0. subst d.
  rewrite IH; [lia|]. apply zeros_from_tail in H. intros j Hj. apply H. lia.
Qed.

Lemma zeros_from_weaken k k' ds : k <= k' -> zeros_from k ds -> zeros_from k' ds.
Proof. intros Hk H j Hj. apply H. lia. Qed.

Section MulAdd.
  Variables base mult : Z.
  Hypothesis base_gt1 : 1 < base.
  Hypothesis mult_pos : 0 < mult.

  (* one pass "array = array * mult + carry" *)
  Lemma bn_muladd_spec len : forall ds carry i ds' carry' i',
    digs base ds -> 0 <= carry -> zeros_from (len - i) ds -> top_nz (len - i) ds ->
    len - i <= Z.of_nat (length ds) ->
    bn_muladd base mult ds carry i len = (ds', carry', i') ->
    length ds' = length ds /\ digs base ds' /\ 0 <= carry' /\
    i <= i' <= i + Z.of_nat (length ds) /\
    lev base ds' + carry' * base ^ Z.of_nat (length ds) = mult * lev base ds + carry /\
    zeros_from (i' - i) ds' /\
    (carry' = 0 -> len <= i' /\ top_nz (i' - i) ds' /\ (i' = i -> carry = 0)).
  Proof.
    induction ds as [|d r IH]; intros carry i ds' carry' i' Hd Hc Hz Ht Hl H.
    - cbn [bn_muladd] in H. inversion H; subst. cbn [length lev] in *. change (base ^ Z.of_nat 0) with 1.
      repeat split; try lia; try constructor.
      + intros j _. destruct j; reflexivity.
      + intros Hk. lia.
    - cbn [bn_muladd] in H. inversion Hd as [|? ? Hd0 Hdr]; subst.
      destruct (negb (carry =? 0) || (i <? len)) eqn:C.
      + set (c := carry + mult * d) in *.
        destruct (bn_muladd base mult r (c / base) (i + 1) len) as [[r' cy] i2] eqn:E.
        inversion H; subst ds' carry' i'. clear H.
        assert (Hc0 : 0 <= c) by (unfold c; nia).
        assert (Hcb : 0 <= c / base) by (apply Z.div_pos; lia).
        assert (Hz' : zeros_from (len - (i + 1)) r).
        { apply zeros_from_tail in Hz. replace (len - (i + 1)) with (len - i - 1) by lia. exact Hz. }
        assert (Ht' : top_nz (len - (i + 1)) r).
        { intros Hk. specialize (Ht ltac:(lia)).
          replace (Z.to_nat (len - i - 1)) with (S (Z.to_nat (len - (i + 1) - 1))) in Ht by lia. exact Ht. }
        cbn [length] in Hl.
        destruct (IH (c / base) (i + 1) r' cy i2 Hdr Hcb Hz' Ht' ltac:(lia) E) as [L [D [Cy [I [V [Z0 T]]]]]].
        pose proof (Z.mod_pos_bound c base ltac:(lia)) as Hm.
        split; [cbn [length]; lia|]. split; [constructor; [lia|exact D]|]. split; [exact Cy|].
        split; [cbn [length]; lia|]. split; [|split].
        * cbn [lev length]. rewrite Nat2Z.inj_succ, Z.pow_succ_r by lia.
          pose proof (Z.div_mod c base ltac:(lia)) as DM.
          assert (EL : lev base r' = mult * lev base r + c / base - cy * base ^ Z.of_nat (length r)) by lia.
          rewrite EL.
          transitivity (base * (c / base) + c mod base + mult * base * lev base r); [ring|].
          rewrite <- DM. unfold c. ring.
        * intros j Hj. destruct j as [|j]; [lia|]. cbn [nth]. apply Z0. lia.
        * intros Hcy. destruct (T Hcy) as [T1 [T2 T3]]. split; [exact T1|]. split; [|intros; lia].
          intros Hk. destruct (Z.eq_dec i2 (i + 1)) as [Ei|Ei].
          -- (* the pass stopped right after this digit: it is the top digit *)
             subst i2. replace (Z.to_nat (i + 1 - i - 1)) with 0%nat by lia. cbn [nth].
             specialize (T3 eq_refl).
             assert (c < base) by (pose proof (Z.div_mod c base ltac:(lia)); nia).
             rewrite Z.mod_small by lia.
             destruct (carry =? 0) eqn:C0.
             ++ cbn [negb orb] in C. assert (Hil : i < len) by lia.
                assert (len - i = 1) by lia.
                specialize (Ht ltac:(lia)). replace (Z.to_nat (len - i - 1)) with 0%nat in Ht by lia. cbn [nth] in Ht.
                unfold c. assert (carry = 0) by lia. nia.
             ++ unfold c. nia.
          -- replace (Z.to_nat (i2 - i - 1)) with (S (Z.to_nat (i2 - (i + 1) - 1))) by lia. cbn [nth].
             apply T2. lia.
      + (* carry = 0 and i >= len: nothing left to do *)
        inversion H; subst ds' carry' i'. clear H.
        assert (carry = 0) by lia. assert (len <= i) by lia. subst carry.
        assert (Z0 : zeros_from 0 (d :: r)) by (eapply zeros_from_weaken; [|exact Hz]; lia).
        rewrite (zeros_all_lev base (d :: r) Z0).
        repeat split; try assumption; try lia.
        * replace (i - i) with 0 by lia. exact Z0.
        * intros Hk. lia.
  Qed.
End MulAdd.

(* Horner value of a most-significant-first digit list, continuing from v *)
Definition hstep (mult : Z) (v : Z) (l : list Z) : Z := fold_left (fun a d => a * mult + d) l v.

Lemma hstep_app mult v a b : hstep mult v (a ++ b) = hstep mult (hstep mult v a) b.
Proof. unfold hstep. apply fold_left_app. Qed.

Lemma hstep_mono mult l : 0 < mult -> Forall (fun d => 0 <= d) l -> forall v, 0 <= v -> v <= hstep mult v l.
Proof.
  intros Hm H. induction H as [|d r Hd Hr IH]; intros v Hv; [cbn; lia|].
  cbn [hstep fold_left]. fold (hstep mult (v * mult + d) r). specialize (IH (v * mult + d) ltac:(nia)). nia.
Qed.

Lemma hstep_rev_lev base l : hstep base 0 (rev l) = lev base l.
Proof.
  induction l as [|d r IH]; [reflexivity|]. cbn [rev lev]. rewrite hstep_app, IH. cbn. lia.
Qed.

Lemma lev_nth_lower base ds : 0 < base -> digs base ds -> forall j, (j < length ds)%nat ->
  nth j ds 0 * base ^ Z.of_nat j <= lev base ds.
Proof.
  intros Hb H. induction H as [|d r Hd Hr IH]; intros j Hj; [cbn in Hj; lia|].
  pose proof (lev_nonneg base r Hb Hr). destruct j as [|j]; cbn [nth lev].
  - change (base ^ Z.of_nat 0) with 1. nia.
  - rewrite Nat2Z.inj_succ, Z.pow_succ_r by lia. specialize (IH j ltac:(cbn [length] in Hj; lia)). nia.
Qed.

Lemma lev_zeros_upper base ds : 0 < base -> digs base ds -> forall k, 0 <= k -> zeros_from k ds -> lev base ds < base ^ k.
Proof.
  intros Hb H. induction H as [|d r Hd Hr IH]; intros k Hk Hz.
  - cbn. apply Z.pow_pos_nonneg; lia.
  - cbn [lev]. destruct (Z.eq_dec k 0) as [->|Hk0].
    + rewrite (zeros_all_lev base r) by (apply zeros_from_tail in Hz; eapply zeros_from_weaken; [|exact Hz]; lia).
      pose proof (Hz 0%nat ltac:(lia)) as H0. cbn in H0. subst d. cbn. lia.
    + specialize (IH (k - 1) ltac:(lia) (zeros_from_tail k d r Hz)).
      replace k with (Z.succ (k - 1)) at 1 by lia. rewrite Z.pow_succ_r by lia. nia.
Qed.

Section Absorb.
  Variables base mult : Z.
  Hypothesis base_gt1 : 1 < base.
  Hypothesis mult_pos : 0 < mult.

  Definition inv (size : nat) (b : list Z) (len v : Z) : Prop :=
    length b = size /\ digs base b /\ zeros_from len b /\ top_nz len b /\ 0 <= len <= Z.of_nat size /\ lev base b = v.

  (* the number of significant digits is determined by the value *)
  Lemma inv_digits size b len v : inv size b len v ->
    0 <= v < base ^ len /\ (0 < len -> base ^ (len - 1) <= v).
  Proof.
    intros [L [D [Z0 [T [Hl V]]]]]. subst v. split.
    - split; [apply lev_nonneg; [lia|exact D] | apply lev_zeros_upper; [lia|exact D|lia|exact Z0]].
    - intros Hk. specialize (T Hk).
      pose proof (lev_nth_lower base b ltac:(lia) D (Z.to_nat (len - 1)) ltac:(lia)) as Hn.
      rewrite Z2Nat.id in Hn by lia.
      assert (Hd : 0 <= nth (Z.to_nat (len - 1)) b 0 < base).
      { unfold digs in D. rewrite Forall_forall in D. apply D. apply nth_In. lia. }
      assert (0 < base ^ (len - 1)) by (apply Z.pow_pos_nonneg; lia). nia.
  Qed.

  Lemma bn_absorb_spec size : forall inp b len v,
    inv size b len v -> Forall (fun d => 0 <= d) inp -> hstep mult v inp < base ^ Z.of_nat size ->
    exists b' len', bn_absorb base mult b len inp = Some (b', len') /\ inv size b' len' (hstep mult v inp).
  Proof.
    induction inp as [|ch r IH]; intros b len v I Hnn Hcap.
    - exists b, len. split; [reflexivity|exact I].
    - inversion Hnn as [|? ? Hch Hr]; subst. cbn [bn_absorb].
      destruct I as [L [D [Z0 [T [Hl V]]]]].
      destruct (bn_muladd base mult b ch 0 len) as [[b1 cy] i1] eqn:E.
      destruct (bn_muladd_spec base mult base_gt1 mult_pos len b ch 0 b1 cy i1 D Hch
                  ltac:(replace (len - 0) with len by lia; exact Z0) ltac:(replace (len - 0) with len by lia; exact T)
                  ltac:(lia) E) as [L1 [D1 [Cy [I1 [V1 [Z1 T1]]]]]].
      cbn [hstep fold_left] in Hcap |- *. fold (hstep mult (v * mult + ch) r) in Hcap |- *.
      assert (Hv : 0 <= v) by (subst v; apply lev_nonneg; [lia|exact D]).
      pose proof (hstep_mono mult r mult_pos Hr (v * mult + ch) ltac:(nia)) as Hm.
      rewrite L in V1. 
      assert (P : 0 < base ^ Z.of_nat size) by (apply Z.pow_pos_nonneg; lia).
      pose proof (lev_nonneg base b1 ltac:(lia) D1) as Hn1.
      assert (cy = 0) by (rewrite V in V1; nia). subst cy.
      cbn [Z.eqb negb]. destruct (T1 eq_refl) as [T1a [T1b _]].
      replace (i1 - 0) with i1 in * by lia.
      apply IH; [|exact Hr|exact Hcap].
      repeat split; try assumption; try lia.
  Qed.
End Absorb.

(* ---- capacity of the big-number arrays: size = n*138/100+1 base-58 digits hold n bytes, and
        size = m*733/1000+1 bytes hold m base-58 digits ---- *)
Lemma pow_cmp_scaled a b p q n k : 1 < a -> 1 < b -> 0 < p -> 0 < q -> a ^ p <= b ^ q -> 0 <= n -> q * n < p * k ->
  a ^ n < b ^ k.
Proof.
  (* a^n < b^k  <=  (a^n)^p < (b^k)^p : (a^p)^n <= (b^q)^n = b^(q n) < b^(p k) *)
  intros Ha Hb Hp Hq H Hn Hlt.
  assert (Hk : 0 <= k) by nia.
  apply (Z.pow_lt_mono_l_iff (a ^ n) (b ^ k) p); try lia; try (apply Z.pow_nonneg; lia).
  rewrite <- !Z.pow_mul_r by lia.
  apply Z.le_lt_trans with (m := b ^ (q * n)).
  - rewrite (Z.mul_comm n p). rewrite (Z.pow_mul_r a p n), (Z.pow_mul_r b q n) by lia.
    apply Z.pow_le_mono_l. split; [apply Z.pow_nonneg; lia|exact H].
  - rewrite (Z.mul_comm k p). apply Z.pow_lt_mono_r; lia.
Qed.

Lemma cap_58_holds_256 n : 0 <= n -> 256 ^ n < 58 ^ (n * 138 / 100 + 1).
Proof.
  intros Hn. apply (pow_cmp_scaled 256 58 100 138); try lia.
  all: try (vm_compute; discriminate).
  all: pose proof (Z.div_mod (n * 138) 100 ltac:(lia)); pose proof (Z.mod_pos_bound (n * 138) 100 ltac:(lia)); lia.
Qed.

Lemma cap_256_holds_58 m : 0 <= m -> 58 ^ m < 256 ^ (m * 733 / 1000 + 1).
Proof.
  intros Hm. apply (pow_cmp_scaled 58 256 1000 733); try lia.
  all: try (vm_compute; discriminate).
  all: pose proof (Z.div_mod (m * 733) 1000 ltac:(lia)); pose proof (Z.mod_pos_bound (m * 733) 1000 ltac:(lia)); lia.
Qed.

(* ---- Horner bounds ---- *)
Lemma hstep_upper mult l : 1 < mult -> Forall (fun d => 0 <= d < mult) l -> forall v, 0 <= v ->
  hstep mult v l < (v + 1) * mult ^ Z.of_nat (length l).
Proof.
  intros Hm H. induction H as [|d r Hd Hr IH]; intros v Hv; [cbn; lia|].
  cbn [hstep fold_left length]. fold (hstep mult (v * mult + d) r).
  specialize (IH (v * mult + d) ltac:(nia)). rewrite Nat2Z.inj_succ, Z.pow_succ_r by lia.
  assert (0 < mult ^ Z.of_nat (length r)) by (apply Z.pow_pos_nonneg; lia). nia.
Qed.

Lemma hstep_scale mult r : 1 < mult -> Forall (fun x => 0 <= x) r -> forall v, 0 <= v ->
  v * mult ^ Z.of_nat (length r) <= hstep mult v r.
Proof.
  intros Hm H. induction H as [|x r Hx Hr IH]; intros v Hv; [cbn; lia|].
  cbn [hstep fold_left length]. fold (hstep mult (v * mult + x) r).
  rewrite Nat2Z.inj_succ, Z.pow_succ_r by lia.
  specialize (IH (v * mult + x) ltac:(nia)).
  assert (0 < mult ^ Z.of_nat (length r)) by (apply Z.pow_pos_nonneg; lia). nia.
Qed.

Lemma hstep_lower mult d r : 1 < mult -> 1 <= d -> Forall (fun x => 0 <= x) r ->
  mult ^ Z.of_nat (length r) <= hstep mult 0 (d :: r).
Proof.
  intros Hm Hd Hr. cbn [hstep fold_left]. fold (hstep mult (0 * mult + d) r). replace (0 * mult + d) with d by lia.
  pose proof (hstep_scale mult r Hm Hr d ltac:(lia)).
  assert (0 < mult ^ Z.of_nat (length r)) by (apply Z.pow_pos_nonneg; lia). nia.
Qed.

Lemma lev_inj base : 1 < base -> forall a b, digs base a -> digs base b -> length a = length b ->
  lev base a = lev base b -> a = b.
Proof.
  intros Hb a. induction a as [|x a IH]; intros [|y b] Ha Hb' L E; try reflexivity; try discriminate.
  inversion Ha; inversion Hb'; subst. cbn [lev] in E. injection L as L.
  assert (Hx : (x + base * lev base a) mod base = x) by (symmetry; apply Z.mod_unique with (q := lev base a); lia).
  assert (Hy : (y + base * lev base b) mod base = y) by (symmetry; apply Z.mod_unique with (q := lev base b); lia).
  assert (x = y) by (rewrite E in Hx; congruence). subst y. f_equal. apply IH; auto.
  assert (base * lev base a = base * lev base b) by lia. nia.
Qed.

Lemma lev_firstn base ds k : 0 <= k -> zeros_from k ds -> lev base (firstn (Z.to_nat k) ds) = lev base ds.
Proof.
  revert k. induction ds as [|d r IH]; intros k Hk Hz; [rewrite firstn_nil; reflexivity|].
  destruct (Z.eq_dec k 0) as [->|Hk0].
  - cbn [Z.to_nat firstn]. symmetry. change (lev base []) with 0. apply zeros_all_lev. exact Hz.
  - replace (Z.to_nat k) with (S (Z.to_nat (k - 1))) by lia. cbn [firstn lev].
    rewrite IH by (try lia; apply (zeros_from_tail k d r Hz)). reflexivity.
Qed.

(* ---- the alphabet ---- *)
Lemma b58_digit_facts d : 0 <= d < 58 ->
  b58_value (b58_char d) = d /\ b58_char d <> 0%N /\ is_space (b58_char d) = false /\
  (b58_char d =? 49)%N = (d =? 0).
Proof.
  intros H.
  assert (F : forallb (fun d => (b58_value (b58_char d) =? d) && negb (b58_char d =? 0)%N && negb (is_space (b58_char d))
                                && Bool.eqb (b58_char d =? 49)%N (d =? 0)) (map Z.of_nat (seq 0 58)) = true)
    by (vm_compute; reflexivity).
  rewrite forallb_forall in F.
  assert (Hin : In d (map Z.of_nat (seq 0 58))).
  { apply in_map_iff. exists (Z.to_nat d). split; [lia|]. apply in_seq. lia. }
  specialize (F d Hin).
  apply andb_prop in F. destruct F as [F F4]. apply andb_prop in F. destruct F as [F F3]. apply andb_prop in F. destruct F as [F1 F2].
  apply Z.eqb_eq in F1. apply negb_true_iff in F2. apply N.eqb_neq in F2. apply negb_true_iff in F3. apply eqb_prop in F4.
  repeat split; assumption.
Qed.

(* ---- small list facts ---- *)
Lemma count_prefix_repeat p x n l : p x = true -> (match l with [] => True | y :: _ => p y = false end) ->
  count_prefix p (repeat x n ++ l) = n.
Proof.
  intros Hx Hl. induction n as [|n IH]; cbn [repeat app count_prefix].
  - destruct l as [|y l]; [reflexivity|]. cbn [count_prefix]. rewrite Hl. reflexivity.
  - rewrite Hx, IH. reflexivity.
Qed.

Lemma count_prefix_split p l : let z := count_prefix p l in
  Forall (fun x => p x = true) (firstn z l) /\ (match skipn z l with [] => True | y :: _ => p y = false end).
Proof.
  induction l as [|x l IH]; cbn [count_prefix]; [split; [constructor|exact I]|].
  destruct (p x) eqn:E.
  - cbn [firstn skipn]. destruct IH as [I1 I2]. split; [constructor; assumption|exact I2].
  - cbn [firstn skipn]. split; [constructor|exact E].
Qed.

Lemma skipn_repeat_app {A} (x : A) n l : skipn n (repeat x n ++ l) = l.
Proof. induction n as [|n IH]; [reflexivity|]. cbn [repeat app skipn]. exact IH. Qed.

Lemma drop_while_head_false {A} (p : A -> bool) l : (match l with [] => True | y :: _ => p y = false end) -> drop_while p l = l.
Proof. destruct l as [|y l]; intros H; [reflexivity|]. cbn [drop_while]. rewrite H. reflexivity. Qed.

Lemma all_eq_repeat {A} (x : A) l : Forall (fun y => y = x) l -> l = repeat x (length l).
Proof. induction 1 as [|y l Hy Hl IH]; [reflexivity|]. cbn [length repeat]. subst y. f_equal. exact IH. Qed.

Lemma inv_init base size : 1 < base -> inv base size (repeat 0 size) 0 0.
Proof.
  intros Hb. unfold inv. rewrite repeat_length.
  assert (Z0 : zeros_from 0 (repeat 0 size)).
  { intros j _. destruct (Nat.lt_ge_cases j size) as [H|H].
    - apply repeat_spec with (n := size). apply nth_In. rewrite repeat_length. exact H.
    - apply nth_overflow. rewrite repeat_length. exact H. }
  repeat split; try lia.
  - unfold digs. apply Forall_forall. intros x Hx. apply repeat_spec in Hx. lia.
  - exact Z0.
  - intros H. lia.
  - apply zeros_all_lev. exact Z0.
Qed.

Lemma bytes_digs l : bytes_ok l -> digs 256 (bytes_to_Z l).
Proof.
  unfold bytes_ok, digs, bytes_to_Z. intros H. apply Forall_map. eapply Forall_impl; [|exact H]. cbv beta. intros a Ha. lia.
Qed.

Lemma nth_firstn_lt58 {A} (d : A) i : forall l j, (j < i)%nat -> nth j (firstn i l) d = nth j l d.
Proof.
  induction i as [|i IH]; intros l j H; [lia|]. destruct l as [|x l]; [destruct j; reflexivity|].
  destruct j as [|j]; [reflexivity|]. cbn [firstn nth]. apply IH. lia.
Qed.
Lemma In_firstn58 {A} (x : A) n l : In x (firstn n l) -> In x l.
Proof.
  revert l. induction n as [|n IH]; intros l H; [destruct H|].
  destruct l as [|y l]; [destruct H|]. cbn [firstn] in H. destruct H as [->|H]; [left; reflexivity|right; auto].
Qed.

(* ENCODER: '1' for every leading zero byte, then the base-58 digits (most significant first, no
   leading zero digit) of the number the remaining bytes spell *)
Lemma encode_base58_spec input : bytes_ok input ->
  let z := count_prefix (fun c => (c =? 0)%N) input in
  let rest := skipn z input in
  exists D, encode_base58 input = Some (repeat 49%N z ++ map b58_char D) /\ digs 58 D /\
    hstep 58 0 D = hstep 256 0 (bytes_to_Z rest) /\
    (match D with [] => True | d :: _ => d <> 0 end).
Proof.
  intros Hb z rest. unfold encode_base58. fold z. fold rest.
  set (size := Z.to_nat (Z.of_nat (length rest) * 138 / 100 + 1)).
  assert (Hr : bytes_ok rest) by (apply bytes_ok_skipn; exact Hb).
  pose proof (bytes_digs rest Hr) as Dr.
  assert (Hnn : Forall (fun d => 0 <= d) (bytes_to_Z rest)).
  { eapply Forall_impl; [|exact Dr]. cbv beta. intros; lia. }
  assert (Hsz : Z.of_nat size = Z.of_nat (length rest) * 138 / 100 + 1).
  { unfold size. rewrite Z2Nat.id; [reflexivity|].
    assert (0 <= Z.of_nat (length rest) * 138 / 100) by (apply Z.div_pos; lia). lia. }
  assert (Hcap : hstep 256 0 (bytes_to_Z rest) < 58 ^ Z.of_nat size).
  { pose proof (hstep_upper 256 (bytes_to_Z rest) ltac:(lia) Dr 0 ltac:(lia)) as U.
    unfold bytes_to_Z in U. rewrite map_length in U. fold (bytes_to_Z rest) in U.
    pose proof (cap_58_holds_256 (Z.of_nat (length rest)) ltac:(lia)) as C. rewrite <- Hsz in C. lia. }
  destruct (bn_absorb_spec 58 256 ltac:(lia) ltac:(lia) size (bytes_to_Z rest) (repeat 0 size) 0 0
              (inv_init 58 size ltac:(lia)) Hnn Hcap) as [b58 [len [E I]]].
  rewrite E.
  destruct I as [L [D [Z0 [T [Hl V]]]]].
  set (msb := rev (firstn (Z.to_nat len) b58)).
  assert (Lf : length (firstn (Z.to_nat len) b58) = Z.to_nat len) by (rewrite firstn_length; lia).
  (* no leading zero digit: nothing is dropped *)
  assert (Hhead : match msb with [] => True | d :: _ => d <> 0 end).
  { unfold msb. destruct (Z.eq_dec len 0) as [->|Hl0]; [cbn; exact I|].
    specialize (T ltac:(lia)).
    destruct (rev (firstn (Z.to_nat len) b58)) as [|d0 r0] eqn:Er; [exact I|].
    assert (Hd0 : d0 = nth (Z.to_nat (len - 1)) b58 0).
    { assert (Hn : nth 0 (rev (firstn (Z.to_nat len) b58)) 0 = d0) by (rewrite Er; reflexivity).
      rewrite rev_nth in Hn by (rewrite Lf; lia). rewrite Lf in Hn.
      rewrite <- Hn. replace (Z.to_nat len - 1)%nat with (Z.to_nat (len - 1)) by lia.
      rewrite nth_firstn_lt58 by lia. reflexivity. }
    rewrite Hd0. exact T. }
  assert (Hdrop : drop_while (fun d => d =? 0) msb = msb).
  { apply drop_while_head_false. destruct msb as [|d0 r0]; [exact I|]. lia. }
  rewrite Hdrop. exists msb. split; [reflexivity|]. split; [|split; [|exact Hhead]].
  - unfold msb, digs. apply Forall_rev. unfold digs in D. rewrite Forall_forall in *. intros x Hx. apply D.
    apply (In_firstn58 _ _ _ Hx).
  - unfold msb. rewrite hstep_rev_lev. rewrite lev_firstn by (try lia; exact Z0). exact V.
Qed.

(* DECODER loop over alphabet characters *)
Lemma b58_absorb_spec size zeroes maxlen R : 0 <= R -> zeroes + R <= maxlen ->
  forall D b len v, inv 256 size b len v -> digs 58 D ->
  hstep 58 v D < 256 ^ Z.of_nat size -> hstep 58 v D < 256 ^ R ->
  exists b' len', b58_absorb b len zeroes maxlen (map b58_char D) = Some (Some (b', len', [])) /\
                  inv 256 size b' len' (hstep 58 v D).
Proof.
  intros HR Hmax. induction D as [|d r IH]; intros b len v I HD Hcap HcapR.
  - exists b, len. split; [reflexivity|exact I].
  - inversion HD as [|? ? Hd Hr]; subst. cbn [map b58_absorb].
    destruct (b58_digit_facts d Hd) as [F1 [F2 [F3 F4]]]. rewrite F3, F1.
    assert (E1 : (d =? -1) = false) by lia. rewrite E1.
    destruct I as [L [Dg [Z0 [T [Hl V]]]]].
    destruct (bn_muladd 256 58 b d 0 len) as [[b1 cy] i1] eqn:E.
    destruct (bn_muladd_spec 256 58 ltac:(lia) ltac:(lia) len b d 0 b1 cy i1 Dg ltac:(lia)
                ltac:(replace (len - 0) with len by lia; exact Z0) ltac:(replace (len - 0) with len by lia; exact T)
                ltac:(lia) E) as [L1 [D1 [Cy [I1 [V1 [Z1 T1]]]]]].
    cbn [hstep fold_left] in Hcap, HcapR |- *. fold (hstep 58 (v * 58 + d) r) in Hcap, HcapR |- *.
    assert (Hv : 0 <= v) by (subst v; apply lev_nonneg; [lia|exact Dg]).
    assert (Hrn : Forall (fun x => 0 <= x) r) by (eapply Forall_impl; [|exact Hr]; cbv beta; intros; lia).
    pose proof (hstep_mono 58 r ltac:(lia) Hrn (v * 58 + d) ltac:(nia)) as Hm.
    rewrite L in V1.
    assert (P : 0 < 256 ^ Z.of_nat size) by (apply Z.pow_pos_nonneg; lia).
    pose proof (lev_nonneg 256 b1 ltac:(lia) D1) as Hn1.
    assert (cy = 0) by (rewrite V in V1; nia). subst cy.
    cbn [Z.eqb negb]. destruct (T1 eq_refl) as [T1a [T1b _]].
    replace (i1 - 0) with i1 in * by lia.
    assert (I' : inv 256 size b1 i1 (v * 58 + d)).
    { repeat split; try assumption; try lia. }
    (* the length check: i1 significant bytes, and the value is below 256^R *)
    assert (Hi1 : i1 <= R).
    { destruct (inv_digits 256 ltac:(lia) size b1 i1 (v * 58 + d) I') as [_ Lo].
      destruct (Z_le_gt_dec i1 0) as [?|Hpos]; [lia|]. specialize (Lo ltac:(lia)).
      assert (256 ^ (i1 - 1) < 256 ^ R) by lia.
      apply Z.pow_lt_mono_r_iff in H; lia. }
    assert (E2 : (i1 + zeroes >? maxlen) = false) by lia. rewrite E2.
    apply IH; assumption.
Qed.

Lemma existsb_false_forall {A} (p : A -> bool) l : Forall (fun x => p x = false) l -> existsb p l = false.
Proof. induction 1 as [|x l Hx Hl IH]; [reflexivity|]. cbn [existsb]. rewrite Hx, IH. reflexivity. Qed.

Lemma Z_to_bytes_to_Z_58 l : Z_to_bytes (bytes_to_Z l) = l.
Proof.
  unfold Z_to_bytes, bytes_to_Z. rewrite map_map. rewrite <- (map_id l) at 2. apply map_ext. intros a. apply N2Z.id.
Qed.

(* BASE58 ROUND TRIP *)
Lemma base58_roundtrip input maxlen : bytes_ok input -> Z.of_nat (length input) <= maxlen ->
  exists s, encode_base58 input = Some s /\ decode_base58 s maxlen = Some (Some input).
Proof.
  intros Hb Hmax.
  set (z := count_prefix (fun c => (c =? 0)%N) input). set (rest := skipn z input).
  destruct (encode_base58_spec input Hb) as [D [E [HD [HV Hhd]]]]. fold z in E, HV. fold rest in HV.
  exists (repeat 49%N z ++ map b58_char D). split; [exact E|].
  destruct (count_prefix_split (fun c => (c =? 0)%N) input) as [Pz Pr]. fold z in Pz, Pr. fold rest in Pr.
  assert (Ein : input = repeat 0%N z ++ rest).
  { rewrite <- (firstn_skipn z input) at 1. fold rest. f_equal.
    assert (Lz : length (firstn z input) = z).
    { rewrite firstn_length. unfold z.
      assert (G : forall l, (count_prefix (fun c => (c =? 0)%N) l <= length l)%nat).
      { induction l as [|x l IHl]; cbn [count_prefix length]; [lia|]. destruct (x =? 0)%N; lia. }
      specialize (G input). lia. }
    rewrite <- Lz at 2. apply all_eq_repeat. eapply Forall_impl; [|exact Pz]. cbv beta. intros a Ha. apply N.eqb_eq in Ha. exact Ha. }
  assert (Hr : bytes_ok rest) by (apply bytes_ok_skipn; exact Hb).
  assert (Lin : Z.of_nat (length input) = Z.of_nat z + Z.of_nat (length rest)).
  { rewrite Ein at 1. rewrite app_length, repeat_length. lia. }
  (* the characters: no NUL, no white space, '1' only for a zero digit *)
  assert (Cfacts : Forall (fun c => (c =? 0)%N = false /\ is_space c = false) (repeat 49%N z ++ map b58_char D)).
  { apply Forall_app. split.
    - apply Forall_forall. intros x Hx. apply repeat_spec in Hx. subst x. split; reflexivity.
    - apply Forall_map. unfold digs in HD. eapply Forall_impl; [|exact HD]. cbv beta. intros d Hd.
      destruct (b58_digit_facts d Hd) as [_ [F2 [F3 _]]]. split; [apply N.eqb_neq; exact F2|exact F3]. }
  unfold decode_base58.
  rewrite existsb_false_forall by (eapply Forall_impl; [|exact Cfacts]; cbv beta; tauto).
  assert (Hsp : drop_while is_space (repeat 49%N z ++ map b58_char D) = repeat 49%N z ++ map b58_char D).
  { apply drop_while_head_false. inversion Cfacts as [E0|c l [_ Hc] Hl E0]; [exact I|exact Hc]. }
  rewrite Hsp.
  assert (Hcnt : count_prefix (fun c => (c =? 49)%N) (repeat 49%N z ++ map b58_char D) = z).
  { apply count_prefix_repeat; [reflexivity|]. destruct D as [|d D']; [exact I|]. cbn [map].
    inversion HD as [|? ? Hd0 HD']. destruct (b58_digit_facts d Hd0) as [_ [_ [_ F4]]]. rewrite F4. lia. }
  rewrite Hcnt.
  assert (E0 : (0 <? Z.of_nat z) && (Z.of_nat z >? maxlen) = false) by lia. rewrite E0.
  rewrite skipn_repeat_app.
  set (size := Z.to_nat (Z.of_nat (length (map b58_char D)) * 733 / 1000 + 1)).
  assert (Hsz : Z.of_nat size = Z.of_nat (length D) * 733 / 1000 + 1).
  { unfold size. rewrite map_length. rewrite Z2Nat.id; [reflexivity|].
    assert (0 <= Z.of_nat (length D) * 733 / 1000) by (apply Z.div_pos; lia). lia. }
  (* capacity of the byte array, and the value is below 256^|rest| *)
  assert (Hcap : hstep 58 0 D < 256 ^ Z.of_nat size).
  { pose proof (hstep_upper 58 D ltac:(lia) HD 0 ltac:(lia)) as U.
    pose proof (cap_256_holds_58 (Z.of_nat (length D)) ltac:(lia)) as C. rewrite <- Hsz in C. lia. }
  assert (HcapR : hstep 58 0 D < 256 ^ Z.of_nat (length rest)).
  { rewrite HV. pose proof (hstep_upper 256 (bytes_to_Z rest) ltac:(lia) (bytes_digs rest Hr) 0 ltac:(lia)) as U.
    unfold bytes_to_Z in U at 2. rewrite map_length in U. lia. }
  destruct (b58_absorb_spec size (Z.of_nat z) maxlen (Z.of_nat (length rest)) ltac:(lia) ltac:(lia)
              D (repeat 0 size) 0 0 (inv_init 256 size ltac:(lia)) HD Hcap HcapR) as [b256 [len [EA I]]].
  rewrite EA. cbn [drop_while negb]. clearbody z rest.
  do 2 f_equal. rewrite Ein. f_equal.
  (* the bytes: same value, same number of significant bytes *)
  destruct (inv_digits 256 ltac:(lia) size b256 len _ I) as [[V0 Vhi] Vlo].
  destruct I as [L [Dg [Z0 [T [Hl V]]]]].
  set (Vv := hstep 58 0 D) in *.
  assert (Hlen : len = Z.of_nat (length rest)).
  { destruct rest as [|b0 r0] eqn:Er.
    - (* no significant bytes: the value is 0 *)
      cbn [bytes_to_Z map hstep fold_left] in HV. cbn [length Z.of_nat].
      destruct (Z_le_gt_dec len 0) as [?|Hpos]; [lia|]. specialize (Vlo ltac:(lia)).
      assert (0 < 256 ^ (len - 1)) by (apply Z.pow_pos_nonneg; lia). lia.
    - assert (Hb0 : b0 <> 0%N) by (apply N.eqb_neq; exact Pr).
      inversion Hr as [|? ? Hb0' Hr0].
      pose proof (hstep_lower 256 (Z.of_N b0) (bytes_to_Z r0) ltac:(lia) ltac:(lia)
                    ltac:(eapply Forall_impl; [|exact (bytes_digs r0 Hr0)]; cbv beta; intros; lia)) as Lo.
      change (Z.of_N b0 :: bytes_to_Z r0) with (bytes_to_Z (b0 :: r0)) in Lo. rewrite <- HV in Lo.
      unfold bytes_to_Z in Lo at 1. rewrite map_length in Lo.
      cbn [length] in HcapR |- *. rewrite Nat2Z.inj_succ in *.
      assert (Hpos : 0 < len).
      { destruct (Z_le_gt_dec len 0) as [Hle|?]; [|lia]. assert (len = 0) by lia. subst len. change (256 ^ 0) with 1 in Vhi.
        assert (0 < 256 ^ Z.of_nat (length r0)) by (apply Z.pow_pos_nonneg; lia). lia. }
      specialize (Vlo Hpos).
      assert (A1 : 256 ^ (len - 1) < 256 ^ Z.succ (Z.of_nat (length r0))) by lia.
      assert (A2 : 256 ^ Z.of_nat (length r0) < 256 ^ len) by lia.
      apply Z.pow_lt_mono_r_iff in A1; [|lia|lia]. apply Z.pow_lt_mono_r_iff in A2; [|lia|lia]. lia. }
  assert (Lf : length (firstn (Z.to_nat len) b256) = length (rev (bytes_to_Z rest))).
  { rewrite firstn_length, rev_length. unfold bytes_to_Z. rewrite map_length. lia. }
  assert (Eq : firstn (Z.to_nat len) b256 = rev (bytes_to_Z rest)).
  { apply (lev_inj 256 ltac:(lia)); [| |exact Lf|].
    - unfold digs in *. rewrite Forall_forall in *. intros x Hx. apply Dg. apply (In_firstn58 _ _ _ Hx).
    - unfold digs. apply Forall_rev. exact (bytes_digs rest Hr).
    - rewrite lev_firstn by (try lia; exact Z0). rewrite V. rewrite HV.
      rewrite <- hstep_rev_lev. rewrite rev_involutive. reflexivity. }
  rewrite Eq, rev_involutive. apply Z_to_bytes_to_Z_58.
Qed.
