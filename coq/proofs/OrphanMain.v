(* The clauses of property C35 in the form used by props/Properties_C35.v. *)
From BV Require Import lib.Ints gen.Params_gen model.Orphanage proofs.OrphanBasics proofs.OrphanInv proofs.OrphanLimit
  proofs.OrphanSteps proofs.OrphanWork.
From Coq Require Import Sorting.Permutation.
Local Open Scope Z_scope.

(* the peers an operation brings in *)
Definition op_peer_ok (PS : list Z) (o : oop) : Prop :=
  match o with OAddTx _ p | OAddAnnouncer _ p => In p PS | _ => True end.

Section Main.
Variable tx_of : Z -> otx.
Hypothesis tx_wtxid : forall w, x_wtxid (tx_of w) = w.
Hypothesis tx_inputs_weight : forall w, 164 * Z.of_nat (length (x_inputs (tx_of w))) <= x_weight (tx_of w).
Hypothesis tx_weight_nonneg : forall w, 0 <= x_weight (tx_of w).
Variable PS : list Z.


Notation OWF := (OWF tx_of).
Notation OInv := (OInv tx_of PS).

Lemma salted_choice_range salt w n : 0 < n -> 0 <= salted_choice salt w n < n.
Proof. intros H. unfold salted_choice. apply Z.mod_pos_bound. exact H. Qed.

Lemma wstate_inv g g' : OInv g -> wstate tx_of g g' -> OInv g'.
Proof.
  intros [W NT P Hps] [W' [SC [NT' [[M _] _]]]]. constructor; auto.
  - rewrite NT'. exact NT.
  - intros a' Ha'. destruct (same_core_in _ _ a' SC Ha') as [a [Ha [_ B]]]. rewrite <- B. apply P. exact Ha.
  - rewrite M. exact Hps.
Qed.

Lemma ostep_inv g o : OInv g -> op_peer_ok PS o -> OInv (fst (ostep tx_of g o)).
Proof.
  intros I Ok. destruct o; cbn [ostep op_peer_ok] in *.
  - pose proof (add_tx_inv tx_of tx_wtxid tx_inputs_weight tx_weight_nonneg PS g w peer I Ok) as X.
    destruct (add_tx g (tx_of w) peer). exact X.
  - pose proof (add_announcer_inv tx_of tx_wtxid tx_inputs_weight tx_weight_nonneg PS g w peer I Ok) as X.
    destruct (add_announcer g w peer). exact X.
  - pose proof (erase_tx_inv tx_of tx_wtxid tx_inputs_weight tx_weight_nonneg PS g w I) as X.
    destruct (erase_tx g w). exact X.
  - apply (erase_for_peer_inv tx_of tx_wtxid tx_inputs_weight tx_weight_nonneg PS); auto.
  - apply (erase_for_block_inv tx_of tx_wtxid tx_inputs_weight tx_weight_nonneg PS); auto.
  - assert (X : wstate tx_of g (fst (add_children_to_work_set g (x_txid (tx_of w)) (x_nout (tx_of w)) (salted_choice salt)))).
    { apply add_children_ok; auto; [apply salted_choice_range|apply (oi_wf _ _ _ I)]. }
    destruct (add_children_to_work_set g (x_txid (tx_of w)) (x_nout (tx_of w)) (salted_choice salt)). cbn [fst] in *.
    eapply wstate_inv; eauto.
  - assert (X : wstate tx_of g (fst (get_tx_to_reconsider g peer))).
    { apply get_tx_to_reconsider_ok; auto. apply (oi_wf _ _ _ I). }
    destruct (get_tx_to_reconsider g peer). cbn [fst] in *. eapply wstate_inv; eauto.
Qed.

Lemma orun_inv : forall ops g, OInv g -> Forall (op_peer_ok PS) ops -> OInv (fst (orun tx_of g ops)).
Proof.
  induction ops as [|o ops IH]; intros g I F; cbn [orun]; [exact I|]. inversion F; subst.
  pose proof (ostep_inv g o I H1) as I1. destruct (ostep tx_of g o) as [g1 out]. cbn [fst] in *.
  specialize (IH g1 I1 H2). destruct (orun tx_of g1 ops). exact IH.
Qed.

Lemma empty_oinv G R : 0 < G <= 1000000 -> 0 < R <= INT32_MAX -> Z.of_nat (length PS) <= G -> OInv (o_empty G R).
Proof.
  intros HG HR HP. constructor.
  - apply mkOWF; cbn [o_empty g_bad g_anns g_unique g_usage g_inscores g_outmap g_recon g_peers g_maxlat g_reserved].
    + reflexivity.
    + constructor.
    + intros a [].
    + constructor.
    + intros p. reflexivity.
    + reflexivity.
    + reflexivity.
    + reflexivity.
    + intros k w. split; [intros []|intros [[] _]].
    + intros k. constructor.
    + intros w. split; [intros []|intros [a [[] _]]].
    + constructor.
    + intros a b [].
    + cbn [length Z.of_nat]. lia.
    + unfold MAXLAT_LIMIT. lia.
    + exact HR.
  - unfold needs_trim, total_latency, max_global_usage, n_peers. cbn [o_empty g_maxlat g_inscores g_anns g_usage g_reserved g_peers length Z.of_nat].
    rewrite (wrapu32_id 0) by (unfold UINT32_MAX; lia). rewrite (wrapu32_id (0 + 0)) by (unfold UINT32_MAX; lia).
    cbn [Z.max]. rewrite wrap64_id by (unfold INT64_MIN, INT64_MAX, INT32_MAX in *; lia).
    apply orb_false_iff. split; apply Z.ltb_ge; lia.
  - intros a [].
  - cbn. exact HP.
Qed.

(* ---------- the invariant in terms of the recomputation functions of the model ---------- *)
Lemma find_wtxid_in l w : In w (wtxids_of l) -> exists a, find (has_wtxid w) l = Some a /\ In a l /\ o_wtxid a = w.
Proof.
  intros H. apply in_wtxids in H. destruct H as [b [Hb Eb]].
  destruct (find (has_wtxid w) l) as [a|] eqn:F.
  - exists a. apply find_some in F. destruct F as [A B]. apply has_wtxid_true in B. auto.
  - exfalso. apply (find_none _ _ F) in Hb. unfold has_wtxid in Hb. rewrite Eb, Z.eqb_refl in Hb. discriminate.
Qed.

Lemma spec_usage_eq l : txs_ok tx_of l -> spec_total_usage l = dsum (wt tx_of) l.
Proof.
  intros T. unfold spec_total_usage, dsum. apply zsum_map_ext_in. intros w Hw.
  destruct (find_wtxid_in l w Hw) as [a [F [Ha Ea]]]. unfold weight_in. rewrite F.
  destruct (ann_bounds tx_of tx_wtxid tx_inputs_weight tx_weight_nonneg l a T Ha) as [_ [_ [_ E]]]. rewrite E, Ea. reflexivity.
Qed.
Lemma spec_inscores_eq l : txs_ok tx_of l -> spec_input_scores l = dsum (fun w => lsc tx_of w - 1) l.
Proof.
  intros T. unfold spec_input_scores, dsum. apply zsum_map_ext_in. intros w Hw.
  destruct (find_wtxid_in l w Hw) as [a [F [Ha Ea]]]. unfold inscore_in. rewrite F.
  destruct (ann_bounds tx_of tx_wtxid tx_inputs_weight tx_weight_nonneg l a T Ha) as [_ [E _]]. rewrite E, Ea. reflexivity.
Qed.

Lemma npeers_spec g : OWF g -> n_peers g = spec_npeers (g_anns g).
Proof.
  intros W. unfold n_peers, spec_npeers, peers_of. f_equal. rewrite <- (map_length fst (g_peers g)).
  apply Permutation_length. apply NoDup_Permutation; [apply (ow_pnodup _ _ W)|apply nodup_dedup|].
  intros q. rewrite (entry_present tx_of g q W). rewrite in_dedup, in_map_iff. split; intros [a [A B]]; exists a; auto.
Qed.

(* SanityCheck + !NeedsTrim, readable *)
Lemma oinv_readable g : OInv g ->
  let l := g_anns g in
  g_bad g = false /\
  NoDup (map (fun a => (o_wtxid a, o_peer a)) l) /\
  (forall p, usage_by_peer g p = pd_usage (recompute_peer l p) /\ anns_from_peer g p = pd_count (recompute_peer l p) /\
             latency_from_peer g p = pd_latency (recompute_peer l p)) /\
  g_unique g = spec_unique_count l /\ g_usage g = spec_total_usage l /\ total_latency g = spec_total_latency l /\
  max_global_usage g = spec_max_global_usage (g_reserved g) l /\ max_peer_latency g = spec_max_peer_latency (g_maxlat g) l /\
  (forall k w, In w (g_outmap g k) <-> (In w (wtxids_of l) /\ In k (x_inputs (tx_of w)))) /\
  (forall w, In w (g_recon g) <-> exists a, In a l /\ o_wtxid a = w /\ o_reconsider a = true) /\
  (* within the global limits *)
  spec_total_latency l <= g_maxlat g /\ spec_total_usage l <= spec_max_global_usage (g_reserved g) l.
Proof.
  intros [W NT P Hps]. cbv zeta. pose proof W as [Hbad Hk Ht Hpn Hp Hu Hus Hin Hom Hon Hr Hrn Hro Hlen Hml Hres].
  unfold MAXLAT_LIMIT in Hml. set (l := g_anns g) in *.
  pose proof (within_len tx_of tx_wtxid tx_inputs_weight tx_weight_nonneg g W NT) as Len. fold l in Len.
  assert (LsN : forall x, 0 <= lsc tx_of x - 1).
  { intros x. unfold lsc. assert (0 <= Z.of_nat (length (x_inputs (tx_of x))) / 10) by (apply Z.div_pos; lia). lia. }
  destruct (dsum_bounds tx_of l (fun x => lsc tx_of x - 1) 244 Ht LsN) as [Ib1 Ib2].
  { intros b Hb. destruct (ann_bounds tx_of tx_wtxid tx_inputs_weight tx_weight_nonneg _ b Ht Hb) as [_ [_ [Y _]]]. lia. }
  assert (TL : total_latency g = spec_total_latency l).
  { unfold total_latency, spec_total_latency. fold l. rewrite (spec_inscores_eq l Ht), <- Hin.
    rewrite (wrapu32_id (Z.of_nat (length l))) by (unfold UINT32_MAX; lia). rewrite Hin in *. apply wrapu32_id. unfold UINT32_MAX. lia. }
  pose proof (npeers_spec g W) as NPs. fold l in NPs.
  assert (NPb : 0 <= n_peers g <= Z.of_nat (length PS)).
  { split; [unfold n_peers; lia|]. apply (n_peers_le tx_of PS g W P). }
  assert (MU : max_global_usage g = spec_max_global_usage (g_reserved g) l).
  { unfold max_global_usage, spec_max_global_usage. rewrite <- NPs. apply wrap64_id.
    unfold INT64_MIN, INT64_MAX, INT32_MAX in *. destruct (Z.max_spec (n_peers g) 1) as [[A ->]|[A ->]]; nia. }
  assert (ML : max_peer_latency g = spec_max_peer_latency (g_maxlat g) l).
  { unfold max_peer_latency, spec_max_peer_latency. rewrite <- NPs. rewrite wrapu32_id by (unfold UINT32_MAX; lia). reflexivity. }
  unfold needs_trim in NT. apply orb_false_iff in NT. destruct NT as [NT1 NT2]. apply Z.ltb_ge in NT1, NT2.
  split; [exact Hbad|]. split; [exact Hk|]. split.
  { intros p. unfold usage_by_peer, anns_from_peer, latency_from_peer. rewrite (Hp p). fold l.
    destruct (length (filter (from_peer p) l) =? 0)%nat eqn:E; [|auto].
    apply Nat.eqb_eq in E. unfold recompute_peer. destruct (filter (from_peer p) l); [cbn; auto|discriminate]. }
  split; [rewrite Hu; reflexivity|]. split; [rewrite Hus, (spec_usage_eq l Ht); reflexivity|]. split; [exact TL|].
  split; [exact MU|]. split; [exact ML|]. split; [exact Hom|]. split; [exact Hr|].
  split; [rewrite <- TL; exact NT1|]. rewrite <- MU, (spec_usage_eq l Ht), <- Hus. exact NT2.
Qed.

(* ---------- LimitOrphans, readable ---------- *)
Lemma not_dosy_if_within_share g q : OWF g -> n_peers g <= g_maxlat g ->
  latency_from_peer g q <= max_peer_latency g -> usage_by_peer g q <= g_reserved g -> ~ dosy_at g q.
Proof.
  intros W Hn Hl Hu [d [F G]]. unfold latency_from_peer, usage_by_peer in *. rewrite F in *.
  pose proof (ow_maxlat _ _ W) as Hml. pose proof (ow_reserved _ _ W) as Hres. unfold MAXLAT_LIMIT in Hml.
  assert (Nn : 0 <= n_peers g) by (unfold n_peers; lia).
  assert (Pl : 0 < max_peer_latency g <= g_maxlat g).
  { unfold max_peer_latency. rewrite wrapu32_id by (unfold UINT32_MAX; lia). split.
    - apply Z.div_str_pos. lia.
    - apply Z.div_le_upper_bound; [lia|]. destruct (Z.max_spec (n_peers g) 1) as [[A ->]|[A ->]]; nia. }
  assert (Wl : wrap32 (max_peer_latency g) = max_peer_latency g) by (apply wrap32_id; unfold INT32_MIN, INT32_MAX; lia).
  assert (Wm : wrap32 (g_reserved g) = g_reserved g) by (apply wrap32_id; unfold INT32_MIN, INT32_MAX in *; lia).
  apply dos_score_gt_one in G; lia.
Qed.

Lemma limit_orphans_readable g : OWF g -> peers_in PS g -> Z.of_nat (length PS) <= g_maxlat g ->
  let g' := limit_orphans g in
  OInv g' /\
  (exists keep, g_anns g' = filter keep (g_anns g) /\
     forall b, In b (g_anns g) -> keep b = false ->
       max_peer_latency g < latency_from_peer g (o_peer b) \/ g_reserved g < usage_by_peer g (o_peer b)) /\
  (needs_trim g = false -> g' = g).
Proof.
  intros W P Hps. cbv zeta.
  destruct (limit_step tx_of tx_wtxid tx_inputs_weight tx_weight_nonneg PS g W P Hps) as [I [_ [[keep [E K]] Same]]].
  split; [exact I|]. split; [|exact Same]. exists keep. split; [exact E|]. intros b Hb Kb.
  pose proof (n_peers_le tx_of PS g W P) as Hn.
  destruct (Z_lt_le_dec (max_peer_latency g) (latency_from_peer g (o_peer b))) as [A|A]; [left; exact A|].
  destruct (Z_lt_le_dec (g_reserved g) (usage_by_peer g (o_peer b))) as [B|B]; [right; exact B|].
  exfalso. apply (not_dosy_if_within_share g (o_peer b) W); [lia|exact A|exact B|apply (K b Hb Kb)].
Qed.

(* ---------- LimitOrphans in terms of the recomputation functions ---------- *)
Lemma needs_trim_spec g : OWF g -> needs_trim g = spec_needs_trim (g_maxlat g) (g_reserved g) (g_anns g).
Proof.
  intros W. pose proof W as [Hbad Hk Ht Hpn Hp Hu Hus Hin Hom Hon Hr Hrn Hro Hlen Hml Hres].
  unfold MAXLAT_LIMIT in Hml. set (l := g_anns g) in *.
  assert (LsN : forall x, 0 <= lsc tx_of x - 1).
  { intros x. unfold lsc. assert (0 <= Z.of_nat (length (x_inputs (tx_of x))) / 10) by (apply Z.div_pos; lia). lia. }
  destruct (dsum_bounds tx_of l (fun x => lsc tx_of x - 1) 244 Ht LsN) as [Ib1 Ib2].
  { intros b Hb. destruct (ann_bounds tx_of tx_wtxid tx_inputs_weight tx_weight_nonneg _ b Ht Hb) as [_ [_ [Y _]]]. lia. }
  assert (TL : total_latency g = spec_total_latency l).
  { unfold total_latency, spec_total_latency. fold l. rewrite (spec_inscores_eq l Ht), <- Hin.
    rewrite (wrapu32_id (Z.of_nat (length l))) by (unfold UINT32_MAX; lia). rewrite Hin in *. apply wrapu32_id. unfold UINT32_MAX. lia. }
  pose proof (npeers_spec g W) as NPs. fold l in NPs.
  assert (NPb : 0 <= n_peers g <= Z.of_nat (length l)).
  { split; [unfold n_peers; lia|]. unfold n_peers.
    assert (X : incl (map fst (g_peers g)) (map o_peer l)).
    { intros q Hq. apply (entry_present tx_of g q W) in Hq. destruct Hq as [a [Ha Ea]]. apply in_map_iff. exists a. auto. }
    pose proof (NoDup_incl_length Hpn X) as Y. rewrite !map_length in Y. lia. }
  assert (MU : max_global_usage g = spec_max_global_usage (g_reserved g) l).
  { unfold max_global_usage, spec_max_global_usage. rewrite <- NPs. apply wrap64_id.
    unfold INT64_MIN, INT64_MAX, INT32_MAX in *. destruct (Z.max_spec (n_peers g) 1) as [[A ->]|[A ->]]; nia. }
  unfold needs_trim, spec_needs_trim. fold l. rewrite TL, MU, Hus, (spec_usage_eq l Ht). reflexivity.
Qed.

Lemma dosy_at_spec g q : OWF g -> dosy_at g q -> spec_dosy (g_maxlat g) (g_reserved g) (g_anns g) q = true.
Proof.
  intros W [d [F G]]. pose proof (entry_value tx_of g q d W F) as E. subst d. unfold spec_dosy.
  pose proof (ow_maxlat _ _ W) as Hml. unfold MAXLAT_LIMIT in Hml.
  assert (ML : max_peer_latency g = spec_max_peer_latency (g_maxlat g) (g_anns g)).
  { unfold max_peer_latency, spec_max_peer_latency. rewrite <- (npeers_spec g W).
    assert (0 <= n_peers g <= Z.of_nat (length (g_anns g))).
    { split; [unfold n_peers; lia|]. unfold n_peers.
      assert (X : incl (map fst (g_peers g)) (map o_peer (g_anns g))).
      { intros q' Hq. apply (entry_present tx_of g q' W) in Hq. destruct Hq as [a [Ha Ea]]. apply in_map_iff. exists a. auto. }
      pose proof (NoDup_incl_length (ow_pnodup _ _ W) X) as Y. rewrite !map_length in Y. lia. }
    pose proof (ow_len _ _ W). rewrite wrapu32_id by (unfold UINT32_MAX; lia). reflexivity. }
  rewrite <- ML. exact G.
Qed.

Lemma limit_effect g : OWF g -> peers_in PS g -> Z.of_nat (length PS) <= g_maxlat g ->
  let l := g_anns g in let g' := limit_orphans g in
  OInv g' /\ same_params g g' /\
  exists keep, g_anns g' = filter keep l /\
    (forall b, In b l -> keep b = false -> spec_dosy (g_maxlat g) (g_reserved g) l (o_peer b) = true) /\
    (spec_needs_trim (g_maxlat g) (g_reserved g) l = false -> g_anns g' = l).
Proof.
  intros W P Hps. cbv zeta.
  destruct (limit_step tx_of tx_wtxid tx_inputs_weight tx_weight_nonneg PS g W P Hps) as [I [SP [[keep [E K]] Same]]].
  split; [exact I|]. split; [exact SP|]. exists keep. split; [exact E|]. split.
  - intros b Hb Kb. apply dosy_at_spec; auto.
  - intros NT. rewrite <- (needs_trim_spec g W) in NT. rewrite (Same NT). reflexivity.
Qed.

(* ---------- the effect of every operation ---------- *)
(* the announcements on which the operation's final LimitOrphans runs *)
Definition entry_of_op (g : orph) (o : oop) : list oann :=
  let l := g_anns g in
  match o with
  | OAddTx w p =>
      if (ORPHAN_MAX_TX_WEIGHT <? x_weight (tx_of w)) || have_tx_from_peer g w p then l
      else l ++ [mkOA (tx_of w) p (g_seq g) false]
  | OAddAnnouncer w p =>
      if negb (have_tx g w) || have_tx_from_peer g w p then l else l ++ [mkOA (tx_of w) p (g_seq g) false]
  | OEraseTx w => filter (fun b => negb (has_wtxid w b)) l
  | OEraseForPeer p => filter (fun b => negb (from_peer p b)) l
  | OEraseForBlock spent => filter (fun b => negb (spends_any spent b)) l
  | OWork _ _ | OReconsider _ => l
  end.

Definition limiting_op (o : oop) : bool := match o with OWork _ _ | OReconsider _ => false | _ => true end.

Lemma limit_noop g : OInv g -> limit_orphans g = g.
Proof. intros [W NT _ _]. unfold limit_orphans. rewrite NT. reflexivity. Qed.

Lemma op_effect g o : OInv g -> op_peer_ok PS o -> limiting_op o = true ->
  let entry := entry_of_op g o in let g' := fst (ostep tx_of g o) in
  OInv g' /\
  exists keep, g_anns g' = filter keep entry /\
    (forall b, In b entry -> keep b = false -> spec_dosy (g_maxlat g) (g_reserved g) entry (o_peer b) = true) /\
    (spec_needs_trim (g_maxlat g) (g_reserved g) entry = false -> g_anns g' = entry).
Proof.
  intros I Ok Lim. pose proof I as [W NT P Hps]. cbv zeta.
  (* an operation that ends in LimitOrphans on a state g1 with the same parameters *)
  assert (FIN : forall g1, OWF g1 -> peers_in PS g1 -> (g_maxlat g1 = g_maxlat g /\ g_reserved g1 = g_reserved g) ->
            OInv (limit_orphans g1) /\
            exists keep, g_anns (limit_orphans g1) = filter keep (g_anns g1) /\
              (forall b, In b (g_anns g1) -> keep b = false -> spec_dosy (g_maxlat g) (g_reserved g) (g_anns g1) (o_peer b) = true) /\
              (spec_needs_trim (g_maxlat g) (g_reserved g) (g_anns g1) = false -> g_anns (limit_orphans g1) = g_anns g1)).
  { intros g1 W1 P1 [M1 R1]. destruct (limit_effect g1 W1 P1) as [I1 [_ [keep X]]]; [rewrite M1; exact Hps|].
    rewrite M1, R1 in X. split; [exact I1|]. exists keep. exact X. }
  assert (SAMEST : OInv (limit_orphans g) /\
            exists keep, g_anns (limit_orphans g) = filter keep (g_anns g) /\
              (forall b, In b (g_anns g) -> keep b = false -> spec_dosy (g_maxlat g) (g_reserved g) (g_anns g) (o_peer b) = true) /\
              (spec_needs_trim (g_maxlat g) (g_reserved g) (g_anns g) = false -> g_anns (limit_orphans g) = g_anns g)).
  { apply FIN; auto. }
  rewrite (limit_noop g I) in SAMEST.
  destruct o; cbn [ostep entry_of_op limiting_op op_peer_ok] in *; try discriminate.
  - (* AddTx *)
    unfold add_tx. destruct (ORPHAN_MAX_TX_WEIGHT <? x_weight (tx_of w)) eqn:Big; cbn [orb fst]; [exact SAMEST|].
    apply Z.ltb_ge in Big. rewrite tx_wtxid. destruct (have_tx_from_peer g w peer) eqn:Dup; cbn [fst]; [exact SAMEST|].
    pose proof (within_len tx_of tx_wtxid tx_inputs_weight tx_weight_nonneg g W NT) as Len.
    destruct (add_ann_spec tx_of tx_wtxid tx_inputs_weight tx_weight_nonneg g w peer (negb (have_tx g w)) W Big Dup eq_refl Len) as [Ia [W1 [M1 R1]]].
    rewrite <- Ia. apply FIN; auto.
    + intros a Ha. rewrite Ia in Ha. apply in_app_iff in Ha. destruct Ha as [Ha|[<-|[]]]; [apply P; auto|exact Ok].
  - (* AddAnnouncer *)
    unfold add_announcer, have_tx. destruct (find (has_wtxid w) (g_anns g)) as [a0|] eqn:F.
    + pose proof F as F'. apply find_some in F'. destruct F' as [Ha0 E0]. apply has_wtxid_true in E0.
      assert (Hv : existsb (has_wtxid w) (g_anns g) = true) by (apply existsb_exists; exists a0; split; auto; apply has_wtxid_true; auto).
      rewrite Hv. cbn [negb orb]. destruct (have_tx_from_peer g w peer) eqn:Dup; cbn [fst]; [exact SAMEST|].
      destruct (ow_txs _ _ W a0 Ha0) as [Etx Wtx]. rewrite E0 in Etx. rewrite Etx in *.
      pose proof (within_len tx_of tx_wtxid tx_inputs_weight tx_weight_nonneg g W NT) as Len.
      assert (Hv' : false = negb (have_tx g w)) by (unfold have_tx; rewrite Hv; reflexivity).
      destruct (add_ann_spec tx_of tx_wtxid tx_inputs_weight tx_weight_nonneg g w peer false W Wtx Dup Hv' Len) as [Ia [W1 [M1 R1]]].
      rewrite <- Ia. apply FIN; auto.
      * intros a Ha. rewrite Ia in Ha. apply in_app_iff in Ha. destruct Ha as [Ha|[<-|[]]]; [apply P; auto|exact Ok].
    + assert (Hv : existsb (has_wtxid w) (g_anns g) = false).
      { destruct (existsb (has_wtxid w) (g_anns g)) eqn:X; [|reflexivity]. apply existsb_exists in X. destruct X as [b [Hb Eb]].
        apply (find_none _ _ F) in Hb. congruence. }
      rewrite Hv. cbn [negb orb fst]. exact SAMEST.
  - (* EraseTx *)
    unfold erase_tx. destruct (erase_tx_internal_spec tx_of tx_wtxid tx_inputs_weight tx_weight_nonneg g w W) as [I1 [W1 SP]].
    destruct (erase_tx_internal g w) as [g1 r]. cbn [fst] in *. rewrite <- I1. destruct SP as [S1 [S2 _]]. apply FIN; auto.
    eapply peers_in_filter; eauto.
  - (* EraseForPeer *)
    destruct (erase_for_peer_spec tx_of tx_wtxid tx_inputs_weight tx_weight_nonneg PS g peer I) as [g1 [W1 [I1 [SP E]]]].
    cbn [fst]. rewrite E, <- I1. destruct SP as [S1 [S2 _]]. apply FIN; auto. eapply peers_in_filter; eauto.
  - (* EraseForBlock *)
    destruct (erase_for_block_spec tx_of tx_wtxid tx_inputs_weight tx_weight_nonneg PS g spent I) as [g1 [W1 [I1 [SP E]]]].
    cbn [fst]. rewrite E, <- I1. destruct SP as [S1 [S2 _]]. apply FIN; auto. eapply peers_in_filter; eauto.
Qed.

(* AddChildrenToWorkSet / GetTxToReconsider change reconsider flags only *)
Lemma flag_op_effect g o : OInv g -> limiting_op o = false ->
  let g' := fst (ostep tx_of g o) in
  OInv g' /\ same_core (g_anns g) (g_anns g') /\ g_outmap g' = g_outmap g.
Proof.
  intros I Lim. cbv zeta. destruct o; cbn [limiting_op] in Lim; try discriminate; cbn [ostep].
  - assert (X : wstate tx_of g (fst (add_children_to_work_set g (x_txid (tx_of w)) (x_nout (tx_of w)) (salted_choice salt)))).
    { apply add_children_ok; auto; [apply salted_choice_range|apply (oi_wf _ _ _ I)]. }
    destruct (add_children_to_work_set g (x_txid (tx_of w)) (x_nout (tx_of w)) (salted_choice salt)). cbn [fst] in *.
    split; [eapply wstate_inv; eauto|]. destruct X as [_ [SC [_ [_ OM]]]]. auto.
  - assert (X : wstate tx_of g (fst (get_tx_to_reconsider g peer))).
    { apply get_tx_to_reconsider_ok; auto. apply (oi_wf _ _ _ I). }
    destruct (get_tx_to_reconsider g peer). cbn [fst] in *.
    split; [eapply wstate_inv; eauto|]. destruct X as [_ [SC [_ [_ OM]]]]. auto.
Qed.

End Main.

(* ---------- statements over runs from the empty orphanage (used verbatim by props/Properties_C35.v) ---------- *)
Section OClauses.
Variable tx_of : Z -> otx.
Hypothesis tx_wtxid : forall w, x_wtxid (tx_of w) = w.
Hypothesis tx_inputs_weight : forall w, 164 * Z.of_nat (length (x_inputs (tx_of w))) <= x_weight (tx_of w).
Hypothesis tx_weight_nonneg : forall w, 0 <= x_weight (tx_of w).

Lemma oclause_reach PS G R ops : 0 < G <= 1000000 -> 0 < R <= INT32_MAX -> Z.of_nat (length PS) <= G ->
  Forall (op_peer_ok PS) ops -> OInv tx_of PS (fst (orun tx_of (o_empty G R) ops)).
Proof. intros HG HR HP F. apply orun_inv; auto. apply empty_oinv; auto. Qed.

Lemma oclause_sanity PS G R ops : 0 < G <= 1000000 -> 0 < R <= INT32_MAX -> Z.of_nat (length PS) <= G ->
  Forall (op_peer_ok PS) ops ->
  let g := fst (orun tx_of (o_empty G R) ops) in let l := g_anns g in
  g_bad g = false /\
  NoDup (map (fun a => (o_wtxid a, o_peer a)) l) /\
  (forall p, usage_by_peer g p = pd_usage (recompute_peer l p) /\ anns_from_peer g p = pd_count (recompute_peer l p) /\
             latency_from_peer g p = pd_latency (recompute_peer l p)) /\
  g_unique g = spec_unique_count l /\ g_usage g = spec_total_usage l /\ total_latency g = spec_total_latency l /\
  max_global_usage g = spec_max_global_usage (g_reserved g) l /\ max_peer_latency g = spec_max_peer_latency (g_maxlat g) l /\
  (forall k w, In w (g_outmap g k) <-> (In w (wtxids_of l) /\ In k (x_inputs (tx_of w)))) /\
  (forall w, In w (g_recon g) <-> exists a, In a l /\ o_wtxid a = w /\ o_reconsider a = true) /\
  spec_total_latency l <= g_maxlat g /\ spec_total_usage l <= spec_max_global_usage (g_reserved g) l.
Proof. intros HG HR HP F. apply (oinv_readable tx_of tx_wtxid tx_inputs_weight tx_weight_nonneg PS). apply oclause_reach; auto. Qed.

Lemma oclause_op_effect PS G R ops o : 0 < G <= 1000000 -> 0 < R <= INT32_MAX -> Z.of_nat (length PS) <= G ->
  Forall (op_peer_ok PS) ops -> op_peer_ok PS o -> limiting_op o = true ->
  let g := fst (orun tx_of (o_empty G R) ops) in
  let entry := entry_of_op tx_of g o in let g' := fst (ostep tx_of g o) in
  exists keep, g_anns g' = filter keep entry /\
    (forall b, In b entry -> keep b = false -> spec_dosy (g_maxlat g) (g_reserved g) entry (o_peer b) = true) /\
    (spec_needs_trim (g_maxlat g) (g_reserved g) entry = false -> g_anns g' = entry).
Proof.
  intros HG HR HP F Ok Lim. cbv zeta.
  destruct (op_effect tx_of tx_wtxid tx_inputs_weight tx_weight_nonneg PS _ o (oclause_reach PS G R ops HG HR HP F) Ok Lim) as [_ X].
  exact X.
Qed.

Lemma oclause_flag_ops PS G R ops o : 0 < G <= 1000000 -> 0 < R <= INT32_MAX -> Z.of_nat (length PS) <= G ->
  Forall (op_peer_ok PS) ops -> limiting_op o = false ->
  let g := fst (orun tx_of (o_empty G R) ops) in let g' := fst (ostep tx_of g o) in
  Forall2 (fun a a' => o_tx a = o_tx a' /\ o_peer a = o_peer a' /\ o_seq a = o_seq a') (g_anns g) (g_anns g') /\
  g_outmap g' = g_outmap g.
Proof.
  intros HG HR HP F Lim. cbv zeta.
  destruct (flag_op_effect tx_of tx_wtxid tx_inputs_weight tx_weight_nonneg PS _ o (oclause_reach PS G R ops HG HR HP F) Lim) as [_ X].
  exact X.
Qed.

(* the fact behind Assume(!heap_peer_dos.empty()): in a consistent state, if no peer is over its share (for per-peer
   limits computed for at least as many peers as there are now) the pool is within its global limits *)
Lemma oclause_key g max_lat : OWF tx_of g -> 0 < max_lat -> max_lat * n_peers g <= g_maxlat g ->
  (forall q d, peer_find q (g_peers g) = Some d -> ratio_gt (dos_score d max_lat (g_reserved g)) FF_ONE = false) ->
  needs_trim g = false.
Proof. apply within_if_no_dosy; auto. Qed.

End OClauses.
