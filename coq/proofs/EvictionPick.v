(* The final selection of SelectNodeToEvict (model [pick]): largest net group, youngest member; C59. *)
From BV Require Import lib.Ints gen.Params_gen model.Eviction proofs.EvictionBase proofs.EvictionLemmas.
From Coq Require Import Sorting.Permutation Sorting.Sorted ZifyBool.
Local Open Scope Z_scope.

(* mapNetGroupNodes[h] after the vector [p] has been visited *)
Definition G (p : list cand) (h : Z) : list cand := filter (same_group h) p.

Lemma G_snoc p node h : G (p ++ [node]) h = G p h ++ (if same_group h node then [node] else []).
Proof. unfold G. rewrite filter_app. simpl. destruct (same_group h node); reflexivity. Qed.

Lemma hd_error_app {A} (a b : list A) : hd_error (a ++ b) = match a with [] => hd_error b | x :: _ => Some x end.
Proof. destruct a; reflexivity. Qed.

Definition pick_inv (pre : list cand) (n_most time : Z) (na : option Z) : Prop :=
  match na with
  | None => pre = [] /\ n_most = 0
  | Some g =>
    1 <= n_most /\ zlen (G pre g) = n_most /\
    (exists g0, hd_error (G pre g) = Some g0 /\ time = c_connected g0) /\
    (forall h, zlen (G pre h) <= n_most) /\
    (forall h h0, zlen (G pre h) = n_most -> hd_error (G pre h) = Some h0 -> c_connected h0 <= time)
  end.

Lemma same_group_eq h node : same_group h node = true -> h = c_netgroup node.
Proof. unfold same_group. lia. Qed.
Lemma same_group_refl node : same_group (c_netgroup node) node = true.
Proof. unfold same_group. lia. Qed.

Lemma pick_loop_inv : forall rest pre n t na, pick_inv pre n t na ->
  match pick_loop pre rest n t na with (n', t', na') => pick_inv (pre ++ rest) n' t' na' end.
Proof.
  induction rest as [|node r IH]; intros pre n t na Hinv.
  - simpl. rewrite app_nil_r. exact Hinv.
  - cbn [pick_loop]. fold (G pre (c_netgroup node)).
    set (g := c_netgroup node).
    set (gs := zlen (G pre g) + 1).
    set (g0 := match G pre g with [] => node | x :: _ => x end).
    assert (Hsnoc_g : G (pre ++ [node]) g = G pre g ++ [node]).
    { rewrite G_snoc. unfold g. now rewrite same_group_refl. }
    assert (Hsnoc_o : forall h, h <> g -> G (pre ++ [node]) h = G pre h).
    { intros h Hh. rewrite G_snoc. destruct (same_group h node) eqn:E.
      - apply same_group_eq in E. contradiction.
      - apply app_nil_r. }
    assert (Hgs : zlen (G (pre ++ [node]) g) = gs).
    { rewrite Hsnoc_g, zlen_app. reflexivity. }
    assert (Hhd : hd_error (G (pre ++ [node]) g) = Some g0).
    { rewrite Hsnoc_g, hd_error_app. unfold g0. destruct (G pre g); reflexivity. }
    pose proof (zlen_nonneg (G pre g)) as Hnn.
    replace (pre ++ node :: r) with ((pre ++ [node]) ++ r) by (rewrite <- app_assoc; reflexivity).
    destruct ((n <? gs) || ((gs =? n) && (t <? c_connected g0))) eqn:Eupd.
    + (* the group of [node] becomes the best one *)
      apply IH. unfold pick_inv. split; [unfold gs; lia|]. split; [exact Hgs|].
      split; [exists g0; split; [exact Hhd | reflexivity]|].
      assert (Hn_le : n <= gs /\ (forall h, h <> g -> zlen (G pre h) <= n) /\
                      (forall h h0, h <> g -> zlen (G pre h) = gs -> hd_error (G pre h) = Some h0 ->
                                    c_connected h0 <= c_connected g0)).
      { destruct na as [g1|].
        - destruct Hinv as (H1 & H2 & H3 & H4 & H5).
          split; [lia|]. split; [intros h _; apply H4|].
          intros h h0 Hh Hz Hd. specialize (H4 h).
          assert (Hgn : gs = n) by lia. rewrite Hgn in Hz.
          specialize (H5 h h0 Hz Hd). lia.
        - destruct Hinv as [-> ->]. split; [unfold gs; lia|]. split.
          + intros h _. unfold G, zlen. simpl. lia.
          + intros h h0 _ _ Hd. unfold G in Hd. simpl in Hd. discriminate. }
      destruct Hn_le as (Hle & Hoth & Htime).
      split.
      * intros h. destruct (Z.eq_dec h g) as [->|Hne]; [lia|]. rewrite (Hsnoc_o h Hne). specialize (Hoth h Hne). lia.
      * intros h h0 Hz Hd. destruct (Z.eq_dec h g) as [->|Hne].
        -- rewrite Hhd in Hd. injection Hd as <-. lia.
        -- rewrite (Hsnoc_o h Hne) in Hz, Hd. now apply (Htime h h0 Hne).
    + (* state unchanged *)
      apply IH. destruct na as [g1|].
      * destruct Hinv as (H1 & H2 & H3 & H4 & H5).
        assert (Hg1 : g1 <> g).
        { intros ->. lia. }
        unfold pick_inv. rewrite (Hsnoc_o g1 Hg1). split; [exact H1|]. split; [exact H2|]. split; [exact H3|].
        split.
        -- intros h. destruct (Z.eq_dec h g) as [->|Hne]; [lia|]. rewrite (Hsnoc_o h Hne). apply H4.
        -- intros h h0 Hz Hd. destruct (Z.eq_dec h g) as [->|Hne].
           ++ rewrite Hhd in Hd. injection Hd as <-. lia.
           ++ rewrite (Hsnoc_o h Hne) in Hz, Hd. now apply (H5 h h0).
      * destruct Hinv as [-> ->]. unfold gs, G, zlen in Eupd. simpl in Eupd. discriminate.
Qed.

Definition prefer_filtered (l : list cand) : list cand :=
  if existsb c_prefer_evict l then filter c_prefer_evict l else l.

Lemma prefer_filter_eq l : filter (fun n => negb (negb (c_prefer_evict n))) l = filter c_prefer_evict l.
Proof. apply filter_ext. intros a. apply negb_involutive. Qed.

Lemma prefer_filtered_nonempty l : l <> [] -> prefer_filtered l <> [].
Proof.
  unfold prefer_filtered. intros Hl. destruct (existsb c_prefer_evict l) eqn:E; [|exact Hl].
  apply existsb_exists in E. destruct E as [x [Hx Hp]]. intros Hf.
  assert (Hin : In x (filter c_prefer_evict l)) by (apply filter_In; auto). rewrite Hf in Hin. contradiction.
Qed.

Lemma list_eq_nil_dec {A} (l : list A) : {l = []} + {l <> []}.
Proof. destruct l; [now left | right; discriminate]. Qed.

Lemma pick_nonempty l : l <> [] ->
  pick l = match pick_loop [] (prefer_filtered l) 0 0 None with
           | (_, _, Some g) => match filter (same_group g) (prefer_filtered l) with
                               | c :: _ => Ok (Some c) | [] => Stuck EmptyFront end
           | (_, _, None) => Stuck EmptyFront
           end.
Proof.
  intros Hne. destruct l as [|x l0]; [contradiction|]. unfold pick. rewrite prefer_filter_eq. reflexivity.
Qed.

(* [pick] never gets stuck; it returns nothing exactly on the empty vector; otherwise it returns the
   front of the largest group (ties between groups: the one whose front is the most recently
   connected) of the vector restricted to prefer_evict peers when there are any. *)
Lemma pick_ok l :
  exists r, pick l = Ok r /\ (r = None <-> l = []) /\
    forall c, r = Some c ->
      let l' := prefer_filtered l in
      In c l' /\ hd_error (G l' (c_netgroup c)) = Some c /\
      (forall h, zlen (G l' h) <= zlen (G l' (c_netgroup c))) /\
      (forall h h0, zlen (G l' h) = zlen (G l' (c_netgroup c)) -> hd_error (G l' h) = Some h0 ->
                    c_connected h0 <= c_connected c).
Proof.
  destruct (list_eq_nil_dec l) as [->|Hne].
  { exists None. split; [reflexivity|]. split; [tauto|]. intros c Hc. discriminate. }
  rewrite (pick_nonempty l Hne).
  pose proof (prefer_filtered_nonempty l Hne) as Hne'.
  set (l' := prefer_filtered l) in *.
  pose proof (pick_loop_inv l' [] 0 0 None (conj eq_refl eq_refl)) as Hinv. simpl app in Hinv.
  destruct (pick_loop [] l' 0 0 None) as [[n t] na].
  destruct na as [g|].
  2:{ destruct Hinv as [Hl' _]. contradiction. }
  destruct Hinv as (H1 & H2 & [g0 [H3 H3']] & H4 & H5).
  fold (G l' g). destruct (G l' g) as [|c rest] eqn:Eg.
  { unfold zlen in H2. simpl in H2. lia. }
  exists (Some c). split; [reflexivity|]. split; [split; [discriminate | intros; contradiction]|].
  intros c' Hc'. injection Hc' as <-.
  assert (Hin : In c (G l' g)) by (rewrite Eg; now left).
  unfold G in Hin. apply filter_In in Hin. destruct Hin as [Hin Hsg]. apply same_group_eq in Hsg. subst g.
  simpl in H3. injection H3 as <-. subst t.
  cbv zeta. rewrite Eg. repeat split.
  - exact Hin.
  - intros h. rewrite H2. apply H4.
  - intros h h0. rewrite H2. apply H5.
Qed.

(* On a vector sorted by ReverseCompareNodeTimeConnected the front of every group is its most
   recently connected member. *)
Lemma G_sorted l h : sorted_wrt cmp_rev_connected l -> sorted_wrt cmp_rev_connected (G l h).
Proof. intros H. unfold G. now apply SS_filter. Qed.

Lemma sorted_hd_max l h0 x : sorted_wrt cmp_rev_connected l -> hd_error l = Some h0 -> In x l ->
  c_connected x <= c_connected h0.
Proof.
  intros Hs Hd Hin. destruct l as [|y r]; [discriminate|]. injection Hd as ->.
  destruct Hin as [->|Hin]; [lia|]. inversion Hs as [|? ? _ Hf]; subst.
  rewrite Forall_forall in Hf. specialize (Hf x Hin). unfold cmp_rev_connected in Hf. lia.
Qed.

Definition group_size (l : list cand) (x : cand) : Z := count_if (same_group (c_netgroup x)) l.

Lemma pick_youngest_of_largest_group l c :
  sorted_wrt cmp_rev_connected l -> pick l = Ok (Some c) ->
  let l' := prefer_filtered l in
  In c l' /\
  forall x, In x l' ->
    group_size l' x < group_size l' c \/
    (group_size l' x = group_size l' c /\ c_connected x <= c_connected c).
Proof.
  intros Hs Hp. destruct (pick_ok l) as [r [E [_ Hr]]]. rewrite Hp in E. injection E as <-.
  specialize (Hr c eq_refl). cbv zeta in *. destruct Hr as (Hin & Hhd & Hsz & Htm).
  split; [exact Hin|]. intros x Hx.
  assert (Hs' : sorted_wrt cmp_rev_connected (prefer_filtered l)).
  { unfold prefer_filtered. destruct (existsb c_prefer_evict l); [now apply SS_filter | exact Hs]. }
  unfold group_size, count_if. fold (G (prefer_filtered l) (c_netgroup x)). fold (G (prefer_filtered l) (c_netgroup c)).
  specialize (Hsz (c_netgroup x)).
  destruct (Z.eq_dec (zlen (G (prefer_filtered l) (c_netgroup x))) (zlen (G (prefer_filtered l) (c_netgroup c)))) as [Heq|Hneq];
    [right|left; lia].
  split; [exact Heq|].
  assert (Hxg : In x (G (prefer_filtered l) (c_netgroup x))).
  { unfold G. apply filter_In. split; [exact Hx | apply same_group_refl]. }
  destruct (G (prefer_filtered l) (c_netgroup x)) as [|h0 rest] eqn:Eg; [contradiction|].
  specialize (Htm (c_netgroup x) h0 ltac:(rewrite Eg; exact Heq) ltac:(rewrite Eg; reflexivity)).
  assert (Hmax : c_connected x <= c_connected h0).
  { apply (sorted_hd_max (h0 :: rest) h0 x); [rewrite <- Eg; now apply G_sorted | reflexivity | exact Hxg]. }
  lia.
Qed.

Lemma pick_prefers l c : pick l = Ok (Some c) -> existsb c_prefer_evict l = true -> c_prefer_evict c = true.
Proof.
  intros Hp He. destruct (pick_ok l) as [r [E [_ Hr]]]. rewrite Hp in E. injection E as <-.
  specialize (Hr c eq_refl). cbv zeta in Hr. destruct Hr as [Hin _].
  unfold prefer_filtered in Hin. rewrite He in Hin. apply filter_In in Hin. tauto.
Qed.

Lemma pick_in l c : pick l = Ok (Some c) -> In c l.
Proof.
  intros Hp. destruct (pick_ok l) as [r [E [_ Hr]]]. rewrite Hp in E. injection E as <-.
  specialize (Hr c eq_refl). cbv zeta in Hr. destruct Hr as [Hin _].
  unfold prefer_filtered in Hin. destruct (existsb c_prefer_evict l); [apply filter_In in Hin; tauto | exact Hin].
Qed.
