(* Proofs about model/Compress.v: amount compression, script compression, coin and undo records. *)
From Coq Require Import NArith.
From BV Require Import lib.Ints gen.Params_gen model.SerBase model.Compress proofs.SerBaseLemmas.
Local Open Scope Z_scope.

(* ------------------------------------------------------------------------------------------ *)
(* amounts *)

Definition TWO64 : Z := 18446744073709551616.
Lemma two64 : 2 ^ 64 = TWO64. Proof. reflexivity. Qed.

Lemma wrapu64_small x : 0 <= x < TWO64 -> wrapu64 x = x.
Proof. intros. apply wrapu64_id. unfold UINT64_MAX, TWO64 in *. lia. Qed.

Lemma pow10_succ e : 0 <= e -> 10 ^ (e + 1) = 10 * 10 ^ e.
Proof. intros. rewrite Z.pow_add_r by lia. lia. Qed.

Lemma pow10_pos e : 0 <= e -> 0 < 10 ^ e.
Proof. intros. apply Z.pow_pos_nonneg; lia. Qed.

(* what the trailing-zero loop computes *)
Lemma strip_zeros_spec k : forall n e n1 e1,
  0 < n -> 0 <= e -> e + Z.of_nat k = 9 ->
  strip_zeros k n e = (n1, e1) ->
  n = n1 * 10 ^ (e1 - e) /\ e <= e1 <= 9 /\ 0 < n1 /\ (e1 < 9 -> n1 mod 10 <> 0).
Proof.
  induction k as [|k IH]; intros n e n1 e1 Hn He Hk H.
  - cbn [strip_zeros] in H. inversion H; subst n1 e1.
    replace (e - e) with 0 by lia. change (10 ^ 0) with 1. repeat split; lia.
  - cbn [strip_zeros] in H. destruct ((n mod 10 =? 0) && (e <? 9)) eqn:C.
    + apply andb_prop in C. destruct C as [C1 C2].
      apply IH in H; [|lia|lia|lia].
      destruct H as [H1 [H2 [H3 H4]]].
      repeat split; try lia.
      replace (e1 - e) with ((e1 - (e + 1)) + 1) by lia. rewrite pow10_succ by lia.
      assert (n = 10 * (n / 10)) by lia. lia.
    + inversion H; subst n1 e1. replace (e - e) with 0 by lia. change (10 ^ 0) with 1.
      apply andb_false_iff in C. repeat split; try lia.
Qed.

(* the loop exits only when its condition is false (the bound 9 is the loop's own) *)
Lemma strip_zeros_exit n n1 e1 : 0 < n -> strip_zeros 9 n 0 = (n1, e1) ->
  (n1 mod 10 =? 0) && (e1 <? 9) = false.
Proof.
  intros Hn H. apply strip_zeros_spec in H; [|lia|lia|lia]. destruct H as [_ [H2 [_ H4]]].
  destruct (e1 <? 9) eqn:E; [|apply andb_false_r].
  rewrite andb_true_r. specialize (H4 ltac:(lia)). lia.
Qed.

Lemma compress_amount_assert_holds n : 0 <= n -> compress_amount_assert n = true.
Proof.
  intros Hn. unfold compress_amount_assert. destruct (n =? 0) eqn:E0; [reflexivity|].
  destruct (strip_zeros 9 n 0) as [n1 e1] eqn:S.
  apply strip_zeros_spec in S; [|lia|lia|lia]. destruct S as [_ [_ [H3 H4]]].
  destruct (e1 <? 9) eqn:E; [|reflexivity]. specialize (H4 ltac:(lia)). lia.
Qed.

Lemma mul_pow10_spec e : forall n, 0 <= n -> n * 10 ^ Z.of_nat e < TWO64 ->
  mul_pow10 e n = n * 10 ^ Z.of_nat e.
Proof.
  induction e as [|e IH]; intros n Hn Hb.
  - cbn [mul_pow10]. change (10 ^ Z.of_nat 0) with 1. lia.
  - cbn [mul_pow10]. replace (Z.of_nat (S e)) with (Z.of_nat e + 1) in * by lia.
    rewrite pow10_succ in * by lia.
    pose proof (pow10_pos (Z.of_nat e) ltac:(lia)) as Hp.
    unfold mul64. rewrite wrapu64_small by nia.
    rewrite IH by nia. lia.
Qed.

(* without uint64 wrap the compressor returns the unbounded value *)
Lemma compress_amount_nowrap n : 0 <= n -> compress_amount_unbounded n < TWO64 ->
  compress_amount n = compress_amount_unbounded n.
Proof.
  intros Hn Hc. unfold compress_amount, compress_amount_unbounded in *.
  destruct (n =? 0) eqn:E0; [reflexivity|].
  destruct (strip_zeros 9 n 0) as [n1 e1] eqn:S.
  apply strip_zeros_spec in S; [|lia|lia|lia]. destruct S as [H1 [H2 [H3 H4]]].
  destruct (e1 <? 9) eqn:E.
  - specialize (H4 ltac:(lia)).
    assert (Hd : 1 <= n1 mod 10 <= 9) by lia.
    assert (Hm : 0 <= n1 / 10) by lia.
    unfold add64, sub64, mul64.
    rewrite (wrapu64_small (n1 / 10 * 9)) by lia.
    rewrite (wrapu64_small (n1 / 10 * 9 + n1 mod 10)) by lia.
    rewrite (wrapu64_small (n1 / 10 * 9 + n1 mod 10 - 1)) by lia.
    rewrite (wrapu64_small ((n1 / 10 * 9 + n1 mod 10 - 1) * 10)) by lia.
    rewrite (wrapu64_small (1 + (n1 / 10 * 9 + n1 mod 10 - 1) * 10)) by lia.
    rewrite wrapu64_small by lia. reflexivity.
  - unfold add64, sub64, mul64.
    rewrite (wrapu64_small (n1 - 1)) by lia.
    rewrite (wrapu64_small ((n1 - 1) * 10)) by lia.
    rewrite (wrapu64_small (1 + (n1 - 1) * 10)) by lia.
    rewrite wrapu64_small by lia. reflexivity.
Qed.

(* ROUND TRIP: every uint64 amount whose compressed value does not wrap is recovered exactly *)
Lemma amount_roundtrip_nowrap n : 0 <= n < TWO64 -> compress_amount_unbounded n < TWO64 ->
  decompress_amount (compress_amount n) = n.
Proof.
  intros Hn Hc. rewrite compress_amount_nowrap by lia.
  unfold compress_amount_unbounded in *.
  destruct (n =? 0) eqn:E0; [unfold decompress_amount; simpl; lia|].
  destruct (strip_zeros 9 n 0) as [n1 e1] eqn:S.
  apply strip_zeros_spec in S; [|lia|lia|lia]. destruct S as [H1 [H2 [H3 H4]]].
  replace (e1 - 0) with e1 in H1 by lia.
  pose proof (pow10_pos e1 ltac:(lia)) as Hp.
  assert (Hn1 : n1 <= n) by nia.
  unfold decompress_amount.
  destruct (e1 <? 9) eqn:E.
  - specialize (H4 ltac:(lia)).
    set (d := n1 mod 10) in *. set (m := n1 / 10) in *.
    assert (Hd : 1 <= d <= 9) by (unfold d; lia).
    assert (Hm : 0 <= m) by (unfold m; lia).
    assert (Hn1' : n1 = 10 * m + d) by (unfold m, d; lia).
    assert (E1 : (1 + (m * 9 + d - 1) * 10 + e1 =? 0) = false) by lia. rewrite E1.
    unfold sub64. rewrite (wrapu64_small (1 + (m * 9 + d - 1) * 10 + e1 - 1)) by lia.
    replace (1 + (m * 9 + d - 1) * 10 + e1 - 1) with ((m * 9 + d - 1) * 10 + e1) by lia.
    assert (Ee : ((m * 9 + d - 1) * 10 + e1) mod 10 = e1).
    { symmetry. apply Z.mod_unique with (q := m * 9 + d - 1); lia. }
    assert (Ex : ((m * 9 + d - 1) * 10 + e1) / 10 = m * 9 + d - 1).
    { symmetry. apply Z.div_unique with (r := e1); lia. }
    rewrite Ee, Ex, E.
    assert (Ed : (m * 9 + d - 1) mod 9 = d - 1).
    { symmetry. apply Z.mod_unique with (q := m); lia. }
    assert (Em : (m * 9 + d - 1) / 9 = m).
    { symmetry. apply Z.div_unique with (r := d - 1); lia. }
    rewrite Ed, Em. unfold add64, mul64.
    rewrite (wrapu64_small (m * 10)) by lia.
    rewrite wrapu64_small by lia.
    replace (m * 10 + (d - 1 + 1)) with n1 by lia.
    rewrite mul_pow10_spec; rewrite ?Z2Nat.id by lia; lia.
  - assert (e1 = 9) by lia. subst e1.
    assert (E1 : (1 + (n1 - 1) * 10 + 9 =? 0) = false) by lia. rewrite E1.
    unfold sub64. rewrite (wrapu64_small (1 + (n1 - 1) * 10 + 9 - 1)) by lia.
    replace (1 + (n1 - 1) * 10 + 9 - 1) with ((n1 - 1) * 10 + 9) by lia.
    assert (Ee : ((n1 - 1) * 10 + 9) mod 10 = 9).
    { symmetry. apply Z.mod_unique with (q := n1 - 1); lia. }
    assert (Ex : ((n1 - 1) * 10 + 9) / 10 = n1 - 1).
    { symmetry. apply Z.div_unique with (r := 9); lia. }
    rewrite Ee, Ex. change (9 <? 9) with false. cbv iota.
    unfold add64. rewrite wrapu64_small by lia.
    replace (n1 - 1 + 1) with n1 by lia.
    rewrite mul_pow10_spec; rewrite ?Z2Nat.id by lia; lia.
Qed.

(* the largest bound below which no amount wraps; the next amount does (amount_wrap_example) *)
Definition AMOUNT_ROUNDTRIP_MAX : Z := 2049638230412172402.

Lemma compress_unbounded_le n : 0 <= n -> compress_amount_unbounded n <= 9 * n.
Proof.
  intros Hn. unfold compress_amount_unbounded.
  destruct (n =? 0) eqn:E0; [lia|].
  destruct (strip_zeros 9 n 0) as [n1 e1] eqn:S.
  apply strip_zeros_spec in S; [|lia|lia|lia]. destruct S as [H1 [H2 [H3 H4]]].
  replace (e1 - 0) with e1 in H1 by lia.
  pose proof (pow10_pos e1 ltac:(lia)) as Hp.
  destruct (e1 <? 9) eqn:E.
  - specialize (H4 ltac:(lia)).
    (* value = 9*n1 + d - 9 + e1 with n = n1 * 10^e1: for e1 = 0 it is 9n + d - 9 <= 9n; for e1 >= 1, 10^e1 >= 10 *)
    destruct (Z.eq_dec e1 0) as [->|Hne].
    + change (10 ^ 0) with 1 in H1. lia.
    + assert (10 <= 10 ^ e1).
      { change 10 with (10 ^ 1) at 1. apply Z.pow_le_mono_r; lia. }
      nia.
  - assert (e1 = 9) by lia. subst e1. change (10 ^ 9) with 1000000000 in *. lia.
Qed.

Lemma compress_unbounded_bound n : 0 <= n <= AMOUNT_ROUNDTRIP_MAX -> compress_amount_unbounded n < TWO64.
Proof.
  unfold AMOUNT_ROUNDTRIP_MAX, TWO64. intros Hn.
  (* 9 * 2049638230412172402 = 18446744073709551618 is just above 2^64, so the last few values
     need the exact form 9n + d - 9 (e = 0) *)
  unfold compress_amount_unbounded.
  destruct (n =? 0) eqn:E0; [lia|].
  destruct (strip_zeros 9 n 0) as [n1 e1] eqn:S.
  apply strip_zeros_spec in S; [|lia|lia|lia]. destruct S as [H1 [H2 [H3 H4]]].
  replace (e1 - 0) with e1 in H1 by lia.
  pose proof (pow10_pos e1 ltac:(lia)) as Hp.
  destruct (e1 <? 9) eqn:E.
  - specialize (H4 ltac:(lia)).
    destruct (Z.eq_dec e1 0) as [->|Hne].
    + change (10 ^ 0) with 1 in H1. lia.
    + assert (10 <= 10 ^ e1).
      { change 10 with (10 ^ 1) at 1. apply Z.pow_le_mono_r; lia. }
      nia.
  - assert (e1 = 9) by lia. subst e1. change (10 ^ 9) with 1000000000 in *. lia.
Qed.

Lemma amount_roundtrip n : 0 <= n <= AMOUNT_ROUNDTRIP_MAX ->
  decompress_amount (compress_amount n) = n.
Proof.
  intros Hn. apply amount_roundtrip_nowrap; [unfold AMOUNT_ROUNDTRIP_MAX, TWO64 in *; lia|].
  apply compress_unbounded_bound. exact Hn.
Qed.

Lemma amount_wrap_example :
  decompress_amount (compress_amount (AMOUNT_ROUNDTRIP_MAX + 1)) <> AMOUNT_ROUNDTRIP_MAX + 1.
Proof. vm_compute. discriminate. Qed.

Lemma max_money_in_roundtrip_range : MAX_MONEY <= AMOUNT_ROUNDTRIP_MAX.
Proof. vm_compute. discriminate. Qed.

Lemma compress_amount_injective a b :
  0 <= a <= AMOUNT_ROUNDTRIP_MAX -> 0 <= b <= AMOUNT_ROUNDTRIP_MAX ->
  compress_amount a = compress_amount b -> a = b.
Proof.
  intros Ha Hb H. rewrite <- (amount_roundtrip a Ha), <- (amount_roundtrip b Hb), H. reflexivity.
Qed.

Lemma compress_amount_range n : 0 <= compress_amount n < TWO64.
Proof.
  unfold compress_amount. destruct (n =? 0); [unfold TWO64; lia|].
  destruct (strip_zeros 9 n 0) as [n1 e1]. destruct (e1 <? 9); unfold add64, wrapu64, wrapu;
    change (2 ^ 64) with TWO64; apply Z.mod_pos_bound; unfold TWO64; lia.
Qed.


Lemma amount_roundtrip_money n : 0 <= n <= MAX_MONEY -> decompress_amount (compress_amount n) = n.
Proof. intros H. apply amount_roundtrip. pose proof max_money_in_roundtrip_range. lia. Qed.
