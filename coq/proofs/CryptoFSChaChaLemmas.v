(* C49 — FSChaCha20 (the BIP324 length cipher): within an epoch the chunks are encrypted with consecutive
   bytes of one ChaCha20 stream (key K_j, nonce 0 || LE64(j), block counter from 0); after `interval` chunks the
   next 32 stream bytes become K_(j+1), the nonce moves to j+1 and the stream restarts — BIP324's FSChaCha20. *)
From Coq Require Import NArith Arith.
From BV Require Import lib.Ints model.CryptoBase model.CryptoMD model.CryptoChaCha
  proofs.CryptoBaseLemmas proofs.CryptoMDLemmas proofs.CryptoChaChaLemmas.
Local Open Scope Z_scope.

Strategy 1000 [chacha20_block_words chacha20_block aligned_block inner_block].

(* ---------- specification (BIP324 FSChaCha20.crypt, get_keystream_bytes) ---------- *)
(* the first n bytes of the keystream of (key, epoch j) *)
Definition fsc_stream (key : list N) (j : Z) (n : nat) : list N := chacha20_encrypt key 0 (rfc_nonce 0 j) (zeros n).

(* cnt = chunks already processed in this epoch, off = stream bytes already consumed in this epoch *)
Fixpoint fsc_spec (interval : nat) (key : list N) (j : Z) (cnt off : nat) (chunks : list (list N)) : list (list N) :=
  match chunks with
  | [] => []
  | d :: r =>
    let out := xor_bytes d (skipn off (fsc_stream key j (off + length d))) in
    if (S cnt =? interval)%nat then
      let newkey := skipn (off + length d) (fsc_stream key j (off + length d + 32)) in
      out :: fsc_spec interval newkey (j + 1) 0 0 r
    else out :: fsc_spec interval key j (S cnt) (off + length d) r
  end.

(* ---------- a run of operations can be extended ---------- *)
Lemma cc_run_ops_app a : forall c b,
  cc_run_ops c (a ++ b) =
  (fst (cc_run_ops c a) ++ fst (cc_run_ops (snd (cc_run_ops c a)) b), snd (cc_run_ops (snd (cc_run_ops c a)) b)).
Proof.
  induction a as [|op a IH]; intros c b.
  - cbn [app cc_run_ops fst snd]. destruct (cc_run_ops c b); reflexivity.
  - cbn [app cc_run_ops]. destruct (cc_run_op c op) as [o c1]. rewrite IH.
    destruct (cc_run_ops c1 a) as [os c2]. cbn [fst snd]. reflexivity.
Qed.

(* the keystream of a positioned object, as the RFC stream *)
Lemma positioned_stream c key nonce K : positioned c key nonce 0 -> Z.of_nat K <= 2 ^ 32 ->
  fst (aligned_keystream K (cc_input c)) =
  concat (map (fun i => chacha20_block key (0 + Z.of_nat i) nonce) (seq 0 K)).
Proof.
  intros (Hin & Hk & Hn & _) HK. rewrite Hin, ak_rfc by (try assumption; lia).
  apply f_equal. apply map_ext. intros i. apply aligned_block_rfc.
Qed.

Lemma fsc_stream_prefix key j n K : length (le32_words key) = 8%nat -> 0 <= j < 2 ^ 64 -> (n <= 64 * K)%nat ->
  fsc_stream key j n = firstn n (concat (map (fun i => chacha20_block key (0 + Z.of_nat i) (rfc_nonce 0 j)) (seq 0 K))).
Proof.
  intros Hk Hj Hn. unfold fsc_stream, chacha20_encrypt.
  assert (Hn3 : length (le32_words (rfc_nonce 0 j)) = 3%nat).
  { unfold rfc_nonce. rewrite le32_words_nonce by (try assumption; lia). reflexivity. }
  assert (Hzl : length (zeros n) = n) by (unfold zeros; apply repeat_length).
  rewrite (chacha20_encrypt_fuel_stream key (rfc_nonce 0 j) Hk Hn3 K) by (rewrite Hzl; lia).
  apply xor_bytes_zeros.
Qed.

(* the output of the next operation after a run is the next slice of the block stream *)
Lemma op_slice c0 ops op K :
  input_ok (cc_input c0) -> length (cc_buffer c0) = 64%nat -> cc_bufleft c0 = 0%nat ->
  (ops_total (ops ++ [op]) <= 64 * K)%nat ->
  fst (cc_run_op (snd (cc_run_ops c0 ops)) op) =
  xor_bytes (op_data op) (skipn (ops_total ops) (fst (aligned_keystream K (cc_input c0)))).
Proof.
  intros Hok Hbuf Hbl HK.
  set (S := fst (aligned_keystream K (cc_input c0))).
  assert (HSl : length S = (64 * K)%nat) by (apply ak_length; exact Hok).
  assert (Htot : ops_total (ops ++ [op]) = (ops_total ops + length (op_data op))%nat).
  { unfold ops_total. rewrite map_app, concat_app, app_length. cbn [map concat]. rewrite app_nil_r. reflexivity. }
  pose proof (chacha20_ops_stream c0 (ops ++ [op]) K Hok Hbuf Hbl HK) as H1. fold S in H1.
  pose proof (chacha20_ops_stream c0 ops K Hok Hbuf Hbl ltac:(lia)) as H2. fold S in H2.
  rewrite cc_run_ops_app in H1. cbn [fst] in H1.
  cbn [cc_run_ops] in H1.
  destruct (cc_run_op (snd (cc_run_ops c0 ops)) op) as [o c1]. cbn [fst snd] in *.
  rewrite concat_app in H1. cbn [concat] in H1. rewrite app_nil_r in H1.
  rewrite map_app, concat_app in H1. cbn [map concat] in H1. rewrite app_nil_r in H1.
  set (A := concat (map op_data ops)) in *.
  assert (HAl : length A = ops_total ops) by reflexivity.
  rewrite <- (firstn_skipn (ops_total ops) S) in H1 at 1.
  rewrite xor_bytes_app in H1 by (rewrite firstn_length_le by lia; exact HAl).
  rewrite <- HAl in H1 at 1. rewrite xor_bytes_firstn_r in H1. rewrite <- H2 in H1.
  apply app_inv_head in H1. exact H1.
Qed.

Lemma xor_skip_firstn d off S : xor_bytes d (skipn off (firstn (off + length d) S)) = xor_bytes d (skipn off S).
Proof.
  rewrite skipn_firstn_comm. replace (off + length d - off)%nat with (length d) by lia.
  apply xor_bytes_firstn_r.
Qed.

(* ---------- the object within an epoch ---------- *)
Definition fsc_inv (interval : nat) (key : list N) (j : Z) (cnt off : nat) (f : fschacha20) : Prop :=
  fs_rekey_interval f = Z.of_nat interval /\ fs_chunk_counter f = Z.of_nat cnt /\ fs_rekey_counter f = j /\
  length (le32_words key) = 8%nat /\
  exists c0 ops, positioned c0 key (rfc_nonce 0 j) 0 /\ fs_chacha f = snd (cc_run_ops c0 ops) /\ ops_total ops = off.

Lemma positioned_wf c key nonce ctr : positioned c key nonce ctr ->
  input_ok (cc_input c) /\ length (cc_buffer c) = 64%nat /\ cc_bufleft c = 0%nat.
Proof.
  intros (Hin & Hk & Hn & Hb & Hl). repeat split; try assumption. rewrite Hin. apply rfc_input_ok; assumption.
Qed.

Lemma le32_words_length_8' : forall key, length key = 32%nat -> length (le32_words key) = 8%nat.
Proof.
  intros key Hl. do 32 (destruct key as [|? key]; [discriminate|]). destruct key; [reflexivity | discriminate].
Qed.

Lemma fsc_step interval key j cnt off f d :
  fsc_inv interval key j cnt off f ->
  0 <= j -> j + 1 < 2 ^ 64 -> (cnt < interval)%nat -> Z.of_nat interval < 2 ^ 32 ->
  Z.of_nat (blocks_needed (off + length d + 32)) <= 2 ^ 32 ->
  fst (fschacha20_crypt f d) = xor_bytes d (skipn off (fsc_stream key j (off + length d))) /\
  (if (S cnt =? interval)%nat
   then fsc_inv interval (skipn (off + length d) (fsc_stream key j (off + length d + 32))) (j + 1) 0 0 (snd (fschacha20_crypt f d))
   else fsc_inv interval key j (S cnt) (off + length d) (snd (fschacha20_crypt f d))).
Proof.
  intros (Hint & Hcnt & Hrk & Hk & c0 & ops & Hpos & Hc & Hoff) Hj0 Hj1 Hlt Hi32 Hov.
  destruct (positioned_wf _ _ _ _ Hpos) as (Hok & Hbuf & Hbl).
  set (K := blocks_needed (off + length d + 32)) in *.
  pose proof (blocks_needed_ge (off + length d + 32)) as HK. fold K in HK.
  set (SK := fst (aligned_keystream K (cc_input c0))).
  assert (HS : SK = concat (map (fun i => chacha20_block key (0 + Z.of_nat i) (rfc_nonce 0 j)) (seq 0 K)))
    by (apply positioned_stream; assumption).
  assert (Hstream : forall n, (n <= 64 * K)%nat -> fsc_stream key j n = firstn n SK).
  { intros n Hn. rewrite HS. apply fsc_stream_prefix; try assumption. lia. }
  (* the chunk *)
  pose proof (op_slice c0 ops (OpCrypt d) K Hok Hbuf Hbl) as Hout.
  assert (Htot1 : ops_total (ops ++ [OpCrypt d]) = (off + length d)%nat).
  { unfold ops_total in *. rewrite map_app, concat_app, app_length, Hoff. cbn [map concat op_data]. rewrite app_nil_r. reflexivity. }
  specialize (Hout ltac:(rewrite Htot1; lia)). rewrite Hoff in Hout. cbn [cc_run_op op_data] in Hout. fold SK in Hout.
  unfold fschacha20_crypt. rewrite Hc.
  assert (Hc1 : snd (chacha20_crypt (snd (cc_run_ops c0 ops)) d) = snd (cc_run_ops c0 (ops ++ [OpCrypt d]))).
  { rewrite cc_run_ops_app. cbn [snd cc_run_ops cc_run_op]. destruct (chacha20_crypt (snd (cc_run_ops c0 ops)) d). reflexivity. }
  destruct (chacha20_crypt (snd (cc_run_ops c0 ops)) d) as [out c1] eqn:Ecr. cbn [fst snd] in Hout, Hc1.
  rewrite Hcnt, Hint.
  assert (Hw : wrapu32 (Z.of_nat cnt + 1) = Z.of_nat (S cnt)).
  { rewrite wrapu32_id by (unfold UINT32_MAX; change (2 ^ 32) with 4294967296 in Hi32; lia). lia. }
  rewrite Hw.
  assert (Hout' : out = xor_bytes d (skipn off (fsc_stream key j (off + length d)))).
  { rewrite Hout, (Hstream (off + length d)%nat) by lia. symmetry. apply xor_skip_firstn. }
  destruct (S cnt =? interval)%nat eqn:Erk.
  - (* rekey *)
    apply Nat.eqb_eq in Erk.
    assert (Ez : (Z.of_nat (S cnt) =? Z.of_nat interval) = true) by (apply Z.eqb_eq; lia).
    rewrite Ez.
    pose proof (op_slice c0 (ops ++ [OpCrypt d]) (OpKeystream 32) K Hok Hbuf Hbl) as Hks.
    assert (Htot2 : ops_total ((ops ++ [OpCrypt d]) ++ [OpKeystream 32]) = (off + length d + 32)%nat).
    { unfold ops_total in *. rewrite map_app, concat_app, app_length, Htot1. cbn [map concat op_data]. rewrite app_nil_r.
      unfold zeros. rewrite repeat_length. reflexivity. }
    specialize (Hks ltac:(rewrite Htot2; lia)). rewrite Htot1, <- Hc1 in Hks. cbn [cc_run_op op_data] in Hks. fold SK in Hks.
    destruct (chacha20_keystream c1 32) as [new_key c2]. cbn [fst snd] in *.
    set (nk := skipn (off + length d) (fsc_stream key j (off + length d + 32))).
    assert (Hnk : new_key = nk).
    { rewrite Hks, xor_bytes_zeros. unfold nk. rewrite (Hstream (off + length d + 32)%nat) by lia.
      rewrite skipn_firstn_comm. f_equal. lia. }
    split; [exact Hout'|].
    assert (Hnkl : length nk = 32%nat).
    { unfold nk. rewrite (Hstream (off + length d + 32)%nat) by lia. rewrite skipn_length, firstn_length_le; [lia|].
      unfold SK. rewrite ak_length by exact Hok. lia. }
    assert (Hnkw : length (le32_words nk) = 8%nat) by (apply le32_words_length_8'; exact Hnkl).
    unfold fsc_inv. cbn [fs_rekey_interval fs_chunk_counter fs_rekey_counter fs_chacha].
    rewrite Hrk. rewrite wrapu64_id by (unfold UINT64_MAX; change (2 ^ 64) with 18446744073709551616 in Hj1; lia).
    refine (conj eq_refl (conj eq_refl (conj eq_refl (conj Hnkw _)))).
    exists (chacha20_seek (chacha20_setkey c2 new_key) 0 (j + 1) 0), [].
    refine (conj _ (conj eq_refl eq_refl)).
    rewrite Hnk. apply seek_positioned; [| change (2 ^ 32) with 4294967296; lia | lia].
    unfold key_loaded, chacha20_setkey, aligned_setkey. cbn [cc_input cc_buffer].
    rewrite <- Hnkw at 1. rewrite firstn_exact_app. refine (conj eq_refl (conj Hnkw _)). unfold zeros. apply repeat_length.
  - apply Nat.eqb_neq in Erk.
    assert (Ez : (Z.of_nat (S cnt) =? Z.of_nat interval) = false) by (apply Z.eqb_neq; lia).
    rewrite Ez. cbn [fst snd]. split; [exact Hout'|].
    unfold fsc_inv. cbn [fs_rekey_interval fs_chunk_counter fs_rekey_counter fs_chacha].
    refine (conj eq_refl (conj eq_refl (conj Hrk (conj Hk _)))).
    exists c0, (ops ++ [OpCrypt d]). refine (conj Hpos (conj Hc1 Htot1)).
Qed.

(* every chunk small enough that an epoch never needs 2^32 blocks: premise on the running offset *)
Fixpoint fsc_sizes_ok (interval cnt off : nat) (chunks : list (list N)) : Prop :=
  match chunks with
  | [] => True
  | d :: r =>
    Z.of_nat (blocks_needed (off + length d + 32)) <= 2 ^ 32 /\
    (if (S cnt =? interval)%nat then fsc_sizes_ok interval 0 0 r else fsc_sizes_ok interval (S cnt) (off + length d) r)
  end.

Theorem fschacha20_crypt_seq_is_bip324 interval chunks : forall f key j cnt off,
  fsc_inv interval key j cnt off f ->
  0 <= j -> j + Z.of_nat (length chunks) < 2 ^ 64 -> (cnt < interval)%nat -> Z.of_nat interval < 2 ^ 32 ->
  fsc_sizes_ok interval cnt off chunks ->
  fst (fschacha20_crypt_seq f chunks) = fsc_spec interval key j cnt off chunks.
Proof.
  induction chunks as [|d r IH]; intros f key j cnt off Hinv Hj0 Hj1 Hlt Hi32 Hsz; [reflexivity|].
  cbn [fschacha20_crypt_seq fsc_spec]. cbn [length] in Hj1. destruct Hsz as [Hov Hsz].
  destruct (fsc_step interval key j cnt off f d Hinv Hj0 ltac:(lia) Hlt Hi32 Hov) as [Hout Hnext].
  destruct (fschacha20_crypt f d) as [o f1]. cbn [fst snd] in *.
  destruct (S cnt =? interval)%nat eqn:Erk.
  - specialize (IH f1 _ (j + 1) 0%nat 0%nat Hnext ltac:(lia) ltac:(lia) ltac:(lia) Hi32 Hsz).
    destruct (fschacha20_crypt_seq f1 r) as [os f2]. cbn [fst] in *. rewrite Hout, IH. reflexivity.
  - apply Nat.eqb_neq in Erk.
    specialize (IH f1 key j (S cnt) (off + length d)%nat Hnext Hj0 ltac:(lia) ltac:(lia) Hi32 Hsz).
    destruct (fschacha20_crypt_seq f1 r) as [os f2]. cbn [fst] in *. rewrite Hout, IH. reflexivity.
Qed.

Lemma fschacha20_new_inv ubuf key interval : length ubuf = 64%nat -> length key = 32%nat ->
  fsc_inv interval key 0 0 0 (fschacha20_new ubuf key (Z.of_nat interval)).
Proof.
  intros Hu Hk. pose proof (le32_words_length_8' key Hk) as Hkw.
  unfold fsc_inv, fschacha20_new. cbn [fs_rekey_interval fs_chunk_counter fs_rekey_counter fs_chacha].
  refine (conj eq_refl (conj eq_refl (conj eq_refl (conj Hkw _)))).
  (* a freshly constructed ChaCha20 has counter 0 and nonce 0: it is where Seek({0, 0}, 0) would put it *)
  exists (chacha20_new ubuf key), []. refine (conj _ (conj eq_refl eq_refl)).
  unfold positioned, chacha20_new, aligned_setkey. cbn [cc_input cc_buffer cc_bufleft].
  assert (Hn : le32_words (rfc_nonce 0 0) = [0; 0; 0]) by (vm_compute; reflexivity).
  rewrite Hn. refine (conj eq_refl (conj Hkw (conj eq_refl (conj Hu eq_refl)))).
Qed.

(* FSChaCha20(key, interval).Crypt(c1); ...; Crypt(cn) = BIP324's FSChaCha20 *)
Theorem fschacha20_is_bip324 ubuf key interval chunks :
  length ubuf = 64%nat -> length key = 32%nat -> (0 < interval)%nat -> Z.of_nat interval < 2 ^ 32 ->
  Z.of_nat (length chunks) < 2 ^ 64 -> fsc_sizes_ok interval 0 0 chunks ->
  fst (fschacha20_crypt_seq (fschacha20_new ubuf key (Z.of_nat interval)) chunks) = fsc_spec interval key 0 0 0 chunks.
Proof.
  intros Hu Hk Hi Hi32 Hn Hsz.
  apply fschacha20_crypt_seq_is_bip324; try assumption; try lia.
  apply fschacha20_new_inv; assumption.
Qed.
