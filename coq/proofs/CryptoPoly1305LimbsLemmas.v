(* C49 — Poly1305: the 26-bit limb code of poly1305_donna computes the arithmetic the number-level model
   (model/CryptoPoly1305.v) ascribes to it.  No uint32_t / uint64_t operation wraps under the invariant
   "h0,h2,h3,h4 < 2^26, h1 < 2^26 + 2^10, r clamped". *)
From Coq Require Import NArith Arith.
From BV Require Import lib.Ints model.CryptoBase model.CryptoPoly1305 model.CryptoPoly1305Limbs
  proofs.CryptoBaseLemmas proofs.CryptoMDLemmas proofs.CryptoPoly1305Lemmas.
Local Open Scope Z_scope.

(* ---------- words ---------- *)
Lemma w32_small x : 0 <= x < 2 ^ 32 -> w32 x = x.
Proof. intros H. rewrite w32_is_mod. apply Z.mod_small. exact H. Qed.
Lemma w64_small x : 0 <= x < 2 ^ 64 -> w64 x = x.
Proof. intros H. rewrite w64_is_mod. apply Z.mod_small. exact H. Qed.
Lemma land_M26 x : Z.land x M26 = x mod 2 ^ 26.
Proof. change M26 with (Z.ones 26). apply Z.land_ones. lia. Qed.
Lemma shiftr_div x k : 0 <= k -> Z.shiftr x k = x / 2 ^ k.
Proof. intros Hk. apply Z.shiftr_div_pow2. exact Hk. Qed.

Lemma mul_bound a b A B : 0 <= a <= A -> 0 <= b <= B -> 0 <= a * b <= A * B.
Proof. intros Ha Hb. split; [apply Z.mul_nonneg_nonneg; lia | apply Z.mul_le_mono_nonneg; lia]. Qed.

(* a | b = a + b when b is a multiple of 2^k and a < 2^k *)
Lemma land_low_high a b k : 0 <= k -> 0 <= a < 2 ^ k -> Z.land a (2 ^ k * b) = 0.
Proof.
  intros Hk Ha. apply Z.bits_inj'. intros n Hn. rewrite Z.land_spec, Z.bits_0.
  destruct (Z_lt_le_dec n k) as [Hlt | Hge].
  - rewrite (Z.mul_comm (2 ^ k) b), Z.mul_pow2_bits_low by lia. apply andb_false_r.
  - assert (Hz : Z.testbit a n = false).
    { destruct (Z.eq_dec a 0) as [-> | Hne]; [apply Z.bits_0|].
      apply Z.bits_above_log2; [lia|]. apply Z.log2_lt_pow2; [lia|].
      apply Z.lt_le_trans with (2 ^ k); [lia|]. apply Z.pow_le_mono_r; lia. }
    rewrite Hz. reflexivity.
Qed.

Lemma lor_low_high a b k : 0 <= k -> 0 <= a < 2 ^ k -> Z.lor a (2 ^ k * b) = a + 2 ^ k * b.
Proof.
  intros Hk Ha. pose proof (land_low_high a b k Hk Ha) as Hl.
  rewrite (Z.add_nocarry_lxor _ _ Hl). symmetry. apply Z.lxor_lor. exact Hl.
Qed.

(* ---------- little endian loads as slices of the number ---------- *)
Lemma le_value_bound : forall l, bytes_ok l -> 0 <= le_value l < 2 ^ (8 * Z.of_nat (length l)).
Proof.
  induction l as [|b l IH]; intros Hok.
  - simpl. lia.
  - inversion Hok as [|? ? Hb Hl]; subst. specialize (IH Hl).
    cbn [le_value length]. rewrite Nat2Z.inj_succ.
    replace (8 * Z.succ (Z.of_nat (length l))) with (8 + 8 * Z.of_nat (length l)) by lia.
    rewrite Z.pow_add_r by lia. change (2 ^ 8) with 256.
    assert (0 <= Z.of_N b < 256) by lia. nia.
Qed.

Lemma bytes_ok_firstn n : forall l, bytes_ok l -> bytes_ok (firstn n l).
Proof.
  induction n as [|n IH]; intros l H; [constructor|]. destruct l as [|x l]; [constructor|].
  inversion H; subst. cbn [firstn]. constructor; [assumption | apply IH; assumption].
Qed.
Lemma bytes_ok_skipn n : forall l, bytes_ok l -> bytes_ok (skipn n l).
Proof.
  induction n as [|n IH]; intros l H; [exact H|]. destruct l as [|x l]; [constructor|].
  inversion H; subst. cbn [skipn]. apply IH. assumption.
Qed.

Lemma rd32_slice m off : bytes_ok m -> (off + 4 <= length m)%nat ->
  rd32 m off = (le_value m / 2 ^ (8 * Z.of_nat off)) mod 2 ^ 32.
Proof.
  intros Hok Hlen. unfold rd32.
  rewrite <- (firstn_skipn off m) at 2. rewrite le_value_app.
  rewrite firstn_length_le by lia.
  rewrite <- (firstn_skipn 4 (skipn off m)) at 2. rewrite le_value_app.
  assert (Hl4 : length (firstn 4 (skipn off m)) = 4%nat) by (apply firstn_length_le; rewrite skipn_length; lia).
  rewrite Hl4. change (256 ^ Z.of_nat 4) with (2 ^ 32).
  pose proof (le_value_bound (firstn off m) (bytes_ok_firstn _ _ Hok)) as Ha.
  rewrite firstn_length_le in Ha by lia.
  pose proof (le_value_bound (firstn 4 (skipn off m)) (bytes_ok_firstn _ _ (bytes_ok_skipn _ _ Hok))) as Hx.
  rewrite Hl4 in Hx. change (2 ^ (8 * Z.of_nat 4)) with (2 ^ 32) in Hx.
  pose proof (le_value_nonneg (skipn 4 (skipn off m))) as Hr.
  replace (256 ^ Z.of_nat off) with (2 ^ (8 * Z.of_nat off)) by (rewrite Z.pow_mul_r by lia; reflexivity).
  set (P := 2 ^ (8 * Z.of_nat off)) in *. assert (HP : 0 < P) by (apply Z.pow_pos_nonneg; lia).
  set (A := le_value (firstn off m)) in *. set (X := le_value (firstn 4 (skipn off m))) in *.
  set (Rr := le_value (skipn 4 (skipn off m))) in *.
  rewrite (Z.add_comm A), (Z.mul_comm P), Z.div_add_l by lia.
  rewrite (Z.div_small A P) by lia. rewrite Z.add_0_r.
  rewrite (Z.mul_comm (2 ^ 32)), Z_mod_plus_full. symmetry. apply Z.mod_small. exact Hx.
Qed.

(* ---------- a 16-byte block as five 26-bit limbs ---------- *)
Lemma slice26 a q : 0 <= a <= 6 -> 0 <= q -> ((q mod 2 ^ 32) / 2 ^ a) mod 2 ^ 26 = (q / 2 ^ a) mod 2 ^ 26.
Proof.
  intros Ha Hq.
  assert (E1 : 2 ^ 32 = 2 ^ (6 - a) * 2 ^ 26 * 2 ^ a) by (rewrite <- !Z.pow_add_r by lia; f_equal; lia).
  assert (Hpa : 2 ^ a <> 0) by (apply Z.pow_nonzero; lia).
  set (u := q / 2 ^ 32). set (v := q mod 2 ^ 32).
  assert (Hdm : q = v + (u * 2 ^ (6 - a) * 2 ^ 26) * 2 ^ a).
  { pose proof (Z.div_mod q (2 ^ 32) ltac:(lia)) as H. fold u v in H. rewrite H at 1. rewrite E1. ring. }
  rewrite Hdm at 1. rewrite Z.div_add by exact Hpa. rewrite Z_mod_plus_full. reflexivity.
Qed.

Lemma base26 M : 0 <= M ->
  M mod 2 ^ 26 + 2 ^ 26 * ((M / 2 ^ 26) mod 2 ^ 26) + 2 ^ 52 * ((M / 2 ^ 52) mod 2 ^ 26) +
  2 ^ 78 * ((M / 2 ^ 78) mod 2 ^ 26) + 2 ^ 104 * (M / 2 ^ 104) = M.
Proof.
  intros HM.
  replace (M / 2 ^ 52) with (M / 2 ^ 26 / 2 ^ 26) by (rewrite Z.div_div by lia; reflexivity).
  replace (M / 2 ^ 78) with (M / 2 ^ 26 / 2 ^ 26 / 2 ^ 26) by (rewrite !Z.div_div by lia; reflexivity).
  replace (M / 2 ^ 104) with (M / 2 ^ 26 / 2 ^ 26 / 2 ^ 26 / 2 ^ 26) by (rewrite !Z.div_div by lia; reflexivity).
  change (2 ^ 52) with (2 ^ 26 * 2 ^ 26). change (2 ^ 78) with (2 ^ 26 * 2 ^ 26 * 2 ^ 26).
  change (2 ^ 104) with (2 ^ 26 * 2 ^ 26 * 2 ^ 26 * 2 ^ 26).
  set (B := 2 ^ 26). assert (HB : 0 < B) by (unfold B; lia).
  set (M1 := M / B). set (M2 := M1 / B). set (M3 := M2 / B).
  pose proof (Z.div_mod M B ltac:(lia)) as H0. pose proof (Z.div_mod M1 B ltac:(lia)) as H1.
  pose proof (Z.div_mod M2 B ltac:(lia)) as H2. pose proof (Z.div_mod M3 B ltac:(lia)) as H3.
  fold M1 in H0. fold M2 in H1. fold M3 in H2. nia.
Qed.

Lemma msg_limbs m : bytes_ok m -> length m = 16%nat ->
  let M := le_value m in
  Z.land (rd32 m 0) M26 = M mod 2 ^ 26 /\
  Z.land (Z.shiftr (rd32 m 3) 2) M26 = (M / 2 ^ 26) mod 2 ^ 26 /\
  Z.land (Z.shiftr (rd32 m 6) 4) M26 = (M / 2 ^ 52) mod 2 ^ 26 /\
  Z.land (Z.shiftr (rd32 m 9) 6) M26 = (M / 2 ^ 78) mod 2 ^ 26 /\
  Z.shiftr (rd32 m 12) 8 = M / 2 ^ 104 /\
  0 <= M < 2 ^ 128.
Proof.
  intros Hok Hl M.
  pose proof (le_value_bound m Hok) as HM. rewrite Hl in HM. change (2 ^ (8 * Z.of_nat 16)) with (2 ^ 128) in HM. fold M in HM.
  rewrite !land_M26, !shiftr_div by lia.
  rewrite !rd32_slice by (try assumption; lia). fold M.
  change (8 * Z.of_nat 0) with 0. change (8 * Z.of_nat 3) with 24. change (8 * Z.of_nat 6) with 48.
  change (8 * Z.of_nat 9) with 72. change (8 * Z.of_nat 12) with 96.
  refine (conj _ (conj _ (conj _ (conj _ (conj _ HM))))).
  - change (2 ^ 0) with 1. rewrite Z.div_1_r.
    pose proof (slice26 0 M ltac:(lia) ltac:(lia)) as Hs. change (2 ^ 0) with 1 in Hs. rewrite !Z.div_1_r in Hs. exact Hs.
  - rewrite slice26 by (try lia; apply Z.div_pos; lia). rewrite Z.div_div by lia. reflexivity.
  - rewrite slice26 by (try lia; apply Z.div_pos; lia). rewrite Z.div_div by lia. reflexivity.
  - rewrite slice26 by (try lia; apply Z.div_pos; lia). rewrite Z.div_div by lia. reflexivity.
  - rewrite (Z.mod_small (M / 2 ^ 96)).
    + rewrite Z.div_div by lia. reflexivity.
    + split; [apply Z.div_pos; lia|]. apply Z.div_lt_upper_bound; [lia|]. change (2 ^ 96 * 2 ^ 32) with (2 ^ 128). lia.
Qed.

(* ---------- invariants ---------- *)
Definition limbs_lt (A : Z) (h : limbs) : Prop :=
  let '(h0, h1, h2, h3, h4) := h in
  0 <= h0 < A /\ 0 <= h1 < A /\ 0 <= h2 < A /\ 0 <= h3 < A /\ 0 <= h4 < A.
(* between blocks: every limb below 2^26 except h1, which may carry a few extra units *)
Definition limbs_ok (h : limbs) : Prop :=
  let '(h0, h1, h2, h3, h4) := h in
  0 <= h0 < 2 ^ 26 /\ 0 <= h1 < 2 ^ 26 + 2 ^ 10 /\ 0 <= h2 < 2 ^ 26 /\ 0 <= h3 < 2 ^ 26 /\ 0 <= h4 < 2 ^ 26.

Definition ABOUND : Z := 2 ^ 27 + 2 ^ 10.

(* ---------- h += m ---------- *)
Lemma add_msg_correct hibit h m : limbs_ok h -> bytes_ok m -> length m = 16%nat ->
  (hibit = 0 \/ hibit = 2 ^ 24) ->
  lval (donna_add_msg hibit h m) = lval h + le_value m + 2 ^ 104 * hibit /\
  limbs_lt ABOUND (donna_add_msg hibit h m).
Proof.
  intros Hh Hok Hl Hhb. destruct h as [[[[h0 h1] h2] h3] h4].
  destruct Hh as (B0 & B1 & B2 & B3 & B4).
  destruct (msg_limbs m Hok Hl) as (E0 & E1 & E2 & E3 & E4 & HM).
  set (M := le_value m) in *.
  unfold donna_add_msg. rewrite E0, E1, E2, E3, E4.
  pose proof (Z.mod_pos_bound M (2 ^ 26) ltac:(lia)) as T0.
  pose proof (Z.mod_pos_bound (M / 2 ^ 26) (2 ^ 26) ltac:(lia)) as T1.
  pose proof (Z.mod_pos_bound (M / 2 ^ 52) (2 ^ 26) ltac:(lia)) as T2.
  pose proof (Z.mod_pos_bound (M / 2 ^ 78) (2 ^ 26) ltac:(lia)) as T3.
  assert (T4 : 0 <= M / 2 ^ 104 < 2 ^ 24).
  { split; [apply Z.div_pos; lia|]. apply Z.div_lt_upper_bound; [lia|]. change (2 ^ 104 * 2 ^ 24) with (2 ^ 128). lia. }
  assert (Hlor : Z.lor (M / 2 ^ 104) hibit = M / 2 ^ 104 + hibit).
  { destruct Hhb as [-> | ->]; [rewrite Z.lor_0_r; lia|].
    replace (2 ^ 24) with (2 ^ 24 * 1) at 1 2 by lia. apply lor_low_high; lia. }
  rewrite Hlor.
  pose proof (base26 M ltac:(lia)) as Hbase.
  set (t0 := M mod 2 ^ 26) in *. set (t1 := (M / 2 ^ 26) mod 2 ^ 26) in *.
  set (t2 := (M / 2 ^ 52) mod 2 ^ 26) in *. set (t3 := (M / 2 ^ 78) mod 2 ^ 26) in *.
  set (t4 := M / 2 ^ 104) in *.
  assert (Hhb' : 0 <= hibit <= 2 ^ 24) by (destruct Hhb as [-> | ->]; lia).
  change (2 ^ 26) with 67108864 in *. change (2 ^ 10) with 1024 in *. change (2 ^ 24) with 16777216 in *.
  rewrite !w32_small by (change (2 ^ 32) with 4294967296; lia).
  unfold lval, limbs_lt, ABOUND. change (2 ^ 27) with 134217728. change (2 ^ 10) with 1024.
  change (2 ^ 26) with 67108864 in *.
  split; [|lia].
  change (2 ^ 52) with 4503599627370496 in *. change (2 ^ 78) with 302231454903657293676544 in *.
  change (2 ^ 104) with 20282409603651670423947251286016 in *. lia.
Qed.

(* ---------- h *= r ---------- *)
Definition r_ok (r : limbs) : Prop := limbs_lt (2 ^ 26) r.

(* the bound on the five 64-bit accumulators: d0..d3 collect 21 products' worth, d4 only five *)
Definition dsum_ok (d : limbs) : Prop :=
  let '(d0, d1, d2, d3, d4) := d in
  0 <= d0 <= 21 * (ABOUND * 2 ^ 26) /\ 0 <= d1 <= 21 * (ABOUND * 2 ^ 26) /\ 0 <= d2 <= 21 * (ABOUND * 2 ^ 26) /\
  0 <= d3 <= 21 * (ABOUND * 2 ^ 26) /\ 0 <= d4 <= 5 * (ABOUND * 2 ^ 26).

Lemma mul_correct r h : r_ok r -> limbs_lt ABOUND h ->
  dsum_ok (donna_mul r h) /\
  exists Q, 0 <= Q /\ lval h * lval r = lval (donna_mul r h) + P1305 * Q.
Proof.
  intros Hr Hh. destruct r as [[[[r0 r1] r2] r3] r4]. destruct h as [[[[h0 h1] h2] h3] h4].
  destruct Hr as (R0 & R1 & R2 & R3 & R4). destruct Hh as (H0 & H1 & H2 & H3 & H4).
  unfold donna_mul.
  assert (HA : ABOUND = 134218752) by reflexivity.
  change (2 ^ 26) with 67108864 in *.
  rewrite !(w32_small (_ * 5)) by (change (2 ^ 32) with 4294967296; lia).
  (* all 25 products are small *)
  assert (Hh0 : 0 <= h0 <= 134218751) by lia. assert (Hh1 : 0 <= h1 <= 134218751) by lia. assert (Hh2 : 0 <= h2 <= 134218751) by lia.
  assert (Hh3 : 0 <= h3 <= 134218751) by lia. assert (Hh4 : 0 <= h4 <= 134218751) by lia.
  assert (Hr0 : 0 <= r0 <= 67108863) by lia. assert (Hr1 : 0 <= r1 <= 67108863) by lia. assert (Hr2 : 0 <= r2 <= 67108863) by lia.
  assert (Hr3 : 0 <= r3 <= 67108863) by lia. assert (Hr4 : 0 <= r4 <= 67108863) by lia.
  assert (Hs1 : 0 <= r1 * 5 <= 335544315) by lia. assert (Hs2 : 0 <= r2 * 5 <= 335544315) by lia.
  assert (Hs3 : 0 <= r3 * 5 <= 335544315) by lia. assert (Hs4 : 0 <= r4 * 5 <= 335544315) by lia.
  clear H0 H1 H2 H3 H4 R0 R1 R2 R3 R4.
  pose proof (mul_bound h0 r0 _ _ Hh0 Hr0) as P00.
  pose proof (mul_bound h0 r1 _ _ Hh0 Hr1) as P01.
  pose proof (mul_bound h0 r2 _ _ Hh0 Hr2) as P02.
  pose proof (mul_bound h0 r3 _ _ Hh0 Hr3) as P03.
  pose proof (mul_bound h0 r4 _ _ Hh0 Hr4) as P04.
  pose proof (mul_bound h1 r0 _ _ Hh1 Hr0) as P10.
  pose proof (mul_bound h1 r1 _ _ Hh1 Hr1) as P11.
  pose proof (mul_bound h1 r2 _ _ Hh1 Hr2) as P12.
  pose proof (mul_bound h1 r3 _ _ Hh1 Hr3) as P13.
  pose proof (mul_bound h1 (r4 * 5) _ _ Hh1 Hs4) as P14.
  pose proof (mul_bound h2 r0 _ _ Hh2 Hr0) as P20.
  pose proof (mul_bound h2 r1 _ _ Hh2 Hr1) as P21.
  pose proof (mul_bound h2 r2 _ _ Hh2 Hr2) as P22.
  pose proof (mul_bound h2 (r3 * 5) _ _ Hh2 Hs3) as P23.
  pose proof (mul_bound h2 (r4 * 5) _ _ Hh2 Hs4) as P24.
  pose proof (mul_bound h3 r0 _ _ Hh3 Hr0) as P30.
  pose proof (mul_bound h3 r1 _ _ Hh3 Hr1) as P31.
  pose proof (mul_bound h3 (r2 * 5) _ _ Hh3 Hs2) as P32.
  pose proof (mul_bound h3 (r3 * 5) _ _ Hh3 Hs3) as P33.
  pose proof (mul_bound h3 (r4 * 5) _ _ Hh3 Hs4) as P34.
  pose proof (mul_bound h4 r0 _ _ Hh4 Hr0) as P40.
  pose proof (mul_bound h4 (r1 * 5) _ _ Hh4 Hs1) as P41.
  pose proof (mul_bound h4 (r2 * 5) _ _ Hh4 Hs2) as P42.
  pose proof (mul_bound h4 (r3 * 5) _ _ Hh4 Hs3) as P43.
  pose proof (mul_bound h4 (r4 * 5) _ _ Hh4 Hs4) as P44.
  rewrite !(w64_small (_ * _)) by (change (2 ^ 64) with 18446744073709551616; lia).
  assert (D0 : 0 <= h0 * r0 + h1 * (r4 * 5) + h2 * (r3 * 5) + h3 * (r2 * 5) + h4 * (r1 * 5) <= 21 * (134218752 * 67108864))
    by (clear - P00 P14 P23 P32 P41; lia).
  assert (D1 : 0 <= h0 * r1 + h1 * r0 + h2 * (r4 * 5) + h3 * (r3 * 5) + h4 * (r2 * 5) <= 21 * (134218752 * 67108864))
    by (clear - P01 P10 P24 P33 P42; lia).
  assert (D2 : 0 <= h0 * r2 + h1 * r1 + h2 * r0 + h3 * (r4 * 5) + h4 * (r3 * 5) <= 21 * (134218752 * 67108864))
    by (clear - P02 P11 P20 P34 P43; lia).
  assert (D3 : 0 <= h0 * r3 + h1 * r2 + h2 * r1 + h3 * r0 + h4 * (r4 * 5) <= 21 * (134218752 * 67108864))
    by (clear - P03 P12 P21 P30 P44; lia).
  assert (D4 : 0 <= h0 * r4 + h1 * r3 + h2 * r2 + h3 * r1 + h4 * r0 <= 5 * (134218752 * 67108864))
    by (clear - P04 P13 P22 P31 P40; lia).
  rewrite !w64_small by (change (2 ^ 64) with 18446744073709551616; first [clear - D0; lia | clear - D1; lia | clear - D2; lia | clear - D3; lia | clear - D4; lia]).
  split.
  - unfold dsum_ok. rewrite HA. change (2 ^ 26) with 67108864. clear - D0 D1 D2 D3 D4. lia.
  - exists (h1 * r4 + h2 * r3 + h3 * r2 + h4 * r1 + 2 ^ 26 * (h2 * r4 + h3 * r3 + h4 * r2)
            + 2 ^ 52 * (h3 * r4 + h4 * r3) + 2 ^ 78 * (h4 * r4)).
    split.
    + clear - Hh0 Hh1 Hh2 Hh3 Hh4 Hr0 Hr1 Hr2 Hr3 Hr4.
      repeat (first [apply Z.add_nonneg_nonneg | apply Z.mul_nonneg_nonneg]); lia.
    + unfold lval, P1305. ring.
Qed.

(* ---------- (partial) h %= p ---------- *)
Lemma split26 d B : 0 <= d <= B ->
  exists c l, d = 2 ^ 26 * c + l /\ 0 <= l < 2 ^ 26 /\ 0 <= c <= B / 2 ^ 26 /\ d / 2 ^ 26 = c /\ d mod 2 ^ 26 = l.
Proof.
  intros Hd. exists (d / 2 ^ 26), (d mod 2 ^ 26).
  pose proof (Z.div_mod d (2 ^ 26) ltac:(lia)) as Hdm.
  pose proof (Z.mod_pos_bound d (2 ^ 26) ltac:(lia)) as Hm.
  assert (0 <= d / 2 ^ 26) by (apply Z.div_pos; lia).
  assert (d / 2 ^ 26 <= B / 2 ^ 26) by (apply Z.div_le_mono; lia).
  repeat split; lia.
Qed.

Lemma mod32_mod26 x : (x mod 2 ^ 32) mod 2 ^ 26 = x mod 2 ^ 26.
Proof.
  change (2 ^ 32) with (2 ^ 26 * 2 ^ 6). rewrite Z.rem_mul_r by lia.
  rewrite (Z.mul_comm (2 ^ 26)), Z_mod_plus_full. apply Z.mod_mod. lia.
Qed.

Lemma carry_correct d : dsum_ok d ->
  limbs_ok (donna_carry d) /\ exists c4, 0 <= c4 /\ lval (donna_carry d) = lval d - P1305 * c4.
Proof.
  intros Hd. destruct d as [[[[d0 d1] d2] d3] d4]. destruct Hd as (B0 & B1 & B2 & B3 & B4).
  unfold donna_carry.
  change ABOUND with 134218752 in *. change (2 ^ 26) with 67108864 in B0, B1, B2, B3, B4.
  (* d0 *)
  destruct (split26 d0 _ B0) as (c0 & l0 & E0 & L0 & C0 & Q0 & M0).
  change (21 * (134218752 * 67108864) / 2 ^ 26) with 2818593792 in C0.
  rewrite (shiftr_div d0 26) by lia. rewrite Q0.
  rewrite (w32_small c0) by (change (2 ^ 32) with 4294967296; lia).
  assert (W0 : Z.land (w32 d0) M26 = l0).
  { rewrite land_M26, w32_is_mod, mod32_mod26. exact M0. }
  rewrite W0.
  (* d1 *)
  assert (B1' : 0 <= d1 + c0 <= 21 * (134218752 * 67108864) + 2818593792) by lia.
  rewrite (w64_small (d1 + c0)) by (change (2 ^ 64) with 18446744073709551616; lia).
  destruct (split26 (d1 + c0) _ B1') as (c1 & l1 & E1 & L1 & C1 & Q1 & M1).
  change ((21 * (134218752 * 67108864) + 2818593792) / 2 ^ 26) with 2818593834 in C1.
  rewrite (shiftr_div (d1 + c0) 26) by lia. rewrite Q1.
  rewrite (w32_small c1) by (change (2 ^ 32) with 4294967296; lia).
  assert (W1 : Z.land (w32 (d1 + c0)) M26 = l1).
  { rewrite land_M26, w32_is_mod, mod32_mod26. exact M1. }
  rewrite W1.
  (* d2 *)
  assert (B2' : 0 <= d2 + c1 <= 21 * (134218752 * 67108864) + 2818593834) by lia.
  rewrite (w64_small (d2 + c1)) by (change (2 ^ 64) with 18446744073709551616; lia).
  destruct (split26 (d2 + c1) _ B2') as (c2 & l2 & E2 & L2 & C2 & Q2 & M2).
  change ((21 * (134218752 * 67108864) + 2818593834) / 2 ^ 26) with 2818593834 in C2.
  rewrite (shiftr_div (d2 + c1) 26) by lia. rewrite Q2.
  rewrite (w32_small c2) by (change (2 ^ 32) with 4294967296; lia).
  assert (W2 : Z.land (w32 (d2 + c1)) M26 = l2).
  { rewrite land_M26, w32_is_mod, mod32_mod26. exact M2. }
  rewrite W2.
  (* d3 *)
  assert (B3' : 0 <= d3 + c2 <= 21 * (134218752 * 67108864) + 2818593834) by lia.
  rewrite (w64_small (d3 + c2)) by (change (2 ^ 64) with 18446744073709551616; lia).
  destruct (split26 (d3 + c2) _ B3') as (c3 & l3 & E3 & L3 & C3 & Q3 & M3).
  change ((21 * (134218752 * 67108864) + 2818593834) / 2 ^ 26) with 2818593834 in C3.
  rewrite (shiftr_div (d3 + c2) 26) by lia. rewrite Q3.
  rewrite (w32_small c3) by (change (2 ^ 32) with 4294967296; lia).
  assert (W3 : Z.land (w32 (d3 + c2)) M26 = l3).
  { rewrite land_M26, w32_is_mod, mod32_mod26. exact M3. }
  rewrite W3.
  (* d4 *)
  assert (B4' : 0 <= d4 + c3 <= 5 * (134218752 * 67108864) + 2818593834) by lia.
  rewrite (w64_small (d4 + c3)) by (change (2 ^ 64) with 18446744073709551616; lia).
  destruct (split26 (d4 + c3) _ B4') as (c4 & l4 & E4 & L4 & C4 & Q4 & M4).
  change ((5 * (134218752 * 67108864) + 2818593834) / 2 ^ 26) with 671093802 in C4.
  rewrite (shiftr_div (d4 + c3) 26) by lia. rewrite Q4.
  rewrite (w32_small c4) by (change (2 ^ 32) with 4294967296; lia).
  assert (W4 : Z.land (w32 (d4 + c3)) M26 = l4).
  { rewrite land_M26, w32_is_mod, mod32_mod26. exact M4. }
  rewrite W4.
  (* h0 += c * 5; c = h0 >> 26; h0 &= mask; h1 += c *)
  change (2 ^ 26) with 67108864 in *.
  rewrite (w32_small (c4 * 5)) by (change (2 ^ 32) with 4294967296; lia).
  rewrite (w32_small (l0 + c4 * 5)) by (change (2 ^ 32) with 4294967296; lia).
  assert (B5 : 0 <= l0 + c4 * 5 <= 67108863 + 671093802 * 5) by lia.
  destruct (split26 (l0 + c4 * 5) _ B5) as (c5 & l5 & E5 & L5 & C5 & Q5 & M5).
  change ((67108863 + 671093802 * 5) / 2 ^ 26) with 51 in C5.
  rewrite (shiftr_div (l0 + c4 * 5) 26) by lia. rewrite Q5. rewrite land_M26, M5.
  change (2 ^ 26) with 67108864 in *.
  rewrite (w32_small (l1 + c5)) by (change (2 ^ 32) with 4294967296; lia).
  split.
  - unfold limbs_ok. change (2 ^ 26) with 67108864. change (2 ^ 10) with 1024. lia.
  - exists c4. split; [lia|]. unfold lval, P1305.
    change (2 ^ 26) with 67108864. change (2 ^ 52) with 4503599627370496. change (2 ^ 78) with 302231454903657293676544.
    change (2 ^ 104) with 20282409603651670423947251286016. change (2 ^ 130 - 5) with 1361129467683753853853498429727072845819.
    clear - E0 E1 E2 E3 E4 E5. lia.
Qed.

(* ---------- one block ---------- *)
Lemma limbs_ok_zero : limbs_ok (0, 0, 0, 0, 0).
Proof. unfold limbs_ok. change (2 ^ 26) with 67108864. change (2 ^ 10) with 1024. lia. Qed.

Theorem donna_block_correct r hibit h m :
  r_ok r -> limbs_ok h -> bytes_ok m -> length m = 16%nat -> (hibit = 0 \/ hibit = 2 ^ 24) ->
  limbs_ok (donna_block r hibit h m) /\
  lval (donna_block r hibit h m) mod P1305 = ((lval h + le_value m + 2 ^ 104 * hibit) * lval r) mod P1305.
Proof.
  intros Hr Hh Hok Hl Hhb. unfold donna_block.
  destruct (add_msg_correct hibit h m Hh Hok Hl Hhb) as [Ev Hb].
  destruct (mul_correct r _ Hr Hb) as [Hd (Q & HQ & Em)].
  destruct (carry_correct _ Hd) as [Hout (c4 & Hc4 & Ec)].
  split; [exact Hout|].
  rewrite Ec. rewrite <- Ev.
  replace (lval (donna_mul r (donna_add_msg hibit h m)) - P1305 * c4)
    with (lval (donna_add_msg hibit h m) * lval r + (- (Q + c4)) * P1305) by (rewrite Em; ring).
  apply Z_mod_plus_full.
Qed.

(* the limb code against the number-level step of model/CryptoPoly1305.v *)
Lemma block_step_mod r final h x : poly_block_step r final (h mod P1305) x = poly_block_step r final h x.
Proof.
  unfold poly_block_step.
  rewrite Zmult_mod. rewrite <- (Zplus_mod_idemp_l (h mod P1305 + le_value x)).
  rewrite <- (Zplus_mod_idemp_l (h mod P1305)). rewrite Z.mod_mod by (pose proof P1305_pos; lia).
  rewrite (Zplus_mod_idemp_l h). rewrite Zplus_mod_idemp_l. rewrite <- Zmult_mod. reflexivity.
Qed.

Lemma donna_block_is_step r h m (final : bool) :
  r_ok r -> limbs_ok h -> bytes_ok m -> length m = 16%nat ->
  lval (donna_block r (if final then 0 else 2 ^ 24) h m) mod P1305 = poly_block_step (lval r) final (lval h mod P1305) m.
Proof.
  intros Hr Hh Hok Hl.
  destruct (donna_block_correct r (if final then 0 else 2 ^ 24) h m Hr Hh Hok Hl) as [_ E].
  { destruct final; auto. }
  rewrite E, block_step_mod. unfold poly_block_step. destruct final; reflexivity.
Qed.

Theorem donna_blocks_correct n r : r_ok r -> forall h m, limbs_ok h -> bytes_ok m -> (16 * n <= length m)%nat ->
  limbs_ok (donna_blocks n r (2 ^ 24) h m) /\
  lval (donna_blocks n r (2 ^ 24) h m) mod P1305 = (poly_blocks_h n (lval r) false (lval h mod P1305) m) mod P1305.
Proof.
  intros Hr. induction n as [|n IH]; intros h m Hh Hok Hl.
  - cbn [donna_blocks poly_blocks_h]. split; [exact Hh|]. rewrite Z.mod_mod by (pose proof P1305_pos; lia). reflexivity.
  - cbn [donna_blocks poly_blocks_h].
    assert (Hf : length (firstn 16 m) = 16%nat) by (apply firstn_length_le; lia).
    destruct (donna_block_correct r (2 ^ 24) h (firstn 16 m) Hr Hh (bytes_ok_firstn _ _ Hok) Hf ltac:(auto)) as [Hh' _].
    destruct (IH _ (skipn 16 m) Hh' (bytes_ok_skipn _ _ Hok) ltac:(rewrite skipn_length; lia)) as [Ho E].
    split; [exact Ho|]. rewrite E.
    rewrite (donna_block_is_step r h (firstn 16 m) false Hr Hh (bytes_ok_firstn _ _ Hok) Hf). reflexivity.
Qed.

(* ---------- poly1305_finish: fully carry h ---------- *)
Lemma full_carry_correct h : limbs_ok h ->
  limbs_lt (2 ^ 26) (donna_full_carry h) /\
  lval (donna_full_carry h) mod P1305 = lval h mod P1305.
Proof.
  intros Hh. destruct h as [[[[h0 h1] h2] h3] h4]. destruct Hh as (B0 & B1 & B2 & B3 & B4).
  unfold donna_full_carry.
  change (2 ^ 26) with 67108864 in B0, B1, B2, B3, B4. change (2 ^ 10) with 1024 in B1.
  assert (B1' : 0 <= h1 <= 67108864 + 1023) by lia.
  destruct (split26 h1 _ B1') as (c1 & l1 & E1 & L1 & C1 & Q1 & M1).
  change ((67108864 + 1023) / 2 ^ 26) with 1 in C1.
  rewrite (shiftr_div h1 26) by lia. rewrite Q1, (land_M26 h1), M1.
  change (2 ^ 26) with 67108864 in *.
  rewrite (w32_small (h2 + c1)) by (change (2 ^ 32) with 4294967296; lia).
  assert (B2' : 0 <= h2 + c1 <= 67108864) by lia.
  destruct (split26 (h2 + c1) _ B2') as (c2 & l2 & E2 & L2 & C2 & Q2 & M2).
  change (67108864 / 2 ^ 26) with 1 in C2.
  rewrite (shiftr_div (h2 + c1) 26) by lia. rewrite Q2, (land_M26 (h2 + c1)), M2.
  change (2 ^ 26) with 67108864 in *.
  rewrite (w32_small (h3 + c2)) by (change (2 ^ 32) with 4294967296; lia).
  assert (B3' : 0 <= h3 + c2 <= 67108864) by lia.
  destruct (split26 (h3 + c2) _ B3') as (c3 & l3 & E3 & L3 & C3 & Q3 & M3).
  change (67108864 / 2 ^ 26) with 1 in C3.
  rewrite (shiftr_div (h3 + c2) 26) by lia. rewrite Q3, (land_M26 (h3 + c2)), M3.
  change (2 ^ 26) with 67108864 in *.
  rewrite (w32_small (h4 + c3)) by (change (2 ^ 32) with 4294967296; lia).
  assert (B4' : 0 <= h4 + c3 <= 67108864) by lia.
  destruct (split26 (h4 + c3) _ B4') as (c4 & l4 & E4 & L4 & C4 & Q4 & M4).
  change (67108864 / 2 ^ 26) with 1 in C4.
  rewrite (shiftr_div (h4 + c3) 26) by lia. rewrite Q4, (land_M26 (h4 + c3)), M4.
  change (2 ^ 26) with 67108864 in *.
  rewrite (w32_small (c4 * 5)) by (change (2 ^ 32) with 4294967296; lia).
  rewrite (w32_small (h0 + c4 * 5)) by (change (2 ^ 32) with 4294967296; lia).
  assert (B5 : 0 <= h0 + c4 * 5 <= 67108864 + 4) by lia.
  destruct (split26 (h0 + c4 * 5) _ B5) as (c5 & l5 & E5 & L5 & C5 & Q5 & M5).
  change ((67108864 + 4) / 2 ^ 26) with 1 in C5.
  rewrite (shiftr_div (h0 + c4 * 5) 26) by lia. rewrite Q5, (land_M26 (h0 + c4 * 5)), M5.
  change (2 ^ 26) with 67108864 in *.
  rewrite (w32_small (l1 + c5)) by (change (2 ^ 32) with 4294967296; lia).
  split.
  - unfold limbs_lt. change (2 ^ 26) with 67108864. clear - E1 E2 E3 E4 E5 L1 L2 L3 L4 L5 C1 C2 C3 C4 C5 B0 B1 B2 B3 B4. lia.
  - assert (Ev : l5 + 2 ^ 26 * (l1 + c5) + 2 ^ 52 * l2 + 2 ^ 78 * l3 + 2 ^ 104 * l4 =
                 (h0 + 2 ^ 26 * h1 + 2 ^ 52 * h2 + 2 ^ 78 * h3 + 2 ^ 104 * h4) + (- c4) * P1305).
    { unfold P1305.
      change (2 ^ 26) with 67108864. change (2 ^ 52) with 4503599627370496. change (2 ^ 78) with 302231454903657293676544.
      change (2 ^ 104) with 20282409603651670423947251286016. change (2 ^ 130 - 5) with 1361129467683753853853498429727072845819.
      clear - E1 E2 E3 E4 E5. lia. }
    unfold lval. rewrite Ev. apply Z_mod_plus_full.
Qed.

(* ---------- poly1305_finish: compute h + -p and select ---------- *)
Lemma land_MASK32 x : 0 <= x < 2 ^ 32 -> Z.land x MASK32 = x.
Proof. intros H. exact (w32_small x H). Qed.

Lemma freeze_correct h : limbs_lt (2 ^ 26) h ->
  limbs_lt (2 ^ 26) (donna_freeze h) /\ lval (donna_freeze h) = lval h mod P1305.
Proof.
  intros Hh. destruct h as [[[[h0 h1] h2] h3] h4]. destruct Hh as (B0 & B1 & B2 & B3 & B4).
  unfold donna_freeze.
  change (2 ^ 26) with 67108864 in B0, B1, B2, B3, B4.
  rewrite (w32_small (h0 + 5)) by (change (2 ^ 32) with 4294967296; lia).
  assert (A0 : 0 <= h0 + 5 <= 67108864 + 4) by lia.
  destruct (split26 (h0 + 5) _ A0) as (c0 & l0 & E0 & L0 & C0 & Q0 & M0).
  change ((67108864 + 4) / 2 ^ 26) with 1 in C0.
  rewrite (shiftr_div (h0 + 5) 26) by lia. rewrite Q0, (land_M26 (h0 + 5)), M0.
  change (2 ^ 26) with 67108864 in *.
  rewrite (w32_small (h1 + c0)) by (change (2 ^ 32) with 4294967296; lia).
  assert (A1 : 0 <= h1 + c0 <= 67108864) by lia.
  destruct (split26 (h1 + c0) _ A1) as (c1 & l1 & E1 & L1 & C1 & Q1 & M1).
  change (67108864 / 2 ^ 26) with 1 in C1.
  rewrite (shiftr_div (h1 + c0) 26) by lia. rewrite Q1, (land_M26 (h1 + c0)), M1.
  change (2 ^ 26) with 67108864 in *.
  rewrite (w32_small (h2 + c1)) by (change (2 ^ 32) with 4294967296; lia).
  assert (A2 : 0 <= h2 + c1 <= 67108864) by lia.
  destruct (split26 (h2 + c1) _ A2) as (c2 & l2 & E2 & L2 & C2 & Q2 & M2).
  change (67108864 / 2 ^ 26) with 1 in C2.
  rewrite (shiftr_div (h2 + c1) 26) by lia. rewrite Q2, (land_M26 (h2 + c1)), M2.
  change (2 ^ 26) with 67108864 in *.
  rewrite (w32_small (h3 + c2)) by (change (2 ^ 32) with 4294967296; lia).
  assert (A3 : 0 <= h3 + c2 <= 67108864) by lia.
  destruct (split26 (h3 + c2) _ A3) as (c3 & l3 & E3 & L3 & C3 & Q3 & M3).
  change (67108864 / 2 ^ 26) with 1 in C3.
  rewrite (shiftr_div (h3 + c2) 26) by lia. rewrite Q3, (land_M26 (h3 + c2)), M3.
  change (2 ^ 26) with 67108864 in *.
  assert (Hsum : (h0 + 2 ^ 26 * h1 + 2 ^ 52 * h2 + 2 ^ 78 * h3 + 2 ^ 104 * h4) + 5 =
                 l0 + 2 ^ 26 * l1 + 2 ^ 52 * l2 + 2 ^ 78 * l3 + 2 ^ 104 * (h4 + c3)).
  { change (2 ^ 26) with 67108864. change (2 ^ 52) with 4503599627370496. change (2 ^ 78) with 302231454903657293676544.
    change (2 ^ 104) with 20282409603651670423947251286016. clear - E0 E1 E2 E3. lia. }
  assert (HP : P1305 = 2 ^ 104 * 67108864 - 5) by reflexivity.
  destruct (Z_lt_le_dec (h4 + c3) 67108864) as [Hlt | Hge].
  - (* h < p: the subtraction borrows, mask = 0, h is kept *)
    assert (G4 : w32 (h4 + c3 - 67108864) = h4 + c3 - 67108864 + 2 ^ 32).
    { rewrite w32_is_mod. symmetry. apply (Z.mod_unique _ _ (-1)); [left|]; change (2 ^ 32) with 4294967296; lia. }
    rewrite G4.
    assert (S31 : Z.shiftr (h4 + c3 - 67108864 + 2 ^ 32) 31 = 1).
    { rewrite shiftr_div by lia. symmetry. apply (Z.div_unique _ _ 1 (h4 + c3 - 67108864 + 2 ^ 31));
        [left|]; change (2 ^ 32) with 4294967296; change (2 ^ 31) with 2147483648; lia. }
    rewrite S31. change (w32 (1 - 1)) with 0. change (not32 0) with MASK32.
    rewrite !Z.land_0_r, !Z.lor_0_r.
    rewrite !land_MASK32 by (change (2 ^ 32) with 4294967296; lia).
    split; [unfold limbs_lt; change (2 ^ 26) with 67108864; lia|].
    unfold lval. symmetry. apply Z.mod_small. rewrite HP.
    split; [|change (2 ^ 104) with 20282409603651670423947251286016 in *; change (2 ^ 78) with 302231454903657293676544 in *;
             change (2 ^ 52) with 4503599627370496 in *; change (2 ^ 26) with 67108864 in *; clear - Hsum Hlt L0 L1 L2 L3; lia].
    change (2 ^ 104) with 20282409603651670423947251286016; change (2 ^ 78) with 302231454903657293676544;
      change (2 ^ 52) with 4503599627370496; change (2 ^ 26) with 67108864; lia.
  - (* h >= p: no borrow, mask = 0xffffffff, h + 5 - 2^130 is taken *)
    assert (Heq : h4 + c3 = 67108864) by lia.
    rewrite Heq. change (w32 (67108864 - 67108864)) with 0. change (Z.shiftr 0 31) with 0.
    change (w32 (0 - 1)) with MASK32. change (not32 MASK32) with 0.
    rewrite !Z.land_0_r, !Z.lor_0_l.
    rewrite !land_MASK32 by (change (2 ^ 32) with 4294967296; lia).
    split; [unfold limbs_lt; change (2 ^ 26) with 67108864; lia|].
    unfold lval. rewrite Heq in Hsum.
    apply (Z.mod_unique _ _ 1); [left|]; rewrite HP;
      change (2 ^ 104) with 20282409603651670423947251286016 in *; change (2 ^ 78) with 302231454903657293676544 in *;
      change (2 ^ 52) with 4503599627370496 in *; change (2 ^ 26) with 67108864 in *; clear - Hsum L0 L1 L2 L3 B0 B1 B2 B3 B4; lia.
Qed.

(* ---------- poly1305_finish: pack to 128 bits, add pad, serialize ---------- *)
Lemma w32_shiftl x s : 0 <= s <= 32 -> w32 (Z.shiftl x s) = 2 ^ s * (x mod 2 ^ (32 - s)).
Proof.
  intros Hs. rewrite w32_is_mod, Z.shiftl_mul_pow2 by lia.
  replace (2 ^ 32) with (2 ^ (32 - s) * 2 ^ s) by (rewrite <- Z.pow_add_r by lia; f_equal; lia).
  rewrite Z.mul_mod_distr_r by (try apply Z.pow_nonzero; lia). ring.
Qed.

Lemma le_bytes_app a : forall b v, le_bytes (a + b) v = le_bytes a v ++ le_bytes b (v / 2 ^ (8 * Z.of_nat a)).
Proof.
  induction a as [|a IH]; intros b v.
  - cbn [Nat.add le_bytes app]. change (2 ^ (8 * Z.of_nat 0)) with 1. rewrite Z.div_1_r. reflexivity.
  - cbn [Nat.add le_bytes app]. rewrite IH. do 2 f_equal.
    replace (8 * Z.of_nat (S a)) with (8 + 8 * Z.of_nat a) by lia. rewrite Z.pow_add_r by lia.
    change (2 ^ 8) with 256. rewrite Z.div_div by (try apply Z.pow_pos_nonneg; lia). reflexivity.
Qed.

Lemma split32 d : 0 <= d -> exists c l, d = 2 ^ 32 * c + l /\ 0 <= l < 2 ^ 32 /\ 0 <= c /\ d / 2 ^ 32 = c /\ d mod 2 ^ 32 = l.
Proof.
  intros Hd. exists (d / 2 ^ 32), (d mod 2 ^ 32).
  pose proof (Z.div_mod d (2 ^ 32) ltac:(lia)). pose proof (Z.mod_pos_bound d (2 ^ 32) ltac:(lia)).
  assert (0 <= d / 2 ^ 32) by (apply Z.div_pos; lia). repeat split; lia.
Qed.

Definition pad_ok (pad : Z * Z * Z * Z) : Prop :=
  let '(p0, p1, p2, p3) := pad in 0 <= p0 < 2 ^ 32 /\ 0 <= p1 < 2 ^ 32 /\ 0 <= p2 < 2 ^ 32 /\ 0 <= p3 < 2 ^ 32.
Definition pad_val (pad : Z * Z * Z * Z) : Z :=
  let '(p0, p1, p2, p3) := pad in p0 + 2 ^ 32 * p1 + 2 ^ 64 * p2 + 2 ^ 96 * p3.

Lemma pack_correct h pad : limbs_lt (2 ^ 26) h -> pad_ok pad ->
  donna_pack h pad = le_bytes 16 ((lval h + pad_val pad) mod 2 ^ 128).
Proof.
  intros Hh Hp. destruct h as [[[[h0 h1] h2] h3] h4]. destruct pad as [[[p0 p1] p2] p3].
  destruct Hh as (B0 & B1 & B2 & B3 & B4). destruct Hp as (P0 & P1 & P2 & P3).
  unfold donna_pack.
  rewrite !w32_shiftl by lia. rewrite !shiftr_div by lia.
  change (32 - 26) with 6. change (32 - 20) with 12. change (32 - 14) with 18. change (32 - 8) with 24.
  (* the four 32-bit words of h mod 2^128 *)
  pose proof (Z.div_mod h1 (2 ^ 6) ltac:(lia)) as D1. pose proof (Z.mod_pos_bound h1 (2 ^ 6) ltac:(lia)) as R1.
  pose proof (Z.div_mod h2 (2 ^ 12) ltac:(lia)) as D2. pose proof (Z.mod_pos_bound h2 (2 ^ 12) ltac:(lia)) as R2.
  pose proof (Z.div_mod h3 (2 ^ 18) ltac:(lia)) as D3. pose proof (Z.mod_pos_bound h3 (2 ^ 18) ltac:(lia)) as R3.
  pose proof (Z.div_mod h4 (2 ^ 24) ltac:(lia)) as D4. pose proof (Z.mod_pos_bound h4 (2 ^ 24) ltac:(lia)) as R4.
  set (a1 := h1 / 2 ^ 6) in *. set (b1 := h1 mod 2 ^ 6) in *. set (a2 := h2 / 2 ^ 12) in *. set (b2 := h2 mod 2 ^ 12) in *.
  set (a3 := h3 / 2 ^ 18) in *. set (b3 := h3 mod 2 ^ 18) in *. set (a4 := h4 / 2 ^ 24) in *. set (b4 := h4 mod 2 ^ 24) in *.
  assert (Ha1 : 0 <= a1 < 2 ^ 20).
  { change (2 ^ 26) with 67108864 in *. change (2 ^ 6) with 64 in *. change (2 ^ 20) with 1048576. lia. }
  assert (Ha2 : 0 <= a2 < 2 ^ 14).
  { change (2 ^ 26) with 67108864 in *. change (2 ^ 12) with 4096 in *. change (2 ^ 14) with 16384. lia. }
  assert (Ha3 : 0 <= a3 < 2 ^ 8).
  { change (2 ^ 26) with 67108864 in *. change (2 ^ 18) with 262144 in *. change (2 ^ 8) with 256. lia. }
  assert (Ha4 : 0 <= a4 < 4).
  { change (2 ^ 26) with 67108864 in *. change (2 ^ 24) with 16777216 in *. lia. }
  rewrite (lor_low_high h0 b1 26) by lia.
  rewrite (lor_low_high a1 b2 20) by lia.
  rewrite (lor_low_high a2 b3 14) by lia.
  rewrite (lor_low_high a3 b4 8) by lia.
  change (2 ^ 26) with 67108864 in *. change (2 ^ 6) with 64 in *. change (2 ^ 12) with 4096 in *.
  change (2 ^ 18) with 262144 in *. change (2 ^ 24) with 16777216 in *.
  change (2 ^ 20) with 1048576 in *. change (2 ^ 14) with 16384 in *. change (2 ^ 8) with 256 in *.
  rewrite (w32_small (h0 + 67108864 * b1)) by (change (2 ^ 32) with 4294967296; lia).
  rewrite (w32_small (a1 + 1048576 * b2)) by (change (2 ^ 32) with 4294967296; lia).
  rewrite (w32_small (a2 + 16384 * b3)) by (change (2 ^ 32) with 4294967296; lia).
  rewrite (w32_small (a3 + 256 * b4)) by (change (2 ^ 32) with 4294967296; lia).
  set (k0 := h0 + 67108864 * b1). set (k1 := a1 + 1048576 * b2). set (k2 := a2 + 16384 * b3). set (k3 := a3 + 256 * b4).
  assert (K0 : 0 <= k0 < 2 ^ 32) by (unfold k0; change (2 ^ 32) with 4294967296; lia).
  assert (K1 : 0 <= k1 < 2 ^ 32) by (unfold k1; change (2 ^ 32) with 4294967296; lia).
  assert (K2 : 0 <= k2 < 2 ^ 32) by (unfold k2; change (2 ^ 32) with 4294967296; lia).
  assert (K3 : 0 <= k3 < 2 ^ 32) by (unfold k3; change (2 ^ 32) with 4294967296; lia).
  assert (HK : (h0 + 67108864 * h1 + 2 ^ 52 * h2 + 2 ^ 78 * h3 + 2 ^ 104 * h4) =
               (k0 + 2 ^ 32 * k1 + 2 ^ 64 * k2 + 2 ^ 96 * k3) + 2 ^ 128 * a4).
  { unfold k0, k1, k2, k3. rewrite D1 at 1. rewrite D2 at 1. rewrite D3 at 1. rewrite D4 at 1.
    fold a1 b1 a2 b2 a3 b3 a4 b4.
    change (2 ^ 52) with 4503599627370496. change (2 ^ 78) with 302231454903657293676544.
    change (2 ^ 104) with 20282409603651670423947251286016. change (2 ^ 32) with 4294967296.
    change (2 ^ 64) with 18446744073709551616. change (2 ^ 96) with 79228162514264337593543950336.
    change (2 ^ 128) with 340282366920938463463374607431768211456. ring. }
  (* adding the pad with carries *)
  change (2 ^ 32) with 4294967296 in *.
  rewrite (w64_small (k0 + p0)) by (change (2 ^ 64) with 18446744073709551616; lia).
  destruct (split32 (k0 + p0) ltac:(lia)) as (c0 & o0 & E0 & L0 & C0 & Q0 & M0).
  change (2 ^ 32) with 4294967296 in *.
  assert (C0' : c0 <= 1) by lia.
  rewrite Q0.
  rewrite (w64_small (k1 + p1 + c0)) by (change (2 ^ 64) with 18446744073709551616; lia).
  destruct (split32 (k1 + p1 + c0) ltac:(lia)) as (c1 & o1 & E1 & L1 & C1 & Q1 & M1).
  change (2 ^ 32) with 4294967296 in *.
  assert (C1' : c1 <= 1) by lia.
  rewrite Q1.
  rewrite (w64_small (k2 + p2 + c1)) by (change (2 ^ 64) with 18446744073709551616; lia).
  destruct (split32 (k2 + p2 + c1) ltac:(lia)) as (c2 & o2 & E2 & L2 & C2 & Q2 & M2).
  change (2 ^ 32) with 4294967296 in *.
  assert (C2' : c2 <= 1) by lia.
  rewrite Q2.
  rewrite (w64_small (k3 + p3 + c2)) by (change (2 ^ 64) with 18446744073709551616; lia).
  destruct (split32 (k3 + p3 + c2) ltac:(lia)) as (c3 & o3 & E3 & L3 & C3 & Q3 & M3).
  change (2 ^ 32) with 4294967296 in *.
  rewrite !w32_is_mod. change (2 ^ 32) with 4294967296. rewrite M0, M1, M2, M3.
  (* the number written *)
  set (O := o0 + 2 ^ 32 * o1 + 2 ^ 64 * o2 + 2 ^ 96 * o3).
  assert (HO : (lval (h0, h1, h2, h3, h4) + pad_val (p0, p1, p2, p3)) mod 2 ^ 128 = O).
  { symmetry. apply (Z.mod_unique _ _ (a4 + c3)).
    - left. unfold O. change (2 ^ 32) with 4294967296. change (2 ^ 64) with 18446744073709551616.
      change (2 ^ 96) with 79228162514264337593543950336. change (2 ^ 128) with 340282366920938463463374607431768211456. lia.
    - unfold lval, pad_val. change (2 ^ 26) with 67108864. rewrite HK. unfold O.
      change (2 ^ 32) with 4294967296. change (2 ^ 64) with 18446744073709551616.
      change (2 ^ 96) with 79228162514264337593543950336. change (2 ^ 128) with 340282366920938463463374607431768211456.
      clear - E0 E1 E2 E3. lia. }
  rewrite HO.
  change 16%nat with (4 + (4 + (4 + 4)))%nat. rewrite !le_bytes_app.
  change (8 * Z.of_nat 4) with 32.
  assert (O1 : O / 2 ^ 32 = o1 + 2 ^ 32 * o2 + 2 ^ 64 * o3).
  { symmetry. apply (Z.div_unique _ _ _ o0); [left; change (2 ^ 32) with 4294967296; lia|].
    unfold O. change (2 ^ 32) with 4294967296. change (2 ^ 64) with 18446744073709551616. change (2 ^ 96) with 79228162514264337593543950336. lia. }
  rewrite O1.
  assert (O2 : (o1 + 2 ^ 32 * o2 + 2 ^ 64 * o3) / 2 ^ 32 = o2 + 2 ^ 32 * o3).
  { symmetry. apply (Z.div_unique _ _ _ o1); [left; change (2 ^ 32) with 4294967296; lia|].
    change (2 ^ 32) with 4294967296. change (2 ^ 64) with 18446744073709551616. lia. }
  rewrite O2.
  assert (O3 : (o2 + 2 ^ 32 * o3) / 2 ^ 32 = o3).
  { symmetry. apply (Z.div_unique _ _ _ o2); [left; change (2 ^ 32) with 4294967296; lia|]. change (2 ^ 32) with 4294967296. lia. }
  rewrite O3.
  (* each 4-byte group only depends on the value mod 2^32 *)
  assert (Hm : forall x y, 0 <= x < 4294967296 -> le_bytes 4 (x + 2 ^ 32 * y) = le_bytes 4 x).
  { intros x y Hx. rewrite <- (le_bytes_mod 4 (x + 2 ^ 32 * y)). change (2 ^ (8 * Z.of_nat 4)) with (2 ^ 32).
    rewrite (Z.mul_comm (2 ^ 32) y), Z_mod_plus_full. rewrite Z.mod_small by (change (2 ^ 32) with 4294967296; lia). reflexivity. }
  unfold O.
  replace (o0 + 2 ^ 32 * o1 + 2 ^ 64 * o2 + 2 ^ 96 * o3) with (o0 + 2 ^ 32 * (o1 + 2 ^ 32 * o2 + 2 ^ 64 * o3))
    by (change (2 ^ 32) with 4294967296; change (2 ^ 64) with 18446744073709551616; change (2 ^ 96) with 79228162514264337593543950336; ring).
  rewrite (Hm o0) by lia.
  replace (o1 + 2 ^ 32 * o2 + 2 ^ 64 * o3) with (o1 + 2 ^ 32 * (o2 + 2 ^ 32 * o3))
    by (change (2 ^ 32) with 4294967296; change (2 ^ 64) with 18446744073709551616; ring).
  rewrite (Hm o1) by lia. rewrite (Hm o2) by lia. reflexivity.
Qed.

Theorem finish_correct h pad : limbs_ok h -> pad_ok pad ->
  donna_finish h pad = le_bytes 16 ((lval h mod P1305 + pad_val pad) mod 2 ^ 128).
Proof.
  intros Hh Hp. unfold donna_finish.
  destruct (full_carry_correct h Hh) as [H1 E1].
  destruct (freeze_correct _ H1) as [H2 E2].
  rewrite (pack_correct _ pad H2 Hp). rewrite E2, E1. reflexivity.
Qed.

(* ---------- poly1305_init: the clamped r in limbs ---------- *)
Lemma land_limbs a b c d k : 0 <= k -> 0 <= a < 2 ^ k -> 0 <= c < 2 ^ k ->
  Z.land (a + 2 ^ k * b) (c + 2 ^ k * d) = Z.land a c + 2 ^ k * Z.land b d.
Proof.
  intros Hk Ha Hc.
  rewrite <- (lor_low_high a b k Hk Ha), <- (lor_low_high c d k Hk Hc).
  rewrite Z.land_lor_distr_l, !Z.land_lor_distr_r.
  rewrite (land_low_high a d k Hk Ha).
  rewrite (Z.land_comm (2 ^ k * b) c), (land_low_high c b k Hk Hc).
  rewrite Z.lor_0_r, Z.lor_0_l.
  assert (Hbd : Z.land (2 ^ k * b) (2 ^ k * d) = 2 ^ k * Z.land b d).
  { rewrite !(Z.mul_comm (2 ^ k)), <- !Z.shiftl_mul_pow2 by lia. symmetry. apply Z.shiftl_land. }
  rewrite Hbd. apply lor_low_high; [exact Hk|].
  split; [apply Z.land_nonneg; lia|].
  (* land a c <= a < 2^k *)
  assert (Hm : Z.land a c = Z.land (Z.land a c) (Z.ones k)).
  { rewrite <- Z.land_assoc. f_equal. rewrite Z.land_ones by lia. symmetry. apply Z.mod_small. exact Hc. }
  rewrite Hm, Z.land_ones by lia. apply Z.mod_pos_bound. lia.
Qed.

Definition CLAMP : Z := 0x0ffffffc0ffffffc0ffffffc0fffffff.
Lemma clamp_limbs : CLAMP = 0x3ffffff + 2 ^ 26 * (0x3ffff03 + 2 ^ 26 * (0x3ffc0ff + 2 ^ 26 * (0x3f03fff + 2 ^ 26 * 0x00fffff))).
Proof. reflexivity. Qed.

Lemma land_sub_M26 y c : Z.land M26 c = c -> Z.land y c = Z.land (Z.land y M26) c.
Proof. intros Hc. rewrite <- Z.land_assoc, Hc. reflexivity. Qed.

Lemma rd32_firstn16 key off : (off + 4 <= 16)%nat -> rd32 key off = rd32 (firstn 16 key) off.
Proof.
  intros H. unfold rd32. rewrite skipn_firstn_comm, firstn_firstn. rewrite Nat.min_l by lia. reflexivity.
Qed.

Lemma land_lt26 x c : Z.land c M26 = c -> 0 <= Z.land x c < 2 ^ 26.
Proof.
  intros Hc. rewrite <- Hc, Z.land_assoc, land_M26. apply Z.mod_pos_bound. lia.
Qed.

Lemma donna_r_correct key : bytes_ok key -> length key = 32%nat ->
  r_ok (donna_r key) /\ lval (donna_r key) = poly_clamp (le_value (firstn 16 key)).
Proof.
  intros Hok Hl.
  assert (Hok16 : bytes_ok (firstn 16 key)) by (apply bytes_ok_firstn; exact Hok).
  assert (Hl16 : length (firstn 16 key) = 16%nat) by (apply firstn_length_le; lia).
  destruct (msg_limbs (firstn 16 key) Hok16 Hl16) as (E0 & E1 & E2 & E3 & E4 & HK).
  set (K := le_value (firstn 16 key)) in *.
  unfold donna_r. rewrite !(rd32_firstn16 key) by lia.
  rewrite (land_sub_M26 (Z.shiftr (rd32 (firstn 16 key) 3) 2) 0x3ffff03) by reflexivity.
  rewrite (land_sub_M26 (Z.shiftr (rd32 (firstn 16 key) 6) 4) 0x3ffc0ff) by reflexivity.
  rewrite (land_sub_M26 (Z.shiftr (rd32 (firstn 16 key) 9) 6) 0x3f03fff) by reflexivity.
  change 0x3ffffff with M26 at 1. rewrite E0, E1, E2, E3, E4.
  split.
  - unfold r_ok, limbs_lt.
    refine (conj _ (conj _ (conj _ (conj _ _)))).
    + apply Z.mod_pos_bound. lia.
    + apply land_lt26. reflexivity.
    + apply land_lt26. reflexivity.
    + apply land_lt26. reflexivity.
    + apply land_lt26. reflexivity.
  - unfold poly_clamp. fold CLAMP. rewrite clamp_limbs.
    pose proof (base26 K ltac:(lia)) as Hb.
    set (k0 := K mod 2 ^ 26) in *. set (k1 := (K / 2 ^ 26) mod 2 ^ 26) in *. set (k2 := (K / 2 ^ 52) mod 2 ^ 26) in *.
    set (k3 := (K / 2 ^ 78) mod 2 ^ 26) in *. set (k4 := K / 2 ^ 104) in *.
    assert (HKl : K = k0 + 2 ^ 26 * (k1 + 2 ^ 26 * (k2 + 2 ^ 26 * (k3 + 2 ^ 26 * k4)))).
    { rewrite <- Hb. change (2 ^ 52) with (2 ^ 26 * 2 ^ 26). change (2 ^ 78) with (2 ^ 26 * 2 ^ 26 * 2 ^ 26).
      change (2 ^ 104) with (2 ^ 26 * 2 ^ 26 * 2 ^ 26 * 2 ^ 26). ring. }
    rewrite HKl at 1.
    assert (T0 : 0 <= k0 < 2 ^ 26) by (apply Z.mod_pos_bound; lia).
    assert (T1 : 0 <= k1 < 2 ^ 26) by (apply Z.mod_pos_bound; lia).
    assert (T2 : 0 <= k2 < 2 ^ 26) by (apply Z.mod_pos_bound; lia).
    assert (T3 : 0 <= k3 < 2 ^ 26) by (apply Z.mod_pos_bound; lia).
    rewrite !land_limbs by (try assumption; try lia; change (2 ^ 26) with 67108864; lia).
    unfold lval.
    change (2 ^ 52) with (2 ^ 26 * 2 ^ 26). change (2 ^ 78) with (2 ^ 26 * 2 ^ 26 * 2 ^ 26).
    change (2 ^ 104) with (2 ^ 26 * 2 ^ 26 * 2 ^ 26 * 2 ^ 26).
    assert (H0 : Z.land k0 67108863 = k0).
    { change 67108863 with M26. rewrite land_M26. apply Z.mod_small. exact T0. }
    rewrite H0.
    change (Z.land (rd32 (firstn 16 key) 0) 67108863) with (Z.land (rd32 (firstn 16 key) 0) M26). rewrite E0. fold k0. ring.
Qed.

Lemma rd32_bound m off : bytes_ok m -> (off + 4 <= length m)%nat -> 0 <= rd32 m off < 2 ^ 32.
Proof. intros Hok Hl. rewrite rd32_slice by assumption. apply Z.mod_pos_bound. lia. Qed.

Lemma donna_pad_correct key : bytes_ok key -> length key = 32%nat ->
  pad_ok (donna_pad key) /\ pad_val (donna_pad key) = le_value (firstn 16 (skipn 16 key)).
Proof.
  intros Hok Hl. unfold donna_pad, pad_ok, pad_val.
  split; [repeat split; apply rd32_bound; try assumption; lia|].
  do 32 (destruct key as [|? key]; [discriminate|]). destruct key; [|discriminate].
  unfold rd32. cbn [skipn firstn le_value]. ring.
Qed.

(* ---------- the limb code computes Poly1305 ---------- *)
Lemma le_value_app_zeros l k : le_value (l ++ zeros k) = le_value l.
Proof. rewrite le_value_app, le_value_zeros. lia. Qed.

Theorem donna_mac_eq_spec key msg : bytes_ok key -> length key = 32%nat -> bytes_ok msg ->
  donna_mac key msg = poly1305_spec key msg.
Proof.
  intros Hkok Hkl Hmok. unfold donna_mac, poly1305_spec.
  destruct (donna_r_correct key Hkok Hkl) as [Hr Er].
  destruct (donna_pad_correct key Hkok Hkl) as [Hp Ep].
  set (r := poly_clamp (le_value (firstn 16 key))) in *.
  set (n := (length msg / 16)%nat).
  assert (Hn : (16 * n <= length msg)%nat) by (unfold n; apply Nat.mul_div_le; lia).
  destruct (donna_blocks_correct n (donna_r key) Hr (0, 0, 0, 0, 0) msg limbs_ok_zero Hmok Hn) as [Hh Eh].
  rewrite Er in Eh. change (lval (0, 0, 0, 0, 0) mod P1305) with 0 in Eh.
  rewrite blocks_h_process in Eh.
  rewrite (accumulate_absorb r (length msg) msg 0) by lia.
  unfold absorb. cbn [fst snd app]. fold n.
  set (h := donna_blocks n (donna_r key) (2 ^ 24) (0, 0, 0, 0, 0) msg) in *.
  set (rest := skipn (n * 16) msg).
  assert (Hrl : (length rest < 16)%nat).
  { unfold rest. rewrite skipn_length. pose proof (Nat.div_mod (length msg) 16 ltac:(lia)) as Hdm.
    pose proof (Nat.mod_upper_bound (length msg) 16 ltac:(lia)). fold n in Hdm. lia. }
  pose proof (pprocess_range r n 0 msg ltac:(pose proof P1305_pos; lia)) as Hrange.
  destruct (length rest =? 0)%nat eqn:E0.
  - apply Nat.eqb_eq in E0.
    assert (E0' : (0 <? length rest)%nat = false) by (apply Nat.ltb_ge; lia). rewrite E0'.
    rewrite (finish_correct h _ Hh Hp). rewrite Eh, Ep.
    rewrite (Z.mod_small (pprocess r n 0 msg) P1305) by exact Hrange.
    change (2 ^ 128) with (2 ^ (8 * Z.of_nat 16)). apply le_bytes_mod.
  - apply Nat.eqb_neq in E0.
    assert (E0' : (0 <? length rest)%nat = true) by (apply Nat.ltb_lt; lia). rewrite E0'.
    change (rest ++ 1%N :: zeros (16 - length rest - 1)) with (rest ++ [1%N] ++ zeros (16 - length rest - 1)).
    set (blk := rest ++ [1%N] ++ zeros (16 - length rest - 1)).
    assert (Hblk_ok : bytes_ok blk).
    { unfold blk, bytes_ok. apply Forall_app. split; [apply bytes_ok_skipn; exact Hmok|].
      apply Forall_app. split; [constructor; [reflexivity | constructor]|].
      unfold zeros. apply Forall_forall. intros x Hx. apply repeat_spec in Hx. subst x. reflexivity. }
    assert (Hblk_l : length blk = 16%nat).
    { unfold blk. rewrite !app_length. unfold zeros. rewrite repeat_length. cbn [length]. lia. }
    destruct (donna_block_correct (donna_r key) 0 h blk Hr Hh Hblk_ok Hblk_l ltac:(auto)) as [Hh' Eb].
    rewrite (finish_correct _ _ Hh' Hp). rewrite Eb, Er, Ep.
    rewrite Z.mul_0_r, Z.add_0_r.
    assert (Hblkv : le_value blk = le_value (rest ++ [1%N])).
    { unfold blk. rewrite app_assoc. apply le_value_app_zeros. }
    rewrite Hblkv.
    assert (Hcong : ((lval h + le_value (rest ++ [1%N])) * r) mod P1305 =
                    (r * (pprocess r n 0 msg + le_value (rest ++ [1%N]))) mod P1305).
    { rewrite (Z.mul_comm r). rewrite Zmult_mod. rewrite <- (Zplus_mod_idemp_l (lval h)). rewrite Eh.
      rewrite Zplus_mod_idemp_l. rewrite <- Zmult_mod. reflexivity. }
    rewrite Hcong.
    change (2 ^ 128) with (2 ^ (8 * Z.of_nat 16)). apply le_bytes_mod.
Qed.

(* ---------- the incremental limb-level object simulates the number-level one ---------- *)
Lemma blocks_h_range n r final : forall h m, 0 <= h < P1305 -> 0 <= poly_blocks_h n r final h m < P1305.
Proof.
  induction n as [|n IH]; intros h m Hh; [exact Hh|]. cbn [poly_blocks_h]. apply IH.
  unfold poly_block_step. apply Z.mod_pos_bound. exact P1305_pos.
Qed.

Definition Sim (n : poly1305_ctx) (l : donna_ctx) : Prop :=
  p_r n = lval (d_r l) /\ r_ok (d_r l) /\ p_h n = lval (d_h l) mod P1305 /\ limbs_ok (d_h l) /\
  p_pad n = pad_val (d_pad l) /\ pad_ok (d_pad l) /\
  p_leftover n = d_leftover l /\ p_buffer n = d_buffer l /\ p_final n = false /\ d_final l = false /\
  length (d_buffer l) = 16%nat /\ (d_leftover l < 16)%nat /\ bytes_ok (firstn (d_leftover l) (d_buffer l)).

Lemma blocks_sim n l m bytes : Sim n l -> bytes_ok m -> (16 * (bytes / 16) <= length m)%nat ->
  forall lo buf, length buf = 16%nat -> (lo < 16)%nat -> bytes_ok (firstn lo buf) ->
  Sim (set_leftover (poly1305_blocks n m bytes) buf lo) (donna_set_leftover (donna_ctx_blocks l m bytes) buf lo).
Proof.
  intros (Hr & Hrok & Hh & Hhok & Hp & Hpok & Hlo & Hb & Hf & Hfl & Hbl & Hlt & Hbok) Hm Hlen lo buf Hbufl Hlolt Hbufok.
  destruct (donna_blocks_correct (bytes / 16) (d_r l) Hrok (d_h l) m Hhok Hm Hlen) as [Hok' E].
  unfold Sim, set_leftover, donna_set_leftover, poly1305_blocks, donna_ctx_blocks.
  cbn [p_r p_h p_pad p_leftover p_buffer p_final d_r d_h d_pad d_leftover d_buffer d_final].
  rewrite Hfl, Hf.
  refine (conj Hr (conj Hrok (conj _ (conj Hok' (conj Hp (conj Hpok (conj eq_refl (conj eq_refl
          (conj eq_refl (conj eq_refl (conj Hbufl (conj Hlolt Hbufok)))))))))))).
  rewrite E, <- Hr, <- Hh. symmetry. apply Z.mod_small. apply blocks_h_range.
  rewrite Hh. apply Z.mod_pos_bound. exact P1305_pos.
Qed.

Lemma set_leftover_sim n l buf lo : Sim n l -> length buf = 16%nat -> (lo < 16)%nat -> bytes_ok (firstn lo buf) ->
  Sim (set_leftover n buf lo) (donna_set_leftover l buf lo).
Proof.
  intros (Hr & Hrok & Hh & Hhok & Hp & Hpok & Hlo & Hb & Hf & Hfl & Hbl & Hlt & Hbok) Hbufl Hlolt Hbufok.
  unfold Sim, set_leftover, donna_set_leftover.
  cbn [p_r p_h p_pad p_leftover p_buffer p_final d_r d_h d_pad d_leftover d_buffer d_final].
  refine (conj Hr (conj Hrok (conj Hh (conj Hhok (conj Hp (conj Hpok (conj eq_refl (conj eq_refl
          (conj Hf (conj Hfl (conj Hbufl (conj Hlolt Hbufok)))))))))))).
Qed.

Lemma set_leftover_same n : set_leftover n (p_buffer n) (p_leftover n) = n.
Proof. destruct n; reflexivity. Qed.
Lemma donna_set_leftover_same l : donna_set_leftover l (d_buffer l) (d_leftover l) = l.
Proof. destruct l; reflexivity. Qed.

Lemma bytes_ok_app a b : bytes_ok a -> bytes_ok b -> bytes_ok (a ++ b).
Proof. intros Ha Hb. unfold bytes_ok. apply Forall_app. split; assumption. Qed.

Lemma update_tail_sim n l m : Sim n l -> d_leftover l = 0%nat -> bytes_ok m ->
  Sim (poly1305_update_tail n m) (donna_update_tail l m).
Proof.
  intros HS Hlo0 Hm. pose proof HS as (Hr & Hrok & Hh & Hhok & Hp & Hpok & Hlo & Hb & Hf & Hfl & Hbl & Hlt & Hbok).
  unfold poly1305_update_tail, donna_update_tail.
  pose proof (Nat.mod_upper_bound (length m) 16 ltac:(lia)) as Hub.
  pose proof (Nat.div_mod (length m) 16 ltac:(lia)) as Hdm.
  destruct (16 <=? length m)%nat eqn:E16.
  - (* whole blocks, then the remainder *)
    set (want := (length m / 16 * 16)%nat).
    assert (Hw : (want / 16 = length m / 16)%nat) by (unfold want; apply Nat.div_mul; lia).
    assert (Hlen : (16 * (want / 16) <= length m)%nat) by (rewrite Hw; lia).
    assert (Hl2 : length (skipn want m) = (length m mod 16)%nat) by (rewrite skipn_length; unfold want; lia).
    destruct (0 <? length (skipn want m))%nat eqn:E3.
    + cbn [p_buffer p_leftover d_buffer d_leftover poly1305_blocks donna_ctx_blocks].
      rewrite Hlo, Hb, Hlo0. cbn [Nat.add].
      apply (blocks_sim n l m want HS Hm Hlen).
      * unfold memcpy. cbn [firstn app Nat.add]. rewrite app_length, (skipn_length (length (skipn want m)) (d_buffer l)). lia.
      * lia.
      * unfold memcpy. cbn [firstn app Nat.add]. rewrite firstn_exact_app. apply bytes_ok_skipn. exact Hm.
    + pose proof (blocks_sim n l m want HS Hm Hlen (d_leftover l) (d_buffer l) Hbl Hlt Hbok) as H.
      unfold poly1305_blocks, donna_ctx_blocks, set_leftover, donna_set_leftover in *.
      cbn [p_r p_h p_pad p_leftover p_buffer p_final d_r d_h d_pad d_leftover d_buffer d_final] in *.
      rewrite Hlo, Hb. exact H.
  - apply Nat.leb_gt in E16.
    destruct (0 <? length m)%nat eqn:E3.
    + rewrite Hlo, Hb, Hlo0. cbn [Nat.add].
      apply set_leftover_sim; [exact HS | | lia |].
      * unfold memcpy. cbn [firstn app Nat.add]. rewrite app_length, (skipn_length (length m) (d_buffer l)). lia.
      * unfold memcpy. cbn [firstn app Nat.add]. rewrite firstn_exact_app. exact Hm.
    + exact HS.
Qed.

Lemma blocks_after_set_leftover n buf lo m bytes buf2 lo2 :
  set_leftover (poly1305_blocks (set_leftover n buf lo) m bytes) buf2 lo2 = set_leftover (poly1305_blocks n m bytes) buf2 lo2.
Proof. destruct n; reflexivity. Qed.
Lemma donna_blocks_after_set_leftover l buf lo m bytes buf2 lo2 :
  donna_set_leftover (donna_ctx_blocks (donna_set_leftover l buf lo) m bytes) buf2 lo2 =
  donna_set_leftover (donna_ctx_blocks l m bytes) buf2 lo2.
Proof. destruct l; reflexivity. Qed.

Lemma update_sim n l m : Sim n l -> bytes_ok m -> Sim (poly1305_update n m) (donna_update l m).
Proof.
  intros HS Hm. pose proof HS as (Hr & Hrok & Hh & Hhok & Hp & Hpok & Hlo & Hb & Hf & Hfl & Hbl & Hlt & Hbok).
  unfold poly1305_update, donna_update. rewrite Hlo, Hb.
  destruct (negb (d_leftover l =? 0)%nat) eqn:Enz.
  - apply negb_true_iff, Nat.eqb_neq in Enz.
    set (want := Nat.min (16 - d_leftover l) (length m)).
    set (buf' := memcpy (d_buffer l) (d_leftover l) (firstn want m)).
    assert (Hwl : length (firstn want m) = want) by (apply firstn_length_le; unfold want; lia).
    assert (Hbuf'len : length buf' = 16%nat).
    { unfold buf', memcpy. rewrite !app_length, skipn_length, firstn_length_le, Hwl by lia. unfold want. lia. }
    assert (Hbuf'pre : firstn (d_leftover l + want) buf' = firstn (d_leftover l) (d_buffer l) ++ firstn want m).
    { unfold buf'. rewrite <- Hwl at 1. apply memcpy_prefix'; [reflexivity | apply firstn_length_le; lia]. }
    assert (Hbuf'ok : bytes_ok (firstn (d_leftover l + want) buf')).
    { rewrite Hbuf'pre. apply bytes_ok_app; [exact Hbok | apply bytes_ok_firstn; exact Hm]. }
    destruct (d_leftover l + want <? 16)%nat eqn:Elt.
    + apply Nat.ltb_lt in Elt. apply set_leftover_sim; assumption.
    + apply Nat.ltb_ge in Elt.
      assert (Hw16 : (d_leftover l + want = 16)%nat) by (unfold want in *; lia).
      assert (Hbuf'all : bytes_ok buf') by (rewrite Hw16, firstn_all2 in Hbuf'ok by lia; exact Hbuf'ok).
      rewrite blocks_after_set_leftover, donna_blocks_after_set_leftover.
      assert (HS2 : Sim (set_leftover (poly1305_blocks n buf' 16) buf' 0) (donna_set_leftover (donna_ctx_blocks l buf' 16) buf' 0)).
      { apply (blocks_sim n l buf' 16 HS Hbuf'all); try assumption; try lia.
        - change (16 / 16)%nat with 1%nat. lia.
        - constructor. }
      apply update_tail_sim; [exact HS2 | reflexivity | apply bytes_ok_skipn; exact Hm].
  - apply negb_false_iff, Nat.eqb_eq in Enz. apply update_tail_sim; assumption.
Qed.

Lemma fold_update_sim chunks : forall n l, Sim n l -> Forall bytes_ok chunks ->
  Sim (fold_left poly1305_update chunks n) (fold_left donna_update chunks l).
Proof.
  induction chunks as [|c cs IH]; intros n l HS Hok; [exact HS|].
  inversion Hok as [|? ? Hc Hcs]; subst. cbn [fold_left]. apply IH; [apply update_sim; assumption | exact Hcs].
Qed.

Lemma init_sim ubuf key : bytes_ok key -> length key = 32%nat -> length ubuf = 16%nat ->
  Sim (poly1305_init ubuf key) (donna_init ubuf key).
Proof.
  intros Hok Hl Hu. destruct (donna_r_correct key Hok Hl) as [Hr Er]. destruct (donna_pad_correct key Hok Hl) as [Hp Ep].
  unfold Sim, poly1305_init, donna_init.
  cbn [p_r p_h p_pad p_leftover p_buffer p_final d_r d_h d_pad d_leftover d_buffer d_final firstn].
  refine (conj (eq_sym Er) (conj Hr (conj eq_refl (conj limbs_ok_zero (conj (eq_sym Ep) (conj Hp (conj eq_refl (conj eq_refl
          (conj eq_refl (conj eq_refl (conj Hu (conj _ _)))))))))))); [lia | constructor].
Qed.

Lemma finish_sim n l : Sim n l -> poly1305_finish n = donna_ctx_finish l.
Proof.
  intros (Hr & Hrok & Hh & Hhok & Hp & Hpok & Hlo & Hb & Hf & Hfl & Hbl & Hlt & Hbok).
  unfold poly1305_finish, donna_ctx_finish. rewrite Hlo, Hb, Hp.
  destruct (negb (d_leftover l =? 0)%nat) eqn:Enz.
  - apply negb_true_iff, Nat.eqb_neq in Enz.
    set (buf' := firstn (d_leftover l) (d_buffer l) ++ [1%N] ++ zeros (16 - d_leftover l - 1)).
    assert (Hok' : bytes_ok buf').
    { unfold buf'. apply bytes_ok_app; [exact Hbok|]. apply bytes_ok_app; [constructor; [reflexivity | constructor]|].
      unfold zeros, bytes_ok. apply Forall_forall. intros x Hx. apply repeat_spec in Hx. subst x. reflexivity. }
    assert (Hl' : length buf' = 16%nat).
    { unfold buf'. rewrite !app_length, firstn_length_le by lia. unfold zeros. rewrite repeat_length. cbn [length]. lia. }
    destruct (donna_block_correct (d_r l) 0 (d_h l) buf' Hrok Hhok Hok' Hl' ltac:(auto)) as [Hh' _].
    rewrite (finish_correct _ _ Hh' Hpok).
    pose proof (donna_block_is_step (d_r l) (d_h l) buf' true Hrok Hhok Hok' Hl') as Es. cbn iota in Es.
    assert (Hstep : forall r f h x, poly_block_step r f h x mod P1305 = poly_block_step r f h x)
      by (intros; unfold poly_block_step; apply Z.mod_mod; pose proof P1305_pos; lia).
    rewrite Es, <- Hr, <- Hh. rewrite Hstep. reflexivity.
  - rewrite (finish_correct _ _ Hhok Hpok). rewrite Hh. rewrite Z.mod_mod by (pose proof P1305_pos; lia). reflexivity.
Qed.

(* MAIN (limb level): Poly1305(key).Update(c1)...Update(cn).Finalize() computed with the 26-bit limb code
   equals RFC 8439's poly1305_mac, for every fragmentation *)
Theorem donna_stream_eq_spec ubuf key chunks :
  length ubuf = 16%nat -> bytes_ok key -> length key = 32%nat -> Forall bytes_ok chunks ->
  donna_stream ubuf key chunks = poly1305_spec key (concat chunks).
Proof.
  intros Hu Hkok Hkl Hcs. unfold donna_stream.
  rewrite <- (finish_sim _ _ (fold_update_sim chunks _ _ (init_sim ubuf key Hkok Hkl Hu) Hcs)).
  apply (poly1305_stream_eq_spec ubuf key chunks Hu).
Qed.
