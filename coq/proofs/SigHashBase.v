(* Injectivity toolkit for the signature-hash preimages (C10): prefix-free encoders and how they
   compose.  The serialisation facts come from proofs/SerBaseLemmas.v. *)
From Coq Require Import NArith.
From BV Require Import lib.Ints gen.Params_gen model.SerBase model.SerTx proofs.SerBaseLemmas model.SigHash model.SigHashSpec.
Local Open Scope Z_scope.

Lemma app_inj_length {A} (a a' b b' : list A) :
  length a = length a' -> a ++ b = a' ++ b' -> a = a' /\ b = b'.
Proof.
  revert a'. induction a as [|x a IH]; intros [|y a'] L E; simpl in *; try discriminate.
  - split; [reflexivity | exact E].
  - injection E as -> E. destruct (IH a' ltac:(lia) E) as [-> ->]. split; reflexivity.
Qed.

Lemma ShPre_inj a b : ShPre a = ShPre b -> a = b.
Proof. intros E. congruence. Qed.

(* an encoder is prefix-free on the values satisfying P: two encodings followed by anything are
   equal only when the values and what follows are equal *)
Definition pfree {A} (f : A -> list N) (P : A -> Prop) : Prop :=
  forall a a' r r', P a -> P a' -> f a ++ r = f a' ++ r' -> a = a' /\ r = r'.

Lemma pfree_inj {A} (f : A -> list N) P : pfree f P -> forall a a', P a -> P a' -> f a = f a' -> a = a'.
Proof.
  intros Hf a a' Ha Ha' E. apply (Hf a a' [] [] Ha Ha'). rewrite !app_nil_r. exact E.
Qed.

Lemma pfree_fixed {A} (f : A -> list N) (P : A -> Prop) (k : nat) :
  (forall a, P a -> length (f a) = k) ->
  (forall a a', P a -> P a' -> f a = f a' -> a = a') -> pfree f P.
Proof.
  intros L I a a' r r' Ha Ha' E.
  destruct (app_inj_length (f a) (f a') r r') as [E1 E2]; [rewrite !L by assumption; reflexivity | exact E |].
  split; [apply I; assumption | exact E2].
Qed.

Lemma pfree_weaken {A} (f : A -> list N) (P Q : A -> Prop) : (forall a, Q a -> P a) -> pfree f P -> pfree f Q.
Proof. intros HQ Hf a a' r r' Ha Ha'. apply Hf; apply HQ; assumption. Qed.

(* ---- fixed-width little endian ---- *)
Lemma write_le_length k v : length (write_le k v) = k.
Proof. apply le_bytes_length. Qed.

Lemma write_le_eq_mod k v v' : write_le k v = write_le k v' -> v mod 2 ^ (8 * Z.of_nat k) = v' mod 2 ^ (8 * Z.of_nat k).
Proof.
  unfold write_le, wrapu. intros E.
  assert (Hp : 0 < 2 ^ (8 * Z.of_nat k)) by (apply Z.pow_pos_nonneg; lia).
  apply (f_equal le_value) in E.
  rewrite !le_value_bytes in E by (apply Z.mod_pos_bound; exact Hp).
  rewrite !Z.mod_mod in E by lia. exact E.
Qed.

Lemma write_le4_inj_u v v' : 0 <= v <= UINT32_MAX -> 0 <= v' <= UINT32_MAX -> write_le 4 v = write_le 4 v' -> v = v'.
Proof.
  unfold UINT32_MAX. intros Hv Hv' E. apply write_le_eq_mod in E.
  change (2 ^ (8 * Z.of_nat 4)) with 4294967296 in E. rewrite !Z.mod_small in E by lia. exact E.
Qed.
Lemma write_le4_inj_s v v' : INT32_MIN <= v <= INT32_MAX -> INT32_MIN <= v' <= INT32_MAX -> write_le 4 v = write_le 4 v' -> v = v'.
Proof.
  unfold INT32_MIN, INT32_MAX. intros Hv Hv' E. apply write_le_eq_mod in E.
  change (2 ^ (8 * Z.of_nat 4)) with 4294967296 in E. lia.
Qed.
Lemma write_le8_inj_s v v' : INT64_MIN <= v <= INT64_MAX -> INT64_MIN <= v' <= INT64_MAX -> write_le 8 v = write_le 8 v' -> v = v'.
Proof.
  unfold INT64_MIN, INT64_MAX. intros Hv Hv' E. apply write_le_eq_mod in E.
  change (2 ^ (8 * Z.of_nat 8)) with 18446744073709551616 in E. lia.
Qed.
Lemma write_le1_inj_u v v' : 0 <= v < 256 -> 0 <= v' < 256 -> write_le 1 v = write_le 1 v' -> v = v'.
Proof.
  intros Hv Hv' E. apply write_le_eq_mod in E.
  change (2 ^ (8 * Z.of_nat 1)) with 256 in E. rewrite !Z.mod_small in E by lia. exact E.
Qed.

Lemma pfree_le4_u : pfree (write_le 4) (fun v => 0 <= v <= UINT32_MAX).
Proof. apply pfree_fixed with (k := 4%nat); [intros; apply write_le_length | apply write_le4_inj_u]. Qed.
Lemma pfree_le4_s : pfree (write_le 4) (fun v => INT32_MIN <= v <= INT32_MAX).
Proof. apply pfree_fixed with (k := 4%nat); [intros; apply write_le_length | apply write_le4_inj_s]. Qed.
Lemma pfree_le8_s : pfree (write_le 8) (fun v => INT64_MIN <= v <= INT64_MAX).
Proof. apply pfree_fixed with (k := 8%nat); [intros; apply write_le_length | apply write_le8_inj_s]. Qed.
Lemma pfree_le1_u : pfree (write_le 1) (fun v => 0 <= v < 256).
Proof. apply pfree_fixed with (k := 1%nat); [intros; apply write_le_length | apply write_le1_inj_u]. Qed.

(* raw byte strings of a known length (uint256 values, digests) *)
Lemma pfree_raw k : pfree (fun b : list N => b) (fun b => length b = k).
Proof. apply pfree_fixed with (k := k); auto. Qed.

(* ---- CompactSize and length-prefixed byte vectors ---- *)
Lemma pfree_compact_size : pfree write_compact_size (fun n => 0 <= n <= UINT64_MAX).
Proof.
  intros n n' r r' Hn Hn' E.
  pose proof (compact_size_roundtrip_norange n r Hn) as R1.
  pose proof (compact_size_roundtrip_norange n' r' Hn') as R2.
  rewrite E in R1. rewrite R1 in R2. injection R2 as -> ->. split; reflexivity.
Qed.

Lemma pfree_ser_bytes : pfree ser_bytes len_ok.
Proof.
  intros b b' r r' Hb Hb' E. unfold ser_bytes in E. rewrite <- !app_assoc in E.
  apply pfree_compact_size in E; [|unfold len_ok in *; lia ..].
  destruct E as [L E]. apply app_inj_length in E; [exact E | lia].
Qed.

Lemma max_size_le_u64 : MAX_SIZE <= UINT64_MAX.
Proof. rewrite max_size_value. unfold UINT64_MAX. lia. Qed.

(* ---- composition ---- *)
Lemma pfree_pair {A B} (f : A -> list N) (g : B -> list N) P Q :
  pfree f P -> pfree g Q -> pfree (fun ab : A * B => f (fst ab) ++ g (snd ab)) (fun ab => P (fst ab) /\ Q (snd ab)).
Proof.
  intros Hf Hg [a b] [a' b'] r r' [Pa Qb] [Pa' Qb'] E. cbn [fst snd] in *. rewrite <- !app_assoc in E.
  apply Hf in E; [|assumption ..]. destruct E as [-> E].
  apply Hg in E; [|assumption ..]. destruct E as [-> ->]. split; reflexivity.
Qed.

(* the same number of prefix-free items, one after the other *)
Lemma pfree_concat_n {A} (f : A -> list N) P : pfree f P ->
  forall l l' r r', length l = length l' -> Forall P l -> Forall P l' ->
  concat (map f l) ++ r = concat (map f l') ++ r' -> l = l' /\ r = r'.
Proof.
  intros Hf. induction l as [|a l IH]; intros [|a' l'] r r' L Fl Fl' E; simpl in L; try discriminate.
  - split; [reflexivity | exact E].
  - cbn [map concat] in E. rewrite <- !app_assoc in E.
    inversion Fl as [|? ? Pa Fl1]; inversion Fl' as [|? ? Pa' Fl1']; subst.
    apply Hf in E; [|assumption ..]. destruct E as [-> E].
    apply IH in E; [|lia | assumption ..]. destruct E as [-> ->]. split; reflexivity.
Qed.

(* items that are never empty: the concatenation alone determines the list (no count needed) *)
Lemma pfree_concat_inj {A} (f : A -> list N) P : pfree f P -> (forall a, P a -> f a <> []) ->
  forall l l', Forall P l -> Forall P l' -> concat (map f l) = concat (map f l') -> l = l'.
Proof.
  intros Hf Hne. induction l as [|a l IH]; intros [|a' l'] Fl Fl' E.
  - reflexivity.
  - exfalso. inversion Fl' as [|? ? Pa' _]; subst. cbn [map concat] in E.
    symmetry in E. apply app_eq_nil in E. destruct E as [E _]. exact (Hne a' Pa' E).
  - exfalso. inversion Fl as [|? ? Pa _]; subst. cbn [map concat] in E.
    apply app_eq_nil in E. destruct E as [E _]. exact (Hne a Pa E).
  - inversion Fl as [|? ? Pa Fl1]; inversion Fl' as [|? ? Pa' Fl1']; subst.
    cbn [map concat] in E. apply Hf in E; [|assumption ..]. destruct E as [-> E].
    f_equal. apply IH; assumption.
Qed.

(* count-prefixed vectors *)
Lemma pfree_counted {A} (f : A -> list N) P : pfree f P ->
  pfree (fun l : list A => write_compact_size (Z.of_nat (length l)) ++ concat (map f l)) (fun l => len_ok l /\ Forall P l).
Proof.
  intros Hf l l' r r' [Ll Fl] [Ll' Fl'] E. rewrite <- !app_assoc in E.
  apply pfree_compact_size in E; [|unfold len_ok in *; lia ..]. destruct E as [L E].
  apply (pfree_concat_n f P Hf) in E; [exact E | lia | assumption ..].
Qed.

(* ---- transaction parts ---- *)
Definition outpoint_ok (o : list N * Z) : Prop := length (fst o) = 32%nat /\ 0 <= snd o <= UINT32_MAX.
Definition ser_outpoint_v (o : list N * Z) : list N := fst o ++ write_le 4 (snd o).

Lemma ser_outpoint_eq i : ser_outpoint i = ser_outpoint_v (outpoint_of i).
Proof. reflexivity. Qed.

Lemma pfree_outpoint : pfree ser_outpoint_v outpoint_ok.
Proof. exact (pfree_pair _ _ _ _ (pfree_raw 32) pfree_le4_u). Qed.

Lemma ser_outpoint_v_length o : outpoint_ok o -> length (ser_outpoint_v o) = 36%nat.
Proof. intros [L _]. unfold ser_outpoint_v. rewrite app_length, L, write_le_length. reflexivity. Qed.

Lemma txin_wf_outpoint i : txin_wf i -> outpoint_ok (outpoint_of i).
Proof. intros (L & _ & Hn & _). split; [exact L | exact Hn]. Qed.

Definition txout_ok (o : txout) : Prop := INT64_MIN <= out_value o <= INT64_MAX /\ len_ok (out_script o).

Lemma txout_wf_ok o : txout_wf o -> txout_ok o.
Proof. intros (Hv & _ & Hl). split; [exact Hv|]. unfold len_ok. pose proof max_size_le_u64. lia. Qed.

Lemma pfree_txout : pfree ser_txout txout_ok.
Proof.
  intros [v s] [v' s'] r r' [Hv Hs] [Hv' Hs'] E. unfold ser_txout in E. cbn [out_value out_script] in *.
  rewrite <- !app_assoc in E.
  apply pfree_le8_s in E; [|assumption ..]. destruct E as [-> E].
  apply pfree_ser_bytes in E; [|assumption ..]. destruct E as [-> ->]. split; reflexivity.
Qed.

Lemma ser_bytes_nonnil b : ser_bytes b <> [].
Proof.
  unfold ser_bytes, write_compact_size. destruct (_ <? 253).
  - unfold write_le. simpl. discriminate.
  - destruct (_ <=? 65535); [discriminate|]. destruct (_ <=? UINT32_MAX); discriminate.
Qed.

Lemma ser_txout_nonnil o : ser_txout o <> [].
Proof. unfold ser_txout, write_le. simpl. discriminate. Qed.

Lemma Forall_map_iff {A B} (g : A -> B) (P : B -> Prop) l : Forall P (map g l) <-> Forall (fun a => P (g a)) l.
Proof. apply Forall_map. Qed.

(* concatenations hashed without a count *)
Lemma concat_outpoints_inj (l l' : list (list N * Z)) : Forall outpoint_ok l -> Forall outpoint_ok l' ->
  concat (map ser_outpoint_v l) = concat (map ser_outpoint_v l') -> l = l'.
Proof.
  apply pfree_concat_inj; [exact pfree_outpoint|].
  intros o Ho E. apply (f_equal (@length N)) in E. rewrite ser_outpoint_v_length in E by exact Ho. discriminate.
Qed.

Lemma concat_le4_inj (l l' : list Z) : Forall (fun v => 0 <= v <= UINT32_MAX) l -> Forall (fun v => 0 <= v <= UINT32_MAX) l' ->
  concat (map (write_le 4) l) = concat (map (write_le 4) l') -> l = l'.
Proof.
  apply pfree_concat_inj; [exact pfree_le4_u|].
  intros v _ E. apply (f_equal (@length N)) in E. rewrite write_le_length in E. discriminate.
Qed.

Lemma concat_le8_inj (l l' : list Z) : Forall (fun v => INT64_MIN <= v <= INT64_MAX) l -> Forall (fun v => INT64_MIN <= v <= INT64_MAX) l' ->
  concat (map (write_le 8) l) = concat (map (write_le 8) l') -> l = l'.
Proof.
  apply pfree_concat_inj; [exact pfree_le8_s|].
  intros v _ E. apply (f_equal (@length N)) in E. rewrite write_le_length in E. discriminate.
Qed.

Lemma concat_txouts_inj (l l' : list txout) : Forall txout_ok l -> Forall txout_ok l' ->
  concat (map ser_txout l) = concat (map ser_txout l') -> l = l'.
Proof. apply pfree_concat_inj; [exact pfree_txout | intros; apply ser_txout_nonnil]. Qed.

Lemma concat_ser_bytes_inj (l l' : list (list N)) : Forall len_ok l -> Forall len_ok l' ->
  concat (map ser_bytes l) = concat (map ser_bytes l') -> l = l'.
Proof. apply pfree_concat_inj; [exact pfree_ser_bytes | intros; apply ser_bytes_nonnil]. Qed.

(* int32 hash types: the three flags only look at the low byte, so they survive the uint32 view *)
Lemma ht_range_wrap ht : INT32_MIN <= ht <= INT32_MAX -> 0 <= wrapu32 ht <= UINT32_MAX.
Proof. intros _. unfold wrapu32, wrapu, UINT32_MAX. change (2 ^ 32) with 4294967296. pose proof (Z.mod_pos_bound ht 4294967296). lia. Qed.
