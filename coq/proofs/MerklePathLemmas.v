(* Correctness of the constant-space merkle path calculator (model/Merkle.v merkle_computation,
   transcribed from MerkleComputation): for every leaf list of length <= 2^31 and every position
   inside it, the returned path folds from the leaf to the merkle root. *)
From BV Require Import lib.Ints model.Merkle proofs.MerkleLemmas.
From Coq Require Import Arith PeanoNat NArith Nnat Znat.
Local Open Scope nat_scope.

Section PathProofs.
Variable D : Type.
Variable deq : D -> D -> bool.
Variable H : D -> D -> D.
Variable zero : D.

Local Notation level := (level_up D H).

(* ------------------------------------------------------------------ nodes of the tree by index *)
Lemma level_nth : forall l i,
  nth_error (level l) i =
  match nth_error l (2 * i) with
  | None => None
  | Some a => match nth_error l (2 * i + 1) with Some b => Some (H a b) | None => Some (H a a) end
  end.
Proof.
  induction l as [| a | a b r IH] using (list_pair_ind D); intros i.
  - destruct i; reflexivity.
  - destruct i as [|i]; [reflexivity|].
    replace (2 * S i) with (S (S (2 * i))) by lia. cbn. destruct i; reflexivity.
  - rewrite level_cons2. destruct i as [|i]; [reflexivity|].
    cbn [nth_error]. rewrite IH.
    replace (2 * S i) with (S (S (2 * i))) by lia. replace (S (S (2 * i)) + 1) with (S (S (2 * i + 1))) by lia.
    reflexivity.
Qed.

Variable l : list D.                       (* the leaves *)

(* lev j = the list at level j (level applied on the outside, unlike MerkleLemmas.levels) *)
Fixpoint lev (j : nat) : list D := match j with O => l | S j' => level (lev j') end.
Definition nd (j i : nat) : option D := nth_error (lev j) i.
Definition NN (j : nat) : nat := length (lev j).

Lemma iter_swap (f : list D -> list D) : forall n x, Nat.iter n f (f x) = f (Nat.iter n f x).
Proof. induction n as [|n IH]; intros x; [reflexivity|]. simpl. rewrite IH. reflexivity. Qed.

Lemma lev_levels : forall j l0, levels D H j l0 = Nat.iter j level l0.
Proof.
  induction j as [|j IH]; intros l0; [reflexivity|].
  cbn [levels]. rewrite IH. simpl. apply iter_swap.
Qed.
Lemma lev_iter j : lev j = Nat.iter j level l.
Proof. induction j as [|j IH]; [reflexivity|]. simpl. rewrite IH. reflexivity. Qed.

Lemma nd_S j i : nd (S j) i =
  match nd j (2 * i) with
  | None => None
  | Some a => match nd j (2 * i + 1) with Some b => Some (H a b) | None => Some (H a a) end
  end.
Proof. unfold nd. cbn [lev]. apply level_nth. Qed.

Lemma nd_None j i : nd j i = None <-> NN j <= i.
Proof. unfold nd, NN. apply nth_error_None. Qed.
Lemma nd_Some j i : i < NN j -> exists x, nd j i = Some x.
Proof. intros Hi. destruct (nd j i) eqn:E; [eauto|]. apply nd_None in E. lia. Qed.

Lemma NN_S j : NN (S j) = Nat.div2 (S (NN j)).
Proof. unfold NN. cbn [lev]. apply length_level. Qed.

Lemma NN_S_even j k : NN j = 2 * k -> NN (S j) = k.
Proof. intros E. rewrite NN_S, E, Nat.div2_div. symmetry. apply Nat.div_unique with 1; lia. Qed.
Lemma NN_S_odd j k : NN j = 2 * k + 1 -> NN (S j) = k + 1.
Proof. intros E. rewrite NN_S, E, Nat.div2_div. symmetry. apply Nat.div_unique with 0; lia. Qed.

(* NN j >= k+1  ->  more than k * 2^j leaves *)
Lemma NN_lower : forall j k, k + 1 <= NN j -> k * 2 ^ j < length l.
Proof.
  induction j as [|j IH]; intros k Hk.
  - unfold NN in Hk. cbn [lev Nat.pow] in *. lia.
  - rewrite NN_S in Hk. cbn [Nat.pow].
    assert (2 * k + 1 <= NN j).
    { rewrite Nat.div2_div in Hk. destruct (Nat.le_gt_cases (2 * k + 1) (NN j)) as [|Hlt]; [assumption|].
      exfalso. assert (S (NN j) / 2 < k + 1) by (apply Nat.div_lt_upper_bound; lia). lia. }
    specialize (IH (2 * k) H0). lia.
Qed.

(* ------------------------------------------------------------------ the path the property wants *)
Variable pos : nat.                        (* the leaf position *)

Fixpoint anc (j : nat) : nat := match j with O => pos | S j' => anc j' / 2 end.

(* the sibling of the ancestor at level j; the ancestor itself when it is the unpaired last node *)
Definition sib (j : nat) : option D :=
  let a := anc j in
  if Nat.even a then (match nd j (a + 1) with Some s => Some s | None => nd j a end)
  else nd j (a - 1).

Fixpoint spec_path (m : nat) : option (list D) :=
  match m with
  | O => Some []
  | S m' => match spec_path m', sib m' with
            | Some p, Some s => Some (p ++ [s])
            | _, _ => None
            end
  end.

Lemma spec_path_length : forall m p, spec_path m = Some p -> length p = m.
Proof.
  induction m as [|m IH]; intros p E; cbn in E.
  - inversion E. reflexivity.
  - destruct (spec_path m) as [p0|]; [|discriminate]. destruct (sib m); [|discriminate].
    inversion E. rewrite app_length. cbn. rewrite (IH p0 eq_refl). lia.
Qed.

Lemma fold_path_app : forall p h i s,
  fold_path D H h i (p ++ [s]) =
  let h' := fold_path D H h i p in
  if Z.odd (Z.shiftr i (Z.of_nat (length p))) then H s h' else H h' s.
Proof.
  induction p as [|x p IH]; intros h i s.
  - cbn [app fold_path length]. change (Z.of_nat 0) with 0%Z. rewrite Z.shiftr_0_r. reflexivity.
  - cbn [app fold_path length]. rewrite IH. cbn zeta.
    rewrite Z.shiftr_shiftr by lia. replace (1 + Z.of_nat (length p))%Z with (Z.of_nat (S (length p))) by lia.
    reflexivity.
Qed.

Lemma anc_shiftr j : Z.shiftr (Z.of_nat pos) (Z.of_nat j) = Z.of_nat (anc j).
Proof.
  induction j as [|j IH]; [apply Z.shiftr_0_r|].
  replace (Z.of_nat (S j)) with (Z.of_nat j + 1)%Z by lia.
  rewrite <- Z.shiftr_shiftr by lia. rewrite IH. cbn [anc].
  rewrite Z.shiftr_div_pow2 by lia. change (2 ^ 1)%Z with 2%Z. rewrite Nat2Z.inj_div. reflexivity.
Qed.

Lemma odd_even_nat a : Z.odd (Z.of_nat a) = negb (Nat.even a).
Proof.
  destruct (Nat.Even_or_Odd a) as [[k ->]|[k ->]].
  - rewrite Nat2Z.inj_mul, Z.odd_mul, Nat.even_mul. reflexivity.
  - rewrite Nat2Z.inj_add, Nat2Z.inj_mul, Z.add_comm, Z.odd_add_mul_2, Nat.add_comm, Nat.even_add_mul_2. reflexivity.
Qed.

(* folding the wanted path of length m from the leaf gives the ancestor at level m *)
Lemma fold_spec_path : forall m p leaf, spec_path m = Some p -> nd 0 pos = Some leaf ->
  nd m (anc m) = Some (fold_path D H leaf (Z.of_nat pos) p).
Proof.
  induction m as [|m IH]; intros p leaf E Hleaf.
  - cbn in E. inversion E. cbn. exact Hleaf.
  - cbn [spec_path] in E. destruct (spec_path m) as [p0|] eqn:E0; [|discriminate].
    destruct (sib m) as [s|] eqn:Es; [|discriminate]. inversion E; subst p. clear E.
    specialize (IH p0 leaf eq_refl Hleaf).
    rewrite fold_path_app. cbn zeta. rewrite (spec_path_length _ _ E0). rewrite anc_shiftr, odd_even_nat.
    set (x := fold_path D H leaf (Z.of_nat pos) p0) in *.
    rewrite nd_S. cbn [anc]. unfold sib in Es.
    destruct (Nat.even (anc m)) eqn:Ev; cbn [negb].
    + apply Nat.even_spec in Ev. destruct Ev as [k Ek]. rewrite Ek in *.
      replace (2 * k / 2) with k by (apply Nat.div_unique with 0; lia).
      rewrite IH. destruct (nd m (2 * k + 1)) as [b|].
      * inversion Es; subst; reflexivity.
      * rewrite IH in Es. inversion Es; subst; reflexivity.
    + rewrite <- Nat.negb_odd in Ev. apply negb_false_iff in Ev. apply Nat.odd_spec in Ev. destruct Ev as [k Ek]. rewrite Ek in *.
      replace ((2 * k + 1) / 2) with k by (apply Nat.div_unique with 1; lia).
      replace (2 * k + 1 - 1) with (2 * k) in Es by lia. rewrite Es, IH. reflexivity.
Qed.

(* ------------------------------------------------------------------ the carry loop *)
Local Notation val := Pos.to_nat.

Fixpoint odd_part (p : positive) : positive := match p with xO p' => odd_part p' | _ => p end.

(* what the carry loop reads: for every trailing zero digit of p (at level + k) the inner entry is
   the left neighbour of the node being carried *)
Fixpoint Pre_b (inner : inner_t D) (p : positive) (lv : nat) : Prop :=
  match p with
  | xO p' => (exists x, inner lv = Some x /\ nd lv (val p - 2) = Some x) /\ Pre_b inner p' (S lv)
  | _ => True
  end.

Fixpoint Match_b (p : positive) (lv m : nat) : Prop :=
  match p with
  | xO p' => (m = lv -> anc m = val p - 2) /\ Match_b p' (S lv) m
  | _ => True
  end.

Lemma level_bound p lv : (Z.pos p * 2 ^ Z.of_nat lv <= 2 ^ 31)%Z -> lv < 32.
Proof.
  intros Hb. destruct (Nat.lt_ge_cases lv 32) as [|Hge]; [assumption|exfalso].
  assert (2 ^ 32 <= 2 ^ Z.of_nat lv)%Z by (apply Z.pow_le_mono_r; lia).
  change (2 ^ 31)%Z with 2147483648%Z in Hb. change (2 ^ 32)%Z with 4294967296%Z in *.
  assert (1 <= Z.pos p)%Z by lia. nia.
Qed.

Lemma carry_xO c' lv inner ml h mh path : lv < 32 ->
  carry D H (xO c') lv inner ml h mh path =
  match inner lv with
  | None => None
  | Some il =>
    let pm := if mh then (path ++ [il], true)
              else if level_is ml lv then (path ++ [h], true) else (path, false) in
    carry D H c' (S lv) inner ml (H il h) (snd pm) (fst pm)
  end.
Proof. intros Hl. cbn [carry]. apply Nat.ltb_lt in Hl. rewrite Hl. reflexivity. Qed.

Lemma carry_exit c lv inner ml h mh path : lv < 32 -> (forall c', c <> xO c') ->
  carry D H c lv inner ml h mh path = Some (lv, h, mh, path).
Proof.
  intros Hl Hc. apply Nat.ltb_lt in Hl. destruct c as [c'|c'|]; cbn [carry]; rewrite Hl; try reflexivity.
  exfalso. eapply Hc. reflexivity.
Qed.

Lemma sib_odd lv a x : anc lv = a -> Nat.even a = false -> nd lv (a - 1) = Some x -> sib lv = Some x.
Proof. intros Ea Ev Hx. unfold sib. rewrite Ea, Ev. exact Hx. Qed.
Lemma sib_even lv a x : anc lv = a -> Nat.even a = true -> nd lv (a + 1) = Some x -> sib lv = Some x.
Proof. intros Ea Ev Hx. unfold sib. rewrite Ea, Ev, Hx. reflexivity. Qed.
Lemma sib_self lv a x : anc lv = a -> Nat.even a = true -> nd lv (a + 1) = None -> nd lv a = Some x -> sib lv = Some x.
Proof. intros Ea Ev Hn Hx. unfold sib. rewrite Ea, Ev, Hn. exact Hx. Qed.

Lemma spec_path_snoc lv path s : spec_path lv = Some path -> sib lv = Some s -> spec_path (S lv) = Some (path ++ [s]).
Proof. intros E Es. cbn [spec_path]. rewrite E, Es. reflexivity. Qed.

Lemma even_2k k : Nat.even (2 * k) = true.
Proof. rewrite Nat.even_mul. reflexivity. Qed.
Lemma even_2k1 k : Nat.even (2 * k + 1) = false.
Proof. rewrite Nat.add_comm, Nat.even_add_mul_2. reflexivity. Qed.

Lemma carry_spec : forall p lv inner ml h mh path,
  (Z.pos p * 2 ^ Z.of_nat lv <= 2 ^ 31)%Z ->
  nd lv (val p - 1) = Some h ->
  Pre_b inner p lv ->
  (mh = true -> anc lv = val p - 1 /\ spec_path lv = Some path) ->
  (mh = false -> forall m, ml = Some m -> lv <= m /\ spec_path m = Some path /\ Match_b p lv m) ->
  exists h' mh' path',
    carry D H p lv inner ml h mh path = Some (lv + trailing_zeros p, h', mh', path') /\
    nd (lv + trailing_zeros p) (val (odd_part p) - 1) = Some h' /\
    (mh' = true -> anc (lv + trailing_zeros p) = val (odd_part p) - 1 /\ spec_path (lv + trailing_zeros p) = Some path') /\
    (mh' = false -> mh = false /\ path' = path /\ forall m, ml = Some m -> lv + trailing_zeros p <= m) /\
    (mh' = true -> mh = true \/ exists m, ml = Some m).
Proof.
  assert (Hexit : forall p lv inner ml h mh path, (forall c', p <> xO c') -> trailing_zeros p = 0 -> odd_part p = p ->
    (Z.pos p * 2 ^ Z.of_nat lv <= 2 ^ 31)%Z ->
    nd lv (val p - 1) = Some h ->
    (mh = true -> anc lv = val p - 1 /\ spec_path lv = Some path) ->
    (mh = false -> forall m, ml = Some m -> lv <= m /\ spec_path m = Some path /\ Match_b p lv m) ->
    exists h' mh' path',
      carry D H p lv inner ml h mh path = Some (lv + trailing_zeros p, h', mh', path') /\
      nd (lv + trailing_zeros p) (val (odd_part p) - 1) = Some h' /\
      (mh' = true -> anc (lv + trailing_zeros p) = val (odd_part p) - 1 /\ spec_path (lv + trailing_zeros p) = Some path') /\
      (mh' = false -> mh = false /\ path' = path /\ forall m, ml = Some m -> lv + trailing_zeros p <= m) /\
      (mh' = true -> mh = true \/ exists m, ml = Some m)).
  { intros p lv inner ml h mh path Hno Htz Hop Hb Hh Hm1 Hm0.
    rewrite Htz, Hop, Nat.add_0_r. exists h, mh, path. split; [|split; [exact Hh|split; [|split]]].
    - apply carry_exit; [eapply level_bound; eassumption | exact Hno].
    - exact Hm1.
    - intros E. split; [exact E|split; [reflexivity|]]. intros m Em. destruct (Hm0 E m Em) as (Hle & _). exact Hle.
    - intros E; left; exact E. }
  induction p as [p' IH | p' IH | ]; intros lv inner ml h mh path Hb Hh Hpre Hm1 Hm0.
  - apply Hexit; auto; intros c'; discriminate.
  - (* one more trailing zero *)
    assert (Hlv : lv < 32) by (eapply level_bound; eassumption).
    destruct Hpre as [(il & Hil & Hnd) Hpre'].
    assert (Hval : val (xO p') = 2 * val p') by apply Pos2Nat.inj_xO.
    pose proof (Pos2Nat.is_pos p') as Hpos.
    rewrite Hval in *.
    assert (Hb' : (Z.pos p' * 2 ^ Z.of_nat (S lv) <= 2 ^ 31)%Z).
    { rewrite Nat2Z.inj_succ, Z.pow_succ_r by lia. rewrite Pos2Z.inj_xO in Hb. lia. }
    assert (Hh' : nd (S lv) (val p' - 1) = Some (H il h)).
    { rewrite nd_S. replace (2 * (val p' - 1)) with (2 * val p' - 2) by lia.
      replace (2 * val p' - 2 + 1) with (2 * val p' - 1) by lia. rewrite Hnd, Hh. reflexivity. }
    rewrite carry_xO by assumption. rewrite Hil. cbn zeta.
    cbn [trailing_zeros odd_part]. rewrite Nat.add_succ_r.
    change (S (lv + trailing_zeros p')) with (S lv + trailing_zeros p').
    destruct mh.
    + (* already on the path: push inner[level] *)
      destruct (Hm1 eq_refl) as [Ea Esp]. cbn [fst snd].
      destruct (IH (S lv) inner ml (H il h) true (path ++ [il]) Hb' Hh' Hpre') as (h' & mh' & path' & Ec & Hn' & P1 & P0 & P2).
      * intros _. split.
        -- cbn [anc]. rewrite Ea. symmetry. apply Nat.div_unique with 1; lia.
        -- apply spec_path_snoc; [exact Esp|]. apply (sib_odd lv (2 * val p' - 1)); [exact Ea | | ].
           ++ replace (2 * val p' - 1) with (2 * (val p' - 1) + 1) by lia. apply even_2k1.
           ++ replace (2 * val p' - 1 - 1) with (2 * val p' - 2) by lia. exact Hnd.
      * intros E; discriminate.
      * exists h', mh', path'. split; [exact Ec|split; [exact Hn'|split; [exact P1|split]]].
        -- intros E. destruct (P0 E) as [E' _]. discriminate.
        -- intros _; left; reflexivity.
    + clear Hm1.
      destruct (level_is ml lv) eqn:Eli; cbn [fst snd].
      * (* the match sits in inner[level]: push h *)
        assert (Eml : ml = Some lv).
        { unfold level_is in Eli. destruct ml as [m|]; [|discriminate]. apply Nat.eqb_eq in Eli. subst; reflexivity. }
        destruct (Hm0 eq_refl lv Eml) as (_ & Esp & Hmb). cbn [Match_b] in Hmb. destruct Hmb as [Ha _].
        specialize (Ha eq_refl). rewrite Hval in Ha.
        destruct (IH (S lv) inner ml (H il h) true (path ++ [h]) Hb' Hh' Hpre') as (h' & mh' & path' & Ec & Hn' & P1 & P0 & P2).
        -- intros _. split.
           ++ cbn [anc]. rewrite Ha. symmetry. apply Nat.div_unique with 0; lia.
           ++ apply spec_path_snoc; [exact Esp|]. apply (sib_even lv (2 * val p' - 2)); [exact Ha | | ].
              ** replace (2 * val p' - 2) with (2 * (val p' - 1)) by lia. apply even_2k.
              ** replace (2 * val p' - 2 + 1) with (2 * val p' - 1) by lia. exact Hh.
        -- intros E; discriminate.
        -- exists h', mh', path'. split; [exact Ec|split; [exact Hn'|split; [exact P1|split]]].
           ++ intros E. destruct (P0 E) as [E' _]. discriminate.
           ++ intros _; right; eauto.
      * destruct (IH (S lv) inner ml (H il h) false path Hb' Hh' Hpre') as (h' & mh' & path' & Ec & Hn' & P1 & P0 & P2).
        -- intros E; discriminate.
        -- intros _ m Em. destruct (Hm0 eq_refl m Em) as (Hle & Esp & Hmb). cbn [Match_b] in Hmb. destruct Hmb as [_ Hmb].
           assert (m <> lv).
           { intros ->. unfold level_is in Eli. rewrite Em, Nat.eqb_refl in Eli. discriminate. }
           split; [lia|split; assumption].
        -- exists h', mh', path'. split; [exact Ec|split; [exact Hn'|split; [exact P1|split; [exact P0|]]]].
           intros E. destruct (P2 E) as [E'|E']; [discriminate|right; exact E'].
  - apply Hexit; auto; intros c'; discriminate.
Qed.

(* ------------------------------------------------------------------ phase 1: invariants on the binary digits of count *)
(* inner[lv + k] holds the last complete node of level lv + k for every 1 digit of c *)
Fixpoint Inv1 (inner : inner_t D) (c : positive) (lv : nat) : Prop :=
  match c with
  | xH => exists x, inner lv = Some x /\ nd lv 0 = Some x
  | xO c' => Inv1 inner c' (S lv)
  | xI c' => (exists x, inner lv = Some x /\ nd lv (2 * val c') = Some x) /\ Inv1 inner c' (S lv)
  end.

(* the leaf position lies under the inner entry of level m *)
Fixpoint MatchAt (c : positive) (lv m : nat) : Prop :=
  match c with
  | xH => m = lv /\ anc m = 0
  | xO c' => MatchAt c' (S lv) m
  | xI c' => (m = lv /\ anc m = 2 * val c') \/ MatchAt c' (S lv) m
  end.

Fixpoint Inv1tail (inner : inner_t D) (p : positive) (lv : nat) : Prop :=
  match p with
  | xO p' => Inv1tail inner p' (S lv)
  | xI p' => Inv1 inner p' (S lv)
  | xH => True
  end.

Lemma Inv1_Pre_b inner : forall c lv, Inv1 inner c lv -> Pre_b inner (Pos.succ c) lv.
Proof.
  induction c as [c' IH | c' IH | ]; intros lv HI; cbn [Pos.succ Pre_b Inv1] in *.
  - destruct HI as [(x & Hx & Hn) HI']. split; [|apply IH; exact HI'].
    exists x. split; [exact Hx|]. rewrite Pos2Nat.inj_xO, Pos2Nat.inj_succ.
    replace (2 * S (val c') - 2) with (2 * val c') by lia. exact Hn.
  - exact I.
  - destruct HI as (x & Hx & Hn). split; [|exact I]. exists x. split; [exact Hx|].
    change (val 2 - 2) with 0. exact Hn.
Qed.

Lemma MatchAt_Match_b : forall c lv m, MatchAt c lv m -> lv <= m /\ Match_b (Pos.succ c) lv m.
Proof.
  induction c as [c' IH | c' IH | ]; intros lv m HM; cbn [Pos.succ Match_b MatchAt] in *.
  - destruct HM as [[-> Ha] | HM].
    + split; [lia|]. split.
      * intros _. rewrite Pos2Nat.inj_xO, Pos2Nat.inj_succ. lia.
      * (* Match_b above lv is vacuous for m = lv: prove by a general fact *)
        assert (G : forall p k, lv < k -> Match_b p k lv).
        { induction p as [p' IHp | p' IHp | ]; intros k Hk; cbn [Match_b]; auto. split; [lia | apply IHp; lia]. }
        apply G. lia.
    + destruct (IH _ _ HM) as [Hle Hb]. split; [lia|]. split; [lia | exact Hb].
  - destruct (IH _ _ HM) as [Hle _]. split; [lia | exact I].
  - destruct HM as [-> Ha]. split; [lia|]. split; [|exact I]. intros _. change (val 2 - 2) with 0. exact Ha.
Qed.

Lemma Inv1_ext inner inner' : forall c lv, (forall j, lv <= j -> inner' j = inner j) -> Inv1 inner c lv -> Inv1 inner' c lv.
Proof.
  induction c as [c' IH | c' IH | ]; intros lv Hext HI; cbn [Inv1] in *.
  - destruct HI as [(x & Hx & Hn) HI']. split.
    + exists x. rewrite Hext by lia. auto.
    + apply IH; [intros j Hj; apply Hext; lia | exact HI'].
  - apply IH; [intros j Hj; apply Hext; lia | exact HI].
  - destruct HI as (x & Hx & Hn). exists x. rewrite Hext by lia. auto.
Qed.

Lemma inner_set_same (inner : inner_t D) lv h : inner_set D inner lv h lv = Some h.
Proof. unfold inner_set. rewrite Nat.eqb_refl. reflexivity. Qed.
Lemma inner_set_other (inner : inner_t D) lv h j : j <> lv -> inner_set D inner lv h j = inner j.
Proof. intros Hn. unfold inner_set. apply Nat.eqb_neq in Hn. rewrite Hn. reflexivity. Qed.

Lemma Inv1_succ inner : forall c lv h',
  Inv1 inner c lv ->
  nd (lv + trailing_zeros (Pos.succ c)) (val (odd_part (Pos.succ c)) - 1) = Some h' ->
  Inv1 (inner_set D inner (lv + trailing_zeros (Pos.succ c)) h') (Pos.succ c) lv.
Proof.
  induction c as [c' IH | c' IH | ]; intros lv h' HI Hn; cbn [Pos.succ trailing_zeros odd_part Inv1] in *.
  - destruct HI as [_ HI']. rewrite Nat.add_succ_r in *. apply (IH (S lv)); assumption.
  - rewrite Nat.add_0_r in *. split.
    + exists h'. rewrite inner_set_same. split; [reflexivity|].
      rewrite Pos2Nat.inj_xI in Hn. replace (S (2 * val c') - 1) with (2 * val c') in Hn by lia. exact Hn.
    + eapply Inv1_ext; [|exact HI]. intros j Hj. apply inner_set_other. lia.
  - exists h'. replace (lv + 1) with (S lv) in * by lia. rewrite inner_set_same. split; [reflexivity|].
    change (val 1 - 1) with 0 in Hn. exact Hn.
Qed.

Lemma MatchAt_succ : forall c lv m, MatchAt c lv m -> lv + trailing_zeros (Pos.succ c) <= m -> MatchAt (Pos.succ c) lv m.
Proof.
  induction c as [c' IH | c' IH | ]; intros lv m HM Hle; cbn [Pos.succ trailing_zeros MatchAt] in *.
  - destruct HM as [[-> _] | HM]; [lia|]. apply IH; [exact HM | lia].
  - right. exact HM.
  - destruct HM as [-> _]. lia.
Qed.

Lemma MatchAt_top : forall p lv, anc (lv + trailing_zeros p) = val (odd_part p) - 1 -> MatchAt p lv (lv + trailing_zeros p).
Proof.
  induction p as [p' IH | p' IH | ]; intros lv Ha; cbn [trailing_zeros odd_part MatchAt] in *.
  - rewrite Nat.add_0_r in *. left. split; [reflexivity|]. rewrite Ha, Pos2Nat.inj_xI. lia.
  - rewrite Nat.add_succ_r in *. apply (IH (S lv)). exact Ha.
  - rewrite Nat.add_0_r in *. split; [reflexivity|]. rewrite Ha. reflexivity.
Qed.

Definition Inv1N (inner : inner_t D) (c : N) : Prop := match c with N0 => True | Npos p => Inv1 inner p 0 end.
Definition MatchAtN (c : N) (m : nat) : Prop := match c with N0 => False | Npos p => MatchAt p 0 m end.

(* invariant of the first loop after c leaves *)
Definition PInv (c : N) (inner : inner_t D) (ml : option nat) (path : list D) : Prop :=
  Inv1N inner c /\
  (pos < N.to_nat c -> exists m, ml = Some m /\ spec_path m = Some path /\ MatchAtN c m) /\
  (N.to_nat c <= pos -> ml = None /\ path = []).

Lemma succ_pos_val c : val (N.succ_pos c) = S (N.to_nat c).
Proof. destruct c as [|p]; [reflexivity|]. cbn. apply Pos2Nat.inj_succ. Qed.

Lemma phase1_step c inner ml path h :
  (Z.of_N c + 1 <= 2 ^ 31)%Z -> nd 0 (N.to_nat c) = Some h -> PInv c inner ml path ->
  exists lv' h' mh' path',
    carry D H (N.succ_pos c) 0 inner ml h (Z.of_N c =? Z.of_nat pos)%Z path = Some (lv', h', mh', path') /\
    PInv (Npos (N.succ_pos c)) (inner_set D inner lv' h') (if mh' then Some lv' else ml) path'.
Proof.
  intros Hb Hh (HI & Hlt & Hge).
  set (P := N.succ_pos c). pose proof (succ_pos_val c) as HvP. fold P in HvP.
  set (mh := (Z.of_N c =? Z.of_nat pos)%Z).
  assert (Hmh : mh = true <-> N.to_nat c = pos).
  { unfold mh. rewrite Z.eqb_eq. rewrite <- (N2Nat.id c) at 1. rewrite nat_N_Z. lia. }
  destruct (carry_spec P 0 inner ml h mh path) as (h' & mh' & path' & Ec & Hn' & P1 & P0 & P2).
  - replace (Z.pos P) with (Z.of_N c + 1)%Z; [change (2 ^ Z.of_nat 0)%Z with 1%Z; lia|].
    unfold P. destruct c; [reflexivity|]. cbn. lia.
  - rewrite HvP. replace (S (N.to_nat c) - 1) with (N.to_nat c) by lia. exact Hh.
  - unfold P. destruct c as [|p]; [exact I|]. cbn. apply Inv1_Pre_b. exact HI.
  - intros E. apply Hmh in E. cbn [anc]. split; [lia|]. destruct (Hge ltac:(lia)) as [_ ->]. reflexivity.
  - intros E m Em. destruct (Nat.lt_ge_cases pos (N.to_nat c)) as [Hp|Hp].
    + destruct (Hlt Hp) as (m' & Em' & Esp & HM). rewrite Em in Em'. inversion Em'; subst m'.
      destruct c as [|p]; [destruct HM|]. cbn in HM. destruct (MatchAt_Match_b _ _ _ HM) as [Hle Hmb].
      split; [lia|split; [exact Esp|exact Hmb]].
    + destruct (Hge Hp) as [En _]. congruence.
  - cbn [plus] in *. exists (trailing_zeros P), h', mh', path'. split; [exact Ec|].
    split; [|split].
    + (* Inv1 for the new count *)
      cbn [Inv1N]. unfold P in *. destruct c as [|p].
      * cbn [N.succ_pos trailing_zeros odd_part plus Inv1] in *. change (val 1 - 1) with 0 in Hn'. exists h'. rewrite inner_set_same. auto.
      * cbn [N.succ_pos] in *. apply (Inv1_succ inner p 0 h'); [exact HI | exact Hn'].
    + intros Hp. cbn [N.to_nat] in Hp. rewrite HvP in Hp.
      destruct mh' eqn:Emh'.
      * destruct (P1 eq_refl) as [Ea Esp]. exists (trailing_zeros P). split; [reflexivity|split; [exact Esp|]].
        cbn [MatchAtN]. apply (MatchAt_top P 0). exact Ea.
      * destruct (P0 eq_refl) as (Emh & -> & Hle).
        assert (pos <> N.to_nat c) by (intros E; symmetry in E; apply Hmh in E; congruence).
        destruct (Hlt ltac:(lia)) as (m & Em & Esp & HM). exists m. split; [exact Em|split; [exact Esp|]].
        cbn [MatchAtN]. unfold P. destruct c as [|p]; [destruct HM|]. cbn [N.succ_pos MatchAtN] in *.
        apply MatchAt_succ; [exact HM|]. apply (Hle m Em).
    + intros Hp. cbn [N.to_nat] in Hp. rewrite HvP in Hp.
      destruct mh' eqn:Emh'.
      * exfalso. destruct (P2 eq_refl) as [E|(m & Em)].
        -- apply Hmh in E. lia.
        -- destruct (Hge ltac:(lia)) as [En _]. congruence.
      * destruct (P0 eq_refl) as (_ & -> & _). apply Hge. lia.
Qed.

Lemma wrapu32_small x : (0 <= x <= 2 ^ 31)%Z -> wrapu32 x = x.
Proof. intros Hx. apply wrapu32_id. unfold UINT32_MAX. change (2 ^ 31)%Z with 2147483648%Z in Hx. lia. Qed.

Lemma shifted_pos p k : shifted (Z.pos p * 2 ^ Z.of_nat k) k = Some p.
Proof.
  unfold shifted. rewrite Z.shiftr_div_pow2 by lia. rewrite Z.div_mul; [reflexivity|].
  apply Z.pow_nonzero; lia.
Qed.

Lemma succ_pos_Z c : Z.pos (N.succ_pos c) = (Z.of_N c + 1)%Z.
Proof. destruct c; [reflexivity|]. cbn. lia. Qed.

Lemma shifted_succ c : shifted (Z.of_N c + 1) 0 = Some (N.succ_pos c).
Proof.
  rewrite <- succ_pos_Z. replace (Z.pos (N.succ_pos c)) with (Z.pos (N.succ_pos c) * 2 ^ Z.of_nat 0)%Z.
  - apply shifted_pos.
  - change (2 ^ Z.of_nat 0)%Z with 1%Z. lia.
Qed.

Lemma phase1_spec : forall rest done cnt inner ml path,
  l = done ++ rest -> (Z.of_nat (length l) <= 2 ^ 31)%Z ->
  cnt = Z.of_nat (length done) ->
  PInv (N.of_nat (length done)) inner ml path ->
  exists inner' ml' path',
    path_phase1 D H rest cnt (Z.of_nat pos) inner ml path = Some (Z.of_nat (length l), inner', ml', path') /\
    PInv (N.of_nat (length l)) inner' ml' path'.
Proof.
  induction rest as [|h rest IH]; intros done cnt inner ml path El Hb Ecnt HP.
  - rewrite app_nil_r in El. assert (Hl : length l = length done) by (rewrite El; reflexivity).
    rewrite Hl, Ecnt. exists inner, ml, path. split; [reflexivity | exact HP].
  - set (c := N.of_nat (length done)) in *.
    assert (Ec : cnt = Z.of_N c) by (unfold c; rewrite nat_N_Z; exact Ecnt).
    assert (Hlen : length l = length done + S (length rest)) by (rewrite El, app_length; reflexivity).
    assert (Hc1 : (Z.of_N c + 1 <= 2 ^ 31)%Z) by (unfold c; rewrite nat_N_Z; lia).
    assert (Hnd : nd 0 (N.to_nat c) = Some h).
    { unfold nd, c. cbn [lev]. rewrite Nat2N.id, El, nth_error_app2 by lia. rewrite Nat.sub_diag. reflexivity. }
    destruct (phase1_step c inner ml path h Hc1 Hnd HP) as (lv' & h' & mh' & path' & Ecar & HP').
    cbn [path_phase1]. rewrite Ec. rewrite wrapu32_small by lia.
    rewrite shifted_succ. rewrite Ecar.
    apply (IH (done ++ [h])).
    + rewrite <- app_assoc. exact El.
    + exact Hb.
    + rewrite app_length. cbn [length]. unfold c. rewrite nat_N_Z. lia.
    + replace (N.of_nat (length (done ++ [h]))) with (N.pos (N.succ_pos c)); [exact HP'|].
      rewrite N.succ_pos_spec. unfold c. rewrite app_length. cbn [length]. lia.
Qed.

(* ------------------------------------------------------------------ phase 2: the sweep *)
Fixpoint MatchTail (p : positive) (lv m : nat) : Prop :=
  match p with
  | xO p' => MatchTail p' (S lv) m
  | xI p' => MatchAt p' (S lv) m
  | xH => False
  end.

Lemma Inv1_strip inner : forall p lv, Inv1 inner p lv ->
  (exists x, inner (lv + trailing_zeros p) = Some x /\ nd (lv + trailing_zeros p) (val (odd_part p) - 1) = Some x) /\
  Inv1tail inner (odd_part p) (lv + trailing_zeros p).
Proof.
  induction p as [p' IH | p' IH | ]; intros lv HI; cbn [trailing_zeros odd_part Inv1 Inv1tail] in *.
  - rewrite Nat.add_0_r. destruct HI as [(x & Hx & Hn) HI']. split; [|exact HI'].
    exists x. split; [exact Hx|]. rewrite Pos2Nat.inj_xI. replace (S (2 * val p') - 1) with (2 * val p') by lia. exact Hn.
  - rewrite Nat.add_succ_r. apply (IH (S lv)). exact HI.
  - rewrite Nat.add_0_r. split; [|exact I]. exact HI.
Qed.

Lemma MatchAt_strip : forall p lv m, MatchAt p lv m ->
  (m = lv + trailing_zeros p /\ anc m = val (odd_part p) - 1) \/ MatchTail (odd_part p) (lv + trailing_zeros p) m.
Proof.
  induction p as [p' IH | p' IH | ]; intros lv m HM; cbn [trailing_zeros odd_part MatchAt MatchTail] in *.
  - rewrite Nat.add_0_r. destruct HM as [[-> Ha]|HM]; [left|right; exact HM].
    split; [reflexivity|]. rewrite Ha, Pos2Nat.inj_xI. lia.
  - rewrite Nat.add_succ_r. apply (IH (S lv)). exact HM.
  - rewrite Nat.add_0_r. left. destruct HM as [-> Ha]. split; [reflexivity|]. rewrite Ha. reflexivity.
Qed.

Lemma Inv1tail_strip inner : forall p lv, Inv1tail inner p lv -> Inv1tail inner (odd_part p) (lv + trailing_zeros p).
Proof.
  induction p as [p' IH | p' IH | ]; intros lv HI; cbn [trailing_zeros odd_part Inv1tail] in *.
  - rewrite Nat.add_0_r. exact HI.
  - rewrite Nat.add_succ_r. apply (IH (S lv)). exact HI.
  - exact I.
Qed.

Lemma MatchTail_strip : forall p lv m, MatchTail p lv m -> MatchTail (odd_part p) (lv + trailing_zeros p) m.
Proof.
  induction p as [p' IH | p' IH | ]; intros lv m HI; cbn [trailing_zeros odd_part MatchTail] in *.
  - rewrite Nat.add_0_r. exact HI.
  - rewrite Nat.add_succ_r. apply (IH (S lv)). exact HI.
  - destruct HI.
Qed.

Lemma Inv1_tail_succ inner : forall c lv, Inv1 inner c lv -> Inv1tail inner (Pos.succ c) lv.
Proof.
  induction c as [c' IH | c' IH | ]; intros lv HI; cbn [Pos.succ Inv1 Inv1tail] in *.
  - destruct HI as [_ HI']. apply IH. exact HI'.
  - exact HI.
  - exact I.
Qed.

Lemma MatchAt_tail_succ : forall c lv m, MatchAt c lv m -> lv + trailing_zeros (Pos.succ c) <= m -> MatchTail (Pos.succ c) lv m.
Proof.
  induction c as [c' IH | c' IH | ]; intros lv m HM Hle; cbn [Pos.succ trailing_zeros MatchAt MatchTail] in *.
  - destruct HM as [[-> _]|HM]; [lia|]. apply IH; [exact HM | lia].
  - exact HM.
  - destruct HM as [-> _]. lia.
Qed.

Lemma odd_part_odd p : odd_part p = xH \/ exists q', odd_part p = xI q'.
Proof. induction p as [p' IH | p' IH | ]; cbn [odd_part]; eauto. Qed.

(* number of nodes while the counts are even *)
Lemma NN_strip : forall p lv, NN lv = val p -> NN (lv + trailing_zeros p) = val (odd_part p).
Proof.
  induction p as [p' IH | p' IH | ]; intros lv E; cbn [trailing_zeros odd_part].
  - rewrite Nat.add_0_r. exact E.
  - rewrite Nat.add_succ_r. apply (IH (S lv)). apply NN_S_even. rewrite E. apply Pos2Nat.inj_xO.
  - rewrite Nat.add_0_r. exact E.
Qed.

(* minimality of the level: every level below has at least two nodes *)
Definition MinLv (lv : nat) : Prop := forall j, j < lv -> 2 <= NN j.

Lemma MinLv_strip : forall p lv, NN lv = val p -> MinLv lv -> MinLv (lv + trailing_zeros p).
Proof.
  induction p as [p' IH | p' IH | ]; intros lv E HM; cbn [trailing_zeros].
  - rewrite Nat.add_0_r. exact HM.
  - rewrite Nat.add_succ_r. apply (IH (S lv)).
    + apply NN_S_even. rewrite E. apply Pos2Nat.inj_xO.
    + intros j Hj. destruct (Nat.eq_dec j lv) as [->|]; [|apply HM; lia].
      rewrite E, Pos2Nat.inj_xO. pose proof (Pos2Nat.is_pos p'). lia.
  - rewrite Nat.add_0_r. exact HM.
Qed.

Lemma NN_lower_Z j k : k + 1 <= NN j -> (Z.of_nat k * 2 ^ Z.of_nat j < Z.of_nat (length l))%Z.
Proof.
  intros Hk. pose proof (NN_lower j k Hk) as Hlt. apply Nat2Z.inj_lt in Hlt.
  rewrite Nat2Z.inj_mul, Nat2Z.inj_pow in Hlt. exact Hlt.
Qed.

Lemma MinLv_le31 lv : (Z.of_nat (length l) <= 2 ^ 31)%Z -> MinLv lv -> lv <= 31.
Proof.
  intros Hb HM. destruct lv as [|j]; [lia|].
  assert (H2 : 1 + 1 <= NN j) by (apply HM; lia).
  pose proof (NN_lower_Z j 1 H2) as Hlt.
  destruct (Nat.le_gt_cases (S j) 31) as [|Hgt]; [assumption|exfalso].
  assert (2 ^ 31 <= 2 ^ Z.of_nat j)%Z by (apply Z.pow_le_mono_r; lia). lia.
Qed.

(* ceil(n / 2^lv) * 2^lv <= 2^31 when n <= 2^31 *)
Lemma NN_bound lv : (Z.of_nat (length l) <= 2 ^ 31)%Z -> lv <= 31 -> 1 <= NN lv ->
  (Z.of_nat (NN lv) * 2 ^ Z.of_nat lv <= 2 ^ 31)%Z.
Proof.
  intros Hb Hlv Hpos.
  assert (Hlt : (Z.of_nat (NN lv - 1) * 2 ^ Z.of_nat lv < Z.of_nat (length l))%Z) by (apply NN_lower_Z; lia).
  assert (E31 : (2 ^ 31 = 2 ^ (31 - Z.of_nat lv) * 2 ^ Z.of_nat lv)%Z).
  { rewrite <- Z.pow_add_r by lia. f_equal. lia. }
  set (a := Z.of_nat (NN lv)) in *. set (b := (2 ^ (31 - Z.of_nat lv))%Z) in *. set (w := (2 ^ Z.of_nat lv)%Z) in *.
  assert (Hw : (0 < w)%Z) by (apply Z.pow_pos_nonneg; lia).
  replace (Z.of_nat (NN lv - 1)) with (a - 1)%Z in Hlt by (unfold a; lia).
  rewrite E31 in *. assert ((a - 1) * w < b * w)%Z by lia.
  assert (a - 1 < b)%Z by (apply Z.mul_lt_mono_pos_r with w; assumption).
  apply Z.mul_le_mono_nonneg_r; lia.
Qed.

Lemma NN_pos lv : l <> [] -> 1 <= NN lv.
Proof.
  intros Hne. induction lv as [|lv IH].
  - unfold NN. cbn [lev]. destruct l; [congruence | cbn; lia].
  - unfold NN in *. cbn [lev]. destruct (lev lv) as [|a [|b r]]; cbn in *; lia.
Qed.

Lemma odd_part_Z : forall p lv,
  (Z.pos p * 2 ^ Z.of_nat lv = Z.pos (odd_part p) * 2 ^ Z.of_nat (lv + trailing_zeros p))%Z.
Proof.
  induction p as [p' IH | p' IH | ]; intros lv; cbn [trailing_zeros odd_part].
  - rewrite Nat.add_0_r. reflexivity.
  - rewrite Nat.add_succ_r. change (S (lv + trailing_zeros p')) with (S lv + trailing_zeros p').
    rewrite <- (IH (S lv)). rewrite Nat2Z.inj_succ, Z.pow_succ_r by lia.
    rewrite Pos2Z.inj_xO. lia.
  - rewrite Nat.add_0_r. reflexivity.
Qed.

Lemma path_sweep_unfold fuel cnt lv inner ml h mh path :
  path_sweep D H fuel cnt lv inner ml h mh path =
  if negb (Nat.ltb lv 32) then None else
  if (cnt =? 2 ^ Z.of_nat lv)%Z then Some (h, path) else
  match fuel with
  | O => None
  | S f =>
    let path1 := if mh then path ++ [h] else path in
    let h1 := H h h in
    let count1 := wrapu32 (cnt + 2 ^ Z.of_nat lv) in
    let level1 := S lv in
    match shifted count1 level1 with
    | None => None
    | Some c =>
      match carry D H c level1 inner ml h1 mh path1 with
      | None => None
      | Some (level2, h2, matchh2, path2) => path_sweep D H f count1 level2 inner ml h2 matchh2 path2
      end
    end
  end.
Proof. destruct fuel; reflexivity. Qed.

Lemma sweep_spec inner ml : (Z.of_nat (length l) <= 2 ^ 31)%Z -> l <> [] ->
  forall fuel q lv h mh path,
  32 <= fuel + lv ->
  (q = xH \/ exists q', q = xI q') ->
  NN lv = val q -> MinLv lv ->
  nd lv (val q - 1) = Some h ->
  Inv1tail inner q lv ->
  (mh = true -> anc lv = val q - 1 /\ spec_path lv = Some path) ->
  (mh = false -> exists m, ml = Some m /\ spec_path m = Some path /\ MatchTail q lv m) ->
  exists top path' lvf,
    path_sweep D H fuel (Z.pos q * 2 ^ Z.of_nat lv) lv inner ml h mh path = Some (top, path') /\
    NN lvf = 1 /\ MinLv lvf /\ nd lvf 0 = Some top /\ anc lvf = 0 /\ spec_path lvf = Some path'.
Proof.
  intros Hb Hne. induction fuel as [|f IH]; intros q lv h mh path Hfuel Hodd HNN HMin Hh HIt Hm1 Hm0.
  - exfalso. pose proof (MinLv_le31 lv Hb HMin). lia.
  - pose proof (MinLv_le31 lv Hb HMin) as Hlv.
    rewrite path_sweep_unfold.
    assert (Hlt : Nat.ltb lv 32 = true) by (apply Nat.ltb_lt; lia). rewrite Hlt. cbn [negb].
    assert (Hw : (0 < 2 ^ Z.of_nat lv)%Z) by (apply Z.pow_pos_nonneg; lia).
    destruct Hodd as [-> | (q' & ->)].
    + (* done *)
      replace (1 * 2 ^ Z.of_nat lv)%Z with (2 ^ Z.of_nat lv)%Z by lia. rewrite Z.eqb_refl.
      change (val 1) with 1 in *. change (1 - 1) with 0 in *.
      destruct mh.
      * destruct (Hm1 eq_refl) as [Ea Esp]. exists h, path, lv. auto 10.
      * destruct (Hm0 eq_refl) as (m & _ & _ & []).
    + assert (Hneq : (Z.pos q'~1 * 2 ^ Z.of_nat lv =? 2 ^ Z.of_nat lv)%Z = false).
      { apply Z.eqb_neq. rewrite Pos2Z.inj_xI. nia. }
      rewrite Hneq. cbn zeta.
      rewrite Pos2Nat.inj_xI in *.
      assert (HNN1 : NN (S lv) = val (Pos.succ q')).
      { rewrite Pos2Nat.inj_succ. rewrite (NN_S_odd lv (val q')) by lia. lia. }
      assert (HMin1 : MinLv (S lv)).
      { intros j Hj. destruct (Nat.eq_dec j lv) as [->|]; [|apply HMin; lia]. pose proof (Pos2Nat.is_pos q'). lia. }
      pose proof (MinLv_le31 (S lv) Hb HMin1) as Hlv1.
      assert (Hb1 : (Z.pos (Pos.succ q') * 2 ^ Z.of_nat (S lv) <= 2 ^ 31)%Z).
      { pose proof (NN_bound (S lv) Hb Hlv1 (NN_pos _ Hne)) as Hbb. rewrite HNN1 in Hbb.
        rewrite positive_nat_Z in Hbb. exact Hbb. }
      assert (Ecnt : (Z.pos q'~1 * 2 ^ Z.of_nat lv + 2 ^ Z.of_nat lv = Z.pos (Pos.succ q') * 2 ^ Z.of_nat (S lv))%Z).
      { rewrite Nat2Z.inj_succ, Z.pow_succ_r by lia. rewrite Pos2Z.inj_xI, Pos2Z.inj_succ. lia. }
      rewrite Ecnt. rewrite wrapu32_small by (split; [lia | exact Hb1]).
      rewrite shifted_pos.
      assert (Hnone : nd lv (2 * val q' + 1) = None) by (apply nd_None; lia).
      assert (Hh1 : nd (S lv) (val (Pos.succ q') - 1) = Some (H h h)).
      { rewrite Pos2Nat.inj_succ. replace (S (val q') - 1) with (val q') by lia.
        rewrite nd_S. replace (S (2 * val q') - 1) with (2 * val q') in Hh by lia. rewrite Hh, Hnone. reflexivity. }
      cbn [Inv1tail] in HIt.
      destruct (carry_spec (Pos.succ q') (S lv) inner ml (H h h) mh (if mh then path ++ [h] else path))
        as (h2 & mh2 & path2 & Ecar & Hn2 & P1 & P0 & P2).
      * exact Hb1.
      * exact Hh1.
      * apply Inv1_Pre_b. exact HIt.
      * intros E. subst mh. destruct (Hm1 eq_refl) as [Ea Esp]. replace (S (2 * val q') - 1) with (2 * val q') in Ea by lia. split.
        -- cbn [anc]. rewrite Ea, Pos2Nat.inj_succ. symmetry. apply Nat.div_unique with 0; lia.
        -- apply spec_path_snoc; [exact Esp|]. apply (sib_self lv (2 * val q')); [exact Ea | apply even_2k | exact Hnone |].
           replace (S (2 * val q') - 1) with (2 * val q') in Hh by lia. exact Hh.
      * intros E. subst mh. intros m Em. destruct (Hm0 eq_refl) as (m' & Em' & Esp & HM). rewrite Em in Em'. inversion Em'; subst m'.
        cbn [MatchTail] in HM. destruct (MatchAt_Match_b _ _ _ HM) as [Hle Hmb]. auto.
      * rewrite Ecar.
        rewrite (odd_part_Z (Pos.succ q') (S lv)).
        set (lv2 := S lv + trailing_zeros (Pos.succ q')) in *. set (q2 := odd_part (Pos.succ q')) in *.
        apply (IH q2 lv2 h2 mh2 path2).
        -- unfold lv2. lia.
        -- apply odd_part_odd.
        -- apply NN_strip. exact HNN1.
        -- apply MinLv_strip; assumption.
        -- exact Hn2.
        -- apply Inv1tail_strip. apply Inv1_tail_succ. exact HIt.
        -- exact P1.
        -- intros E. destruct (P0 E) as (Emh & Ep & Hle). subst mh. destruct (Hm0 eq_refl) as (m & Em & Esp & HM).
           exists m. split; [exact Em|]. rewrite Ep. split; [exact Esp|].
           apply MatchTail_strip. cbn [MatchTail] in HM. apply MatchAt_tail_succ; [exact HM | apply Hle; exact Em].
Qed.

(* ------------------------------------------------------------------ assembly *)
Lemma MatchTail_above : forall p lv m, MatchTail p lv m -> lv < m.
Proof.
  induction p as [p' IH | p' IH | ]; intros lv m HM; cbn [MatchTail] in HM.
  - destruct (MatchAt_Match_b _ _ _ HM) as [Hle _]. lia.
  - specialize (IH _ _ HM). lia.
  - destruct HM.
Qed.

Lemma Red_lev : forall n l0 r m, Red D deq H n l0 r m ->
  levels D H n l0 = [r] /\ forall j, j < n -> 2 <= length (levels D H j l0).
Proof.
  induction 1 as [x | n l0 r m Hl HR [IH1 IH2]].
  - split; [reflexivity | intros j Hj; lia].
  - split; [exact IH1|]. intros j Hj. destruct j as [|j]; [exact Hl|]. cbn [levels]. apply IH2. lia.
Qed.

Lemma NN_stays_one : forall k j, NN k = 1 -> k <= j -> NN j = 1.
Proof.
  intros k j E Hle. induction Hle as [|j Hle IH]; [exact E|]. rewrite NN_S, IH. reflexivity.
Qed.

Theorem merkle_path_correct_sec : pos < length l -> (Z.of_nat (length l) <= 2 ^ 31)%Z ->
  exists path top r m leaf,
    merkle_computation D H l (Z.of_nat pos) = Some (Some top, path) /\
    compute_merkle_root D deq H zero l = Some (r, m) /\
    nth_error l pos = Some leaf /\ top = r /\
    fold_path D H leaf (Z.of_nat pos) path = r.
Proof.
  intros Hpos Hb.
  assert (Hne : l <> []) by (intros E; rewrite E in Hpos; cbn in Hpos; lia).
  (* phase 1 *)
  destruct (phase1_spec l [] 0%Z (inner_empty D) None []) as (inner & ml & path1 & Eph & HI & Hlt & Hge).
  { reflexivity. } { exact Hb. } { reflexivity. }
  { split; [exact I|]. split; [cbn; lia|]. intros _; auto. }
  set (n := length l) in *.
  assert (Hn1 : 1 <= n) by lia.
  set (pn := Pos.of_nat n).
  assert (Evn : val pn = n) by (unfold pn; apply Nat2Pos.id; lia).
  assert (ENn : N.of_nat n = Npos pn).
  { unfold pn. destruct n as [|n']; [lia|]. cbn. f_equal. rewrite Pos.of_nat_succ. reflexivity. }
  assert (EZn : Z.of_nat n = Z.pos pn) by (rewrite <- Evn; apply positive_nat_Z).
  rewrite ENn in HI, Hlt, Hge. cbn [Inv1N N.to_nat MatchAtN] in *. rewrite Evn in *.
  destruct (Hlt Hpos) as (m0 & Eml & Esp & HM). clear Hlt Hge.
  set (lv0 := 0 + trailing_zeros pn). set (q := odd_part pn).
  destruct (Inv1_strip inner pn 0 HI) as [(h & Hih & Hnh) HIt]. fold lv0 q in Hih, Hnh, HIt.
  pose proof (odd_part_Z pn 0) as EZq. fold lv0 q in EZq. change (2 ^ Z.of_nat 0)%Z with 1%Z in EZq. rewrite Z.mul_1_r in EZq.
  assert (Hlv0 : lv0 < 32).
  { apply (level_bound q). rewrite <- EZq, <- EZn. exact Hb. }
  assert (HNN0 : NN 0 = val pn) by (rewrite Evn; reflexivity).
  assert (HMin0 : MinLv 0) by (intros j Hj; lia).
  destruct (sweep_spec inner ml Hb Hne 32 q lv0 h (level_is ml lv0) path1) as (top & path & lvf & Esw & HNf & HMf & Hnf & Haf & Hspf).
  { lia. } { apply odd_part_odd. } { apply NN_strip. exact HNN0. } { apply MinLv_strip; assumption. } { exact Hnh. } { exact HIt. }
  { intros E. rewrite Eml in E. cbn in E. apply Nat.eqb_eq in E. subst m0.
    destruct (MatchAt_strip _ _ _ HM) as [[_ Ha]|HT].
    - split; [exact Ha | exact Esp].
    - apply MatchTail_above in HT. fold lv0 in HT. lia. }
  { intros E. exists m0. split; [exact Eml|split; [exact Esp|]].
    destruct (MatchAt_strip _ _ _ HM) as [[Em _]|HT]; [|exact HT].
    exfalso. rewrite Eml in E. cbn in E. fold lv0 in Em. subst m0. rewrite Nat.eqb_refl in E. discriminate. }
  (* the root *)
  destruct (root_Red D deq H zero l Hne) as (k & r & m & Er & HR).
  destruct (Red_lev _ _ _ _ HR) as [Elk Hbig].
  assert (Elev : forall j, lev j = levels D H j l) by (intros j; rewrite lev_iter, lev_levels; reflexivity).
  assert (Hk1 : NN k = 1) by (unfold NN; rewrite Elev, Elk; reflexivity).
  assert (Elvf : lvf = k).
  { destruct (Nat.lt_trichotomy lvf k) as [Hl|[E|Hg]]; [exfalso|exact E|exfalso].
    - specialize (Hbig lvf Hl). rewrite <- Elev in Hbig. unfold NN in HNf. lia.
    - pose proof (HMf k Hg). lia. }
  subst lvf.
  assert (Etop : top = r).
  { unfold nd in Hnf. rewrite Elev, Elk in Hnf. cbn in Hnf. inversion Hnf. reflexivity. }
  destruct (nd_Some 0 pos) as [leaf Hleaf]; [unfold NN; cbn [lev]; exact Hpos|].
  exists path, top, r, m, leaf. split; [|split; [exact Er|split; [exact Hleaf|split; [exact Etop|]]]].
  - unfold merkle_computation. destruct l as [|a l'] eqn:El; [congruence|]. rewrite <- El in *.
    rewrite Eph. fold n. rewrite EZn.
    replace (Z.pos pn) with (Z.pos pn * 2 ^ Z.of_nat 0)%Z at 1 by (change (2 ^ Z.of_nat 0)%Z with 1%Z; lia).
    rewrite shifted_pos. change (trailing_zeros pn) with lv0.
    apply Nat.ltb_lt in Hlv0. rewrite Hlv0. cbn [negb]. rewrite Hih. rewrite EZq. rewrite Esw. reflexivity.
  - pose proof (fold_spec_path k path leaf Hspf Hleaf) as Hf. rewrite Haf, Hnf in Hf. inversion Hf. subst. reflexivity.
Qed.

End PathProofs.

(* closed form: for every leaf list of at most 2^31 leaves and every position inside it *)
Theorem merkle_path_correct : forall (D : Type) (deq : D -> D -> bool) (H : D -> D -> D) (zero : D) (l : list D) (pos : nat),
  pos < length l -> (Z.of_nat (length l) <= 2 ^ 31)%Z ->
  exists path r m leaf,
    compute_merkle_path D H l (Z.of_nat pos) = Some path /\
    compute_merkle_root D deq H zero l = Some (r, m) /\
    nth_error l pos = Some leaf /\
    fold_path D H leaf (Z.of_nat pos) path = r.
Proof.
  intros D deq H zero l pos Hp Hb.
  destruct (merkle_path_correct_sec D deq H zero l pos Hp Hb) as (path & top & r & m & leaf & E1 & E2 & E3 & _ & E5).
  exists path, r, m, leaf. unfold compute_merkle_path. rewrite E1. auto.
Qed.

