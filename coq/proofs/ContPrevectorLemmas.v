(* prevector: every operation preserves the representation invariant, performs only in-bounds memory
   accesses, and commutes with the std::vector (plain list) specification through pv_abs.
   Then: refinement for ALL operation scripts by induction (pv_refines_vector). *)
From Coq Require Import List Arith Bool Lia.
From BV Require Import model.ContBuf proofs.ContBufLemmas model.ContPrevector.
Import ListNotations.

Ltac b2p :=
  repeat match goal with
  | H : (_ <=? _) = true |- _ => apply Nat.leb_le in H
  | H : (_ <=? _) = false |- _ => apply Nat.leb_gt in H
  | H : (_ <? _) = true |- _ => apply Nat.ltb_lt in H
  | H : (_ <? _) = false |- _ => apply Nat.ltb_ge in H
  | H : (_ =? _) = true |- _ => apply Nat.eqb_eq in H
  | H : (_ =? _) = false |- _ => apply Nat.eqb_neq in H
  | H : (_ && _) = true |- _ => apply andb_true_iff in H; destruct H
  end.

Ltac lens :=
  repeat first
   [ rewrite length_br by (lens; lia)
   | rewrite length_bw by (lens; lia)
   | progress (autorewrite with len; simpl length) ].
Unset Lia Cache.
(* decide every comparison with N that the hypotheses determine (no case split) *)
Ltac resolve_ifs N :=
  repeat match goal with
  | |- context [?x <=? N] =>
      first [ replace (x <=? N) with true by (symmetry; apply Nat.leb_le; lia)
            | replace (x <=? N) with false by (symmetry; apply Nat.leb_gt; lia) ]
  | H : context [?x <=? N] |- _ =>
      first [ replace (x <=? N) with true in H by (symmetry; apply Nat.leb_le; lia)
            | replace (x <=? N) with false in H by (symmetry; apply Nat.leb_gt; lia) ]
  end.
Ltac fin1 tac := first [ lia | reflexivity | left; reflexivity | right; repeat split; lens; lia | lens; lia | tac ].
Ltac rd := rewrite buf_read_some by (lens; lia).
Ltac wr := rewrite buf_write_some by (lens; lia).

Section P.
  Variable T : Type.
  Variables (T0 junk : T) (N : nat).
  Notation pv := (pv T).
  Notation pv_inv := (pv_inv T N).
  Notation pv_abs := (pv_abs T N).
  Notation size := (size T N).
  Notation capacity := (capacity T N).
  Notation store := (store T N).
  Notation is_direct := (is_direct T N).
  Notation change_capacity := (change_capacity T junk N).
  Notation ensure := (ensure T junk N).
  Notation grow_for := (grow_for T junk N).
  Notation erase := (erase T N).
  Notation append_fill := (append_fill T N).
  Notation size_then_fill := (size_then_fill T N).
  Notation insert_at := (insert_at T N).
  Notation with_size := (with_size T).
  Notation resize := (resize T T0 junk N).
  Notation clear := (clear T T0 junk N).
  Notation assign_range := (assign_range T T0 junk N).
  Notation ctor_range := (ctor_range T T0 junk N).
  Notation insert_range := (insert_range T junk N).
  Notation push_back := (push_back T junk N).
  Notation pop_back := (pop_back T N).
  Notation update := (update T N).
  Notation contents := (contents T N).
  Notation pv_empty := (pv_empty T T0 N).
  Notation resize_uninit_fill := (resize_uninit_fill T junk N).
  Notation pv_step := (pv_step T T0 junk N).
  Notation pv_run := (pv_run T T0 junk N).
  Notation vec_step := (vec_step T T0).
  Notation vec_run := (vec_run T T0).
  Notation vec_resize := (vec_resize T T0).
  Notation with_store := (with_store T N).

  Ltac fin tac := resolve_ifs N; repeat split; fin1 tac.
  Ltac unf := unfold ContPrevector.pv_inv, ContPrevector.pv_abs, ContPrevector.size, ContPrevector.capacity,
     ContPrevector.store, ContPrevector.with_store, ContPrevector.with_size, ContPrevector.is_direct in *; simpl in *.

  (* split the invariant into the direct / indirect case and normalise `is_direct s` *)
  Ltac inv_cases H :=
    let Hd := fresh "Hd" in let Hi := fresh "Hi" in
    let H1 := fresh "H1" in let H2 := fresh "H2" in let H3 := fresh "H3" in let H4 := fresh "H4" in
    let Ei := fresh "Ei" in
    destruct H as [Hd [Hi|(H1&H2&H3&H4)]]; unf;
    [ rewrite ?Hi in * |
      match type of H1 with _ <= ?ps =>
        assert (Ei : (ps <=? N) = false) by (apply Nat.leb_gt; lia); rewrite ?Ei in * end ];
    b2p.

  Lemma abs_length s : pv_inv s -> length (pv_abs s) = size s.
  Proof. intros H. inv_cases H; lens; lia. Qed.

  Lemma store_length s : pv_inv s -> length (store s) = capacity s.
  Proof. intros H. inv_cases H; lia. Qed.

  Lemma size_le_capacity s : pv_inv s -> size s <= capacity s.
  Proof. intros H. inv_cases H; lia. Qed.

  Lemma direct_iff_capacity s : pv_inv s -> (is_direct s = true <-> capacity s <= N).
  Proof. intros H. inv_cases H; split; intros; try lia; try reflexivity; try discriminate. Qed.

  Lemma N_le_capacity s : pv_inv s -> N <= capacity s.
  Proof. intros H. inv_cases H; lia. Qed.

  Lemma change_capacity_ok s n : pv_inv s -> size s <= n ->
    exists s', change_capacity s n = Some s' /\ pv_inv s' /\ pv_abs s' = pv_abs s /\ size s' = size s
       /\ capacity s' = (if n <=? N then N else n).
  Proof.
    intros [Hd Hi] Hn. unfold ContPrevector.change_capacity.
    destruct (n <=? N) eqn:En.
    - destruct (is_direct s) eqn:Ed; simpl.
      + exists s. unfold ContPrevector.pv_inv, ContPrevector.capacity. rewrite Ed. auto.
      + destruct Hi as [Hi|(H1&H2&H3&H4)]; [congruence|].
        unfold ContPrevector.size in *. rewrite Ed in *. b2p.
        rd. wr. eexists; split; [reflexivity|]. unf. b2p.
        fin ltac:(replace (p_size T s - (N + 1)) with (p_size T s - N - 1) by lia; apply firstn_copy; lia).
    - destruct (is_direct s) eqn:Ed; simpl.
      + unfold ContPrevector.size in *. rewrite Ed in *. unf. b2p.
        rd. wr. eexists; split; [reflexivity|]. unf.
        fin ltac:(replace (p_size T s + N + 1 - N - 1) with (p_size T s) by lia; apply firstn_copy; lens; lia).
      + destruct Hi as [Hi|(H1&H2&H3&H4)]; [congruence|].
        eexists; split; [reflexivity|]. unf. b2p. fin ltac:(apply firstn_realloc; lia).
  Qed.

  Lemma ensure_ok s n : pv_inv s -> size s <= n ->
    exists s', ensure s n = Some s' /\ pv_inv s' /\ pv_abs s' = pv_abs s /\ size s' = size s
       /\ capacity s' = (if capacity s <? n then n else capacity s).
  Proof.
    intros Hinv Hn. unfold ContPrevector.ensure.
    destruct (capacity s <? n) eqn:Ec.
    - destruct (change_capacity_ok s n Hinv Hn) as (s'&E&I&A&S&C).
      exists s'. split; [exact E|]. split; [exact I|]. split; [exact A|]. split; [exact S|]. rewrite C. pose proof (N_le_capacity s Hinv). b2p.
      destruct (n <=? N) eqn:E2; b2p; lia.
    - exists s. auto.
  Qed.

  Lemma ensure_ok0 s n : pv_inv s ->
    exists s', ensure s n = Some s' /\ pv_inv s' /\ pv_abs s' = pv_abs s /\ size s' = size s
       /\ capacity s' = (if capacity s <? n then n else capacity s).
  Proof.
    intros Hinv. destruct (le_lt_dec (size s) n) as [Hn|Hn]; [apply ensure_ok; auto|].
    unfold ContPrevector.ensure. pose proof (size_le_capacity s Hinv).
    destruct (capacity s <? n) eqn:Ec; b2p; [lia|]. exists s. auto.
  Qed.

  Lemma grow_for_ok s ns : pv_inv s -> size s <= ns ->
    exists s', grow_for s ns = Some s' /\ pv_inv s' /\ pv_abs s' = pv_abs s /\ size s' = size s
       /\ capacity s' = (if capacity s <? ns then ns + Nat.div2 ns else capacity s).
  Proof.
    intros Hinv Hn. unfold ContPrevector.grow_for.
    destruct (capacity s <? ns) eqn:Ec.
    - assert (Hn2 : size s <= ns + Nat.div2 ns) by lia.
      destruct (change_capacity_ok s _ Hinv Hn2) as (s'&E&I&A&S&C).
      exists s'. split; [exact E|]. split; [exact I|]. split; [exact A|]. split; [exact S|]. rewrite C. pose proof (N_le_capacity s Hinv). b2p.
      destruct (_ <=? N) eqn:E2; b2p; lia.
    - exists s. auto.
  Qed.

  Lemma erase_ok s a b : pv_inv s -> a <= b -> b <= size s ->
    exists s', erase s a b = Some s' /\ pv_inv s' /\
      pv_abs s' = firstn a (pv_abs s) ++ skipn b (pv_abs s) /\ capacity s' = capacity s.
  Proof.
    intros Hinv Hab Hb. unfold ContPrevector.erase.
    assert (Eg : ((a <=? b) && (b <=? size s)) = true).
    { apply andb_true_iff; split; apply Nat.leb_le; lia. }
    rewrite Eg. clear Eg.
    inv_cases Hinv; rd; wr; (eexists; split; [reflexivity|]); unf.
    - fin ltac:(apply firstn_erase; lia).
    - fin ltac:(replace (p_size T s - (b - a) - N - 1) with (p_size T s - N - 1 - (b - a)) by lia; apply firstn_erase; lia).
  Qed.

  Lemma append_fill_ok s data : pv_inv s -> size s + length data <= capacity s ->
    exists s', append_fill s (size s) data = Some s' /\ pv_inv s' /\
      pv_abs s' = pv_abs s ++ data /\ capacity s' = capacity s.
  Proof.
    intros Hinv Hc. unfold ContPrevector.append_fill.
    inv_cases Hinv; wr; (eexists; split; [reflexivity|]); unf.
    - fin ltac:(apply firstn_append; lia).
    - fin ltac:(replace (p_size T s + length data - N - 1) with (p_size T s - N - 1 + length data) by lia; apply firstn_append; lia).
  Qed.

  (* _size += length data; then write data at the old size (through item_ptr evaluated AFTER the size change) *)
  Lemma size_then_write_ok s data : pv_inv s -> size s + length data <= capacity s ->
    let s2 := with_size s (p_size T s + length data) in
    exists b, buf_write (store s2) (size s) data = Some b /\ pv_inv (with_store s2 b) /\
      pv_abs (with_store s2 b) = pv_abs s ++ data /\ capacity (with_store s2 b) = capacity s.
  Proof.
    intros Hinv Hc. inv_cases Hinv.
    - destruct (p_size T s + length data <=? N) eqn:E; b2p; [|lia].
      wr. eexists; split; [reflexivity|]. rewrite ?E. simpl. apply Nat.leb_le in E. rewrite ?E.
      fin ltac:(apply firstn_append; lia).
    - assert (E : (p_size T s + length data <=? N) = false) by (apply Nat.leb_gt; lia).
      rewrite ?E. wr. eexists; split; [reflexivity|]. rewrite ?E. simpl. rewrite ?E.
      fin ltac:(replace (p_size T s + length data - N - 1) with (p_size T s - N - 1 + length data) by lia; apply firstn_append; lia).
  Qed.

  Lemma size_then_fill_ok s data : pv_inv s -> size s = 0 -> length data <= capacity s ->
    exists s', size_then_fill s data = Some s' /\ pv_inv s' /\ pv_abs s' = data /\ capacity s' = capacity s.
  Proof.
    intros Hinv Hz Hc. unfold ContPrevector.size_then_fill.
    assert (Hc' : size s + length data <= capacity s) by lia.
    pose proof (size_then_write_ok s data Hinv Hc') as H. cbv zeta in H. rewrite Hz in H.
    destruct H as (b&E&I&A&C). rewrite E. eexists; split; [reflexivity|].
    split; [exact I|]. split; [|exact C]. rewrite A.
    pose proof (abs_length s Hinv) as L. rewrite Hz in L. destruct (pv_abs s); [reflexivity|discriminate].
  Qed.

  Lemma insert_at_ok s p data : pv_inv s -> p <= size s -> size s + length data <= capacity s ->
    exists s', insert_at s p data = Some s' /\ pv_inv s' /\
      pv_abs s' = firstn p (pv_abs s) ++ data ++ skipn p (pv_abs s) /\ capacity s' = capacity s.
  Proof.
    intros Hinv Hp Hc. unfold ContPrevector.insert_at.
    inv_cases Hinv; rd; wr; wr; (eexists; split; [reflexivity|]); unf.
    - fin ltac:(apply firstn_insert; lia).
    - fin ltac:(replace (p_size T s + length data - N - 1) with (p_size T s - N - 1 + length data) by lia; apply firstn_insert; lia).
  Qed.

  (* ---- derived operations ---- *)
  Lemma resize_ok s n : pv_inv s ->
    exists s', resize s n = Some s' /\ pv_inv s' /\ pv_abs s' = vec_resize (pv_abs s) n /\
      capacity s' = (if capacity s <? n then n else capacity s).
  Proof.
    intros Hinv. unfold ContPrevector.resize, ContPrevector.vec_resize.
    pose proof (abs_length s Hinv) as L. pose proof (size_le_capacity s Hinv) as SC.
    destruct (size s =? n) eqn:E1; b2p.
    - exists s. split; [reflexivity|]. split; [exact Hinv|]. split.
      + rewrite firstn_all2 by lia. replace (n - length (pv_abs s)) with 0 by lia. simpl. rewrite app_nil_r. reflexivity.
      + destruct (capacity s <? n) eqn:E; b2p; lia.
    - destruct (n <? size s) eqn:E2; b2p.
      + destruct (erase_ok s n (size s) Hinv) as (s'&E&I&A&C); [lia|lia|].
        exists s'. split; [exact E|]. split; [exact I|]. split.
        * rewrite A. rewrite skipn_all2 by lia. replace (n - length (pv_abs s)) with 0 by lia. reflexivity.
        * rewrite C. destruct (capacity s <? n) eqn:E3; b2p; lia.
      + destruct (ensure_ok s n Hinv) as (s1&E&I&A&S&C); [lia|]. rewrite E.
        assert (Hc : size s1 + length (repeat T0 (n - size s)) <= capacity s1).
        { rewrite repeat_length, S, C. destruct (capacity s <? n) eqn:E3; b2p; lia. }
        destruct (append_fill_ok s1 _ I Hc) as (s'&E'&I'&A'&C'). rewrite S in E'.
        exists s'. split; [exact E'|]. split; [exact I'|]. split.
        * rewrite A', A. rewrite firstn_all2 by lia. rewrite L. reflexivity.
        * rewrite C'. exact C.
  Qed.

  Lemma clear_ok s : pv_inv s ->
    exists s', clear s = Some s' /\ pv_inv s' /\ pv_abs s' = [] /\ capacity s' = capacity s.
  Proof.
    intros Hinv. unfold ContPrevector.clear. destruct (resize_ok s 0 Hinv) as (s'&E&I&A&C).
    exists s'. split; [exact E|]. split; [exact I|]. split.
    - rewrite A. unfold ContPrevector.vec_resize. reflexivity.
    - rewrite C. destruct (capacity s <? 0) eqn:E3; b2p; lia.
  Qed.

  Lemma size_of_abs_nil s : pv_inv s -> pv_abs s = [] -> size s = 0.
  Proof. intros Hinv H. rewrite <- (abs_length s Hinv), H. reflexivity. Qed.

  Lemma assign_range_ok s data : pv_inv s ->
    exists s', assign_range s data = Some s' /\ pv_inv s' /\ pv_abs s' = data /\
      capacity s' = (if capacity s <? length data then length data else capacity s).
  Proof.
    intros Hinv. unfold ContPrevector.assign_range.
    destruct (clear_ok s Hinv) as (s0&E0&I0&A0&C0). rewrite E0.
    pose proof (size_of_abs_nil s0 I0 A0) as Z0.
    destruct (ensure_ok s0 (length data) I0) as (s1&E1&I1&A1&S1&C1); [lia|]. rewrite E1.
    assert (Hc : length data <= capacity s1).
    { rewrite C1. destruct (capacity s0 <? length data) eqn:E3; b2p; lia. }
    destruct (size_then_fill_ok s1 data I1) as (s'&E'&I'&A'&C'); [lia|exact Hc|].
    exists s'. split; [exact E'|]. split; [exact I'|]. split; [exact A'|].
    rewrite C', C1, C0. reflexivity.
  Qed.

  Lemma pv_empty_inv : pv_inv pv_empty.
  Proof. unf. split; [apply repeat_length|left; reflexivity]. Qed.
  Lemma pv_empty_abs : pv_abs pv_empty = [].
  Proof. unf. reflexivity. Qed.

  Lemma ctor_range_ok data :
    exists s', ctor_range data = Some s' /\ pv_inv s' /\ pv_abs s' = data /\
      capacity s' = (if length data <=? N then N else length data).
  Proof.
    unfold ContPrevector.ctor_range.
    pose proof (size_of_abs_nil _ pv_empty_inv pv_empty_abs) as Z0.
    destruct (change_capacity_ok pv_empty (length data) pv_empty_inv) as (s1&E1&I1&A1&S1&C1); [lia|]. rewrite E1.
    assert (Hc : length data <= capacity s1).
    { rewrite C1. destruct (length data <=? N) eqn:E3; b2p; lia. }
    destruct (size_then_fill_ok s1 data I1) as (s'&E'&I'&A'&C'); [lia|exact Hc|].
    exists s'. split; [exact E'|]. split; [exact I'|]. split; [exact A'|]. rewrite C', C1. reflexivity.
  Qed.

  Lemma contents_ok s : pv_inv s -> contents s = Some (pv_abs s).
  Proof.
    intros Hinv. unfold ContPrevector.contents. pose proof (size_le_capacity s Hinv). pose proof (store_length s Hinv).
    rewrite buf_read_some by lia. reflexivity.
  Qed.

  Lemma insert_range_ok s p data : pv_inv s -> p <= size s ->
    exists s', insert_range s p data = Some s' /\ pv_inv s' /\
      pv_abs s' = firstn p (pv_abs s) ++ data ++ skipn p (pv_abs s).
  Proof.
    intros Hinv Hp. unfold ContPrevector.insert_range.
    replace (p <=? size s) with true by (symmetry; apply Nat.leb_le; lia).
    destruct (grow_for_ok s (size s + length data) Hinv) as (s1&E1&I1&A1&S1&C1); [lia|]. rewrite E1.
    pose proof (size_le_capacity s Hinv).
    destruct (insert_at_ok s1 p data I1) as (s'&E'&I'&A'&C'); [lia| |].
    { rewrite C1, S1. destruct (_ <? _) eqn:E3; b2p; lia. }
    exists s'. split; [exact E'|]. split; [exact I'|]. rewrite A', A1. reflexivity.
  Qed.

  Lemma push_back_ok s v : pv_inv s ->
    exists s', push_back s v = Some s' /\ pv_inv s' /\ pv_abs s' = pv_abs s ++ [v] /\
      capacity s' = (if capacity s <? size s + 1 then size s + 1 + Nat.div2 (size s + 1) else capacity s).
  Proof.
    intros Hinv. unfold ContPrevector.push_back.
    destruct (grow_for_ok s (size s + 1) Hinv) as (s1&E1&I1&A1&S1&C1); [lia|]. rewrite E1.
    pose proof (size_le_capacity s Hinv).
    destruct (append_fill_ok s1 [v] I1) as (s'&E'&I'&A'&C').
    { rewrite C1, S1. simpl. destruct (_ <? _) eqn:E3; b2p; lia. }
    exists s'. split; [exact E'|]. split; [exact I'|]. rewrite A', A1, C', C1. split; reflexivity.
  Qed.

  Lemma pop_back_ok s : pv_inv s -> 1 <= size s ->
    exists s', pop_back s = Some s' /\ pv_inv s' /\ pv_abs s' = removelast (pv_abs s) /\ capacity s' = capacity s.
  Proof.
    intros Hinv H1. unfold ContPrevector.pop_back.
    replace (1 <=? size s) with true by (symmetry; apply Nat.leb_le; lia).
    destruct (erase_ok s (size s - 1) (size s) Hinv) as (s'&E&I&A&C); [lia|lia|].
    exists s'. split; [exact E|]. split; [exact I|]. split; [|exact C].
    pose proof (abs_length s Hinv) as L.
    rewrite A, skipn_all2 by lia. rewrite app_nil_r.
    rewrite removelast_firstn_len. f_equal. lia.
  Qed.

  Lemma update_ok s p v : pv_inv s -> p < size s ->
    exists s', update s p v = Some s' /\ pv_inv s' /\
      pv_abs s' = firstn p (pv_abs s) ++ v :: skipn (S p) (pv_abs s) /\ capacity s' = capacity s.
  Proof.
    intros Hinv Hp. unfold ContPrevector.update, buf_set.
    replace (p <? size s) with true by (symmetry; apply Nat.ltb_lt; lia).
    inv_cases Hinv; wr; (eexists; split; [reflexivity|]); unf; fin ltac:(apply firstn_update; lia).
  Qed.

  Lemma with_size0_inv s : pv_inv s -> pv_inv (with_size s 0).
  Proof. intros [Hd _]. unf. split; [exact Hd|left; reflexivity]. Qed.
  Lemma with_size0_abs s : pv_abs (with_size s 0) = [].
  Proof. unf. reflexivity. Qed.

  Lemma resize_uninit_fill_ok s n vals : pv_inv s ->
    (n <= size s \/ length vals = n - size s) ->
    exists s', resize_uninit_fill s n vals = Some s' /\ pv_inv s' /\
      pv_abs s' = (if n <=? size s then firstn n (pv_abs s) else pv_abs s ++ vals).
  Proof.
    intros Hinv Hv. unfold ContPrevector.resize_uninit_fill, ContPrevector.resize_uninitialized.
    pose proof (size_le_capacity s Hinv) as SC. pose proof (abs_length s Hinv) as L.
    destruct (capacity s <? n) eqn:Ec; b2p.
    - (* grows beyond the capacity *)
      destruct (change_capacity_ok s n Hinv) as (s1&E1&I1&A1&S1&C1); [lia|]. rewrite E1.
      replace (n <=? size s) with false by (symmetry; apply Nat.leb_gt; lia).
      destruct Hv as [Hv|Hv]; [lia|].
      replace (length vals =? n - size s) with true by (symmetry; apply Nat.eqb_eq; lia).
      assert (Hc : size s1 + length vals <= capacity s1).
      { rewrite C1, S1. destruct (n <=? N) eqn:E3; b2p; lia. }
      pose proof (size_then_write_ok s1 vals I1 Hc) as H. cbv zeta in H.
      rewrite S1 in *. replace (n - size s) with (length vals) by lia.
      destruct H as (b&E&I&A&C). rewrite E. eexists; split; [reflexivity|]. split; [exact I|].
      rewrite A, A1. reflexivity.
    - destruct (n <? size s) eqn:E2; b2p.
      + destruct (erase_ok s n (size s) Hinv) as (s'&E&I&A&C); [lia|lia|]. rewrite E.
        replace (n <=? size s) with true by (symmetry; apply Nat.leb_le; lia).
        exists s'. split; [reflexivity|]. split; [exact I|]. rewrite A, skipn_all2 by lia. apply app_nil_r.
      + destruct (n <=? size s) eqn:E3; b2p.
        * assert (n = size s) by lia. subst n. rewrite Nat.sub_diag, Nat.add_0_r.
          exists s. split; [destruct s; reflexivity|]. split; [exact Hinv|]. rewrite firstn_all2 by lia. reflexivity.
        * destruct Hv as [Hv|Hv]; [lia|].
          replace (length vals =? n - size s) with true by (symmetry; apply Nat.eqb_eq; lia).
          assert (Hc : size s + length vals <= capacity s) by lia.
          pose proof (size_then_write_ok s vals Hinv Hc) as H. cbv zeta in H.
          replace (n - size s) with (length vals) by lia.
          destruct H as (b&E&I&A&C). rewrite E. eexists; split; [reflexivity|]. split; [exact I|exact A].
  Qed.

  (* ---- one step of a script, then all scripts ---- *)
  Definition pair_inv (st : pv * pv) : Prop := pv_inv (fst st) /\ pv_inv (snd st).
  Definition pair_abs (st : pv * pv) : list T * list T := (pv_abs (fst st), pv_abs (snd st)).

  Ltac use L :=
    let s' := fresh "s'" in let E := fresh "E" in let I := fresh "I" in let A := fresh "A" in
    destruct L as (s'&E&I&A); try (unfold ContPrevector.on_a; simpl fst; simpl snd); rewrite E;
    eexists; split; [reflexivity|]; split; [split; [exact I|assumption]|];
    unfold pair_abs; simpl fst; simpl snd.

  Lemma pv_step_refines st o lst' : pair_inv st -> vec_step (pair_abs st) o = Some lst' ->
    exists st', pv_step st o = Some st' /\ pair_inv st' /\ pair_abs st' = lst'.
  Proof.
    destruct st as [a b]. intros [Ia Ib] H. simpl in Ia, Ib.
    pose proof (abs_length a Ia) as La. pose proof (abs_length b Ib) as Lb.
    unfold pair_abs in H. simpl fst in H; simpl snd in H.
    destruct o; unfold ContPrevector.vec_step, ContPrevector.vec_insert, ContPrevector.vec_erase in H;
      unfold ContPrevector.pv_step; unfold ContPrevector.on_a; simpl fst; simpl snd.
    - (* PushBack *) injection H as <-. use (push_back_ok a v Ia). destruct A as [A _]. rewrite A. reflexivity.
    - (* PopBack *) destruct (1 <=? _) eqn:E1; [|discriminate]. b2p. injection H as <-.
      use (pop_back_ok a Ia ltac:(lia)). destruct A as [A _]. rewrite A. reflexivity.
    - (* Insert *) destruct (p <=? _) eqn:E1; [|discriminate]. b2p. injection H as <-.
      unfold ContPrevector.insert. use (insert_range_ok a p [v] Ia ltac:(lia)). rewrite A. reflexivity.
    - (* InsertN *) destruct (p <=? _) eqn:E1; [|discriminate]. b2p. injection H as <-.
      unfold ContPrevector.insert_n. use (insert_range_ok a p (repeat v n) Ia ltac:(lia)). rewrite A. reflexivity.
    - (* InsertRange *) destruct (p <=? _) eqn:E1; [|discriminate]. b2p. injection H as <-.
      use (insert_range_ok a p l Ia ltac:(lia)). rewrite A. reflexivity.
    - (* Erase *) destruct (p <? _) eqn:E1; [|discriminate]. b2p.
      destruct ((p <=? p + 1) && (p + 1 <=? _)) eqn:E2; [|discriminate]. b2p. injection H as <-.
      replace (p <? size a) with true by (symmetry; apply Nat.ltb_lt; lia).
      unfold ContPrevector.erase1. use (erase_ok a p (p + 1) Ia ltac:(lia) ltac:(lia)). destruct A as [A _]. rewrite A. reflexivity.
    - (* EraseRange *) destruct ((a0 <=? b0) && (b0 <=? _)) eqn:E2; [|discriminate]. b2p. injection H as <-.
      use (erase_ok a a0 b0 Ia ltac:(lia) ltac:(lia)). destruct A as [A _]. rewrite A. reflexivity.
    - (* Resize *) injection H as <-. use (resize_ok a n Ia). destruct A as [A _]. rewrite A. reflexivity.
    - (* Reserve *) injection H as <-. unfold ContPrevector.reserve. use (ensure_ok0 a n Ia). destruct A as [A _]. rewrite A. reflexivity.
    - (* ShrinkToFit *) injection H as <-. unfold ContPrevector.shrink_to_fit.
      use (change_capacity_ok a (size a) Ia ltac:(lia)). destruct A as [A _]. rewrite A. reflexivity.
    - (* Clear *) injection H as <-. use (clear_ok a Ia). destruct A as [A _]. rewrite A. reflexivity.
    - (* Assign *) injection H as <-. unfold ContPrevector.assign. use (assign_range_ok a (repeat v n) Ia). destruct A as [A _]. rewrite A. reflexivity.
    - (* AssignRange *) injection H as <-. use (assign_range_ok a l Ia). destruct A as [A _]. rewrite A. reflexivity.
    - (* Update *) destruct (p <? _) eqn:E1; [|discriminate]. b2p. injection H as <-.
      use (update_ok a p v Ia ltac:(lia)). destruct A as [A _]. rewrite A. reflexivity.
    - (* ResizeUninit *)
      assert (Hv : n <= size a \/ length l = n - size a).
      { destruct (n <=? _) eqn:E1; b2p; [left; lia|]. destruct (length l =? _) eqn:E2; [|discriminate]. b2p. right; lia. }
      use (resize_uninit_fill_ok a n l Ia Hv). rewrite A. rewrite La in H.
      destruct (n <=? size a) eqn:E1; [injection H as <-; reflexivity|].
      destruct (length l =? _) eqn:E2; [|discriminate]. injection H as <-; reflexivity.
    - (* Swap *) injection H as <-. eexists; split; [reflexivity|]. split; [split; assumption|reflexivity].
    - (* MoveAssign *) injection H as <-. eexists; split; [reflexivity|]. split.
      + split; simpl; [assumption|apply with_size0_inv; assumption].
      + unfold pair_abs; simpl. rewrite with_size0_abs. reflexivity.
    - (* CopyAssign *) injection H as <-. unfold ContPrevector.copy_assign. rewrite (contents_ok b Ib).
      use (assign_range_ok a (pv_abs b) Ia). destruct A as [A _]. rewrite A. reflexivity.
    - (* CopyCtor *) injection H as <-. unfold ContPrevector.ctor_copy. rewrite (contents_ok a Ia).
      destruct (ctor_range_ok (pv_abs a)) as (s'&E&I&A&_). rewrite E.
      eexists; split; [reflexivity|]. split; [split; assumption|]. unfold pair_abs; simpl. rewrite A. reflexivity.
    - (* MoveCtor *) injection H as <-. eexists; split; [reflexivity|]. split.
      + split; simpl; [apply with_size0_inv; assumption|assumption].
      + unfold pair_abs; simpl. rewrite with_size0_abs. reflexivity.
    - (* CtorFill *) injection H as <-. unfold ContPrevector.ctor_fill.
      destruct (ctor_range_ok (repeat v n)) as (s'&E&I&A&_). rewrite E.
      eexists; split; [reflexivity|]. split; [split; assumption|]. unfold pair_abs; simpl. rewrite A. reflexivity.
    - (* CtorRange *) injection H as <-.
      destruct (ctor_range_ok l) as (s'&E&I&A&_). rewrite E.
      eexists; split; [reflexivity|]. split; [split; assumption|]. unfold pair_abs; simpl. rewrite A. reflexivity.
    - (* CtorN *) injection H as <-. unfold ContPrevector.ctor_n.
      destruct (resize_ok pv_empty n pv_empty_inv) as (s'&E&I&A&_). rewrite E.
      eexists; split; [reflexivity|]. split; [split; assumption|]. unfold pair_abs; simpl. rewrite A, pv_empty_abs.
      unfold ContPrevector.vec_resize. simpl. rewrite Nat.sub_0_r. destruct n; reflexivity.
  Qed.

  Theorem pv_refines_vector ops : forall st lst', pair_inv st -> vec_run (pair_abs st) ops = Some lst' ->
    exists st', pv_run st ops = Some st' /\ pair_inv st' /\ pair_abs st' = lst'.
  Proof.
    induction ops as [|o ops IH]; intros st lst' I H;
      cbn [ContPrevector.vec_run ContPrevector.pv_run] in *.
    - injection H as <-. exists st. auto.
    - destruct (vec_step (pair_abs st) o) as [l1|] eqn:E1; [|discriminate].
      destruct (pv_step_refines st o l1 I E1) as (st1&E&I1&A1). rewrite E. subst l1.
      apply IH; assumption.
  Qed.

  (* the same for the whole trace (the state after EVERY operation, which is what the drivers print) *)
  Theorem pv_trace_refines ops : forall st lst', pair_inv st -> vec_run (pair_abs st) ops = Some lst' ->
    map (option_map pair_abs) (ContPrevector.pv_trace T T0 junk N st ops) = ContPrevector.vec_trace T T0 (pair_abs st) ops /\
    Forall (fun o => exists st', o = Some st' /\ pair_inv st') (ContPrevector.pv_trace T T0 junk N st ops).
  Proof.
    induction ops as [|o ops IH]; intros st lst' I H;
      cbn [ContPrevector.vec_run ContPrevector.pv_trace ContPrevector.vec_trace] in *.
    - split; [reflexivity|constructor].
    - destruct (vec_step (pair_abs st) o) as [l1|] eqn:E1; [|discriminate].
      destruct (pv_step_refines st o l1 I E1) as (st1&E&I1&A1). rewrite E. subst l1.
      destruct (IH st1 lst' I1 H) as [IH1 IH2]. split.
      + cbn [map option_map]. rewrite IH1. reflexivity.
      + constructor; [exists st1; auto|exact IH2].
  Qed.

  (* the decidable form of the invariant agrees with the Prop *)
  Lemma pv_invb_iff s : pv_invb T N s = true <-> pv_inv s.
  Proof.
    unfold ContPrevector.pv_invb, ContPrevector.pv_inv. rewrite andb_true_iff, orb_true_iff, !andb_true_iff.
    rewrite Nat.eqb_eq, !Nat.leb_le, Nat.eqb_eq, Nat.ltb_lt. tauto.
  Qed.

  (* inline <-> heap switch exactly at N / N+1 (capacity() <= N iff the elements live in the object) *)
  Lemma inline_heap_switch s v s' : pv_inv s -> push_back s v = Some s' ->
    (size s < N -> is_direct s = true -> is_direct s' = true /\ capacity s' = N) /\
    (size s = N -> is_direct s = true -> is_direct s' = false /\ capacity s' = N + 1 + Nat.div2 (N + 1)).
  Proof.
    intros Hinv E. destruct (push_back_ok s v Hinv) as (s2&E2&I2&A2&C2). rewrite E in E2. injection E2 as <-.
    pose proof (direct_iff_capacity s Hinv) as D. pose proof (direct_iff_capacity s' I2) as D'.
    pose proof (N_le_capacity s Hinv).
    split; intros Hs Hdir.
    - assert (capacity s = N) by (apply D in Hdir; lia).
      rewrite C2 in *. destruct (capacity s <? size s + 1) eqn:E3; b2p; [lia|].
      split; [apply D'; lia|lia].
    - assert (capacity s = N) by (apply D in Hdir; lia).
      rewrite C2 in *. destruct (capacity s <? size s + 1) eqn:E3; b2p; [|lia].
      rewrite Hs in *. split; [|reflexivity].
      destruct (is_direct s') eqn:E4; [|reflexivity]. assert (N + 1 + Nat.div2 (N + 1) <= N) by (apply D'; reflexivity). lia.
  Qed.
End P.
