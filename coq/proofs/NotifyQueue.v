(* C63 -- the SerialTaskRunner queue: delivery in insertion order under every interleaving of inserting threads
   and scheduler service threads, and no lost wake-up. *)
From BV Require Import lib.Ints model.Notify.
Local Open Scope Z_scope.

Definition QI (q : qstate) (ins : list event) : Prop := q_delivered q ++ q_inflight q ++ q_pending q = ins.

Definition ins_of (a : qact) : list event := match a with QInsert e => [e] | _ => [] end.

Lemma inserted_cons a l : inserted (a :: l) = ins_of a ++ inserted l.
Proof. destruct a; reflexivity. Qed.

Lemma qstep_QI q a ins : QI q ins -> QI (qstep q a) (ins ++ ins_of a).
Proof.
  unfold QI, q_inflight. intros H. destruct q as [pend run del owed tos sch]; simpl in *.
  destruct a as [e| | | |]; simpl.
  - rewrite <- H, <- !app_assoc. reflexivity.
  - rewrite app_nil_r. destruct owed; simpl; exact H.
  - rewrite app_nil_r. destruct tos; simpl; exact H.
  - rewrite app_nil_r. destruct sch; simpl; [exact H|]. destruct run; simpl; [exact H|]. destruct pend; simpl; exact H.
  - rewrite app_nil_r. destruct run; simpl; [|exact H]. rewrite <- H, <- !app_assoc. reflexivity.
Qed.

Lemma qrun_QI : forall l q ins, QI q ins -> QI (qrun q l) (ins ++ inserted l).
Proof.
  induction l as [|a l IH]; intros q ins H.
  - simpl. rewrite app_nil_r. exact H.
  - change (qrun q (a :: l)) with (qrun (qstep q a) l). rewrite inserted_cons, app_assoc. apply IH. apply qstep_QI. exact H.
Qed.

(* Whatever the interleaving: what has been delivered, then the callback being run, then what is pending, is exactly
   what was inserted, in insertion order. *)
Theorem fifo_order_preserved l :
  let q := qrun q_init l in q_delivered q ++ q_inflight q ++ q_pending q = inserted l.
Proof. intros q. exact (qrun_QI l q_init [] eq_refl). Qed.

Corollary fifo_drained l :
  let q := qrun q_init l in q_pending q = [] -> q_running q = None -> q_delivered q = inserted l.
Proof.
  intros q Hp Hr. pose proof (fifo_order_preserved l) as H. fold q in H. cbv zeta in H. unfold q_inflight in H.
  rewrite Hp, Hr in H. simpl in H. rewrite app_nil_r in H. exact H.
Qed.

Lemma prefix_marker {A} (m : A) : forall a d rest b, d ++ rest = a ++ m :: b -> In m d -> ~ In m a -> exists c, d = a ++ m :: c.
Proof.
  induction a as [|x a IH]; intros d rest b H Hin Hn.
  - destruct d as [|y d]; [destruct Hin|]. simpl in H. inversion H; subst. exists d. reflexivity.
  - destruct d as [|y d]; [destruct Hin|]. simpl in H. inversion H; subst.
    destruct Hin as [Hy|Hy]; [exfalso; apply Hn; left; exact Hy|].
    destruct (IH d rest b H2 Hy) as [c Hc]; [intro Hx; apply Hn; right; exact Hx|]. exists c. rewrite Hc. reflexivity.
Qed.

(* SyncWithValidationInterfaceQueue: once the marker inserted by the waiting thread has been delivered, everything
   inserted before it has been delivered before it, in order. *)
Theorem sync_marker l m a b :
  let q := qrun q_init l in
  inserted l = a ++ m :: b -> ~ In m a -> In m (q_delivered q) -> exists c, q_delivered q = a ++ m :: c.
Proof.
  intros q Hi Hn Hd. pose proof (fifo_order_preserved l) as H. fold q in H. cbv zeta in H. rewrite Hi in H.
  exact (prefix_marker m a (q_delivered q) _ b H Hd Hn).
Qed.

(* No lost wake-up: whenever something is pending and no callback is running, some thread still owes a
   MaybeScheduleProcessQueue, is about to call schedule(), or a ProcessQueue is scheduled. *)
Definition QW (q : qstate) : Prop :=
  q_pending q <> [] -> q_running q = None -> (1 <= q_owed q + q_tosched q + q_sched q)%nat.

Lemma qstep_QW q a : QW q -> QW (qstep q a).
Proof.
  unfold QW. intros H. destruct q as [pend run del owed tos sch]; simpl in *.
  destruct a as [e| | | |]; simpl.
  - intros _ _. lia.
  - destruct owed as [|k]; [exact H|]. simpl. intros Hp Hr. subst run. destruct pend; [contradiction|]. lia.
  - destruct tos as [|k]; [exact H|]. simpl. intros Hp Hr. specialize (H Hp Hr). lia.
  - destruct sch as [|k]; [exact H|]. destruct run; simpl; [intros _ Hc; discriminate|].
    destruct pend; simpl; [intros Hc; contradiction | intros _ Hc; discriminate].
  - destruct run; simpl; [intros _ _; lia | exact H].
Qed.

Theorem no_lost_wakeup l : QW (qrun q_init l).
Proof.
  assert (G : forall l q, QW q -> QW (qrun q l)).
  { induction l0 as [|a l0 IH]; intros q H; simpl; [exact H | apply IH; apply qstep_QW; exact H]. }
  apply G. unfold QW. simpl. intros H; contradiction.
Qed.

(* only one callback at a time: a callback starts only when none is running (m_are_callbacks_running) *)
Theorem one_at_a_time q : q_running q <> None -> q_running (qstep q QBegin) = q_running q /\ q_pending (qstep q QBegin) = q_pending q.
Proof.
  intros H. destruct q as [pend run del owed tos sch]; simpl in *. destruct sch; [split; reflexivity|]. destruct run; [split; reflexivity | contradiction].
Qed.
