(* Final forms of the statements of C01 / C02 / C09 (closed by `exact` in props/Properties_C0x.v) and
   the soundness of the executable predicates used by the violation search. *)
From BV Require Import lib.Ints gen.Params_gen model.Amount model.Ledger proofs.AmountLemmas proofs.LedgerMap
  proofs.LedgerConnect proofs.LedgerValue proofs.LedgerHistory proofs.LedgerSpend.
Local Open Scope Z_scope.

(* ---- C01 ---- *)
(* every accepted non-coinbase transaction spends at least what it creates; all partial sums of its
   input values are in [0, MAX_MONEY]; the fee is the exact difference *)
Theorem accepted_tx_value cf u b h u' undo pre t post :
  connect_block cf u b h = Ok (u', undo) -> b = pre ++ t :: post -> is_cb t = false ->
  exists u_pre, apply_txs u pre h = Some u_pre /\
    partial_sums_ok 0 (coin_values u_pre (t_in t)) /\
    0 <= sum_out t <= value_in u_pre t /\ value_in u_pre t <= MAX_MONEY /\
    check_tx_inputs u_pre t h = Ok (value_in u_pre t - sum_out t).
Proof.
  intros Hc -> Ecb. apply connect_block_inv in Hc. destruct Hc as [_ [_ [fees [sf [cb_out [Hl _]]]]]].
  apply tx_loop_split in Hl. destruct Hl as [first' [u_pre [fp [sp [undo' [Ha Ht]]]]]].
  exists u_pre. split; [exact Ha|]. apply tx_loop_cons in Ht.
  destruct Ht as [fees' [u1 [spent [u2 [f2 [s2 [undo2 [Hf _]]]]]]]].
  unfold tx_fees in Hf. rewrite Ecb in Hf. destruct (check_tx_inputs u_pre t h) as [fee|] eqn:E; [|discriminate].
  destruct (check_tx_inputs_spec _ _ _ _ Ecb E) as [_ [Hp [Hso [Hvi [Hfee _]]]]].
  split; [exact Hp|]. split; [exact Hso|]. split; [exact Hvi|]. rewrite Hfee. reflexivity.
Qed.

(* no 64-bit sum of CheckTxInputs / ConnectBlock can wrap under the range guards *)
Theorem sums_cannot_wrap a b :
  0 <= a <= MAX_MONEY -> 0 <= b <= MAX_MONEY ->
  wrap64 (a + b) = a + b /\ wrap64 (a - b) = a - b /\ INT64_MIN <= a + b <= INT64_MAX.
Proof.
  intros Ha Hb. split; [apply wrap64_money; assumption|]. split; [apply wrap64_money_sub; assumption|].
  rewrite max_money_val in *. unfold INT64_MIN, INT64_MAX. lia.
Qed.
Theorem check_tx_inputs_exact u t h fee :
  is_cb t = false -> check_tx_inputs u t h = Ok fee ->
  fee = value_in u t - sum_out t /\ 0 <= fee <= MAX_MONEY /\ partial_sums_ok 0 (coin_values u (t_in t)).
Proof.
  intros Ecb E. destruct (check_tx_inputs_spec _ _ _ _ Ecb E) as [_ [Hp [_ [_ [Hfee [Hr _]]]]]]. auto.
Qed.

(* ---- C02 with the enforcement flag as premise ---- *)
Lemma bip30_on cf u b h u' undo :
  cf_bip30 cf = true -> connect_block cf u b h = Ok (u', undo) -> bip30_violated u b = false.
Proof. intros Hb Hc. apply connect_block_inv in Hc. destruct Hc as [_ [Hv _]]. apply Hv. exact Hb. Qed.

Theorem no_double_spend_block cf u b h u' undo :
  cf_bip30 cf = true -> sorted u -> NoDup (map t_id b) ->
  connect_block cf u b h = Ok (u', undo) -> NoDup (block_spends b).
Proof.
  intros Hb Hs Hnd Hc. apply (connect_block_closed cf u b h u' undo Hs (bip30_on _ _ _ _ _ _ Hb Hc) Hnd Hc).
Qed.

Theorem view_is_created_minus_spent cf u b h u' undo :
  cf_bip30 cf = true -> sorted u -> NoDup (map t_id b) ->
  connect_block cf u b h = Ok (u', undo) ->
  forall k, lookup u' k = if existsb (oeqb k) (block_spends b) then None
                          else match lookup (block_creates b h) k with Some c => Some c | None => lookup u k end.
Proof.
  intros Hb Hs Hnd Hc. apply (connect_block_closed cf u b h u' undo Hs (bip30_on _ _ _ _ _ _ Hb Hc) Hnd Hc).
Qed.

Theorem no_forward_spend_on cf u b h u' undo pre t post :
  cf_bip30 cf = true -> sorted u -> NoDup (map t_id b) ->
  connect_block cf u b h = Ok (u', undo) -> b = pre ++ t :: post ->
  forall o t', In o (tx_spends t) -> In t' (t :: post) -> ~ In o (tx_outpoints t').
Proof.
  intros Hb Hs Hnd Hc. apply (no_forward_spend cf u b h u' undo pre t post Hs (bip30_on _ _ _ _ _ _ Hb Hc) Hnd Hc).
Qed.

(* an unspendable output never enters: whatever is in the new view and was not in the old one is a
   spendable output of a transaction of the block *)
Theorem unspendable_never_enters cf u b h u' undo k c :
  sorted u -> connect_block cf u b h = Ok (u', undo) -> lookup u' k = Some c -> lookup u k <> Some c ->
  exists t o, In t b /\ fst k = t_id t /\ In k (tx_outpoints t) /\ In o (t_out t) /\ o_spendable o = true /\
              c = mk_coin o h (is_cb t).
Proof.
  intros Hs Hc Hl Hn. destruct (connect_block_provenance _ _ _ _ _ _ _ _ Hs Hc Hl) as [H|H]; [contradiction|exact H].
Qed.

(* ---- C09 with the enforcement flag as premise ---- *)
Theorem disconnect_connect_on cf u b h u' undo :
  cf_bip30 cf = true -> wf_utxo u -> 0 < h ->
  connect_block cf u b h = Ok (u', undo) -> disconnect_block cf u' b undo h = dr_ok u.
Proof. intros Hb Hwf Hh Hc. apply (disconnect_connect cf u b h u' undo Hwf Hh (bip30_on _ _ _ _ _ _ Hb Hc) Hc). Qed.

(* the view after any history is the fold of ConnectBlock over the active chain *)
Theorem utxo_is_replay cf ops :
  cf_bip30 cf = true ->
  exists s, replay cf (chain_blocks (run cf genesis_state ops)) = Some s /\
            cs_utxo s = cs_utxo (run cf genesis_state ops) /\ cs_chain s = cs_chain (run cf genesis_state ops).
Proof.
  intros Hb. exists (run cf genesis_state ops). split; [apply (history_independent cf ops Hb)|split; reflexivity].
Qed.
(* two histories that end on the same active chain end with the same view and the same undo data *)
Theorem same_chain_same_view cf ops1 ops2 :
  cf_bip30 cf = true ->
  chain_blocks (run cf genesis_state ops1) = chain_blocks (run cf genesis_state ops2) ->
  run cf genesis_state ops1 = run cf genesis_state ops2.
Proof.
  intros Hb He. pose proof (history_independent cf ops1 Hb) as H1. pose proof (history_independent cf ops2 Hb) as H2.
  cbv zeta in H1, H2. rewrite He in H1. congruence.
Qed.

(* ---- the executable predicates ---- *)
Lemma utxo_eqb_eq a b : utxo_eqb a b = true -> a = b.
Proof.
  revert b. induction a as [|[k c] ra IH]; intros [|[k' c'] rb]; cbn [utxo_eqb]; try discriminate; [reflexivity|].
  intros H. apply andb_prop in H. destruct H as [H H5]. apply andb_prop in H. destruct H as [H H4].
  apply andb_prop in H. destruct H as [H H3]. apply andb_prop in H. destruct H as [H1 H2].
  apply oeqb_eq in H1. apply Z.eqb_eq in H2, H3. apply Bool.eqb_prop in H4. subst k'.
  destruct c, c'. cbn in *. subst. f_equal. apply IH. assumption.
Qed.

Theorem holds_C09_sound cf chain reported :
  holds_C09 cf chain reported = true -> exists s, replay cf chain = Some s /\ cs_utxo s = canon reported.
Proof.
  unfold holds_C09. destruct (replay cf chain) as [s|]; [|discriminate]. intros H. exists s. split; [reflexivity|].
  apply utxo_eqb_eq. exact H.
Qed.
Theorem holds_C01_sound interval chain reported :
  holds_C01 interval chain reported = true ->
  (exists a, scan_chain interval [] chain 1 = Some a) /\ total (canon reported) <= subsidy_sum interval (length chain).
Proof.
  unfold holds_C01. intros H. apply andb_prop in H. destruct H as [H1 H2]. split; [|lia].
  destruct (scan_chain interval [] chain 1) as [a|]; [exists a; reflexivity|discriminate].
Qed.
Theorem holds_C02_sound interval chain reported :
  holds_C02 interval chain reported = true -> scan_chain interval [] chain 1 = Some (canon reported).
Proof.
  unfold holds_C02. destruct (scan_chain interval [] chain 1) as [a|]; [|discriminate]. intros H.
  apply utxo_eqb_eq in H. congruence.
Qed.
(* the scan refuses a transaction whose inputs are not all available or that creates more than it spends *)
Theorem scan_tx_sound avail t h a f :
  scan_tx avail t h = Some (a, f) ->
  (forall o, In o (map i_prev (t_in t)) -> lookup avail o <> None) /\ 0 <= f.
Proof.
  unfold scan_tx. destruct (scan_inputs avail (map i_prev (t_in t))) as [[a0 v]|] eqn:E; [|discriminate].
  destruct (v <? sum_out t) eqn:Ev; [discriminate|]. destruct (scan_adds a0 (tx_creates t h)); [|discriminate].
  intros H. injection H as <- <-. split; [|lia].
  clear Ev. revert avail a0 v E. induction (map i_prev (t_in t)) as [|o r IH]; intros avail a0 v E x Hx; [destruct Hx|].
  cbn [scan_inputs] in E. destruct (lookup avail o) as [c|] eqn:El; [|discriminate].
  destruct (scan_inputs (remove avail o) r) as [[a1 v1]|] eqn:Er; [|discriminate].
  destruct Hx as [<-|Hx]; [congruence|].
  destruct (outpoint_dec x o) as [->|Hne]; [congruence|].
  specialize (IH _ _ _ Er x Hx). rewrite lookup_remove_neq in IH by exact Hne. exact IH.
Qed.

(* ---- C02 with "the id determines the transaction" instead of "the ids are distinct" ---- *)
Definition ids_determine_txs (b : block) : Prop := forall t t', In t b -> In t' b -> t_id t = t_id t' -> t = t'.

Theorem accepted_block_distinct_ids_on cf u b h u' undo :
  cf_bip30 cf = true -> sorted u -> ids_determine_txs b ->
  connect_block cf u b h = Ok (u', undo) -> NoDup (map t_id b).
Proof. intros Hb Hs Hi Hc. apply (accepted_block_distinct_ids cf u b h u' undo Hs (bip30_on _ _ _ _ _ _ Hb Hc) Hi Hc). Qed.

Theorem no_double_spend_block_inj cf u b h u' undo :
  cf_bip30 cf = true -> sorted u -> ids_determine_txs b ->
  connect_block cf u b h = Ok (u', undo) -> NoDup (block_spends b).
Proof.
  intros Hb Hs Hi Hc. apply (no_double_spend_block cf u b h u' undo Hb Hs); [|exact Hc].
  apply (accepted_block_distinct_ids_on cf u b h u' undo Hb Hs Hi Hc).
Qed.
Theorem no_forward_spend_inj cf u b h u' undo pre t post :
  cf_bip30 cf = true -> sorted u -> ids_determine_txs b ->
  connect_block cf u b h = Ok (u', undo) -> b = pre ++ t :: post ->
  forall o t', In o (tx_spends t) -> In t' (t :: post) -> ~ In o (tx_outpoints t').
Proof.
  intros Hb Hs Hi Hc. apply (no_forward_spend_on cf u b h u' undo pre t post Hb Hs); [|exact Hc].
  apply (accepted_block_distinct_ids_on cf u b h u' undo Hb Hs Hi Hc).
Qed.
Theorem view_is_created_minus_spent_inj cf u b h u' undo :
  cf_bip30 cf = true -> sorted u -> ids_determine_txs b ->
  connect_block cf u b h = Ok (u', undo) ->
  forall k, lookup u' k = if existsb (oeqb k) (block_spends b) then None
                          else match lookup (block_creates b h) k with Some c => Some c | None => lookup u k end.
Proof.
  intros Hb Hs Hi Hc. apply (view_is_created_minus_spent cf u b h u' undo Hb Hs); [|exact Hc].
  apply (accepted_block_distinct_ids_on cf u b h u' undo Hb Hs Hi Hc).
Qed.

(* a decision procedure for NoDup on lists of numbers (used by the examples) *)
Fixpoint nodup_zb (l : list Z) : bool :=
  match l with [] => true | x :: r => negb (existsb (Z.eqb x) r) && nodup_zb r end.
Lemma nodup_zb_sound l : nodup_zb l = true -> NoDup l.
Proof.
  induction l as [|x r IH]; cbn [nodup_zb]; intros H; [constructor|].
  apply andb_prop in H. destruct H as [H1 H2]. constructor; [|apply IH; exact H2].
  intros Hin. apply negb_true_iff in H1. assert (existsb (Z.eqb x) r = true).
  { apply existsb_exists. exists x. split; [exact Hin|apply Z.eqb_refl]. }
  congruence.
Qed.
