(* C63 -- structure of the notification stream (block notifications of a step, UpdatedBlockTip, removed-for-block),
   the refuted clause, and the SerialTaskRunner queue. *)
From BV Require Import lib.Ints model.Notify proofs.NotifyPool proofs.NotifySteps proofs.NotifyConnect proofs.NotifyMain.
Local Open Scope Z_scope.

(* ---- a generic "every emitted notification satisfies P" principle ---- *)

Section EventsForall.
  Variable T : tree.
  Variable P : event -> Prop.
  Hypothesis P_rem : forall t r, P (EvRem t r).
  Hypothesis P_add : forall t, P (EvAdd t).

  Lemma F_rems : forall l p p' ev, apply_rems p l = Some (p', ev) -> Forall P ev.
  Proof.
    induction l as [|[t r] l IH]; intros p p' ev H; simpl in H.
    - inversion H; subst. constructor.
    - destruct (memb t p); [|discriminate]. destruct (apply_rems (rem1 t p) l) as [[p1 e1]|] eqn:E; [|discriminate].
      inversion H; subst. apply Forall_app. split; [|eapply IH; eauto]. destruct (is_block_reason r); repeat constructor. apply P_rem.
  Qed.

  Lemma F_mpop chain p o p' ev : exec_mpop T chain p o = Some (p', ev) -> Forall P ev.
  Proof.
    intros H. destruct o as [t repl limit | l]; simpl in H.
    - destruct (memb t p || confirmed T chain t); [discriminate|].
      destruct (forallb (fun x => is_limit_reason (snd x)) limit); simpl in H; [|discriminate].
      destruct (apply_rems p (map (fun x => (x, RReplaced)) repl)) as [[p1 e1]|] eqn:E1; [|discriminate].
      destruct (apply_rems (t :: p1) limit) as [[p2 e2]|] eqn:E2; [|discriminate].
      inversion H; subst. apply Forall_app. split; [eapply F_rems; eauto|]. apply Forall_app. split; [eapply F_rems; eauto|].
      destruct (memb t _); repeat constructor. apply P_add.
    - destruct (forallb (fun x => negb (is_block_reason (snd x))) l); [|discriminate]. eapply F_rems; eauto.
  Qed.

  Lemma F_mpops chain : forall l p p' ev, exec_mpops T chain p l = Some (p', ev) -> Forall P ev.
  Proof.
    induction l as [|o l IH]; intros p p' ev H; simpl in H.
    - inversion H; subst. constructor.
    - destruct (exec_mpop T chain p o) as [[p1 e1]|] eqn:E1; [|discriminate].
      destruct (exec_mpops T chain p1 l) as [[p2 e2]|] eqn:E2; [|discriminate].
      inversion H; subst. apply Forall_app. split; [eapply F_mpop; eauto | eapply IH; eauto].
  Qed.

  Hypothesis P_disc : forall b bi, T b = Some bi -> P (EvDisc b (bi_prev bi) (bi_txs bi)).

  Lemma F_disc s ev rc s1 e1 : disconnect_tip T s ev rc = Some (s1, e1) -> Forall P e1.
  Proof.
    unfold disconnect_tip. intros H. destruct (ns_chain s) as [|b [|p rest]]; try discriminate.
    destruct (T b) as [bi|] eqn:Eb; [|discriminate].
    destruct (apply_rems (ns_pool s) (map (fun t => (t, RReorg)) ev)) as [[p' e]|] eqn:Er; [|discriminate].
    inversion H; subst. apply Forall_app. split; [eapply F_rems; eauto|]. repeat constructor. apply P_disc. exact Eb.
  Qed.

  Lemma F_discs : forall l s s1 e1, disconnect_tips T s l = Some (s1, e1) -> Forall P e1.
  Proof.
    induction l as [|[ev rc] l IH]; intros s s1 e1 H; simpl in H.
    - inversion H; subst. constructor.
    - destruct (disconnect_tip T s ev rc) as [[s2 e2]|] eqn:E1; [|discriminate].
      destruct (disconnect_tips T s2 l) as [[s3 e3]|] eqn:E2; [|discriminate].
      inversion H; subst. apply Forall_app. split; [eapply F_disc; eauto | eapply IH; eauto].
  Qed.

  Hypothesis P_remblock : forall b bi txs, T b = Some bi -> (forall t, In t txs -> In t (bi_txs bi)) -> P (EvRemBlock b txs).

  Lemma F_conn s c s1 e1 : connect_tip T s c = Some (s1, e1) -> Forall P e1.
  Proof.
    unfold connect_tip. intros H. destruct (T (c_blk c)) as [bi|] eqn:Eb; [|discriminate].
    destruct (ns_chain s) as [|tp rest]; [discriminate|].
    destruct (negb (bi_prev bi =? tp)); [discriminate|].
    destruct (memb (c_blk c) (tp :: rest)); [discriminate|].
    destruct (forallb (conn_rem_ok (bi_txs bi)) (c_rem c)) eqn:Eok; cbn [negb] in H; [|discriminate].
    destruct (apply_rems (ns_pool s) (c_rem c)) as [[p' ev]|] eqn:Er; [|discriminate].
    destruct (existsb (fun t => memb t p') (bi_txs bi)); [discriminate|].
    inversion H; subst. apply Forall_app. split; [eapply F_rems; eauto|].
    destruct (ns_ibd s && negb (c_recent c)); repeat constructor.
    apply (P_remblock _ bi); [exact Eb|]. apply conn_rem_ok_block. exact Eok.
  Qed.

  Lemma F_conns : forall l s s1 e1, connect_tips T s l = Some (s1, e1) -> Forall P e1.
  Proof.
    induction l as [|c l IH]; intros s s1 e1 H; simpl in H.
    - inversion H; subst. constructor.
    - destruct (connect_tip T s c) as [[s2 e2]|] eqn:E1; [|discriminate].
      destruct (connect_tips T s2 l) as [[s3 e3]|] eqn:E2; [|discriminate].
      inversion H; subst. apply Forall_app. split; [eapply F_conn; eauto | eapply IH; eauto].
  Qed.

  Hypothesis P_conn : forall b bi, T b = Some bi -> P (EvConn b (bi_prev bi) (bi_txs bi)).

  Lemma conns_defined : forall l s s1 e1 c, connect_tips T s l = Some (s1, e1) -> In c l -> exists bi, T (c_blk c) = Some bi.
  Proof.
    induction l as [|c0 l IH]; intros s s1 e1 c H Hin; [destruct Hin|]. simpl in H.
    destruct (connect_tip T s c0) as [[s2 e2]|] eqn:E1; [|discriminate].
    destruct (connect_tips T s2 l) as [[s3 e3]|] eqn:E2; [|discriminate].
    destruct Hin as [Hc|Hc]; [|eapply IH; eauto]. subst c0. unfold connect_tip in E1.
    destruct (T (c_blk c)) as [bi|]; [exists bi; reflexivity | discriminate].
  Qed.

  Lemma F_step s st s' ev : exec_step T s st = Some (s', ev) -> Forall P ev.
  Proof.
    unfold exec_step. intros H.
    assert (H' : match disconnect_tips T s (st_disc st) with
                 | None => None
                 | Some (s1, e1) =>
                     match connect_tips T s1 (st_conn st) with
                     | None => None
                     | Some (s2, e2) =>
                         match exec_mpops T (ns_chain s2) (ns_pool s2) (st_fix st) with
                         | None => None
                         | Some (p3, e3) => Some ({| ns_chain := ns_chain s2; ns_pool := p3; ns_ibd := ns_ibd s2 |}, e1 ++ e2 ++ e3 ++ map (conn_event T) (st_conn st))
                         end
                     end
                 end = Some (s', ev)).
    { destruct (st_disc st); [destruct (st_fix st); [exact H | discriminate] | exact H]. }
    clear H.
    destruct (disconnect_tips T s (st_disc st)) as [[s1 e1]|] eqn:E1; [|discriminate].
    destruct (connect_tips T s1 (st_conn st)) as [[s2 e2]|] eqn:E2; [|discriminate].
    destruct (exec_mpops T (ns_chain s2) (ns_pool s2) (st_fix st)) as [[p3 e3]|] eqn:E3; [|discriminate].
    inversion H'; subst. repeat (apply Forall_app; split).
    - eapply F_discs; eauto.
    - eapply F_conns; eauto.
    - eapply F_mpops; eauto.
    - apply Forall_forall. intros e He. apply in_map_iff in He. destruct He as [c [Hc Hin]]. subst e.
      destruct (conns_defined _ _ _ _ c E2 Hin) as [bi Hbi]. unfold conn_event. rewrite Hbi. apply P_conn. exact Hbi.
  Qed.

  Lemma F_steps : forall l s s' ev, exec_steps T s l = Some (s', ev) -> Forall P ev.
  Proof.
    induction l as [|st l IH]; intros s s' ev H; simpl in H.
    - inversion H; subst. constructor.
    - destruct (exec_step T s st) as [[s1 e1]|] eqn:E1; [|discriminate].
      destruct (exec_steps T s1 l) as [[s2 e2]|] eqn:E2; [|discriminate].
      inversion H; subst. apply Forall_app. split; [eapply F_step; eauto | eapply IH; eauto].
  Qed.

  Hypothesis P_tip : forall nw f, P (EvTip nw f).

  Lemma F_iter s it s' ev : exec_iter T s it = Some (s', ev) -> Forall P ev.
  Proof.
    unfold exec_iter. intros H. destruct it as [|st it']; [inversion H; constructor|].
    destruct (exec_steps T s (st :: it')) as [[s1 e1]|] eqn:E1; [|discriminate].
    destruct (ns_chain s1) as [|nw rest]; [discriminate|].
    destruct (find_fork (nw :: rest) (ns_chain s)) as [f|]; [|discriminate].
    inversion H; subst. apply Forall_app. split; [eapply F_steps; eauto|]. destruct (f =? nw); repeat constructor. apply P_tip.
  Qed.

  Lemma F_iters : forall l s s' ev, exec_iters T s l = Some (s', ev) -> Forall P ev.
  Proof.
    induction l as [|it l IH]; intros s s' ev H; simpl in H.
    - inversion H; subst. constructor.
    - destruct (exec_iter T s it) as [[s1 e1]|] eqn:E1; [|discriminate].
      destruct (exec_iters T s1 l) as [[s2 e2]|] eqn:E2; [|discriminate].
      inversion H; subst. apply Forall_app. split; [eapply F_iter; eauto | eapply IH; eauto].
  Qed.

  Lemma F_inval : forall l s s' ev, exec_invalidate T s l = Some (s', ev) -> Forall P ev.
  Proof.
    induction l as [|[[evict rc] fx] l IH]; intros s s' ev H; simpl in H.
    - inversion H; subst. constructor.
    - destruct (disconnect_tip T s evict rc) as [[s1 e1]|] eqn:E1; [|discriminate].
      destruct (exec_mpops T (ns_chain s1) (ns_pool s1) fx) as [[p2 e2]|] eqn:E2; [|discriminate].
      destruct (exec_invalidate T _ l) as [[s3 e3]|] eqn:E3; [|discriminate].
      inversion H; subst. repeat (apply Forall_app; split); [eapply F_disc; eauto | eapply F_mpops; eauto | eapply IH; eauto].
  Qed.

  Lemma F_ops : forall l s s' ev, exec_ops T s l = Some (s', ev) -> Forall P ev.
  Proof.
    induction l as [|o l IH]; intros s s' ev H; simpl in H.
    - inversion H; subst. constructor.
    - destruct (exec_op T s o) as [[s1 e1]|] eqn:E1; [|discriminate].
      destruct (exec_ops T s1 l) as [[s2 e2]|] eqn:E2; [|discriminate].
      inversion H; subst. apply Forall_app. split; [|eapply IH; eauto].
      destruct o as [its | li | m]; simpl in E1.
      + eapply F_iters; eauto.
      + eapply F_inval; eauto.
      + destruct (exec_mpop T (ns_chain s) (ns_pool s) m) as [[p ev']|] eqn:E; [|discriminate]. inversion E1; subst. eapply F_mpop; eauto.
  Qed.
End EventsForall.

(* every notification reports what the block index / block files hold: the reported block's predecessor and
   transactions are the block's, and the transactions reported "removed for block" are transactions of that block *)
Definition ev_faithful (T : tree) (e : event) : Prop :=
  match e with
  | EvDisc b p txs | EvConn b p txs => T b = Some {| bi_prev := p; bi_txs := txs |}
  | EvRemBlock b txs => forall t, In t txs -> In t (txs_of T b)
  | _ => True
  end.

Theorem events_faithful T ops s s' evs : exec_ops T s ops = Some (s', evs) -> Forall (ev_faithful T) evs.
Proof.
  apply F_ops; simpl; auto.
  - intros b bi H. rewrite H. destruct bi; reflexivity.
  - intros b bi txs H Hin t Ht. unfold txs_of. rewrite H. auto.
  - intros b bi H. rewrite H. destruct bi; reflexivity.
Qed.
