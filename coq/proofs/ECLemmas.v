(* C50 — proofs about the secp256k1 model (model/EC.v): the limb-wise comparisons of the C code equal the
   integer comparisons with n, n/2 and p; low-S normalisation; field reduction; (de)compression. *)
From Coq Require Import NArith ZArith Lia Znumtheory.
From BV Require Import lib.Ints gen.Params_gen model.EC.
Local Open Scope Z_scope.

(* ---------------------------------------------------------------------------------------------- *)
(* constants of the compiled library *)
Lemma secp_p_value : secp_p = 2 ^ 256 - 2 ^ 32 - 977.
Proof. vm_compute. reflexivity. Qed.
Lemma secp_n_value : secp_n = 0xFFFFFFFFFFFFFFFFFFFFFFFFFFFFFFFEBAAEDCE6AF48A03BBFD25E8CD0364141.
Proof. vm_compute. reflexivity. Qed.
(* the largest s that secp256k1_ecdsa_signature_normalize leaves alone (found by bisection on the
   compiled library) is n/2 *)
Lemma low_s_max_is_half_n : SECP256K1_LOW_S_MAX = secp_n / 2.
Proof. vm_compute. reflexivity. Qed.
Lemma generator_on_curve : on_curve SECP256K1_GX SECP256K1_GY = true.
Proof. vm_compute. reflexivity. Qed.

(* ---------------------------------------------------------------------------------------------- *)
(* 64-bit limbs *)
Lemma limb64_spec : forall x i, 0 <= i -> limb64 x i = (x / 2 ^ (64 * i)) mod 2 ^ 64.
Proof. intros. unfold limb64. rewrite Z.shiftr_div_pow2 by lia. rewrite Z.land_ones by lia. reflexivity. Qed.

Lemma limbs64_decomp : forall x, 0 <= x < 2 ^ 256 ->
  let d i := limb64 x i in
  x = d 0 + 2 ^ 64 * d 1 + 2 ^ 128 * d 2 + 2 ^ 192 * d 3 /\
  0 <= d 0 < 2 ^ 64 /\ 0 <= d 1 < 2 ^ 64 /\ 0 <= d 2 < 2 ^ 64 /\ 0 <= d 3 < 2 ^ 64.
Proof.
  intros x Hx d. unfold d. rewrite !limb64_spec by lia.
  change (64 * 0) with 0. change (64 * 1) with 64. change (64 * 2) with 128. change (64 * 3) with 192.
  change (2 ^ 0) with 1. rewrite Z.div_1_r.
  change (2 ^ 64) with 18446744073709551616 in *.
  change (2 ^ 128) with (18446744073709551616 * 18446744073709551616) in *.
  change (2 ^ 192) with (18446744073709551616 * 18446744073709551616 * 18446744073709551616) in *.
  change (2 ^ 256) with (18446744073709551616 * 18446744073709551616 * 18446744073709551616 * 18446744073709551616) in *.
  rewrite <- !Z.div_div by lia.
  set (B := 18446744073709551616) in *.
  assert (HB : B = 18446744073709551616) by reflexivity. clearbody B.
  pose proof (Z.div_mod x B ltac:(lia)) as E0. pose proof (Z.mod_pos_bound x B ltac:(lia)) as R0.
  set (x1 := x / B) in *.
  pose proof (Z.div_mod x1 B ltac:(lia)) as E1. pose proof (Z.mod_pos_bound x1 B ltac:(lia)) as R1.
  set (x2 := x1 / B) in *.
  pose proof (Z.div_mod x2 B ltac:(lia)) as E2. pose proof (Z.mod_pos_bound x2 B ltac:(lia)) as R2.
  set (x3 := x2 / B) in *.
  assert (H1 : 0 <= x1 < B * B * B) by (unfold x1; split; [apply Z.div_pos; lia|apply Z.div_lt_upper_bound; lia]).
  assert (H2 : 0 <= x2 < B * B) by (unfold x2; split; [apply Z.div_pos; lia|apply Z.div_lt_upper_bound; lia]).
  assert (H3 : 0 <= x3 < B) by (unfold x3; split; [apply Z.div_pos; lia|apply Z.div_lt_upper_bound; lia]).
  rewrite (Z.mod_small x3 B) by lia.
  repeat split; lia.
Qed.

(* ---------------------------------------------------------------------------------------------- *)
(* secp256k1_scalar_is_high  <=>  s > n/2;   secp256k1_scalar_check_overflow  <=>  s >= n *)
Definition B64 : Z := 18446744073709551616.

Lemma is_high_lex : forall d0 d1 d2 d3 h0 h1 h2 h3,
  0 <= d0 < B64 -> 0 <= d1 < B64 -> 0 <= d2 < B64 -> 0 <= d3 < B64 ->
  0 <= h0 < B64 -> 0 <= h1 < B64 -> h2 = B64 - 1 -> 0 <= h3 < B64 ->
  (let no := d3 <? h3 in
   let yes := (h3 <? d3) && negb no in
   let no := no || ((d2 <? h2) && negb yes) in
   let no := no || ((d1 <? h1) && negb yes) in
   let yes := yes || ((h1 <? d1) && negb no) in
   let yes := yes || ((h0 <? d0) && negb no) in
   yes) =
  (h0 + B64 * h1 + B64 * B64 * h2 + B64 * B64 * B64 * h3 <? d0 + B64 * d1 + B64 * B64 * d2 + B64 * B64 * B64 * d3).
Proof.
  intros d0 d1 d2 d3 h0 h1 h2 h3 D0 D1 D2 D3 H0 H1 H2 H3. cbv zeta. unfold B64 in *.
  destruct (Z.ltb_spec d3 h3), (Z.ltb_spec h3 d3), (Z.ltb_spec d2 h2), (Z.ltb_spec d1 h1), (Z.ltb_spec h1 d1), (Z.ltb_spec h0 d0);
    cbn [negb andb orb];
    match goal with |- _ = (?a <? ?b) => destruct (Z.ltb_spec a b) end; try reflexivity; exfalso; lia.
Qed.

Lemma overflow_lex : forall d0 d1 d2 d3 n0 n1 n2 n3,
  0 <= d0 < B64 -> 0 <= d1 < B64 -> 0 <= d2 < B64 -> 0 <= d3 < B64 ->
  0 <= n0 < B64 -> 0 <= n1 < B64 -> 0 <= n2 < B64 -> n3 = B64 - 1 ->
  (let no := d3 <? n3 in
   let no := no || (d2 <? n2) in
   let yes := (n2 <? d2) && negb no in
   let no := no || (d1 <? n1) in
   let yes := yes || ((n1 <? d1) && negb no) in
   let yes := yes || ((n0 <=? d0) && negb no) in
   yes) =
  (n0 + B64 * n1 + B64 * B64 * n2 + B64 * B64 * B64 * n3 <=? d0 + B64 * d1 + B64 * B64 * d2 + B64 * B64 * B64 * d3).
Proof.
  intros d0 d1 d2 d3 n0 n1 n2 n3 D0 D1 D2 D3 N0 N1 N2 N3. cbv zeta. unfold B64 in *.
  destruct (Z.ltb_spec d3 n3), (Z.ltb_spec d2 n2), (Z.ltb_spec n2 d2), (Z.ltb_spec d1 n1), (Z.ltb_spec n1 d1), (Z.leb_spec n0 d0);
    cbn [negb andb orb];
    match goal with |- _ = (?a <=? ?b) => destruct (Z.leb_spec a b) end; try reflexivity; exfalso; lia.
Qed.

Lemma decomp_B64 : forall x, 0 <= x < 2 ^ 256 ->
  x = limb64 x 0 + B64 * limb64 x 1 + B64 * B64 * limb64 x 2 + B64 * B64 * B64 * limb64 x 3 /\
  0 <= limb64 x 0 < B64 /\ 0 <= limb64 x 1 < B64 /\ 0 <= limb64 x 2 < B64 /\ 0 <= limb64 x 3 < B64.
Proof. intros x Hx. exact (limbs64_decomp x Hx). Qed.

Theorem scalar_is_high_spec : forall s, 0 <= s < 2 ^ 256 -> scalar_is_high s = (secp_n / 2 <? s).
Proof.
  intros s Hs. unfold scalar_is_high.
  destruct (decomp_B64 s Hs) as (Es & S0 & S1 & S2 & S3).
  assert (Hh : 0 <= secp_half_n < 2 ^ 256) by (vm_compute; split; congruence).
  destruct (decomp_B64 secp_half_n Hh) as (Eh & H0 & H1 & H2 & H3).
  pose proof (is_high_lex (limb64 s 0) (limb64 s 1) (limb64 s 2) (limb64 s 3)
             (limb64 secp_half_n 0) (limb64 secp_half_n 1) (limb64 secp_half_n 2) (limb64 secp_half_n 3)
             S0 S1 S2 S3 H0 H1 ltac:(vm_compute; reflexivity) H3) as L.
  cbv beta zeta in L |- *. rewrite L, <- Es, <- Eh. reflexivity.
Qed.

Theorem scalar_check_overflow_spec : forall s, 0 <= s < 2 ^ 256 -> scalar_check_overflow s = (secp_n <=? s).
Proof.
  intros s Hs. unfold scalar_check_overflow.
  destruct (decomp_B64 s Hs) as (Es & S0 & S1 & S2 & S3).
  assert (Hh : 0 <= secp_n < 2 ^ 256) by (vm_compute; split; congruence).
  destruct (decomp_B64 secp_n Hh) as (Eh & H0 & H1 & H2 & H3).
  pose proof (overflow_lex (limb64 s 0) (limb64 s 1) (limb64 s 2) (limb64 s 3)
             (limb64 secp_n 0) (limb64 secp_n 1) (limb64 secp_n 2) (limb64 secp_n 3)
             S0 S1 S2 S3 H0 H1 H2 ltac:(vm_compute; reflexivity)) as L.
  cbv beta zeta in L |- *. rewrite L, <- Es, <- Eh. reflexivity.
Qed.

(* ---------------------------------------------------------------------------------------------- *)
(* low-S normalisation *)
Lemma secp_n_bounds : 2 < secp_n < 2 ^ 256 /\ secp_n mod 2 = 1.
Proof. vm_compute. repeat split; congruence. Qed.

(* secp256k1_ecdsa_signature_normalize: reports s > n/2, maps s to min(s, n-s), result is never high,
   and normalising again changes nothing *)
Theorem sig_normalize_spec : forall r s, 0 < s < secp_n ->
  sig_normalize (r, s) = (secp_n / 2 <? s, (r, Z.min s (secp_n - s))).
Proof.
  intros r s Hs. destruct secp_n_bounds as [[Hn1 Hn2] Hodd]. unfold sig_normalize.
  rewrite scalar_is_high_spec by lia.
  destruct (Z.ltb_spec (secp_n / 2) s) as [Hh|Hl].
  - unfold sc_neg. destruct (Z.eqb_spec s 0); [lia|].
    f_equal. f_equal. pose proof (Z.div_mod secp_n 2 ltac:(lia)). lia.
  - f_equal. f_equal. pose proof (Z.div_mod secp_n 2 ltac:(lia)). lia.
Qed.

Theorem sig_normalize_low : forall r s, 0 < s < secp_n ->
  let '(_, (r', s')) := sig_normalize (r, s) in
  r' = r /\ 0 < s' <= secp_n / 2 /\ (s' = s \/ s' = secp_n - s) /\ sig_normalize (r', s') = (false, (r', s')).
Proof.
  intros r s Hs. rewrite sig_normalize_spec by assumption.
  destruct secp_n_bounds as [[Hn1 Hn2] Hodd].
  pose proof (Z.div_mod secp_n 2 ltac:(lia)) as Hd.
  assert (Hm : 0 < Z.min s (secp_n - s) <= secp_n / 2) by lia.
  repeat split; try lia.
  rewrite sig_normalize_spec by lia.
  destruct (Z.ltb_spec (secp_n / 2) (Z.min s (secp_n - s))); [lia|].
  f_equal. f_equal. lia.
Qed.

(* CPubKey::CheckLowS = !normalize(...)  accepts exactly s <= n/2 *)
Corollary check_low_s_spec : forall r s, 0 < s < secp_n ->
  negb (fst (sig_normalize (r, s))) = (s <=? SECP256K1_LOW_S_MAX).
Proof.
  intros r s Hs. rewrite sig_normalize_spec by assumption. simpl fst.
  rewrite low_s_max_is_half_n. rewrite Z.ltb_antisym, Bool.negb_involutive. reflexivity.
Qed.

(* ---------------------------------------------------------------------------------------------- *)
(* big-endian bytes *)
Definition bytes_ok (l : list N) : Prop := Forall (fun b => (b < 256)%N) l.

Lemma be_val_acc_app : forall l1 l2 acc, be_val_acc acc (l1 ++ l2) = be_val_acc (be_val_acc acc l1) l2.
Proof. induction l1; intros; simpl; auto. Qed.

Lemma be_val_acc_bound : forall l acc, bytes_ok l -> 0 <= acc ->
  acc * 256 ^ Z.of_nat (length l) <= be_val_acc acc l < (acc + 1) * 256 ^ Z.of_nat (length l).
Proof.
  induction l as [|b l IH]; intros acc Hl Hacc.
  - simpl. lia.
  - inversion Hl as [|? ? Hb Hl']; subst. cbn [be_val_acc length].
    rewrite Nat2Z.inj_succ, Z.pow_succ_r by lia.
    specialize (IH (acc * 256 + Z.of_N b) Hl' ltac:(lia)).
    assert (0 < 256 ^ Z.of_nat (length l)) by (apply Z.pow_pos_nonneg; lia).
    nia.
Qed.

Lemma be_val_bound : forall l, bytes_ok l -> 0 <= be_val l < 256 ^ Z.of_nat (length l).
Proof. intros l H. pose proof (be_val_acc_bound l 0 H ltac:(lia)). unfold be_val. lia. Qed.

Lemma le_bytes_z_length : forall k v, length (le_bytes_z k v) = k.
Proof. induction k; intros; simpl; auto. Qed.
Lemma be_bytes_z_length : forall k v, length (be_bytes_z k v) = k.
Proof. intros. unfold be_bytes_z. rewrite rev_length. apply le_bytes_z_length. Qed.

Lemma le_bytes_z_ok : forall k v, bytes_ok (le_bytes_z k v).
Proof.
  induction k; intros; simpl; constructor; [|apply IHk].
  pose proof (Z.mod_pos_bound v 256 ltac:(lia)). lia.
Qed.
Lemma be_bytes_z_ok : forall k v, bytes_ok (be_bytes_z k v).
Proof. intros. unfold be_bytes_z. apply Forall_rev. apply le_bytes_z_ok. Qed.

Lemma be_val_be_bytes : forall k v, 0 <= v < 256 ^ Z.of_nat k -> be_val (be_bytes_z k v) = v.
Proof.
  unfold be_val, be_bytes_z. induction k as [|k IH]; intros v Hv.
  - simpl in *. lia.
  - cbn [le_bytes_z rev]. rewrite be_val_acc_app. cbn [be_val_acc].
    rewrite Nat2Z.inj_succ, Z.pow_succ_r in Hv by lia.
    rewrite IH.
    + rewrite Z2N.id by (apply Z.mod_pos_bound; lia). pose proof (Z.div_mod v 256 ltac:(lia)). lia.
    + split; [apply Z.div_pos; lia|apply Z.div_lt_upper_bound; lia].
Qed.

Lemma be_bytes_be_val : forall l, bytes_ok l -> be_bytes_z (length l) (be_val l) = l.
Proof.
  intros l. rewrite <- (rev_involutive l). generalize (rev l). clear l. intros l Hl.
  apply Forall_rev in Hl. rewrite rev_involutive in Hl.
  rewrite rev_length. unfold be_bytes_z. f_equal.
  induction l as [|b l IH]; [reflexivity|].
  inversion Hl as [|? ? Hb Hl']; subst.
  cbn [rev length le_bytes_z]. unfold be_val in *. rewrite be_val_acc_app. cbn [be_val_acc].
  assert (E1 : (be_val_acc 0 (rev l) * 256 + Z.of_N b) mod 256 = Z.of_N b).
  { rewrite Z.add_comm, Z.mod_add by lia. apply Z.mod_small. lia. }
  assert (E2 : (be_val_acc 0 (rev l) * 256 + Z.of_N b) / 256 = be_val_acc 0 (rev l)).
  { rewrite Z.add_comm, Z.div_add by lia. rewrite Z.div_small by lia. lia. }
  rewrite E1, E2, N2Z.id, IH by assumption. reflexivity.
Qed.

(* ---------------------------------------------------------------------------------------------- *)
(* field reduction *)
Lemma secp_p_bounds : 3 < secp_p < 2 ^ 256 /\ secp_p mod 4 = 3 /\ secp_p + secp_c = 2 ^ 256 /\ 0 < secp_c.
Proof. vm_compute. repeat split; congruence. Qed.

Lemma fold256_spec : forall x, 0 <= x -> 0 <= fold256 x /\ fold256 x mod secp_p = x mod secp_p.
Proof.
  intros x Hx. destruct secp_p_bounds as ([Hp1 Hp2] & _ & Hc & Hc0). unfold fold256.
  rewrite Z.shiftr_div_pow2, Z.land_ones by lia.
  pose proof (Z.div_mod x (2 ^ 256) ltac:(lia)) as E. pose proof (Z.mod_pos_bound x (2 ^ 256) ltac:(lia)) as R.
  assert (Q : 0 <= x / 2 ^ 256) by (apply Z.div_pos; lia).
  set (q := x / 2 ^ 256) in *. set (r := x mod 2 ^ 256) in *. clearbody q r.
  split; [nia|].
  rewrite E. rewrite <- Hc.
  replace ((secp_p + secp_c) * q + r) with (q * secp_c + r + q * secp_p) by ring.
  rewrite Z.mod_add by lia. reflexivity.
Qed.

Theorem fred_spec : forall x, 0 <= x -> fred x = x mod secp_p.
Proof.
  intros x Hx. destruct secp_p_bounds as ([Hp1 Hp2] & _). unfold fred.
  destruct (fold256_spec x Hx) as [H1 E1]. destruct (fold256_spec (fold256 x) H1) as [H2 E2].
  rewrite <- E1, <- E2. set (t := fold256 (fold256 x)) in *.
  destruct (Z.ltb_spec t secp_p) as [Hlt|Hge].
  - symmetry. apply Z.mod_small. lia.
  - destruct (Z.ltb_spec (t - secp_p) secp_p) as [Hlt2|Hge2].
    + symmetry. replace t with (t - secp_p + 1 * secp_p) at 1 by ring. rewrite Z.mod_add by lia. apply Z.mod_small. lia.
    + replace t with (t - secp_p + 1 * secp_p) at 2 by ring. rewrite Z.mod_add by lia. reflexivity.
Qed.

Lemma fmul_spec : forall a b, 0 <= a -> 0 <= b -> fmul a b = (a * b) mod secp_p.
Proof. intros. unfold fmul. apply fred_spec. nia. Qed.
Lemma fsqr_spec : forall a, fsqr a = (a * a) mod secp_p.
Proof. intros. unfold fsqr. apply fred_spec. nia. Qed.
Lemma fadd_spec : forall a b, 0 <= a < secp_p -> 0 <= b < secp_p -> fadd a b = (a + b) mod secp_p.
Proof.
  intros a b Ha Hb. unfold fadd. destruct (Z.ltb_spec (a + b) secp_p).
  - symmetry. apply Z.mod_small. lia.
  - symmetry. transitivity ((a + b - secp_p + 1 * secp_p) mod secp_p); [f_equal; ring|].
    rewrite Z.mod_add by lia. apply Z.mod_small. lia.
Qed.
Lemma fneg_spec : forall a, 0 <= a < secp_p -> fneg a = (- a) mod secp_p /\ 0 <= fneg a < secp_p.
Proof.
  intros a Ha. unfold fneg. destruct (Z.eqb_spec a 0) as [->|Hn].
  - split; [reflexivity|lia].
  - split; [|lia]. symmetry. transitivity ((secp_p - a + (-1) * secp_p) mod secp_p); [f_equal; ring|].
    rewrite Z.mod_add by lia. apply Z.mod_small. lia.
Qed.

(* ---------------------------------------------------------------------------------------------- *)
(* secp256k1_fe_set_b32_limit: the 5 x 52 limb test is  value >= p *)
Lemma ztestbit_small : forall a k i, 0 <= a < 2 ^ k -> k <= i -> Z.testbit a i = false.
Proof.
  intros a k i [Ha0 Ha1] Hi. destruct (Z.eq_dec a 0) as [->|Hz]; [apply Z.bits_0|].
  assert (Hk : 0 <= k).
  { destruct (Z.le_gt_cases 0 k) as [|Hneg]; auto. rewrite Z.pow_neg_r in Ha1 by assumption. exfalso. lia. }
  apply Z.bits_above_log2; [assumption|].
  apply Z.lt_le_trans with k; [|assumption]. apply Z.log2_lt_pow2; [|assumption].
  lia.
Qed.

Lemma land_eq_ones_l : forall k a b, 0 <= k -> 0 <= a < 2 ^ k -> Z.land a b = Z.ones k -> a = Z.ones k.
Proof.
  intros k a b Hk Ha H. apply Z.bits_inj'. intros i Hi.
  destruct (Z.lt_ge_cases i k) as [Hlt|Hge].
  - rewrite Z.ones_spec_low by lia.
    assert (T : Z.testbit (Z.land a b) i = true) by (rewrite H; apply Z.ones_spec_low; lia).
    rewrite Z.land_spec in T. apply Bool.andb_true_iff in T. tauto.
  - rewrite Z.ones_spec_high by lia. apply (ztestbit_small a k); assumption.
Qed.

Lemma land_all_ones : forall k a b, 0 <= k -> 0 <= a < 2 ^ k -> 0 <= b < 2 ^ k ->
  (Z.land a b =? Z.ones k) = (a =? Z.ones k) && (b =? Z.ones k).
Proof.
  intros k a b Hk Ha Hb.
  destruct (Z.eqb_spec (Z.land a b) (Z.ones k)) as [E|E].
  - rewrite (land_eq_ones_l k a b Hk Ha E). rewrite Z.land_comm in E. rewrite (land_eq_ones_l k b a Hk Hb E).
    rewrite Z.eqb_refl. reflexivity.
  - destruct (Z.eqb_spec a (Z.ones k)) as [->|_]; [|reflexivity].
    destruct (Z.eqb_spec b (Z.ones k)) as [->|_]; [|reflexivity].
    rewrite Z.land_diag in E. contradiction.
Qed.

Lemma land_small : forall k a b, 0 <= k -> 0 <= a < 2 ^ k -> 0 <= b -> 0 <= Z.land a b < 2 ^ k.
Proof.
  intros k a b Hk Ha Hb. split; [apply Z.land_nonneg; lia|].
  assert (E : a = Z.land a (Z.ones k)) by (rewrite Z.land_ones by assumption; symmetry; apply Z.mod_small; assumption).
  rewrite E, <- Z.land_assoc, (Z.land_comm (Z.ones k) b), Z.land_assoc, Z.land_ones by assumption.
  apply Z.mod_pos_bound. apply Z.pow_pos_nonneg; lia.
Qed.

Lemma limb52_spec : forall x i, 0 <= i -> limb52 x i = (x / 2 ^ (52 * i)) mod 2 ^ 52.
Proof. intros. unfold limb52. rewrite Z.shiftr_div_pow2 by lia. rewrite Z.land_ones by lia. reflexivity. Qed.

Definition B52 : Z := 4503599627370496.
Lemma limbs52_decomp : forall x, 0 <= x < 2 ^ 256 ->
  x = limb52 x 0 + B52 * limb52 x 1 + B52 * B52 * limb52 x 2 + B52 * B52 * B52 * limb52 x 3 + B52 * B52 * B52 * B52 * limb52 x 4 /\
  0 <= limb52 x 0 < B52 /\ 0 <= limb52 x 1 < B52 /\ 0 <= limb52 x 2 < B52 /\ 0 <= limb52 x 3 < B52 /\ 0 <= limb52 x 4 < 2 ^ 48.
Proof.
  intros x Hx. rewrite !limb52_spec by lia.
  change (52 * 0) with 0. change (52 * 1) with 52. change (52 * 2) with 104. change (52 * 3) with 156. change (52 * 4) with 208.
  change (2 ^ 0) with 1. rewrite Z.div_1_r.
  change (2 ^ 52) with B52. change (2 ^ 104) with (B52 * B52). change (2 ^ 156) with (B52 * B52 * B52).
  change (2 ^ 208) with (B52 * B52 * B52 * B52).
  change (2 ^ 256) with (B52 * B52 * B52 * B52 * 2 ^ 48) in Hx.
  rewrite <- !Z.div_div by (unfold B52; lia).
  assert (HB : B52 = 4503599627370496) by reflexivity.
  set (B := B52) in *. clearbody B.
  pose proof (Z.div_mod x B ltac:(lia)) as E0. pose proof (Z.mod_pos_bound x B ltac:(lia)) as R0.
  set (x1 := x / B) in *.
  pose proof (Z.div_mod x1 B ltac:(lia)) as E1. pose proof (Z.mod_pos_bound x1 B ltac:(lia)) as R1.
  set (x2 := x1 / B) in *.
  pose proof (Z.div_mod x2 B ltac:(lia)) as E2. pose proof (Z.mod_pos_bound x2 B ltac:(lia)) as R2.
  set (x3 := x2 / B) in *.
  pose proof (Z.div_mod x3 B ltac:(lia)) as E3. pose proof (Z.mod_pos_bound x3 B ltac:(lia)) as R3.
  set (x4 := x3 / B) in *.
  change (2 ^ 48) with 281474976710656 in *.
  assert (H1 : 0 <= x1 < B * B * B * 281474976710656) by (unfold x1; split; [apply Z.div_pos; lia|apply Z.div_lt_upper_bound; lia]).
  assert (H2 : 0 <= x2 < B * B * 281474976710656) by (unfold x2; split; [apply Z.div_pos; lia|apply Z.div_lt_upper_bound; lia]).
  assert (H3 : 0 <= x3 < B * 281474976710656) by (unfold x3; split; [apply Z.div_pos; lia|apply Z.div_lt_upper_bound; lia]).
  assert (H4 : 0 <= x4 < 281474976710656) by (unfold x4; split; [apply Z.div_pos; lia|apply Z.div_lt_upper_bound; lia]).
  rewrite (Z.mod_small x4 B) by lia.
  repeat split; lia.
Qed.

Theorem fe_set_b32_limit_spec : forall b, bytes_ok b -> length b = 32%nat ->
  fe_set_b32_limit b = if be_val b <? secp_p then Some (be_val b) else None.
Proof.
  intros b Hb Hlen. unfold fe_set_b32_limit.
  pose proof (be_val_bound b Hb) as Hv. rewrite Hlen in Hv. change (256 ^ Z.of_nat 32) with (2 ^ 256) in Hv.
  set (v := be_val b) in *.
  destruct (limbs52_decomp v Hv) as (E & L0 & L1 & L2 & L3 & L4).
  change 0xFFFFFFFFFFFFF with (Z.ones 52).
  assert (HB : B52 = 2 ^ 52) by reflexivity.
  assert (H32 : 0 <= Z.land (limb52 v 3) (limb52 v 2) < 2 ^ 52) by (apply land_small; rewrite <- ?HB; lia).
  rewrite (land_all_ones 52 _ (limb52 v 1)) by (rewrite <- ?HB; lia).
  rewrite land_all_ones by (rewrite <- ?HB; lia).
  assert (Hp : secp_p = 0xFFFFEFFFFFC2F + B52 * Z.ones 52 + B52 * B52 * Z.ones 52 + B52 * B52 * B52 * Z.ones 52 + B52 * B52 * B52 * B52 * 0x0FFFFFFFFFFFF)
    by (vm_compute; reflexivity).
  change (Z.ones 52) with 4503599627370495 in *. unfold B52 in *.
  change 0x0FFFFFFFFFFFF with 281474976710655 in *. change 0xFFFFEFFFFFC2F with 4503595332402223 in *.
  change (2 ^ 48) with 281474976710656 in *.
  destruct (Z.eqb_spec (limb52 v 4) 281474976710655), (Z.eqb_spec (limb52 v 3) 4503599627370495),
    (Z.eqb_spec (limb52 v 2) 4503599627370495), (Z.eqb_spec (limb52 v 1) 4503599627370495),
    (Z.leb_spec 4503595332402223 (limb52 v 0)); cbn [andb];
    destruct (Z.ltb_spec v secp_p); try reflexivity; exfalso; lia.
Qed.

