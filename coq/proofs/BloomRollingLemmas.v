(* CRollingBloomFilter: the most recently inserted keys are always contained. *)
From BV Require Import lib.Ints model.Bloom.
Local Open Scope Z_scope.

(* ------------------------------------------------------------------ words *)
Lemma ones64_bits j : 0 <= j -> Z.testbit 18446744073709551615 j = (j <? 64).
Proof.
  intros Hj. change 18446744073709551615 with (Z.ones 64).
  destruct (j <? 64) eqn:E; [apply Z.ones_spec_low; apply Z.ltb_lt in E; lia | apply Z.ones_spec_high; apply Z.ltb_ge in E; lia].
Qed.

Lemma wrapu64_bits x j : 0 <= j -> Z.testbit (wrapu64 x) j = (j <? 64) && Z.testbit x j.
Proof.
  intros Hj. unfold wrapu64, wrapu. destruct (j <? 64) eqn:E.
  - apply Z.ltb_lt in E. rewrite Z.mod_pow2_bits_low by lia. reflexivity.
  - apply Z.ltb_ge in E. rewrite Z.mod_pow2_bits_high by lia. reflexivity.
Qed.

(* data[i] = (data[i] & ~(1 << bit)) | (v << bit)  with v in {0,1} *)
Lemma set_bit_word w bit v j : 0 <= bit < 64 -> 0 <= j < 64 -> (v = 0 \/ v = 1) ->
  Z.testbit (Z.lor (Z.land w (wrapu64 (Z.lnot (Z.shiftl 1 bit)))) (Z.shiftl v bit)) j =
  if j =? bit then (v =? 1) else Z.testbit w j.
Proof.
  intros Hb Hj Hv. rewrite Z.lor_spec, Z.land_spec, wrapu64_bits by lia.
  assert (E64 : j <? 64 = true) by (apply Z.ltb_lt; lia). rewrite E64. cbn [andb].
  rewrite Z.lnot_spec by lia. rewrite !Z.shiftl_spec by lia.
  destruct (j =? bit) eqn:E.
  - apply Z.eqb_eq in E. subst j. rewrite Z.sub_diag. cbn. rewrite andb_false_r. cbn.
    destruct Hv as [-> | ->]; reflexivity.
  - apply Z.eqb_neq in E.
    assert (Z.testbit 1 (j - bit) = false).
    { destruct (Z.lt_ge_cases (j - bit) 0); [apply Z.testbit_neg_r; lia|]. apply (Z.bits_above_log2 1 (j - bit)); cbn; lia. }
    rewrite H. cbn. rewrite andb_true_r.
    assert (Z.testbit v (j - bit) = false).
    { destruct Hv as [-> | ->]; [apply Z.bits_0 | exact H]. }
    rewrite H0. apply orb_false_r.
Qed.

(* the generation number as two bit planes *)
Definition genbits (g : Z) : bool * bool := (Z.land g 1 =? 1, Z.shiftr g 1 =? 1).

Lemma genbits_cases g : 1 <= g <= 3 ->
  (g = 1 /\ genbits g = (true, false)) \/ (g = 2 /\ genbits g = (false, true)) \/ (g = 3 /\ genbits g = (true, true)).
Proof. intros Hg. assert (g = 1 \/ g = 2 \/ g = 3) as [-> | [-> | ->]] by lia; cbn; auto. Qed.

(* mask = (p1 ^ m1) | (p2 ^ m2): clears exactly the positions whose tag is the generation g *)
Lemma wipe_word p1 p2 g j : 1 <= g <= 3 -> 0 <= j < 64 ->
  let m1 := wrapu64 (0 - Z.land g 1) in
  let m2 := wrapu64 (0 - Z.shiftr g 1) in
  let mask := Z.lor (Z.lxor p1 m1) (Z.lxor p2 m2) in
  (Z.testbit (Z.land p1 mask) j, Z.testbit (Z.land p2 mask) j) =
  if (Bool.eqb (Z.testbit p1 j) (fst (genbits g)) && Bool.eqb (Z.testbit p2 j) (snd (genbits g)))%bool
  then (false, false) else (Z.testbit p1 j, Z.testbit p2 j).
Proof.
  intros Hg Hj m1 m2 mask.
  assert (Hm : forall b, (b = 0 \/ b = 1) -> Z.testbit (wrapu64 (0 - b)) j = (b =? 1)).
  { intros b [-> | ->].
    - change (wrapu64 (0 - 0)) with 0. rewrite Z.bits_0. reflexivity.
    - change (wrapu64 (0 - 1)) with 18446744073709551615. rewrite ones64_bits by lia. apply Z.ltb_lt. lia. }
  assert (H1 : Z.testbit m1 j = fst (genbits g)).
  { unfold m1, genbits. cbn [fst]. apply Hm. assert (g = 1 \/ g = 2 \/ g = 3) as [-> | [-> | ->]] by lia; cbn; auto. }
  assert (H2 : Z.testbit m2 j = snd (genbits g)).
  { unfold m2, genbits. cbn [snd]. apply Hm. assert (g = 1 \/ g = 2 \/ g = 3) as [-> | [-> | ->]] by lia; cbn; auto. }
  rewrite !Z.land_spec. unfold mask. rewrite Z.lor_spec, !Z.lxor_spec, H1, H2.
  destruct (Z.testbit p1 j), (Z.testbit p2 j), (fst (genbits g)), (snd (genbits g)); reflexivity.
Qed.

(* ------------------------------------------------------------------ lists of words *)
Lemma set_word_bit_length : forall data i bit v, length (set_word_bit data i bit v) = length data.
Proof. induction data as [|w r IH]; intros [|i] bit v; cbn; auto. Qed.

Lemma set_word_bit_same : forall data i bit v w, nth_error data i = Some w ->
  nth_error (set_word_bit data i bit v) i = Some (Z.lor (Z.land w (wrapu64 (Z.lnot (Z.shiftl 1 bit)))) (Z.shiftl v bit)).
Proof.
  induction data as [|x r IH]; intros [|i] bit v w E; cbn in *; try discriminate.
  - inversion E; reflexivity.
  - apply IH; exact E.
Qed.

Lemma set_word_bit_other : forall data i j bit v, i <> j -> nth_error (set_word_bit data i bit v) j = nth_error data j.
Proof.
  induction data as [|x r IH]; intros [|i] [|j] bit v Hne; cbn; try reflexivity; try congruence.
  apply IH. congruence.
Qed.

(* the tag stored for (even word index i, bit j) *)
Definition tag (data : list Z) (i : nat) (j : Z) : option (bool * bool) :=
  match nth_error data i, nth_error data (S i) with
  | Some a, Some b => Some (Z.testbit a j, Z.testbit b j)
  | _, _ => None
  end.

Lemma wipe_length : forall data m1 m2, length (wipe_generation data m1 m2) = length data.
Proof.
  fix IH 1. intros [|p1 [|p2 r]] m1 m2; try reflexivity. cbn [wipe_generation length]. rewrite IH. reflexivity.
Qed.

Lemma wipe_tag g : 1 <= g <= 3 -> forall data k j, 0 <= j < 64 ->
  tag (wipe_generation data (wrapu64 (0 - Z.land g 1)) (wrapu64 (0 - Z.shiftr g 1))) (2 * k) j =
  match tag data (2 * k) j with
  | Some t => Some (if (Bool.eqb (fst t) (fst (genbits g)) && Bool.eqb (snd t) (snd (genbits g)))%bool then (false, false) else t)
  | None => None
  end.
Proof.
  intros Hg. fix IH 1. intros [|p1 [|p2 r]] k j Hj.
  - unfold tag. destruct (2 * k)%nat; reflexivity.
  - unfold tag. cbn [wipe_generation]. destruct k as [|k]; cbn; [reflexivity|].
    replace (k + S (k + 0))%nat with (S (2 * k)) by lia. cbn. destruct (2 * k)%nat; reflexivity.
  - cbn [wipe_generation]. destruct k as [|k].
    + unfold tag. change (2 * 0)%nat with 0%nat. cbn [nth_error fst snd]. f_equal.
      exact (wipe_word p1 p2 g j Hg Hj).
    + replace (2 * S k)%nat with (S (S (2 * k))) by lia. unfold tag in *. cbn [nth_error]. apply IH. exact Hj.
Qed.

(* ------------------------------------------------------------------ the two word indices of a position *)
Lemma testbit_small x n j : 0 <= x < 2 ^ n -> 0 <= n <= j -> Z.testbit x j = false.
Proof. intros Hx Hj. rewrite <- (Z.mod_small x (2 ^ n)) by lia. apply Z.mod_pow2_bits_high. lia. Qed.

Lemma pair_idx pos : 0 <= pos < 2 ^ 32 ->
  Z.land pos 0xFFFFFFFE = 2 * (pos / 2) /\ Z.lor pos 1 = 2 * (pos / 2) + 1.
Proof.
  intros Hp. split; apply Z.bits_inj'; intros j Hj.
  - rewrite Z.land_spec. destruct (Z.eq_dec j 0) as [->|Hne].
    + rewrite Z.testbit_even_0. change 0xFFFFFFFE with (2 * 2147483647). rewrite Z.testbit_even_0. apply andb_false_r.
    + replace j with (Z.succ (j - 1)) by lia. change 0xFFFFFFFE with (2 * Z.ones 31).
      rewrite !Z.testbit_even_succ by lia. rewrite Z.div2_bits by lia.
      destruct (Z.lt_ge_cases (j - 1) 31).
      * rewrite Z.ones_spec_low by lia. apply andb_true_r.
      * rewrite Z.ones_spec_high by lia. rewrite (testbit_small pos 32) by lia. reflexivity.
  - rewrite Z.lor_spec. destruct (Z.eq_dec j 0) as [->|Hne].
    + rewrite Z.testbit_odd_0. apply orb_true_r.
    + replace j with (Z.succ (j - 1)) by lia. rewrite Z.testbit_odd_succ by lia.
      rewrite Z.div2_bits by lia.
      assert (Z.testbit 1 (Z.succ (j - 1)) = false) by (apply (testbit_small 1 1); lia). rewrite H. apply orb_false_r.
Qed.

Section Rolling.
Variable K : Type.
Variable murmur : Z -> K -> Z.

Local Notation rhash := (rolling_hash K murmur).
Local Notation rinsert := (rolling_insert K murmur).
Local Notation rcontains := (rolling_contains K murmur).

(* the position (pair of words, bit) hash number n of key x selects in a filter of `size` words *)
Definition hbit (tweak n : Z) (x : K) : Z := Z.land (rhash tweak n x) 0x3F.
Definition hpos (tweak size n : Z) (x : K) : Z := fast_range32 (rhash tweak n x) size.
Definition hpair (tweak size n : Z) (x : K) : nat := Z.to_nat (2 * (hpos tweak size n x / 2)).

Lemma rhash_range tweak n x : 0 <= rhash tweak n x < 2 ^ 32.
Proof. unfold rolling_hash, wrapu32, wrapu. apply Z.mod_pos_bound. lia. Qed.

Lemma hbit_range tweak n x : 0 <= hbit tweak n x < 64.
Proof.
  unfold hbit. change 0x3F with (Z.ones 6). rewrite Z.land_ones by lia. change (2 ^ 6) with 64. apply Z.mod_pos_bound. lia.
Qed.

Lemma hpos_range tweak size n x : 0 < size < 2 ^ 32 -> 0 <= hpos tweak size n x < size.
Proof.
  intros Hs. unfold hpos, fast_range32. pose proof (rhash_range tweak n x) as Hh. set (h := rhash tweak n x) in *.
  rewrite (wrapu32_id size) by (unfold UINT32_MAX; change (2 ^ 32) with 4294967296 in *; lia).
  change (2 ^ 32) with 4294967296 in *.
  rewrite wrapu64_id by (unfold UINT64_MAX; nia).
  rewrite Z.shiftr_div_pow2 by lia. change (2 ^ 32) with 4294967296.
  split; [apply Z.div_pos; nia | apply Z.div_lt_upper_bound; nia].
Qed.

Lemma hpos_indices tweak size n x : 0 < size < 2 ^ 32 -> Z.even size = true ->
  let pos := hpos tweak size n x in
  Z.to_nat (Z.land pos 0xFFFFFFFE) = hpair tweak size n x /\ Z.to_nat (Z.lor pos 1) = S (hpair tweak size n x) /\
  (S (hpair tweak size n x) < Z.to_nat size)%nat /\ exists k, hpair tweak size n x = (2 * k)%nat.
Proof.
  intros Hs Hev pos. pose proof (hpos_range tweak size n x Hs) as Hp. fold pos in Hp.
  destruct (pair_idx pos) as [E1 E2]; [lia|]. unfold hpair. fold pos. rewrite E1, E2.
  assert (Hq : 0 <= pos / 2) by (apply Z.div_pos; lia).
  split; [reflexivity|]. split; [lia|]. split.
  - apply Z.even_spec in Hev. destruct Hev as [m Hm]. pose proof (Z.div_mod pos 2 ltac:(lia)). pose proof (Z.mod_pos_bound pos 2 ltac:(lia)). lia.
  - exists (Z.to_nat (pos / 2)). lia.
Qed.

(* ------------------------------------------------------------------ one hash of the insert loop *)
Definition setstep (tweak size g : Z) (x : K) (d : list Z) (n : Z) : list Z :=
  let h := rhash tweak n x in
  let bit := Z.land h 0x3F in
  let pos := fast_range32 h size in
  let d1 := set_word_bit d (Z.to_nat (Z.land pos 0xFFFFFFFE)) bit (Z.land g 1) in
  set_word_bit d1 (Z.to_nat (Z.lor pos 1)) bit (Z.shiftr g 1).

Lemma setstep_length tweak size g x d n : length (setstep tweak size g x d n) = length d.
Proof. unfold setstep. rewrite !set_word_bit_length. reflexivity. Qed.

Lemma gen_planes g : 1 <= g <= 3 -> (Z.land g 1 = 0 \/ Z.land g 1 = 1) /\ (Z.shiftr g 1 = 0 \/ Z.shiftr g 1 = 1).
Proof. intros Hg. assert (g = 1 \/ g = 2 \/ g = 3) as [-> | [-> | ->]] by lia; cbn; auto. Qed.

Lemma setstep_tag tweak size g x d n k j :
  0 < size < 2 ^ 32 -> Z.even size = true -> length d = Z.to_nat size -> 1 <= g <= 3 -> 0 <= j < 64 ->
  (2 * k < length d)%nat ->
  tag (setstep tweak size g x d n) (2 * k) j =
  if (Nat.eqb (2 * k) (hpair tweak size n x) && (j =? hbit tweak n x))%bool then Some (genbits g) else tag d (2 * k) j.
Proof.
  intros Hs Hev Hlen Hg Hj Hk.
  destruct (hpos_indices tweak size n x Hs Hev) as (E1 & E2 & Hlt & (k0 & Ek0)). cbn zeta in E1, E2.
  unfold setstep. fold (hpos tweak size n x). fold (hbit tweak n x). rewrite E1, E2.
  set (i1 := hpair tweak size n x) in *. set (bit := hbit tweak n x).
  pose proof (hbit_range tweak n x) as Hbit. fold bit in Hbit.
  destruct (gen_planes g Hg) as [Hv1 Hv2].
  destruct (nth_error d i1) as [a|] eqn:Ea; [|apply nth_error_None in Ea; lia].
  destruct (nth_error d (S i1)) as [b|] eqn:Eb; [|apply nth_error_None in Eb; lia].
  unfold tag.
  destruct (Nat.eqb (2 * k) i1) eqn:Ei.
  - apply Nat.eqb_eq in Ei. rewrite Ei.
    rewrite (set_word_bit_other _ (S i1) i1) by lia. rewrite (set_word_bit_same _ i1 _ _ a Ea).
    rewrite (set_word_bit_same _ (S i1) _ _ b) by (rewrite set_word_bit_other by lia; exact Eb).
    rewrite !set_bit_word by (try lia; assumption). rewrite Ea, Eb.
    cbn [andb]. destruct (j =? bit); reflexivity.
  - apply Nat.eqb_neq in Ei. cbn [andb].
    rewrite !(set_word_bit_other _ (S i1)) by lia. rewrite !(set_word_bit_other _ i1) by lia. reflexivity.
Qed.

Lemma setfold tweak size g x : 0 < size < 2 ^ 32 -> Z.even size = true -> 1 <= g <= 3 ->
  forall L d, length d = Z.to_nat size ->
  let d' := fold_left (setstep tweak size g x) L d in
  length d' = length d /\
  (forall k j, 0 <= j < 64 -> (2 * k < length d)%nat ->
     tag d' (2 * k) j = Some (genbits g) \/ tag d' (2 * k) j = tag d (2 * k) j) /\
  (forall n, In n L -> tag d' (hpair tweak size n x) (hbit tweak n x) = Some (genbits g)).
Proof.
  intros Hs Hev Hg. induction L as [|n L IH]; intros d Hlen; cbn [fold_left].
  - split; [reflexivity|]. split; [auto | intros n []].
  - set (d1 := setstep tweak size g x d n).
    assert (Hlen1 : length d1 = Z.to_nat size) by (unfold d1; rewrite setstep_length; exact Hlen).
    destruct (IH d1 Hlen1) as (A & B & C). cbn zeta in A, B, C.
    split; [rewrite A; unfold d1; apply setstep_length|]. split.
    + intros k j Hj Hk. destruct (B k j Hj ltac:(lia)) as [E|E]; [left; exact E|].
      rewrite E. unfold d1. rewrite setstep_tag by (try assumption; lia).
      destruct (_ && _)%bool; [left; reflexivity | right; reflexivity].
    + intros m [<-|Hm]; [|apply C; exact Hm].
      destruct (hpos_indices tweak size n x Hs Hev) as (_ & _ & Hlt & (k0 & Ek0)).
      pose proof (hbit_range tweak n x) as Hbit.
      rewrite Ek0. destruct (B k0 (hbit tweak n x) Hbit ltac:(lia)) as [E|E]; [exact E|].
      rewrite E. unfold d1. rewrite setstep_tag by (try assumption; lia).
      rewrite <- Ek0, Nat.eqb_refl, Z.eqb_refl. reflexivity.
Qed.

(* ------------------------------------------------------------------ the fields after an insert *)
Definition next_gen (g : Z) : Z := if g + 1 =? 4 then 1 else g + 1.
Definition rolled (f : rolling) : bool := rb_this_gen f =? rb_per_gen f.
Definition data_after_roll (f : rolling) : list Z :=
  if rolled f then
    let g := next_gen (rb_gen f) in
    wipe_generation (rb_data f) (wrapu64 (0 - Z.land g 1)) (wrapu64 (0 - Z.shiftr g 1))
  else rb_data f.
Definition gen_after_roll (f : rolling) : Z := if rolled f then next_gen (rb_gen f) else rb_gen f.

Lemma rinsert_eq f x :
  rinsert f x =
  {| rb_per_gen := rb_per_gen f;
     rb_this_gen := wrap32 ((if rolled f then 0 else rb_this_gen f) + 1);
     rb_gen := gen_after_roll f;
     rb_data := fold_left (setstep (rb_tweak f) (Z.of_nat (length (data_after_roll f))) (gen_after_roll f) x)
                          (znums (Z.to_nat (rb_nhash f))) (data_after_roll f);
     rb_tweak := rb_tweak f; rb_nhash := rb_nhash f |}.
Proof.
  unfold Bloom.rolling_insert, data_after_roll, gen_after_roll, next_gen, setstep, rolled.
  destruct (rb_this_gen f =? rb_per_gen f); reflexivity.
Qed.

(* ------------------------------------------------------------------ contains *)
Lemma rcontains_true f x :
  let size := Z.of_nat (length (rb_data f)) in
  0 < size < 2 ^ 32 -> Z.even size = true ->
  (forall n, In n (znums (Z.to_nat (rb_nhash f))) ->
     exists t, tag (rb_data f) (hpair (rb_tweak f) size n x) (hbit (rb_tweak f) n x) = Some t /\ t <> (false, false)) ->
  rcontains f x = Some true.
Proof.
  intros size Hs Hev. unfold Bloom.rolling_contains. fold size.
  generalize (znums (Z.to_nat (rb_nhash f))). induction l as [|n L IH]; intros Hall; [reflexivity|].
  cbn [fold_left].
  destruct (Hall n (or_introl eq_refl)) as (t & Et & Hne).
  destruct (hpos_indices (rb_tweak f) size n x Hs Hev) as (E1 & E2 & _). cbn zeta in E1, E2.
  fold (hpos (rb_tweak f) size n x). rewrite E1, E2.
  unfold tag in Et. destruct (nth_error (rb_data f) (hpair (rb_tweak f) size n x)) as [a|]; [|discriminate].
  destruct (nth_error (rb_data f) (S (hpair (rb_tweak f) size n x))) as [b|]; [|discriminate].
  inversion Et as [Et']. fold (hbit (rb_tweak f) n x).
  assert (Z.testbit (Z.lor a b) (hbit (rb_tweak f) n x) = true).
  { rewrite Z.lor_spec. destruct (Z.testbit a _), (Z.testbit b _); try reflexivity. exfalso. apply Hne. symmetry. exact Et'. }
  rewrite H. apply IH. intros m Hm. apply Hall. right; exact Hm.
Qed.

(* ------------------------------------------------------------------ generations *)
Definition g3 (E : Z) : Z := E mod 3 + 1.

Lemma g3_range E : 1 <= g3 E <= 3.
Proof. unfold g3. pose proof (Z.mod_pos_bound E 3 ltac:(lia)). lia. Qed.
Lemma g3_next E : next_gen (g3 E) = g3 (E + 1).
Proof. unfold next_gen, g3. destruct (E mod 3 + 1 + 1 =? 4) eqn:Eq; [apply Z.eqb_eq in Eq | apply Z.eqb_neq in Eq]; lia. Qed.
Lemma g3_diff E1 E2 : 0 < E2 - E1 <= 2 -> g3 E1 <> g3 E2.
Proof. unfold g3. lia. Qed.

Lemma genbits_inj a b : 1 <= a <= 3 -> 1 <= b <= 3 -> genbits a = genbits b -> a = b.
Proof.
  intros Ha Hb. assert (a = 1 \/ a = 2 \/ a = 3) as [-> | [-> | ->]] by lia;
  assert (b = 1 \/ b = 2 \/ b = 3) as [-> | [-> | ->]] by lia; cbn; intros E; try reflexivity; discriminate.
Qed.
Lemma genbits_nonzero g : 1 <= g <= 3 -> genbits g <> (false, false).
Proof. intros Hg. assert (g = 1 \/ g = 2 \/ g = 3) as [-> | [-> | ->]] by lia; cbn; discriminate. Qed.

Lemma not_wiped (t g : bool * bool) : t <> g ->
  (if (Bool.eqb (fst t) (fst g) && Bool.eqb (snd t) (snd g))%bool then (false, false) else t) = t.
Proof.
  destruct t as [a b], g as [c d]. cbn [fst snd]. intros Hne.
  destruct a, b, c, d; cbn; try reflexivity; exfalso; apply Hne; reflexivity.
Qed.

(* ------------------------------------------------------------------ the invariant *)
Definition fsize (f : rolling) : Z := Z.of_nat (length (rb_data f)).

Definition WF (f : rolling) : Prop :=
  1 <= rb_per_gen f < 2 ^ 30 /\ 0 <= rb_this_gen f <= rb_per_gen f /\ 1 <= rb_gen f <= 3 /\
  0 < fsize f < 2 ^ 32 /\ Z.even (fsize f) = true.

(* hist: the inserted keys, most recent first, each with the (unbounded) number of the generation it was
   inserted in; E: the number of the current generation *)
Definition Good (f : rolling) (E : Z) (hist : list (K * Z)) : Prop :=
  WF f /\ rb_gen f = g3 E /\ (hist <> [] -> 1 <= rb_this_gen f) /\
  (forall x Ex, In (x, Ex) hist -> Ex <= E /\
     (E - 2 <= Ex -> forall n, In n (znums (Z.to_nat (rb_nhash f))) ->
        exists E', Ex <= E' <= E /\
          tag (rb_data f) (hpair (rb_tweak f) (fsize f) n x) (hbit (rb_tweak f) n x) = Some (genbits (g3 E')))) /\
  (forall d x Ex, nth_error hist d = Some (x, Ex) -> Ex < E ->
     (E - Ex - 1) * rb_per_gen f + rb_this_gen f <= Z.of_nat d).

Lemma data_after_roll_length f : length (data_after_roll f) = length (rb_data f).
Proof. unfold data_after_roll. destruct (rolled f); [apply wipe_length | reflexivity]. Qed.

Lemma good_step f E hist x : Good f E hist ->
  let E' := if rolled f then E + 1 else E in
  Good (rinsert f x) E' ((x, E') :: hist).
Proof.
  intros (HWF & Hg & Hne & Htag & Hcnt) E'.
  destruct HWF as (Hper & Hthis & Hgen & Hsize & Heven).
  assert (Hg' : gen_after_roll f = g3 E').
  { unfold gen_after_roll, E'. destruct (rolled f); [rewrite Hg; apply g3_next | exact Hg]. }
  assert (HEE : E <= E' <= E + 1) by (unfold E'; destruct (rolled f); lia).
  pose proof (g3_range E') as Hr'.
  assert (Hlen1 : length (data_after_roll f) = Z.to_nat (fsize f)) by (rewrite data_after_roll_length; unfold fsize; lia).
  assert (Hsz1 : Z.of_nat (length (data_after_roll f)) = fsize f) by (rewrite data_after_roll_length; reflexivity).
  rewrite rinsert_eq. rewrite Hsz1, Hg'.
  destruct (setfold (rb_tweak f) (fsize f) (g3 E') x Hsize Heven Hr' (znums (Z.to_nat (rb_nhash f))) (data_after_roll f) Hlen1)
    as (A & B & C). cbn zeta in A, B, C.
  set (d' := fold_left (setstep (rb_tweak f) (fsize f) (g3 E') x) (znums (Z.to_nat (rb_nhash f))) (data_after_roll f)) in *.
  assert (Hfs : Z.of_nat (length d') = fsize f) by (rewrite A; exact Hsz1).
  assert (Hthis' : 1 <= (if rolled f then 0 else rb_this_gen f) + 1 <= rb_per_gen f).
  { unfold rolled. destruct (rb_this_gen f =? rb_per_gen f) eqn:Er; [lia|]. apply Z.eqb_neq in Er. lia. }
  assert (Hw32 : wrap32 ((if rolled f then 0 else rb_this_gen f) + 1) = (if rolled f then 0 else rb_this_gen f) + 1).
  { apply wrap32_id. unfold INT32_MIN, INT32_MAX. change (2 ^ 30) with 1073741824 in Hper. lia. }
  unfold Good, WF, fsize. cbn [rb_per_gen rb_this_gen rb_gen rb_data rb_tweak rb_nhash]. rewrite Hfs, Hw32.
  split; [|split; [reflexivity|split; [intros _; lia|split]]].
  - repeat split; try lia; try exact Heven; apply Hr'.
  - (* tags of the recent keys *)
    intros y Ey [Eq|Hin].
    + inversion Eq; subst y Ey. split; [lia|]. intros _ n Hn. exists E'. split; [lia|]. apply C. exact Hn.
    + destruct (Htag y Ey Hin) as [HEy Ht]. split; [lia|]. intros Hrec n Hn.
      destruct (hpos_indices (rb_tweak f) (fsize f) n y Hsize Heven) as (_ & _ & Hlt & (k0 & Ek0)).
      pose proof (hbit_range (rb_tweak f) n y) as Hbit.
      rewrite Ek0. destruct (B k0 (hbit (rb_tweak f) n y) Hbit ltac:(lia)) as [Eb|Eb].
      * exists E'. split; [lia | exact Eb].
      * rewrite Eb. rewrite <- Ek0.
        destruct (Ht ltac:(lia) n Hn) as (E2 & HE2 & Et).
        exists E2. split; [lia|]. unfold data_after_roll, E' in *.
        destruct (rolled f) eqn:Er; [|exact Et].
        rewrite Ek0. rewrite wipe_tag by (try lia; rewrite Hg, g3_next; apply g3_range).
        rewrite <- Ek0, Et. f_equal. apply not_wiped. rewrite Hg, g3_next. intros Heq.
        apply genbits_inj in Heq; try apply g3_range. apply (g3_diff E2 (E + 1)); [lia | exact Heq].
  - (* counting *)
    intros d y Ey Hd HEy. destruct d as [|d0]; [cbn in Hd; inversion Hd; lia|]. cbn [nth_error] in Hd.
    assert (Hin : In (y, Ey) hist) by (eapply nth_error_In; exact Hd).
    destruct (Htag y Ey Hin) as [HEyE _].
    unfold E' in *. unfold rolled in *. destruct (rb_this_gen f =? rb_per_gen f) eqn:Er.
    + apply Z.eqb_eq in Er. destruct (Z.eq_dec Ey E) as [->|Hneq].
      * replace (E + 1 - E - 1) with 0 by lia. lia.
      * specialize (Hcnt d0 y Ey Hd ltac:(lia)).
        replace ((E + 1 - Ey - 1) * rb_per_gen f) with ((E - Ey - 1) * rb_per_gen f + rb_per_gen f) by ring. lia.
    + specialize (Hcnt d0 y Ey Hd ltac:(lia)). lia.
Qed.

Lemma good_contains f E hist d x Ex : Good f E hist -> nth_error hist d = Some (x, Ex) ->
  Z.of_nat d <= 2 * rb_per_gen f -> rcontains f x = Some true.
Proof.
  intros (HWF & Hg & Hne & Htag & Hcnt) Hd Hdle.
  destruct HWF as (Hper & Hthis & Hgen & Hsize & Heven).
  assert (Hin : In (x, Ex) hist) by (eapply nth_error_In; exact Hd).
  destruct (Htag x Ex Hin) as [HEx Ht].
  assert (Hrec : E - 2 <= Ex).
  { destruct (Z.le_gt_cases (E - 2) Ex) as [|Hold]; [assumption|exfalso].
    specialize (Hcnt d x Ex Hd ltac:(lia)).
    assert (1 <= rb_this_gen f) by (apply Hne; intros E0; rewrite E0 in Hin; destruct Hin).
    assert (2 * rb_per_gen f <= (E - Ex - 1) * rb_per_gen f) by nia. lia. }
  apply rcontains_true; try assumption.
  intros n Hn. destruct (Ht Hrec n Hn) as (E2 & _ & Et). eexists. split; [exact Et|]. apply genbits_nonzero, g3_range.
Qed.

(* ------------------------------------------------------------------ sequences of inserts *)
Fixpoint run (f : rolling) (E : Z) (hist : list (K * Z)) (keys : list K) : rolling * Z * list (K * Z) :=
  match keys with
  | [] => (f, E, hist)
  | x :: r => let E' := if rolled f then E + 1 else E in run (rinsert f x) E' ((x, E') :: hist) r
  end.

Lemma run_spec : forall keys f E hist, Good f E hist ->
  let '(f', E', hist') := run f E hist keys in
  f' = fold_left rinsert keys f /\ Good f' E' hist' /\ map fst hist' = rev keys ++ map fst hist /\
  rb_per_gen f' = rb_per_gen f.
Proof.
  induction keys as [|x keys IH]; intros f E hist HG; cbn [run fold_left rev].
  - split; [reflexivity|split; [exact HG|split; reflexivity]].
  - pose proof (good_step f E hist x HG) as HG'. cbn zeta in HG'.
    specialize (IH _ _ _ HG'). destruct (run _ _ _ keys) as [[f' E'] hist'].
    destruct IH as (Ef & HGf & Eh & Ep). split; [exact Ef|split; [exact HGf|split]].
    + rewrite Eh. cbn [map fst]. rewrite <- app_assoc. reflexivity.
    + rewrite Ep, rinsert_eq. reflexivity.
Qed.

(* After any sequence of inserts into a well-formed filter, each of the last 2*nEntriesPerGeneration + 1
   inserted keys is contained (nElements <= 2*nEntriesPerGeneration). *)
Theorem rolling_recent : forall (f0 : rolling) (keys : list K) (d : nat) (x : K), WF f0 ->
  nth_error (rev keys) d = Some x -> Z.of_nat d <= 2 * rb_per_gen f0 ->
  rcontains (fold_left rinsert keys f0) x = Some true.
Proof.
  intros f0 keys d x HWF Hd Hdle.
  assert (HG0 : Good f0 (rb_gen f0 - 1) []).
  { split; [exact HWF|]. destruct HWF as (_ & _ & Hgen & _). split.
    - unfold g3. assert (rb_gen f0 = 1 \/ rb_gen f0 = 2 \/ rb_gen f0 = 3) as [-> | [-> | ->]] by lia; reflexivity.
    - split; [intros Hc; congruence|]. split; [intros ? ? []|]. intros [|?] ? ? Hn; discriminate. }
  pose proof (run_spec keys f0 _ _ HG0) as Hrun. destruct (run f0 (rb_gen f0 - 1) [] keys) as [[f' E'] hist'].
  destruct Hrun as (Ef & HGf & Eh & Ep). cbn [map] in Eh. rewrite app_nil_r in Eh. subst f'.
  assert (Hx : exists Ex, nth_error hist' d = Some (x, Ex)).
  { assert (Hm : nth_error (map fst hist') d = Some x) by (rewrite Eh; exact Hd).
    rewrite nth_error_map in Hm. destruct (nth_error hist' d) as [[y Ey]|]; [|discriminate].
    cbn in Hm. inversion Hm. eauto. }
  destruct Hx as [Ex Hx]. apply (good_contains _ E' hist' d x Ex HGf Hx). rewrite Ep. exact Hdle.
Qed.

End Rolling.

(* with nEntriesPerGeneration = CeilDiv(nElements, 2), as the constructor sets it: the last nElements keys *)
Theorem rolling_last_nelements : forall (K : Type) (murmur : Z -> K -> Z) (nElements : Z) (f0 : rolling)
  (keys : list K) (d : nat) (x : K),
  WF f0 -> rb_per_gen f0 = (nElements + 1) / 2 ->
  nth_error (rev keys) d = Some x -> Z.of_nat d < nElements ->
  rolling_contains K murmur (fold_left (rolling_insert K murmur) keys f0) x = Some true.
Proof.
  intros K murmur N f0 keys d x HWF Hper Hd HdN. apply (rolling_recent K murmur f0 keys d x HWF Hd).
  rewrite Hper. pose proof (Z.div_mod (N + 1) 2 ltac:(lia)). pose proof (Z.mod_pos_bound (N + 1) 2 ltac:(lia)). lia.
Qed.
