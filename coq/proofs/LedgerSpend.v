(* Existence and uniqueness of spends (C02): what ConnectBlock accepted spends only coins that
   exist at that point, never twice, never forward; the view is created minus spent. *)
From BV Require Import lib.Ints gen.Params_gen model.Amount model.Ledger proofs.LedgerMap proofs.LedgerConnect
  proofs.LedgerValue proofs.LedgerHistory.
Local Open Scope Z_scope.

(* ---- list helpers ---- *)
Lemma lookup_app (a b : list (outpoint * coin)) k :
  lookup (a ++ b) k = match lookup a k with Some c => Some c | None => lookup b k end.
Proof.
  induction a as [|[k0 c0] a IH]; cbn [app lookup]; [reflexivity|]. destruct (oeqb k k0); [reflexivity|exact IH].
Qed.
Lemma nodup_app {A} (a b : list A) :
  NoDup a -> NoDup b -> (forall x, In x a -> ~ In x b) -> NoDup (a ++ b).
Proof.
  induction a as [|x a IH]; cbn [app]; intros Ha Hb Hd; [exact Hb|].
  inversion Ha as [|? ? Hn Ha']; subst. constructor.
  - rewrite in_app_iff. intros [H|H]; [contradiction|]. apply (Hd x (or_introl eq_refl) H).
  - apply IH; [exact Ha'|exact Hb|]. intros y Hy. apply Hd. right. exact Hy.
Qed.
Lemma nodup_map_app_disjoint {A B} (f : A -> B) (a b : list A) x y :
  NoDup (map f (a ++ b)) -> In x a -> In y b -> f x <> f y.
Proof.
  induction a as [|z a IH]; cbn [app map]; intros Hn Hx Hy; [destruct Hx|].
  inversion Hn as [|? ? Hni Hn']; subst. destruct Hx as [->|Hx].
  - intros E. apply Hni. rewrite E. apply in_map. apply in_or_app. right. exact Hy.
  - apply IH; assumption.
Qed.
Lemma existsb_oeqb_app k a b : existsb (oeqb k) (a ++ b) = existsb (oeqb k) a || existsb (oeqb k) b.
Proof. apply existsb_app. Qed.

(* ---- what a transaction creates ---- *)
Lemma tx_creates_key t h k c : lookup (tx_creates t h) k = Some c -> fst k = t_id t /\ In k (tx_outpoints t).
Proof.
  unfold tx_creates, tx_outpoints. intros H. split.
  - apply (new_coins_lookup_range _ _ _ _ _ _ _ H).
  - apply (new_coins_in_out_points _ _ _ _ _ _ _ H).
Qed.
Lemma tx_outpoints_fst t k : In k (tx_outpoints t) -> fst k = t_id t.
Proof. unfold tx_outpoints. intros H. apply out_points_in in H. apply H. Qed.
(* only spendable outputs are created, with the block's height and the coinbase flag of the transaction *)
Lemma tx_creates_origin t h k c :
  lookup (tx_creates t h) k = Some c ->
  exists o, In o (t_out t) /\ o_spendable o = true /\ c = mk_coin o h (is_cb t).
Proof. unfold tx_creates. apply new_coins_origin. Qed.

Lemma hcreates_some l k c :
  lookup (hcreates l) k = Some c -> exists t h, In (t, h) l /\ lookup (tx_creates t h) k = Some c.
Proof.
  unfold hcreates. induction l as [|[t h] r IH]; cbn [map concat fst snd]; [cbn; discriminate|].
  rewrite lookup_app. destruct (lookup (tx_creates t h) k) eqn:E.
  - intros H. injection H as <-. exists t, h. split; [left; reflexivity|exact E].
  - intros H. destruct (IH H) as [t' [h' [Hi Hl]]]. exists t', h'. split; [right; exact Hi|exact Hl].
Qed.

(* ---- the flattened chain: closed form of the view ---- *)
Lemma apply_htxs_closed l : forall v v',
  sorted v -> apply_htxs v l = Some v' -> NoDup (map (fun th => t_id (fst th)) l) ->
  (forall t h, In (t, h) l -> forall k, In k (tx_outpoints t) -> lookup v k = None) ->
  sorted v' /\ NoDup (hspends l) /\
  (forall k, In k (hspends l) -> lookup v k <> None \/ lookup (hcreates l) k <> None) /\
  (forall k, lookup v' k = if existsb (oeqb k) (hspends l) then None
                           else match lookup (hcreates l) k with Some c => Some c | None => lookup v k end).
Proof.
  induction l as [|[t h] r IH]; intros v v' Hs Ha Hnd Hfresh.
  - cbn in Ha. injection Ha as <-. cbn. split; [exact Hs|]. split; [constructor|]. split; [intros k []|reflexivity].
  - cbn [apply_htxs] in Ha. destruct (update_coins v t h) as [[v1 spent]|] eqn:Eu; [|discriminate].
    destruct (update_coins_spec _ _ _ _ _ Hs Eu) as [S1 [NDt [L1 [F1 _]]]].
    cbn [map fst] in Hnd. inversion Hnd as [|? ? Hni Hnd']; subst.
    assert (A : forall k, In k (tx_spends t) -> lookup v k <> None).
    { clear -F1. induction F1 as [|o c l cs H F IHF]; intros k [].
      - subst. rewrite H. discriminate.
      - apply IHF. assumption. }
    assert (B : forall k c, lookup (tx_creates t h) k = Some c -> lookup v k = None).
    { intros k c Hk. apply (Hfresh t h (or_introl eq_refl)). apply (tx_creates_key _ _ _ _ Hk). }
    assert (C : forall t' h', In (t', h') r -> forall k, In k (tx_outpoints t') -> lookup (tx_creates t h) k = None).
    { intros t' h' Hin k Hk. destruct (lookup (tx_creates t h) k) eqn:E; [|reflexivity]. exfalso.
      apply tx_creates_key in E. destruct E as [E _]. apply tx_outpoints_fst in Hk. apply Hni.
      apply in_map_iff. exists (t', h'). split; [cbn [fst]; congruence|exact Hin]. }
    assert (Hfresh1 : forall t' h', In (t', h') r -> forall k, In k (tx_outpoints t') -> lookup v1 k = None).
    { intros t' h' Hin k Hk. rewrite L1, (C _ _ Hin _ Hk). destruct (existsb _ _); [reflexivity|].
      apply (Hfresh t' h' (or_intror Hin) _ Hk). }
    destruct (IH _ _ S1 Ha Hnd' Hfresh1) as [S' [NDr [Src Cl]]].
    assert (D : forall k c, lookup (hcreates r) k = Some c -> lookup v k = None).
    { intros k c Hk. apply hcreates_some in Hk. destruct Hk as [t' [h' [Hin Hl]]].
      apply (Hfresh t' h' (or_intror Hin)). apply (tx_creates_key _ _ _ _ Hl). }
    assert (Hdisj : forall k, In k (tx_spends t) -> ~ In k (hspends r)).
    { intros k Hk Hr. destruct (Src k Hr) as [H|H].
      - apply H. rewrite L1. destruct (lookup (tx_creates t h) k) eqn:E.
        + exfalso. apply (A k Hk). apply (B _ _ E).
        + assert (existsb (oeqb k) (tx_spends t) = true) by (apply existsb_oeqb_in; exact Hk). rewrite H0. reflexivity.
      - destruct (lookup (hcreates r) k) eqn:E; [|congruence]. apply (A k Hk). apply (D _ _ E). }
    unfold hspends, hcreates in *. cbn [map concat fst snd].
    split; [exact S'|]. split; [apply nodup_app; assumption|]. split.
    + intros k Hk. apply in_app_or in Hk. rewrite lookup_app. destruct Hk as [Hk|Hk]; [left; apply A; exact Hk|].
      destruct (Src k Hk) as [H|H].
      * rewrite L1 in H. destruct (lookup (tx_creates t h) k); [right; discriminate|].
        destruct (existsb _ _); [congruence|left; exact H].
      * right. destruct (lookup (tx_creates t h) k); [discriminate|exact H].
    + intros k. rewrite Cl, existsb_oeqb_app, lookup_app, L1.
      destruct (existsb (oeqb k) (concat (map (fun th => tx_spends (fst th)) r))) eqn:Er; [rewrite orb_true_r; reflexivity|].
      rewrite orb_false_r. destruct (existsb (oeqb k) (tx_spends t)) eqn:Et.
      * apply existsb_oeqb_in in Et.
        destruct (lookup (concat (map (fun th => tx_creates (fst th) (snd th)) r)) k) eqn:Ec.
        { exfalso. apply (A k Et). apply (D _ _ Ec). }
        destruct (lookup (tx_creates t h) k) eqn:E; [|reflexivity]. exfalso. apply (A k Et). apply (B _ _ E).
      * destruct (lookup (tx_creates t h) k) eqn:E; [|reflexivity].
        destruct (lookup (concat (map (fun th => tx_creates (fst th) (snd th)) r)) k) eqn:Ec; [|reflexivity].
        exfalso. apply hcreates_some in Ec. destruct Ec as [t' [h' [Hin Hl]]].
        apply tx_creates_key in Hl. destruct Hl as [_ Hl]. rewrite (C _ _ Hin _ Hl) in E. discriminate.
Qed.

(* every coin of the resulting view is an old coin or a created one (no premise on ids) *)
Lemma apply_htxs_provenance l : forall v v' k c,
  sorted v -> apply_htxs v l = Some v' -> lookup v' k = Some c ->
  lookup v k = Some c \/ exists t h, In (t, h) l /\ lookup (tx_creates t h) k = Some c.
Proof.
  induction l as [|[t h] r IH]; intros v v' k c Hs Ha Hl.
  - cbn in Ha. injection Ha as <-. left. exact Hl.
  - cbn [apply_htxs] in Ha. destruct (update_coins v t h) as [[v1 spent]|] eqn:Eu; [|discriminate].
    destruct (update_coins_spec _ _ _ _ _ Hs Eu) as [S1 [_ [L1 _]]].
    destruct (IH _ _ _ _ S1 Ha Hl) as [H|[t' [h' [Hin H]]]].
    + rewrite L1 in H. destruct (lookup (tx_creates t h) k) eqn:E.
      * right. exists t, h. split; [left; reflexivity|congruence].
      * destruct (existsb _ _); [discriminate|left; exact H].
    + right. exists t', h'. split; [right; exact Hin|exact H].
Qed.

(* ---- one block ---- *)
Lemma apply_txs_htxs u txs h : apply_txs u txs h = apply_htxs u (map (fun t => (t, h)) txs).
Proof.
  revert u. induction txs as [|t r IH]; intros u; cbn [apply_txs apply_htxs map]; [reflexivity|].
  destruct (update_coins u t h) as [[u' s]|]; [apply IH|reflexivity].
Qed.
Lemma hspends_block b h : hspends (map (fun t => (t, h)) b) = block_spends b.
Proof. unfold hspends, block_spends. rewrite map_map. reflexivity. Qed.
Lemma hcreates_block b h : hcreates (map (fun t => (t, h)) b) = block_creates b h.
Proof. unfold hcreates, block_creates. rewrite map_map. reflexivity. Qed.

Lemma tx_loop_apply cf h txs : forall first u fees sf u' f s undo,
  tx_loop cf h first u fees sf txs = Ok (u', f, s, undo) -> apply_txs u txs h = Some u'.
Proof.
  induction txs as [|t r IH]; intros first u fees sf u' f s undo.
  - cbn. intros H. injection H as <- _ _ _. reflexivity.
  - intros H. apply tx_loop_cons in H. destruct H as [fees' [u1 [spent [u2 [f2 [s2 [undo2 [_ [_ [Hu [Hl Hres]]]]]]]]]]].
    injection Hres as -> _ _ _. cbn [apply_txs]. rewrite Hu. apply (IH _ _ _ _ _ _ _ _ Hl).
Qed.

Lemma tx_loop_split cf h pre : forall first u fees sf t post u' f s undo,
  tx_loop cf h first u fees sf (pre ++ t :: post) = Ok (u', f, s, undo) ->
  exists first' u_pre fees_pre sf_pre undo',
    apply_txs u pre h = Some u_pre /\
    tx_loop cf h first' u_pre fees_pre sf_pre (t :: post) = Ok (u', f, s, undo').
Proof.
  induction pre as [|x pre IH]; intros first u fees sf t post u' f s undo H.
  - exists first, u, fees, sf, undo. split; [reflexivity|exact H].
  - cbn [app] in H. apply tx_loop_cons in H.
    destruct H as [fees' [u1 [spent [u2 [f2 [s2 [undo2 [_ [_ [Hu [Hl Hres]]]]]]]]]]].
    injection Hres as -> -> -> _.
    destruct (IH _ _ _ _ _ _ _ _ _ _ Hl) as [first' [u_pre [fp [sp [undo' [Ha Ht]]]]]].
    exists first', u_pre, fp, sp, undo'. split; [|exact Ht]. cbn [apply_txs]. rewrite Hu. exact Ha.
Qed.

(* C02: every input of an accepted block exists in the view as left by the transactions before it *)
Theorem spend_exists cf u b h u' undo pre t post :
  connect_block cf u b h = Ok (u', undo) -> b = pre ++ t :: post -> is_cb t = false ->
  exists u_pre, apply_txs u pre h = Some u_pre /\ forall o, In o (tx_spends t) -> in_dom u_pre o.
Proof.
  intros Hc -> Ecb. apply connect_block_inv in Hc. destruct Hc as [_ [_ [fees [sf [cb_out [Hl _]]]]]].
  apply tx_loop_split in Hl. destruct Hl as [first' [u_pre [fp [sp [undo' [Ha Ht]]]]]].
  exists u_pre. split; [exact Ha|]. apply tx_loop_cons in Ht.
  destruct Ht as [fees' [u1 [spent [u2 [f2 [s2 [undo2 [Hf _]]]]]]]].
  unfold tx_fees in Hf. rewrite Ecb in Hf. destruct (check_tx_inputs u_pre t h) as [fee|] eqn:E; [|discriminate].
  destruct (check_tx_inputs_spec _ _ _ _ Ecb E) as [Hd _]. unfold tx_spends. rewrite Ecb.
  intros o Ho. apply in_map_iff in Ho. destruct Ho as [i [<- Hi]]. apply Hd. exact Hi.
Qed.

(* C02: within a transaction no outpoint is named twice *)
Theorem no_double_spend_tx cf u b h u' undo t :
  connect_block cf u b h = Ok (u', undo) -> In t b -> NoDup (tx_spends t).
Proof.
  intros Hc Ht. apply connect_block_inv in Hc. destruct Hc as [Hcb _].
  destruct (check_block_none _ Hcb) as [cbt [rest [-> [_ [_ Hok]]]]].
  rewrite Forall_forall in Hok. destruct (Hok t Ht) as [_ [Hnd _]].
  unfold tx_spends. destruct (is_cb t); [constructor|exact Hnd].
Qed.

(* C02, BIP30 clause *)
Theorem bip30_no_overwrite cf u b h u' undo t k :
  cf_bip30 cf = true -> connect_block cf u b h = Ok (u', undo) -> In t b -> In k (tx_outpoints t) -> lookup u k = None.
Proof.
  intros Hb Hc Ht Hk. apply connect_block_inv in Hc. destruct Hc as [_ [Hv _]].
  apply (bip30_not_violated _ _ _ (Hv Hb) Ht _ Hk).
Qed.

(* the closed form of an accepted block whose transactions have distinct ids and none of whose
   outpoints is in the view (BIP30): nothing is spent twice, the new view is (old + created) - spent *)
Theorem connect_block_closed cf u b h u' undo :
  sorted u -> bip30_violated u b = false -> NoDup (map t_id b) ->
  connect_block cf u b h = Ok (u', undo) ->
  NoDup (block_spends b) /\
  (forall k, In k (block_spends b) -> lookup u k <> None \/ lookup (block_creates b h) k <> None) /\
  (forall k, lookup u' k = if existsb (oeqb k) (block_spends b) then None
                           else match lookup (block_creates b h) k with Some c => Some c | None => lookup u k end).
Proof.
  intros Hs Hb Hnd Hc. apply connect_block_inv in Hc. destruct Hc as [_ [_ [fees [sf [cb_out [Hl _]]]]]].
  apply tx_loop_apply in Hl. rewrite apply_txs_htxs in Hl.
  assert (Hnd' : NoDup (map (fun th : htx => t_id (fst th)) (map (fun t => (t, h)) b))).
  { rewrite map_map. cbn [fst]. exact Hnd. }
  assert (Hfresh : forall t h', In (t, h') (map (fun t => (t, h)) b) -> forall k, In k (tx_outpoints t) -> lookup u k = None).
  { intros t h' Hin k Hk. apply in_map_iff in Hin. destruct Hin as [t0 [E Hin]]. injection E as -> _.
    apply (bip30_not_violated _ _ _ Hb Hin _ Hk). }
  destruct (apply_htxs_closed _ _ _ Hs Hl Hnd' Hfresh) as [_ [ND [Src Cl]]].
  rewrite hspends_block in *. rewrite hcreates_block in *. split; [exact ND|]. split; assumption.
Qed.

(* C02: no spend of an output created by the same or a later transaction of the block *)
Theorem no_forward_spend cf u b h u' undo pre t post :
  sorted u -> bip30_violated u b = false -> NoDup (map t_id b) ->
  connect_block cf u b h = Ok (u', undo) -> b = pre ++ t :: post ->
  forall o t', In o (tx_spends t) -> In t' (t :: post) -> ~ In o (tx_outpoints t').
Proof.
  intros Hs Hb Hnd Hc -> o t' Ho Ht' Hout.
  assert (Ecb : is_cb t = false) by (unfold tx_spends in Ho; destruct (is_cb t); [destruct Ho|reflexivity]).
  destruct (spend_exists _ _ _ _ _ _ _ _ _ Hc eq_refl Ecb) as [u_pre [Ha Hd]]. specialize (Hd o Ho). unfold in_dom in Hd.
  destruct (lookup u_pre o) as [c|] eqn:El; [|congruence]. rewrite apply_txs_htxs in Ha.
  destruct (apply_htxs_provenance _ _ _ _ _ Hs Ha El) as [H|[t'' [h'' [Hin H]]]].
  - rewrite (bip30_not_violated _ _ t' Hb) in H; [discriminate| |exact Hout]. apply in_or_app. right. exact Ht'.
  - apply in_map_iff in Hin. destruct Hin as [t0 [E Hin]]. injection E as -> _.
    apply tx_creates_key in H. destruct H as [H _]. apply tx_outpoints_fst in Hout.
    apply (nodup_map_app_disjoint t_id pre (t :: post) t'' t' Hnd Hin Ht'). congruence.
Qed.

(* C02: what enters the view is exactly the spendable outputs (unspendable ones never do) *)
Theorem connect_block_provenance cf u b h u' undo k c :
  sorted u -> connect_block cf u b h = Ok (u', undo) -> lookup u' k = Some c ->
  lookup u k = Some c \/
  exists t o, In t b /\ fst k = t_id t /\ In k (tx_outpoints t) /\ In o (t_out t) /\ o_spendable o = true /\
              c = mk_coin o h (is_cb t).
Proof.
  intros Hs Hc Hl. apply connect_block_inv in Hc. destruct Hc as [_ [_ [fees [sf [cb_out [Ht _]]]]]].
  apply tx_loop_apply in Ht. rewrite apply_txs_htxs in Ht.
  destruct (apply_htxs_provenance _ _ _ _ _ Hs Ht Hl) as [H|[t [h' [Hin H]]]]; [left; exact H|right].
  apply in_map_iff in Hin. destruct Hin as [t0 [E Hin]]. injection E as -> <-.
  destruct (tx_creates_key _ _ _ _ H) as [Hk1 Hk2]. destruct (tx_creates_origin _ _ _ _ H) as [o [Ho [Hsp Hcn]]].
  exists t, o. repeat split; assumption.
Qed.

(* C02: a rejected block leaves the view and the tip unchanged *)
Theorem reject_unchanged cf s b s' e : connect_tip cf s b = (s', Some e) -> s' = s.
Proof. apply connect_tip_err. Qed.

(* ---- the whole chain ---- *)
Lemma apply_htxs_app a : forall b u,
  apply_htxs u (a ++ b) = match apply_htxs u a with Some u' => apply_htxs u' b | None => None end.
Proof.
  induction a as [|[t h] a IH]; intros b u; cbn [app apply_htxs]; [reflexivity|].
  destruct (update_coins u t h) as [[u' s]|]; [apply IH|reflexivity].
Qed.

Lemma replay_from_htxs cf bs : forall s s',
  replay_from cf s bs = Some s' -> apply_htxs (cs_utxo s) (chain_htxs bs (cs_height s + 1)) = Some (cs_utxo s').
Proof.
  induction bs as [|b r IH]; intros s s'; cbn [replay_from chain_htxs].
  - intros H. injection H as <-. reflexivity.
  - destruct (connect_tip cf s b) as [s1 [e|]] eqn:E; [discriminate|]. intros H.
    apply connect_tip_ok in E. destruct E as [u' [undo [Hcb ->]]].
    apply connect_block_inv in Hcb. destruct Hcb as [_ [_ [fees [sf [cb_out [Hl _]]]]]].
    apply tx_loop_apply in Hl. rewrite apply_txs_htxs in Hl. rewrite apply_htxs_app, Hl.
    specialize (IH _ _ H). cbn [cs_utxo] in IH.
    replace (cs_height {| cs_utxo := u'; cs_chain := (b, undo) :: cs_chain s |} + 1) with (cs_height s + 1 + 1) in IH; [exact IH|].
    unfold cs_height. cbn [cs_chain length]. lia.
Qed.

Lemma chain_htxs_ids bs h : map (fun th : htx => t_id (fst th)) (chain_htxs bs h) = map t_id (concat bs).
Proof.
  revert h. induction bs as [|b r IH]; intros h; cbn [chain_htxs concat]; [reflexivity|].
  rewrite !map_app, map_map, IH. reflexivity.
Qed.

(* C02 along the chain: for a chain connected from genesis whose transactions have distinct ids, every
   outpoint is consumed at most once, only after it was created, and the view is created minus spent *)
Theorem once_across_chain cf bs s :
  replay cf bs = Some s -> NoDup (map t_id (concat bs)) ->
  let l := chain_htxs bs 1 in
  NoDup (hspends l) /\
  (forall k, In k (hspends l) -> lookup (hcreates l) k <> None) /\
  (forall k, lookup (cs_utxo s) k = if existsb (oeqb k) (hspends l) then None else lookup (hcreates l) k).
Proof.
  intros Hr Hnd l. unfold replay in Hr. apply replay_from_htxs in Hr. cbn [genesis_state cs_utxo cs_height cs_chain length] in Hr.
  change (Z.of_nat 0 + 1) with 1 in Hr. fold l in Hr.
  assert (Hnd' : NoDup (map (fun th : htx => t_id (fst th)) l)) by (unfold l; rewrite chain_htxs_ids; exact Hnd).
  destruct (apply_htxs_closed l [] _ I Hr Hnd') as [_ [ND [Src Cl]]]; [intros; reflexivity|].
  split; [exact ND|]. split.
  - intros k Hk. destruct (Src k Hk) as [H|H]; [cbn in H; congruence|exact H].
  - intros k. rewrite Cl. destruct (existsb _ _); [reflexivity|]. destruct (lookup (hcreates l) k); reflexivity.
Qed.

(* the same for the state reached by any history *)
Theorem once_across_history cf ops :
  cf_bip30 cf = true ->
  let s := run cf genesis_state ops in
  NoDup (map t_id (concat (chain_blocks s))) ->
  let l := chain_htxs (chain_blocks s) 1 in
  NoDup (hspends l) /\
  (forall k, In k (hspends l) -> lookup (hcreates l) k <> None) /\
  (forall k, lookup (cs_utxo s) k = if existsb (oeqb k) (hspends l) then None else lookup (hcreates l) k).
Proof.
  intros Hb s Hnd. apply (once_across_chain cf (chain_blocks s) s); [|exact Hnd].
  apply (history_independent cf ops Hb).
Qed.

(* ---- a block that lists the same transaction twice is refused ---- *)
Lemma nodup_snoc {A} (l : list A) x : NoDup l -> ~ In x l -> NoDup (l ++ [x]).
Proof.
  intros Hl Hx. apply nodup_app; [exact Hl|constructor; [intros []|constructor]|].
  intros y Hy [<-|[]]. contradiction.
Qed.

(* If the id determines the transaction (collision freeness of the hash, stated for the transactions of
   this block only), an accepted block has pairwise distinct ids: the second copy of a transaction would
   spend inputs that the first copy consumed. *)
Theorem accepted_block_distinct_ids cf u b h u' undo :
  sorted u -> bip30_violated u b = false ->
  (forall t t', In t b -> In t' b -> t_id t = t_id t' -> t = t') ->
  connect_block cf u b h = Ok (u', undo) -> NoDup (map t_id b).
Proof.
  intros Hs Hb Hinj Hc.
  assert (G : forall P S, b = P ++ S -> NoDup (map t_id P)).
  { induction P as [|t P IH] using rev_ind; intros S E; [constructor|].
    rewrite <- app_assoc in E. cbn [app] in E. specialize (IH (t :: S) E).
    rewrite map_app. cbn [map]. apply nodup_snoc; [exact IH|]. intros Hin.
    apply in_map_iff in Hin. destruct Hin as [t0 [Eid Ht0]].
    assert (t0 = t).
    { apply Hinj; [rewrite E; apply in_or_app; left; exact Ht0|rewrite E; apply in_or_app; right; left; reflexivity|exact Eid]. }
    subst t0.
    (* t is not the coinbase: it also occurs after the first position *)
    pose proof Hc as Hc0. apply connect_block_inv in Hc0. destruct Hc0 as [Hcb _].
    destruct (check_block_none _ Hcb) as [cbt [rest [Eb [_ [Hncb Hok]]]]].
    assert (Ecb : is_cb t = false).
    { destruct P as [|p0 P']; [destruct Ht0|]. rewrite E in Eb. cbn [app] in Eb. injection Eb as _ Er.
      rewrite Forall_forall in Hncb. apply Hncb. rewrite <- Er. apply in_or_app. right. left. reflexivity. }
    assert (Htok : tx_ok t).
    { rewrite Forall_forall in Hok. apply Hok. rewrite E. apply in_or_app. right. left. reflexivity. }
    destruct Htok as [Hne _]. destruct (t_in t) as [|i0 ri] eqn:Ein; [congruence|].
    destruct (spend_exists _ _ _ _ _ _ P t S Hc E Ecb) as [u_pre [Ha Hd]].
    assert (Ho : In (i_prev i0) (tx_spends t)).
    { unfold tx_spends. rewrite Ecb, Ein. left. reflexivity. }
    specialize (Hd _ Ho). apply Hd. rewrite apply_txs_htxs in Ha.
    assert (Hnd' : NoDup (map (fun th : htx => t_id (fst th)) (map (fun t => (t, h)) P))).
    { rewrite map_map. cbn [fst]. exact IH. }
    assert (Hfresh : forall t1 h', In (t1, h') (map (fun t => (t, h)) P) -> forall k, In k (tx_outpoints t1) -> lookup u k = None).
    { intros t1 h' Hin k Hk. apply in_map_iff in Hin. destruct Hin as [t2 [E2 Hin]]. injection E2 as -> _.
      apply (bip30_not_violated _ _ t1 Hb); [rewrite E; apply in_or_app; left; exact Hin|exact Hk]. }
    destruct (apply_htxs_closed _ _ _ Hs Ha Hnd' Hfresh) as [_ [_ [_ Cl]]]. rewrite Cl, hspends_block.
    assert (Hex : existsb (oeqb (i_prev i0)) (block_spends P) = true).
    { apply existsb_oeqb_in. unfold block_spends. apply in_concat. exists (tx_spends t). split; [apply in_map; exact Ht0|exact Ho]. }
    rewrite Hex. reflexivity. }
  apply (G b []). rewrite app_nil_r. reflexivity.
Qed.
