(* C50 — a signature produced by secp256k1_ecdsa_sig_sign verifies (group-law premises). *)
From Coq Require Import NArith ZArith Lia.
From BV Require Import lib.Ints gen.Params_gen model.EC model.ECSign proofs.ECLemmas proofs.ECScalar proofs.ECGroup.
Local Open Scope Z_scope.

Lemma reduce_x : forall x, 0 <= x < secp_p -> fst (scalar_set_b32 (be_bytes_z 32 x)) = x mod secp_n.
Proof.
  intros x Hx. destruct secp_p_bounds as ([_ Hp] & _).
  assert (Hx2 : 0 <= x < 2 ^ 256) by lia.
  rewrite scalar_set_b32_spec by (auto using be_bytes_z_ok, be_bytes_z_length). cbn [fst].
  rewrite be_val_be_bytes; [reflexivity|]. exact Hx2.
Qed.

Section SignVerify.
  Variable pt : Type.
  Variable add : pt -> pt -> pt.
  Variable zero : pt.
  Variable neg : pt -> pt.
  Hypothesis add_assoc : forall a b c, add a (add b c) = add (add a b) c.
  Hypothesis add_comm : forall a b, add a b = add b a.
  Hypothesis add_0_l : forall a, add zero a = a.
  Hypothesis add_neg_r : forall a, add a (neg a) = zero.
  Variable G : pt.
  Hypothesis order_all : forall P, zmul pt add zero neg secp_n P = zero.
  Variable xof : pt -> option Z.
  Hypothesis xof_neg : forall P, xof (neg P) = xof P.
  Hypothesis xof_range : forall P x, xof P = Some x -> 0 <= x < secp_p.
  Variable inv : Z -> Z.
  Hypothesis inv_spec : forall s, 0 < s < secp_n -> 0 < inv s < secp_n /\ (s * inv s) mod secp_n = 1.

  Notation zm := (zmul pt add zero neg).
  Let mulG (k : Z) : pt := zm k G.
  Let mul (k : Z) (Q : pt) : pt := zm k Q.
  Let core := ecdsa_sig_verify_gen pt add mulG mul xof inv.

  Lemma zmul_zero_r : forall k, 0 <= k -> zm k zero = zero.
  Proof.
    intros k Hk. pattern k. apply natlike_ind; [reflexivity| |assumption].
    intros x Hx IH. unfold Z.succ. rewrite (zmul_add_nonneg pt add zero neg add_assoc add_comm add_0_l add_neg_r) by lia.
    rewrite IH. simpl. apply add_0_l.
  Qed.

  Lemma zmul_mul : forall a b P, 0 <= a -> 0 <= b -> zm a (zm b P) = zm (a * b) P.
  Proof.
    intros a b P Ha Hb. pattern a. apply natlike_ind; [reflexivity| |assumption].
    intros x Hx IH. unfold Z.succ.
    rewrite (zmul_add_nonneg pt add zero neg add_assoc add_comm add_0_l add_neg_r) by lia. rewrite IH.
    replace ((x + 1) * b) with (x * b + b) by ring.
    rewrite (zmul_add_nonneg pt add zero neg add_assoc add_comm add_0_l add_neg_r) by nia.
    f_equal.
  Qed.

  Lemma n_pos : 2 < secp_n.
  Proof. destruct secp_n_bounds as [[? ?] _]. assumption. Qed.

  Lemma zmul_mod_n : forall a P, 0 <= a -> zm (a mod secp_n) P = zm a P.
  Proof.
    intros a P Ha. pose proof n_pos as Hn.
    rewrite (Z.div_mod a secp_n) at 2 by lia.
    assert (0 <= a / secp_n) by (apply Z.div_pos; lia).
    pose proof (Z.mod_pos_bound a secp_n ltac:(lia)).
    rewrite (zmul_add_nonneg pt add zero neg add_assoc add_comm add_0_l add_neg_r) by nia.
    rewrite (Z.mul_comm secp_n), <- zmul_mul by lia. rewrite order_all, zmul_zero_r by assumption.
    symmetry. apply add_0_l.
  Qed.

  (* u1*G + u2*(d*G) = ((u1 + u2*d) mod n) * G *)
  Lemma combine : forall u1 u2 d, 0 <= u1 -> 0 <= u2 -> 0 <= d ->
    add (mulG u1) (mul u2 (mulG d)) = mulG ((u1 + u2 * d) mod secp_n).
  Proof.
    intros u1 u2 d H1 H2 Hd. unfold mulG, mul. rewrite zmul_mul by assumption.
    rewrite <- (zmul_add_nonneg pt add zero neg add_assoc add_comm add_0_l add_neg_r) by nia.
    symmetry. apply zmul_mod_n. nia.
  Qed.

  (* the unnormalised signature equation: with s0 = k^-1 (r d + m), verification recomputes R = k*G *)
  Lemma verify_unnormalised : forall d m k x, 0 < d < secp_n -> 0 <= m < secp_n -> 0 < k < secp_n ->
    xof (mulG k) = Some x ->
    let r := x mod secp_n in let s0 := sc_mul (inv k) (sc_add (sc_mul r d) m) in
    r <> 0 -> s0 <> 0 -> core r s0 (mulG d) m = true.
  Proof.
    intros d m k x Hd Hm Hk Hx r s0 Hr Hs0. pose proof n_pos as Hn.
    pose proof (xof_range _ _ Hx) as Hxr.
    assert (Hrr : 0 <= r < secp_n) by (apply Z.mod_pos_bound; lia).
    destruct (inv_spec k Hk) as [Hik Eik].
    set (e := sc_add (sc_mul r d) m) in *.
    assert (He : 0 <= e < secp_n).
    { unfold e. rewrite sc_add_spec; [apply Z.mod_pos_bound; lia| |assumption]. unfold sc_mul. apply Z.mod_pos_bound. lia. }
    assert (Ee : e = (r * d + m) mod secp_n).
    { unfold e. rewrite sc_add_spec by (auto; unfold sc_mul; apply Z.mod_pos_bound; lia). unfold sc_mul.
      rewrite Z.add_mod_idemp_l by lia. reflexivity. }
    assert (Hs0r : 0 < s0 < secp_n).
    { assert (0 <= s0 < secp_n) by (unfold s0, sc_mul; apply Z.mod_pos_bound; lia). lia. }
    destruct (inv_spec s0 Hs0r) as [Hw Ew].
    unfold core, ecdsa_sig_verify_gen.
    destruct (Z.eqb_spec r 0); [contradiction|]. destruct (Z.eqb_spec s0 0); [contradiction|]. cbn [orb].
    rewrite combine; try (unfold sc_mul; apply Z.mod_pos_bound; lia); try lia.
    (* (w m + w r d) = w (r d + m) = w k s0 = k  (mod n) *)
    assert (Ekey : (k * s0) mod secp_n = (r * d + m) mod secp_n).
    { unfold s0, sc_mul. rewrite Z.mul_mod_idemp_r by lia. rewrite Z.mul_assoc.
      rewrite <- Z.mul_mod_idemp_l, Eik, Z.mul_1_l by lia. rewrite <- Ee. apply Z.mod_small. assumption. }
    assert (Ek : (sc_mul (inv s0) m + sc_mul (inv s0) r * d) mod secp_n = k).
    { unfold sc_mul.
      rewrite Z.add_mod_idemp_l by lia.
      rewrite <- Z.add_mod_idemp_r by lia. rewrite (Z.mul_mod_idemp_l (inv s0 * r) d) by lia.
      rewrite Z.add_mod_idemp_r by lia.
      replace (inv s0 * m + inv s0 * r * d) with (inv s0 * (r * d + m)) by ring.
      rewrite <- Z.mul_mod_idemp_r, <- Ekey, Z.mul_mod_idemp_r by lia.
      replace (inv s0 * (k * s0)) with ((s0 * inv s0) * k) by ring.
      rewrite <- Z.mul_mod_idemp_l, Ew, Z.mul_1_l by lia. apply Z.mod_small. lia. }
    rewrite Ek, Hx. clear Ek Ekey Ew Eik Ee He Hs0r Hw Hik.
    destruct (Z.lt_ge_cases x secp_n) as [Hlt|Hge].
    - assert (Exr : (x =? r) = true) by (apply Z.eqb_eq; unfold r; symmetry; apply Z.mod_small; lia).
      rewrite Exr. reflexivity.
    - assert (Hbig : secp_p < 2 * secp_n) by (vm_compute; reflexivity).
      assert (Er : r = x - secp_n).
      { unfold r. transitivity ((x - secp_n + 1 * secp_n) mod secp_n); [f_equal; ring|]. rewrite Z.mod_add by lia. apply Z.mod_small. lia. }
      assert (E2 : (x =? r + secp_n) = true) by (apply Z.eqb_eq; lia).
      assert (E3 : (r + secp_n <? secp_p) = true) by (apply Z.ltb_lt; lia).
      rewrite E2, E3. cbn [andb]. apply Bool.orb_true_r.
  Qed.

  (* ECDSA sign-then-verify: whatever secp256k1_ecdsa_sig_sign outputs (low-S normalised) is accepted by the strict
     verification for the public key d*G *)
  Theorem ecdsa_sign_verify : forall d m k r s, 0 < d < secp_n -> 0 <= m < secp_n -> 0 < k < secp_n ->
    ecdsa_sig_sign_gen pt mulG xof inv d m k = Some (r, s) ->
    ecdsa_verify_gen pt add mulG mul xof inv (r, s) m (mulG d) = true /\ 0 < r < secp_n /\ 0 < s <= secp_n / 2.
  Proof.
    intros d m k r s Hd Hm Hk H. pose proof n_pos as Hn. destruct secp_n_bounds as [[_ Hn256] _].
    unfold ecdsa_sig_sign_gen in H. destruct (xof (mulG k)) as [x|] eqn:Hx; [|discriminate].
    pose proof (xof_range _ _ Hx) as Hxr. rewrite reduce_x in H by assumption.
    pose proof (verify_unnormalised d m k x Hd Hm Hk Hx) as VU. cbv zeta in VU.
    remember (x mod secp_n) as r0 eqn:Er0. remember (sc_mul (inv k) (sc_add (sc_mul r0 d) m)) as s0 eqn:Es0.
    assert (Hs0b : 0 <= s0 < secp_n) by (rewrite Es0; unfold sc_mul; apply Z.mod_pos_bound; lia).
    assert (Hr0b : 0 <= r0 < secp_n) by (rewrite Er0; apply Z.mod_pos_bound; lia).
    clear Er0 Es0.
    rewrite scalar_is_high_spec in H by lia.
    pose proof (Z.div_mod secp_n 2 ltac:(lia)) as Hdm. pose proof (Z.mod_pos_bound secp_n 2 ltac:(lia)).
    destruct (Z.eqb_spec r0 0) as [|Hr0]; [discriminate|]. cbn [orb] in H.
    destruct (Z.ltb_spec (secp_n / 2) s0) as [Hhigh|Hlow].
    - (* s0 was high: s = n - s0 *)
      assert (Hs0 : s0 <> 0) by lia.
      unfold sc_neg in H. destruct (Z.eqb_spec s0 0); [contradiction|].
      destruct (Z.eqb_spec (secp_n - s0) 0); [discriminate|].
      assert (Er : r = r0) by congruence. assert (Es : s = secp_n - s0) by congruence. clear H. subst r s.
      split; [|lia]. rewrite (strict_iff_valid_low_s pt add zero neg G xof inv) by lia.
      destruct (Z.leb_spec (secp_n - s0) (secp_n / 2)); [|lia]. cbn [andb].
      rewrite (ecdsa_neg_s pt add zero neg add_assoc add_comm add_0_l add_neg_r G order_all xof xof_neg inv inv_spec) by lia.
      apply VU; assumption.
    - destruct (Z.eqb_spec s0 0) as [|Hs0]; [discriminate|].
      assert (Er : r = r0) by congruence. assert (Es : s = s0) by congruence. clear H. subst r s.
      split; [|lia]. rewrite (strict_iff_valid_low_s pt add zero neg G xof inv) by lia.
      destruct (Z.leb_spec s0 (secp_n / 2)); [|lia]. cbn [andb].
      apply VU; assumption.
  Qed.
End SignVerify.
