(* C56: soundness of the executable checker of fee-bump replacements (model/FeeBump.v) and facts about the transcribed
   pieces of feebumper.cpp (PreconditionChecks, the recipient/change split, CheckFeeRate). *)
From BV Require Import lib.Ints model.WalletSpend model.FeeBump proofs.WalletSpendLemmas.
From Coq Require Import NArith.
Local Open Scope Z_scope.

(* ---------------------------------------------------------------------------------------------- *)
(* PreconditionChecks *)

Definition bumpable (f : facts) (require_mine : bool) : Prop :=
  f_wallet_spend f = false /\ f_mempool_desc f = false /\ f_depth f = 0 /\ f_replaced f = false /\
  (require_mine = true -> f_all_mine f = true).

Lemma precondition_none_iff f rm : precondition f rm = None <-> bumpable f rm.
Proof.
  unfold precondition, bumpable. split.
  - intros H. destruct (f_wallet_spend f); [discriminate|]. destruct (f_mempool_desc f); [discriminate|].
    destruct (f_depth f =? 0) eqn:Ed; simpl in H; [|discriminate]. apply Z.eqb_eq in Ed.
    destruct (f_replaced f); [discriminate|].
    split; [reflexivity|]. split; [reflexivity|]. split; [exact Ed|]. split; [reflexivity|].
    intros Hr. rewrite Hr in H. simpl in H. destruct (f_all_mine f); [reflexivity|discriminate].
  - intros [H1 [H2 [H3 [H4 H5]]]]. rewrite H1, H2, H3, H4. simpl. destruct rm; [|reflexivity].
    rewrite (H5 eq_refl). reflexivity.
Qed.

(* ---------------------------------------------------------------------------------------------- *)
(* the recipient / change split *)

Definition rcp_of (x : oout) : recipient := mkRcp (to_spk (oo_out x)) (to_value (oo_out x)) false.

(* without original_change_index: the recipients are exactly the outputs that are not change, in order, with their
   amounts and without the subtract-fee flag; the change destination is the LAST change output's script *)
Lemma split_outs_none k outs d :
  snd (split_outs k None outs d) = map rcp_of (filter (fun x => negb (oo_change x)) outs) /\
  fst (split_outs k None outs d) =
    match rev (filter oo_change outs) with x :: _ => Some (to_spk (oo_out x)) | [] => d end.
Proof.
  revert k d. induction outs as [|x t IH]; intros k d; simpl; [auto|].
  destruct (oo_change x) eqn:E; simpl.
  - destruct (IH (S k) (Some (to_spk (oo_out x)))) as [H1 H2]. split; [exact H1|]. rewrite H2.
    destruct (rev (filter oo_change t)) as [|y u] eqn:Er; simpl; reflexivity.
  - destruct (IH (S k) d) as [H1 H2]. split; [unfold rcp_of at 1; rewrite H1; reflexivity|exact H2].
Qed.

(* with original_change_index i: every output except the i-th is a recipient, in order *)
Lemma split_outs_some k i outs d : (k <= i)%nat ->
  snd (split_outs k (Some i) outs d) = map rcp_of (remove_nth (i - k) outs) /\
  fst (split_outs k (Some i) outs d) =
    match nth_error outs (i - k) with Some x => Some (to_spk (oo_out x)) | None => d end.
Proof.
  revert k d. induction outs as [|x t IH]; intros k d Hk.
  - simpl. unfold remove_nth. rewrite firstn_nil, skipn_nil. simpl. destruct (i - k)%nat; auto.
  - simpl split_outs. destruct (Nat.eqb i k) eqn:E.
    + apply Nat.eqb_eq in E. subst k. rewrite Nat.sub_diag. unfold remove_nth. simpl.
      (* no later index equals i: the rest are all recipients *)
      assert (G : forall l k' d', (i < k')%nat ->
                 snd (split_outs k' (Some i) l d') = map rcp_of l /\ fst (split_outs k' (Some i) l d') = d').
      { clear. induction l as [|y u IHl]; intros k' d' Hlt; simpl; [auto|].
        destruct (Nat.eqb i k') eqn:E'; [apply Nat.eqb_eq in E'; lia|].
        destruct (IHl (S k') d') as [A B]; [lia|]. simpl. rewrite A, B. auto. }
      destruct (G t (S i) (Some (to_spk (oo_out x)))) as [A B]; [lia|]. rewrite A, B. auto.
    + apply Nat.eqb_neq in E. assert (Hlt : (k < i)%nat) by lia.
      destruct (IH (S k) d) as [H1 H2]; [lia|]. simpl.
      replace (i - k)%nat with (S (i - S k)) by lia. unfold remove_nth in *. simpl. rewrite H1, H2. auto.
Qed.

(* ---------------------------------------------------------------------------------------------- *)
(* CheckFeeRate: what passing it guarantees about the replacement CreateTransaction builds afterwards *)

(* If the replacement is no smaller than the size CheckFeeRate looked at (inputs were added, a change output was added)
   and pays the new feerate on its own size, BIP125 rule 4 holds up to ONE satoshi of rounding. *)
Lemma check_fee_rate_suffices e incr nf S old bump S' fee' :
  check_fee_rate e incr nf S old bump = FrOk ->
  0 <= incr <= nf -> S <= S' ->
  get_fee nf S' + bump <= fee' ->
  old + get_fee incr S' - 1 <= fee'.
Proof.
  unfold check_fee_rate. intros H Hr HS Hf.
  destruct (nf <? e_mempool_min e); [discriminate|].
  destruct (get_fee nf S + bump <? old + get_fee incr S) eqn:E1; [discriminate|]. apply Z.ltb_ge in E1.
  pose proof (get_fee_ceil nf S). pose proof (get_fee_ceil incr S).
  pose proof (get_fee_ceil nf S'). pose proof (get_fee_ceil incr S'). nia.
Qed.

(* But the check is made on the size WITH the change output; when CreateTransaction then drops the change (the larger
   fee leaves less than min_viable_change) the replacement is SMALLER than the size checked, its fee is old fee + old
   change, and rule 4 can fail although both CheckFeeRate and CreateTransaction were satisfied.  Witness = a transaction
   the real wallet produced (60 P2WPKH inputs of 10000 sat, 899 sat/kvB, change 409 sat, bumped with an explicit
   1000 sat/kvB, -discardfee=0.00003): checked size 4138, replacement 4107 vbytes paying 4130 < 3721 + 411. *)
Lemma check_fee_rate_not_sufficient_refuted :
  exists e incr nf S old S' fee',
    check_fee_rate e incr nf S old 0 = FrOk /\ 0 <= incr <= nf /\ S' < S /\
    get_fee nf S' <= fee' /\ fee' < old + get_fee incr S'.
Proof.
  exists (mkEnv 100 3000 0 100 0 3000 10000000 true [] 68), 100, 1000, 4138, 3721, 4107, 4130.
  vm_compute. repeat split; congruence.
Qed.

(* ---------------------------------------------------------------------------------------------- *)
(* soundness of valid_bump *)

Lemma existsb_ex {A} (f : A -> bool) l : existsb f l = true -> exists x, In x l /\ f x = true.
Proof. apply existsb_exists. Qed.

Definition bump_statement (w : list wcoin) (e : env) (incr : Z) (o : otx) (b : bump_opts) (f : facts) (n : bumped) : Prop :=
  (* the original was bumpable and the options consistent *)
  option_error o b = None /\ f_inputs_unspent f = true /\ bumpable f (b_require_mine b) /\
  (* every input of the original is spent by the replacement *)
  (forall i, In i (o_ins o) -> exists j, In j (n_ins n) /\ ti_id j = ti_id i /\ ti_value j = ti_value i) /\
  (* fees: the reported old fee is the original's; the replacement pays it plus the incremental relay fee for its own size *)
  n_old_fee n = o_fee o /\ o_fee o + get_fee incr (n_vsize n) <= n_fee n /\
  (* the replacement is a valid CreateTransaction result for the request the code derives (recipients = non-change
     outputs unchanged and in order, or the caller's outputs; original inputs supplied; other inputs allowed only
     with at least one confirmation; the new feerate) for some position of the change output *)
  exists dest rcps cp,
    bump_split o b = Some (dest, rcps) /\
    let rq := bump_request o (new_rate e incr o b dest rcps) dest rcps in
    created_tx_statement w e rq (as_result n cp).

Theorem bump_valid_sound w e incr o b f n : valid_bump w e incr o b f n = true -> bump_statement w e incr o b f n.
Proof.
  unfold valid_bump, bump_statement. intros H.
  destruct (expected_refusal o b f) eqn:Er; [discriminate|].
  unfold expected_refusal in Er.
  destruct (option_error o b) eqn:Eo; [discriminate|].
  destruct (f_inputs_unspent f) eqn:Eu; simpl in Er; [|discriminate].
  destruct (precondition f (b_require_mine b)) eqn:Ep; [discriminate|].
  destruct (bump_split o b) as [[dest rcps]|] eqn:Es; [|discriminate].
  apply andb_true_iff in H. destruct H as [H Hex]. apply andb_true_iff in H. destruct H as [Hk Hp].
  split; [reflexivity|]. split; [reflexivity|]. split; [apply precondition_none_iff; exact Ep|].
  split.
  { intros i Hi. unfold ck_inputs_kept in Hk. pose proof (forallb_In _ _ Hk i Hi) as Hx. apply existsb_ex in Hx.
    destruct Hx as [j [Hj Hb]]. apply andb_true_iff in Hb. destruct Hb as [H1 H2]. apply Z.eqb_eq in H1. apply Z.eqb_eq in H2.
    exists j. auto. }
  unfold ck_pays_increment in Hp. apply andb_true_iff in Hp. destruct Hp as [Hp _]. apply andb_true_iff in Hp. destruct Hp as [Hp1 Hp2].
  apply Z.eqb_eq in Hp1. apply Z.leb_le in Hp2.
  split; [exact Hp1|]. split; [exact Hp2|].
  apply existsb_ex in Hex. destruct Hex as [cp [_ Hv]].
  exists dest, rcps, cp. split; [reflexivity|]. apply created_tx_valid_sound. exact Hv.
Qed.

(* consequences spelled out *)

(* inputs the replacement adds are confirmed, spendable wallet coins ("We cannot source new unconfirmed inputs") *)
Theorem bump_added_inputs_confirmed w e incr o b f n :
  bump_statement w e incr o b f n ->
  forall j, In j (n_ins n) -> ~ In (ti_id j) (map ti_id (o_ins o)) ->
  exists c, In c w /\ wc_id c = ti_id j /\ wc_value c = ti_value j /\ 1 <= wc_depth c /\
            wc_locked c = false /\ wc_spent c = false /\ wc_immature c = false /\ wc_trusted c = true.
Proof.
  intros [_ [_ [_ [_ [_ [_ [dest [rcps [cp [_ S]]]]]]]]]] j Hj Hn. unfold created_tx_statement in S.
  destruct S as [_ [_ [Hin _]]]. simpl in Hin. destruct (Hin j Hj) as [Hp|[_ [c [Hc [Hid [Hv Hs]]]]]]; [contradiction|].
  destruct Hs as [Him [_ [_ [Hsafe [[Hd _] [Hl [Hsp _]]]]]]]. simpl in Hd, Hsafe.
  exists c. destruct (Hsafe eq_refl) as [Ht _]. repeat split; assumption.
Qed.

(* without original_change_index and without new outputs: every non-change output of the original is paid, unchanged,
   by the replacement (at the same relative position among the non-change outputs) *)
Theorem bump_keeps_non_change_outputs w e incr o b f n :
  bump_statement w e incr o b f n -> b_new_outs b = [] -> b_oci b = None ->
  filter (fun x => negb (oo_change x)) (o_outs o) <> [] ->
  exists cp, forall k x, nth_error (filter (fun x => negb (oo_change x)) (o_outs o)) k = Some x ->
    exists out, nth_error (payouts (as_result n cp)) k = Some out /\
                to_spk out = to_spk (oo_out x) /\ to_value out = to_value (oo_out x).
Proof.
  intros [_ [_ [_ [_ [_ [_ [dest [rcps [cp [Hs S]]]]]]]]]] Hno Hoci Hne. exists cp. intros k x Hk.
  unfold bump_split, base_outs in Hs. rewrite Hno, Hoci in Hs.
  destruct (split_outs_none 0 (o_outs o) None) as [H1 _].
  assert (Hr : map rcp_of (filter (fun x0 => negb (oo_change x0)) (o_outs o)) = rcps).
  { remember (split_outs 0 None (o_outs o) None) as R. destruct (snd R) as [|r0 rt] eqn:Es.
    - symmetry in H1. apply map_eq_nil in H1. contradiction.
    - inversion Hs as [HR]. rewrite <- H1. rewrite HR in Es. simpl in Es. symmetry. exact Es. }
  clear Hs.
  unfold created_tx_statement in S. destruct S as [_ [_ [_ [_ [_ [_ [Hp _]]]]]]]. simpl in Hp.
  assert (Hnth : nth_error rcps k = Some (rcp_of x)).
  { rewrite <- Hr. apply map_nth_error. exact Hk. }
  destruct (Hp k (rcp_of x) Hnth) as [s [out [Ho [Hspk [Hv [Hz _]]]]]].
  exists out. split; [exact Ho|]. split; [exact Hspk|].
  assert (any_sffo rcps = false).
  { rewrite <- Hr. unfold any_sffo.
    clear. induction (filter (fun x0 => negb (oo_change x0)) (o_outs o)); simpl; auto. }
  rewrite (Hz H) in Hv. simpl in Hv. lia.
Qed.

(* ---------------------------------------------------------------------------------------------- *)
(* EstimateFeeRate (no explicit feerate: CheckFeeRate is not run at all) *)

(* "The replacement tx will be at least as large as the original tx, so the total fee will be greater (Rule 3)" - the
   comment in EstimateFeeRate, made precise: IF the replacement is at least as large as the original, paying the estimated
   feerate on its size covers the old fee plus the incremental relay fee for its size (BIP125 rules 3 and 4). *)
Lemma estimate_rate_suffices e incr old osz rq0 S' :
  0 <= old -> 0 < osz <= S' -> 0 <= incr ->
  old + get_fee incr S' <= get_fee (estimate_rate e incr old osz rq0) S'.
Proof.
  intros Ho Hs Hi. unfold estimate_rate.
  set (q := old * 1000 / osz).
  assert (Hq : q * osz <= old * 1000 < (q + 1) * osz).
  { unfold q. pose proof (Z.div_mod (old * 1000) osz ltac:(lia)) as D. pose proof (Z.mod_pos_bound (old * 1000) osz ltac:(lia)). nia. }
  assert (Hq0 : 0 <= q) by (unfold q; apply Z.div_pos; lia).
  set (R := Z.max (q + 1 + Z.max incr WALLET_INCREMENTAL_RELAY_FEE) (effective_rate e rq0)).
  assert (HR : q + 1 + incr <= R) by (unfold R; lia).
  pose proof (get_fee_ceil R S') as C1. pose proof (get_fee_ceil incr S') as C2.
  assert (H1 : (q + 1) * osz <= (q + 1) * S') by nia.
  assert (H2 : (q + 1 + incr) * S' <= R * S') by nia.
  nia.
Qed.

(* With the `outputs` option the replacement can be SMALLER than the original, and then the estimated feerate does not even
   cover the old fee.  Witness = a replacement the real wallet produced (original 219 vB paying 2200; outputs reduced to
   two; replacement 143 vB maximum signed size at the estimated 15046 sat/kvB pays 2152 < 2200; rejected by the mempool). *)
Lemma estimate_rate_not_sufficient_refuted :
  exists e incr old osz rq0 S',
    0 <= old /\ 0 < S' < osz /\ 0 <= incr /\
    get_fee (estimate_rate e incr old osz rq0) S' < old.
Proof.
  exists (mkEnv 100 3000 0 1000 0 3000 10000000 true [] 58), 100, 2200, 219,
         (mkReq [] [] true false 0 9999999 None false None), 143.
  vm_compute. repeat split; congruence.
Qed.
