(* Generic facts about the while loops of the HTTP parser model (model/Http.v): fuel is
   irrelevant, and a loop that stopped for lack of data resumes, when more data is appended, exactly
   as if all the data had been there from the start; C52. *)
From BV Require Import lib.Ints gen.Params_gen model.Http.
Local Open Scope Z_scope.

Section LoopLemmas.
  Context {S : Type}.
  Variable body : S -> bytes -> step_res S.
  Variable Inv : S -> Prop.

  Hypothesis body_decr : forall s r s' r', Inv s -> body s r = Adv s' r' -> (length r' < length r)%nat.
  Hypothesis inv_adv : forall s r s' r', Inv s -> body s r = Adv s' r' -> Inv s'.

  Lemma loop_fuel : forall f1 f2 s r, Inv s -> (length r < f1)%nat -> (length r < f2)%nat ->
    loop body f1 s r = loop body f2 s r.
  Proof.
    induction f1 as [|f1 IH]; intros f2 s r Hi H1 H2; [lia|].
    destruct f2 as [|f2]; [lia|]. simpl.
    destruct (body s r) as [s' r'|sf e|s' r'|s' r'] eqn:E; try reflexivity.
    pose proof (body_decr s r s' r' Hi E). apply IH; [eapply inv_adv; eauto | lia | lia].
  Qed.

  Lemma loop_not_out_of_fuel : forall f s r, Inv s -> (length r < f)%nat -> loop body f s r <> LOutOfFuel.
  Proof.
    induction f as [|f IH]; intros s r Hi H; [lia|]. simpl.
    destruct (body s r) as [s' r'|sf e|s' r'|s' r'] eqn:E; try discriminate.
    pose proof (body_decr s r s' r' Hi E). apply IH; [eapply inv_adv; eauto | lia].
  Qed.

  Lemma run_loop_never_out_of_fuel s r : Inv s -> run_loop body s r <> LOutOfFuel.
  Proof. intros Hi. apply loop_not_out_of_fuel; [exact Hi | lia]. Qed.

  (* how the loop body behaves when bytes are appended to the buffer *)
  Hypothesis inv_need : forall s r s' r', Inv s -> body s r = Need s' r' -> Inv s'.
  Hypothesis body_fail : forall s r sf e y, Inv s -> body s r = Fail sf e -> body s (r ++ y) = Fail sf e.
  Hypothesis body_done : forall s r s' r' y, Inv s -> body s r = Done s' r' -> body s (r ++ y) = Done s' (r' ++ y).
  Hypothesis body_adv : forall s r s' r' y, Inv s -> body s r = Adv s' r' -> body s (r ++ y) = Adv s' (r' ++ y).
  (* a body that returned "need more data" behaves on the longer buffer like the resumed one, or
     (when it stopped exactly at the end of an iteration) just moves on to the resumed state *)
  Hypothesis body_need : forall s r s' r' y, Inv s -> body s r = Need s' r' ->
    body s (r ++ y) = body s' (r' ++ y) \/ body s (r ++ y) = Adv s' (r' ++ y).

  Lemma loop_resume : forall f s r y f2, Inv s -> (length r < f)%nat -> (length (r ++ y) < f2)%nat ->
    match loop body f s r with
    | LFail sf e => loop body f2 s (r ++ y) = LFail sf e
    | LDone s' r' => loop body f2 s (r ++ y) = LDone s' (r' ++ y)
    | LNeed s' r' => Inv s' /\ forall f3, (length (r' ++ y) < f3)%nat -> loop body f2 s (r ++ y) = loop body f3 s' (r' ++ y)
    | LOutOfFuel => False
    end.
  Proof.
    induction f as [|f IH]; intros s r y f2 Hi H1 H2; [lia|].
    destruct f2 as [|f2]; [lia|]. cbn [loop].
    destruct (body s r) as [s' r'|sf e|s' r'|s' r'] eqn:E.
    - assert (Hi' : Inv s') by (eapply inv_need; eauto).
      split; [exact Hi'|]. intros f3 H3.
      destruct (body_need s r s' r' y Hi E) as [Hn|Hn].
      + destruct f3 as [|f3]; [lia|]. cbn [loop]. rewrite Hn.
        destruct (body s' (r' ++ y)) as [s2 r2|sf2 e2|s2 r2|s2 r2] eqn:E2; try reflexivity.
        pose proof (body_decr s' (r' ++ y) s2 r2 Hi' E2) as Hd.
        assert (Hd2 : (length r2 < length (r ++ y))%nat).
        { (* the same step, seen from s on r ++ y *)
          apply (body_decr s (r ++ y) s2 r2 Hi). congruence. }
        apply loop_fuel; [eapply inv_adv; eauto | lia | lia].
      + rewrite Hn. pose proof (body_decr s (r ++ y) s' (r' ++ y) Hi Hn) as Hd.
        apply loop_fuel; [exact Hi' | lia | lia].
    - rewrite (body_fail s r sf e y Hi E). reflexivity.
    - rewrite (body_done s r s' r' y Hi E). reflexivity.
    - rewrite (body_adv s r s' r' y Hi E).
      pose proof (body_decr s r s' r' Hi E) as Hd.
      apply IH; [eapply inv_adv; eauto | lia |]. rewrite app_length in *. lia.
  Qed.

  Theorem run_loop_resume s r y : Inv s ->
    match run_loop body s r with
    | LFail sf e => run_loop body s (r ++ y) = LFail sf e
    | LDone s' r' => run_loop body s (r ++ y) = LDone s' (r' ++ y)
    | LNeed s' r' => Inv s' /\ run_loop body s (r ++ y) = run_loop body s' (r' ++ y)
    | LOutOfFuel => False
    end.
  Proof.
    intros Hi. unfold run_loop.
    pose proof (loop_resume (Datatypes.S (length r)) s r y (Datatypes.S (length (r ++ y))) Hi ltac:(lia) ltac:(lia)) as H.
    destruct (loop body (Datatypes.S (length r)) s r) as [s' r'|sf e|s' r'|]; try exact H.
    destruct H as [Hi' H]. split; [exact Hi'|]. apply H. lia.
  Qed.

  (* invariant of the final state *)
  Hypothesis inv_done : forall s r s' r', Inv s -> body s r = Done s' r' -> Inv s'.
  Lemma loop_inv : forall f s r, Inv s ->
    match loop body f s r with
    | LNeed s' _ => Inv s' | LDone s' _ => Inv s' | _ => True end.
  Proof.
    induction f as [|f IH]; intros s r Hi; [exact I|]. cbn [loop].
    destruct (body s r) as [s' r'|sf e|s' r'|s' r'] eqn:E.
    - eapply inv_need; eauto.
    - exact I.
    - eapply inv_done; eauto.
    - apply IH. eapply inv_adv; eauto.
  Qed.
End LoopLemmas.

(* ---------------------------------------------------------------------------------------------- *)
(* LineReader::ReadLine when bytes are appended *)

Lemma read_line_go_ext : forall r left acc n y,
  match read_line_go left acc n r with
  | RL_Line l rest k => read_line_go left acc n (r ++ y) = RL_Line l (rest ++ y) k
  | RL_TooLong => read_line_go left acc n (r ++ y) = RL_TooLong
  | RL_None => True
  end.
Proof.
  induction r as [|c r IH]; intros left acc n y; simpl; [exact I|].
  destruct (N.eqb c LF); [reflexivity|].
  destruct left as [|left]; [reflexivity|]. apply IH.
Qed.

Lemma read_line_ext max r y :
  match read_line max r with
  | RL_Line l rest k => read_line max (r ++ y) = RL_Line l (rest ++ y) k
  | RL_TooLong => read_line max (r ++ y) = RL_TooLong
  | RL_None => True
  end.
Proof. apply read_line_go_ext. Qed.

Lemma read_line_line_ext max r y l rest k :
  read_line max r = RL_Line l rest k -> read_line max (r ++ y) = RL_Line l (rest ++ y) k.
Proof. intros H. pose proof (read_line_ext max r y) as E. now rewrite H in E. Qed.
Lemma read_line_toolong_ext max r y :
  read_line max r = RL_TooLong -> read_line max (r ++ y) = RL_TooLong.
Proof. intros H. pose proof (read_line_ext max r y) as E. now rewrite H in E. Qed.

(* a returned line consumes k >= 1 bytes and leaves the rest *)
Lemma read_line_go_consumed : forall r left acc n l rest k,
  read_line_go left acc n r = RL_Line l rest k ->
  (length r = (k - n) + length rest /\ n < k)%nat.
Proof.
  induction r as [|c r IH]; intros left acc n l rest k; simpl; [discriminate|].
  destruct (N.eqb c LF).
  - intros H. injection H as <- <- <-. lia.
  - destruct left as [|left]; [discriminate|]. intros H. apply IH in H. lia.
Qed.

Lemma read_line_consumed max r l rest k :
  read_line max r = RL_Line l rest k -> (length r = k + length rest /\ 0 < k)%nat.
Proof. intros H. apply read_line_go_consumed in H. lia. Qed.

(* a returned line is not longer than the limit (terminator not counted) *)
Lemma read_line_go_bound : forall r left acc n l rest k,
  read_line_go left acc n r = RL_Line l rest k -> (k <= n + left + 1)%nat.
Proof.
  induction r as [|c r IH]; intros left acc n l rest k; simpl; [discriminate|].
  destruct (N.eqb c LF).
  - intros H. injection H as <- <- <-. lia.
  - destruct left as [|left]; [discriminate|]. intros H. apply IH in H. lia.
Qed.

Lemma read_line_bound max r l rest k : read_line max r = RL_Line l rest k -> (k <= max + 1)%nat.
Proof. intros H. apply read_line_go_bound in H. lia. Qed.

(* when no line is returned nothing is consumed, the buffer is within the limit and has no \n *)
Lemma read_line_go_none : forall r left acc n,
  read_line_go left acc n r = RL_None -> (length r <= left)%nat /\ ~ In LF r.
Proof.
  induction r as [|c r IH]; intros left acc n; simpl; [intros _; split; [lia | tauto]|].
  destruct (N.eqb c LF) eqn:Ec; [discriminate|].
  destruct left as [|left]; [discriminate|]. intros H.
  apply IH in H. destruct H as [H1 H2]. split; [lia|].
  intros [Hc|Hc]; [|contradiction]. subst c. rewrite N.eqb_refl in Ec. discriminate.
Qed.

Lemma read_line_none max r : read_line max r = RL_None -> (length r <= max)%nat /\ ~ In LF r.
Proof. apply read_line_go_none. Qed.
