(* ChainSel: the invariant (modelled on ChainstateManager::CheckBlockIndex) and its preservation by the
   primitives that touch flags and the index: AddToBlockIndex, InvalidBlockFound/SetBlockFailureFlags. *)
From BV Require Import lib.Ints gen.Params_gen model.ChainSel proofs.ChainSelBase proofs.ChainSelFrame.
Local Open Scope Z_scope.
#[local] Arguments Z.eqb : simpl never.
#[local] Arguments Z.ltb : simpl never.
#[local] Arguments Z.gtb : simpl never.
#[local] Arguments Z.geb : simpl never.
#[local] Arguments Z.leb : simpl never.
#[local] Arguments Z.add : simpl never.
#[local] Arguments Z.sub : simpl never.

Section Inv.
Variable parent_of : id -> id.
Variable proof_of : id -> Z.
Variable kind_of : id -> kind.
Hypothesis proof_pos : forall b, 0 < proof_of b.
Set Default Proof Using "All".

(* a block that could be the tip: all its ancestors have data (HaveNumChainTxs) and it carries no failure flag
   (then none of its ancestors does: the flags are descendant-closed) *)
Definition eligible (s : state) (b : id) : Prop :=
  known s b = true /\ st_chaintx s b = true /\ st_failed s b = false.

Record Inv (s : state) : Prop := {
  (* the index is a tree rooted at genesis: pprev known, nHeight and nChainWork consistent *)
  i_wf : wf_index parent_of proof_of (st_index s);
  (* the active chain: a path to genesis of blocks with data, not failed, that passed every check *)
  i_tip_known : known s (st_tip s) = true;
  i_chain : forall x, In x (path s (st_tip s)) ->
      st_data s x = true /\ st_chaintx s x = true /\ st_failed s x = false /\ kind_of x = KValid;
  (* "Invalid blocks and their descendants must be marked as invalid" *)
  i_failed_closed : forall b, known s b = true -> b <> GENESIS -> st_failed s (parent_of b) = true -> st_failed s b = true;
  (* "All parents having had data is equivalent to HaveNumChainTxs()" *)
  i_chaintx : forall b, known s b = true ->
      (st_chaintx s b = true <-> st_data s b = true /\ (b = GENESIS \/ st_chaintx s (parent_of b) = true));
  (* setBlockIndexCandidates: only blocks with HaveNumChainTxs that do not sort before the tip *)
  i_cands_nodup : NoDup (st_cands s);
  i_cands : forall c, In c (st_cands s) -> known s c = true /\ st_chaintx s c = true /\ worse s c (st_tip s) = false;
  (* m_blocks_unlinked: exactly the blocks with data waiting for an ancestor's data, keyed by pprev, no duplicates *)
  i_unl_nodup : NoDup (st_unlinked s);
  i_unl_sound : forall p c, In (p, c) (st_unlinked s) ->
      known s c = true /\ c <> GENESIS /\ p = parent_of c /\ st_data s c = true /\ st_chaintx s c = false;
  i_unl_complete : forall c, known s c = true -> c <> GENESIS -> st_data s c = true -> st_chaintx s c = false ->
      In (parent_of c, c) (st_unlinked s);
  (* sequence ids are assigned from nBlockSequenceId exactly when HaveNumChainTxs becomes true *)
  i_seq_range : forall b, known s b = true -> st_chaintx s b = true -> CHAINSEL_SEQ_ID_INIT_FROM_DISK < st_seq s b < st_next_seq s;
  i_seq_inj : forall a b, known s a = true -> known s b = true -> st_chaintx s a = true -> st_chaintx s b = true ->
      st_seq s a = st_seq s b -> a = b;
  (* a block is stored only after CheckBlock and ContextualCheckBlock *)
  i_data_kind : forall b, known s b = true -> st_data s b = true -> kind_of b = KValid \/ kind_of b = KBadConnect
}.

(* "if pindex is not worse than the tip, has all data and no invalid ancestor, it must be in setBlockIndexCandidates";
   stated relative to a block m so that it also makes sense in the middle of ActivateBestChain *)
Definition complete_above (s : state) (m : id) : Prop :=
  forall b, eligible s b -> worse s b m = false -> In b (st_cands s).
Definition complete (s : state) : Prop := complete_above s (st_tip s).
(* between two operations ActivateBestChain has run to completion: the tip is the only candidate left *)
Definition quiescent (s : state) : Prop := forall c, In c (st_cands s) -> c = st_tip s.
Definition Good (s : state) : Prop := Inv s /\ complete s /\ quiescent s.

(* the state in the middle of ActivateBestChain: some eligible block m whose ancestors all passed the checks
   dominates every eligible block that is not a candidate *)
Definition all_valid (s : state) (m : id) : Prop := forall x, In x (path s m) -> kind_of x = KValid.
Definition AInv (s : state) : Prop :=
  Inv s /\ exists m, eligible s m /\ all_valid s m /\ complete_above s m.


(* the tree facts of ChainSelBase, with the well-formedness taken from the invariant *)
Section Wrappers.
Variable s : state.
Hypothesis HI : Inv s.
Let W := i_wf s HI.
Definition ipath_unfold := path_unfold parent_of proof_of proof_pos s W.
Definition ipath_head := path_head parent_of proof_of proof_pos s W.
Definition ipath_self := path_self parent_of proof_of proof_pos s W.
Definition ipath_nonempty_known := path_nonempty_known parent_of proof_of proof_pos s W.
Definition ipath_suffix := path_suffix parent_of proof_of proof_pos s W.
Definition ipath_known := path_known parent_of proof_of proof_pos s W.
Definition ipath_trans := path_trans parent_of proof_of proof_pos s W.
Definition ipath_work := path_work parent_of proof_of proof_pos s W.
Definition ipath_work_le := path_work_le parent_of proof_of proof_pos s W.
Definition ipath_antisym := path_antisym parent_of proof_of proof_pos s W.
Definition ipath_parent := path_parent parent_of proof_of proof_pos s W.
Definition iparent_in_path := parent_in_path parent_of proof_of proof_pos s W.
Definition iparent_neq := parent_neq parent_of proof_of proof_pos s W.
Definition iwork_pos := work_pos parent_of proof_of proof_pos s W.
Definition igenesis_in_path := genesis_in_path parent_of proof_of proof_pos s W.
Definition ipath_genesis_only := path_genesis_only parent_of proof_of proof_pos s W.
Definition idesc_via_parent := desc_via_parent parent_of proof_of proof_pos s W.
Definition iknown_genesis := known_genesis parent_of proof_of proof_pos s W.
Definition ipath_genesis := path_genesis parent_of proof_of proof_pos s W.
Definition iknown_get := known_get parent_of proof_of proof_pos s W.
Definition iunknown_path := unknown_path parent_of proof_of proof_pos s W.
Definition iknown_iff := known_iff parent_of proof_of proof_pos s W.
Definition iis_desc_iff := is_desc_iff parent_of proof_of proof_pos s W.
Definition iin_chain_iff := in_chain_iff parent_of proof_of proof_pos s W.
End Wrappers.

(* ---------------------------------------------------------------------------------------------- *)
(* simple consequences *)

Lemma inv_failed_desc s : Inv s -> forall x a, In a (path s x) -> st_failed s a = true -> st_failed s x = true.
Proof.
  intros HI x a Hin Hf. pose proof (ipath_nonempty_known _ HI _ _ Hin) as Hk. revert Hin.
  remember (length (path s x)) as n eqn:Hn. revert x Hk Hn. induction n as [n IH] using lt_wf_ind. intros x Hk Hn Hin.
  destruct (Z.eq_dec a x) as [->|N]; [assumption|].
  destruct (idesc_via_parent _ HI _ _ Hin N) as [Ng Hp].
  destruct (ipath_unfold _ HI _ Hk Ng) as [Hkp [Hpath _]].
  apply (i_failed_closed _ HI _ Hk Ng). eapply (IH (length (path s (parent_of x)))); eauto.
  rewrite Hn, Hpath. cbn. lia.
Qed.

Lemma inv_chaintx_anc s : Inv s -> forall x a, In a (path s x) -> st_chaintx s x = true -> st_chaintx s a = true /\ st_data s a = true.
Proof.
  intros HI x a Hin. pose proof (ipath_nonempty_known _ HI _ _ Hin) as Hk.
  remember (length (path s x)) as n eqn:Hn. revert x Hk Hn Hin. induction n as [n IH] using lt_wf_ind. intros x Hk Hn Hin Hc.
  destruct (Z.eq_dec a x) as [->|N]; [split; [assumption|apply (i_chaintx _ HI _ Hk); assumption]|].
  destruct (idesc_via_parent _ HI _ _ Hin N) as [Ng Hp].
  destruct (ipath_unfold _ HI _ Hk Ng) as [Hkp [Hpath _]].
  apply (i_chaintx _ HI _ Hk) in Hc. destruct Hc as [_ [E|Hc]]; [contradiction|].
  eapply (IH (length (path s (parent_of x)))); eauto. rewrite Hn, Hpath. cbn. lia.
Qed.

Lemma tip_eligible s : Inv s -> eligible s (st_tip s).
Proof.
  intros HI. pose proof (i_tip_known _ HI) as Hk.
  destruct (i_chain _ HI _ (ipath_self _ HI _ Hk)) as [_ [H1 [H2 _]]]. repeat split; assumption.
Qed.
Lemma tip_all_valid s : Inv s -> all_valid s (st_tip s).
Proof. intros HI x Hx. apply (i_chain _ HI _ Hx). Qed.

Lemma good_ainv s : Inv s -> complete s -> AInv s.
Proof. intros HI HC. split; [assumption|]. exists (st_tip s). auto using tip_eligible, tip_all_valid. Qed.

Lemma good_tip_cand s : Inv s -> complete s -> In (st_tip s) (st_cands s).
Proof. intros HI HC. apply HC; [apply tip_eligible; assumption|apply worse_irrefl]. Qed.

(* ---------------------------------------------------------------------------------------------- *)
(* replacing the failure flags by a pointwise equal function changes nothing *)
Lemma inv_failed_ext s f : Inv s -> (forall x, f x = st_failed s x) -> Inv (set_failed s f).
Proof.
  intros HI E. destruct HI. constructor; ssimpl; try assumption.
  - intros x Hx. rewrite E. auto.
  - intros b Hk N. rewrite !E. auto.
Qed.
Lemma eligible_failed_ext s f b : (forall x, f x = st_failed s x) -> (eligible (set_failed s f) b <-> eligible s b).
Proof. intros E. unfold eligible. ssimpl. rewrite E. tauto. Qed.

(* ---------------------------------------------------------------------------------------------- *)
(* AddToBlockIndex *)
Section AddHeader.
Variable s : state.
Variable b : id.
Hypothesis HI : Inv s.
Hypothesis Hnew : known s b = false.
Hypothesis Hpar : known s (parent_of b) = true.
Hypothesis Hng : b <> GENESIS.
(* AcceptBlockHeader refuses a header whose parent is marked failed *)
Hypothesis Hpnf : st_failed s (parent_of b) = false.
Let s' := add_to_block_index parent_of proof_of s b.

Lemma add_get_other x : x <> b -> get_hdr (st_index s') x = get_hdr (st_index s) x.
Proof.
  intros N. unfold s', add_to_block_index. ssimpl. cbn [get_hdr h_id].
  destruct (Z.eqb_spec b x); [congruence|reflexivity].
Qed.
Lemma add_known_other x : x <> b -> known s' x = known s x.
Proof. intros N. unfold known. rewrite add_get_other by assumption. reflexivity. Qed.
Lemma add_path_other x : x <> b -> path s' x = path s x.
Proof. intros N. unfold path. rewrite add_get_other by assumption. reflexivity. Qed.
Lemma add_work_other x : x <> b -> work s' x = work s x.
Proof. intros N. unfold work. rewrite add_get_other by assumption. reflexivity. Qed.
Lemma add_known_self : known s' b = true.
Proof. unfold known, s', add_to_block_index. ssimpl. cbn [get_hdr h_id]. rewrite Z.eqb_refl. reflexivity. Qed.
Lemma add_path_self : path s' b = b :: path s (parent_of b).
Proof. unfold path at 1, s', add_to_block_index. ssimpl. cbn [get_hdr h_id]. rewrite Z.eqb_refl. reflexivity. Qed.
Lemma known_neq x : known s x = true -> x <> b.
Proof. intros H E. subst. congruence. Qed.
Lemma add_known x : known s' x = true <-> x = b \/ known s x = true.
Proof.
  destruct (Z.eq_dec x b) as [->|N]; [split; [auto|intros _; apply add_known_self]|].
  rewrite add_known_other by assumption. split; [auto|intros [H|H]; [contradiction|assumption]].
Qed.
Lemma add_flags_other x : x <> b ->
  st_data s' x = st_data s x /\ st_failed s' x = st_failed s x /\ st_chaintx s' x = st_chaintx s x /\ st_seq s' x = st_seq s x.
Proof. intros N. unfold s', add_to_block_index. ssimpl. rewrite !upd_other by assumption. auto. Qed.
Lemma add_flags_self : st_data s' b = false /\ st_failed s' b = false /\ st_chaintx s' b = false.
Proof. unfold s', add_to_block_index. ssimpl. rewrite !upd_same. auto. Qed.
Lemma add_worse_other x y : x <> b -> y <> b -> worse s' x y = worse s x y.
Proof.
  intros Nx Ny. unfold worse. rewrite !add_work_other by assumption.
  destruct (add_flags_other x Nx) as [_ [_ [_ ->]]]. destruct (add_flags_other y Ny) as [_ [_ [_ ->]]]. reflexivity.
Qed.

Lemma add_wf : wf_index parent_of proof_of (st_index s').
Proof.
  destruct (iknown_get _ HI _ Hpar) as [p Hp].
  unfold s', add_to_block_index. ssimpl. unfold path, work. rewrite Hp.
  apply wf_cons; [apply (i_wf _ HI)|assumption| |assumption].
  unfold known in Hnew. destruct (get_hdr (st_index s) b); [discriminate|reflexivity].
Qed.

Lemma add_inv : Inv s'.
Proof.
  pose proof (i_wf _ HI) as Hwf. pose proof add_wf as Hwf'.
  assert (Htip : st_tip s' = st_tip s) by reflexivity.
  assert (Ntip : st_tip s <> b) by (apply known_neq; apply (i_tip_known _ HI)).
  constructor.
  - exact Hwf'.
  - rewrite Htip, add_known_other by assumption. apply (i_tip_known _ HI).
  - rewrite Htip, add_path_other by assumption. intros x Hx.
    assert (Nx : x <> b) by (apply known_neq; eapply (ipath_known _ HI); eauto).
    destruct (add_flags_other x Nx) as [-> [-> [-> _]]]. apply (i_chain _ HI _ Hx).
  - intros y Hk N. apply add_known in Hk. destruct Hk as [->|Hk].
    + assert (Np : parent_of b <> b) by (apply known_neq; assumption).
      destruct (add_flags_other _ Np) as [_ [-> _]]. rewrite Hpnf. discriminate.
    + assert (Ny : y <> b) by (apply known_neq; assumption).
      destruct (ipath_unfold _ HI _ Hk N) as [Hkp _].
      assert (Np : parent_of y <> b) by (apply known_neq; assumption).
      destruct (add_flags_other _ Ny) as [_ [-> _]]. destruct (add_flags_other _ Np) as [_ [-> _]].
      apply (i_failed_closed _ HI _ Hk N).
  - intros y Hk. apply add_known in Hk. destruct Hk as [->|Hk].
    + destruct add_flags_self as [-> [_ ->]]. split; [discriminate|intros [H _]; discriminate].
    + assert (Ny : y <> b) by (apply known_neq; assumption).
      destruct (add_flags_other _ Ny) as [-> [_ [-> _]]].
      destruct (Z.eq_dec y GENESIS) as [->|N].
      * rewrite (i_chaintx _ HI _ Hk). split; intros [H1 H2]; split; auto.
      * destruct (ipath_unfold _ HI _ Hk N) as [Hkp _].
        assert (Np : parent_of y <> b) by (apply known_neq; assumption).
        destruct (add_flags_other _ Np) as [_ [_ [-> _]]]. apply (i_chaintx _ HI _ Hk).
  - apply (i_cands_nodup _ HI).
  - intros c Hc. destruct (i_cands _ HI _ Hc) as [H1 [H2 H3]].
    assert (Nc : c <> b) by (apply known_neq; assumption).
    rewrite add_known_other by assumption. destruct (add_flags_other _ Nc) as [_ [_ [-> _]]].
    rewrite Htip, add_worse_other by assumption. auto.
  - apply (i_unl_nodup _ HI).
  - intros p c Hc. destruct (i_unl_sound _ HI _ _ Hc) as [H1 [H2 [H3 [H4 H5]]]].
    assert (Nc : c <> b) by (apply known_neq; assumption).
    rewrite add_known_other by assumption. destruct (add_flags_other _ Nc) as [-> [_ [-> _]]]. auto.
  - intros c Hk N. apply add_known in Hk. destruct Hk as [->|Hk].
    + destruct add_flags_self as [-> _]. discriminate.
    + assert (Nc : c <> b) by (apply known_neq; assumption).
      destruct (add_flags_other _ Nc) as [-> [_ [-> _]]]. apply (i_unl_complete _ HI _ Hk N).
  - intros y Hk. apply add_known in Hk. destruct Hk as [->|Hk].
    + destruct add_flags_self as [_ [_ ->]]. discriminate.
    + assert (Ny : y <> b) by (apply known_neq; assumption).
      destruct (add_flags_other _ Ny) as [_ [_ [-> ->]]]. apply (i_seq_range _ HI _ Hk).
  - intros x y Hx Hy. apply add_known in Hx. apply add_known in Hy.
    destruct Hx as [->|Hx]; [destruct add_flags_self as [_ [_ ->]]; discriminate|].
    destruct Hy as [->|Hy]; [destruct add_flags_self as [_ [_ ->]]; discriminate|].
    assert (Nx : x <> b) by (apply known_neq; assumption). assert (Ny : y <> b) by (apply known_neq; assumption).
    destruct (add_flags_other _ Nx) as [_ [_ [-> ->]]]. destruct (add_flags_other _ Ny) as [_ [_ [-> ->]]].
    apply (i_seq_inj _ HI); assumption.
  - intros y Hk. apply add_known in Hk. destruct Hk as [->|Hk].
    + destruct add_flags_self as [-> _]. discriminate.
    + assert (Ny : y <> b) by (apply known_neq; assumption).
      destruct (add_flags_other _ Ny) as [-> _]. apply (i_data_kind _ HI _ Hk).
Qed.
End AddHeader.
End Inv.
