(* The implementation-level model refines the announcement-level reference specification
   (model/TxRequest.v, s_step): forgetting the DELAYED/READY/BEST sub-state of candidates maps every
   reachable tracker state to the specification state reached by the same operations, and all answers agree. *)
From BV Require Import lib.Ints model.TxRequest proofs.TxRequestBasics proofs.TxRequestInv proofs.TxRequestOps
  proofs.TxRequestSteps proofs.TxRequestPost.
From Coq Require Import Sorting.Sorted Sorting.Permutation.
Local Open Scope Z_scope.

(* ---------- forgetting the candidate sub-state ---------- *)
Definition absl (l : list ann) : list ann := map norm_ann l.

Lemma cand_states a : is_candidate a = true <->
  a_state a = CANDIDATE_DELAYED \/ a_state a = CANDIDATE_READY \/ a_state a = CANDIDATE_BEST.
Proof. unfold is_candidate. rewrite !orb_true_iff, !st_is_eq. tauto. Qed.
Lemma not_cand_states a : is_candidate a = false <-> a_state a = REQUESTED \/ a_state a = COMPLETED.
Proof.
  unfold is_candidate, st_is. destruct (a_state a); simpl; split; intros H; auto; try discriminate;
    destruct H; discriminate.
Qed.

Lemma norm_key p h a : is_key p h (norm_ann a) = is_key p h a.
Proof. unfold norm_ann. destruct (is_candidate a); reflexivity. Qed.
Lemma norm_txhash a : a_txhash (norm_ann a) = a_txhash a.
Proof. unfold norm_ann. destruct (is_candidate a); reflexivity. Qed.
Lemma norm_peer a : a_peer (norm_ann a) = a_peer a.
Proof. unfold norm_ann. destruct (is_candidate a); reflexivity. Qed.
Lemma norm_time a : a_time (norm_ann a) = a_time a.
Proof. unfold norm_ann. destruct (is_candidate a); reflexivity. Qed.
Lemma norm_seq a : a_seq (norm_ann a) = a_seq a.
Proof. unfold norm_ann. destruct (is_candidate a); reflexivity. Qed.
Lemma norm_ident a : ident (norm_ann a) = ident a.
Proof. unfold norm_ann. destruct (is_candidate a); reflexivity. Qed.
Lemma norm_gtxid a : gtxid_of (norm_ann a) = gtxid_of a.
Proof. unfold norm_ann. destruct (is_candidate a); reflexivity. Qed.
Lemma norm_prio prio a : prio_of prio (norm_ann a) = prio_of prio a.
Proof. unfold norm_ann. destruct (is_candidate a); reflexivity. Qed.
Lemma norm_cand a : is_candidate (norm_ann a) = is_candidate a.
Proof. unfold norm_ann. destruct (is_candidate a) eqn:E; [reflexivity|exact E]. Qed.
Lemma norm_st_req a : st_is REQUESTED (norm_ann a) = st_is REQUESTED a.
Proof.
  unfold norm_ann. destruct (is_candidate a) eqn:E; [|reflexivity].
  apply cand_states in E. unfold st_is. simpl. destruct E as [E|[E|E]]; rewrite E; reflexivity.
Qed.
Lemma norm_st_compl a : st_is COMPLETED (norm_ann a) = st_is COMPLETED a.
Proof.
  unfold norm_ann. destruct (is_candidate a) eqn:E; [|reflexivity].
  apply cand_states in E. unfold st_is. simpl. destruct E as [E|[E|E]]; rewrite E; reflexivity.
Qed.
Lemma norm_has_txhash h a : has_txhash h (norm_ann a) = has_txhash h a.
Proof. unfold has_txhash. rewrite norm_txhash. reflexivity. Qed.
Lemma norm_has_peer p a : has_peer p (norm_ann a) = has_peer p a.
Proof. unfold has_peer. rewrite norm_peer. reflexivity. Qed.

Lemma norm_with_cand a st : is_candidate a = true ->
  (st = CANDIDATE_DELAYED \/ st = CANDIDATE_READY \/ st = CANDIDATE_BEST) -> norm_ann (with_state a st) = norm_ann a.
Proof.
  intros C S. unfold norm_ann. rewrite C.
  assert (C' : is_candidate (with_state a st) = true) by (apply cand_states; exact S). rewrite C'. reflexivity.
Qed.
Lemma norm_with_compl a : norm_ann (with_state a COMPLETED) = with_state (norm_ann a) COMPLETED.
Proof. unfold norm_ann. destruct (is_candidate a); reflexivity. Qed.
Lemma norm_with_req a e : norm_ann (with_state_time a REQUESTED e) = with_state_time (norm_ann a) REQUESTED e.
Proof. unfold norm_ann. destruct (is_candidate a); reflexivity. Qed.
Lemma norm_noncand a : is_candidate a = false -> norm_ann a = a.
Proof. unfold norm_ann. intros ->. reflexivity. Qed.

Lemma absl_keys l : map key (absl l) = map key l.
Proof. unfold absl. rewrite map_map. apply map_ext. intros a. unfold key. rewrite norm_peer, norm_txhash. reflexivity. Qed.
Lemma absl_uniq l : uniq l -> uniq (absl l).
Proof. unfold uniq. rewrite absl_keys. auto. Qed.
Lemma absl_find p h l : find_ann p h (absl l) = option_map norm_ann (find_ann p h l).
Proof.
  unfold find_ann, absl. induction l as [|x l IH]; [reflexivity|]. cbn [map find]. rewrite norm_key.
  destruct (is_key p h x); [reflexivity|exact IH].
Qed.
Lemma absl_existsb (P : ann -> bool) l : (forall a, P (norm_ann a) = P a) -> existsb P (absl l) = existsb P l.
Proof. intros H. unfold absl. induction l as [|x l IH]; [reflexivity|]. cbn [map existsb]. rewrite H, IH. reflexivity. Qed.
Lemma absl_filter (P : ann -> bool) l : (forall a, P (norm_ann a) = P a) -> filter P (absl l) = absl (filter P l).
Proof.
  intros H. unfold absl. induction l as [|x l IH]; [reflexivity|]. cbn [map filter]. rewrite H.
  destruct (P x); cbn [map]; rewrite IH; reflexivity.
Qed.
Lemma absl_cnt (P : ann -> bool) l : (forall a, P (norm_ann a) = P a) -> cnt P (absl l) = cnt P l.
Proof. intros H. unfold absl. rewrite cnt_map. apply cnt_ext. intros a _. apply H. Qed.
Lemma absl_length l : length (absl l) = length l.
Proof. apply map_length. Qed.
Lemma absl_app l1 l2 : absl (l1 ++ l2) = absl l1 ++ absl l2.
Proof. apply map_app. Qed.

(* a candidate changing its sub-state is invisible *)
Lemma absl_set_st_cand p h st l it : uniq l -> find_ann p h l = Some it -> is_candidate it = true ->
  (st = CANDIDATE_DELAYED \/ st = CANDIDATE_READY \/ st = CANDIDATE_BEST) -> absl (set_st p h st l) = absl l.
Proof.
  intros U F C S. unfold absl, set_st, set_ann. rewrite map_map. apply map_ext_in. intros a Ha.
  destruct (is_key p h a) eqn:K; [|reflexivity].
  assert (a = it).
  { destruct (find_ann_some _ _ _ _ F) as [Hin [Hp Hh]]. apply is_key_true in K. destruct K.
    apply (uniq_same_key l); auto. unfold key. congruence. }
  subst a. apply norm_with_cand; auto.
Qed.
Lemma absl_set_st_compl p h l : absl (set_st p h COMPLETED l) = set_st p h COMPLETED (absl l).
Proof.
  unfold absl, set_st, set_ann. rewrite !map_map. apply map_ext. intros a. rewrite norm_key.
  destruct (is_key p h a); [apply norm_with_compl|reflexivity].
Qed.

Lemma absl_promote_shape l p h it l' : uniq l -> find_ann p h l = Some it -> a_state it = CANDIDATE_DELAYED ->
  promote_shape l p h it l' -> absl l' = absl l.
Proof.
  intros U F D S. assert (Ci : is_candidate it = true) by (apply cand_states; auto).
  destruct S as [st Hst | b Fb Sb Nb].
  - apply (absl_set_st_cand p h st l it); auto; tauto.
  - assert (U1 : uniq (set_st (a_peer b) h CANDIDATE_READY l)) by (apply set_st_uniq; auto).
    assert (F1 : find_ann p h (set_st (a_peer b) h CANDIDATE_READY l) = Some it).
    { rewrite find_set_st_other; auto. intros E. inversion E. congruence. }
    rewrite (absl_set_st_cand p h _ _ it); auto.
    apply (absl_set_st_cand (a_peer b) h _ l b); auto. apply cand_states. auto.
Qed.

Lemma absl_car_shape_delayed l p h it l' : uniq l -> find_ann p h l = Some it -> is_candidate it = true ->
  car_shape l p h CANDIDATE_DELAYED l' -> absl l' = absl l.
Proof.
  intros U F Ci S. destruct S as [| r Fr Sr Nr].
  - apply (absl_set_st_cand p h _ l it); auto.
  - assert (U1 : uniq (set_st (a_peer r) h CANDIDATE_BEST l)) by (apply set_st_uniq; auto).
    assert (F1 : find_ann p h (set_st (a_peer r) h CANDIDATE_BEST l) = Some it).
    { rewrite find_set_st_other; auto. intros E. inversion E. congruence. }
    rewrite (absl_set_st_cand p h _ _ it); auto.
    apply (absl_set_st_cand (a_peer r) h _ l r); auto. apply cand_states. auto.
Qed.

Lemma absl_car_shape_compl l p h l' : uniq l -> car_shape l p h COMPLETED l' ->
  absl l' = set_st p h COMPLETED (absl l).
Proof.
  intros U S. destruct S as [| r Fr Sr Nr].
  - apply absl_set_st_compl.
  - rewrite absl_set_st_compl. f_equal. apply (absl_set_st_cand (a_peer r) h _ l r); auto. apply cand_states. auto.
Qed.

(* ---------- cleanup ---------- *)
Definition live_tx (l : list ann) (h : Z) : bool := existsb (fun b => has_txhash h b && negb (st_is COMPLETED b)) l.

Lemma s_cleanup_eq l : s_cleanup l = filter (fun a => live_tx l (a_txhash a)) l.
Proof. reflexivity. Qed.

Lemma live_tx_true l h : live_tx l h = true <-> exists b, In b l /\ a_txhash b = h /\ a_state b <> COMPLETED.
Proof.
  unfold live_tx. rewrite existsb_exists. split; intros [b [Hb E]]; exists b.
  - apply andb_true_iff in E. destruct E as [E1 E2]. apply has_txhash_true in E1. apply negb_true_iff, st_is_neq in E2. auto.
  - destruct E as [E1 E2]. split; auto. apply has_txhash_true in E1. apply st_is_neq in E2. rewrite E1, E2. reflexivity.
Qed.

Lemma live_tx_absl l h : live_tx (absl l) h = live_tx l h.
Proof. unfold live_tx. apply absl_existsb. intros a. rewrite norm_has_txhash, norm_st_compl. reflexivity. Qed.

Lemma live_tx_of_counts l h : live_tx l h = (0 <? cnt (live_h h) l).
Proof. unfold live_tx. rewrite cnt_existsb. reflexivity. Qed.

(* SanityCheck's "no txhash with only COMPLETED announcements" makes cleanup the identity *)
Lemma cleanup_id prio l : sched_ok prio l -> s_cleanup l = l.
Proof.
  intros [T _]. rewrite s_cleanup_eq. apply filter_all_true. intros a Ha.
  rewrite live_tx_of_counts, cnt_live. apply Z.ltb_lt. destruct (T (a_txhash a)) as [_ _ C].
  pose proof (c_nonneg l (a_txhash a) CANDIDATE_DELAYED). pose proof (c_nonneg l (a_txhash a) CANDIDATE_READY).
  pose proof (c_nonneg l (a_txhash a) CANDIDATE_BEST). pose proof (c_nonneg l (a_txhash a) REQUESTED).
  destruct (a_state a) eqn:S; try (assert (0 < c l (a_txhash a) (a_state a)) by (apply (c_pos_of l _ _ a); auto); rewrite S in *; lia).
Qed.

Lemma absl_cleanup l : s_cleanup (absl l) = absl (s_cleanup l).
Proof.
  rewrite !s_cleanup_eq. rewrite <- absl_filter.
  - apply filter_ext. intros a. apply live_tx_absl.
  - intros a. rewrite norm_txhash. reflexivity.
Qed.

(* cleanup commutes with transformations that never revive an announcement:
   cleanup (G (cleanup m)) = cleanup (G m) for G = map g (g keeps the txhash, maps COMPLETED to COMPLETED)
   and for G = filter F *)
Lemma filter_filter_and' (P Q : ann -> bool) l : filter P (filter Q l) = filter (fun a => Q a && P a) l.
Proof. apply filter_filter_and. Qed.

Lemma cleanup_map_cleanup (g : ann -> ann) m :
  (forall a, a_txhash (g a) = a_txhash a) -> (forall a, a_state a = COMPLETED -> a_state (g a) = COMPLETED) ->
  s_cleanup (map g (s_cleanup m)) = s_cleanup (map g m).
Proof.
  intros Gh Gc. rewrite !s_cleanup_eq.
  assert (MF : forall (P : Z -> bool) l, map g (filter (fun a => P (a_txhash a)) l) = filter (fun a => P (a_txhash a)) (map g l)).
  { intros P l. induction l as [|x l IH]; [reflexivity|]. cbn [filter map]. rewrite Gh.
    destruct (P (a_txhash x)); cbn [map]; rewrite IH; reflexivity. }
  rewrite (MF (live_tx m)). rewrite filter_filter_and. apply filter_ext_in. intros a Ha.
  set (m1 := filter (fun a0 => live_tx m (a_txhash a0)) (map g m)).
  destruct (live_tx (map g m) (a_txhash a)) eqn:L2.
  - apply live_tx_true in L2. destruct L2 as [b [Hb [Ebh Sb]]]. apply in_map_iff in Hb. destruct Hb as [b0 [Eb Hb0]]. subst b.
    assert (Lm : live_tx m (a_txhash a) = true).
    { apply live_tx_true. exists b0. rewrite Gh in Ebh. split; [auto|split; [auto|]]. intros X. apply Sb. apply Gc. exact X. }
    rewrite Lm. cbn [andb]. apply live_tx_true. exists (g b0). split; [|auto].
    unfold m1. apply filter_In. split; [apply in_map; auto|]. rewrite Ebh. exact Lm.
  - destruct (live_tx m (a_txhash a)); [|reflexivity]. cbn [andb].
    destruct (live_tx m1 (a_txhash a)) eqn:L1; [|reflexivity]. exfalso.
    apply live_tx_true in L1. destruct L1 as [b [Hb E]]. unfold m1 in Hb. apply filter_In in Hb. destruct Hb as [Hb _].
    assert (X : live_tx (map g m) (a_txhash a) = true) by (apply live_tx_true; exists b; auto). congruence.
Qed.

Lemma cleanup_filter_cleanup (F : ann -> bool) m :
  s_cleanup (filter F (s_cleanup m)) = s_cleanup (filter F m).
Proof.
  rewrite !s_cleanup_eq. rewrite (filter_filter_and F). rewrite filter_filter_and.
  rewrite (filter_filter_and _ F). apply filter_ext_in. intros a Ha.
  destruct (F a) eqn:Fa; [|rewrite andb_false_r; reflexivity]. rewrite andb_true_r. cbn [andb].
  set (m1 := filter (fun a0 => live_tx m (a_txhash a0) && F a0) m).
  destruct (live_tx (filter F m) (a_txhash a)) eqn:L2.
  - apply live_tx_true in L2. destruct L2 as [b [Hb [Ebh Sb]]]. apply filter_In in Hb. destruct Hb as [Hb Fb].
    assert (Lm : live_tx m (a_txhash a) = true) by (apply live_tx_true; exists b; auto).
    rewrite Lm. cbn [andb]. apply live_tx_true. exists b. split; [|auto].
    unfold m1. apply filter_In. split; auto. rewrite Ebh, Lm, Fb. reflexivity.
  - destruct (live_tx m (a_txhash a)); [|reflexivity]. cbn [andb].
    destruct (live_tx m1 (a_txhash a)) eqn:L1; [|reflexivity]. exfalso.
    apply live_tx_true in L1. destruct L1 as [b [Hb E]]. unfold m1 in Hb. apply filter_In in Hb. destruct Hb as [Hb Fb].
    apply andb_true_iff in Fb. destruct Fb as [_ Fb].
    assert (X : live_tx (filter F m) (a_txhash a) = true).
    { apply live_tx_true. exists b. split; auto. apply filter_In; auto. }
    congruence.
Qed.

(* ---------- the abstraction function and the simple operations ---------- *)
Definition abs (t : tracker) : spec_state := mkS (t_seq t) (absl (t_index t)).

Lemma existsb_or_split (P Q : ann -> bool) l :
  existsb (fun a => P a && Q a) l || existsb (fun a => P a && negb (Q a)) l = existsb P l.
Proof.
  induction l as [|x l IH]; [reflexivity|]. cbn [existsb]. rewrite <- IH.
  destruct (P x), (Q x); cbn [andb negb orb]; try reflexivity.
  - rewrite orb_true_r. reflexivity.
Qed.

Lemma abs_received_inv t p h w pf rt : abs (received_inv t p h w pf rt) = s_received_inv (abs t) p h w pf rt.
Proof.
  unfold received_inv, s_received_inv, abs. cbn [s_anns s_seq].
  rewrite (absl_existsb (is_key p h)) by (intros a; apply norm_key).
  rewrite <- (existsb_or_split (is_key p h) (st_is CANDIDATE_BEST)).
  destruct (existsb (fun a => is_key p h a && st_is CANDIDATE_BEST a) (t_index t)); cbn [orb]; [reflexivity|].
  destruct (existsb (fun a => is_key p h a && negb (st_is CANDIDATE_BEST a)) (t_index t)); [reflexivity|].
  cbn [t_seq t_index]. rewrite absl_app. reflexivity.
Qed.

Lemma abs_forget t h : WF t -> abs (forget_txhash t h) = s_forget (abs t) h.
Proof.
  intros W. unfold forget_txhash, s_forget, abs. destruct (erase_txhash_spec t h W) as [I [E _]].
  rewrite I, E. cbn [s_anns s_seq]. f_equal. unfold drop_tx. symmetry. apply absl_filter.
  intros a. rewrite norm_has_txhash. reflexivity.
Qed.

Section Refine.
Variable prio : Z -> Z -> bool -> Z.
Notation Inv := (Inv prio).

(* no other REQUESTED announcement of a txhash whose selected announcement is known *)
Lemma no_other_requested l h x a : tx_ok l h -> In x l -> In a l -> a_txhash x = h -> a_txhash a = h ->
  is_selected x = true -> a_state a = REQUESTED -> a = x.
Proof.
  intros T Hx Ha Ex Ea Sx Sa. apply (sel_unique l h); auto. unfold is_selected, st_is. rewrite Sa. reflexivity.
Qed.

Lemma abs_requested_tx t p h e : Inv t -> abs (requested_tx t p h e) = s_requested_tx (abs t) p h e.
Proof.
  intros [W [T P] Q]. pose proof (wf_uniq _ W) as U. unfold requested_tx, s_requested_tx, abs. cbn [s_anns s_seq].
  fold (to_req e). rewrite absl_find.
  assert (KK : keeps_key (to_req e)) by apply keeps_key_with_state_time.
  set (G := fun a => if is_key p h a then with_state_time a REQUESTED e
                     else if has_txhash h a && st_is REQUESTED a then with_state a COMPLETED else a).
  (* the generic final step: the index is `map F l` for an F that agrees with G modulo norm *)
  assert (FIN : forall t1 it F, WF t1 -> t_seq t1 = t_seq t -> find_ann p h (t_index t1) = Some it ->
            set_ann p h (to_req e) (t_index t1) = map F (t_index t) ->
            (forall a, In a (t_index t) -> norm_ann (F a) = G (norm_ann a)) ->
            mkS (t_seq (modify t1 p h (to_req e))) (absl (t_index (modify t1 p h (to_req e))))
            = mkS (t_seq t) (map G (absl (t_index t)))).
  { intros t1 it F W1 E1 F1 EF HF. destruct (modify_spec t1 p h (to_req e) it W1 F1 KK) as [I [E2 _]].
    rewrite I, E2, E1, EF. f_equal. unfold absl. rewrite !map_map. apply map_ext_in. exact HF. }
  destruct (find (fun a => is_key p h a && st_is CANDIDATE_BEST a) (t_index t)) as [b0|] eqn:FB.
  - apply find_some in FB. destruct FB as [Hb0 Eb0]. apply andb_true_iff in Eb0. destruct Eb0 as [K0 S0].
    apply is_key_true in K0. destruct K0 as [Kp Kh]. apply st_is_eq in S0.
    assert (F : find_ann p h (t_index t) = Some b0) by (rewrite <- Kp, <- Kh; apply find_ann_in; auto).
    rewrite F. cbn [option_map]. rewrite norm_cand. rewrite (proj2 (cand_states b0)) by auto.
    apply (FIN t b0 (fun a => if is_key p h a then to_req e a else a)); auto.
    intros a Ha. unfold G. rewrite norm_key. destruct (is_key p h a) eqn:K; [apply norm_with_req|].
    rewrite norm_has_txhash, norm_st_req.
    destruct (has_txhash h a && st_is REQUESTED a) eqn:E; [|reflexivity]. exfalso.
    apply andb_true_iff in E. destruct E as [Ex1 Ex2]. apply has_txhash_true in Ex1. apply st_is_eq in Ex2.
    assert (a = b0) by (apply (no_other_requested (t_index t) h); auto; unfold is_selected, st_is; rewrite S0; reflexivity).
    subst a. congruence.
  - destruct (find (fun a => is_key p h a && negb (st_is CANDIDATE_BEST a)) (t_index t)) as [it|] eqn:FN.
    2:{ (* no announcement with this key *)
      assert (F : find_ann p h (t_index t) = None).
      { apply find_ann_none. intros a Ha. destruct (is_key p h a) eqn:K; [|reflexivity]. exfalso.
        pose proof (find_none _ _ FB a Ha) as X. pose proof (find_none _ _ FN a Ha) as Y. cbv beta in X, Y.
        rewrite K in X, Y. destruct (st_is CANDIDATE_BEST a); discriminate. }
      rewrite F. reflexivity. }
    apply find_some in FN. destruct FN as [Hit Eit]. apply andb_true_iff in Eit. destruct Eit as [K0 S0].
    apply is_key_true in K0. destruct K0 as [Kp Kh]. apply negb_true_iff, st_is_neq in S0.
    assert (F : find_ann p h (t_index t) = Some it) by (rewrite <- Kp, <- Kh; apply find_ann_in; auto).
    rewrite F. cbn [option_map]. rewrite norm_cand.
    destruct (st_is CANDIDATE_DELAYED it || st_is CANDIDATE_READY it) eqn:Cand; cbn [negb].
    2:{ assert (NC : is_candidate it = false).
        { unfold is_candidate. apply orb_false_iff in Cand. destruct Cand as [C1 C2]. rewrite C1, C2.
          apply st_is_neq in S0. rewrite S0. reflexivity. }
        rewrite NC. reflexivity. }
    assert (Hs : a_state it = CANDIDATE_DELAYED \/ a_state it = CANDIDATE_READY).
    { apply orb_true_iff in Cand. rewrite !st_is_eq in Cand. exact Cand. }
    rewrite (proj2 (cand_states it)) by tauto.
    destruct (find (fun a => has_txhash h a && st_is CANDIDATE_BEST a) (t_index t)) as [b|] eqn:FBest.
    + apply find_some in FBest. destruct FBest as [Hb Eb]. apply andb_true_iff in Eb. destruct Eb as [Ebh Sb].
      apply has_txhash_true in Ebh. apply st_is_eq in Sb.
      assert (Fb : find_ann (a_peer b) h (t_index t) = Some b) by (rewrite <- Ebh; apply find_ann_in; auto).
      destruct (modify_state_spec t (a_peer b) h CANDIDATE_READY b W Fb) as [I1 [E1 W1]].
      assert (Nb : a_peer b <> p).
      { intros E. assert (b = it) by (apply (uniq_same_key (t_index t)); auto; unfold key; congruence). subst b. destruct Hs; congruence. }
      apply (FIN _ it (fun a => if is_key p h a then to_req e a else if is_key (a_peer b) h a then with_state a CANDIDATE_READY else a)); auto.
      * rewrite I1, find_set_st_other; auto. intros E. inversion E. congruence.
      * rewrite I1. unfold set_st, set_ann. rewrite map_map. apply map_ext. intros a.
        destruct (is_key (a_peer b) h a) eqn:Kb.
        -- assert (Kp' : is_key p h a = false).
           { apply is_key_true in Kb. destruct Kb as [Kb1 Kb2]. unfold is_key. rewrite Kb1.
             apply andb_false_iff. left. apply Z.eqb_neq. auto. }
           unfold is_key in *. cbn [with_state a_peer a_txhash]. rewrite Kp'. reflexivity.
        -- reflexivity.
      * intros a Ha. unfold G. rewrite norm_key. destruct (is_key p h a) eqn:K; [apply norm_with_req|].
        rewrite norm_has_txhash, norm_st_req.
        destruct (has_txhash h a && st_is REQUESTED a) eqn:E.
        { exfalso. apply andb_true_iff in E. destruct E as [Ex1 Ex2]. apply has_txhash_true in Ex1. apply st_is_eq in Ex2.
          assert (a = b) by (apply (no_other_requested (t_index t) h); auto; unfold is_selected, st_is; rewrite Sb; reflexivity).
          subst a. congruence. }
        destruct (is_key (a_peer b) h a) eqn:Kb; [|reflexivity].
        assert (a = b) by (apply (uniq_same_key (t_index t)); auto; apply is_key_true in Kb; destruct Kb; unfold key; congruence).
        subst a. apply norm_with_cand; [apply cand_states|]; auto.
    + apply find_pred_none_c in FBest.
      destruct (find (fun a => has_txhash h a && st_is REQUESTED a) (t_index t)) as [q|] eqn:FReq.
      * apply find_some in FReq. destruct FReq as [Hq Eq]. apply andb_true_iff in Eq. destruct Eq as [Eqh Sq].
        apply has_txhash_true in Eqh. apply st_is_eq in Sq.
        assert (Fq : find_ann (a_peer q) h (t_index t) = Some q) by (rewrite <- Eqh; apply find_ann_in; auto).
        destruct (modify_state_spec t (a_peer q) h COMPLETED q W Fq) as [I1 [E1 W1]].
        assert (Nq : a_peer q <> p).
        { intros E. assert (q = it) by (apply (uniq_same_key (t_index t)); auto; unfold key; congruence). subst q. destruct Hs; congruence. }
        apply (FIN _ it (fun a => if is_key p h a then to_req e a else if is_key (a_peer q) h a then with_state a COMPLETED else a)); auto.
        -- rewrite I1, find_set_st_other; auto. intros E. inversion E. congruence.
        -- rewrite I1. unfold set_st, set_ann. rewrite map_map. apply map_ext. intros a.
           destruct (is_key (a_peer q) h a) eqn:Kb; [|reflexivity].
           assert (Kp' : is_key p h a = false).
           { apply is_key_true in Kb. destruct Kb as [Kb1 Kb2]. unfold is_key. rewrite Kb1.
             apply andb_false_iff. left. apply Z.eqb_neq. auto. }
           unfold is_key in *. cbn [with_state a_peer a_txhash]. rewrite Kp'. reflexivity.
        -- intros a Ha. unfold G. rewrite norm_key. destruct (is_key p h a) eqn:K; [apply norm_with_req|].
           rewrite norm_has_txhash, norm_st_req.
           destruct (is_key (a_peer q) h a) eqn:Kb.
           ++ assert (a = q) by (apply (uniq_same_key (t_index t)); auto; apply is_key_true in Kb; destruct Kb; unfold key; congruence).
              subst a. apply has_txhash_true in Eqh. apply st_is_eq in Sq. rewrite Eqh, Sq. cbn [andb]. apply norm_with_compl.
           ++ destruct (has_txhash h a && st_is REQUESTED a) eqn:E; [|reflexivity]. exfalso.
              apply andb_true_iff in E. destruct E as [Ex1 Ex2]. apply has_txhash_true in Ex1. apply st_is_eq in Ex2.
              assert (a = q) by (apply (no_other_requested (t_index t) h); auto; unfold is_selected, st_is; rewrite Sq; apply orb_true_r).
              subst a. rewrite (proj2 (is_key_true (a_peer q) h q)) in Kb by auto. discriminate.
      * apply find_pred_none_c in FReq.
        apply (FIN t it (fun a => if is_key p h a then to_req e a else a)); auto.
        intros a Ha. unfold G. rewrite norm_key. destruct (is_key p h a) eqn:K; [apply norm_with_req|].
        rewrite norm_has_txhash, norm_st_req.
        destruct (has_txhash h a && st_is REQUESTED a) eqn:E; [|reflexivity]. exfalso.
        apply andb_true_iff in E. destruct E as [Ex1 Ex2]. apply has_txhash_true in Ex1. apply st_is_eq in Ex2.
        assert (0 < c (t_index t) h REQUESTED) by (apply (c_pos_of _ _ _ a); auto). lia.
Qed.

(* ---------- MakeCompleted / DisconnectedPeer's per-announcement step, seen by the specification ---------- *)
Lemma filter_set_ann_irrelevant (Q : ann -> bool) p h f l :
  (forall a, In a l -> is_key p h a = true -> Q a = false /\ Q (f a) = false) ->
  filter Q (set_ann p h f l) = filter Q l.
Proof.
  intros H. unfold set_ann. induction l as [|x l IH]; [reflexivity|]. cbn [map filter].
  assert (IH' : filter Q (map (fun a => if is_key p h a then f a else a) l) = filter Q l).
  { apply IH. intros a Ha. apply H. right. auto. }
  destruct (is_key p h x) eqn:K.
  - destruct (H x (or_introl eq_refl) K) as [Q1 Q2]. rewrite Q1, Q2. exact IH'.
  - rewrite IH'. reflexivity.
Qed.

Lemma cleanup_dead_tx l m h :
  sched_ok prio l -> filter (fun a => negb (has_txhash h a)) m = drop_tx h l ->
  (forall a, In a m -> a_txhash a = h -> a_state a = COMPLETED) ->
  s_cleanup m = drop_tx h l.
Proof.
  intros S E Hc. rewrite <- E. rewrite s_cleanup_eq. apply filter_ext_in. intros a Ha.
  destruct (has_txhash h a) eqn:Eh; cbn [negb].
  - apply has_txhash_true in Eh. destruct (live_tx m (a_txhash a)) eqn:L; [|reflexivity]. exfalso.
    apply live_tx_true in L. destruct L as [b [Hb [Eb Sb]]]. apply Sb. apply Hc; auto. congruence.
  - assert (Hal : In a (drop_tx h l)) by (rewrite <- E; apply filter_In; rewrite Eh; auto).
    unfold drop_tx in Hal. apply filter_In in Hal. destruct Hal as [Hal _].
    pose proof (cleanup_id prio l S) as CI. rewrite s_cleanup_eq in CI.
    assert (L : live_tx l (a_txhash a) = true).
    { assert (X : In a (filter (fun a0 => live_tx l (a_txhash a0)) l)) by (rewrite CI; auto). apply filter_In in X. tauto. }
    apply live_tx_true in L. destruct L as [b [Hb [Eb Sb]]]. apply live_tx_true. exists b. split; [|auto].
    assert (X : In b (drop_tx h l)).
    { unfold drop_tx. apply filter_In. split; auto. unfold has_txhash in *. rewrite Eb. rewrite Eh. reflexivity. }
    rewrite <- E in X. apply filter_In in X. tauto.
Qed.

Lemma set_st_same_state p h st l it : uniq l -> find_ann p h l = Some it -> a_state it = st -> set_st p h st l = l.
Proof.
  intros U F S. unfold set_st, set_ann. rewrite <- (map_id l) at 2. apply map_ext_in. intros a Ha.
  destruct (is_key p h a) eqn:K; [|reflexivity].
  assert (a = it).
  { destruct (find_ann_some _ _ _ _ F) as [Hin [Hp Hh]]. apply is_key_true in K. destruct K.
    apply (uniq_same_key l); auto. unfold key. congruence. }
  subst a. rewrite <- S. apply with_state_self.
Qed.

Lemma absl_del_ann p h l : absl (del_ann p h l) = del_ann p h (absl l).
Proof. unfold del_ann. symmetry. apply absl_filter. intros a. rewrite norm_key. reflexivity. Qed.

Lemma del_set_same p h st l : del_ann p h (set_st p h st l) = del_ann p h l.
Proof.
  unfold del_ann, set_st, set_ann. induction l as [|x l IH]; [reflexivity|]. cbn [map filter].
  destruct (is_key p h x) eqn:K.
  - assert (K' : is_key p h (with_state x st) = true) by exact K. rewrite K'. cbn [negb]. exact IH.
  - rewrite K. cbn [negb]. rewrite IH. reflexivity.
Qed.

Lemma only_live_dead l p h it :
  uniq l -> find_ann p h l = Some it -> is_only_non_completed l p h = true ->
  (forall a, In a (set_st p h COMPLETED l) -> a_txhash a = h -> a_state a = COMPLETED) /\
  (forall a, In a (del_ann p h l) -> a_txhash a = h -> a_state a = COMPLETED).
Proof.
  intros U F O. pose proof (only_non_completed_true l p h O) as OC. split.
  - intros a Ha Eh. apply (in_set_st p h COMPLETED l it a U F) in Ha. destruct Ha as [->|[Ha K]]; [reflexivity|].
    apply OC; auto. apply other_of_true. split; auto. intros Ep.
    assert (is_key p h a = true) by (apply is_key_true; auto). congruence.
  - intros a Ha Eh. apply in_del_ann in Ha. destruct Ha as [Ha K].
    apply OC; auto. apply other_of_true. split; auto. intros Ep.
    assert (is_key p h a = true) by (apply is_key_true; auto). congruence.
Qed.

Lemma mc_l_abs l p h it :
  uniq l -> sched_ok prio l -> find_ann p h l = Some it ->
  absl (mc_l prio l p h it) = s_cleanup (set_st p h COMPLETED (absl l)).
Proof.
  intros U S F. rewrite <- absl_set_st_compl, absl_cleanup. unfold mc_l.
  destruct (st_is COMPLETED it) eqn:Ec.
  - apply st_is_eq in Ec. rewrite (set_st_same_state p h COMPLETED l it) by auto. rewrite (cleanup_id prio l S). reflexivity.
  - destruct (is_only_non_completed l p h) eqn:O.
    + f_equal. symmetry. apply cleanup_dead_tx; auto.
      * unfold set_st, drop_tx. apply filter_set_ann_irrelevant. intros a Ha K. apply is_key_true in K. destruct K as [_ K].
        unfold has_txhash. cbn [with_state a_txhash]. rewrite K, Z.eqb_refl. auto.
      * apply (only_live_dead l p h it U F O).
    + pose proof (car_l_shape prio l p h it COMPLETED U F) as Sh.
      assert (NC : a_state it <> COMPLETED) by (apply st_is_neq; auto).
      destruct (car_sched prio l p h it COMPLETED U F S NC) as [S' U'].
      { right. split; auto. apply only_non_completed_false; auto. }
      assert (E : absl (car_l prio l p h it COMPLETED) = absl (set_st p h COMPLETED l)).
      { rewrite (absl_car_shape_compl l p h _ U Sh). symmetry. apply absl_set_st_compl. }
      rewrite <- absl_cleanup, <- E, absl_cleanup, (cleanup_id prio _ S'). reflexivity.
Qed.

Lemma abs_received_response t p h : Inv t -> abs (received_response prio t p h) = s_received_response (abs t) p h.
Proof.
  intros [W S Q]. pose proof (wf_uniq _ W) as U. unfold received_response, s_received_response, abs. cbn [s_anns s_seq].
  destruct (find_ann p h (t_index t)) as [it|] eqn:F.
  - destruct (mc_spec prio t p h it W F) as [I [[E _] _]]. rewrite I, E. f_equal. apply mc_l_abs; auto.
  - f_equal. rewrite set_ann_id_on.
    + rewrite absl_cleanup, (cleanup_id prio _ S). reflexivity.
    + apply find_ann_none. rewrite absl_find, F. reflexivity.
Qed.

Lemma find_del_ann_same p h l : uniq l -> find_ann p h (del_ann p h l) = None.
Proof.
  intros U. apply find_ann_none. intros a Ha. apply in_del_ann in Ha. tauto.
Qed.
Lemma find_drop_tx_same p h l : find_ann p h (drop_tx h l) = None.
Proof.
  apply find_ann_none. intros a Ha. unfold drop_tx in Ha. apply filter_In in Ha. destruct Ha as [_ N].
  destruct (is_key p h a) eqn:K; [|reflexivity]. apply is_key_true in K. destruct K as [_ K].
  unfold has_txhash in N. rewrite K, Z.eqb_refl in N. discriminate.
Qed.

(* the per-announcement step of DisconnectedPeer: invariant, identities only disappear, the key is gone, and
   the specification sees "remove the announcement, then forget txhashes without live announcements" *)
Lemma disconnect_one_full t p h it :
  Inv t -> find_ann p h (t_index t) = Some it ->
  let t' := disconnect_one prio t p h in
  evolves (t_index t) (t_index t') /\ find_ann p h (t_index t') = None /\ t_seq t' = t_seq t /\
  absl (t_index t') = s_cleanup (del_ann p h (absl (t_index t))).
Proof.
  intros I F. pose proof I as [W S Q]. pose proof (wf_uniq _ W) as U.
  destruct (disconnect_one_inv prio t p h it I F) as [[W' S' _] _].
  destruct (mc_spec prio t p h it W F) as [Ix [[E1 W1] Al]].
  pose proof (evolves_mc_l prio (t_index t) p h it U F) as Ev.
  revert W' S'. unfold disconnect_one. destruct (make_completed prio t p h) as [t1 alive]. cbn [fst snd] in *.
  intros W' S'.
  assert (CL : forall l', sched_ok prio l' -> absl l' = del_ann p h (absl (t_index t)) ->
                 absl l' = s_cleanup (del_ann p h (absl (t_index t)))).
  { intros l' Sl E. rewrite <- E, absl_cleanup, (cleanup_id prio _ Sl). reflexivity. }
  destruct alive.
  - assert (F1 : exists x, find_ann p h (t_index t1) = Some x).
    { rewrite Ix. unfold mc_l. destruct (st_is COMPLETED it) eqn:Ec; [exists it; auto|].
      cbn [negb andb] in Al. destruct (is_only_non_completed (t_index t) p h); [discriminate|].
      exists (with_state it COMPLETED). eapply car_shape_find; eauto. apply car_l_shape; auto. }
    destruct F1 as [x F1]. destruct (erase_spec t1 p h x W1 F1) as [I2 [E2 W2]].
    split; [rewrite I2; apply (evolves_trans _ (t_index t1)); [rewrite Ix; exact Ev|apply evolves_filter]|].
    split; [rewrite I2; apply find_del_ann_same; apply (wf_uniq _ W1)|]. split; [congruence|].
    apply CL; [exact S'|]. rewrite I2, absl_del_ann, Ix. unfold mc_l.
    destruct (st_is COMPLETED it) eqn:Ec; [reflexivity|].
    cbn [negb andb] in Al. destruct (is_only_non_completed (t_index t) p h); [discriminate|].
    rewrite (absl_car_shape_compl _ p h _ U (car_l_shape prio _ p h it COMPLETED U F)). apply del_set_same.
  - assert (Ec : st_is COMPLETED it = false) by (destruct (st_is COMPLETED it); [discriminate|reflexivity]).
    rewrite Ec in Al. cbn [negb andb] in Al. symmetry in Al. apply negb_false_iff in Al.
    assert (Ix' : t_index t1 = drop_tx h (t_index t)) by (rewrite Ix; unfold mc_l; rewrite Ec, Al; reflexivity).
    split; [rewrite Ix; exact Ev|]. split; [rewrite Ix'; apply find_drop_tx_same|]. split; [exact E1|].
    rewrite Ix', <- absl_del_ann, absl_cleanup. f_equal. symmetry. apply cleanup_dead_tx; auto.
    + unfold del_ann, drop_tx. rewrite filter_filter_and. apply filter_ext. intros a.
      destruct (is_key p h a) eqn:K; cbn [negb andb]; [|reflexivity].
      apply is_key_true in K. destruct K as [_ K]. unfold has_txhash. rewrite K, Z.eqb_refl. reflexivity.
    + apply (only_live_dead (t_index t) p h it U F Al).
Qed.

Lemma subseq_in_map {A B} (f : A -> B) l l' x : subseq (map f l') (map f l) -> In x l' -> exists a, In a l /\ f a = f x.
Proof.
  intros S Hx. assert (In (f x) (map f l)) by (eapply subseq_in; [exact S|apply in_map; auto]).
  apply in_map_iff in H. destruct H as [a [E Ha]]. exists a. auto.
Qed.

Lemma disconnected_fold_abs p : forall (ks : list ann) (t : tracker),
  Inv t -> NoDup (map a_txhash ks) ->
  (forall a, In a ks -> find_ann p (a_txhash a) (t_index t) <> None) ->
  (forall x, In x (t_index t) -> a_peer x = p -> In (a_txhash x) (map a_txhash ks)) ->
  let t' := fold_left (fun t' a => disconnect_one prio t' p (a_txhash a)) ks t in
  t_seq t' = t_seq t /\
  (forall x, In x (t_index t') -> a_peer x <> p) /\
  s_cleanup (filter (fun a => negb (has_peer p a)) (absl (t_index t'))) =
  s_cleanup (filter (fun a => negb (has_peer p a)) (absl (t_index t))).
Proof.
  induction ks as [|k ks IH]; intros t I ND Hf Hp; cbn [fold_left].
  - split; [reflexivity|]. split; [|reflexivity]. intros x Hx E. exact (Hp x Hx E).
  - destruct (find_ann p (a_txhash k) (t_index t)) as [it|] eqn:F; [|exfalso; apply (Hf k); [left; auto|exact F]].
    destruct (disconnect_one_inv prio t p (a_txhash k) it I F) as [I1 FO].
    destruct (disconnect_one_full t p (a_txhash k) it I F) as [Ev [Gone [Es Ab]]].
    inversion ND as [|? ? Hnk ND']. subst.
    set (t1 := disconnect_one prio t p (a_txhash k)) in *.
    destruct (IH t1 I1 ND') as [E2 [NP AB]].
    + intros a Ha. rewrite FO; [apply Hf; right; auto|]. intros E. apply Hnk. rewrite <- E. apply in_map. exact Ha.
    + intros x Hx Ex. destruct (subseq_in_map ident _ _ x Ev Hx) as [a [Ha Ei]].
      assert (Eh : a_txhash a = a_txhash x /\ a_peer a = a_peer x) by (unfold ident in Ei; inversion Ei; auto).
      destruct Eh as [Eh Ep]. specialize (Hp a Ha (eq_trans Ep Ex)). cbn [map] in Hp. destruct Hp as [Hk|Hk].
      * exfalso. pose proof (find_ann_in _ x (wf_uniq _ (inv_wf _ _ I1)) Hx) as Fx. rewrite Ex in Fx.
        rewrite <- Eh, <- Hk in Fx. rewrite Gone in Fx. discriminate.
      * rewrite <- Eh. exact Hk.
    + split; [congruence|]. split; [exact NP|]. rewrite AB, Ab.
      rewrite cleanup_filter_cleanup. f_equal. unfold del_ann. rewrite filter_filter_and. apply filter_ext. intros a.
      destruct (is_key p (a_txhash k) a) eqn:K; cbn [negb andb]; [|reflexivity].
      apply is_key_true in K. destruct K as [K _]. unfold has_peer. rewrite K, Z.eqb_refl. reflexivity.
Qed.

Lemma abs_disconnected t p : Inv t -> abs (disconnected_peer prio t p) = s_disconnected (abs t) p.
Proof.
  intros I. pose proof I as [W _ _]. pose proof (wf_uniq _ W) as U.
  pose proof (disconnected_peer_inv prio t p I) as [_ S' _].
  unfold disconnected_peer in *. unfold s_disconnected, abs. cbn [s_anns s_seq].
  destruct (disconnected_fold_abs p (filter (has_peer p) (t_index t)) t I) as [E [NP AB]].
  - apply uniq_txs_of_peer; auto.
  - intros a Ha. apply filter_In in Ha. destruct Ha as [Ha E]. apply has_peer_true in E.
    rewrite <- E, find_ann_in; auto. discriminate.
  - intros x Hx Ex. apply in_map. apply filter_In. split; auto. apply has_peer_true; auto.
  - rewrite E. f_equal. rewrite <- AB.
    set (l' := t_index (fold_left (fun t' a => disconnect_one prio t' p (a_txhash a)) (filter (has_peer p) (t_index t)) t)) in *.
    rewrite filter_all_true.
    + rewrite absl_cleanup, (cleanup_id prio _ S'). reflexivity.
    + intros a Ha. unfold absl in Ha. apply in_map_iff in Ha. destruct Ha as [x [Ex Hx]]. subst a.
      rewrite norm_has_peer. apply negb_true_iff. unfold has_peer. apply Z.eqb_neq. apply NP; auto.
Qed.

(* ---------- SetTimePoint seen by the specification ---------- *)
Definition reqdue (now : Z) (a : ann) : bool := st_is REQUESTED a && (a_time a <=? now).
Definition exp_entry (a : ann) : Z * (Z * bool) := (a_peer a, gtxid_of a).

Lemma filter_set_ann_drop (Q : ann -> bool) p h f l :
  (forall a, In a l -> is_key p h a = true -> Q (f a) = false) ->
  filter Q (set_ann p h f l) = filter (fun a => Q a && negb (is_key p h a)) l.
Proof.
  intros H. unfold set_ann. induction l as [|x l IH]; [reflexivity|]. cbn [map filter].
  assert (IH' : filter Q (map (fun a => if is_key p h a then f a else a) l) = filter (fun a => Q a && negb (is_key p h a)) l).
  { apply IH. intros a Ha. apply H. right. auto. }
  destruct (is_key p h x) eqn:K.
  - rewrite (H x (or_introl eq_refl) K). rewrite andb_false_r. exact IH'.
  - cbn [negb]. rewrite andb_true_r. rewrite IH'. reflexivity.
Qed.

Lemma perm_filter_key (Q : ann -> bool) p h l it : uniq l -> find_ann p h l = Some it -> Q it = true ->
  Permutation (it :: filter (fun a => Q a && negb (is_key p h a)) l) (filter Q l).
Proof.
  intros U F Qi. destruct (uniq_split _ _ _ _ U F) as [l1 [l2 [-> [H1 H2]]]].
  destruct (find_ann_some _ _ _ _ F) as [_ [Hp Hh]].
  assert (K : is_key p h it = true) by (apply is_key_true; auto).
  assert (E : forall m, (forall a, In a m -> is_key p h a = false) -> filter (fun a => Q a && negb (is_key p h a)) m = filter Q m).
  { intros m Hm. apply filter_ext_in. intros a Ha. rewrite (Hm a Ha). cbn [negb]. apply andb_true_r. }
  rewrite !filter_app. cbn [filter]. rewrite K, Qi. cbn [negb]. rewrite andb_false_r.
  rewrite (E l1 H1), (E l2 H2). apply Permutation_middle.
Qed.

Lemma reqdue_rb now a st : (st = CANDIDATE_READY \/ st = CANDIDATE_BEST \/ st = CANDIDATE_DELAYED \/ st = COMPLETED) ->
  reqdue now (with_state a st) = false.
Proof. intros [->|[->|[->| ->]]]; reflexivity. Qed.

Lemma filter_reqdue_promote now l p h it l' : uniq l -> find_ann p h l = Some it -> a_state it = CANDIDATE_DELAYED ->
  promote_shape l p h it l' -> filter (reqdue now) l' = filter (reqdue now) l.
Proof.
  intros U F D S.
  assert (ONE : forall p0 it0 st l0, uniq l0 -> find_ann p0 h l0 = Some it0 -> reqdue now it0 = false ->
             (st = CANDIDATE_READY \/ st = CANDIDATE_BEST \/ st = CANDIDATE_DELAYED \/ st = COMPLETED) ->
             filter (reqdue now) (set_st p0 h st l0) = filter (reqdue now) l0).
  { intros p0 it0 st l0 U0 F0 Q0 Hst. unfold set_st. apply filter_set_ann_irrelevant. intros a Ha K.
    assert (a = it0).
    { destruct (find_ann_some _ _ _ _ F0) as [Hin [Hp0 Hh0]]. apply is_key_true in K. destruct K.
      apply (uniq_same_key l0); auto. unfold key. congruence. }
    subst a. split; auto. apply reqdue_rb. auto. }
  assert (Qi : reqdue now it = false) by (unfold reqdue, st_is; rewrite D; reflexivity).
  destruct S as [st Hst | b Fb Sb Nb].
  - apply (ONE p it); auto. tauto.
  - assert (U1 : uniq (set_st (a_peer b) h CANDIDATE_READY l)) by (apply set_st_uniq; auto).
    assert (F1 : find_ann p h (set_st (a_peer b) h CANDIDATE_READY l) = Some it).
    { rewrite find_set_st_other; auto. intros E. inversion E. congruence. }
    rewrite (ONE p it); auto. apply (ONE (a_peer b) b); auto. unfold reqdue, st_is. rewrite Sb. reflexivity.
Qed.

Lemma filter_reqdue_mc now l p h it : uniq l -> find_ann p h l = Some it -> a_state it = REQUESTED ->
  filter (reqdue now) (mc_l prio l p h it) = filter (fun a => reqdue now a && negb (is_key p h a)) l.
Proof.
  intros U F D. unfold mc_l. assert (Ec : st_is COMPLETED it = false) by (unfold st_is; rewrite D; reflexivity). rewrite Ec.
  destruct (is_only_non_completed l p h) eqn:O.
  - unfold drop_tx. rewrite filter_filter_and. apply filter_ext_in. intros a Ha.
    destruct (is_key p h a) eqn:K.
    + apply is_key_true in K. destruct K as [_ K]. unfold has_txhash. rewrite K, Z.eqb_refl. cbn [negb andb]. rewrite andb_false_r. reflexivity.
    + cbn [negb]. rewrite andb_true_r. destruct (has_txhash h a) eqn:Eh; cbn [negb andb]; [|reflexivity].
      apply has_txhash_true in Eh. symmetry.
      assert (Sa : a_state a = COMPLETED).
      { apply (only_non_completed_true l p h O a Ha). apply other_of_true. split; auto. intros Ep.
        assert (is_key p h a = true) by (apply is_key_true; auto). congruence. }
      unfold reqdue, st_is. rewrite Sa. reflexivity.
  - pose proof (car_l_shape prio l p h it COMPLETED U F) as Sh. destruct Sh as [| r Fr Sr Nr].
    + unfold set_st. apply filter_set_ann_drop. intros a _ _. reflexivity.
    + unfold set_st at 1. rewrite filter_set_ann_drop by (intros a _ _; reflexivity).
      unfold set_st. apply filter_set_ann_irrelevant. intros a Ha K.
      assert (a = r).
      { destruct (find_ann_some _ _ _ _ Fr) as [Hin [Hp0 Hh0]]. apply is_key_true in K. destruct K.
        apply (uniq_same_key l); auto. unfold key. congruence. }
      subst a. unfold reqdue at 1, st_is. rewrite Sr. cbn [state_eqb andb]. split; reflexivity.
Qed.

Lemma exp_set_compl now l p h it : uniq l -> find_ann p h l = Some it -> reqdue now it = true ->
  map (s_expire now) (set_st p h COMPLETED (absl l)) = map (s_expire now) (absl l).
Proof.
  intros U F Q. unfold set_st, set_ann, absl. rewrite !map_map. apply map_ext_in. intros a Ha. rewrite norm_key.
  destruct (is_key p h a) eqn:K; [|reflexivity].
  assert (a = it).
  { destruct (find_ann_some _ _ _ _ F) as [Hin [Hp0 Hh0]]. apply is_key_true in K. destruct K.
    apply (uniq_same_key l); auto. unfold key. congruence. }
  subst a. unfold reqdue in Q. apply andb_true_iff in Q. destruct Q as [Q1 Q2].
  unfold s_expire. rewrite norm_st_req, norm_time, Q1, Q2. cbn [andb]. reflexivity.
Qed.

Lemma loop1_abs now : forall fuel t ex,
  Inv t -> cnt is_waiting (t_index t) <= Z.of_nat fuel ->
  let r := stp_loop1 prio fuel now t ex in
  t_seq (fst r) = t_seq t /\
  s_cleanup (map (s_expire now) (absl (t_index (fst r)))) = s_cleanup (map (s_expire now) (absl (t_index t))) /\
  Permutation (snd r ++ map exp_entry (filter (reqdue now) (t_index (fst r))))
              (ex ++ map exp_entry (filter (reqdue now) (t_index t))).
Proof.
  induction fuel as [|f IH]; intros t ex I Hc; rewrite stp_loop1_unfold; cbv zeta.
  - destruct (first_by_time (t_index t)) as [it|] eqn:FB; [|cbn [fst snd]; auto].
    destruct (a_time it <=? now) eqn:Tm; [|cbn [fst snd]; auto]. exfalso.
    apply first_by_time_some in FB. destruct FB as [Hin [Wi _]].
    assert (0 < cnt is_waiting (t_index t)) by (apply cnt_pos; exists it; auto). simpl in Hc. lia.
  - destruct (first_by_time (t_index t)) as [it|] eqn:FB; [|cbn [fst snd]; auto].
    destruct (a_time it <=? now) eqn:Tm; [|cbn [fst snd]; auto].
    apply first_by_time_some in FB. destruct FB as [Hin [Wi _]]. apply Z.leb_le in Tm.
    pose proof I as [W S Q]. pose proof (wf_uniq _ W) as U.
    assert (F : find_ann (a_peer it) (a_txhash it) (t_index t) = Some it) by (apply find_ann_in; auto).
    destruct (st_is CANDIDATE_DELAYED it) eqn:D.
    + apply st_is_eq in D. destruct (loop1_promote_step prio t it I Hin D) as [I' C'].
      destruct (promote_spec prio t _ _ it W F D) as [Ix [Es _]].
      destruct (IH (promote_candidate_ready prio t (a_peer it) (a_txhash it)) ex I') as [E1 [E2 E3]]; [lia|].
      pose proof (promote_l_shape prio _ _ _ it U F) as Sh.
      split; [congruence|]. split.
      * rewrite E2, Ix. rewrite (absl_promote_shape _ _ _ it _ U F D Sh). reflexivity.
      * rewrite Ix in E3. rewrite (filter_reqdue_promote now _ _ _ it _ U F D Sh) in E3. exact E3.
    + assert (D' : a_state it = REQUESTED).
      { destruct (waiting_states it Wi) as [X|X]; auto. apply st_is_neq in D. contradiction. }
      destruct (loop1_complete_step prio t it I Hin D') as [I' C'].
      destruct (mc_spec prio t _ _ it W F) as [Ix [[Es _] _]].
      destruct (IH (fst (make_completed prio t (a_peer it) (a_txhash it))) (ex ++ [(a_peer it, gtxid_of it)]) I') as [E1 [E2 E3]]; [lia|].
      assert (Qi : reqdue now it = true).
      { unfold reqdue, st_is. rewrite D'. apply Z.leb_le in Tm. rewrite Tm. reflexivity. }
      split; [congruence|]. split.
      * rewrite E2, Ix. rewrite (mc_l_abs _ _ _ it U S F). rewrite cleanup_map_cleanup.
        -- rewrite (exp_set_compl now _ _ _ it U F Qi). reflexivity.
        -- intros a. unfold s_expire. destruct (st_is REQUESTED a && (a_time a <=? now)); reflexivity.
        -- intros a Sa. unfold s_expire, st_is. rewrite Sa. cbn [state_eqb andb]. exact Sa.
      * eapply Permutation_trans; [exact E3|]. rewrite Ix, (filter_reqdue_mc now _ _ _ it U F D').
        rewrite <- app_assoc. apply Permutation_app_head. cbn [app].
        change ((a_peer it, gtxid_of it) :: map exp_entry (filter (fun a => reqdue now a && negb (is_key (a_peer it) (a_txhash it) a)) (t_index t)))
          with (map exp_entry (it :: filter (fun a => reqdue now a && negb (is_key (a_peer it) (a_txhash it) a)) (t_index t))).
        apply Permutation_map. apply perm_filter_key; auto.
Qed.

Lemma loop2_abs now : forall fuel t,
  Inv t -> cnt is_selectable (t_index t) <= Z.of_nat fuel ->
  t_seq (stp_loop2 prio fuel now t) = t_seq t /\
  absl (t_index (stp_loop2 prio fuel now t)) = absl (t_index t).
Proof.
  induction fuel as [|f IH]; intros t I Hc; rewrite stp_loop2_unfold.
  - destruct (last_by_time (t_index t)) as [it|] eqn:FB; [|auto].
    destruct (now <? a_time it); [|auto]. exfalso.
    apply last_by_time_some in FB. destruct FB as [Hin [Si _]].
    assert (0 < cnt is_selectable (t_index t)) by (apply cnt_pos; exists it; auto). simpl in Hc. lia.
  - destruct (last_by_time (t_index t)) as [it|] eqn:FB; [|auto].
    destruct (now <? a_time it); [|auto].
    apply last_by_time_some in FB. destruct FB as [Hin [Si _]].
    destruct (loop2_step prio t it I Hin Si) as [I' C'].
    pose proof I as [W _ _]. pose proof (wf_uniq _ W) as U.
    assert (F : find_ann (a_peer it) (a_txhash it) (t_index t) = Some it) by (apply find_ann_in; auto).
    destruct (car_spec prio t _ _ it CANDIDATE_DELAYED W F) as [Ix [Es _]].
    destruct (IH _ I') as [E1 E2]; [lia|]. split; [congruence|]. rewrite E2, Ix.
    apply (absl_car_shape_delayed (t_index t) (a_peer it) (a_txhash it) it); auto.
    + apply cand_states. destruct (selectable_states it Si) as [X|X]; auto.
    + apply car_l_shape; auto.
Qed.

Lemma filter_none (Q : ann -> bool) l : (forall a, In a l -> Q a = false) -> filter Q l = [].
Proof.
  induction l as [|x l IHl]; intros H; [reflexivity|]. cbn [filter]. rewrite (H x (or_introl eq_refl)).
  apply IHl. intros a Ha. apply H. right. auto.
Qed.

Lemma set_time_point_abs t now : Inv t ->
  let r := set_time_point prio t now in
  t_seq (fst r) = t_seq t /\
  absl (t_index (fst r)) = s_cleanup (map (s_expire now) (absl (t_index t))) /\
  Permutation (snd r) (map exp_entry (filter (reqdue now) (t_index t))).
Proof.
  intros I. unfold set_time_point.
  pose proof (stp_loop1_inv prio now (length (t_index t)) t [] I (cnt_le_length _ _)) as I1.
  pose proof (stp_loop1_post prio now (length (t_index t)) t [] I (cnt_le_length _ _)) as P1.
  destruct (loop1_abs now (length (t_index t)) t [] I (cnt_le_length _ _)) as [E1 [E2 E3]].
  destruct (stp_loop1 prio (length (t_index t)) now t []) as [t1 ex]. cbn [fst snd] in *.
  destruct (loop2_abs now (length (t_index t1)) t1 I1 (cnt_le_length _ _)) as [F1 F2].
  assert (NQ : forall a, In a (t_index t1) -> reqdue now a = false).
  { intros a Ha. unfold reqdue. destruct (st_is REQUESTED a) eqn:Sa; [|reflexivity]. cbn [andb].
    apply Z.leb_gt. apply P1; auto. unfold is_waiting. rewrite Sa. reflexivity. }
  split; [congruence|]. split.
  - rewrite F2, <- E2.
    assert (X : map (s_expire now) (absl (t_index t1)) = absl (t_index t1)).
    { unfold absl. rewrite map_map. apply map_ext_in. intros a Ha. unfold s_expire.
      rewrite norm_st_req, norm_time. specialize (NQ a Ha). unfold reqdue in NQ. rewrite NQ. reflexivity. }
    rewrite X, absl_cleanup. destruct I1 as [_ S1 _]. rewrite (cleanup_id prio _ S1). reflexivity.
  - cbn [app] in E3.
    assert (Y : filter (reqdue now) (t_index t1) = []).
    { apply filter_none. exact NQ. }
    rewrite Y in E3. cbn [map] in E3. rewrite app_nil_r in E3. exact E3.
Qed.

(* the specification's selection predicate does not see candidate sub-states *)
Lemma absl_forallb (P : ann -> bool) l : (forall a, P (norm_ann a) = P a) -> forallb P (absl l) = forallb P l.
Proof. intros H. unfold absl. induction l as [|x l IH]; [reflexivity|]. cbn [map forallb]. rewrite H, IH. reflexivity. Qed.

Lemma s_selected_absl l now a : s_selected prio (absl l) now a = s_selected prio l now a.
Proof.
  unfold s_selected. f_equal; [f_equal|].
  - f_equal. apply absl_existsb. intros b. rewrite norm_has_txhash, norm_st_req. reflexivity.
  - apply absl_forallb. intros b. rewrite norm_has_txhash, norm_cand, norm_time, norm_prio. reflexivity.
Qed.
Lemma s_selected_norm l now a : s_selected prio l now (norm_ann a) = s_selected prio l now a.
Proof.
  unfold s_selected. rewrite norm_cand, norm_time, norm_txhash, norm_prio. reflexivity.
Qed.

Lemma sort_by_seq_absl l : StronglySorted Z.lt (map a_seq l) -> sort_by_seq (absl l) = absl l.
Proof.
  intros S. apply sort_by_seq_sorted. unfold absl. rewrite map_map.
  rewrite (map_ext (fun x => a_seq (norm_ann x)) a_seq) by (intros; apply norm_seq). exact S.
Qed.

Definition out_rel (o o' : outp) : Prop :=
  match o, o' with
  | None, None => True
  | Some (r, ex), Some (r', ex') => r = r' /\ Permutation ex ex'
  | _, _ => False
  end.

Lemma abs_get_requestable t p now : Inv t -> prio_inj prio ->
  abs (fst (fst (get_requestable prio t p now))) = fst (fst (s_get_requestable prio (abs t) p now)) /\
  snd (fst (get_requestable prio t p now)) = snd (fst (s_get_requestable prio (abs t) p now)) /\
  Permutation (snd (get_requestable prio t p now)) (snd (s_get_requestable prio (abs t) p now)).
Proof.
  intros I PI. unfold get_requestable, s_get_requestable, abs. cbn [s_anns s_seq].
  pose proof (set_time_point_inv prio t now I) as I1. pose proof (set_time_point_post prio t now I) as [P1 P2].
  destruct (set_time_point_abs t now I) as [E1 [E2 E3]].
  destruct (set_time_point prio t now) as [t1 ex]. cbn [fst snd] in *.
  destruct I1 as [W1 S1 [QS QF]]. pose proof (wf_uniq _ W1) as U1.
  split; [rewrite E1, E2; reflexivity|]. split.
  - rewrite <- E2.
    rewrite (absl_filter (fun a => has_peer p a && s_selected prio (absl (t_index t1)) now a)).
    2:{ intros a. rewrite norm_has_peer, s_selected_norm. reflexivity. }
    assert (FE : filter (fun a => has_peer p a && s_selected prio (absl (t_index t1)) now a) (t_index t1)
                 = filter (fun a => has_peer p a && st_is CANDIDATE_BEST a) (t_index t1)).
    { apply filter_ext_in. intros a Ha. f_equal. rewrite s_selected_absl.
      pose proof (best_iff_selected prio (t_index t1) now U1 S1 P1 P2 PI a Ha) as B.
      destruct (s_selected prio (t_index t1) now a) eqn:X.
      - symmetry. apply st_is_eq. apply B. reflexivity.
      - symmetry. apply st_is_neq. intros Y. apply B in Y. discriminate. }
    rewrite FE.
    pose proof (sorted_filter_seq (fun a => has_peer p a && st_is CANDIDATE_BEST a) _ QS) as SF.
    rewrite sort_by_seq_sorted by auto. rewrite sort_by_seq_absl by auto.
    unfold absl. rewrite map_map. apply map_ext. intros a. symmetry. apply norm_gtxid.
  - eapply Permutation_trans; [exact E3|].
    rewrite (absl_filter (fun a => st_is REQUESTED a && (a_time a <=? now))).
    2:{ intros a. rewrite norm_st_req, norm_time. reflexivity. }
    unfold absl. rewrite map_map.
    rewrite (map_ext (fun x => (a_peer (norm_ann x), gtxid_of (norm_ann x))) exp_entry).
    + apply Permutation_refl.
    + intros a. unfold exp_entry. rewrite norm_peer, norm_gtxid. reflexivity.
Qed.

(* ---------- one step, then runs ---------- *)
Lemma step_refines t o : Inv t -> prio_inj prio ->
  abs (fst (step prio t o)) = fst (s_step prio (abs t) o) /\ out_rel (snd (step prio t o)) (snd (s_step prio (abs t) o)).
Proof.
  intros I PI. pose proof I as [W _ _]. destruct o; cbn [step s_step fst snd].
  - split; [apply abs_received_inv | exact Logic.I].
  - destruct (abs_get_requestable t peer now I PI) as [A [B C]].
    destruct (get_requestable prio t peer now) as [[t1 r] ex].
    destruct (s_get_requestable prio (abs t) peer now) as [[s1 r'] ex']. cbn [fst snd] in *. split; auto. split; auto.
  - split; [apply abs_requested_tx; auto | exact Logic.I].
  - split; [apply abs_received_response; auto | exact Logic.I].
  - split; [apply abs_forget; auto | exact Logic.I].
  - split; [apply abs_disconnected; auto | exact Logic.I].
Qed.

Lemma s_step_seq s o : s_seq (fst (s_step prio s o)) = s_seq s \/ s_seq (fst (s_step prio s o)) = wrapu64 (s_seq s + 1).
Proof.
  destruct o; cbn [s_step fst].
  - unfold s_received_inv. destruct (existsb _ _); cbn [s_seq]; auto.
  - unfold s_get_requestable. cbn [fst s_seq]. auto.
  - unfold s_requested_tx. destruct (find_ann _ _ _); [destruct (is_candidate _)|]; cbn [s_seq]; auto.
  - cbn [s_seq]. auto.
  - cbn [s_seq]. auto.
  - cbn [s_seq]. auto.
Qed.

Theorem run_refines : prio_inj prio -> forall ops t,
  Inv t -> t_seq t + Z.of_nat (length ops) <= SEQ_LIMIT ->
  abs (fst (run prio t ops)) = fst (s_run prio (abs t) ops) /\
  Forall2 out_rel (snd (run prio t ops)) (snd (s_run prio (abs t) ops)) /\
  Inv (fst (run prio t ops)).
Proof.
  intros PI. induction ops as [|o ops IH]; intros t I Hb; cbn [run s_run].
  - cbn [fst snd]. split; [reflexivity|split; [constructor|exact I]].
  - cbn [length] in Hb. assert (Lim : t_seq t < SEQ_LIMIT) by lia.
    destruct (step_refines t o I PI) as [A B]. pose proof (step_inv prio t o I Lim) as I1.
    destruct (step prio t o) as [t1 out]. destruct (s_step prio (abs t) o) as [s1 sout] eqn:Es. cbn [fst snd] in *.
    assert (Sq : t_seq t1 <= t_seq t + 1).
    { pose proof (s_step_seq (abs t) o) as X. rewrite Es in X. cbn [fst] in X. rewrite <- A in X. cbn [abs s_seq] in X.
      pose proof (wf_seq _ (inv_wf _ _ I)). destruct X as [X|X]; rewrite X; [lia|]. rewrite wrapu64_small by lia. lia. }
    destruct (IH t1 I1) as [A2 [B2 I2]]; [lia|]. rewrite A in A2, B2.
    destruct (run prio t1 ops) as [t2 outs]. destruct (s_run prio s1 ops) as [s2 souts]. cbn [fst snd] in *.
    split; [exact A2|split; [constructor; auto|exact I2]].
Qed.

(* ---------- the const accessors agree ---------- *)
Lemma cnt_peer_partition p l :
  cnt (has_peer p) l = cnt (fun a => has_peer p a && is_candidate a) l + cnt (peer_st p REQUESTED) l + cnt (peer_st p COMPLETED) l.
Proof.
  induction l as [|x l IH]; [reflexivity|]. cbn [cnt]. rewrite IH. unfold peer_st, is_candidate, st_is.
  destruct (has_peer p x), (a_state x); cbn [andb orb state_eqb]; lia.
Qed.

Lemma accessors_agree t p h : WF t ->
  count_total t p = s_count (abs t) p /\ count_in_flight t p = s_count_in_flight (abs t) p /\
  count_candidates t p = s_count_candidates (abs t) p /\ tracker_size t = s_size (abs t) /\
  candidate_peers t h = s_candidate_peers (abs t) h.
Proof.
  intros [Hb Hu Hpi Hl Hs]. unfold count_total, count_in_flight, count_candidates, tracker_size, candidate_peers,
    s_count, s_count_in_flight, s_count_candidates, s_size, s_candidate_peers, abs. cbn [s_anns].
  rewrite (absl_cnt (has_peer p)) by (intros a; apply norm_has_peer).
  rewrite (absl_cnt (peer_st p REQUESTED)) by (intros a; unfold peer_st; rewrite norm_has_peer, norm_st_req; reflexivity).
  rewrite (absl_cnt (fun a => has_peer p a && is_candidate a)) by (intros a; rewrite norm_has_peer, norm_cand; reflexivity).
  rewrite absl_length.
  pose proof (cnt_peer_partition p (t_index t)) as Part.
  pose proof (cnt_nonneg (has_peer p) (t_index t)). pose proof (cnt_le_length (has_peer p) (t_index t)).
  pose proof (cnt_nonneg (fun a => has_peer p a && is_candidate a) (t_index t)).
  pose proof (cnt_nonneg (peer_st p REQUESTED) (t_index t)). pose proof (cnt_nonneg (peer_st p COMPLETED) (t_index t)).
  rewrite (Hpi p). unfold recompute_peerinfo.
  destruct (cnt (has_peer p) (t_index t) =? 0) eqn:E0.
  - apply Z.eqb_eq in E0. repeat split; try lia.
    rewrite (absl_filter (fun a => has_txhash h a && negb (st_is COMPLETED a))) by (intros a; rewrite norm_has_txhash, norm_st_compl; reflexivity).
    unfold absl. rewrite map_map. apply map_ext. intros a. symmetry. apply norm_peer.
  - cbn [pi_total pi_requested pi_completed]. repeat split; try lia.
    + rewrite !wrapu64_small by (unfold SEQ_LIMIT in *; try rewrite wrapu64_small by (unfold SEQ_LIMIT in *; lia); lia). lia.
    + rewrite (absl_filter (fun a => has_txhash h a && negb (st_is COMPLETED a))) by (intros a; rewrite norm_has_txhash, norm_st_compl; reflexivity).
      unfold absl. rewrite map_map. apply map_ext. intros a. symmetry. apply norm_peer.
Qed.

End Refine.
