(* CPartialMerkleTree: extract (build txids matches) = merkle root + exactly the matched txids. *)
From BV Require Import lib.Ints gen.Params_gen model.Merkle model.Pmt proofs.MerkleLemmas proofs.MerklePathLemmas.
From Coq Require Import Arith PeanoNat.
Local Open Scope Z_scope.

(* ------------------------------------------------------------------ lists *)
Section ListFacts.
Context {A : Type}.
Lemma firstn_plus : forall (a b : nat) (L : list A), firstn (a + b) L = firstn a L ++ firstn b (skipn a L).
Proof.
  induction a as [|a IH]; intros b L; [reflexivity|].
  destruct L as [|x L]; [cbn; rewrite firstn_nil; reflexivity|]. cbn. f_equal. apply IH.
Qed.
Lemma skipn_plus : forall (a b : nat) (L : list A), skipn b (skipn a L) = skipn (a + b) L.
Proof.
  induction a as [|a IH]; intros b L; [reflexivity|].
  destruct L as [|x L]; [cbn; apply skipn_nil|]. cbn. apply IH.
Qed.
End ListFacts.

Section PmtProofs.
Variable D : Type.
Variable deq : D -> D -> bool.
Variable H : D -> D -> D.
Variable zero : D.
Hypothesis deq_spec : forall a b, deq a b = true <-> a = b.
Hypothesis H_inj : forall a b c d, H a b = H c d -> a = c /\ b = d.

Variable txids : list D.
Variable matches : list bool.
Hypothesis len_matches : length matches = length txids.
Hypothesis nodup : NoDup txids.

Let ntx : Z := Z.of_nat (length txids).
Hypothesis ntx_pos : 0 < ntx.
Hypothesis ntx_small : ntx <= 2 ^ 30.

Local Notation width := (calc_tree_width ntx).
Local Notation chash := (calc_hash D H ntx txids).
Local Notation build := (traverse_and_build D H ntx txids matches).
Local Notation extract := (traverse_and_extract D deq H zero ntx).
Local Notation pom := (parent_of_match ntx matches).

(* ------------------------------------------------------------------ widths *)
Lemma width_eq h : (h <= 31)%nat -> width h = (ntx + 2 ^ Z.of_nat h - 1) / 2 ^ Z.of_nat h.
Proof.
  intros Hh. unfold calc_tree_width.
  assert (Hw : 0 < 2 ^ Z.of_nat h <= 2 ^ 31) by (split; [apply Z.pow_pos_nonneg; lia | apply Z.pow_le_mono_r; lia]).
  rewrite wrapu32_id.
  - apply Z.shiftr_div_pow2. lia.
  - unfold UINT32_MAX. change (2 ^ 31) with 2147483648 in Hw. change (2 ^ 30) with 1073741824 in ntx_small. lia.
Qed.

Lemma width_lt h pos : (h <= 31)%nat -> 0 <= pos -> (pos <? width h = true <-> pos * 2 ^ Z.of_nat h < ntx).
Proof.
  intros Hh Hp. rewrite width_eq by exact Hh. rewrite Z.ltb_lt.
  set (w := 2 ^ Z.of_nat h). assert (Hw : 0 < w) by (apply Z.pow_pos_nonneg; lia).
  pose proof (Z.div_mod (ntx + w - 1) w ltac:(lia)) as Hdm.
  pose proof (Z.mod_pos_bound (ntx + w - 1) w Hw) as Hmb.
  set (q := (ntx + w - 1) / w) in *. set (r := (ntx + w - 1) mod w) in *.
  split; intros HH; nia.
Qed.

Lemma width_S h : (S h <= 31)%nat -> width (S h) = (width h + 1) / 2.
Proof.
  intros Hh. rewrite !width_eq by lia.
  rewrite Nat2Z.inj_succ, Z.pow_succ_r by lia.
  set (w := 2 ^ Z.of_nat h). assert (Hw : 0 < w) by (apply Z.pow_pos_nonneg; lia).
  replace (2 * w) with (w * 2) by lia. rewrite <- Z.div_div by lia.
  replace (ntx + w * 2 - 1) with ((ntx + w - 1) + 1 * w) by lia. rewrite Z.div_add by lia. reflexivity.
Qed.

(* ------------------------------------------------------------------ tree height *)
Lemma tree_height_from_spec : forall f h, (h + f <= 32)%nat -> (1 <= f)%nat -> ntx <= 2 ^ Z.of_nat (h + f - 1) ->
  exists H0, tree_height_from f ntx h = Some H0 /\ (h <= H0 < h + f)%nat /\ width H0 <= 1 /\
             forall j, (h <= j < H0)%nat -> width j > 1.
Proof.
  induction f as [|f IH]; intros h Hhf Hf Hn; [lia|].
  cbn [tree_height_from]. destruct (width h >? 1) eqn:Ew.
  - destruct f as [|f'].
    + exfalso. replace (h + 1 - 1)%nat with h in Hn by lia.
      apply Z.gtb_lt in Ew. assert (H1 : 1 <? width h = true) by (apply Z.ltb_lt; lia).
      apply width_lt in H1; [|lia|lia]. lia.
    + destruct (IH (S h)) as (H0 & E & Hr & Hw & Hall); [lia|lia|replace (S h + S f' - 1)%nat with (h + S (S f') - 1)%nat by lia; exact Hn|].
      exists H0. split; [exact E|]. split; [lia|]. split; [exact Hw|].
      intros j Hj. destruct (Nat.eq_dec j h) as [->|]; [apply Z.gtb_lt in Ew; lia | apply Hall; lia].
  - exists h. split; [reflexivity|]. split; [lia|]. split.
    + destruct (Z.gtb_spec (width h) 1); [discriminate | lia].
    + intros j Hj. lia.
Qed.

Lemma tree_height_spec : exists H0, tree_height ntx = Some H0 /\ (H0 <= 31)%nat /\ width H0 <= 1 /\
  forall j, (j < H0)%nat -> width j > 1.
Proof.
  destruct (tree_height_from_spec 32 0) as (H0 & E & Hr & Hw & Hall); [lia|lia| |].
  - cbn [plus minus]. change (Z.of_nat 31) with 31. change (2 ^ 30) with 1073741824 in ntx_small. change (2 ^ 31) with 2147483648. lia.
  - exists H0. split; [exact E|]. split; [lia|]. split; [exact Hw|]. intros j Hj. apply Hall. lia.
Qed.

(* ------------------------------------------------------------------ slices of the leaf range *)
Definition slice {A : Type} (l : list A) (a b : Z) : list A := firstn (Z.to_nat (b - a)) (skipn (Z.to_nat a) l).
Definition mslice (a b : Z) : list (D * Z) := matched_from D (slice txids a b) (slice matches a b) a.

Lemma slice_split {A : Type} (l : list A) a m b : 0 <= a <= m -> m <= b -> slice l a b = slice l a m ++ slice l m b.
Proof.
  intros Ham Hmb. unfold slice.
  replace (Z.to_nat (b - a)) with (Z.to_nat (m - a) + Z.to_nat (b - m))%nat by lia.
  rewrite firstn_plus, skipn_plus. do 3 f_equal. lia.
Qed.

Lemma slice_length {A : Type} (l : list A) a b : 0 <= a <= b -> b <= Z.of_nat (length l) ->
  length (slice l a b) = Z.to_nat (b - a).
Proof. intros Hab Hb. unfold slice. rewrite firstn_length, skipn_length. lia. Qed.

Lemma matched_from_app : forall (xs1 : list D) (ms1 : list bool) xs2 ms2 i, length xs1 = length ms1 ->
  matched_from D (xs1 ++ xs2) (ms1 ++ ms2) i =
  matched_from D xs1 ms1 i ++ matched_from D xs2 ms2 (i + Z.of_nat (length xs1)).
Proof.
  induction xs1 as [|x xs1 IH]; intros ms1 xs2 ms2 i Hlen.
  - destruct ms1; [|discriminate]. cbn. rewrite Z.add_0_r. reflexivity.
  - destruct ms1 as [|m ms1]; [discriminate|]. cbn [app matched_from length].
    rewrite IH by (cbn in Hlen; lia). rewrite <- app_assoc. do 3 f_equal. lia.
Qed.

Lemma mslice_split a m b : 0 <= a <= m -> m <= b -> b <= ntx -> mslice a b = mslice a m ++ mslice m b.
Proof.
  intros Ham Hmb Hb. unfold mslice. rewrite (slice_split txids a m b), (slice_split matches a m b) by lia.
  rewrite matched_from_app.
  - rewrite slice_length by (unfold ntx in *; lia). do 2 f_equal. lia.
  - rewrite !slice_length by (unfold ntx in *; lia). reflexivity.
Qed.

Lemma matched_from_nomatch : forall (xs : list D) ms i, existsb (fun b => b) ms = false -> matched_from D xs ms i = [].
Proof.
  induction xs as [|x xs IH]; intros ms i E; [reflexivity|]. destruct ms as [|m ms]; [reflexivity|].
  cbn in E. apply orb_false_iff in E. destruct E as [-> E]. cbn. apply IH. exact E.
Qed.

Lemma firstn1_skipn {A : Type} : forall (l : list A) p x, nth_error l p = Some x -> firstn 1 (skipn p l) = [x].
Proof.
  induction l as [|y l IH]; intros [|p] x E; cbn in *; try discriminate.
  - inversion E. reflexivity.
  - apply IH. exact E.
Qed.

Lemma mslice_single p x m : 0 <= p -> nth_error txids (Z.to_nat p) = Some x -> nth_error matches (Z.to_nat p) = Some m ->
  mslice p (p + 1) = if m then [(x, p)] else [].
Proof.
  intros Hp Ex Em. unfold mslice, slice. replace (Z.to_nat (p + 1 - p)) with 1%nat by lia.
  rewrite (firstn1_skipn _ _ _ Ex), (firstn1_skipn _ _ _ Em). cbn. rewrite app_nil_r. reflexivity.
Qed.

Definition lo (h : nat) (pos : Z) : Z := pos * 2 ^ Z.of_nat h.
Definition hi (h : nat) (pos : Z) : Z := Z.min ((pos + 1) * 2 ^ Z.of_nat h) ntx.

Lemma pom_slice h pos : pom h pos = existsb (fun b => b) (slice matches (lo h pos) (hi h pos)).
Proof. reflexivity. Qed.

Lemma pow2_pos h : 0 < 2 ^ Z.of_nat h.
Proof. apply Z.pow_pos_nonneg; lia. Qed.

Lemma pow2_S h : 2 ^ Z.of_nat (S h) = 2 * 2 ^ Z.of_nat h.
Proof. rewrite Nat2Z.inj_succ, Z.pow_succ_r by lia. reflexivity. Qed.

(* ------------------------------------------------------------------ hashes of distinct nodes differ *)
Lemma chash_distinct : forall h p q x y, 0 <= p -> 0 <= q -> p <> q ->
  chash h p = Some x -> chash h q = Some y -> x <> y.
Proof.
  induction h as [|h IH]; intros p q x y Hp Hq Hne Ex Ey Exy; subst y.
  - cbn in Ex, Ey. destruct (p <? 0) eqn:E1; [discriminate|]. destruct (q <? 0) eqn:E2; [discriminate|].
    assert (Hlt : (Z.to_nat p < length txids)%nat) by (apply nth_error_Some; congruence).
    pose proof (proj1 (NoDup_nth_error txids) nodup (Z.to_nat p) (Z.to_nat q) Hlt) as Hinj.
    rewrite Ex, Ey in Hinj. specialize (Hinj eq_refl). lia.
  - cbn [calc_hash] in Ex, Ey.
    destruct (chash h (p * 2)) as [l1|] eqn:El1; [|discriminate].
    destruct (chash h (q * 2)) as [l2|] eqn:El2; [|discriminate].
    assert (Hx : exists r1, x = H l1 r1).
    { destruct (p * 2 + 1 <? width h); [destruct (chash h (p * 2 + 1)); inversion Ex; eauto | inversion Ex; eauto]. }
    assert (Hy : exists r2, x = H l2 r2).
    { destruct (q * 2 + 1 <? width h); [destruct (chash h (q * 2 + 1)); inversion Ey; eauto | inversion Ey; eauto]. }
    destruct Hx as [r1 ->], Hy as [r2 E]. apply H_inj in E. destruct E as [E _]. subst l2.
    apply (IH (p * 2) (q * 2) l1 l1); try lia; auto.
Qed.

(* ------------------------------------------------------------------ unfolding the extraction *)
Local Notation mk := (Build_xstate D).

Lemma extract_leaf0 pos f rb x rh bad ms :
  extract 0 pos (mk (f :: rb) (x :: rh) bad ms) = (x, mk rb rh bad (if f then ms ++ [(x, pos)] else ms)).
Proof. reflexivity. Qed.
Lemma extract_skip h pos rb x rh bad ms :
  extract (S h) pos (mk (false :: rb) (x :: rh) bad ms) = (x, mk rb rh bad ms).
Proof. reflexivity. Qed.
Lemma extract_desc h pos bits hashes bad ms :
  extract (S h) pos (mk (true :: bits) hashes bad ms) =
  let (hl, s1) := extract h (pos * 2) (mk bits hashes bad ms) in
  if pos * 2 + 1 <? width h then
    let (hr, s2) := extract h (pos * 2 + 1) s1 in
    let s3 := if deq hr hl then mk (xs_bits D s2) (xs_hashes D s2) true (xs_matches D s2) else s2 in
    (H hl hr, s3)
  else (H hl hl, s1).
Proof. reflexivity. Qed.

(* ------------------------------------------------------------------ the round trip for one node *)
Lemma node_roundtrip : forall h pos, (h <= 31)%nat -> 0 <= pos -> lo h pos < ntx ->
  exists bits hashes x,
    build h pos = Some (bits, hashes) /\ chash h pos = Some x /\
    (length hashes <= length bits)%nat /\ Z.of_nat (length hashes) <= hi h pos - lo h pos /\
    forall rb rh bad ms,
      extract h pos (mk (bits ++ rb) (hashes ++ rh) bad ms) = (x, mk rb rh bad (ms ++ mslice (lo h pos) (hi h pos))).
Proof.
  induction h as [|h IH]; intros pos Hh Hpos Hlo.
  - unfold lo, hi in *. change (2 ^ Z.of_nat 0) with 1 in *. rewrite !Z.mul_1_r in *.
    replace (Z.min (pos + 1) ntx) with (pos + 1) by lia.
    assert (Hlt : (Z.to_nat pos < length txids)%nat) by (unfold ntx in Hlo; lia).
    destruct (nth_error txids (Z.to_nat pos)) as [x|] eqn:Ex; [|apply nth_error_None in Ex; lia].
    destruct (nth_error matches (Z.to_nat pos)) as [m|] eqn:Em; [|apply nth_error_None in Em; lia].
    assert (Ech : chash 0 pos = Some x).
    { cbn. destruct (pos <? 0) eqn:E; [apply Z.ltb_lt in E; lia | exact Ex]. }
    assert (Epom : pom 0 pos = m).
    { rewrite pom_slice. unfold lo, hi, slice. change (2 ^ Z.of_nat 0) with 1. rewrite !Z.mul_1_r.
      replace (Z.min (pos + 1) ntx) with (pos + 1) by lia. replace (Z.to_nat (pos + 1 - pos)) with 1%nat by lia.
      rewrite (firstn1_skipn _ _ _ Em). cbn. apply orb_false_r. }
    exists [m], [x], x. split; [|split; [exact Ech|split; [cbn; lia|split; [cbn; lia|]]]].
    + cbn [traverse_and_build]. rewrite Ech, Epom. reflexivity.
    + intros rb rh bad ms. cbn [app]. rewrite extract_leaf0. rewrite (mslice_single pos x m Hpos Ex Em).
      destruct m; [reflexivity | rewrite app_nil_r; reflexivity].
  - pose proof (pow2_pos h) as Hw. pose proof (pow2_S h) as HwS.
    assert (HloL : lo h (pos * 2) = lo (S h) pos) by (unfold lo; rewrite HwS; lia).
    assert (Hrange : 1 <= hi (S h) pos - lo (S h) pos) by (unfold lo, hi in *; rewrite HwS in *; lia).
    destruct (IH (pos * 2)) as (b1 & h1 & xl & Eb1 & Ec1 & Hl1 & Hn1 & Hx1); [lia|lia|rewrite HloL; exact Hlo|].
    destruct (pos * 2 + 1 <? width h) eqn:Ew.
    + (* the right child exists *)
      assert (HloR : lo h (pos * 2 + 1) < ntx) by (unfold lo; apply (width_lt h (pos * 2 + 1)); [lia|lia|exact Ew]).
      destruct (IH (pos * 2 + 1)) as (b2 & h2 & xr & Eb2 & Ec2 & Hl2 & Hn2 & Hx2); [lia|lia|exact HloR|].
      assert (HhiL : hi h (pos * 2) = lo h (pos * 2 + 1)) by (unfold lo, hi in *; lia).
      assert (HhiR : hi h (pos * 2 + 1) = hi (S h) pos) by (unfold hi; rewrite HwS; f_equal; lia).
      assert (Ech : chash (S h) pos = Some (H xl xr)) by (cbn [calc_hash]; rewrite Ec1, Ew, Ec2; reflexivity).
      assert (Hneq : deq xr xl = false).
      { destruct (deq xr xl) eqn:E; [|reflexivity]. apply deq_spec in E. exfalso.
        apply (chash_distinct h (pos * 2 + 1) (pos * 2) xr xl); try lia; auto. }
      assert (Esplit : mslice (lo (S h) pos) (hi (S h) pos) =
                       mslice (lo h (pos * 2)) (hi h (pos * 2)) ++ mslice (lo h (pos * 2 + 1)) (hi h (pos * 2 + 1))).
      { rewrite HhiL, HhiR, HloL. apply mslice_split; unfold lo, hi in *; rewrite ?HwS in *; lia. }
      destruct (pom (S h) pos) eqn:Ef.
      * exists (true :: b1 ++ b2), (h1 ++ h2), (H xl xr).
        split; [|split; [exact Ech|split; [|split]]].
        -- cbn [traverse_and_build]. rewrite Ef. cbn [negb]. rewrite Eb1, Ew, Eb2. reflexivity.
        -- cbn [length]. rewrite !app_length. lia.
        -- rewrite app_length, Nat2Z.inj_add. rewrite <- HloL, <- HhiR. rewrite HhiL in Hn1. lia.
        -- intros rb rh bad ms. cbn [app]. rewrite extract_desc.
           rewrite <- !app_assoc. rewrite Hx1. rewrite Ew. rewrite Hx2. rewrite Hneq.
           rewrite Esplit, app_assoc. reflexivity.
      * exists [false], [H xl xr], (H xl xr).
        split; [|split; [exact Ech|split; [cbn; lia|split; [cbn [length]; lia|]]]].
        -- cbn [traverse_and_build]. rewrite Ef. cbn [negb]. rewrite Ech. reflexivity.
        -- intros rb rh bad ms. cbn [app]. rewrite extract_skip.
           unfold mslice. rewrite matched_from_nomatch by (rewrite <- pom_slice; exact Ef). rewrite app_nil_r. reflexivity.
    + (* no right child: the left one is duplicated *)
      assert (Hno : ntx <= lo h (pos * 2 + 1)).
      { unfold lo. destruct (Z.lt_ge_cases ((pos * 2 + 1) * 2 ^ Z.of_nat h) ntx) as [Hlt|]; [|assumption].
        apply (width_lt h (pos * 2 + 1)) in Hlt; [congruence|lia|lia]. }
      assert (HhiL : hi h (pos * 2) = hi (S h) pos) by (unfold lo, hi in *; rewrite HwS; lia).
      assert (Ech : chash (S h) pos = Some (H xl xl)) by (cbn [calc_hash]; rewrite Ec1, Ew; reflexivity).
      destruct (pom (S h) pos) eqn:Ef.
      * exists (true :: b1), h1, (H xl xl).
        split; [|split; [exact Ech|split; [cbn [length]; lia|split; [rewrite <- HloL, <- HhiL; exact Hn1|]]]].
        -- cbn [traverse_and_build]. rewrite Ef. cbn [negb]. rewrite Eb1, Ew. reflexivity.
        -- intros rb rh bad ms. cbn [app]. rewrite extract_desc. rewrite Hx1, Ew. rewrite HloL, HhiL. reflexivity.
      * exists [false], [H xl xl], (H xl xl).
        split; [|split; [exact Ech|split; [cbn; lia|split; [cbn [length]; lia|]]]].
        -- cbn [traverse_and_build]. rewrite Ef. cbn [negb]. rewrite Ech. reflexivity.
        -- intros rb rh bad ms. cbn [app]. rewrite extract_skip.
           unfold mslice. rewrite matched_from_nomatch by (rewrite <- pom_slice; exact Ef). rewrite app_nil_r. reflexivity.
Qed.

(* ------------------------------------------------------------------ CalcHash is the merkle tree node *)
Local Notation NNl := (NN D H txids).
Local Notation ndl := (nd D H txids).

Lemma NN_width : forall h, (h <= 31)%nat -> Z.of_nat (NNl h) = width h.
Proof.
  induction h as [|h IH]; intros Hh.
  - rewrite width_eq by lia. change (2 ^ Z.of_nat 0) with 1. rewrite Z.div_1_r. unfold NN. cbn [lev]. unfold ntx. lia.
  - rewrite width_S by lia. rewrite <- IH by lia. rewrite NN_S, Nat.div2_div, Nat2Z.inj_div. f_equal. lia.
Qed.

Lemma chash_nd : forall h pos, (h <= 31)%nat -> 0 <= pos -> lo h pos < ntx -> chash h pos = ndl h (Z.to_nat pos).
Proof.
  induction h as [|h IH]; intros pos Hh Hp Hlo.
  - cbn. destruct (pos <? 0) eqn:E; [apply Z.ltb_lt in E; lia | reflexivity].
  - pose proof (pow2_pos h) as Hw. pose proof (pow2_S h) as HwS.
    cbn [calc_hash]. rewrite (nd_S D deq).
    rewrite (IH (pos * 2)) by (unfold lo in *; rewrite ?HwS in *; lia).
    replace (Z.to_nat (pos * 2)) with (2 * Z.to_nat pos)%nat by lia.
    destruct (ndl h (2 * Z.to_nat pos)) as [a|]; [|reflexivity].
    destruct (pos * 2 + 1 <? width h) eqn:Ew.
    + rewrite (IH (pos * 2 + 1)) by (first [lia | unfold lo; apply (width_lt h (pos * 2 + 1)); [lia|lia|exact Ew]]).
      replace (Z.to_nat (pos * 2 + 1)) with (2 * Z.to_nat pos + 1)%nat by lia.
      destruct (nd_Some D deq H zero txids h (2 * Z.to_nat pos + 1)) as [b Eb]; [|rewrite Eb; reflexivity].
      apply Z.ltb_lt in Ew. rewrite <- NN_width in Ew by lia. lia.
    + assert (En : ndl h (2 * Z.to_nat pos + 1) = None).
      { apply nd_None. apply Z.ltb_ge in Ew. rewrite <- NN_width in Ew by lia. lia. }
      rewrite En. reflexivity.
Qed.

(* ------------------------------------------------------------------ the whole object *)
Hypothesis ntx_limit : ntx <= cdiv MAX_BLOCK_WEIGHT MIN_TRANSACTION_WEIGHT.

Theorem pmt_roundtrip_sec :
  exists t root m,
    pmt_build D H txids matches = Some t /\
    pmt_extract D deq H zero t = X_ok D root (matched_from D txids matches 0) /\
    compute_merkle_root D deq H zero txids = Some (root, m).
Proof.
  destruct tree_height_spec as (H0 & Eh & Hh31 & Hw1 & Hbig).
  assert (Hlo0 : lo H0 0 < ntx) by (unfold lo; lia).
  destruct (node_roundtrip H0 0 Hh31 ltac:(lia) Hlo0) as (bits & hashes & x & Eb & Ec & Hlb & Hnh & Hx).
  pose proof (pow2_pos H0) as Hw.
  assert (Hcover : ntx <= 2 ^ Z.of_nat H0).
  { destruct (Z.lt_ge_cases (1 * 2 ^ Z.of_nat H0) ntx) as [Hlt|]; [|lia].
    apply (width_lt H0 1) in Hlt; [|lia|lia]. apply Z.ltb_lt in Hlt. lia. }
  assert (Ehi : hi H0 0 = ntx) by (unfold hi; lia).
  assert (Elo : lo H0 0 = 0) by (unfold lo; lia).
  rewrite Ehi, Elo in *.
  assert (Ems : mslice 0 ntx = matched_from D txids matches 0).
  { unfold mslice, slice. rewrite Z.sub_0_r. unfold ntx. rewrite Nat2Z.id. change (Z.to_nat 0) with 0%nat. cbn [skipn].
    rewrite firstn_all. rewrite <- len_matches. rewrite firstn_all. reflexivity. }
  (* the merkle root *)
  assert (Hne : txids <> []) by (intros E; unfold ntx in ntx_pos; rewrite E in ntx_pos; cbn in ntx_pos; lia).
  destruct (root_Red D deq H zero txids Hne) as (k & r & m & Er & HR).
  destruct (Red_lev D deq H _ _ _ _ HR) as [Elk Hbigk].
  assert (Elev : forall j, lev D H txids j = levels D H j txids) by (intros j; rewrite lev_iter, lev_levels; reflexivity).
  assert (Hk1 : NNl k = 1%nat) by (unfold NN; rewrite Elev, Elk; reflexivity).
  assert (HN0 : NNl H0 = 1%nat).
  { pose proof (NN_width H0 Hh31). pose proof (NN_pos D deq H zero txids H0 Hne). lia. }
  assert (EH0 : H0 = k).
  { destruct (Nat.lt_trichotomy H0 k) as [Hl|[E|Hg]]; [exfalso|exact E|exfalso].
    - specialize (Hbigk H0 Hl). rewrite <- Elev in Hbigk. unfold NN in HN0. lia.
    - pose proof (Hbig k Hg) as Hwk. rewrite <- NN_width in Hwk by lia. lia. }
  assert (Ex : x = r).
  { rewrite (chash_nd H0 0 Hh31 ltac:(lia)) in Ec by (rewrite Elo; lia). change (Z.to_nat 0) with 0%nat in Ec.
    rewrite EH0 in Ec. unfold nd in Ec. rewrite Elev, Elk in Ec. cbn in Ec. inversion Ec. reflexivity. }
  exists {| pmt_ntx := ntx; pmt_bits := bits; pmt_hashes := hashes; pmt_bad := false |}, r, m.
  split; [|split; [|exact Er]].
  - unfold pmt_build. fold ntx. rewrite Eh, Eb. reflexivity.
  - unfold pmt_extract. cbn [pmt_ntx pmt_bits pmt_hashes pmt_bad].
    assert (E1 : ntx =? 0 = false) by (apply Z.eqb_neq; lia). rewrite E1.
    assert (E2 : ntx >? cdiv MAX_BLOCK_WEIGHT MIN_TRANSACTION_WEIGHT = false).
    { destruct (Z.gtb_spec ntx (cdiv MAX_BLOCK_WEIGHT MIN_TRANSACTION_WEIGHT)); [lia | reflexivity]. }
    rewrite E2.
    assert (E3 : Z.of_nat (length hashes) >? ntx = false).
    { destruct (Z.gtb_spec (Z.of_nat (length hashes)) ntx); [lia | reflexivity]. }
    rewrite E3.
    assert (E4 : Z.of_nat (length bits) <? Z.of_nat (length hashes) = false) by (apply Z.ltb_ge; lia).
    rewrite E4, Eh.
    specialize (Hx [] [] false []). rewrite !app_nil_r in Hx. rewrite Hx.
    cbn [xs_bits xs_hashes xs_bad xs_matches length app]. rewrite !Z.sub_0_r, !Z.eqb_refl. cbn [negb].
    rewrite Ems, Ex. reflexivity.
Qed.

End PmtProofs.

(* closed form *)
Theorem pmt_roundtrip : forall (D : Type) (deq : D -> D -> bool) (H : D -> D -> D) (zero : D),
  (forall a b, deq a b = true <-> a = b) ->
  (forall a b c d, H a b = H c d -> a = c /\ b = d) ->
  forall (txids : list D) (matches : list bool),
  length matches = length txids -> NoDup txids ->
  0 < Z.of_nat (length txids) <= cdiv MAX_BLOCK_WEIGHT MIN_TRANSACTION_WEIGHT ->
  exists t root m,
    pmt_build D H txids matches = Some t /\
    pmt_extract D deq H zero t = X_ok D root (matched_from D txids matches 0) /\
    compute_merkle_root D deq H zero txids = Some (root, m).
Proof.
  intros D deq H zero Hdeq Hinj txids matches Hlen Hnd [Hpos Hlim].
  apply pmt_roundtrip_sec; auto.
  assert (cdiv MAX_BLOCK_WEIGHT MIN_TRANSACTION_WEIGHT <= 2 ^ 30) by (vm_compute; discriminate).
  lia.
Qed.


(* ------------------------------------------------------------------ soundness of extraction
   Whatever tree a peer sends: every (txid, position) ExtractMatches reports is connected to the
   returned root by a merkle branch of the tree's height, at that position. *)
Section PmtSound.
Variable D : Type.
Variable deq : D -> D -> bool.
Variable H : D -> D -> D.
Variable zero : D.
Variable ntx : Z.

Local Notation extract := (traverse_and_extract D deq H zero ntx).
Local Notation mk := (Build_xstate D).

Lemma fold_path_snoc : forall p h i s,
  fold_path D H h i (p ++ [s]) =
  if Z.odd (Z.shiftr i (Z.of_nat (length p))) then H s (fold_path D H h i p) else H (fold_path D H h i p) s.
Proof.
  induction p as [|x p IH]; intros h i s.
  - cbn [app fold_path length]. change (Z.of_nat 0) with 0. rewrite Z.shiftr_0_r. reflexivity.
  - cbn [app fold_path length]. rewrite IH. rewrite Z.shiftr_shiftr by lia.
    replace (1 + Z.of_nat (length p)) with (Z.of_nat (S (length p))) by lia. reflexivity.
Qed.

Definition linked (h : nat) (pos : Z) (x : D) (new : list (D * Z)) : Prop :=
  forall t p, In (t, p) new ->
    exists path, length path = h /\ fold_path D H t p path = x /\ Z.shiftr p (Z.of_nat h) = pos.

Lemma extract_sound : forall h pos s x s', 0 <= pos -> extract h pos s = (x, s') ->
  exists new, xs_matches D s' = xs_matches D s ++ new /\ linked h pos x new.
Proof.
  assert (Hnil : forall h pos x, linked h pos x []) by (intros h pos x t p []).
  induction h as [|h IH]; intros pos s x s' Hpos E; cbn [traverse_and_extract] in E.
  - destruct (xs_bits D s) as [|f bits']; [inversion E; subst; exists []; cbn; rewrite app_nil_r; auto|].
    destruct (xs_hashes D s) as [|hash hashes']; [inversion E; subst; exists []; cbn; rewrite app_nil_r; auto|].
    inversion E; subst. cbn [xs_matches]. destruct f.
    + exists [(x, pos)]. split; [reflexivity|]. intros t p [Ein|[]]. inversion Ein; subst.
      exists []. split; [reflexivity|]. split; [reflexivity|]. change (Z.of_nat 0) with 0. apply Z.shiftr_0_r.
    + exists []. rewrite app_nil_r. auto.
  - destruct (xs_bits D s) as [|f bits']; [inversion E; subst; exists []; cbn; rewrite app_nil_r; auto|].
    destruct f; cbn [negb] in E.
    + set (s0 := mk bits' (xs_hashes D s) (xs_bad D s) (xs_matches D s)) in *.
      destruct (extract h (pos * 2) s0) as [hl s1] eqn:E1.
      destruct (IH (pos * 2) s0 hl s1 ltac:(lia) E1) as (newl & Ml & Ll).
      assert (Hleft : forall y, linked (S h) pos (H hl y) newl -> True) by auto.
      destruct (pos * 2 + 1 <? calc_tree_width ntx h).
      * destruct (extract h (pos * 2 + 1) s1) as [hr s2] eqn:E2.
        destruct (IH (pos * 2 + 1) s1 hr s2 ltac:(lia) E2) as (newr & Mr & Lr).
        inversion E; subst x s'.
        exists (newl ++ newr). split.
        { destruct (deq hr hl); cbn [xs_matches]; rewrite Mr, Ml; unfold s0; cbn [xs_matches]; rewrite app_assoc; reflexivity. }
        intros t p Hin. apply in_app_or in Hin. destruct Hin as [Hin|Hin].
        -- destruct (Ll t p Hin) as (path & Hlen & Hf & Hs). exists (path ++ [hr]).
           split; [rewrite app_length; cbn; lia|]. split.
           ++ rewrite fold_path_snoc, Hlen, Hs, Hf. replace (pos * 2) with (2 * pos) by lia. rewrite Z.odd_mul. reflexivity.
           ++ rewrite Nat2Z.inj_succ, <- Z.add_1_r, <- Z.shiftr_shiftr by lia. rewrite Hs.
              rewrite Z.shiftr_div_pow2 by lia. change (2 ^ 1) with 2. rewrite Z.div_mul by lia. reflexivity.
        -- destruct (Lr t p Hin) as (path & Hlen & Hf & Hs). exists (path ++ [hl]).
           split; [rewrite app_length; cbn; lia|]. split.
           ++ rewrite fold_path_snoc, Hlen, Hs, Hf. replace (pos * 2 + 1) with (1 + 2 * pos) by lia.
              rewrite Z.odd_add_mul_2. reflexivity.
           ++ rewrite Nat2Z.inj_succ, <- Z.add_1_r, <- Z.shiftr_shiftr by lia. rewrite Hs.
              rewrite Z.shiftr_div_pow2 by lia. change (2 ^ 1) with 2.
              replace (pos * 2 + 1) with (1 + pos * 2) by lia. rewrite Z.div_add by lia. reflexivity.
      * inversion E; subst x s'. exists newl. split; [rewrite Ml; reflexivity|].
        intros t p Hin. destruct (Ll t p Hin) as (path & Hlen & Hf & Hs). exists (path ++ [hl]).
        split; [rewrite app_length; cbn; lia|]. split.
        -- rewrite fold_path_snoc, Hlen, Hs, Hf. replace (pos * 2) with (2 * pos) by lia. rewrite Z.odd_mul. reflexivity.
        -- rewrite Nat2Z.inj_succ, <- Z.add_1_r, <- Z.shiftr_shiftr by lia. rewrite Hs.
           rewrite Z.shiftr_div_pow2 by lia. change (2 ^ 1) with 2. rewrite Z.div_mul by lia. reflexivity.
    + destruct (xs_hashes D s) as [|hash hashes']; inversion E; subst; exists []; cbn; rewrite app_nil_r; auto.
Qed.

End PmtSound.

Theorem pmt_extract_sound : forall (D : Type) (deq : D -> D -> bool) (H : D -> D -> D) (zero : D) (t : pmt D) root ms,
  pmt_extract D deq H zero t = X_ok D root ms ->
  exists h, tree_height (pmt_ntx D t) = Some h /\
    forall tx p, In (tx, p) ms -> exists path, length path = h /\ fold_path D H tx p path = root.
Proof.
  intros D deq H zero t root ms E. unfold pmt_extract in E.
  destruct (pmt_ntx D t =? 0); [discriminate|]. destruct (pmt_ntx D t >? _); [discriminate|].
  destruct (_ >? pmt_ntx D t); [discriminate|]. destruct (_ <? _); [discriminate|].
  destruct (tree_height (pmt_ntx D t)) as [h|]; [|discriminate].
  destruct (traverse_and_extract D deq H zero (pmt_ntx D t) h 0 _) as [r s] eqn:Ex.
  destruct (xs_bad D s); [discriminate|]. destruct (negb _); [discriminate|]. destruct (negb _); [discriminate|].
  inversion E as [[Er Em]]. exists h. split; [reflexivity|].
  destruct (extract_sound D deq H zero (pmt_ntx D t) h 0 _ _ _ ltac:(lia) Ex) as (new & Hm & Hl). cbn [xs_matches app] in Hm.
  intros tx p Hin. rewrite Hm in Hin. destruct (Hl tx p Hin) as (path & A & B & _). rewrite <- Er. eauto.
Qed.
