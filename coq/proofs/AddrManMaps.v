(* C37: association-map, counting and list-update lemmas used by the addrman proofs. *)
From BV Require Import lib.Ints model.AddrMan.
From Coq Require Import Permutation.
Local Open Scope Z_scope.

Definition b2z (b : bool) : Z := if b then 1 else 0.

Section AMapLemmas.
  Context {K V : Type} (keqb : K -> K -> bool).
  Hypothesis keqb_spec : forall a b, keqb a b = true <-> a = b.

  Lemma keqb_refl (a : K) : keqb a a = true.
  Proof. apply keqb_spec. reflexivity. Qed.
  Lemma keqb_neq (a b : K) : a <> b -> keqb a b = false.
  Proof. intros H. destruct (keqb a b) eqn:E; auto. apply keqb_spec in E. contradiction. Qed.
  Lemma keqb_dec (a b : K) : {a = b} + {a <> b}.
  Proof. destruct (keqb a b) eqn:E; [left; apply keqb_spec; auto | right; intros H; apply keqb_spec in H; congruence]. Qed.

  Notation find := (@mfind K V keqb).
  Notation set := (@mset K V keqb).
  Notation del := (@mdel K V keqb).
  Definition keys (m : list (K * V)) : list K := map fst m.

  Lemma find_set_eq k v m : find k (set k v m) = Some v.
  Proof. induction m as [|[k' v'] r IH]; simpl; [rewrite keqb_refl; auto|].
    destruct (keqb k k') eqn:E; simpl; [rewrite keqb_refl; auto | rewrite E; auto]. Qed.
  Lemma find_set_neq k k' v m : k <> k' -> find k' (set k v m) = find k' m.
  Proof. intros N. induction m as [|[k2 v2] r IH]; simpl.
    - rewrite keqb_neq; auto.
    - destruct (keqb k k2) eqn:E; simpl.
      + apply keqb_spec in E; subst k2. rewrite (keqb_neq k' k); auto.
      + rewrite IH. reflexivity. Qed.
  Lemma find_del_eq k m : find k (del k m) = None.
  Proof. induction m as [|[k2 v2] r IH]; simpl; auto. destruct (keqb k k2) eqn:E; simpl; auto. rewrite E; auto. Qed.
  Lemma find_del_neq k k' m : k <> k' -> find k' (del k m) = find k' m.
  Proof. intros N. induction m as [|[k2 v2] r IH]; simpl; auto. destruct (keqb k k2) eqn:E; simpl.
    - apply keqb_spec in E; subst k2. rewrite (keqb_neq k' k); auto.
    - rewrite IH; auto. Qed.
  Lemma find_set k k' v m : find k' (set k v m) = if keqb k k' then Some v else find k' m.
  Proof. destruct (keqb k k') eqn:E; [apply keqb_spec in E; subst; apply find_set_eq | apply find_set_neq; intros H; apply keqb_spec in H; congruence]. Qed.
  Lemma find_del k k' m : find k' (del k m) = if keqb k k' then None else find k' m.
  Proof. destruct (keqb k k') eqn:E; [apply keqb_spec in E; subst; apply find_del_eq | apply find_del_neq; intros H; apply keqb_spec in H; congruence]. Qed.

  Lemma find_In k v m : find k m = Some v -> In (k, v) m.
  Proof. induction m as [|[k2 v2] r IH]; simpl; [discriminate|]. destruct (keqb k k2) eqn:E.
    - intros H; inversion H; subst. apply keqb_spec in E; subst. auto.
    - auto. Qed.
  Lemma find_None k m : find k m = None <-> ~ In k (keys m).
  Proof. induction m as [|[k2 v2] r IH]; simpl; [tauto|]. destruct (keqb k k2) eqn:E.
    - apply keqb_spec in E; subst. split; [discriminate | intros H; exfalso; apply H; auto].
    - rewrite IH. split; [intros H [H1|H1]; [subst; rewrite keqb_refl in E; discriminate | auto] | tauto]. Qed.
  Lemma find_Some_key k v m : find k m = Some v -> In k (keys m).
  Proof. intros H. apply find_In in H. unfold keys. apply in_map_iff. exists (k, v); auto. Qed.
  Lemma In_find k v m : NoDup (keys m) -> In (k, v) m -> find k m = Some v.
  Proof. induction m as [|[k2 v2] r IH]; simpl; [tauto|]. intros ND [H|H].
    - inversion H; subst. rewrite keqb_refl; auto.
    - inversion ND; subst. destruct (keqb k k2) eqn:E; auto.
      apply keqb_spec in E; subst. exfalso. apply H2. unfold keys. apply in_map_iff. exists (k2, v); auto. Qed.
  Lemma key_find k m : In k (keys m) -> exists v, find k m = Some v.
  Proof. intros H. destruct (find k m) eqn:E; eauto. apply find_None in E. contradiction. Qed.

  Lemma keys_set_old k v m : In k (keys m) -> keys (set k v m) = keys m.
  Proof. induction m as [|[k2 v2] r IH]; simpl; [tauto|]. destruct (keqb k k2) eqn:E; simpl.
    - apply keqb_spec in E; subst; auto.
    - intros [H|H]; [subst; rewrite keqb_refl in E; discriminate | rewrite IH; auto]. Qed.
  Lemma keys_set_new k v m : ~ In k (keys m) -> keys (set k v m) = keys m ++ [k].
  Proof. induction m as [|[k2 v2] r IH]; simpl; auto. destruct (keqb k k2) eqn:E; simpl.
    - apply keqb_spec in E; subst. tauto.
    - intros H. rewrite IH; auto. Qed.
  Lemma keys_del k m : keys (del k m) = filter (fun x => negb (keqb k x)) (keys m).
  Proof. induction m as [|[k2 v2] r IH]; simpl; auto. destruct (keqb k k2); simpl; rewrite IH; auto. Qed.
  Lemma In_keys_set k k' v m : In k' (keys (set k v m)) <-> k' = k \/ In k' (keys m).
  Proof. destruct (in_dec keqb_dec k (keys m)) as [H|H].
    - rewrite keys_set_old by auto. split; [auto | intros [E|E]; subst; auto].
    - rewrite keys_set_new by auto. rewrite in_app_iff. simpl. split; [intros [A|[A|[]]]; auto | intros [A|A]; auto]. Qed.
  Lemma In_keys_del k k' m : In k' (keys (del k m)) <-> k' <> k /\ In k' (keys m).
  Proof. rewrite keys_del, filter_In. split.
    - intros [A B]. split; auto. intros E; subst. rewrite keqb_refl in B. discriminate.
    - intros [A B]. split; auto. rewrite keqb_neq; auto. Qed.
  Lemma NoDup_app_single (l : list K) k : NoDup l -> ~ In k l -> NoDup (l ++ [k]).
  Proof. induction l as [|x r IH]; simpl; intros ND H.
    - constructor; [simpl; tauto | constructor].
    - inversion ND; subst. constructor.
      + rewrite in_app_iff. simpl. intros [A|[A|[]]]; [auto | subst; apply H; auto].
      + apply IH; auto. Qed.
  Lemma NoDup_set k v m : NoDup (keys m) -> NoDup (keys (set k v m)).
  Proof. intros ND. destruct (in_dec keqb_dec k (keys m)) as [H|H].
    - rewrite keys_set_old; auto.
    - rewrite keys_set_new; auto. apply NoDup_app_single; auto. Qed.
  Lemma NoDup_del k m : NoDup (keys m) -> NoDup (keys (del k m)).
  Proof. intros ND. rewrite keys_del. apply NoDup_filter. auto. Qed.
  Lemma length_set_old k v m : In k (keys m) -> length (set k v m) = length m.
  Proof. intros H. rewrite <- (map_length fst (set k v m)), <- (map_length fst m). fold (keys (set k v m)). rewrite keys_set_old; auto. Qed.
  Lemma length_set_new k v m : ~ In k (keys m) -> length (set k v m) = S (length m).
  Proof. intros H. rewrite <- (map_length fst (set k v m)), <- (map_length fst m). fold (keys (set k v m)). rewrite keys_set_new; auto.
    rewrite app_length. simpl. unfold keys. lia. Qed.

  (* counting *)
  Definition mcount (f : K * V -> bool) (m : list (K * V)) : Z := zlen (filter f m).
  Lemma mcount_nil f : mcount f [] = 0. Proof. reflexivity. Qed.
  Lemma mcount_cons f x m : mcount f (x :: m) = b2z (f x) + mcount f m.
  Proof. unfold mcount, zlen. cbn [filter]. destruct (f x); unfold b2z; [cbn [length]; lia | lia]. Qed.
  Lemma mcount_nonneg f m : 0 <= mcount f m.
  Proof. unfold mcount, zlen. lia. Qed.
  Lemma mcount_le_len f m : mcount f m <= zlen m.
  Proof. induction m as [|x r IH]; [unfold mcount, zlen; simpl; lia|]. rewrite mcount_cons. unfold zlen in *. cbn [length]. destruct (f x); unfold b2z; lia. Qed.
  Lemma mcount_app f a b : mcount f (a ++ b) = mcount f a + mcount f b.
  Proof. unfold mcount, zlen. rewrite filter_app, app_length. lia. Qed.
  Lemma mcount_set_new f k v m : find k m = None -> mcount f (set k v m) = mcount f m + b2z (f (k, v)).
  Proof. induction m as [|[k2 v2] r IH]; simpl.
    - intros _. rewrite mcount_cons, mcount_nil. lia.
    - destruct (keqb k k2) eqn:E; [discriminate|]. intros H. rewrite !mcount_cons, IH; auto. lia. Qed.
  Lemma mcount_set_old f k v v0 m : find k m = Some v0 -> mcount f (set k v m) = mcount f m - b2z (f (k, v0)) + b2z (f (k, v)).
  Proof. induction m as [|[k2 v2] r IH]; simpl; [discriminate|].
    destruct (keqb k k2) eqn:E.
    - intros H; inversion H; subst. apply keqb_spec in E; subst. rewrite !mcount_cons. lia.
    - intros H. rewrite !mcount_cons, IH; auto. lia. Qed.
  Lemma mcount_del_none f k m : find k m = None -> mcount f (del k m) = mcount f m.
  Proof. induction m as [|[k2 v2] r IH]; simpl; auto. destruct (keqb k k2) eqn:E; [discriminate|].
    intros H. rewrite !mcount_cons, IH; auto. Qed.
  Lemma del_notin k m : ~ In k (keys m) -> del k m = m.
  Proof. induction m as [|[k2 v2] r IH]; simpl; auto. intros H. destruct (keqb k k2) eqn:E.
    - apply keqb_spec in E; subst. tauto.
    - rewrite IH; auto. Qed.
  Lemma mcount_del_some f k v0 m : NoDup (keys m) -> find k m = Some v0 -> mcount f (del k m) = mcount f m - b2z (f (k, v0)).
  Proof. induction m as [|[k2 v2] r IH]; simpl; [discriminate|]. intros ND. inversion ND; subst.
    destruct (keqb k k2) eqn:E.
    - intros H; inversion H; subst. apply keqb_spec in E; subst. rewrite mcount_cons, del_notin; auto. lia.
    - intros H. rewrite !mcount_cons, IH; auto. lia. Qed.
  Lemma mcount_ext f g m : (forall k v, find k m = Some v -> f (k, v) = g (k, v)) -> NoDup (keys m) -> mcount f m = mcount g m.
  Proof. induction m as [|[k2 v2] r IH]; simpl; auto. intros H ND. inversion ND; subst. rewrite !mcount_cons.
    rewrite (H k2 v2) by (rewrite keqb_refl; auto). rewrite IH; auto.
    intros k v Hf. apply H. destruct (keqb k k2) eqn:E; auto. apply keqb_spec in E; subst.
    exfalso. apply H2. eapply find_Some_key; eauto. Qed.
  Lemma mcount_pos_ex f m : 0 < mcount f m -> exists k v, In (k, v) m /\ f (k, v) = true.
  Proof. induction m as [|[k2 v2] r IH]; simpl; [rewrite mcount_nil; lia|]. rewrite mcount_cons.
    destruct (f (k2, v2)) eqn:E; [intros _; exists k2, v2; auto|]. unfold b2z. intros H. destruct IH as (k & v & A & B); [lia|].
    exists k, v; auto. Qed.
  Lemma mcount_zero_all f m : mcount f m = 0 -> forall k v, In (k, v) m -> f (k, v) = false.
  Proof. induction m as [|[k2 v2] r IH]; simpl; [tauto|]. rewrite mcount_cons. intros H k v [A|A].
    - inversion A; subst. destruct (f (k, v)); auto. unfold b2z in H. pose proof (mcount_nonneg f r). lia.
    - apply IH; auto. pose proof (mcount_nonneg f r). destruct (f (k2, v2)); unfold b2z in H; lia. Qed.
  Lemma mcount_all_zero f m : (forall k v, In (k, v) m -> f (k, v) = false) -> mcount f m = 0.
  Proof. induction m as [|[k2 v2] r IH]; simpl; auto. intros H. rewrite mcount_cons, (H k2 v2), IH; auto. Qed.
  Lemma mcount_one f m k v : NoDup (keys m) -> In (k, v) m -> f (k, v) = true ->
    (forall k' v', In (k', v') m -> f (k', v') = true -> k' = k) -> mcount f m = 1.
  Proof. induction m as [|[k2 v2] r IH]; simpl; [tauto|]. intros ND HI Hf Hu.
    assert (ND1 : ~ In k2 (keys r)) by (inversion ND; auto).
    assert (ND2 : NoDup (keys r)) by (inversion ND; auto).
    rewrite mcount_cons.
    destruct HI as [A|A].
    - inversion A; subst. rewrite Hf. rewrite mcount_all_zero; [reflexivity|].
      intros k' v' Hin. destruct (f (k', v')) eqn:E; auto. assert (k' = k) by (apply (Hu k' v'); auto). subst.
      exfalso. apply ND1. unfold keys. apply in_map_iff. exists (k, v'); auto.
    - destruct (f (k2, v2)) eqn:E.
      + assert (k2 = k) by (apply (Hu k2 v2); auto). subst. exfalso. apply ND1. apply in_map_iff. exists (k, v); auto.
      + rewrite (IH ND2 A Hf); [unfold b2z; lia|]. intros k' v' H1 H2. apply (Hu k' v'); auto. Qed.
  Lemma length_del_some k v0 m : NoDup (keys m) -> find k m = Some v0 -> zlen (del k m) = zlen m - 1.
  Proof. induction m as [|[k2 v2] r IH]; [discriminate|]. intros ND. 
    assert (ND1 : ~ In k2 (keys r)) by (inversion ND; auto).
    assert (ND2 : NoDup (keys r)) by (inversion ND; auto).
    cbn [mfind mdel]. destruct (keqb k k2) eqn:E.
    - intros H. apply keqb_spec in E; subst. rewrite (del_notin k2 r ND1). unfold zlen. cbn [length]. lia.
    - intros H. specialize (IH ND2 H). unfold zlen in *. cbn [length]. lia. Qed.
End AMapLemmas.

(* instances *)
Lemma zeqb_spec : forall a b : Z, Z.eqb a b = true <-> a = b.
Proof. intros. apply Z.eqb_eq. Qed.
Lemma sloteqb_spec : forall a b : slot, sloteqb a b = true <-> a = b.
Proof. intros [a1 a2] [b1 b2]. unfold sloteqb. simpl. rewrite andb_true_iff, !Z.eqb_eq. split; [intros [? ?]; subst; auto | intros H; inversion H; auto]. Qed.

(* uniform instances for integer-keyed and slot-keyed maps *)
Section ZInst.
  Context {V : Type}.
  Implicit Types (m : list (Z * V)) (k : Z) (v : V).
  Lemma z_find_In k v m : zfind k m = Some v -> In (k, v) m. Proof. apply (find_In Z.eqb zeqb_spec). Qed.
  Lemma z_In_find k v m : NoDup (keys m) -> In (k, v) m -> zfind k m = Some v. Proof. apply (In_find Z.eqb zeqb_spec). Qed.
  Lemma z_key_find k m : In k (keys m) -> exists v, zfind k m = Some v. Proof. apply (key_find Z.eqb zeqb_spec). Qed.
  Lemma z_find_None k m : zfind k m = None <-> ~ In k (keys m). Proof. apply (find_None Z.eqb zeqb_spec). Qed.
  Lemma z_find_key k v m : zfind k m = Some v -> In k (keys m). Proof. apply (find_Some_key Z.eqb zeqb_spec). Qed.
  Lemma z_NoDup_set k v m : NoDup (keys m) -> NoDup (keys (zset k v m)). Proof. apply (NoDup_set Z.eqb zeqb_spec). Qed.
  Lemma z_NoDup_del k m : NoDup (keys m) -> NoDup (keys (zdel k m)). Proof. apply (NoDup_del Z.eqb). Qed.
  Lemma z_In_keys_set k k' v m : In k' (keys (zset k v m)) <-> k' = k \/ In k' (keys m). Proof. apply (In_keys_set Z.eqb zeqb_spec). Qed.
  Lemma z_In_keys_del k k' m : In k' (keys (zdel k m)) <-> k' <> k /\ In k' (keys m). Proof. apply (In_keys_del Z.eqb zeqb_spec). Qed.
  Lemma z_len_set_new k v m : zfind k m = None -> zlen (zset k v m) = zlen m + 1.
  Proof. intros H. apply z_find_None in H. unfold zlen, zset. rewrite (length_set_new Z.eqb zeqb_spec); auto. lia. Qed.
  Lemma z_len_set_old k v v0 m : zfind k m = Some v0 -> zlen (zset k v m) = zlen m.
  Proof. intros H. apply z_find_key in H. unfold zlen, zset. rewrite (length_set_old Z.eqb zeqb_spec); auto. Qed.
  Lemma z_len_del k v0 m : NoDup (keys m) -> zfind k m = Some v0 -> zlen (zdel k m) = zlen m - 1. Proof. apply (length_del_some Z.eqb zeqb_spec). Qed.
  Lemma z_count_set_new f k v m : zfind k m = None -> mcount f (zset k v m) = mcount f m + b2z (f (k, v)). Proof. apply (mcount_set_new Z.eqb zeqb_spec). Qed.
  Lemma z_count_set_old f k v v0 m : zfind k m = Some v0 -> mcount f (zset k v m) = mcount f m - b2z (f (k, v0)) + b2z (f (k, v)). Proof. apply (mcount_set_old Z.eqb zeqb_spec). Qed.
  Lemma z_count_del f k v0 m : NoDup (keys m) -> zfind k m = Some v0 -> mcount f (zdel k m) = mcount f m - b2z (f (k, v0)). Proof. apply (mcount_del_some Z.eqb zeqb_spec). Qed.
  Lemma z_count_del_none f k m : zfind k m = None -> mcount f (zdel k m) = mcount f m. Proof. apply (mcount_del_none Z.eqb). Qed.
  Lemma z_count_ext f g m : (forall k v, zfind k m = Some v -> f (k, v) = g (k, v)) -> NoDup (keys m) -> mcount f m = mcount g m. Proof. apply (mcount_ext Z.eqb zeqb_spec). Qed.
End ZInst.
Section SInst.
  Context {V : Type}.
  Implicit Types (m : list (slot * V)) (k : slot) (v : V).
  Lemma s_find_In k v m : sfind k m = Some v -> In (k, v) m. Proof. apply (find_In sloteqb sloteqb_spec). Qed.
  Lemma s_In_find k v m : NoDup (keys m) -> In (k, v) m -> sfind k m = Some v. Proof. apply (In_find sloteqb sloteqb_spec). Qed.
  Lemma s_key_find k m : In k (keys m) -> exists v, sfind k m = Some v. Proof. apply (key_find sloteqb sloteqb_spec). Qed.
  Lemma s_find_None k m : sfind k m = None <-> ~ In k (keys m). Proof. apply (find_None sloteqb sloteqb_spec). Qed.
  Lemma s_find_key k v m : sfind k m = Some v -> In k (keys m). Proof. apply (find_Some_key sloteqb sloteqb_spec). Qed.
  Lemma s_NoDup_set k v m : NoDup (keys m) -> NoDup (keys (sset k v m)). Proof. apply (NoDup_set sloteqb sloteqb_spec). Qed.
  Lemma s_NoDup_del k m : NoDup (keys m) -> NoDup (keys (sdel k m)). Proof. apply (NoDup_del sloteqb). Qed.
  Lemma s_count_set_new f k v m : sfind k m = None -> mcount f (sset k v m) = mcount f m + b2z (f (k, v)). Proof. apply (mcount_set_new sloteqb sloteqb_spec). Qed.
  Lemma s_count_set_old f k v v0 m : sfind k m = Some v0 -> mcount f (sset k v m) = mcount f m - b2z (f (k, v0)) + b2z (f (k, v)). Proof. apply (mcount_set_old sloteqb sloteqb_spec). Qed.
  Lemma s_count_del f k v0 m : NoDup (keys m) -> sfind k m = Some v0 -> mcount f (sdel k m) = mcount f m - b2z (f (k, v0)). Proof. apply (mcount_del_some sloteqb sloteqb_spec). Qed.
  Lemma s_count_del_none f k m : sfind k m = None -> mcount f (sdel k m) = mcount f m. Proof. apply (mcount_del_none sloteqb). Qed.
End SInst.

(* lists indexed by Z *)
Lemma znth_Some {A} i (l : list A) x : znth i l = Some x -> 0 <= i < zlen l.
Proof. unfold znth, zlen. destruct (i <? 0) eqn:E; [discriminate|]. intros H.
  assert (Z.to_nat i < length l)%nat by (apply nth_error_Some; congruence). lia. Qed.
Lemma znth_range {A} i (l : list A) : 0 <= i < zlen l -> exists x, znth i l = Some x.
Proof. unfold znth, zlen. intros H. destruct (i <? 0) eqn:E; [lia|].
  destruct (nth_error l (Z.to_nat i)) eqn:E2; eauto. apply nth_error_None in E2. lia. Qed.
Lemma nth_error_set_nth_eq {A} n (x : A) l : (n < length l)%nat -> nth_error (set_nth n x l) n = Some x.
Proof. revert n. induction l as [|y r IH]; intros n H; [simpl in H; lia|].
  destruct n as [|n]; [reflexivity|]. change (nth_error (set_nth n x r) n = Some x). apply IH. simpl in H. lia. Qed.
Lemma nth_error_set_nth_neq {A} n m (x : A) l : n <> m -> nth_error (set_nth n x l) m = nth_error l m.
Proof. revert n m. induction l as [|y r IH]; intros n m H.
  - destruct n; reflexivity.
  - destruct n as [|n]; destruct m as [|m]; try reflexivity; try congruence.
    change (nth_error (set_nth n x r) m = nth_error r m). apply IH. congruence. Qed.
Lemma length_set_nth {A} n (x : A) l : length (set_nth n x l) = length l.
Proof. revert n. induction l as [|y r IH]; intros n.
  - destruct n; reflexivity.
  - destruct n as [|n]; [reflexivity|]. change (S (length (set_nth n x r)) = S (length r)). rewrite IH. reflexivity. Qed.
Lemma zlen_zset_nth {A} i (x : A) l : zlen (zset_nth i x l) = zlen l.
Proof. unfold zset_nth, zlen. destruct (i <? 0); auto. rewrite length_set_nth. auto. Qed.
Lemma znth_zset_nth_eq {A} i (x : A) l : 0 <= i < zlen l -> znth i (zset_nth i x l) = Some x.
Proof. unfold znth, zset_nth, zlen. intros H. destruct (i <? 0) eqn:E; [lia|]. apply nth_error_set_nth_eq. lia. Qed.
Lemma znth_zset_nth_neq {A} i j (x : A) l : i <> j -> znth j (zset_nth i x l) = znth j l.
Proof. unfold znth, zset_nth. intros H. destruct (j <? 0) eqn:E; auto. destruct (i <? 0) eqn:E2; auto.
  apply nth_error_set_nth_neq. lia. Qed.
Lemma znth_app_l {A} i (l r : list A) : i < zlen l -> znth i (l ++ r) = znth i l.
Proof. unfold znth, zlen. intros H. destruct (i <? 0) eqn:E; auto. apply nth_error_app1. lia. Qed.
Lemma znth_app_last {A} (l : list A) x : znth (zlen l) (l ++ [x]) = Some x.
Proof. unfold znth, zlen. destruct (Z.of_nat (length l) <? 0) eqn:E; [lia|]. rewrite Nat2Z.id, nth_error_app2, Nat.sub_diag; auto. Qed.
Lemma zlen_app {A} (l r : list A) : zlen (l ++ r) = zlen l + zlen r.
Proof. unfold zlen. rewrite app_length. lia. Qed.
Lemma zlen_nonneg {A} (l : list A) : 0 <= zlen l.
Proof. unfold zlen. lia. Qed.
Lemma length_removelast {A} (l : list A) : l <> [] -> length (removelast l) = (length l - 1)%nat.
Proof. intros H. destruct (exists_last H) as (l' & a & E). subst. rewrite removelast_last, app_length. simpl. lia. Qed.
Lemma zlen_removelast {A} (l : list A) : 0 < zlen l -> zlen (removelast l) = zlen l - 1.
Proof. unfold zlen. intros H. rewrite length_removelast; [lia|]. destruct l; simpl in *; [lia | discriminate]. Qed.
Lemma znth_removelast {A} i (l : list A) : i < zlen l - 1 -> znth i (removelast l) = znth i l.
Proof. unfold znth, zlen. intros H. destruct (i <? 0) eqn:E; auto.
  destruct l as [|a l0]; [reflexivity|]. assert (NE : a :: l0 <> []) by discriminate.
  destruct (exists_last NE) as (l' & z & E2). rewrite E2 in *. rewrite removelast_last. rewrite app_length in H. simpl in H.
  rewrite nth_error_app1; auto. lia. Qed.
Lemma znth_app_cases {A} i (l : list A) x y : znth i (l ++ [x]) = Some y -> (i < zlen l /\ znth i l = Some y) \/ (i = zlen l /\ y = x).
Proof. intros H. pose proof (znth_Some _ _ _ H) as R. rewrite zlen_app in R. unfold zlen at 2 in R. simpl in R.
  destruct (Z_lt_le_dec i (zlen l)) as [Lt|Ge].
  - left. split; auto. rewrite znth_app_l in H; auto.
  - right. assert (i = zlen l) by lia. subst. rewrite znth_app_last in H. inversion H; auto. Qed.
