(* Base lemmas for the eviction model (model/Eviction.v): multisets, sortedness, the comparators are strict weak orderings; C59. *)
From BV Require Import lib.Ints gen.Params_gen model.Eviction.
From Coq Require Import Sorting.Permutation Sorting.Sorted ZifyBool.
Local Open Scope Z_scope.

(* ---------------------------------------------------------------------------------------------- *)
(* 1. lists as multisets: [subp P l' l] = l' is l with some elements removed, all removed ones satisfy P *)

Lemma filter_length_perm {A} (f : A -> bool) (l l' : list A) :
  Permutation l l' -> length (filter f l) = length (filter f l').
Proof.
  induction 1 as [|x l l' Hp IH|x y l|l l' l'' H1 IH1 H2 IH2]; simpl.
  - reflexivity.
  - destruct (f x); simpl; congruence.
  - destruct (f x), (f y); reflexivity.
  - congruence.
Qed.

Lemma count_if_perm {A} (f : A -> bool) (l l' : list A) : Permutation l l' -> count_if f l = count_if f l'.
Proof. intros H. unfold count_if, zlen. now rewrite (filter_length_perm f l l' H). Qed.

Lemma count_if_app {A} (f : A -> bool) (a b : list A) : count_if f (a ++ b) = count_if f a + count_if f b.
Proof. unfold count_if, zlen. rewrite filter_app, app_length. lia. Qed.

Lemma count_if_nonneg {A} (f : A -> bool) (l : list A) : 0 <= count_if f l.
Proof. unfold count_if, zlen. lia. Qed.

Lemma count_if_le_len {A} (f : A -> bool) (l : list A) : count_if f l <= zlen l.
Proof.
  unfold count_if, zlen. induction l as [|a l IH]; simpl; [lia|].
  destruct (f a); simpl length; lia.
Qed.

Lemma zlen_app {A} (a b : list A) : zlen (a ++ b) = zlen a + zlen b.
Proof. unfold zlen. rewrite app_length. lia. Qed.

Lemma zlen_nonneg {A} (a : list A) : 0 <= zlen a.
Proof. unfold zlen. lia. Qed.

Definition subp {A} (P : A -> Prop) (l' l : list A) : Prop :=
  exists r, Permutation (l' ++ r) l /\ Forall P r.
Definition sub {A} (l' l : list A) : Prop := subp (fun _ => True) l' l.

Lemma subp_refl {A} (P : A -> Prop) l : subp P l l.
Proof. exists []. rewrite app_nil_r. split; [apply Permutation_refl | constructor]. Qed.

Lemma subp_trans {A} (P : A -> Prop) l1 l2 l3 : subp P l1 l2 -> subp P l2 l3 -> subp P l1 l3.
Proof.
  intros [r1 [H1 F1]] [r2 [H2 F2]]. exists (r1 ++ r2). split.
  - rewrite app_assoc. eapply Permutation_trans; [|exact H2]. now apply Permutation_app_tail.
  - apply Forall_app; split; assumption.
Qed.

Lemma subp_weaken {A} (P Q : A -> Prop) l' l : (forall x, P x -> Q x) -> subp P l' l -> subp Q l' l.
Proof. intros HPQ [r [H F]]. exists r. split; [exact H|]. eapply Forall_impl; eauto. Qed.

Lemma subp_sub {A} (P : A -> Prop) l' l : subp P l' l -> sub l' l.
Proof. apply subp_weaken. trivial. Qed.

Lemma subp_perm_r {A} (P : A -> Prop) l' l m : subp P l' l -> Permutation l m -> subp P l' m.
Proof. intros [r [H F]] Hp. exists r. split; [eapply Permutation_trans; eauto | exact F]. Qed.

Lemma filter_split_perm {A} (f : A -> bool) l :
  Permutation (filter f l ++ filter (fun x => negb (f x)) l) l.
Proof.
  induction l as [|a l IH]; simpl; [constructor|].
  destruct (f a); simpl.
  - now constructor.
  - apply Permutation_sym, Permutation_cons_app, Permutation_sym, IH.
Qed.

Lemma subp_filter {A} (f : A -> bool) l : subp (fun x => f x = false) (filter f l) l.
Proof.
  exists (filter (fun x => negb (f x)) l). split; [apply filter_split_perm|].
  apply Forall_forall. intros x Hx. apply filter_In in Hx. destruct Hx as [_ Hx]. now destruct (f x).
Qed.

Lemma subp_app_head {A} (P : A -> Prop) h l' l : subp P l' l -> subp P (h ++ l') (h ++ l).
Proof. intros [r [H F]]. exists r. split; [|exact F]. rewrite <- app_assoc. now apply Permutation_app_head. Qed.

Lemma sub_incl {A} (l' l : list A) x : sub l' l -> In x l' -> In x l.
Proof. intros [r [H _]] Hx. eapply Permutation_in; [exact H|]. apply in_or_app. now left. Qed.

Lemma sub_count {A} (f : A -> bool) (l' l : list A) : sub l' l -> count_if f l' <= count_if f l.
Proof.
  intros [r [H _]]. rewrite <- (count_if_perm f _ _ H), count_if_app.
  pose proof (count_if_nonneg f r). lia.
Qed.

Lemma sub_zlen {A} (l' l : list A) : sub l' l -> zlen l' <= zlen l.
Proof.
  intros [r [H _]]. unfold zlen. rewrite <- (Permutation_length H), app_length. lia.
Qed.

(* ---------------------------------------------------------------------------------------------- *)
(* 2. StronglySorted helpers *)

Lemma SS_app_inv {A} (R : A -> A -> Prop) a b :
  StronglySorted R (a ++ b) ->
  StronglySorted R a /\ StronglySorted R b /\ (forall x y, In x a -> In y b -> R x y).
Proof.
  induction a as [|x a IH]; simpl; intros H.
  - repeat split; [constructor | exact H | intros ? ? []].
  - inversion H as [|? ? Hs Hf]; subst. destruct (IH Hs) as [Ha [Hb Hab]].
    rewrite Forall_app in Hf. destruct Hf as [Hfa Hfb].
    repeat split; [constructor; assumption | exact Hb |].
    intros u v [->|Hu] Hv; [| now apply Hab].
    rewrite Forall_forall in Hfb. now apply Hfb.
Qed.

Lemma SS_app_intro {A} (R : A -> A -> Prop) a b :
  StronglySorted R a -> StronglySorted R b -> (forall x y, In x a -> In y b -> R x y) ->
  StronglySorted R (a ++ b).
Proof.
  induction a as [|x a IH]; simpl; intros Ha Hb Hab; [exact Hb|].
  inversion Ha as [|? ? Hs Hf]; subst. constructor.
  - apply IH; auto.
  - apply Forall_app. split; [exact Hf|]. apply Forall_forall. intros y Hy. apply Hab; auto.
Qed.

Lemma SS_filter {A} (R : A -> A -> Prop) (f : A -> bool) l :
  StronglySorted R l -> StronglySorted R (filter f l).
Proof.
  induction 1 as [|x l Hs IH Hf]; simpl; [constructor|].
  destruct (f x); [|exact IH]. constructor; [exact IH|].
  apply Forall_forall. intros y Hy. apply filter_In in Hy. rewrite Forall_forall in Hf. now apply Hf.
Qed.

Lemma SS_firstn {A} (R : A -> A -> Prop) n l : StronglySorted R l -> StronglySorted R (firstn n l).
Proof. intros H. rewrite <- (firstn_skipn n l) in H. now apply SS_app_inv in H. Qed.

Lemma SS_skipn {A} (R : A -> A -> Prop) n l : StronglySorted R l -> StronglySorted R (skipn n l).
Proof. intros H. rewrite <- (firstn_skipn n l) in H. now apply SS_app_inv in H. Qed.

(* ---------------------------------------------------------------------------------------------- *)
(* 3. the comparators are strict weak orderings *)

Lemma swo_irrefl cmp : swo cmp -> forall a, cmp a a = false.
Proof. intros [Ha _] a. destruct (cmp a a) eqn:E; [|reflexivity]. rewrite (Ha a a E) in E. discriminate. Qed.

Ltac bool_cases :=
  repeat match goal with
         | |- context [if ?b then _ else _] => destruct b eqn:?
         | H : context [if ?b then _ else _] |- _ => destruct b eqn:?
         end.

Ltac swo_tac :=
  split; [intros [] [] | intros [] [] []]; cbn [c_id c_connected c_min_ping c_last_block c_last_tx c_relevant
    c_relay_txs c_bloom c_netgroup c_prefer_evict c_is_local c_network c_noban c_conn_type];
  intros; bool_cases; lia.

Lemma swo_rev_min_ping : swo cmp_rev_min_ping.
Proof. unfold cmp_rev_min_ping. swo_tac. Qed.
Lemma swo_rev_connected : swo cmp_rev_connected.
Proof. unfold cmp_rev_connected. swo_tac. Qed.
Lemma swo_netgroup : swo cmp_netgroup.
Proof. unfold cmp_netgroup. swo_tac. Qed.
Lemma swo_block_time : swo cmp_block_time.
Proof. unfold cmp_block_time. swo_tac. Qed.
Lemma swo_tx_time : swo cmp_tx_time.
Proof. unfold cmp_tx_time. swo_tac. Qed.
Lemma swo_block_relay_only_time : swo cmp_block_relay_only_time.
Proof. unfold cmp_block_relay_only_time. swo_tac. Qed.
Lemma swo_network_time il nw : swo (cmp_network_time il nw).
Proof. unfold cmp_network_time. swo_tac. Qed.
