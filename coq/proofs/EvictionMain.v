(* Main lemmas about SelectNodeToEvict for every admissible sort; C59. *)
From BV Require Import lib.Ints gen.Params_gen model.Eviction proofs.EvictionBase proofs.EvictionLemmas
  proofs.EvictionRatio proofs.EvictionPick.
From Coq Require Import Sorting.Permutation Sorting.Sorted ZifyBool.
Local Open Scope Z_scope.
Ltac Zify.zify_post_hook ::= Z.div_mod_to_equations.   (* importing ZifyBool resets the hook set in lib/Ints.v *)

Lemma filter_filter {A} (f g : A -> bool) l : filter f (filter g l) = filter (fun x => g x && f x) l.
Proof.
  induction l as [|a l IH]; simpl; [reflexivity|].
  destruct (g a); simpl; [destruct (f a)|]; now rewrite IH.
Qed.

Lemma eligible_filter l : protect_outbound (protect_noban l) = filter eligible l.
Proof.
  unfold protect_outbound, protect_noban. rewrite filter_filter. apply filter_ext.
  intros a. unfold eligible. now rewrite negb_involutive.
Qed.

Lemma sub_refl {A} (l : list A) : sub l l.
Proof. apply subp_refl. Qed.
Lemma sub_trans {A} (a b c : list A) : sub a b -> sub b c -> sub a c.
Proof. apply subp_trans. Qed.

Lemma count_if_mono {A} (f g : A -> bool) l : (forall x, f x = true -> g x = true) -> count_if f l <= count_if g l.
Proof.
  intros H. unfold count_if, zlen. induction l as [|a l IH]; simpl; [lia|].
  destruct (f a) eqn:Ef; [rewrite (H a Ef)|destruct (g a)]; simpl length; lia.
Qed.

(* the plain-attribute reading of "one of the k best" implies the comparator one on the eligible candidates *)
Lemma plain_implies_surely cmp (g : cand -> bool) k c l :
  (forall x, negb (cmp x c) = true -> g x = true) -> (count_if g l <=? k) = true ->
  surely_last_k cmp k c (filter eligible l) = true.
Proof.
  intros Himp Hk. unfold surely_last_k, not_before.
  pose proof (sub_count (fun x => negb (cmp x c)) (filter eligible l) l (subp_sub _ _ _ (subp_filter eligible l))) as H1.
  pose proof (count_if_mono (fun x => negb (cmp x c)) g l Himp) as H2. lia.
Qed.

Lemma top_netgroup_surely c l : top_netgroup c l = true -> surely_last_k cmp_netgroup 4 c (filter eligible l) = true.
Proof. apply plain_implies_surely. intros x. unfold cmp_netgroup. lia. Qed.
Lemma top_ping_surely c l : top_ping c l = true -> surely_last_k cmp_rev_min_ping 8 c (filter eligible l) = true.
Proof. apply plain_implies_surely. intros x. unfold cmp_rev_min_ping. lia. Qed.
Lemma top_tx_surely c l : top_tx c l = true -> surely_last_k cmp_tx_time 4 c (filter eligible l) = true.
Proof.
  apply plain_implies_surely. intros x. unfold cmp_tx_time.
  destruct (c_last_tx x =? c_last_tx c) eqn:E; simpl; lia.
Qed.
Lemma top_block_surely c l : top_block c l = true -> surely_last_k cmp_block_time 4 c (filter eligible l) = true.
Proof.
  apply plain_implies_surely. intros x. unfold cmp_block_time.
  destruct (c_last_block x =? c_last_block c) eqn:E; simpl; lia.
Qed.

Section Main.
  Variable elk : eraser.
  Hypothesis Helk : elk_spec elk.

  (* the lists between the five fixed protections *)
  Definition L1 (l : list cand) := filter eligible l.
  Definition L2 l := stage_netgroup elk (L1 l).
  Definition L3 l := stage_ping elk (L2 l).
  Definition L4 l := stage_tx elk (L3 l).
  Definition L5 l := stage_block_relay_only elk (L4 l).
  Definition L6 l := stage_block elk (L5 l).

  Lemma protect_fixed_L6 l : protect_fixed elk l = L6 l.
  Proof. unfold protect_fixed, L6, L5, L4, L3, L2, L1. now rewrite eligible_filter. Qed.

  Lemma sub21 l : sub (L2 l) (L1 l). Proof. apply (elk_sub elk Helk), swo_netgroup. Qed.
  Lemma sub32 l : sub (L3 l) (L2 l). Proof. apply (elk_sub elk Helk), swo_rev_min_ping. Qed.
  Lemma sub43 l : sub (L4 l) (L3 l). Proof. apply (elk_sub elk Helk), swo_tx_time. Qed.
  Lemma sub54 l : sub (L5 l) (L4 l). Proof. apply (elk_sub elk Helk), swo_block_relay_only_time. Qed.
  Lemma sub65 l : sub (L6 l) (L5 l). Proof. apply (elk_sub elk Helk), swo_block_time. Qed.
  Lemma sub31 l : sub (L3 l) (L1 l). Proof. eapply sub_trans; [apply sub32 | apply sub21]. Qed.
  Lemma sub41 l : sub (L4 l) (L1 l). Proof. eapply sub_trans; [apply sub43 | apply sub31]. Qed.
  Lemma sub51 l : sub (L5 l) (L1 l). Proof. eapply sub_trans; [apply sub54 | apply sub41]. Qed.
  Lemma sub61 l : sub (L6 l) (L1 l). Proof. eapply sub_trans; [apply sub65 | apply sub51]. Qed.
  Lemma sub62 l : sub (L6 l) (L2 l).
  Proof. eapply sub_trans; [apply sub65|]. eapply sub_trans; [apply sub54|]. eapply sub_trans; [apply sub43 | apply sub32]. Qed.
  Lemma sub63 l : sub (L6 l) (L3 l).
  Proof. eapply sub_trans; [apply sub65|]. eapply sub_trans; [apply sub54 | apply sub43]. Qed.
  Lemma sub64 l : sub (L6 l) (L4 l).
  Proof. eapply sub_trans; [apply sub65 | apply sub54]. Qed.

  (* each rule: a candidate surely among the last k (in every comparator-sorted order) of the
     eligible candidates does not survive the fixed protections *)
  Lemma fixed_protects_netgroup l c : surely_last_k cmp_netgroup 4 c (L1 l) = true -> ~ In c (L6 l).
  Proof.
    intros Hs Hin. apply (sub_incl _ _ _ (sub62 l)) in Hin.
    revert Hin. apply (elk_protects elk Helk cmp_netgroup 4 pred_all (L1 l) (L1 l) c);
      [apply swo_netgroup | apply sub_refl | reflexivity | exact Hs].
  Qed.
  Lemma fixed_protects_ping l c : surely_last_k cmp_rev_min_ping 8 c (L1 l) = true -> ~ In c (L6 l).
  Proof.
    intros Hs Hin. apply (sub_incl _ _ _ (sub63 l)) in Hin.
    revert Hin. apply (elk_protects elk Helk cmp_rev_min_ping 8 pred_all (L2 l) (L1 l) c);
      [apply swo_rev_min_ping | apply sub21 | reflexivity | exact Hs].
  Qed.
  Lemma fixed_protects_tx l c : surely_last_k cmp_tx_time 4 c (L1 l) = true -> ~ In c (L6 l).
  Proof.
    intros Hs Hin. apply (sub_incl _ _ _ (sub64 l)) in Hin.
    revert Hin. apply (elk_protects elk Helk cmp_tx_time 4 pred_all (L3 l) (L1 l) c);
      [apply swo_tx_time | apply sub31 | reflexivity | exact Hs].
  Qed.
  Lemma fixed_protects_block_relay_only l c : pred_block_relay_only c = true ->
    surely_last_k cmp_block_relay_only_time 8 c (L1 l) = true -> ~ In c (L6 l).
  Proof.
    intros Hp Hs Hin. apply (sub_incl _ _ _ (sub65 l)) in Hin.
    revert Hin. apply (elk_protects elk Helk cmp_block_relay_only_time 8 pred_block_relay_only (L4 l) (L1 l) c);
      [apply swo_block_relay_only_time | apply sub41 | exact Hp | exact Hs].
  Qed.
  Lemma fixed_protects_block l c : surely_last_k cmp_block_time 4 c (L1 l) = true -> ~ In c (L6 l).
  Proof.
    intros Hs. apply (elk_protects elk Helk cmp_block_time 4 pred_all (L5 l) (L1 l) c);
      [apply swo_block_time | apply sub51 | reflexivity | exact Hs].
  Qed.

  Lemma fixed_protects l c :
    protected_by_rule c l = true \/ protected_block_relay_only c l = true -> ~ In c (protect_fixed elk l).
  Proof.
    rewrite protect_fixed_L6. unfold protected_by_rule, protected_block_relay_only. fold (L1 l).
    intros [H|H].
    - apply orb_true_iff in H. destruct H as [H|H]; [|now apply fixed_protects_block].
      apply orb_true_iff in H. destruct H as [H|H]; [|now apply fixed_protects_tx].
      apply orb_true_iff in H. destruct H as [H|H]; [now apply fixed_protects_netgroup | now apply fixed_protects_ping].
    - apply andb_true_iff in H. destruct H as [H1 H2]. now apply fixed_protects_block_relay_only.
  Qed.

  (* sizes *)
  Lemma fixed_sizes l :
    let n1 := zlen (L1 l) in let n6 := zlen (L6 l) in
    n6 <= Z.max 0 (n1 - 20) /\ n1 - 28 <= n6 /\ 0 <= n6.
  Proof.
    cbv zeta.
    pose proof (elk_zlen_all elk Helk cmp_netgroup 4 (L1 l) swo_netgroup ltac:(lia)) as H2. fold (stage_netgroup elk (L1 l)) in H2. fold (L2 l) in H2.
    pose proof (elk_zlen_all elk Helk cmp_rev_min_ping 8 (L2 l) swo_rev_min_ping ltac:(lia)) as H3. fold (stage_ping elk (L2 l)) in H3. fold (L3 l) in H3.
    pose proof (elk_zlen_all elk Helk cmp_tx_time 4 (L3 l) swo_tx_time ltac:(lia)) as H4. fold (stage_tx elk (L3 l)) in H4. fold (L4 l) in H4.
    pose proof (elk_zlen_ge elk Helk cmp_block_relay_only_time 8 pred_block_relay_only (L4 l) swo_block_relay_only_time ltac:(lia)) as H5.
    fold (stage_block_relay_only elk (L4 l)) in H5. fold (L5 l) in H5.
    pose proof (sub_zlen _ _ (sub54 l)) as H5'.
    pose proof (elk_zlen_all elk Helk cmp_block_time 4 (L5 l) swo_block_time ltac:(lia)) as H6. fold (stage_block elk (L5 l)) in H6. fold (L6 l) in H6.
    pose proof (zlen_nonneg (L1 l)). pose proof (zlen_nonneg (L6 l)). lia.
  Qed.

  (* everything up to the final selection: never stuck; what is left *)
  Lemma protect_all_ok l :
    exists rem, protect_all elk l = Ok rem /\ sub rem (L6 l) /\
                zlen rem = zlen (L6 l) - zlen (L6 l) / 2 /\ sorted_wrt cmp_rev_connected rem.
  Proof.
    unfold protect_all. rewrite protect_fixed_L6.
    destruct (protect_by_ratio_ok elk Helk (L6 l)) as (cands & num & E & J1 & J2 & J3 & J4).
    eexists. split; [exact E|]. split; [|split; [exact J4|]].
    - eapply sub_trans; [apply (elk_sub elk Helk), swo_rev_connected | eapply subp_sub; exact J1].
    - apply (elk_sorted elk Helk), swo_rev_connected.
  Qed.

  (* ProtectEvictionCandidatesByRatio: the peers surely among the (half - quarter) longest connected are protected *)
  Lemma ratio_protects_longest_connected l c rem :
    protect_by_ratio elk l = Ok rem ->
    surely_last_k cmp_rev_connected (zlen l / 2 - zlen l / 2 / 2) c l = true -> ~ In c rem.
  Proof.
    intros E Hs. destruct (protect_by_ratio_ok elk Helk l) as (cands & num & E' & J1 & J2 & J3 & J4).
    rewrite E in E'. injection E' as ->.
    apply (elk_protects elk Helk cmp_rev_connected _ pred_all cands l c);
      [apply swo_rev_connected | eapply subp_sub; exact J1 | reflexivity|].
    unfold surely_last_k in *. lia.
  Qed.

  Lemma in_zlen_pos {A} (x : A) l : In x l -> 1 <= zlen l.
  Proof. destruct l; [contradiction|]. intros _. unfold zlen. simpl length. lia. Qed.

  Lemma zlen_zero_nil {A} (l : list A) : zlen l = 0 -> l = [].
  Proof. destruct l; [reflexivity|]. unfold zlen. simpl length. lia. Qed.

  (* SelectNodeToEvict never gets stuck *)
  Lemma select_ok l : exists r, select_gen elk l = Ok r.
  Proof.
    unfold select_gen. destruct (protect_all_ok l) as (rem & E & _). rewrite E.
    destruct (pick_ok rem) as (r & Er & _). now exists r.
  Qed.

  Lemma select_some l c : select_gen elk l = Ok (Some c) ->
    In c l /\ eligible c = true /\ protected_by_rule c l = false /\ protected_block_relay_only c l = false /\
    20 < count_if eligible l.
  Proof.
    unfold select_gen. destruct (protect_all_ok l) as (rem & E & Hsub & Hlen & Hsorted). rewrite E.
    intros Hp. apply pick_in in Hp.
    assert (H6 : In c (L6 l)) by (eapply sub_incl; eauto).
    assert (H1 : In c (L1 l)) by (eapply sub_incl; [apply sub61 | exact H6]).
    unfold L1 in H1. apply filter_In in H1. destruct H1 as [Hin Hel].
    split; [exact Hin|]. split; [exact Hel|].
    pose proof (fixed_protects l c) as Hprot. rewrite protect_fixed_L6 in Hprot.
    split; [|split].
    - destruct (protected_by_rule c l); [exfalso; apply Hprot; auto | reflexivity].
    - destruct (protected_block_relay_only c l); [exfalso; apply Hprot; auto | reflexivity].
    - pose proof (fixed_sizes l) as Hs. cbv zeta in Hs. unfold count_if. fold (L1 l).
      pose proof (in_zlen_pos _ _ H6). lia.
  Qed.

  Lemma select_none_iff l : select_gen elk l = Ok None <-> protect_fixed elk l = [].
  Proof.
    unfold select_gen. destruct (protect_all_ok l) as (rem & E & Hsub & Hlen & Hsorted). rewrite E.
    rewrite protect_fixed_L6.
    destruct (pick_ok rem) as (r & Er & Hr & _). rewrite Er. split.
    - intros H. injection H as ->. assert (Hrem : rem = []) by (apply Hr; reflexivity). subst rem.
      apply zlen_zero_nil. change (zlen (@nil cand)) with 0 in Hlen. pose proof (zlen_nonneg (L6 l)). lia.
    - intros H6. rewrite H6 in Hlen. change (zlen (@nil cand)) with 0 in Hlen.
      apply zlen_zero_nil in Hlen. f_equal. now apply Hr.
  Qed.

  Lemma select_none l : select_gen elk l = Ok None -> count_if eligible l <= 28.
  Proof.
    intros H. apply select_none_iff in H. rewrite protect_fixed_L6 in H.
    pose proof (fixed_sizes l) as Hs. cbv zeta in Hs. rewrite H in Hs. change (zlen (@nil cand)) with 0 in Hs.
    unfold count_if. fold (L1 l). lia.
  Qed.

  Lemma select_few l : count_if eligible l <= 20 -> select_gen elk l = Ok None.
  Proof.
    intros H. apply select_none_iff. rewrite protect_fixed_L6. apply zlen_zero_nil.
    pose proof (fixed_sizes l) as Hs. cbv zeta in Hs. unfold count_if in H. fold (L1 l) in H. lia.
  Qed.

  Lemma select_many l : 29 <= count_if eligible l -> exists c, select_gen elk l = Ok (Some c).
  Proof.
    intros H. destruct (select_ok l) as [[c|] E]; [now exists c|].
    apply select_none in E. lia.
  Qed.

  (* the final choice: most populous net group among what is left (prefer_evict peers only when
     there is one), most recently connected member; ties between equally large groups go to the
     group with the most recently connected member *)
  Lemma select_pick l c : select_gen elk l = Ok (Some c) ->
    exists rem, protect_all elk l = Ok rem /\
      let rem' := prefer_filtered rem in
      In c rem' /\
      (existsb c_prefer_evict rem = true -> c_prefer_evict c = true) /\
      forall x, In x rem' ->
        group_size rem' x < group_size rem' c \/
        (group_size rem' x = group_size rem' c /\ c_connected x <= c_connected c).
  Proof.
    unfold select_gen. destruct (protect_all_ok l) as (rem & E & Hsub & Hlen & Hsorted). rewrite E.
    intros Hp. exists rem. split; [reflexivity|]. cbv zeta.
    destruct (pick_youngest_of_largest_group rem c Hsorted Hp) as [H1 H2].
    split; [exact H1|]. split; [|exact H2]. now apply pick_prefers.
  Qed.

  (* soundness of the executable predicate used by the violation search *)
  Lemma unique_filter l c : ids_unique l = true -> In c l -> filter (fun x => c_id x =? c_id c) l = [c].
  Proof.
    intros Hu Hin. unfold ids_unique in Hu. rewrite forallb_forall in Hu. specialize (Hu c Hin).
    assert (Hc : In c (filter (fun x => c_id x =? c_id c) l)) by (apply filter_In; split; [exact Hin | lia]).
    unfold count_if, zlen in Hu.
    destruct (filter (fun x => c_id x =? c_id c) l) as [|a [|b r]];
      [contradiction | | exfalso; cbn [length] in Hu; lia].
    destruct Hc as [->|[]]. reflexivity.
  Qed.

  Lemma holds_sound l r : ids_unique l = true -> select_gen elk l = Ok r ->
    holds_C59 l (option_map c_id r) = true.
  Proof.
    intros Hu E. destruct r as [c|]; simpl.
    - destruct (select_some l c E) as (Hin & Hel & Hp1 & Hp2 & Hn).
      rewrite (unique_filter l c Hu Hin), Hel, Hp1, Hp2. simpl. lia.
    - apply select_none in E. lia.
  Qed.
End Main.

(* ---------------------------------------------------------------------------------------------- *)
(* statements in the form used by props/Properties_C59.v, for every admissible sort *)

Lemma sel_never_stuck srt l : sort_spec srt -> exists r, select_node_to_evict srt l = Ok r.
Proof. intros Hs. exact (select_ok _ (erase_last_k_spec srt Hs) l). Qed.

Lemma sel_never_noban_or_outbound srt l c : sort_spec srt ->
  select_node_to_evict srt l = Ok (Some c) ->
  In c l /\ c_noban c = false /\ c_conn_type c = EVICT_CONN_INBOUND.
Proof.
  intros Hs H. destruct (select_some _ (erase_last_k_spec srt Hs) l c H) as (Hin & Hel & _).
  unfold eligible in Hel. apply andb_true_iff in Hel. destruct Hel as [Hn Hc].
  split; [exact Hin|]. split; [now destruct (c_noban c) | now apply Z.eqb_eq].
Qed.

Lemma sel_protected_by_rule srt l c : sort_spec srt ->
  (surely_last_k cmp_netgroup 4 c (filter eligible l) = true \/
   surely_last_k cmp_rev_min_ping 8 c (filter eligible l) = true \/
   surely_last_k cmp_tx_time 4 c (filter eligible l) = true \/
   surely_last_k cmp_block_time 4 c (filter eligible l) = true) ->
  select_node_to_evict srt l <> Ok (Some c).
Proof.
  intros Hs Hp H. destruct (select_some _ (erase_last_k_spec srt Hs) l c H) as (_ & _ & Hr & _).
  unfold protected_by_rule in Hr. destruct Hp as [Hp|[Hp|[Hp|Hp]]]; rewrite Hp in Hr;
    repeat rewrite orb_true_r in Hr; discriminate.
Qed.

Lemma sel_protected_among_all srt l c : sort_spec srt ->
  (count_if (fun x => c_netgroup c <=? c_netgroup x) l <= 4 \/
   count_if (fun x => c_min_ping x <=? c_min_ping c) l <= 8 \/
   count_if (fun x => c_last_tx c <=? c_last_tx x) l <= 4 \/
   count_if (fun x => c_last_block c <=? c_last_block x) l <= 4) ->
  select_node_to_evict srt l <> Ok (Some c).
Proof.
  intros Hs Hp. apply sel_protected_by_rule; [exact Hs|].
  destruct Hp as [Hp|[Hp|[Hp|Hp]]].
  - left. apply top_netgroup_surely. unfold top_netgroup. now apply Z.leb_le.
  - right; left. apply top_ping_surely. unfold top_ping. now apply Z.leb_le.
  - right; right; left. apply top_tx_surely. unfold top_tx. now apply Z.leb_le.
  - right; right; right. apply top_block_surely. unfold top_block. now apply Z.leb_le.
Qed.

Lemma sel_protected_block_relay_only srt l c : sort_spec srt ->
  c_relay_txs c = false -> c_relevant c = true ->
  surely_last_k cmp_block_relay_only_time 8 c (filter eligible l) = true ->
  select_node_to_evict srt l <> Ok (Some c).
Proof.
  intros Hs Hr Hv Hp H. destruct (select_some _ (erase_last_k_spec srt Hs) l c H) as (_ & _ & _ & Hb & _).
  unfold protected_block_relay_only, pred_block_relay_only in Hb. rewrite Hr, Hv, Hp in Hb. discriminate.
Qed.

Lemma sel_ratio_protection srt l : sort_spec srt ->
  exists cands num,
    protect_by_ratio (erase_last_k srt) l =
      Ok (erase_last_k srt cmp_rev_connected (zlen l / 2 - num) pred_all cands) /\
    subp (fun c => disadvantaged c = true) cands l /\ num = zlen l - zlen cands /\
    0 <= num <= zlen l / 2 / 2 /\
    zlen (erase_last_k srt cmp_rev_connected (zlen l / 2 - num) pred_all cands) = zlen l - zlen l / 2.
Proof. intros Hs. exact (protect_by_ratio_ok _ (erase_last_k_spec srt Hs) l). Qed.

Lemma sel_ratio_longest srt l c rem : sort_spec srt ->
  protect_by_ratio (erase_last_k srt) l = Ok rem ->
  surely_last_k cmp_rev_connected (zlen l / 2 - zlen l / 2 / 2) c l = true -> ~ In c rem.
Proof. intros Hs. exact (ratio_protects_longest_connected _ (erase_last_k_spec srt Hs) l c rem). Qed.

Lemma sel_none_iff srt l : sort_spec srt ->
  (select_node_to_evict srt l = Ok None <-> protect_fixed (erase_last_k srt) l = []) /\
  (count_if eligible l <= 20 -> select_node_to_evict srt l = Ok None) /\
  (29 <= count_if eligible l -> exists c, select_node_to_evict srt l = Ok (Some c)).
Proof.
  intros Hs. pose proof (erase_last_k_spec srt Hs) as He. split; [|split].
  - exact (select_none_iff _ He l).
  - exact (select_few _ He l).
  - exact (select_many _ He l).
Qed.

Lemma sel_pick srt l c : sort_spec srt ->
  select_node_to_evict srt l = Ok (Some c) ->
  exists rem, protect_all (erase_last_k srt) l = Ok rem /\
    let rem' := prefer_filtered rem in
    In c rem' /\
    (existsb c_prefer_evict rem = true -> c_prefer_evict c = true) /\
    forall x, In x rem' ->
      group_size rem' x < group_size rem' c \/
      (group_size rem' x = group_size rem' c /\ c_connected x <= c_connected c).
Proof. intros Hs. exact (select_pick _ (erase_last_k_spec srt Hs) l c). Qed.

Lemma sel_holds_sound srt l r : sort_spec srt -> ids_unique l = true ->
  select_node_to_evict srt l = Ok r -> holds_C59 l (option_map c_id r) = true.
Proof. intros Hs. exact (holds_sound _ (erase_last_k_spec srt Hs) l r). Qed.

Lemma comparators_swo :
  swo cmp_netgroup /\ swo cmp_rev_min_ping /\ swo cmp_tx_time /\ swo cmp_block_relay_only_time /\ swo cmp_block_time /\
  swo cmp_rev_connected /\ forall is_local network, swo (cmp_network_time is_local network).
Proof.
  split; [exact swo_netgroup|]. split; [exact swo_rev_min_ping|]. split; [exact swo_tx_time|].
  split; [exact swo_block_relay_only_time|]. split; [exact swo_block_time|]. split; [exact swo_rev_connected|].
  exact swo_network_time.
Qed.
