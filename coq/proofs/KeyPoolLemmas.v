(* C62: proofs about the keypool model (model/KeyPool.v). *)
From Coq Require Import ZArith List Bool Lia.
From BV Require Import lib.Ints model.KeyPool.
Import ListNotations.
Open Scope Z_scope.

Ltac b2p := repeat match goal with
  | H : _ || _ = false |- _ => apply orb_false_iff in H; destruct H
  | H : _ && _ = true |- _ => apply andb_true_iff in H; destruct H
  | H : (_ <? _) = true |- _ => apply Z.ltb_lt in H
  | H : (_ <? _) = false |- _ => apply Z.ltb_ge in H
  | H : (_ <=? _) = true |- _ => apply Z.leb_le in H
  | H : (_ <=? _) = false |- _ => apply Z.leb_gt in H
  | H : (_ =? _) = true |- _ => apply Z.eqb_eq in H
  | H : (_ =? _) = false |- _ => apply Z.eqb_neq in H
  | H : negb _ = true |- _ => apply negb_true_iff in H
  | H : negb _ = false |- _ => apply negb_false_iff in H
  end.

Ltac brk := repeat (match goal with
  | H : context [let (_, _) := ?e in _] |- _ => destruct e eqn:?
  | H : context [if ?c then _ else _] |- _ => destruct c eqn:?
  | H : (_, _) = (_, _) |- _ => inversion H; subst; clear H
  end; cbn [fst snd k_next k_rend k_maxc k_pnext k_prend] in * ).

(* ---------------------------------------------------------------------------------------------- *)
(* slot level *)

(* a slot is well formed: the assert of TopUpWithDB holds, every counter is a non-negative int32 *)
Definition kwf (k : kp) : Prop :=
  k_maxc k = k_rend k - 1 /\
  0 <= k_next k <= INT32_MAX /\ 0 <= k_rend k <= INT32_MAX /\
  0 <= k_pnext k <= INT32_MAX /\ 0 <= k_prend k <= INT32_MAX.

(* what later states may do to the two bounds that protect handed-out indices *)
Definition mono (k k' : kp) : Prop :=
  k_next k <= k_next k' /\ (k_pnext k' = k_pnext k \/ k_next k <= k_pnext k').

Lemma mono_refl k : mono k k.
Proof. unfold mono; lia. Qed.

Lemma mono_trans a b c : mono a b -> mono b c -> mono a c.
Proof. unfold mono; intros [H1 H2] [H3 H4]; split; [lia|]. destruct H4 as [H4|H4]; [rewrite H4; destruct H2; [left; auto|right; lia]|right; lia]. Qed.

Lemma topup_props size n k o k' r o' :
  topup size n k o = (k', r, o') ->
  k_next k' = k_next k /\
  (k_pnext k' = k_pnext k \/ k_pnext k' = k_next k) /\
  (kwf k -> kwf k' /\ r <> TU_assert) /\
  (fst o = [] -> r = TU_true -> k_pnext k' = k_next k) /\
  (fst o = [] -> r <> TU_false /\ r <> TU_throw).
Proof.
  unfold topup, pop, kwf. intros H.
  destruct o as [bits cnt]; cbn [fst snd] in *.
  destruct bits as [|b0 bits]; cbn [fst snd] in H.
  - brk; b2p; cbn [k_next k_rend k_maxc k_pnext k_prend]; repeat split; intros; try lia; try congruence; auto; try discriminate.
  - destruct b0; cbn [negb] in H.
    + destruct bits as [|b1 bits]; cbn [fst snd] in H.
      * brk; b2p; cbn [k_next k_rend k_maxc k_pnext k_prend]; repeat split; intros; try lia; try congruence; auto; try discriminate.
      * destruct bits as [|b2 bits]; cbn [fst snd] in H;
        brk; b2p; cbn [k_next k_rend k_maxc k_pnext k_prend]; repeat split; intros; try lia; try congruence; auto; try discriminate.
    + brk; repeat split; intros; try lia; try congruence; auto; try discriminate.
Qed.
