(* C62: proofs about the keypool model (model/KeyPool.v). *)
From Coq Require Import ZArith List Bool Lia.
From BV Require Import lib.Ints model.KeyPool.
Import ListNotations.
Open Scope Z_scope.

Ltac b2p := repeat match goal with
  | H : _ || _ = false |- _ => apply orb_false_iff in H; destruct H
  | H : _ && _ = true |- _ => apply andb_true_iff in H; destruct H
  | H : (_ <? _) = true |- _ => apply Z.ltb_lt in H
  | H : (_ <? _) = false |- _ => apply Z.ltb_ge in H
  | H : (_ <=? _) = true |- _ => apply Z.leb_le in H
  | H : (_ <=? _) = false |- _ => apply Z.leb_gt in H
  | H : (_ =? _) = true |- _ => apply Z.eqb_eq in H
  | H : (_ =? _) = false |- _ => apply Z.eqb_neq in H
  | H : negb _ = true |- _ => apply negb_true_iff in H
  | H : negb _ = false |- _ => apply negb_false_iff in H
  end.

Ltac brk := repeat (match goal with
  | H : context [let (_, _) := ?e in _] |- _ => destruct e eqn:?
  | H : context [if ?c then _ else _] |- _ => destruct c eqn:?
  | H : (_, _) = (_, _) |- _ => inversion H; subst; clear H
  end; cbn [fst snd k_next k_rend k_maxc k_pnext k_prend] in * ).

(* ---------------------------------------------------------------------------------------------- *)
(* slot level *)

(* a slot is well formed: the assert of TopUpWithDB holds, every counter is a non-negative int32 *)
Definition kwf (k : kp) : Prop :=
  k_maxc k = k_rend k - 1 /\
  0 <= k_next k <= INT32_MAX /\ 0 <= k_rend k <= INT32_MAX /\
  0 <= k_pnext k <= INT32_MAX /\ 0 <= k_prend k <= INT32_MAX.

(* what later states may do to the two bounds that protect handed-out indices *)
Definition mono (k k' : kp) : Prop :=
  k_next k <= k_next k' /\ (k_pnext k' = k_pnext k \/ k_next k <= k_pnext k').

Lemma mono_refl k : mono k k.
Proof. unfold mono; lia. Qed.

Lemma mono_trans a b c : mono a b -> mono b c -> mono a c.
Proof. unfold mono; intros [H1 H2] [H3 H4]; split; [lia|]. destruct H4 as [H4|H4]; [rewrite H4; destruct H2; [left; auto|right; lia]|right; lia]. Qed.

Lemma topup_props size n k o k' r o' :
  topup size n k o = (k', r, o') ->
  k_next k' = k_next k /\
  (k_pnext k' = k_pnext k \/ k_pnext k' = k_next k) /\
  (kwf k -> kwf k' /\ r <> TU_assert) /\
  (fst o = [] -> r = TU_true -> k_pnext k' = k_next k) /\
  (fst o = [] -> r <> TU_false /\ r <> TU_throw).
Proof.
  unfold topup, pop, kwf. intros H.
  destruct o as [bits cnt]; cbn [fst snd] in *.
  destruct bits as [|b0 bits]; cbn [fst snd] in H.
  - brk; b2p; cbn [k_next k_rend k_maxc k_pnext k_prend]; repeat split; intros; try lia; try congruence; auto; try discriminate.
  - destruct b0; cbn [negb] in H.
    + destruct bits as [|b1 bits]; cbn [fst snd] in H.
      * brk; b2p; cbn [k_next k_rend k_maxc k_pnext k_prend]; repeat split; intros; try lia; try congruence; auto; try discriminate.
      * destruct bits as [|b2 bits]; cbn [fst snd] in H;
        brk; b2p; cbn [k_next k_rend k_maxc k_pnext k_prend]; repeat split; intros; try lia; try congruence; auto; try discriminate.
    + brk; repeat split; intros; try lia; try congruence; auto; try discriminate.
Qed.

Lemma kwf_set_next k n :
  kwf k -> 0 <= n <= INT32_MAX -> kwf (mkKp n (k_rend k) (k_maxc k) (k_pnext k) (k_prend k)).
Proof. unfold kwf; cbn; intros; lia. Qed.

Lemma get_new_props size k o k' r o' :
  get_new size k o = (k', r, o') ->
  mono k k' /\
  (kwf k -> kwf k' /\ r <> GN_assert) /\
  match r with
  | GN_addr i w => i = k_next k /\ k_next k' = i + 1 /\ (w = true -> k_pnext k' = i + 1)
  | _ => True
  end.
Proof.
  unfold get_new. intros H.
  destruct (topup size 0 k o) as [[k1 r1] o1] eqn:T1.
  pose proof (topup_props _ _ _ _ _ _ _ T1) as (N1 & P1 & W1 & _).
  assert (M1 : mono k k1) by (unfold mono; destruct P1; lia).
  destruct (gn_of_tu r1) eqn:G1.
  - inversion H; subst; clear H. split; [exact M1|]. split.
    + intros Hk. destruct (W1 Hk) as [Hk1 Hna]. split; [exact Hk1|]. destruct r1; cbn in G1; inversion G1; subst; congruence.
    + destruct r1; cbn in G1; inversion G1; subst; exact I.
  - destruct (k_rend k1 <=? k_maxc k1) eqn:Hbr.
    + destruct (topup size 1 k1 o1) as [[k2 r2] o2] eqn:T2.
      pose proof (topup_props _ _ _ _ _ _ _ T2) as (N2 & P2 & W2 & _).
      assert (M2 : mono k k2) by (apply (mono_trans _ k1); [exact M1|unfold mono; destruct P2; lia]).
      assert (W12 : kwf k -> kwf k2 /\ r2 <> TU_assert) by (intros Hk; apply W2; apply W1; exact Hk).
      destruct r2.
      * (* TU_true *)
        destruct (INT32_MAX <=? k_next k2) eqn:Hmx.
        { inversion H; subst; clear H. split; [exact M2|]. split; [|exact I]. intros Hk; split; [apply W12; exact Hk|congruence]. }
        destruct (pop o2) as [w o3] eqn:Hp. inversion H; subst; clear H. b2p.
        split.
        { destruct M2 as [Ma Mb]. unfold mono; cbn. split; [lia|]. destruct w; [right; lia|]. destruct Mb; [left; auto|right; lia]. }
        split.
        { intros Hk. destruct (W12 Hk) as [Hk2 _]. split; [|congruence]. unfold kwf in *; cbn. destruct w; lia. }
        cbn. split; [lia|]. split; [lia|]. intros ->. reflexivity.
      * inversion H; subst; clear H. split; [exact M2|]. split; [|exact I]. intros Hk; split; [apply W12; exact Hk|congruence].
      * inversion H; subst; clear H. split; [exact M2|]. split; [|exact I]. intros Hk; split; [apply W12; exact Hk|congruence].
      * inversion H; subst; clear H. split; [exact M2|]. split; [|exact I]. intros Hk. destruct (W12 Hk) as [_ Hna]. congruence.
      * inversion H; subst; clear H. split; [exact M2|]. split; [|exact I]. intros Hk; split; [apply W12; exact Hk|congruence].
    + destruct (INT32_MAX <=? k_next k1) eqn:Hmx.
      { inversion H; subst; clear H. split; [exact M1|]. split; [|exact I]. intros Hk; split; [apply W1; exact Hk|congruence]. }
      destruct (pop o1) as [w o3] eqn:Hp. inversion H; subst; clear H. b2p.
      split.
      { destruct M1 as [Ma Mb]. unfold mono; cbn. split; [lia|]. destruct w; [right; lia|]. destruct Mb; [left; auto|right; lia]. }
      split.
      { intros Hk. destruct (W1 Hk) as [Hk2 _]. split; [|congruence]. unfold kwf in *; cbn. destruct w; lia. }
      cbn. split; [lia|]. split; [lia|]. intros ->. reflexivity.
Qed.

Lemma return_dest_props k idx o k' o' :
  return_dest k idx o = (k', o') ->
  k_next k' = (if k_next k - 1 =? idx then k_next k - 1 else k_next k) /\
  (k_pnext k' = k_pnext k \/ k_pnext k' = k_next k') /\
  (kwf k -> 0 <= idx -> kwf k').
Proof.
  unfold return_dest. intros H. destruct (pop o) as [w o1]. inversion H; subst; clear H. cbn.
  split; [reflexivity|]. split; [destruct w; auto|].
  unfold kwf; cbn. intros Hk Hi. destruct (k_next k - 1 =? idx) eqn:E; b2p; destruct w; lia.
Qed.

Lemma mark_used_props size k idx o k' c r o' :
  mark_used size k idx o = (k', (c, r), o') ->
  mono k k' /\ (kwf k -> kwf k' /\ r <> TU_assert).
Proof.
  unfold mark_used. intros H.
  destruct ((0 <=? idx) && (idx <=? k_maxc k)) eqn:Hin.
  - b2p. destruct (k_next k <=? idx) eqn:Hge; b2p.
    + destruct (topup size 0 _ o) as [[k2 r2] o2] eqn:T. inversion H; subst; clear H.
      pose proof (topup_props _ _ _ _ _ _ _ T) as (N & P & W & _). cbn in N, P.
      split; [unfold mono; destruct P; lia|].
      intros Hk. apply W. unfold kwf in *; cbn. lia.
    + destruct (topup size 0 k o) as [[k2 r2] o2] eqn:T. inversion H; subst; clear H.
      pose proof (topup_props _ _ _ _ _ _ _ T) as (N & P & W & _).
      split; [unfold mono; destruct P; lia|exact W].
  - inversion H; subst; clear H. split; [apply mono_refl|]. intros Hk; split; [exact Hk|congruence].
Qed.

Lemma load_slot_props size k :
  kwf k -> kwf (load_slot size k) /\ k_next (load_slot size k) = k_pnext k /\ k_pnext (load_slot size k) = k_pnext k.
Proof.
  intros Hk. unfold load_slot.
  set (k0 := mkKp (k_pnext k) (k_prend k) (if 0 <? k_prend k then k_prend k - 1 else -1) (k_pnext k) (k_prend k)).
  assert (Hk0 : kwf k0).
  { unfold kwf in *; subst k0; cbn. destruct (0 <? k_prend k) eqn:E; b2p; lia. }
  destruct (topup size 0 k0 ([], 0%nat)) as [[k1 r] o1] eqn:T.
  pose proof (topup_props _ _ _ _ _ _ _ T) as (N & P & W & F & _).
  destruct r; try (split; [exact Hk0|split; reflexivity]).
  destruct (W Hk0) as [Hk1 _]. split; [exact Hk1|]. split; [rewrite N; reflexivity|]. rewrite (F eq_refl eq_refl). reflexivity.
Qed.

Lemma load_slot_next size k :
  k_next (load_slot size k) = k_pnext k /\ k_pnext (load_slot size k) = k_pnext k.
Proof.
  unfold load_slot.
  set (k0 := mkKp (k_pnext k) (k_prend k) (if 0 <? k_prend k then k_prend k - 1 else -1) (k_pnext k) (k_prend k)).
  destruct (topup size 0 k0 ([], 0%nat)) as [[k1 r] o1] eqn:T.
  pose proof (topup_props _ _ _ _ _ _ _ T) as (N & P & W & F & _).
  destruct r; try (split; reflexivity).
  split; [rewrite N; reflexivity|]. rewrite (F eq_refl eq_refl). reflexivity.
Qed.

(* ---------------------------------------------------------------------------------------------- *)
(* reservation list *)

Lemma find_res_in id l v : find_res id l = Some v -> In (id, v) l.
Proof.
  induction l as [|[i w] r IH]; cbn; [discriminate|].
  destruct (Nat.eqb i id) eqn:E.
  - intros H; inversion H; subst. apply Nat.eqb_eq in E; subst. left; reflexivity.
  - intros H; right; apply IH; exact H.
Qed.

Lemma remove_res_in id l x : In x (remove_res id l) -> In x l.
Proof.
  induction l as [|[i w] r IH]; cbn; [tauto|].
  destruct (Nat.eqb i id); cbn; [tauto|]. intros [H|H]; [left; exact H|right; apply IH; exact H].
Qed.

Lemma remove_res_nodup id l v :
  NoDup (map snd l) -> find_res id l = Some v ->
  NoDup (map snd (remove_res id l)) /\ ~ In v (map snd (remove_res id l)).
Proof.
  induction l as [|[i w] r IH]; cbn; [discriminate|].
  intros Hnd. inversion Hnd as [|a b Hni Hnd']; subst.
  destruct (Nat.eqb i id) eqn:E.
  - intros H; inversion H; subst. split; assumption.
  - intros H. destruct (IH Hnd' H) as [A B]. cbn. split.
    + constructor; [|exact A]. intros Hc. apply Hni. apply in_map_iff in Hc. destruct Hc as [x [Hx Hin]].
      apply in_map_iff. exists x. split; [exact Hx|]. eapply remove_res_in; exact Hin.
    + intros [Hc|Hc]; [|exact (B Hc)]. subst. apply Hni. apply in_map_iff. exists (id, v). split; [reflexivity|]. apply find_res_in; exact H.
Qed.

(* ---------------------------------------------------------------------------------------------- *)
(* wallet level: well-formedness (any faults) *)

Lemma upd_same f s k : upd f s k s = k.
Proof. unfold upd. rewrite Nat.eqb_refl. reflexivity. Qed.
Lemma upd_other f s k s' : s' <> s -> upd f s k s' = f s'.
Proof. unfold upd. intros H. destruct (Nat.eqb s' s) eqn:E; [apply Nat.eqb_eq in E; contradiction|reflexivity]. Qed.

Definition wf (st : wst) : Prop :=
  (forall s, kwf (w_kp st s)) /\ (forall id s i, In (id, (s, i)) (w_res st) -> 0 <= i).

Lemma upd_kwf f s k : (forall s', kwf (f s')) -> kwf k -> forall s', kwf (upd f s k s').
Proof.
  intros Hf Hk s'. destruct (Nat.eq_dec s' s) as [->|Hne]; [rewrite upd_same; exact Hk|rewrite upd_other by exact Hne; apply Hf].
Qed.

Lemma return_all_kwf l : forall f,
  (forall s, kwf (f s)) -> (forall id s i, In (id, (s, i)) l -> 0 <= i) -> forall s, kwf (return_all f l s).
Proof.
  induction l as [|[id [s i]] r IH]; intros f Hf Hl; cbn; [exact Hf|].
  apply IH.
  - destruct (return_dest (f s) i ([], 0%nat)) as [k' o'] eqn:R. cbn.
    pose proof (return_dest_props _ _ _ _ _ R) as (_ & _ & W).
    apply upd_kwf; [exact Hf|]. apply W; [apply Hf|]. eapply Hl; left; reflexivity.
  - intros id0 s0 i0 Hin. eapply Hl; right; exact Hin.
Qed.

Lemma step_size st o st' x : step st o = (st', x) -> w_size st' = w_size st.
Proof.
  destruct o; cbn; intros H;
  repeat match goal with
  | H : context [let '(_, _) := ?e in _] |- _ => destruct e as [[? ?] ?] eqn:?
  | H : context [match find_res ?a ?b with _ => _ end] |- _ => destruct (find_res a b) as [[? ?]|] eqn:?
  end; try (inversion H; subst; reflexivity).
  - destruct p. inversion H; subst; reflexivity.
  - destruct (return_dest (w_kp st n0) z (bits, 0%nat)). inversion H; subst; reflexivity.
Qed.

Lemma step_wf st o st' x : wf st -> step st o = (st', x) -> wf st' /\ x <> OAssert.
Proof.
  intros [Hk Hr] H. destruct o; cbn in H.
  - (* OpNew *)
    destruct (get_new (w_size st) (w_kp st s) (bits, 0%nat)) as [[k r] orc] eqn:G. inversion H; subst; clear H.
    pose proof (get_new_props _ _ _ _ _ _ G) as (_ & W & _). destruct (W (Hk s)) as [Wk Hna].
    split; [split; cbn; [apply upd_kwf; assumption|exact Hr]|]. destruct r; cbn; congruence.
  - destruct (get_new (w_size st) (w_kp st s) (bits, 0%nat)) as [[k r] orc] eqn:G. inversion H; subst; clear H.
    pose proof (get_new_props _ _ _ _ _ _ G) as (_ & W & _). destruct (W (Hk s)) as [Wk Hna].
    split; [split; cbn; [apply upd_kwf; assumption|exact Hr]|]. destruct r; cbn; congruence.
  - (* OpRes *)
    destruct (find_res id (w_res st)) eqn:F.
    { inversion H; subst. split; [split; assumption|congruence]. }
    destruct (get_new (w_size st) (w_kp st s) (bits, 0%nat)) as [[k r] orc] eqn:G. inversion H; subst; clear H.
    pose proof (get_new_props _ _ _ _ _ _ G) as (_ & W & P). destruct (W (Hk s)) as [Wk Hna].
    split; [split; cbn; [apply upd_kwf; assumption|]|destruct r; cbn; congruence].
    intros id0 s0 i0 Hin. destruct r; try (eapply Hr; exact Hin).
    destruct Hin as [Hin|Hin]; [|eapply Hr; exact Hin]. inversion Hin; subst. destruct P as [-> _]. destruct (Hk s0) as (_ & ? & _). lia.
  - (* OpKeep *)
    destruct (find_res id (w_res st)) as [[s i]|] eqn:F; inversion H; subst; clear H.
    + split; [split; cbn; [exact Hk|]|congruence]. intros id0 s0 i0 Hin. eapply Hr. eapply remove_res_in; exact Hin.
    + split; [split; assumption|congruence].
  - (* OpRet *)
    destruct (find_res id (w_res st)) as [[s i]|] eqn:F.
    + destruct (return_dest (w_kp st s) i (bits, 0%nat)) as [k orc] eqn:R. inversion H; subst; clear H.
      pose proof (return_dest_props _ _ _ _ _ R) as (_ & _ & W).
      split; [split; cbn|congruence].
      * apply upd_kwf; [exact Hk|]. apply W; [apply Hk|]. eapply Hr. apply find_res_in; exact F.
      * intros id0 s0 i0 Hin. eapply Hr. eapply remove_res_in; exact Hin.
    + inversion H; subst. split; [split; assumption|congruence].
  - (* OpTop *)
    destruct (topup (w_size st) n (w_kp st s) (bits, 0%nat)) as [[k r] orc] eqn:T. inversion H; subst; clear H.
    pose proof (topup_props _ _ _ _ _ _ _ T) as (_ & _ & W & _). destruct (W (Hk s)) as [Wk Hna].
    split; [split; cbn; [apply upd_kwf; assumption|exact Hr]|]. destruct r; cbn; congruence.
  - (* OpUsed *)
    destruct (mark_used (w_size st) (w_kp st s) idx (bits, 0%nat)) as [[k [c r]] orc] eqn:M. inversion H; subst; clear H.
    pose proof (mark_used_props _ _ _ _ _ _ _ _ M) as (_ & W). destruct (W (Hk s)) as [Wk Hna].
    split; [split; cbn; [apply upd_kwf; assumption|exact Hr]|]. destruct r; cbn; congruence.
  - (* OpReload *)
    inversion H; subst; clear H. split; [|congruence]. split; cbn; [|tauto].
    intros s. apply load_slot_props. apply return_all_kwf; assumption.
  - inversion H; subst; clear H. split; [|congruence]. split; cbn; [|tauto].
    intros s. apply load_slot_props. apply Hk.
Qed.
