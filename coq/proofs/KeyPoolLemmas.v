(* C62: proofs about the keypool model (model/KeyPool.v). *)
From Coq Require Import ZArith List Bool Lia FinFun.
From BV Require Import lib.Ints model.KeyPool.
Import ListNotations.
Open Scope Z_scope.

Ltac b2p := repeat match goal with
  | H : _ || _ = false |- _ => apply orb_false_iff in H; destruct H
  | H : _ && _ = true |- _ => apply andb_true_iff in H; destruct H
  | H : (_ <? _) = true |- _ => apply Z.ltb_lt in H
  | H : (_ <? _) = false |- _ => apply Z.ltb_ge in H
  | H : (_ <=? _) = true |- _ => apply Z.leb_le in H
  | H : (_ <=? _) = false |- _ => apply Z.leb_gt in H
  | H : (_ =? _) = true |- _ => apply Z.eqb_eq in H
  | H : (_ =? _) = false |- _ => apply Z.eqb_neq in H
  | H : negb _ = true |- _ => apply negb_true_iff in H
  | H : negb _ = false |- _ => apply negb_false_iff in H
  end.

Ltac brk := repeat (match goal with
  | H : context [let (_, _) := ?e in _] |- _ => destruct e eqn:?
  | H : context [if ?c then _ else _] |- _ => destruct c eqn:?
  | H : (_, _) = (_, _) |- _ => inversion H; subst; clear H
  end; cbn [fst snd k_next k_rend k_maxc k_pnext k_prend] in * ).

(* ---------------------------------------------------------------------------------------------- *)
(* slot level *)

(* a slot is well formed: the assert of TopUpWithDB holds, every counter is a non-negative int32 *)
Definition kwf (k : kp) : Prop :=
  k_maxc k = k_rend k - 1 /\
  0 <= k_next k <= INT32_MAX /\ 0 <= k_rend k <= INT32_MAX /\
  0 <= k_pnext k <= INT32_MAX /\ 0 <= k_prend k <= INT32_MAX.

(* what later states may do to the two bounds that protect handed-out indices *)
Definition mono (k k' : kp) : Prop :=
  k_next k <= k_next k' /\ (k_pnext k' = k_pnext k \/ k_next k <= k_pnext k').

Lemma mono_refl k : mono k k.
Proof. unfold mono; lia. Qed.

Lemma mono_trans a b c : mono a b -> mono b c -> mono a c.
Proof. unfold mono; intros [H1 H2] [H3 H4]; split; [lia|]. destruct H4 as [H4|H4]; [rewrite H4; destruct H2; [left; auto|right; lia]|right; lia]. Qed.

Lemma topup_props size n k o k' r o' :
  topup size n k o = (k', r, o') ->
  k_next k' = k_next k /\
  (k_pnext k' = k_pnext k \/ k_pnext k' = k_next k) /\
  (kwf k -> kwf k' /\ r <> TU_assert) /\
  (fst o = [] -> r = TU_true -> k_pnext k' = k_next k) /\
  (fst o = [] -> r <> TU_false /\ r <> TU_throw).
Proof.
  unfold topup, pop, kwf. intros H.
  destruct o as [bits cnt]; cbn [fst snd] in *.
  destruct bits as [|b0 bits]; cbn [fst snd] in H.
  - brk; b2p; cbn [k_next k_rend k_maxc k_pnext k_prend]; repeat split; intros; try lia; try congruence; auto; try discriminate.
  - destruct b0; cbn [negb] in H.
    + destruct bits as [|b1 bits]; cbn [fst snd] in H.
      * brk; b2p; cbn [k_next k_rend k_maxc k_pnext k_prend]; repeat split; intros; try lia; try congruence; auto; try discriminate.
      * destruct bits as [|b2 bits]; cbn [fst snd] in H;
        brk; b2p; cbn [k_next k_rend k_maxc k_pnext k_prend]; repeat split; intros; try lia; try congruence; auto; try discriminate.
    + brk; repeat split; intros; try lia; try congruence; auto; try discriminate.
Qed.

Lemma kwf_set_next k n :
  kwf k -> 0 <= n <= INT32_MAX -> kwf (mkKp n (k_rend k) (k_maxc k) (k_pnext k) (k_prend k)).
Proof. unfold kwf; cbn; intros; lia. Qed.

Lemma get_new_props size k o k' r o' :
  get_new size k o = (k', r, o') ->
  mono k k' /\
  (kwf k -> kwf k' /\ r <> GN_assert /\ r <> GN_out) /\
  match r with
  | GN_addr i m => i = k_next k /\ k_next k' = i + 1 /\ k_pnext k' = i + 1 /\ m = (i <=? k_maxc k')
  | _ => True
  end.
Proof.
  unfold get_new, get_new_gen. intros H.
  destruct (topup size 0 k o) as [[k1 r1] o1] eqn:T1.
  pose proof (topup_props _ _ _ _ _ _ _ T1) as (N1 & P1 & W1 & _).
  assert (M1 : mono k k1) by (unfold mono; destruct P1; lia).
  destruct (gn_of_tu r1) eqn:G1.
  - inversion H; subst; clear H. split; [exact M1|]. split.
    + intros Hk. destruct (W1 Hk) as [Hk1 Hna]. split; [exact Hk1|]. destruct r1; cbn in G1; inversion G1; subst; split; congruence.
    + destruct r1; cbn in G1; inversion G1; subst; exact I.
  - destruct (k_rend k1 <=? k_maxc k1) eqn:Hbr.
    + destruct (topup size 1 k1 o1) as [[k2 r2] o2] eqn:T2.
      pose proof (topup_props _ _ _ _ _ _ _ T2) as (N2 & P2 & W2 & _).
      assert (M2 : mono k k2) by (apply (mono_trans _ k1); [exact M1|unfold mono; destruct P2; lia]).
      assert (W12 : kwf k -> False).
      { intros Hk. destruct (W1 Hk) as [Hk1 _]. unfold kwf in Hk1. b2p. lia. }
      destruct r2.
      * destruct (INT32_MAX <=? k_next k2) eqn:Hmx.
        { inversion H; subst; clear H. split; [exact M2|]. split; [|exact I]. intros Hk; destruct (W12 Hk). }
        destruct (pop o2) as [w o3] eqn:Hp. destruct w; inversion H; subst; clear H; b2p.
        { split; [destruct M2 as [Ma Mb]; unfold mono; cbn; split; [lia|right; lia]|].
          split; [intros Hk; destruct (W12 Hk)|]. cbn. repeat split; lia. }
        { split; [exact M2|]. split; [|exact I]. intros Hk; destruct (W12 Hk). }
      * inversion H; subst; clear H. split; [exact M2|]. split; [|exact I]. intros Hk; destruct (W12 Hk).
      * inversion H; subst; clear H. split; [exact M2|]. split; [|exact I]. intros Hk; destruct (W12 Hk).
      * inversion H; subst; clear H. split; [exact M2|]. split; [|exact I]. intros Hk; destruct (W12 Hk).
      * inversion H; subst; clear H. split; [exact M2|]. split; [|exact I]. intros Hk; destruct (W12 Hk).
    + destruct (INT32_MAX <=? k_next k1) eqn:Hmx.
      { inversion H; subst; clear H. split; [exact M1|]. split; [|exact I]. intros Hk; split; [apply W1; exact Hk|split; congruence]. }
      destruct (pop o1) as [w o3] eqn:Hp. destruct w; inversion H; subst; clear H; b2p.
      { split; [destruct M1 as [Ma Mb]; unfold mono; cbn; split; [lia|right; lia]|].
        split.
        { intros Hk. destruct (W1 Hk) as [Hk2 _]. split; [|split; congruence]. unfold kwf in *; cbn. lia. }
        cbn. repeat split; lia. }
      { split; [exact M1|]. split; [|exact I]. intros Hk; split; [apply W1; exact Hk|split; congruence]. }
Qed.

Lemma return_dest_props k idx o k' o' :
  return_dest k idx o = (k', o') ->
  k_next k' = (if k_next k - 1 =? idx then k_next k - 1 else k_next k) /\
  (k_pnext k' = k_pnext k \/ k_pnext k' = k_next k') /\
  (kwf k -> 0 <= idx -> kwf k').
Proof.
  unfold return_dest. intros H. destruct (pop o) as [w o1]. inversion H; subst; clear H. cbn.
  split; [reflexivity|]. split; [destruct w; auto|].
  unfold kwf; cbn. intros Hk Hi. destruct (k_next k - 1 =? idx) eqn:E; b2p; destruct w; lia.
Qed.

Lemma mark_used_props size k idx o k' c r o' :
  mark_used size k idx o = (k', (c, r), o') ->
  mono k k' /\ (kwf k -> kwf k' /\ r <> TU_assert).
Proof.
  unfold mark_used. intros H.
  destruct ((0 <=? idx) && (idx <=? k_maxc k)) eqn:Hin.
  - b2p. destruct (k_next k <=? idx) eqn:Hge; b2p.
    + destruct (topup size 0 _ o) as [[k2 r2] o2] eqn:T. inversion H; subst; clear H.
      pose proof (topup_props _ _ _ _ _ _ _ T) as (N & P & W & _). cbn in N, P.
      split; [unfold mono; destruct P; lia|].
      intros Hk. apply W. unfold kwf in *; cbn. lia.
    + destruct (topup size 0 k o) as [[k2 r2] o2] eqn:T. inversion H; subst; clear H.
      pose proof (topup_props _ _ _ _ _ _ _ T) as (N & P & W & _).
      split; [unfold mono; destruct P; lia|exact W].
  - inversion H; subst; clear H. split; [apply mono_refl|]. intros Hk; split; [exact Hk|congruence].
Qed.

Lemma load_slot_props size k :
  kwf k -> kwf (load_slot size k) /\ k_next (load_slot size k) = k_pnext k /\ k_pnext (load_slot size k) = k_pnext k.
Proof.
  intros Hk. unfold load_slot.
  set (k0 := mkKp (k_pnext k) (k_prend k) (if 0 <? k_prend k then k_prend k - 1 else -1) (k_pnext k) (k_prend k)).
  assert (Hk0 : kwf k0).
  { unfold kwf in *; subst k0; cbn. destruct (0 <? k_prend k) eqn:E; b2p; lia. }
  destruct (topup size 0 k0 ([], 0%nat)) as [[k1 r] o1] eqn:T.
  pose proof (topup_props _ _ _ _ _ _ _ T) as (N & P & W & F & _).
  destruct r; try (split; [exact Hk0|split; reflexivity]).
  destruct (W Hk0) as [Hk1 _]. split; [exact Hk1|]. split; [rewrite N; reflexivity|]. rewrite (F eq_refl eq_refl). reflexivity.
Qed.

Lemma load_slot_next size k :
  k_next (load_slot size k) = k_pnext k /\ k_pnext (load_slot size k) = k_pnext k.
Proof.
  unfold load_slot.
  set (k0 := mkKp (k_pnext k) (k_prend k) (if 0 <? k_prend k then k_prend k - 1 else -1) (k_pnext k) (k_prend k)).
  destruct (topup size 0 k0 ([], 0%nat)) as [[k1 r] o1] eqn:T.
  pose proof (topup_props _ _ _ _ _ _ _ T) as (N & P & W & F & _).
  destruct r; try (split; reflexivity).
  split; [rewrite N; reflexivity|]. rewrite (F eq_refl eq_refl). reflexivity.
Qed.

(* ---------------------------------------------------------------------------------------------- *)
(* reservation list *)

Lemma find_res_in id l v : find_res id l = Some v -> In (id, v) l.
Proof.
  induction l as [|[i w] r IH]; cbn; [discriminate|].
  destruct (Nat.eqb i id) eqn:E.
  - intros H; inversion H; subst. apply Nat.eqb_eq in E; subst. left; reflexivity.
  - intros H; right; apply IH; exact H.
Qed.

Lemma remove_res_in id l x : In x (remove_res id l) -> In x l.
Proof.
  induction l as [|[i w] r IH]; cbn; [tauto|].
  destruct (Nat.eqb i id); cbn; [tauto|]. intros [H|H]; [left; exact H|right; apply IH; exact H].
Qed.

Lemma remove_res_nodup id l v :
  NoDup (map snd l) -> find_res id l = Some v ->
  NoDup (map snd (remove_res id l)) /\ ~ In v (map snd (remove_res id l)).
Proof.
  induction l as [|[i w] r IH]; cbn; [discriminate|].
  intros Hnd. inversion Hnd as [|a b Hni Hnd']; subst.
  destruct (Nat.eqb i id) eqn:E.
  - intros H; inversion H; subst. split; assumption.
  - intros H. destruct (IH Hnd' H) as [A B]. cbn. split.
    + constructor; [|exact A]. intros Hc. apply Hni. apply in_map_iff in Hc. destruct Hc as [x [Hx Hin]].
      apply in_map_iff. exists x. split; [exact Hx|]. eapply remove_res_in; exact Hin.
    + intros [Hc|Hc]; [|exact (B Hc)]. subst. apply Hni. apply in_map_iff. exists (id, v). split; [reflexivity|]. apply find_res_in; exact H.
Qed.

(* ---------------------------------------------------------------------------------------------- *)
(* wallet level: well-formedness (any faults) *)

Lemma upd_same f s k : upd f s k s = k.
Proof. unfold upd. rewrite Nat.eqb_refl. reflexivity. Qed.
Lemma upd_other f s k s' : s' <> s -> upd f s k s' = f s'.
Proof. unfold upd. intros H. destruct (Nat.eqb s' s) eqn:E; [apply Nat.eqb_eq in E; contradiction|reflexivity]. Qed.

Definition wf (st : wst) : Prop :=
  (forall s, kwf (w_kp st s)) /\ (forall id s i, In (id, (s, i)) (w_res st) -> 0 <= i).

Lemma upd_kwf f s k : (forall s', kwf (f s')) -> kwf k -> forall s', kwf (upd f s k s').
Proof.
  intros Hf Hk s'. destruct (Nat.eq_dec s' s) as [->|Hne]; [rewrite upd_same; exact Hk|rewrite upd_other by exact Hne; apply Hf].
Qed.

Lemma return_all_kwf l : forall f,
  (forall s, kwf (f s)) -> (forall id s i, In (id, (s, i)) l -> 0 <= i) -> forall s, kwf (return_all f l s).
Proof.
  induction l as [|[id [s i]] r IH]; intros f Hf Hl; cbn [return_all]; [exact Hf|].
  apply IH.
  - destruct (return_dest (f s) i ([], 0%nat)) as [k' o'] eqn:R. cbn [fst].
    pose proof (return_dest_props _ _ _ _ _ R) as (_ & _ & W).
    apply upd_kwf; [exact Hf|]. apply W; [apply Hf|]. eapply Hl; left; reflexivity.
  - intros id0 s0 i0 Hin. eapply Hl; right; exact Hin.
Qed.

Lemma step_size st o st' x : step st o = (st', x) -> w_size st' = w_size st.
Proof.
  destruct o; cbn; intros H.
  - destruct (get_new _ _ _) as [[? ?] ?]. inversion H; reflexivity.
  - destruct (get_new _ _ _) as [[? ?] ?]. inversion H; reflexivity.
  - destruct (find_res _ _); [inversion H; reflexivity|]. destruct (get_new _ _ _) as [[? ?] ?]. inversion H; reflexivity.
  - destruct (find_res _ _) as [[? ?]|]; inversion H; reflexivity.
  - destruct (find_res _ _) as [[? ?]|]; [|inversion H; reflexivity]. destruct (return_dest _ _ _). inversion H; reflexivity.
  - destruct (topup _ _ _ _) as [[? ?] ?]. inversion H; reflexivity.
  - destruct (mark_used _ _ _ _) as [[? [? ?]] ?]. inversion H; reflexivity.
  - inversion H; reflexivity.
  - inversion H; reflexivity.
Qed.

Lemma step_wf st o st' x : wf st -> step st o = (st', x) -> wf st' /\ x <> OAssert.
Proof.
  intros [Hk Hr] H. destruct o; cbn in H.
  - (* OpNew *)
    destruct (get_new (w_size st) (w_kp st s) (bits, 0%nat)) as [[k r] orc] eqn:G. inversion H; subst; clear H.
    pose proof (get_new_props _ _ _ _ _ _ G) as (_ & W & _). destruct (W (Hk s)) as (Wk & Hna & _).
    split; [split; cbn; [apply upd_kwf; assumption|exact Hr]|]. destruct r; cbn; congruence.
  - destruct (get_new (w_size st) (w_kp st s) (bits, 0%nat)) as [[k r] orc] eqn:G. inversion H; subst; clear H.
    pose proof (get_new_props _ _ _ _ _ _ G) as (_ & W & _). destruct (W (Hk s)) as (Wk & Hna & _).
    split; [split; cbn; [apply upd_kwf; assumption|exact Hr]|]. destruct r; cbn; congruence.
  - (* OpRes *)
    destruct (find_res id (w_res st)) eqn:F.
    { inversion H; subst. split; [split; assumption|congruence]. }
    destruct (get_new (w_size st) (w_kp st s) (bits, 0%nat)) as [[k r] orc] eqn:G. inversion H; subst; clear H.
    pose proof (get_new_props _ _ _ _ _ _ G) as (_ & W & P). destruct (W (Hk s)) as (Wk & Hna & _).
    split; [split; cbn; [apply upd_kwf; assumption|]|destruct r; cbn; congruence].
    intros id0 s0 i0 Hin. destruct r; try (eapply Hr; exact Hin).
    destruct Hin as [Hin|Hin]; [|eapply Hr; exact Hin]. inversion Hin; subst. destruct P as [-> _]. destruct (Hk s0) as (_ & ? & _). lia.
  - (* OpKeep *)
    destruct (find_res id (w_res st)) as [[s i]|] eqn:F; inversion H; subst; clear H.
    + split; [split; cbn; [exact Hk|]|congruence]. intros id0 s0 i0 Hin. eapply Hr. eapply remove_res_in; exact Hin.
    + split; [split; assumption|congruence].
  - (* OpRet *)
    destruct (find_res id (w_res st)) as [[s i]|] eqn:F.
    + destruct (return_dest (w_kp st s) i (bits, 0%nat)) as [k orc] eqn:R. inversion H; subst; clear H.
      pose proof (return_dest_props _ _ _ _ _ R) as (_ & _ & W).
      split; [split; cbn|congruence].
      * apply upd_kwf; [exact Hk|]. apply W; [apply Hk|]. eapply Hr. apply find_res_in; exact F.
      * intros id0 s0 i0 Hin. eapply Hr. eapply remove_res_in; exact Hin.
    + inversion H; subst. split; [split; assumption|congruence].
  - (* OpTop *)
    destruct (topup (w_size st) n (w_kp st s) (bits, 0%nat)) as [[k r] orc] eqn:T. inversion H; subst; clear H.
    pose proof (topup_props _ _ _ _ _ _ _ T) as (_ & _ & W & _). destruct (W (Hk s)) as [Wk Hna].
    split; [split; cbn; [apply upd_kwf; assumption|exact Hr]|]. destruct r; cbn; congruence.
  - (* OpUsed *)
    destruct (mark_used (w_size st) (w_kp st s) idx (bits, 0%nat)) as [[k [c r]] orc] eqn:M. inversion H; subst; clear H.
    pose proof (mark_used_props _ _ _ _ _ _ _ _ M) as (_ & W). destruct (W (Hk s)) as [Wk Hna].
    split; [split; cbn; [apply upd_kwf; assumption|exact Hr]|]. destruct r; cbn; congruence.
  - (* OpReload *)
    inversion H; subst; clear H. split; [|congruence]. split; cbn; [|tauto].
    intros s. apply load_slot_props. apply return_all_kwf; assumption.
  - inversion H; subst; clear H. split; [|congruence]. split; cbn; [|tauto].
    intros s. apply load_slot_props. apply Hk.
Qed.

(* ---------------------------------------------------------------------------------------------- *)
(* wallet level: the invariant that makes reloading safe (any faults, any reloads and crashes) *)

(* index i of a descriptor is protected: neither this session nor a later one (which starts from the database record)
   will issue it again *)
Definition blw (k : kp) (i : Z) : Prop := i < k_next k /\ i < k_pnext k.

Lemma blw_mono k k' i : mono k k' -> blw k i -> blw k' i.
Proof. unfold mono, blw. intros [A B] [C D]. split; [lia|]. destruct B as [B|B]; [rewrite B; exact D|lia]. Qed.

Lemma blw_upd_mono f s k' s0 i0 : mono (f s) k' -> blw (f s0) i0 -> blw (upd f s k' s0) i0.
Proof.
  intros M B. destruct (Nat.eq_dec s0 s) as [->|Hne]; [rewrite upd_same; eapply blw_mono; eassumption|rewrite upd_other by exact Hne; exact B].
Qed.

Lemma ret_blw k idx o k' o' i0 : return_dest k idx o = (k', o') -> blw k i0 -> i0 <> idx -> blw k' i0.
Proof.
  intros R [A B] Hne. pose proof (return_dest_props _ _ _ _ _ R) as (N & P & _).
  assert (A' : i0 < k_next k') by (rewrite N; destruct (k_next k - 1 =? idx) eqn:E; b2p; lia).
  split; [exact A'|]. destruct P as [P|P]; rewrite P; assumption.
Qed.

Record inv (st : wst) (h : list (nat * Z)) : Prop := mkInv {
  inv_h : forall s i, In (s, i) h -> blw (w_kp st s) i;
  inv_r : forall id s i, In (id, (s, i)) (w_res st) -> blw (w_kp st s) i /\ ~ In (s, i) h;
  inv_rd : NoDup (map snd (w_res st));
  inv_nd : NoDup h }.

Lemma NoDup_snoc {A} (l : list A) x : NoDup l -> ~ In x l -> NoDup (l ++ [x]).
Proof.
  induction l as [|a r IH]; cbn; intros Hnd Hni; [constructor; [tauto|constructor]|].
  inversion Hnd; subst. constructor.
  - intros Hc. apply in_app_or in Hc. destruct Hc as [Hc|[Hc|[]]]; [contradiction|subst; apply Hni; left; reflexivity].
  - apply IH; [assumption|tauto].
Qed.

Lemma issue_common st h s bits k r orc :
  inv st h -> get_new (w_size st) (w_kp st s) (bits, 0%nat) = (k, r, orc) ->
  (forall s0 i0, In (s0, i0) h -> blw (upd (w_kp st) s k s0) i0) /\
  (forall id s0 i0, In (id, (s0, i0)) (w_res st) -> blw (upd (w_kp st) s k s0) i0) /\
  match r with
  | GN_addr i m => blw k i /\ ~ In (s, i) h /\ ~ In (s, i) (map snd (w_res st))
  | _ => True
  end.
Proof.
  intros I G. pose proof (get_new_props _ _ _ _ _ _ G) as (M & _ & P).
  split; [intros s0 i0 Hin; apply blw_upd_mono; [exact M|eapply inv_h; eassumption]|].
  split; [intros id s0 i0 Hin; apply blw_upd_mono; [exact M|eapply inv_r; eassumption]|].
  destruct r; try exact I0; try exact Logic.I.
  destruct P as (Hi & Hn & Hp & _). split; [unfold blw; lia|]. split.
  - intros Hc. destruct (inv_h _ _ I _ _ Hc) as [A _]. lia.
  - intros Hc. apply in_map_iff in Hc. destruct Hc as [[id [s0 i0]] [E Hin]]. cbn in E. inversion E; subst.
    destruct (inv_r _ _ I _ _ _ Hin) as [[A _] _]. lia.
Qed.

Lemma return_all_blw l : forall f (others : list (nat * Z)),
  (forall s i, In (s, i) others -> blw (f s) i /\ ~ In (s, i) (map snd l)) ->
  NoDup (map snd l) ->
  forall s i, In (s, i) others -> blw (return_all f l s) i.
Proof.
  induction l as [|[id [s1 i1]] r IH]; intros f others Ho Hnd s i Hin; cbn [return_all]; [apply Ho; exact Hin|].
  inversion Hnd as [|a b Hni Hnd']; subst.
  destruct (return_dest (f s1) i1 ([], 0%nat)) as [k' o'] eqn:R. cbn [fst].
  apply (IH _ others); [|exact Hnd'|exact Hin].
  intros s0 i0 Hin0. destruct (Ho _ _ Hin0) as [B Hn]. split.
  - destruct (Nat.eq_dec s0 s1) as [->|Hne]; [rewrite upd_same|rewrite upd_other by exact Hne; exact B].
    eapply ret_blw; [exact R|exact B|]. intros ->. apply Hn. left; reflexivity.
  - intros Hc. apply Hn. right; exact Hc.
Qed.

Lemma step_inv st h o st' x : inv st h -> step st o = (st', x) -> inv st' (h ++ handed_of x).
Proof.
  intros I H. destruct o; cbn [step] in H.
  - (* OpNew *)
    destruct (get_new (w_size st) (w_kp st s) (bits, 0%nat)) as [[k r] orc] eqn:G. inversion H; subst; clear H.
    pose proof (issue_common _ _ _ _ _ _ _ I G) as (A & B & C).
    destruct r; cbn [gn_out handed_of]; try (rewrite app_nil_r; constructor; cbn [w_kp w_res];
      [exact A|intros id s0 i0 Hin; split; [eapply B; exact Hin|eapply inv_r; eassumption]|eapply inv_rd; eassumption|eapply inv_nd; eassumption]).
    destruct C as (C1 & C2 & C3). constructor; cbn [w_kp w_res].
    + intros s0 i0 Hin. apply in_app_or in Hin. destruct Hin as [Hin|[Hin|[]]]; [apply A; exact Hin|]. inversion Hin; subst. rewrite upd_same. exact C1.
    + intros id s0 i0 Hin. split; [eapply B; exact Hin|]. intros Hc. apply in_app_or in Hc. destruct Hc as [Hc|[Hc|[]]].
      * eapply inv_r; eassumption.
      * inversion Hc; subst. apply C3. apply in_map_iff. exists (id, (s0, i0)). split; [reflexivity|exact Hin].
    + eapply inv_rd; eassumption.
    + apply NoDup_snoc; [eapply inv_nd; eassumption|exact C2].
  - (* OpChg *)
    destruct (get_new (w_size st) (w_kp st s) (bits, 0%nat)) as [[k r] orc] eqn:G. inversion H; subst; clear H.
    pose proof (issue_common _ _ _ _ _ _ _ I G) as (A & B & C).
    destruct r; cbn [gn_out handed_of]; try (rewrite app_nil_r; constructor; cbn [w_kp w_res];
      [exact A|intros id s0 i0 Hin; split; [eapply B; exact Hin|eapply inv_r; eassumption]|eapply inv_rd; eassumption|eapply inv_nd; eassumption]).
    destruct C as (C1 & C2 & C3). constructor; cbn [w_kp w_res].
    + intros s0 i0 Hin. apply in_app_or in Hin. destruct Hin as [Hin|[Hin|[]]]; [apply A; exact Hin|]. inversion Hin; subst. rewrite upd_same. exact C1.
    + intros id s0 i0 Hin. split; [eapply B; exact Hin|]. intros Hc. apply in_app_or in Hc. destruct Hc as [Hc|[Hc|[]]].
      * eapply inv_r; eassumption.
      * inversion Hc; subst. apply C3. apply in_map_iff. exists (id, (s0, i0)). split; [reflexivity|exact Hin].
    + eapply inv_rd; eassumption.
    + apply NoDup_snoc; [eapply inv_nd; eassumption|exact C2].
  - (* OpRes *)
    destruct (find_res id (w_res st)) eqn:F.
    { inversion H; subst. cbn [handed_of]. rewrite app_nil_r. exact I. }
    destruct (get_new (w_size st) (w_kp st s) (bits, 0%nat)) as [[k r] orc] eqn:G. inversion H; subst; clear H.
    pose proof (issue_common _ _ _ _ _ _ _ I G) as (A & B & C).
    destruct r; cbn [gn_out handed_of]; rewrite app_nil_r; try (constructor; cbn [w_kp w_res];
      [exact A|intros id0 s0 i0 Hin; split; [eapply B; exact Hin|eapply inv_r; eassumption]|eapply inv_rd; eassumption|eapply inv_nd; eassumption]).
    destruct C as (C1 & C2 & C3). constructor; cbn [w_kp w_res].
    + exact A.
    + intros id0 s0 i0 [Hin|Hin].
      * inversion Hin; subst. rewrite upd_same. split; assumption.
      * split; [eapply B; exact Hin|eapply inv_r; eassumption].
    + cbn [map snd]. constructor; [exact C3|eapply inv_rd; eassumption].
    + eapply inv_nd; eassumption.
  - (* OpKeep *)
    destruct (find_res id (w_res st)) as [[s i]|] eqn:F; inversion H; subst; clear H; cbn [handed_of].
    2:{ rewrite app_nil_r. exact I. }
    pose proof (find_res_in _ _ _ F) as Fin. destruct (inv_r _ _ I _ _ _ Fin) as [Bk Hnh].
    destruct (remove_res_nodup _ _ _ (inv_rd _ _ I) F) as [Rnd Rni].
    constructor; cbn [w_kp w_res].
    + intros s0 i0 Hin. apply in_app_or in Hin. destruct Hin as [Hin|[Hin|[]]]; [eapply inv_h; eassumption|]. inversion Hin; subst. exact Bk.
    + intros id0 s0 i0 Hin. pose proof (remove_res_in _ _ _ Hin) as Hin'. destruct (inv_r _ _ I _ _ _ Hin') as [B0 N0].
      split; [exact B0|]. intros Hc. apply in_app_or in Hc. destruct Hc as [Hc|[Hc|[]]]; [exact (N0 Hc)|].
      inversion Hc; subst. apply Rni. apply in_map_iff. exists (id0, (s0, i0)). split; [reflexivity|exact Hin].
    + exact Rnd.
    + apply NoDup_snoc; [eapply inv_nd; eassumption|exact Hnh].
  - (* OpRet *)
    destruct (find_res id (w_res st)) as [[s i]|] eqn:F.
    2:{ inversion H; subst. cbn [handed_of]. rewrite app_nil_r. exact I. }
    destruct (return_dest (w_kp st s) i (bits, 0%nat)) as [k orc] eqn:R. inversion H; subst; clear H. cbn [handed_of]. rewrite app_nil_r.
    pose proof (find_res_in _ _ _ F) as Fin. destruct (inv_r _ _ I _ _ _ Fin) as [Bk Hnh].
    destruct (remove_res_nodup _ _ _ (inv_rd _ _ I) F) as [Rnd Rni].
    constructor; cbn [w_kp w_res].
    + intros s0 i0 Hin. destruct (Nat.eq_dec s0 s) as [->|Hne]; [rewrite upd_same|rewrite upd_other by exact Hne; eapply inv_h; eassumption].
      eapply ret_blw; [exact R|eapply inv_h; eassumption|]. intros ->. exact (Hnh Hin).
    + intros id0 s0 i0 Hin. pose proof (remove_res_in _ _ _ Hin) as Hin'. destruct (inv_r _ _ I _ _ _ Hin') as [B0 N0].
      split; [|exact N0]. destruct (Nat.eq_dec s0 s) as [->|Hne]; [rewrite upd_same|rewrite upd_other by exact Hne; exact B0].
      eapply ret_blw; [exact R|exact B0|]. intros ->. apply Rni. apply in_map_iff. exists (id0, (s, i)). split; [reflexivity|exact Hin].
    + exact Rnd.
    + eapply inv_nd; eassumption.
  - (* OpTop *)
    destruct (topup (w_size st) n (w_kp st s) (bits, 0%nat)) as [[k r] orc] eqn:T. inversion H; subst; clear H.
    pose proof (topup_props _ _ _ _ _ _ _ T) as (N & P & _).
    assert (M : mono (w_kp st s) k) by (unfold mono; destruct P; lia).
    replace (handed_of _) with (@nil (nat * Z)) by (destruct r; reflexivity). rewrite app_nil_r.
    constructor; cbn [w_kp w_res].
    + intros s0 i0 Hin. apply blw_upd_mono; [exact M|eapply inv_h; eassumption].
    + intros id0 s0 i0 Hin. destruct (inv_r _ _ I _ _ _ Hin) as [B0 N0]. split; [apply blw_upd_mono; assumption|exact N0].
    + eapply inv_rd; eassumption.
    + eapply inv_nd; eassumption.
  - (* OpUsed *)
    destruct (mark_used (w_size st) (w_kp st s) idx (bits, 0%nat)) as [[k [c r]] orc] eqn:MU. inversion H; subst; clear H.
    pose proof (mark_used_props _ _ _ _ _ _ _ _ MU) as (M & _).
    replace (handed_of _) with (@nil (nat * Z)) by (destruct r; reflexivity). rewrite app_nil_r.
    constructor; cbn [w_kp w_res].
    + intros s0 i0 Hin. apply blw_upd_mono; [exact M|eapply inv_h; eassumption].
    + intros id0 s0 i0 Hin. destruct (inv_r _ _ I _ _ _ Hin) as [B0 N0]. split; [apply blw_upd_mono; assumption|exact N0].
    + eapply inv_rd; eassumption.
    + eapply inv_nd; eassumption.
  - (* OpReload *)
    inversion H; subst; clear H. cbn [handed_of]. rewrite app_nil_r.
    constructor; cbn [load w_kp w_res]; [|intros ? ? ? []|constructor|eapply inv_nd; eassumption].
    intros s i Hin. destruct (load_slot_next (w_size st) (return_all (w_kp st) (w_res st) s)) as [A B].
    assert (Bl : blw (return_all (w_kp st) (w_res st) s) i).
    { apply (return_all_blw _ _ h); [|eapply inv_rd; eassumption|exact Hin].
      intros s0 i0 Hin0. split; [eapply inv_h; eassumption|]. intros Hc. apply in_map_iff in Hc. destruct Hc as [[id [s1 i1]] [E Hr]].
      cbn in E; inversion E; subst. destruct (inv_r _ _ I _ _ _ Hr) as [_ N0]. exact (N0 Hin0). }
    destruct Bl as [_ Bp]. unfold blw. rewrite A, B. split; exact Bp.
  - (* OpCrash *)
    inversion H; subst; clear H. cbn [handed_of]. rewrite app_nil_r.
    constructor; cbn [load w_kp w_res]; [|intros ? ? ? []|constructor|eapply inv_nd; eassumption].
    intros s i Hin. destruct (load_slot_next (w_size st) (w_kp st s)) as [A B].
    destruct (inv_h _ _ I _ _ Hin) as [_ Bp]. unfold blw. rewrite A, B. split; exact Bp.
Qed.

(* ---------------------------------------------------------------------------------------------- *)
(* runs *)

Lemma handed_cons x xs : handed (x :: xs) = handed_of x ++ handed xs.
Proof. reflexivity. Qed.

Lemma run_inv ops : forall st h outs st', inv st h -> run st ops = (outs, st') -> inv st' (h ++ handed outs).
Proof.
  induction ops as [|o r IH]; intros st h outs st' I H; cbn [run] in H.
  - inversion H; subst. cbn. rewrite app_nil_r. exact I.
  - destruct (step st o) as [st1 x] eqn:S. destruct (run st1 r) as [xs st2] eqn:R. inversion H; subst; clear H.
    rewrite handed_cons, app_assoc. eapply IH; [|exact R]. eapply step_inv; eassumption.
Qed.

Lemma step_no_out st o st' x : wf st -> step st o = (st', x) -> forall n, x <> OErrOut n.
Proof.
  intros [Hk Hr] H n. destruct o; cbn [step] in H.
  - destruct (get_new _ _ _) as [[k r] orc] eqn:G. inversion H; subst.
    pose proof (get_new_props _ _ _ _ _ _ G) as (_ & W & _). destruct (W (Hk s)) as (_ & _ & Hno). destruct r; cbn; congruence.
  - destruct (get_new _ _ _) as [[k r] orc] eqn:G. inversion H; subst.
    pose proof (get_new_props _ _ _ _ _ _ G) as (_ & W & _). destruct (W (Hk s)) as (_ & _ & Hno). destruct r; cbn; congruence.
  - destruct (find_res _ _); [inversion H; subst; congruence|].
    destruct (get_new _ _ _) as [[k r] orc] eqn:G. inversion H; subst.
    pose proof (get_new_props _ _ _ _ _ _ G) as (_ & W & _). destruct (W (Hk s)) as (_ & _ & Hno). destruct r; cbn; congruence.
  - destruct (find_res _ _) as [[? ?]|]; inversion H; subst; congruence.
  - destruct (find_res _ _) as [[? ?]|]; [|inversion H; subst; congruence]. destruct (return_dest _ _ _). inversion H; subst; congruence.
  - destruct (topup _ _ _ _) as [[k r] orc]. inversion H; subst. destruct r; cbn; congruence.
  - destruct (mark_used _ _ _ _) as [[k [c r]] orc]. inversion H; subst. destruct r; cbn; congruence.
  - inversion H; subst; congruence.
  - inversion H; subst; congruence.
Qed.

Lemma run_wf ops : forall st outs st', wf st -> run st ops = (outs, st') ->
  wf st' /\ ~ In OAssert outs /\ forall n, ~ In (OErrOut n) outs.
Proof.
  induction ops as [|o r IH]; intros st outs st' W H; cbn [run] in H.
  - inversion H; subst. split; [exact W|]. split; [tauto|intros n []].
  - destruct (step st o) as [st1 x] eqn:S. destruct (run st1 r) as [xs st2] eqn:R. inversion H; subst; clear H.
    destruct (step_wf _ _ _ _ W S) as [W1 Hx]. pose proof (step_no_out _ _ _ _ W S) as Hno.
    destruct (IH _ _ _ W1 R) as (W2 & A & B). split; [exact W2|]. split.
    + intros [Hc|Hc]; [exact (Hx Hc)|exact (A Hc)].
    + intros n [Hc|Hc]; [exact (Hno n Hc)|exact (B n Hc)].
Qed.

Lemma init_inv size : inv (init size) [].
Proof. constructor; cbn; [intros ? ? []|intros ? ? ? []|constructor|constructor]. Qed.

Lemma init_wf size : 1 <= size <= INT32_MAX -> wf (init size).
Proof. intros H. split; cbn; [|intros ? ? ? []]. intros _. unfold kwf, init_kp; cbn. unfold INT32_MAX in *. lia. Qed.

(* main results *)
Lemma no_repeat size ops : NoDup (handed (fst (run (init size) ops))).
Proof.
  destruct (run (init size) ops) as [outs st] eqn:R. cbn [fst].
  pose proof (run_inv _ _ _ _ _ (init_inv size) R) as I. cbn in I. eapply inv_nd; exact I.
Qed.

Lemma handed_protected size ops outs st :
  run (init size) ops = (outs, st) ->
  forall s i, In (s, i) (handed outs) -> i < k_next (w_kp st s) /\ i < k_pnext (w_kp st s).
Proof.
  intros R s i Hin. pose proof (run_inv _ _ _ _ _ (init_inv size) R) as I. cbn in I. exact (inv_h _ _ I _ _ Hin).
Qed.

Lemma run_well_formed size ops outs st :
  1 <= size <= INT32_MAX -> run (init size) ops = (outs, st) ->
  ~ In OAssert outs /\ (forall n, ~ In (OErrOut n) outs) /\
  forall s, let k := w_kp st s in
    k_maxc k = k_rend k - 1 /\ 0 <= k_next k <= INT32_MAX /\ 0 <= k_rend k <= INT32_MAX /\
    0 <= k_pnext k <= INT32_MAX /\ 0 <= k_prend k <= INT32_MAX.
Proof.
  intros Hs R. destruct (run_wf _ _ _ _ (init_wf _ Hs) R) as ([W _] & A & B). split; [exact A|]. split; [exact B|]. intros s. exact (W s).
Qed.

(* addresses *)
Section Addresses.
  Variable A : Type.
  Variable addr : nat -> Z -> A.
  Hypothesis addr_injective : forall s i s' i', addr s i = addr s' i' -> s = s' /\ i = i'.

  Lemma no_repeat_addresses size ops :
    NoDup (map (fun p => addr (fst p) (snd p)) (handed (fst (run (init size) ops)))).
  Proof.
    apply FinFun.Injective_map_NoDup; [|apply no_repeat].
    intros [s i] [s' i'] E. cbn in E. destruct (addr_injective _ _ _ _ E); subst; reflexivity.
  Qed.
End Addresses.

(* the executable predicate used on the implementation's output *)
Lemma pair_eqb_eq a b : pair_eqb a b = true <-> a = b.
Proof.
  destruct a as [s i], b as [s' i']; unfold pair_eqb; cbn. rewrite andb_true_iff, Nat.eqb_eq, Z.eqb_eq.
  split; [intros [-> ->]; reflexivity|intros E; inversion E; auto].
Qed.

Lemma memb_in a l : memb a l = true <-> In a l.
Proof.
  induction l as [|b r IH]; cbn; [split; [discriminate|tauto]|].
  rewrite orb_true_iff, pair_eqb_eq, IH. split; intros [H|H]; auto.
Qed.

Lemma holds_distinct_sound l : holds_distinct l = true <-> NoDup l.
Proof.
  induction l as [|a r IH]; cbn; [split; [constructor|reflexivity]|].
  rewrite andb_true_iff, negb_true_iff, IH. split.
  - intros [H1 H2]. constructor; [|exact H2]. intros Hc. apply memb_in in Hc. congruence.
  - intros H. inversion H; subst. split; [|assumption]. destruct (memb a r) eqn:E; [apply memb_in in E; contradiction|reflexivity].
Qed.

(* the handed-out address is one the wallet watches, when no database call of the request fails *)
Lemma topup_true_covers size n k o k' o' :
  topup size n k o = (k', TU_true, o') -> 0 < (if 0 <? n then n else size) -> k_next k < k_rend k'.
Proof.
  unfold topup, pop. intros H Hp. destruct o as [bits c]; cbn [fst snd] in H.
  destruct bits as [|b0 [|b1 [|b2 bits]]]; cbn [fst snd] in H; brk; b2p; try discriminate; cbn; lia.
Qed.

Lemma fault_free_watched size k c k' i m o' :
  1 <= size -> kwf k -> get_new size k ([], c) = (k', GN_addr i m, o') -> m = true.
Proof.
  intros Hs Hk G. unfold get_new, get_new_gen in G.
  destruct (topup size 0 k ([], c)) as [[k1 r1] o1] eqn:T1.
  pose proof (topup_props _ _ _ _ _ _ _ T1) as (N1 & P1 & W1 & _ & F1). destruct (W1 Hk) as [Hk1 _]. destruct (F1 eq_refl) as [F1a F1b].
  assert (Ho1 : fst o1 = []).
  { unfold topup, pop in T1. cbn [fst snd] in T1. brk; reflexivity. }
  destruct r1; cbn [gn_of_tu] in G; try congruence; try discriminate.
  assert (Hcov : k_next k < k_rend k1) by (eapply topup_true_covers; [exact T1|cbn; lia]).
  destruct (k_rend k1 <=? k_maxc k1) eqn:Hbr; [unfold kwf in Hk1; b2p; lia|].
  destruct (INT32_MAX <=? k_next k1); [discriminate|].
  destruct (pop o1) as [w o3] eqn:Hp. unfold pop in Hp. rewrite Ho1 in Hp. inversion Hp; subst.
  inversion G; subst. unfold kwf in Hk1. apply Z.leb_le. lia.
Qed.

(* the code before the fix (write result ignored), and the fixed code, on the witness
   new; new with the final WriteDescriptor failing; restart; new *)
Lemma unchecked_write_witness :
  let '(k1, _, _) := get_new_gen false 3 (init_kp 3) ([], 0%nat) in
  let '(k2, r2, _) := get_new_gen false 3 k1 ([true; true; true; false], 0%nat) in
  let '(_, r3, _) := get_new_gen false 3 (load_slot 3 k2) ([], 0%nat) in
  r2 = GN_addr 1 true /\ r3 = GN_addr 1 true.
Proof. vm_compute. split; reflexivity. Qed.

Lemma checked_write_witness :
  let '(k1, _, _) := get_new_gen true 3 (init_kp 3) ([], 0%nat) in
  let '(k2, r2, _) := get_new_gen true 3 k1 ([true; true; true; false], 0%nat) in
  let '(_, r3, _) := get_new_gen true 3 (load_slot 3 k2) ([], 0%nat) in
  r2 = GN_werr /\ r3 = GN_addr 1 true.
Proof. vm_compute. split; reflexivity. Qed.
