(* C25: the predicate the correspondence evaluates on every dump (holds_query) and on every Trim
   (holds_trim) is the conjunction of the clause lists whose soundness is proved in TxGraphValid /
   TxGraphStruct. *)
From Coq Require Import List ZArith Bool Arith Lia.
From BV Require Import lib.Ints model.Fee model.Lin model.TxGraph proofs.LinLemmas
  proofs.TxGraphRel proofs.TxGraphCluster proofs.TxGraphInv proofs.TxGraphSpec proofs.TxGraphValid proofs.TxGraphStruct.
Import ListNotations.

Lemma forallb_snd_map (l : list (nat * bool)) :
  forallb snd (map (fun cb : nat * bool => ((100 + fst cb)%nat, snd cb)) l) = forallb snd l.
Proof. induction l as [| c l IH]; simpl; [reflexivity | f_equal; exact IH]. Qed.

Theorem holds_query_parts s subsets o : holds_query s subsets o = true ->
  (* HaveStaging and the individual feerates *)
  q_st o = (match s_stag s with Some _ => true | None => false end) /\ fr_ok s (q_fr o) = true /\
  (* structural answers of main *)
  forallb snd (struct_checks (s_main s) (main_oversized s) subsets (q_main o)) = true /\
  (* structural answers of staging, reported exactly when staging exists *)
  (match s_stag s, q_stag o with
   | Some l, Some ol => forallb snd (struct_checks l (stag_oversized s) subsets ol) = true
   | None, None => True
   | _, _ => False
   end) /\
  (* ordering answers, reported exactly when main is not oversized *)
  (match q_order o with
   | Some b => main_oversized s = false /\
               forallb snd (order_checks (s_main s) (o_ex (q_main o)) (o_clu (q_main o)) b) = true /\
               forallb snd (walk_checks (s_main s) b) = true
   | None => main_oversized s = true
   end) /\
  (* diagrams, reported exactly when staging exists and neither level is oversized *)
  (match q_diag o, s_stag s, q_stag o with
   | Some dg, Some l, Some ol => main_oversized s = false /\ stag_oversized s = false /\
                                  forallb snd (diagram_checks (s_main s) l (o_clu (q_main o)) (o_clu ol) dg) = true
   | None, Some _, _ => main_oversized s || stag_oversized s = true
   | None, None, _ => True
   | Some _, _, _ => False
   end).
Proof.
  unfold holds_query, query_checks. rewrite !forallb_app. cbn [forallb snd].
  rewrite !andb_true_iff. intros [[H60 [H61 _]] [Hm [Hs [Ho Hd]]]].
  split; [apply eqb_prop; exact H60 |]. split; [exact H61 |]. split; [exact Hm |]. split; [| split].
  - destruct (s_stag s) as [l |], (q_stag o) as [ol |]; try (simpl in Hs; discriminate); try exact I.
    rewrite forallb_snd_map in Hs. exact Hs.
  - destruct (q_order o) as [b |]; cbn [forallb snd] in Ho.
    + apply andb_true_iff in Ho. destruct Ho as [Ho1 Ho2]. apply negb_true_iff in Ho1. rewrite Ho1 in *.
      rewrite forallb_app in Ho2. apply andb_true_iff in Ho2. tauto.
    + apply andb_true_iff in Ho. tauto.
  - destruct (q_diag o) as [dg |], (s_stag s) as [l |], (q_stag o) as [ol |]; try (simpl in Hd; discriminate); try exact I;
      cbn [forallb snd] in Hd; apply andb_true_iff in Hd; destruct Hd as [Hd1 Hd2]; try exact Hd1.
    apply andb_true_iff in Hd1. destruct Hd1 as [Hd1a Hd1b].
    apply negb_true_iff in Hd1a. apply negb_true_iff in Hd1b. rewrite Hd1a, Hd1b in *. simpl in Hd2. tauto.
Qed.

Theorem holds_trim_parts s removed : holds_trim s removed = true ->
  forallb snd (trim_checks (s_mc s) (s_ms s) (top s) removed) = true.
Proof. intros H. exact H. Qed.
