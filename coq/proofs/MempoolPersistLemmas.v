(* C55: lemmas about the mempool.dat codec and the loader (model/MempoolPersist.v).
   Part 1: containers, obfuscation, codec round trip, load = apply (parse). *)
From Coq Require Import NArith Lia.
From BV Require Import lib.Ints gen.Params_gen model.SerBase model.SerTx model.CryptoSHA256 model.MempoolPersist
                       proofs.SerBaseLemmas proofs.SerTxLemmas.
Local Open Scope Z_scope.

(* ---- byte strings as keys ---- *)
Lemma bytes_eqb_refl a : bytes_eqb a a = true.
Proof. induction a as [|x a IH]; [reflexivity|]. cbn. rewrite N.eqb_refl. exact IH. Qed.

Lemma bytes_eqb_eq a : forall b, bytes_eqb a b = true <-> a = b.
Proof.
  induction a as [|x a IH]; intros [|y b]; cbn; split; intros H; try reflexivity; try discriminate.
  - apply andb_prop in H. destruct H as [H1 H2]. apply N.eqb_eq in H1. apply IH in H2. congruence.
  - inversion H; subst. rewrite N.eqb_refl. cbn. apply IH. reflexivity.
Qed.

Lemma bytes_eqb_neq a b : bytes_eqb a b = false <-> a <> b.
Proof.
  split; intros H.
  - intros E. apply bytes_eqb_eq in E. congruence.
  - destruct (bytes_eqb a b) eqn:E; [|reflexivity]. apply bytes_eqb_eq in E. contradiction.
Qed.

Lemma bytes_eqb_sym a b : bytes_eqb a b = bytes_eqb b a.
Proof.
  destruct (bytes_eqb a b) eqn:E.
  - apply bytes_eqb_eq in E. subst. symmetry. apply bytes_eqb_refl.
  - symmetry. apply bytes_eqb_neq. apply bytes_eqb_neq in E. congruence.
Qed.

Lemma lex_ltb_irrefl a : lex_ltb a a = false.
Proof. induction a as [|x a IH]; [reflexivity|]. cbn. rewrite N.ltb_irrefl. exact IH. Qed.

Lemma lex_ltb_trans a : forall b c, lex_ltb a b = true -> lex_ltb b c = true -> lex_ltb a c = true.
Proof.
  induction a as [|x a IH]; intros [|y b] [|z c] H1 H2; cbn in *; try discriminate; try reflexivity.
  destruct (x <? y)%N eqn:Exy.
  - apply N.ltb_lt in Exy. destruct (y <? z)%N eqn:Eyz.
    + apply N.ltb_lt in Eyz. assert (E : (x <? z)%N = true) by (apply N.ltb_lt; lia). rewrite E. reflexivity.
    + destruct (z <? y)%N eqn:Ezy; [discriminate|].
      apply N.ltb_ge in Eyz. apply N.ltb_ge in Ezy. assert (y = z) by lia. subst.
      assert (E : (x <? z)%N = true) by (apply N.ltb_lt; lia). rewrite E. reflexivity.
  - destruct (y <? x)%N eqn:Eyx; [discriminate|].
    apply N.ltb_ge in Exy. apply N.ltb_ge in Eyx. assert (x = y) by lia. subst.
    destruct (y <? z)%N eqn:Eyz; [reflexivity|].
    destruct (z <? y)%N eqn:Ezy; [discriminate|]. eapply IH; eassumption.
Qed.

Lemma lex_ltb_neq a b : lex_ltb a b = true -> a <> b.
Proof. intros H E. subst. rewrite lex_ltb_irrefl in H. discriminate. Qed.

(* ---- sorted maps / sets ---- *)
Inductive sorted_keys : list (list N) -> Prop :=
| sk_nil : sorted_keys []
| sk_one k : sorted_keys [k]
| sk_cons k k' r : lex_ltb k k' = true -> sorted_keys (k' :: r) -> sorted_keys (k :: k' :: r).

Definition dmap_wf (m : dmap) : Prop := sorted_keys (map fst m).

Lemma sorted_keys_tail k r : sorted_keys (k :: r) -> sorted_keys r.
Proof. intros H. inversion H; subst; [constructor|assumption]. Qed.

Lemma sorted_keys_lt k r : sorted_keys (k :: r) -> forall k', In k' r -> lex_ltb k k' = true.
Proof.
  revert k. induction r as [|x r IH]; intros k H k' Hin; [destruct Hin|].
  inversion H; subst. destruct Hin as [E|Hin]; [subst; assumption|].
  eapply lex_ltb_trans; [eassumption|]. apply IH; assumption.
Qed.

Lemma sorted_keys_notin k r : sorted_keys (k :: r) -> ~ In k r.
Proof. intros H Hin. apply (sorted_keys_lt _ _ H) in Hin. rewrite lex_ltb_irrefl in Hin. discriminate. Qed.

Lemma sorted_keys_nodup l : sorted_keys l -> NoDup l.
Proof.
  induction l as [|k r IH]; intros H; [constructor|].
  constructor; [apply sorted_keys_notin; assumption|]. apply IH. eapply sorted_keys_tail; eassumption.
Qed.

Lemma dm_find_none_notin k m : dm_find k m = None <-> ~ In k (map fst m).
Proof.
  induction m as [|[k' v] r IH]; cbn; [tauto|].
  destruct (bytes_eqb k k') eqn:E.
  - apply bytes_eqb_eq in E. subst. split; [discriminate|]. intros H. exfalso. apply H. left. reflexivity.
  - apply bytes_eqb_neq in E. rewrite IH. split; intros H; [intros [F|F]; [congruence|tauto]|tauto].
Qed.

Lemma dm_find_lt k m : (forall k', In k' (map fst m) -> lex_ltb k k' = true) -> dm_find k m = None.
Proof.
  intros H. apply dm_find_none_notin. intros Hin. apply H in Hin. rewrite lex_ltb_irrefl in Hin. discriminate.
Qed.

(* appending a key above all others to a sorted map *)
Lemma dm_set_snoc m k v : dmap_wf (m ++ [(k, v)]) -> dm_set k v m = m ++ [(k, v)].
Proof.
  induction m as [|[k' v'] r IH]; intros W; [reflexivity|].
  cbn [dm_set app].
  assert (L : lex_ltb k' k = true).
  { unfold dmap_wf in W. cbn [app map fst] in W. apply (sorted_keys_lt _ _ W). rewrite map_app. apply in_or_app. right. left. reflexivity. }
  assert (N1 : bytes_eqb k k' = false).
  { apply bytes_eqb_neq. intros E. subst. rewrite lex_ltb_irrefl in L. discriminate. }
  assert (N2 : lex_ltb k k' = false).
  { destruct (lex_ltb k k') eqn:E; [|reflexivity]. pose proof (lex_ltb_trans _ _ _ E L) as X. rewrite lex_ltb_irrefl in X. discriminate. }
  rewrite N1, N2. f_equal. apply IH. unfold dmap_wf in *. cbn [app map fst] in W. eapply sorted_keys_tail; eassumption.
Qed.

Lemma sorted_keys_app_inv a b : sorted_keys (a ++ b) -> sorted_keys a.
Proof.
  induction a as [|x a IH]; intros H; [constructor|].
  destruct a as [|y a]; [constructor|].
  cbn [app] in *. inversion H; subst. constructor; [assumption|]. apply IH. assumption.
Qed.

(* reading a sorted map back item by item with std::map::insert rebuilds it *)
Lemma dm_of_list_sorted m : dmap_wf m -> dm_of_list m = m.
Proof.
  unfold dm_of_list.
  assert (G : forall b a, dmap_wf (a ++ b) -> fold_left dm_insert b a = a ++ b).
  { induction b as [|[k v] b IH]; intros a W; [rewrite app_nil_r; reflexivity|].
    cbn [fold_left].
    assert (W1 : dmap_wf (a ++ [(k, v)])).
    { unfold dmap_wf in *. replace (a ++ (k, v) :: b) with ((a ++ [(k, v)]) ++ b) in W by (rewrite <- app_assoc; reflexivity).
      rewrite map_app in W. eapply sorted_keys_app_inv; eassumption. }
    assert (F : dm_find k a = None).
    { apply dm_find_none_notin. intros Hin.
      pose proof (sorted_keys_nodup _ W1) as ND. rewrite map_app in ND. cbn [map fst] in ND.
      apply NoDup_remove_2 in ND. apply ND. rewrite app_nil_r. exact Hin. }
    unfold dm_insert at 2. cbn [fst snd]. rewrite F. rewrite dm_set_snoc by exact W1.
    rewrite IH; [rewrite <- app_assoc; reflexivity|]. rewrite <- app_assoc. exact W. }
  intros W. apply (G m []). exact W.
Qed.

Lemma set_insert_snoc s k : sorted_keys (s ++ [k]) -> set_insert k s = s ++ [k].
Proof.
  induction s as [|k' r IH]; intros W; [reflexivity|].
  cbn [set_insert app].
  assert (L : lex_ltb k' k = true).
  { cbn [app] in W. apply (sorted_keys_lt _ _ W). apply in_or_app. right. left. reflexivity. }
  assert (N1 : bytes_eqb k k' = false).
  { apply bytes_eqb_neq. intros E. subst. rewrite lex_ltb_irrefl in L. discriminate. }
  assert (N2 : lex_ltb k k' = false).
  { destruct (lex_ltb k k') eqn:E; [|reflexivity]. pose proof (lex_ltb_trans _ _ _ E L) as X. rewrite lex_ltb_irrefl in X. discriminate. }
  rewrite N1, N2. f_equal. apply IH. cbn [app] in W. eapply sorted_keys_tail; eassumption.
Qed.

Lemma set_of_list_sorted s : sorted_keys s -> set_of_list s = s.
Proof.
  unfold set_of_list.
  assert (G : forall b a, sorted_keys (a ++ b) -> fold_left (fun s k => set_insert k s) b a = a ++ b).
  { induction b as [|k b IH]; intros a W; [rewrite app_nil_r; reflexivity|].
    cbn [fold_left].
    assert (W1 : sorted_keys (a ++ [k])).
    { replace (a ++ k :: b) with ((a ++ [k]) ++ b) in W by (rewrite <- app_assoc; reflexivity). eapply sorted_keys_app_inv; eassumption. }
    rewrite set_insert_snoc by exact W1. rewrite IH; [rewrite <- app_assoc; reflexivity|]. rewrite <- app_assoc. exact W. }
  intros W. apply (G s []). exact W.
Qed.

(* ---- obfuscation ---- *)
Lemma xor_at_length key : forall l pos, length (xor_at key pos l) = length l.
Proof. induction l as [|b r IH]; intros pos; [reflexivity|]. cbn. rewrite IH. reflexivity. Qed.

Lemma xor_at_involutive key : forall l pos, xor_at key pos (xor_at key pos l) = l.
Proof.
  induction l as [|b r IH]; intros pos; [reflexivity|]. cbn. rewrite IH. f_equal.
  rewrite N.lxor_assoc, N.lxor_nilpotent, N.lxor_0_r. reflexivity.
Qed.

Lemma xor_at_app key : forall a b pos, xor_at key pos (a ++ b) = xor_at key pos a ++ xor_at key (pos + length a) b.
Proof.
  induction a as [|x a IH]; intros b pos; cbn [app xor_at length]; [rewrite Nat.add_0_r; reflexivity|].
  rewrite IH. rewrite Nat.add_succ_r. reflexivity.
Qed.

Lemma xor_at_firstn key n : forall l pos, xor_at key pos (firstn n l) = firstn n (xor_at key pos l).
Proof.
  induction n as [|n IH]; intros l pos; [reflexivity|].
  destruct l as [|b r]; [reflexivity|]. cbn. rewrite IH. reflexivity.
Qed.

Lemma key_byte_lt key pos : bytes_ok key -> (key_byte key pos < 256)%N.
Proof.
  intros H. unfold key_byte. destruct (nth_in_or_default (pos mod 8) key 0%N) as [Hin|E].
  - unfold bytes_ok in H. rewrite Forall_forall in H. apply H. exact Hin.
  - rewrite E. lia.
Qed.

Lemma lxor_byte a b : (a < 256)%N -> (b < 256)%N -> (N.lxor a b < 256)%N.
Proof.
  intros Ha Hb. change 256%N with (2 ^ 8)%N in *.
  destruct (N.eq_dec (N.lxor a b) 0) as [E|NE]; [rewrite E; cbn; lia|].
  apply N.log2_lt_pow2; [lia|].
  eapply N.le_lt_trans; [apply N.log2_lxor|].
  apply N.max_lub_lt.
  - destruct (N.eq_dec a 0) as [Ea|Na]; [subst; cbn; lia|apply N.log2_lt_pow2; lia].
  - destruct (N.eq_dec b 0) as [Eb|Nb]; [subst; cbn; lia|apply N.log2_lt_pow2; lia].
Qed.

Lemma xor_at_bytes_ok key : bytes_ok key -> forall l pos, bytes_ok l -> bytes_ok (xor_at key pos l).
Proof.
  intros K. induction l as [|b r IH]; intros pos H; [constructor|].
  inversion H; subst. cbn. constructor; [apply lxor_byte; [assumption|apply key_byte_lt; assumption]|apply IH; assumption].
Qed.

(* ---- fixed-width integers ---- *)
Lemma read_le8_i64 v rest : INT64_MIN <= v <= INT64_MAX ->
  bind (read_le 8 (write_le 8 v ++ rest)) (fun x s => Ok (wrap64 x) s) = Ok v rest.
Proof.
  intros H. rewrite read_le_write. cbn [bind]. change (8 * Z.of_nat 8) with 64.
  change (wrapu 64 v) with (wrapu64 v). rewrite wrap64_wrapu64 by exact H. reflexivity.
Qed.

Lemma read_le8_u64 v rest : 0 <= v <= UINT64_MAX -> read_le 8 (write_le 8 v ++ rest) = Ok v rest.
Proof.
  intros H. rewrite read_le_write. change (8 * Z.of_nat 8) with 64. change (wrapu 64 v) with (wrapu64 v).
  rewrite wrapu64_id by exact H. reflexivity.
Qed.

Lemma write_le_length k v : length (write_le k v) = k.
Proof. unfold write_le. apply le_bytes_length. Qed.

Section Codec.
  Variable T : Type.
  Variable ser : T -> list N.
  Variable unser : list N -> res T.
  Variable txid : T -> list N.
  Variable wfT : T -> Prop.
  (* PREMISE: the transaction codec round-trips on the transactions in play *)
  Hypothesis unser_ser : forall t rest, wfT t -> unser (ser t ++ rest) = Ok t rest.

  Definition rec_wf (r : mrec T) : Prop :=
    wfT (r_tx r) /\ INT64_MIN <= r_time r <= INT64_MAX /\ INT64_MIN <= r_delta r <= INT64_MAX.
  Definition pair_wf (kv : list N * Z) : Prop := length (fst kv) = 32%nat /\ INT64_MIN <= snd kv <= INT64_MAX.
  Definition snapshot_wf (d : snapshot T) : Prop :=
    Forall rec_wf (sn_recs d) /\ Z.of_nat (length (sn_recs d)) <= UINT64_MAX /\
    dmap_wf (sn_deltas d) /\ Forall pair_wf (sn_deltas d) /\ Z.of_nat (length (sn_deltas d)) <= MAX_SIZE /\
    sorted_keys (sn_unb d) /\ Forall (fun k => length k = 32%nat) (sn_unb d) /\ Z.of_nat (length (sn_unb d)) <= MAX_SIZE.

  Lemma rec_roundtrip r rest : rec_wf r -> unser_rec T unser (ser_rec T ser r ++ rest) = Ok r rest.
  Proof.
    intros [Ht [Htm Hd]]. unfold unser_rec, ser_rec. rewrite <- !app_assoc. rewrite unser_ser by exact Ht. cbn [bind].
    rewrite read_le_write. cbn [bind]. rewrite read_le_write. cbn [bind].
    change (8 * Z.of_nat 8) with 64. change (wrapu 64) with wrapu64.
    rewrite !wrap64_wrapu64 by assumption. destruct r; reflexivity.
  Qed.

  Lemma ser_rec_nonempty r : (1 <= length (ser_rec T ser r))%nat.
  Proof. unfold ser_rec. rewrite !app_length, !write_le_length. lia. Qed.

  Lemma pair_roundtrip kv rest : pair_wf kv -> unser_pair (ser_pair kv ++ rest) = Ok kv rest.
  Proof.
    intros [L H]. unfold unser_pair, ser_pair. rewrite <- app_assoc. rewrite <- L. rewrite read_bytes_app. cbn [bind].
    rewrite read_le_write. cbn [bind]. change (8 * Z.of_nat 8) with 64. change (wrapu 64) with wrapu64.
    rewrite wrap64_wrapu64 by exact H. destruct kv; reflexivity.
  Qed.
  Lemma ser_pair_nonempty kv : (1 <= length (ser_pair kv))%nat.
  Proof. unfold ser_pair. rewrite app_length, write_le_length. lia. Qed.

  Lemma id_roundtrip k rest : length k = 32%nat -> unser_id (ser_id k ++ rest) = Ok k rest.
  Proof. intros L. unfold unser_id, ser_id. rewrite <- L. apply read_bytes_app. Qed.

  (* THE BODY ROUND TRIP: count, records, mapDeltas, unbroadcast set *)
  Lemma parse_body_encode d rest : snapshot_wf d ->
    parse_body T unser (encode_body T ser d ++ rest) = Ok d rest.
  Proof.
    intros [Wr [Wn [Wd [Wp [Wdn [Wu [Wul Wun]]]]]]].
    unfold parse_body, encode_body. rewrite <- !app_assoc.
    rewrite read_le8_u64 by lia. cbn [bind].
    set (tail := ser_vector ser_pair (sn_deltas d) ++ ser_vector ser_id (sn_unb d) ++ rest).
    pose proof (concat_length_ge (ser_rec T ser) (sn_recs d) (fun x _ => ser_rec_nonempty x)) as Hlen.
    assert (Ek : Z.min (Z.of_nat (length (sn_recs d))) (Z.of_nat (length (concat (map (ser_rec T ser) (sn_recs d)) ++ tail)) + 1)
                 = Z.of_nat (length (sn_recs d))) by (rewrite app_length; lia).
    rewrite Ek, Nat2Z.id.
    rewrite (read_n_roundtrip (ser_rec T ser) (unser_rec T unser)).
    2:{ intros x r Hin. apply rec_roundtrip. rewrite Forall_forall in Wr. apply Wr. exact Hin. }
    cbn [bind]. rewrite Z.ltb_irrefl. unfold tail.
    rewrite (vector_roundtrip ser_pair unser_pair).
    2: exact Wdn. 2: intros x _; apply ser_pair_nonempty.
    2:{ intros x r Hin. apply pair_roundtrip. rewrite Forall_forall in Wp. apply Wp. exact Hin. }
    cbn [bind].
    rewrite (vector_roundtrip ser_id unser_id).
    2: exact Wun.
    2:{ intros x Hin. unfold ser_id. rewrite Forall_forall in Wul. rewrite (Wul x Hin). lia. }
    2:{ intros x r Hin. apply id_roundtrip. rewrite Forall_forall in Wul. apply Wul. exact Hin. }
    cbn [bind]. rewrite dm_of_list_sorted by exact Wd. rewrite set_of_list_sorted by exact Wu.
    destruct d; reflexivity.
  Qed.

  (* THE FILE ROUND TRIP, both versions, every 8-byte key *)
  Lemma parse_file_encode v1 key d : snapshot_wf d -> length key = 8%nat ->
    parse_file T unser (encode_file T ser v1 key d) = Ok d [].
  Proof.
    intros W K. unfold parse_file, encode_file. destruct v1.
    - rewrite read_le8_u64 by (unfold MEMPOOL_DUMP_VERSION_NO_XOR_KEY, UINT64_MAX; lia). cbn [bind].
      rewrite Z.eqb_refl. rewrite <- (app_nil_r (encode_body T ser d)). apply parse_body_encode. exact W.
    - cbv zeta. rewrite <- app_assoc. rewrite read_le8_u64 by (unfold MEMPOOL_DUMP_VERSION, UINT64_MAX; lia). cbn [bind].
      change (MEMPOOL_DUMP_VERSION =? MEMPOOL_DUMP_VERSION_NO_XOR_KEY) with false. rewrite Z.eqb_refl. cbv iota.
      rewrite ser_bytes_roundtrip by (rewrite K; rewrite max_size_value; lia). cbn [bind].
      rewrite K. cbn [Nat.eqb negb].
      set (body := encode_body T ser d).
      assert (E : (length (write_le 8 MEMPOOL_DUMP_VERSION ++ ser_bytes key ++ xor_at key (length (write_le 8 MEMPOOL_DUMP_VERSION ++ ser_bytes key)) body)
                   - length (xor_at key (length (write_le 8 MEMPOOL_DUMP_VERSION ++ ser_bytes key)) body))%nat
                  = length (write_le 8 MEMPOOL_DUMP_VERSION ++ ser_bytes key)).
      { rewrite !app_length. lia. }
      rewrite E. rewrite xor_at_involutive. rewrite <- (app_nil_r body). apply parse_body_encode. exact W.
  Qed.

  (* the header of a version 2 file is 17 bytes: the body is XORed from absolute position 17 on *)
  Lemma v2_header_length key : length key = 8%nat -> length (write_le 8 MEMPOOL_DUMP_VERSION ++ ser_bytes key) = 17%nat.
  Proof.
    intros K. rewrite app_length, write_le_length. unfold ser_bytes. rewrite app_length, K.
    change (Z.of_nat 8) with 8. reflexivity.
  Qed.
End Codec.

(* ---- LoadMempool = apply (parse) ---- *)
Section LoadParse.
  Variable T : Type.
  Variable unser : list N -> res T.
  Variable txid : T -> list N.
  Variable accept : pool -> T -> Z -> bool.
  Variables now expiry : Z.
  Variable opts : load_opts.

  Notation apply_rec := (apply_rec T txid accept now expiry opts).
  Notation load_recs := (load_recs T unser txid accept now expiry opts).

  (* the records loop: it applies, one after the other, exactly the records that could be read *)
  Lemma load_recs_spec k : forall s p,
    match read_n (unser_rec T unser) k s with
    | Ok all s' => load_recs k s p = LOk (fold_left apply_rec all p) s'
    | Err e => exists recs s'', (length recs < k)%nat /\ read_n (unser_rec T unser) (length recs) s = Ok recs s'' /\
                                unser_rec T unser s'' = Err e /\
                                load_recs k s p = LFail (fold_left apply_rec recs p) e
    end.
  Proof.
    induction k as [|k IH]; intros s p; [reflexivity|].
    cbn [read_n MempoolPersist.load_recs].
    destruct (unser_rec T unser s) as [r s1|e] eqn:R; cbn [bind].
    - specialize (IH s1 (apply_rec p r)).
      destruct (read_n (unser_rec T unser) k s1) as [all s'|e] eqn:RN; cbn [bind].
      + exact IH.
      + destruct IH as [recs [s'' [L [RR [U EQ]]]]].
        exists (r :: recs), s''. cbn [length read_n fold_left]. rewrite R. cbn [bind]. rewrite RR. cbn [bind].
        repeat split; try assumption. lia.
    - exists [], s. cbn [length read_n fold_left]. repeat split; try assumption. lia.
  Qed.

  Theorem load_parse_ok f p d rest :
    parse_file T unser f = Ok d rest ->
    load_file T unser txid accept now expiry opts f p = LOk (apply_snapshot T txid accept now expiry opts d p) rest.
  Proof.
    assert (B : forall body, parse_body T unser body = Ok d rest ->
                load_body T unser txid accept now expiry opts body p = LOk (apply_snapshot T txid accept now expiry opts d p) rest).
    { intros body H. unfold parse_body in H. unfold load_body.
      destruct (read_le 8 body) as [total s|e]; [|discriminate]. cbn [bind] in H.
      set (k := Z.min total (Z.of_nat (length s) + 1)) in *.
      pose proof (load_recs_spec (Z.to_nat k) s p) as LS.
      destruct (read_n (unser_rec T unser) (Z.to_nat k) s) as [recs s1|e]; [|discriminate]. cbn [bind] in H.
      rewrite LS. destruct (k <? total); [discriminate|].
      unfold MempoolPersist.load_tail.
      destruct (unser_vector unser_pair s1) as [pairs s2|e]; [|discriminate]. cbn [bind] in H.
      destruct (unser_vector unser_id s2) as [ids s3|e]; [|discriminate]. cbn [bind] in H.
      inversion H; subst. reflexivity. }
    intros H. unfold parse_file in H. unfold load_file.
    destruct (read_le 8 f) as [version s|e]; [|discriminate]. cbn [bind] in H.
    destruct (version =? MEMPOOL_DUMP_VERSION_NO_XOR_KEY); [apply B; exact H|].
    destruct (version =? MEMPOOL_DUMP_VERSION); [|discriminate].
    destruct (unser_bytes s) as [key s1|e]; [|discriminate]. cbn [bind] in H.
    destruct (negb (Nat.eqb (length key) 8)); [discriminate|]. apply B. exact H.
  Qed.

  Theorem load_ok_parse f p q rest :
    load_file T unser txid accept now expiry opts f p = LOk q rest ->
    exists d, parse_file T unser f = Ok d rest /\ q = apply_snapshot T txid accept now expiry opts d p.
  Proof.
    assert (B : forall body, load_body T unser txid accept now expiry opts body p = LOk q rest ->
                exists d, parse_body T unser body = Ok d rest /\ q = apply_snapshot T txid accept now expiry opts d p).
    { intros body H. unfold parse_body. unfold load_body in H.
      destruct (read_le 8 body) as [total s|e]; [|discriminate]. cbn [bind].
      set (k := Z.min total (Z.of_nat (length s) + 1)) in *.
      pose proof (load_recs_spec (Z.to_nat k) s p) as LS.
      destruct (read_n (unser_rec T unser) (Z.to_nat k) s) as [recs s1|e]; cbn [bind].
      - rewrite LS in H. destruct (k <? total); [discriminate|].
        unfold MempoolPersist.load_tail in H.
        destruct (unser_vector unser_pair s1) as [pairs s2|e]; [|discriminate]. cbn [bind].
        destruct (unser_vector unser_id s2) as [ids s3|e]; [|discriminate]. cbn [bind].
        inversion H; subst. eexists. split; reflexivity.
      - destruct LS as [recs [s'' [_ [_ [_ EQ]]]]]. rewrite EQ in H. discriminate. }
    intros H. unfold parse_file. unfold load_file in H.
    destruct (read_le 8 f) as [version s|e]; [|discriminate]. cbn [bind].
    destruct (version =? MEMPOOL_DUMP_VERSION_NO_XOR_KEY); [apply B; exact H|].
    destruct (version =? MEMPOOL_DUMP_VERSION); [|discriminate].
    destruct (unser_bytes s) as [key s1|e]; [|discriminate]. cbn [bind].
    destruct (negb (Nat.eqb (length key) 8)); [discriminate|]. apply B. exact H.
  Qed.
End LoadParse.
