(* C55: for ARBITRARY file bytes the loader never removes a pool entry, never changes its time, and adds
   only transactions that normal submission accepted (Part 4 of the lemmas). *)
From Coq Require Import NArith Lia.
From BV Require Import lib.Ints gen.Params_gen model.SerBase model.SerTx model.CryptoSHA256 model.MempoolPersist
                       proofs.SerBaseLemmas proofs.SerTxLemmas proofs.MempoolPersistLemmas proofs.MempoolPersistPool.
Local Open Scope Z_scope.

(* (txid, entry time) of the pool entries, in pool order *)
Definition idt (p : pool) : list (list N * Z) := map (fun e => (e_id e, e_time e)) (p_entries p).

Lemma ids_of_idt p : ids_of p = map fst (idt p).
Proof. unfold ids_of, idt. rewrite map_map. reflexivity. Qed.

Section Safety.
  Variable T : Type.
  Variable unser : list N -> res T.
  Variable txid : T -> list N.
  Variable accept : pool -> T -> Z -> bool.
  Variables now expiry : Z.
  Variable opts : load_opts.

  (* q is p with entries appended, each of which passed normal submission, no entry removed or re-timed;
     the unbroadcast set only grows, and only by ids that are in the pool *)
  Definition extends (p q : pool) : Prop :=
    exists added, idt q = idt p ++ added
      /\ Forall (fun it => exists p' t, txid t = fst it /\ accept p' t (snd it) = true) added
      /\ (forall id, In id (p_unb p) -> In id (p_unb q))
      /\ (forall id, In id (p_unb q) -> In id (p_unb p) \/ In id (ids_of q)).

  Lemma extends_refl p : extends p p.
  Proof. exists []. rewrite app_nil_r. repeat split; auto. Qed.

  Lemma extends_trans p q r : extends p q -> extends q r -> extends p r.
  Proof.
    intros [a1 [E1 [F1 [U1 V1]]]] [a2 [E2 [F2 [U2 V2]]]].
    exists (a1 ++ a2). repeat split.
    - rewrite E2, E1, app_assoc. reflexivity.
    - apply Forall_app. split; assumption.
    - intros id H. apply U2, U1, H.
    - intros id H. apply V2 in H. destruct H as [H|H]; [|right; exact H].
      apply V1 in H. destruct H as [H|H]; [left; exact H|right].
      rewrite ids_of_idt in *. rewrite E2, map_app. apply in_or_app. left. exact H.
  Qed.

  Lemma idt_prioritise p id d : idt (prioritise p id d) = idt p.
  Proof.
    unfold idt, prioritise. cbn [p_entries]. rewrite map_map. apply map_ext. intros e. destruct (bytes_eqb id (e_id e)); reflexivity.
  Qed.

  Lemma extends_prioritise p id d : extends p (prioritise p id d).
  Proof.
    exists []. rewrite app_nil_r, idt_prioritise. repeat split; auto.
  Qed.

  Lemma extends_atmp p t time : extends p (fst (atmp T txid accept p t time)).
  Proof.
    unfold atmp. destruct (in_pool (txid t) p); cbn [fst]; [apply extends_refl|].
    destruct (accept p t time) eqn:A; cbn [fst]; [|apply extends_refl].
    exists [(txid t, time)]. repeat split.
    - unfold idt. cbn [p_entries]. rewrite map_app. reflexivity.
    - constructor; [|constructor]. exists p, t. split; [reflexivity|exact A].
    - auto.
    - cbn [p_unb]. auto.
  Qed.

  Lemma extends_add_unb p id : extends p (add_unbroadcast p id).
  Proof.
    unfold add_unbroadcast. destruct (in_pool id p) eqn:IP; [|apply extends_refl].
    exists []. rewrite app_nil_r. repeat split; auto.
    - intros id' H. cbn [p_unb]. apply set_insert_in. right. exact H.
    - intros id' H. cbn [p_unb] in H. apply set_insert_in in H. destruct H as [->|H]; [right|left; exact H].
      apply in_pool_ids in IP. exact IP.
  Qed.

  Lemma extends_apply_rec p r : extends p (apply_rec T txid accept now expiry opts p r).
  Proof.
    unfold apply_rec.
    set (p1 := if negb (r_delta r =? 0) && o_apply_fee_delta opts then prioritise p (txid (r_tx r)) (r_delta r) else p).
    assert (X : extends p p1) by (unfold p1; destruct (_ && _); [apply extends_prioritise|apply extends_refl]).
    destruct (_ >? _); [|exact X]. eapply extends_trans; [exact X|apply extends_atmp].
  Qed.

  Lemma extends_load_recs k : forall s p, extends p (lres_pool (load_recs T unser txid accept now expiry opts k s p)).
  Proof.
    induction k as [|k IH]; intros s p; cbn [load_recs]; [apply extends_refl|].
    destruct (unser_rec T unser s) as [r s'|e]; [|apply extends_refl].
    eapply extends_trans; [apply extends_apply_rec|apply IH].
  Qed.

  Lemma extends_apply_deltas m : forall p, extends p (apply_deltas opts p m).
  Proof.
    unfold apply_deltas. destruct (o_apply_fee_delta opts); [|intros; apply extends_refl].
    induction m as [|kv m IH]; intros p; cbn [fold_left]; [apply extends_refl|].
    eapply extends_trans; [apply extends_prioritise|apply IH].
  Qed.

  Lemma extends_apply_unb s : forall p, extends p (apply_unb opts p s).
  Proof.
    unfold apply_unb. destruct (o_apply_unbroadcast opts); [|intros; apply extends_refl].
    induction s as [|k s IH]; intros p; cbn [fold_left]; [apply extends_refl|].
    eapply extends_trans; [|apply IH]. destruct (in_pool k p); [apply extends_add_unb|apply extends_refl].
  Qed.

  Lemma extends_load_tail s p : extends p (lres_pool (load_tail opts s p)).
  Proof.
    unfold load_tail. destruct (unser_vector unser_pair s) as [pairs s1|e]; [|apply extends_refl].
    destruct (unser_vector unser_id s1) as [ids s2|e]; cbn [lres_pool].
    - eapply extends_trans; [apply extends_apply_deltas|apply extends_apply_unb].
    - apply extends_apply_deltas.
  Qed.

  Lemma extends_load_body body p : extends p (lres_pool (load_body T unser txid accept now expiry opts body p)).
  Proof.
    unfold load_body. destruct (read_le 8 body) as [total s|e]; [|apply extends_refl].
    pose proof (extends_load_recs (Z.to_nat (Z.min total (Z.of_nat (length s) + 1))) s p) as X.
    destruct (load_recs _ _ _ _ _ _ _ _ s p) as [q s1|q e]; cbn [lres_pool] in *; [|exact X].
    destruct (_ <? _); cbn [lres_pool]; [exact X|].
    eapply extends_trans; [exact X|apply extends_load_tail].
  Qed.

  (* ARBITRARY BYTES *)
  Theorem load_file_extends file p : extends p (lres_pool (load_file T unser txid accept now expiry opts file p)).
  Proof.
    unfold load_file. destruct (read_le 8 file) as [version s|e]; [|apply extends_refl].
    destruct (version =? MEMPOOL_DUMP_VERSION_NO_XOR_KEY); [apply extends_load_body|].
    destruct (version =? MEMPOOL_DUMP_VERSION); [|apply extends_refl].
    destruct (unser_bytes s) as [key s1|e]; [|apply extends_refl].
    destruct (negb _); [apply extends_refl|apply extends_load_body].
  Qed.

  (* the same, spelled out *)
  Corollary load_file_safe file p :
    let q := lres_pool (load_file T unser txid accept now expiry opts file p) in
    (exists added, idt q = idt p ++ added /\
        forall id time, In (id, time) added -> exists p' t, txid t = id /\ accept p' t time = true)
    /\ (forall id, In id (p_unb p) -> In id (p_unb q))
    /\ (forall id, In id (p_unb q) -> In id (p_unb p) \/ In id (ids_of q)).
  Proof.
    intros q. destruct (load_file_extends file p) as [added [E [F [U V]]]]. fold q in E, U, V.
    split; [|split; assumption].
    exists added. split; [exact E|]. intros id time Hin. rewrite Forall_forall in F. apply (F (id, time) Hin).
  Qed.

  (* whether the load reports success depends on the file bytes only (not on the pool, the clock or normal submission) *)
  Theorem load_ok_iff_parse file p :
    lres_ok (load_file T unser txid accept now expiry opts file p) = true <-> exists d rest, parse_file T unser file = Ok d rest.
  Proof.
    split.
    - destruct (load_file T unser txid accept now expiry opts file p) as [q rest|q e] eqn:L; [|discriminate].
      intros _. apply load_ok_parse in L. destruct L as [d [P _]]. exists d, rest. exact P.
    - intros [d [rest P]]. rewrite (load_parse_ok T unser txid accept now expiry opts file p d rest P). reflexivity.
  Qed.
End Safety.
