(* Generic facts used by the orphanage proofs: sums, duplicate-free lists, association lists. *)
From BV Require Import lib.Ints gen.Params_gen model.Orphanage.
Local Open Scope Z_scope.

(* ---------- zsum_map ---------- *)
Lemma zsum_map_app {A} (f : A -> Z) l1 l2 : zsum_map f (l1 ++ l2) = zsum_map f l1 + zsum_map f l2.
Proof. induction l1 as [|x l1 IH]; simpl; [lia|]. rewrite IH. lia. Qed.
Lemma zsum_map_ext_in {A} (f g : A -> Z) l : (forall a, In a l -> f a = g a) -> zsum_map f l = zsum_map g l.
Proof.
  induction l as [|x l IH]; intros H; [reflexivity|]. simpl. rewrite (H x) by (left; auto).
  rewrite IH; [reflexivity|]. intros a Ha. apply H. right. auto.
Qed.
Lemma zsum_map_nonneg {A} (f : A -> Z) l : (forall a, In a l -> 0 <= f a) -> 0 <= zsum_map f l.
Proof.
  induction l as [|x l IH]; intros H; simpl; [lia|]. pose proof (H x (or_introl eq_refl)).
  assert (0 <= zsum_map f l) by (apply IH; intros a Ha; apply H; right; auto). lia.
Qed.
Lemma zsum_map_le {A} (f : A -> Z) l b : (forall a, In a l -> f a <= b) -> zsum_map f l <= b * Z.of_nat (length l).
Proof.
  induction l as [|x l IH]; intros H; [simpl; lia|]. cbn [zsum_map length]. pose proof (H x (or_introl eq_refl)).
  assert (zsum_map f l <= b * Z.of_nat (length l)) by (apply IH; intros a Ha; apply H; right; auto). lia.
Qed.
Lemma zsum_map_in_le {A} (f : A -> Z) l a : (forall x, In x l -> 0 <= f x) -> In a l -> f a <= zsum_map f l.
Proof.
  induction l as [|x l IH]; intros H Ha; [contradiction|]. simpl. pose proof (H x (or_introl eq_refl)).
  assert (N : 0 <= zsum_map f l) by (apply zsum_map_nonneg; intros y Hy; apply H; right; auto).
  destruct Ha as [->|Ha]; [lia|]. assert (f a <= zsum_map f l) by (apply IH; auto; intros y Hy; apply H; right; auto). lia.
Qed.
Lemma zsum_map_filter_split {A} (f : A -> Z) (P : A -> bool) l :
  zsum_map f l = zsum_map f (filter P l) + zsum_map f (filter (fun a => negb (P a)) l).
Proof. induction l as [|x l IH]; [reflexivity|]. simpl. destruct (P x); simpl; lia. Qed.
Lemma zsum_map_const1 {A} (l : list A) : zsum_map (fun _ => 1) l = Z.of_nat (length l).
Proof. induction l as [|x l IH]; [reflexivity|]. cbn [zsum_map length]. lia. Qed.

(* ---------- sets as lists ---------- *)
Lemma set_mem_true w s : set_mem w s = true <-> In w s.
Proof.
  unfold set_mem. rewrite existsb_exists. split.
  - intros [x [Hx E]]. apply Z.eqb_eq in E. subst. auto.
  - intros H. exists w. split; auto. apply Z.eqb_refl.
Qed.
Lemma set_mem_false w s : set_mem w s = false <-> ~ In w s.
Proof.
  rewrite <- set_mem_true. destruct (set_mem w s).
  - split; [discriminate|]. intros H. exfalso. apply H. reflexivity.
  - split; [discriminate|reflexivity].
Qed.

Lemma in_set_add w v s : In v (set_add w s) <-> v = w \/ In v s.
Proof.
  unfold set_add. destruct (set_mem w s) eqn:E.
  - apply set_mem_true in E. split; [auto|]. intros [->|H]; auto.
  - rewrite in_app_iff. simpl. split; [intros [H|[H|[]]]; auto | intros [->|H]; auto].
Qed.
Lemma nodup_set_add w s : NoDup s -> NoDup (set_add w s).
Proof.
  intros N. unfold set_add. destruct (set_mem w s) eqn:E; [exact N|]. apply set_mem_false in E.
  induction s as [|x s IH]; simpl.
  - constructor; [intros []|constructor].
  - inversion N; subst. constructor.
    + rewrite in_app_iff. simpl. intros [H|[H|[]]]; [auto|]. subst. apply E. left. auto.
    + apply IH; auto. intros H. apply E. right. auto.
Qed.
Lemma in_set_del w v s : In v (set_del w s) <-> v <> w /\ In v s.
Proof. unfold set_del. rewrite filter_In, negb_true_iff, Z.eqb_neq. tauto. Qed.
Lemma nodup_filter {A} (P : A -> bool) l : NoDup l -> NoDup (filter P l).
Proof.
  induction l as [|x l IH]; intros N; [constructor|]. inversion N; subst. simpl. destruct (P x); [|auto].
  constructor; [|auto]. intros H. apply filter_In in H. tauto.
Qed.
Lemma nodup_set_del w s : NoDup s -> NoDup (set_del w s).
Proof. apply nodup_filter. Qed.

(* ---------- dedup ---------- *)
Lemma in_dedup x l : In x (dedup l) <-> In x l.
Proof.
  induction l as [|y l IH]; [tauto|]. cbn [dedup]. destruct (set_mem y l) eqn:E.
  - apply set_mem_true in E. rewrite IH. simpl. split; [auto|]. intros [->|H]; auto.
  - simpl. rewrite IH. tauto.
Qed.
Lemma nodup_dedup l : NoDup (dedup l).
Proof.
  induction l as [|y l IH]; [constructor|]. cbn [dedup]. destruct (set_mem y l) eqn:E; [exact IH|].
  apply set_mem_false in E. constructor; [rewrite in_dedup; exact E|exact IH].
Qed.

(* sum over the distinct elements: adding an element at the end *)
Lemma dedup_sum_snoc (f : Z -> Z) l w :
  zsum_map f (dedup (l ++ [w])) = zsum_map f (dedup l) + (if set_mem w l then 0 else f w).
Proof.
  induction l as [|x l IH].
  - simpl. lia.
  - cbn [app dedup].
    assert (M : set_mem x (l ++ [w]) = set_mem x l || (x =? w)).
    { unfold set_mem. rewrite existsb_app. simpl. rewrite orb_false_r. reflexivity. }
    rewrite M. assert (Mw : set_mem w (x :: l) = (w =? x) || set_mem w l) by reflexivity. rewrite Mw.
    destruct (set_mem x l) eqn:E1; cbn [orb].
    + rewrite IH. destruct (w =? x) eqn:E2; cbn [orb]; [|reflexivity].
      apply Z.eqb_eq in E2. subst. rewrite E1. reflexivity.
    + destruct (x =? w) eqn:E2.
      * apply Z.eqb_eq in E2. subst. rewrite Z.eqb_refl. cbn [orb]. rewrite IH, E1. simpl. lia.
      * rewrite (Z.eqb_sym w x), E2. cbn [orb zsum_map]. rewrite IH. lia.
Qed.

(* ... and removing one occurrence *)
Lemma dedup_sum_remove (f : Z -> Z) l1 w l2 :
  zsum_map f (dedup (l1 ++ l2)) = zsum_map f (dedup (l1 ++ w :: l2)) - (if set_mem w (l1 ++ l2) then 0 else f w).
Proof.
  induction l1 as [|x l1 IH].
  - cbn [app dedup]. destruct (set_mem w l2); cbn [zsum_map]; lia.
  - cbn [app dedup].
    assert (M : set_mem x (l1 ++ w :: l2) = set_mem x (l1 ++ l2) || (x =? w)).
    { unfold set_mem. rewrite !existsb_app. cbn [existsb]. destruct (existsb (Z.eqb x) l1), (x =? w), (existsb (Z.eqb x) l2); reflexivity. }
    rewrite M. assert (Mw : set_mem w (x :: l1 ++ l2) = (w =? x) || set_mem w (l1 ++ l2)) by reflexivity. rewrite Mw.
    destruct (set_mem x (l1 ++ l2)) eqn:E1; cbn [orb].
    + rewrite IH. destruct (w =? x) eqn:E2; cbn [orb]; [|reflexivity].
      apply Z.eqb_eq in E2. subst. rewrite E1. reflexivity.
    + destruct (x =? w) eqn:E2.
      * apply Z.eqb_eq in E2. subst. rewrite Z.eqb_refl. cbn [orb zsum_map]. rewrite IH, E1. simpl. lia.
      * rewrite (Z.eqb_sym w x), E2. cbn [orb zsum_map]. rewrite IH. lia.
Qed.

(* ---------- association lists ---------- *)
Lemma peer_find_set_same p d l : peer_find p (peer_set p d l) = Some d.
Proof.
  induction l as [|[q e] l IH]; simpl; [rewrite Z.eqb_refl; reflexivity|].
  destruct (q =? p) eqn:E; simpl; rewrite E; auto.
Qed.
Lemma peer_find_set_other p q d l : q <> p -> peer_find q (peer_set p d l) = peer_find q l.
Proof.
  intros N. induction l as [|[r e] l IH]; simpl.
  - assert (E : (p =? q) = false) by (apply Z.eqb_neq; auto). rewrite E. reflexivity.
  - destruct (r =? p) eqn:E; simpl.
    + apply Z.eqb_eq in E. subst r. assert (E2 : (p =? q) = false) by (apply Z.eqb_neq; auto). rewrite E2. reflexivity.
    + destruct (r =? q); auto.
Qed.
Lemma peer_find_del_other p q l : q <> p -> peer_find q (peer_del p l) = peer_find q l.
Proof.
  intros N. induction l as [|[r e] l IH]; simpl; [reflexivity|].
  destruct (r =? p) eqn:E; simpl.
  - apply Z.eqb_eq in E. subst r. assert (E2 : (p =? q) = false) by (apply Z.eqb_neq; auto). rewrite E2. reflexivity.
  - destruct (r =? q); auto.
Qed.
Lemma peer_find_in p l : peer_find p l <> None <-> In p (map fst l).
Proof.
  induction l as [|[q e] l IH]; simpl; [split; [congruence|tauto]|].
  destruct (q =? p) eqn:E.
  - apply Z.eqb_eq in E. split; [auto|discriminate].
  - apply Z.eqb_neq in E. rewrite IH. split; [auto|]. intros [H|H]; [contradiction|auto].
Qed.
Lemma peer_find_del_same p l : NoDup (map fst l) -> peer_find p (peer_del p l) = None.
Proof.
  induction l as [|[q e] l IH]; intros N; simpl; [reflexivity|]. inversion N; subst.
  destruct (q =? p) eqn:E; simpl.
  - apply Z.eqb_eq in E. subst q. destruct (peer_find p l) eqn:F; [|reflexivity].
    exfalso. apply H1. apply peer_find_in. congruence.
  - rewrite E. auto.
Qed.
Lemma peer_set_keys p d l : forall q, In q (map fst (peer_set p d l)) <-> q = p \/ In q (map fst l).
Proof.
  intros q. induction l as [|[r e] l IH]; simpl; [intuition congruence|].
  destruct (r =? p) eqn:E; simpl.
  - apply Z.eqb_eq in E. subst. intuition congruence.
  - rewrite IH. intuition congruence.
Qed.
Lemma peer_set_nodup p d l : NoDup (map fst l) -> NoDup (map fst (peer_set p d l)).
Proof.
  induction l as [|[r e] l IH]; intros N; simpl; [constructor; [intros []|constructor]|].
  inversion N; subst. destruct (r =? p) eqn:E; simpl.
  - constructor; auto.
  - constructor; [|auto]. rewrite peer_set_keys. intros [->|H]; [apply Z.eqb_neq in E; auto|auto].
Qed.
Lemma peer_del_keys p l : NoDup (map fst l) -> forall q, In q (map fst (peer_del p l)) <-> q <> p /\ In q (map fst l).
Proof.
  induction l as [|[r e] l IH]; intros N q; simpl; [tauto|]. inversion N; subst.
  destruct (r =? p) eqn:E; simpl.
  - apply Z.eqb_eq in E. subst. split; [intros H; split; auto; intros ->; auto | intros [A [B|B]]; [congruence|auto]].
  - apply Z.eqb_neq in E. rewrite (IH H2). split; [intros [->|[A B]]; auto | intros [A [B|B]]; auto].
Qed.
Lemma peer_del_nodup p l : NoDup (map fst l) -> NoDup (map fst (peer_del p l)).
Proof.
  induction l as [|[r e] l IH]; intros N; simpl; [constructor|]. inversion N; subst.
  destruct (r =? p); simpl; [auto|]. constructor; [|auto]. rewrite (peer_del_keys p l H2). tauto.
Qed.

(* ---------- the outpoint map under a fold of updates ---------- *)
Lemma op_eqb_true a b : op_eqb a b = true <-> a = b.
Proof.
  unfold op_eqb. rewrite andb_true_iff, !Z.eqb_eq. destruct a, b; simpl. split; [intros [-> ->]; auto | intros H; inversion H; auto].
Qed.
Lemma op_eqb_refl a : op_eqb a a = true.
Proof. apply op_eqb_true. reflexivity. Qed.

Lemma om_fold (upd : list Z -> list Z) (ks : list outpoint) (m : outpoint -> list Z) (k : outpoint) :
  (forall s, upd (upd s) = upd s) ->
  fold_left (fun m0 k0 => om_set m0 k0 (upd (m0 k0))) ks m k = if existsb (op_eqb k) ks then upd (m k) else m k.
Proof.
  intros Idem. revert m. induction ks as [|k0 ks IH]; intros m; [reflexivity|]. cbn [fold_left existsb].
  rewrite IH. unfold om_set. destruct (op_eqb k k0) eqn:E.
  - apply op_eqb_true in E. subst k0. cbn [orb]. destruct (existsb (op_eqb k) ks); [apply Idem|reflexivity].
  - cbn [orb]. reflexivity.
Qed.
