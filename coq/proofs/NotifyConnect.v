(* C63 -- ConnectTip with a lagging subscriber, the BlockConnected burst, a whole step. *)
From BV Require Import lib.Ints model.Notify proofs.NotifyPool proofs.NotifySteps.
Local Open Scope Z_scope.

Inductive subseq : list block -> list block -> Prop :=
| sq_nil : forall l, subseq [] l
| sq_skip : forall a x l, subseq a l -> subseq a (x :: l)
| sq_take : forall a x l, subseq a l -> subseq (x :: a) (x :: l).

Lemma subseq_tail x a l : subseq (x :: a) l -> subseq a l.
Proof.
  intros H. remember (x :: a) as xa eqn:E. revert x a E. induction H; intros y b E; try discriminate.
  - apply sq_skip. eapply IHsubseq. exact E.
  - inversion E; subst. apply sq_skip. exact H.
Qed.

Lemma subseq_app_r a l r : subseq a l -> subseq a (l ++ r).
Proof. induction 1; simpl; [apply sq_nil | apply sq_skip; auto | apply sq_take; auto]. Qed.

Lemma subseq_snoc a l x : subseq a l -> subseq (a ++ [x]) (l ++ [x]).
Proof.
  induction 1; simpl.
  - induction l as [|y l IH]; simpl; [apply sq_take, sq_nil | apply sq_skip; exact IH].
  - apply sq_skip. exact IHsubseq.
  - apply sq_take. exact IHsubseq.
Qed.

Lemma subseq_nil_inv a : subseq a [] -> a = [].
Proof. intros H. inversion H; reflexivity. Qed.

(* cs (oldest first) are connected one after the other on top of base *)
Fixpoint links (T : tree) (cs : list block) (base : list block) : Prop :=
  match cs with
  | [] => True
  | c :: cs' => (exists bi, T c = Some bi /\ match base with p :: _ => bi_prev bi = p | [] => False end) /\ links T cs' (c :: base)
  end.

Lemma links_snoc T b : forall cs base,
  links T cs base ->
  (exists bi, T b = Some bi /\ match rev cs ++ base with p :: _ => bi_prev bi = p | [] => False end) ->
  links T (cs ++ [b]) base.
Proof.
  induction cs as [|c cs IH]; intros base H Hb; simpl in *.
  - split; [exact Hb | exact I].
  - destruct H as [H1 H2]. split; [exact H1|]. apply IH; [exact H2|]. rewrite <- app_assoc in Hb. exact Hb.
Qed.

Definition pend_ok (T : tree) (x : block * list txid) : Prop := forall t, In t (snd x) -> In t (txs_of T (fst x)).

Definition lag (T : tree) (base cs : list block) (s : nstate) (sp : list txid) (pend : list (block * list txid)) : Prop :=
  ns_chain s = rev cs ++ base /\
  ns_pool s = rem_all (flat_map (txs_of T) cs) sp /\
  subseq (map fst pend) cs /\ Forall (pend_ok T) pend /\ links T cs base.

Lemma conn_rem_ok_block txs l : forallb (conn_rem_ok txs) l = true -> forall t, In t (block_removed l) -> In t txs.
Proof.
  intros H t Ht. unfold block_removed in Ht. apply in_map_iff in Ht. destruct Ht as [[t' r] [E Hf]]. cbn in E. subst t.
  apply filter_In in Hf. destruct Hf as [Hin Hr]. rewrite forallb_forall in H. specialize (H _ Hin).
  unfold conn_rem_ok in H. simpl in *. destruct r; simpl in Hr; try discriminate. apply memb_In. exact H.
Qed.

Lemma connect_sub tol T base low : forall c s s1 e cs sp pend,
  connect_tip T s c = Some (s1, e) ->
  ninv T s -> lag T base cs s sp pend ->
  exists sp1 pend1,
    sub_run tol (mk_ss (annotate T base) sp pend low) e = Some (mk_ss (annotate T base) sp1 pend1 low)
    /\ lag T base (cs ++ [c_blk c]) s1 sp1 pend1 /\ ninv T s1.
Proof.
  intros c s s1 e cs sp pend H [Hok Hnd Hfr] (Lc & Lp & Lq & Lf & Ll). unfold connect_tip in H.
  destruct (T (c_blk c)) as [bi|] eqn:Eb; [|discriminate].
  destruct (ns_chain s) as [|tp rest] eqn:Ec; [discriminate|].
  destruct (bi_prev bi =? tp) eqn:Eprev; cbn [negb] in H; [|discriminate]. apply Z.eqb_eq in Eprev.
  destruct (memb (c_blk c) (tp :: rest)) eqn:Emem; [discriminate|].
  destruct (forallb (conn_rem_ok (bi_txs bi)) (c_rem c)) eqn:Eok; cbn [negb] in H; [|discriminate].
  destruct (apply_rems (ns_pool s) (c_rem c)) as [[p' ev]|] eqn:Er; [|discriminate].
  destruct (existsb (fun t => memb t p') (bi_txs bi)) eqn:Eleft; [discriminate|].
  inversion H; subst s1 e. clear H.
  pose proof (apply_rems_spec _ _ _ _ Er) as (Hp' & _ & Hndl & Hinl).
  set (X := flat_map (txs_of T) cs) in *.
  set (l := c_rem c) in *.
  assert (Htxs : txs_of T (c_blk c) = bi_txs bi) by (unfold txs_of; rewrite Eb; reflexivity).
  assert (Hpsub : forall x, In x (ns_pool s) -> In x sp).
  { intros x Hx. rewrite Lp in Hx. apply rem_all_In in Hx. tauto. }
  assert (S1 : sub_run tol (mk_ss (annotate T base) sp pend low) ev = Some (mk_ss (annotate T base) (rem_all (nonblock l) sp) pend low)).
  { apply sub_follows_rems with (p := ns_pool s) (p' := p') (extra := []).
    - exact Er.
    - intros x Hx. left. apply Hpsub. exact Hx.
    - intros x [].
    - right. intros x []. }
  assert (Hnoleft : forall x, In x (bi_txs bi) -> ~ In x p').
  { intros x Hx Hin. assert (existsb (fun t => memb t p') (bi_txs bi) = true) by (apply existsb_exists; exists x; split; [exact Hx | apply memb_In; exact Hin]). congruence. }
  assert (Hchain' : c_blk c :: tp :: rest = rev (cs ++ [c_blk c]) ++ base).
  { rewrite rev_app_distr. simpl. rewrite <- Lc. reflexivity. }
  assert (Hlinks' : links T (cs ++ [c_blk c]) base).
  { apply links_snoc; [exact Ll|]. exists bi. split; [exact Eb|]. rewrite <- Lc. exact Eprev. }
  assert (Hinv' : forall ibd', ninv T {| ns_chain := c_blk c :: tp :: rest; ns_pool := p'; ns_ibd := ibd' |}).
  { intros ibd'. constructor; simpl.
    - split; [exists bi; split; [exact Eb | exact Eprev] | exact Hok].
    - constructor; [apply memb_false; exact Emem | exact Hnd].
    - intros t Ht. apply confirmed_false. intros b [Hb|Hb].
      + subst b. rewrite Htxs. intro Hx. exact (Hnoleft t Hx Ht).
      + assert (Htp : In t (ns_pool s)) by (rewrite Hp' in Ht; apply rem_all_In in Ht; tauto).
        apply Hfr in Htp. rewrite confirmed_false in Htp. apply Htp. exact Hb. }
  assert (Hflat : flat_map (txs_of T) (cs ++ [c_blk c]) = X ++ bi_txs bi).
  { rewrite flat_map_app. simpl. rewrite Htxs, app_nil_r. reflexivity. }
  assert (F1 : forall x, In x (block_removed l) -> In x (bi_txs bi)) by (intros x Hx; eapply conn_rem_ok_block; eauto).
  assert (F2 : forall x, In x sp -> In x (bi_txs bi) -> In x X \/ In x (block_removed l) \/ In x (nonblock l)).
  { intros x Hx Hx1.
    destruct (in_dec Z.eq_dec x X) as [Hi|Hi]; [left; exact Hi|].
    destruct (in_dec Z.eq_dec x (map fst l)) as [Hj|Hj]; [right; apply block_removed_nonblock_split; exact Hj|].
    exfalso. apply (Hnoleft x Hx1). rewrite Hp', Lp. apply rem_all_In. split; [apply rem_all_In; split; assumption | exact Hj]. }
  destruct (ns_ibd s && negb (c_recent c)) eqn:Eibd.
  - (* initial block download: no MempoolTransactionsRemovedForBlock *)
    exists (rem_all (nonblock l) sp), pend. split; [|split].
    + rewrite app_nil_r. exact S1.
    + unfold lag. cbn [ns_chain ns_pool]. split; [exact Hchain'|]. split; [|split; [|split]].
      * rewrite Hflat, Hp', Lp. rewrite !rem_all_rem_all. apply rem_all_ext. intros x Hx. rewrite !in_app_iff.
        rewrite (block_removed_nonblock_split l x). specialize (F1 x). specialize (F2 x Hx). tauto.
      * apply subseq_app_r. exact Lq.
      * exact Lf.
      * exact Hlinks'.
    + apply Hinv'.
  - exists (rem_all (block_removed l) (rem_all (nonblock l) sp)), (pend ++ [(c_blk c, block_removed l)]). split; [|split].
    + rewrite sub_run_app, S1. cbv beta iota. simpl.
      assert (E1 : nodupb (block_removed l) = true) by (apply nodupb_NoDup; apply block_removed_NoDup; exact Hndl).
      assert (E2 : forallb (fun t => memb t (rem_all (nonblock l) sp)) (block_removed l) = true).
      { apply forallb_forall. intros x Hx. apply memb_In. apply rem_all_In. split.
        - apply Hpsub. apply Hinl. apply block_removed_nonblock_split. left; exact Hx.
        - intro Hn. exact (block_removed_disjoint l x Hndl Hx Hn). }
      rewrite E1, E2. reflexivity.
    + unfold lag. cbn [ns_chain ns_pool]. split; [exact Hchain'|]. split; [|split; [|split]].
      * rewrite Hflat, Hp', Lp. rewrite !rem_all_rem_all. apply rem_all_ext. intros x Hx. rewrite !in_app_iff.
        rewrite (block_removed_nonblock_split l x). specialize (F1 x). specialize (F2 x Hx). tauto.
      * rewrite map_app. simpl. apply subseq_snoc. exact Lq.
      * apply Forall_app. split; [exact Lf|]. constructor; [|constructor].
        unfold pend_ok. simpl. intros t Ht. rewrite Htxs. eapply conn_rem_ok_block; eauto.
      * exact Hlinks'.
    + apply Hinv'.
Qed.

Lemma connect_tips_sub tol T base low : forall l s s2 e2 cs sp pend,
  connect_tips T s l = Some (s2, e2) ->
  ninv T s -> lag T base cs s sp pend ->
  exists sp2 pend2,
    sub_run tol (mk_ss (annotate T base) sp pend low) e2 = Some (mk_ss (annotate T base) sp2 pend2 low)
    /\ lag T base (cs ++ map c_blk l) s2 sp2 pend2 /\ ninv T s2.
Proof.
  induction l as [|c l IH]; intros s s2 e2 cs sp pend H Hinv Hlag; simpl in H.
  - inversion H; subst. exists sp, pend. simpl. rewrite app_nil_r. auto.
  - destruct (connect_tip T s c) as [[s1 e1]|] eqn:E1; [|discriminate].
    destruct (connect_tips T s1 l) as [[s3 e3]|] eqn:E3; [|discriminate].
    inversion H; subst. clear H.
    destruct (connect_sub tol T base low c s s1 e1 cs sp pend E1 Hinv Hlag) as (sp1 & pend1 & S1 & Hlag1 & Hinv1).
    destruct (IH s1 s2 e3 _ sp1 pend1 E3 Hinv1 Hlag1) as (sp2 & pend2 & S2 & Hlag2 & Hinv2).
    exists sp2, pend2. split; [|split]; auto.
    + rewrite sub_run_app, S1. exact S2.
    + simpl. rewrite <- app_assoc in Hlag2. exact Hlag2.
Qed.

(* ---- the BlockConnected burst ---- *)

Definition ev_conn (T : tree) (b : block) : event :=
  match T b with Some bi => EvConn b (bi_prev bi) (bi_txs bi) | None => EvConn b 0 [] end.

Lemma conn_event_ev_conn T l : map (conn_event T) l = map (ev_conn T) (map c_blk l).
Proof. rewrite map_map. reflexivity. Qed.

Lemma conn_events_sub tol T low : forall cs base sp pend,
  links T cs base -> subseq (map fst pend) cs -> Forall (pend_ok T) pend ->
  sub_run tol (mk_ss (annotate T base) sp pend low) (map (ev_conn T) cs)
    = Some (mk_ss (annotate T (rev cs ++ base)) (rem_all (flat_map (txs_of T) cs) sp) [] low).
Proof.
  induction cs as [|c cs IH]; intros base sp pend Hl Hq Hf.
  - simpl in *. apply subseq_nil_inv in Hq. apply map_eq_nil in Hq. subst pend. reflexivity.
  - simpl in Hl. destruct Hl as [[bi [Eb Hprev]] Hl']. destruct base as [|p base']; [contradiction|].
    assert (Htxs : txs_of T c = bi_txs bi) by (unfold txs_of; rewrite Eb; reflexivity).
    cbn [map]. unfold ev_conn at 1. rewrite Eb.
    cbn [sub_run]. unfold sub_step. cbn [ss_chain ss_pool ss_pend ss_low mk_ss].
    rewrite annotate_cons. rewrite Hprev, Z.eqb_refl. cbn [negb].
    assert (Hgoal : forall pend', subseq (map fst pend') cs -> Forall (pend_ok T) pend' ->
              sub_run tol (mk_ss ((c, bi_txs bi) :: (p, txs_of T p) :: annotate T base') (rem_all (bi_txs bi) sp) pend' low) (map (ev_conn T) cs)
              = Some (mk_ss (annotate T (rev (c :: cs) ++ p :: base')) (rem_all (flat_map (txs_of T) (c :: cs)) sp) [] low)).
    { intros pend' Hq' Hf'. rewrite <- Htxs. rewrite <- !annotate_cons.
      rewrite (IH (c :: p :: base') (rem_all (txs_of T c) sp) pend' Hl' Hq' Hf').
      simpl. rewrite <- app_assoc. simpl. rewrite rem_all_app. reflexivity. }
    destruct pend as [|[b' rtxs] pend'].
    + apply Hgoal; [apply sq_nil | constructor].
    + destruct (b' =? c) eqn:Ebc.
      * apply Z.eqb_eq in Ebc. subst b'.
        assert (Esub : forallb (fun t => memb t (bi_txs bi)) rtxs = true).
        { apply forallb_forall. intros t Ht. apply memb_In. inversion Hf; subst. rewrite <- Htxs. apply (H1 t Ht). }
        rewrite Esub. apply Hgoal.
        -- simpl in Hq. inversion Hq; subst; [eapply subseq_tail; eauto | assumption].
        -- inversion Hf; assumption.
      * apply Hgoal; [|exact Hf]. simpl in Hq. inversion Hq; subst; [assumption|]. rewrite Z.eqb_refl in Ebc. discriminate.
Qed.

(* ---- a whole ActivateBestChainStep with its BlockConnected burst ---- *)

Definition nse_step (st : step) : Prop := nse_mpops (st_fix st).

Lemma step_sub tol T start s st s' ev low :
  exec_step T s st = Some (s', ev) ->
  ninv T s -> lowrel start (ns_chain s) low -> (tol = true \/ nse_step st) ->
  exists low',
    sub_run tol (mk_ss (annotate T (ns_chain s)) (ns_pool s) [] low) ev
      = Some (mk_ss (annotate T (ns_chain s')) (ns_pool s') [] low')
    /\ ninv T s' /\ lowrel start (ns_chain s') low'
    /\ ns_chain s' = rev (map c_blk (st_conn st)) ++ skipn (length (st_disc st)) (ns_chain s)
    /\ (length (st_disc st) <= length (ns_chain s))%nat.
Proof.
  intros H Hinv Hlow Htol. unfold exec_step in H.
  assert (H' : match disconnect_tips T s (st_disc st) with
               | None => None
               | Some (s1, e1) =>
                   match connect_tips T s1 (st_conn st) with
                   | None => None
                   | Some (s2, e2) =>
                       match exec_mpops T (ns_chain s2) (ns_pool s2) (st_fix st) with
                       | None => None
                       | Some (p3, e3) => Some ({| ns_chain := ns_chain s2; ns_pool := p3; ns_ibd := ns_ibd s2 |}, e1 ++ e2 ++ e3 ++ map (conn_event T) (st_conn st))
                       end
                   end
               end = Some (s', ev)).
  { destruct (st_disc st); [destruct (st_fix st); [exact H | discriminate] | exact H]. }
  clear H.
  destruct (disconnect_tips T s (st_disc st)) as [[s1 e1]|] eqn:E1; [|discriminate].
  destruct (connect_tips T s1 (st_conn st)) as [[s2 e2]|] eqn:E2; [|discriminate].
  destruct (exec_mpops T (ns_chain s2) (ns_pool s2) (st_fix st)) as [[p3 e3]|] eqn:E3; [|discriminate].
  inversion H'; subst s' ev. clear H'.
  destruct (disconnect_tips_sub tol T start _ s s1 e1 low E1 Hinv Hlow) as (low' & S1 & Hc1 & Hlen & Hinv1 & Hlow1).
  set (base := ns_chain s1) in *.
  assert (Hlag0 : lag T base [] s1 (ns_pool s1) []).
  { unfold lag. simpl. repeat split; auto; constructor. }
  destruct (connect_tips_sub tol T base low' _ s1 s2 e2 [] (ns_pool s1) [] E2 Hinv1 Hlag0) as (sp2 & pend2 & S2 & Hlag2 & Hinv2).
  simpl in Hlag2. destruct Hlag2 as (Lc & Lp & Lq & Lf & Ll).
  set (cs := map c_blk (st_conn st)) in *.
  destruct (mpops_sub tol T (ns_chain s2) (annotate T base) (st_fix st) (ns_pool s2) p3 e3 (flat_map (txs_of T) cs) sp2 pend2 low' E3 Lp) as (sp3 & S3 & Hp3).
  { intros t Ht. apply in_flat_map in Ht. destruct Ht as [b [Hb Ht]]. apply confirmed_true. exists b. split; [|exact Ht].
    rewrite Lc. apply in_or_app. left. apply in_rev in Hb. exact Hb. }
  { intros t Ht. rewrite sub_confirmed_annotate in Ht. eapply confirmed_mono; [|exact Ht]. intros b Hb. rewrite Lc. apply in_or_app. right; exact Hb. }
  { exact Htol. }
  exists low'. cbn [ns_chain ns_pool]. split; [|split; [|split; [|split]]].
  - rewrite sub_run_app, S1. cbv beta iota. rewrite sub_run_app, S2. cbv beta iota. rewrite sub_run_app, S3. cbv beta iota.
    rewrite conn_event_ev_conn. fold cs. rewrite (conn_events_sub tol T low' cs base sp3 pend2 Ll Lq Lf).
    rewrite <- Lc, <- Hp3. reflexivity.
  - destruct Hinv2 as [Hok2 Hnd2 Hfr2]. constructor; cbn [ns_chain ns_pool]; auto.
    eapply mpops_fresh; eauto.
  - rewrite Lc. apply lowrel_app. exact Hlow1.
  - rewrite Lc. f_equal. exact Hc1.
  - exact Hlen.
Qed.
