From Coq Require Import ZifyBool.
From BV Require Import lib.Ints gen.Params_gen model.VersionBits.
Local Open Scope Z_scope.

(* ------------------------------------------------------------------------------------------ *)
(* well-formed trees, ancestors                                                                 *)

Definition wf_vnode (t : vtree) (i : nat) (nd : vnode) : Prop :=
  0 <= vn_height nd /\
  match vn_parent nd with
  | None => vn_height nd = 0
  | Some p => (p < i)%nat /\ exists pn, vnode_at t p = Some pn /\ vn_height nd = vn_height pn + 1
  end.
Definition wf_vtree (t : vtree) : Prop := forall i nd, vnode_at t i = Some nd -> wf_vnode t i nd.

Lemma vnode_at_lt t i nd : vnode_at t i = Some nd -> (i < length t)%nat.
Proof. unfold vnode_at. intros H. apply nth_error_Some. congruence. Qed.
Lemma vnode_at_app_old t x i : (i < length t)%nat -> vnode_at (t ++ x) i = vnode_at t i.
Proof. intros H. unfold vnode_at. apply nth_error_app1. exact H. Qed.
Lemma vnode_at_app_new t n : vnode_at (t ++ [n]) (length t) = Some n.
Proof. unfold vnode_at. rewrite nth_error_app2 by lia. rewrite Nat.sub_diag. reflexivity. Qed.

Lemma vadd_wf t parent time version : wf_vtree t -> wf_vtree (vadd t parent time version).
Proof.
  intros Hwf. unfold vadd.
  assert (Hext : forall n, wf_vnode t (length t) n -> wf_vtree (t ++ [n])).
  { intros n Hn i nd Hi. destruct (Nat.lt_ge_cases i (length t)) as [Hlt|Hge].
    - rewrite vnode_at_app_old in Hi by exact Hlt. destruct (Hwf i nd Hi) as [H0 Hp]. split; [exact H0|].
      destruct (vn_parent nd) as [p|]; [|exact Hp]. destruct Hp as (Hpl & pn & Hpn & Hh).
      split; [exact Hpl|]. exists pn. rewrite vnode_at_app_old by lia. split; assumption.
    - pose proof (vnode_at_lt _ _ _ Hi) as Hl. rewrite app_length in Hl. cbn [length] in Hl.
      assert (i = length t) by lia. subst i. rewrite vnode_at_app_new in Hi. injection Hi as <-.
      destruct Hn as [H0 Hp]. split; [exact H0|]. destruct (vn_parent n) as [p|]; [|exact Hp].
      destruct Hp as (Hpl & pn & Hpn & Hh). split; [exact Hpl|]. exists pn.
      rewrite vnode_at_app_old by lia. split; assumption. }
  destruct parent as [p|].
  - destruct (vnode_at t p) as [pn|] eqn:Hpn; [|exact Hwf]. apply Hext.
    destruct (Hwf p pn Hpn) as [H0 _]. split; cbn [vn_height vn_parent]; [lia|].
    split; [apply (vnode_at_lt _ _ _ Hpn)|]. exists pn. split; [exact Hpn|reflexivity].
  - apply Hext. split; cbn [vn_height vn_parent]; [lia|reflexivity].
Qed.

Lemma vbuild_wf blocks : wf_vtree (vbuild blocks).
Proof.
  unfold vbuild.
  assert (G : forall t, wf_vtree t -> wf_vtree (fold_left (fun t b => vadd t (fst (fst b)) (snd (fst b)) (snd b)) blocks t)).
  { induction blocks as [|b r IH]; intros t Ht; [exact Ht|]. cbn [fold_left]. apply IH. apply vadd_wf. exact Ht. }
  apply G. intros i nd H. destruct i; discriminate.
Qed.

Lemma vwalk_add t : forall k1 b k2,
  vwalk t b (k1 + k2) = match vwalk t b k1 with Some a => vwalk t a k2 | None => None end.
Proof.
  induction k1 as [|k1 IH]; intros b k2; [reflexivity|].
  cbn [vwalk Nat.add]. destruct (vnode_at t b) as [nd|]; [|reflexivity].
  destruct (vn_parent nd) as [p|]; [apply IH|reflexivity].
Qed.

Lemma vwalk_height t : wf_vtree t -> forall k b nd, vnode_at t b = Some nd -> Z.of_nat k <= vn_height nd ->
  exists a na, vwalk t b k = Some a /\ vnode_at t a = Some na /\ vn_height na = vn_height nd - Z.of_nat k.
Proof.
  intros Hwf. induction k as [|k IH]; intros b nd Hb Hk.
  - exists b, nd. cbn [vwalk]. repeat split; try assumption; lia.
  - cbn [vwalk]. rewrite Hb. destruct (Hwf b nd Hb) as [H0 Hp]. destruct (vn_parent nd) as [p|].
    + destruct Hp as (Hlt & pn & Hpn & Hh). destruct (IH p pn Hpn ltac:(lia)) as (a & na & Ha & Hna & Hha).
      exists a, na. repeat split; try assumption; lia.
    + lia.
Qed.

Lemma v_ancestor_some t : wf_vtree t -> forall b nd h, vnode_at t b = Some nd -> 0 <= h <= vn_height nd ->
  exists a na, v_ancestor t b h = Some a /\ vnode_at t a = Some na /\ vn_height na = h.
Proof.
  intros Hwf b nd h Hb Hh. unfold v_ancestor. rewrite Hb. replace (_ && _) with true by lia.
  destruct (vwalk_height t Hwf (Z.to_nat (vn_height nd - h)) b nd Hb ltac:(lia)) as (a & na & Ha & Hna & Hha).
  exists a, na. repeat split; try assumption; lia.
Qed.

Lemma v_ancestor_none t b nd h : vnode_at t b = Some nd -> ~ (0 <= h <= vn_height nd) -> v_ancestor t b h = None.
Proof. intros Hb Hh. unfold v_ancestor. rewrite Hb. replace (_ && _) with false by lia. reflexivity. Qed.

Lemma v_ancestor_trans t : wf_vtree t -> forall b nd h1 a h2, vnode_at t b = Some nd ->
  v_ancestor t b h1 = Some a -> h2 <= h1 -> v_ancestor t a h2 = v_ancestor t b h2.
Proof.
  intros Hwf b nd h1 a h2 Hb Ha Hh.
  assert (Hr : 0 <= h1 <= vn_height nd).
  { unfold v_ancestor in Ha. rewrite Hb in Ha. destruct (_ && _) eqn:E in Ha; [lia|discriminate]. }
  destruct (v_ancestor_some t Hwf b nd h1 Hb Hr) as (a' & na & Ha' & Hna & Hha).
  rewrite Ha in Ha'. injection Ha' as <-.
  destruct (Z_lt_le_dec h2 0) as [Hneg|Hpos].
  - rewrite (v_ancestor_none t a na h2 Hna ltac:(lia)). rewrite (v_ancestor_none t b nd h2 Hb ltac:(lia)). reflexivity.
  - unfold v_ancestor in *. rewrite Hb in *. rewrite Hna, Hha.
    replace ((0 <=? h1) && (h1 <=? vn_height nd)) with true in Ha by lia.
    replace ((0 <=? h2) && (h2 <=? h1)) with true by lia.
    replace ((0 <=? h2) && (h2 <=? vn_height nd)) with true by lia.
    replace (Z.to_nat (vn_height nd - h2)) with (Z.to_nat (vn_height nd - h1) + Z.to_nat (h1 - h2))%nat by lia.
    rewrite vwalk_add, Ha. reflexivity.
Qed.

(* ------------------------------------------------------------------------------------------ *)
(* the specification function unfolds one period at a time                                      *)

Lemma key_height_prev t P b : wf_vtree t -> 0 < vp_period P ->
  key_height t (prev_boundary t P b) < key_height t (Some b) /\ -1 <= key_height t (prev_boundary t P b).
Proof.
  intros Hwf Hp. unfold prev_boundary. cbn [key_height].
  destruct (vnode_at t b) as [nd|] eqn:Hb; [|cbn [key_height]; lia].
  destruct (Hwf b nd Hb) as [H0 _].
  destruct (Z_le_gt_dec 0 (vn_height nd - vp_period P)) as [Hge|Hlt].
  - destruct (v_ancestor_some t Hwf b nd (vn_height nd - vp_period P) Hb ltac:(lia)) as (a & na & Ha & Hna & Hha).
    rewrite Ha. cbn [key_height]. rewrite Hna. lia.
  - rewrite (v_ancestor_none t b nd (vn_height nd - vp_period P) Hb ltac:(lia)). cbn [key_height]. lia.
Qed.

Lemma key_height_lower t k : wf_vtree t -> -1 <= key_height t k.
Proof.
  intros Hwf. destruct k as [b|]; cbn [key_height]; [|lia].
  destruct (vnode_at t b) as [nd|] eqn:Hb; [|lia]. destruct (Hwf b nd Hb). lia.
Qed.

Lemma boundaries_fuel_enough t P : wf_vtree t -> 0 < vp_period P -> forall f1 f2 k,
  key_height t k + 1 < Z.of_nat f1 -> key_height t k + 1 < Z.of_nat f2 ->
  boundaries_fuel t P f1 k = boundaries_fuel t P f2 k.
Proof.
  intros Hwf Hp. induction f1 as [|f1 IH]; intros f2 k H1 H2.
  { pose proof (key_height_lower t k Hwf). lia. }
  destruct f2 as [|f2]; [pose proof (key_height_lower t k Hwf); lia|].
  cbn [boundaries_fuel]. destruct k as [b|]; [|reflexivity]. f_equal.
  pose proof (key_height_prev t P b Hwf Hp) as [Hlt Hge]. apply IH; lia.
Qed.

Lemma boundaries_unfold t P b : wf_vtree t -> 0 < vp_period P ->
  boundaries t P (Some b) = b :: boundaries t P (prev_boundary t P b).
Proof.
  intros Hwf Hp. unfold boundaries at 1. cbn [boundaries_fuel]. f_equal. unfold boundaries.
  pose proof (key_height_prev t P b Hwf Hp) as [Hlt Hge].
  pose proof (key_height_lower t (Some b) Hwf).
  apply boundaries_fuel_enough; try assumption; lia.
Qed.

Lemma state_of_key_none t P : state_of_key t P None = Some DEFINED.
Proof. reflexivity. Qed.

Lemma state_of_key_unfold t P b : wf_vtree t -> 0 < vp_period P ->
  state_of_key t P (Some b) = spec_step t P b (state_of_key t P (prev_boundary t P b)).
Proof. intros Hwf Hp. unfold state_of_key. rewrite boundaries_unfold by assumption. reflexivity. Qed.

(* ------------------------------------------------------------------------------------------ *)
(* the cache never changes an answer                                                            *)

Definition cache_sound (t : vtree) (P : vb_params) (c : cache) : Prop :=
  forall k s, cache_get c k = Some s -> state_of_key t P k = Some s.

Lemma key_eqb_eq a b : key_eqb a b = true -> a = b.
Proof.
  destruct a as [x|], b as [y|]; cbn [key_eqb]; intros H; try discriminate; [|reflexivity].
  apply Nat.eqb_eq in H. congruence.
Qed.

Lemma cache_set_sound t P c k s : cache_sound t P c -> state_of_key t P k = Some s -> cache_sound t P (cache_set c k s).
Proof.
  intros Hc Hk k' s' H. unfold cache_set in H. cbn [cache_get] in H.
  destruct (key_eqb k k') eqn:E.
  - apply key_eqb_eq in E. subst k'. injection H as <-. exact Hk.
  - apply Hc. exact H.
Qed.

Lemma cache_sound_nil t P : cache_sound t P [].
Proof. intros k s H. discriminate. Qed.

Fixpoint steps (t : vtree) (P : vb_params) (k' : key) (bs : list nat) (k : key) : Prop :=
  match bs with
  | [] => k = k'
  | b :: r => prev_boundary t P b = k' /\ (exists m, v_mtp t b = Some m /\ vp_start P <= m) /\ steps t P (Some b) r k
  end.

Lemma walk_back_ok t P : wf_vtree t -> 0 < vp_period P -> forall fuel k c acc k0 k' c' todo,
  cache_sound t P c -> steps t P k acc k0 -> walk_back t P fuel k c acc = Some (k', c', todo) ->
  cache_sound t P c' /\ (exists s, cache_get c' k' = Some s) /\ steps t P k' todo k0.
Proof.
  intros Hwf Hp. induction fuel as [|f IH]; intros k c acc k0 k' c' todo Hc Hs H; [discriminate|].
  cbn [walk_back] in H. destruct (cache_get c k) as [s|] eqn:Eg.
  - injection H as <- <- <-. split; [exact Hc|]. split; [exists s; exact Eg|exact Hs].
  - destruct k as [b|].
    + destruct (v_mtp t b) as [m|] eqn:Em; [|discriminate].
      destruct (m <? vp_start P) eqn:Elt.
      * injection H as <- <- <-. split.
        -- apply cache_set_sound; [exact Hc|]. rewrite state_of_key_unfold by assumption.
           unfold spec_step. rewrite Em, Elt. reflexivity.
        -- split; [|exact Hs]. exists DEFINED. unfold cache_set. cbn [cache_get key_eqb]. rewrite Nat.eqb_refl. reflexivity.
      * apply (IH (prev_boundary t P b) c (b :: acc) k0 k' c' todo Hc); [|exact H].
        cbn [steps]. split; [reflexivity|]. split; [exists m; split; [exact Em|lia]|exact Hs].
    + injection H as <- <- <-. split.
      * apply cache_set_sound; [exact Hc|reflexivity].
      * split; [|exact Hs]. exists DEFINED. reflexivity.
Qed.

Lemma forward_ok t P : wf_vtree t -> 0 < vp_period P -> forall todo s c k' k0 sf c',
  cache_sound t P c -> state_of_key t P k' = Some s -> steps t P k' todo k0 ->
  forward t P todo s c = Some (sf, c') ->
  state_of_key t P k0 = Some sf /\ cache_sound t P c'.
Proof.
  intros Hwf Hp. induction todo as [|b r IH]; intros s c k' k0 sf c' Hc Hk Hs H.
  - cbn [forward] in H. injection H as <- <-. cbn [steps] in Hs. subst k0. split; assumption.
  - cbn [forward] in H. cbn [steps] in Hs. destruct Hs as (Hprev & (m & Em & Hm) & Hrest).
    destruct (transition t P s b) as [s'|] eqn:Et; [|discriminate].
    assert (Hb : state_of_key t P (Some b) = Some s').
    { rewrite state_of_key_unfold by assumption. rewrite Hprev, Hk. unfold spec_step. rewrite Em.
      replace (m <? vp_start P) with false by lia. exact Et. }
    apply (IH s' (cache_set c (Some b) s') (Some b) k0 sf c'); try assumption.
    apply cache_set_sound; assumption.
Qed.

(* GetStateFor with any cache produced by earlier queries returns the specification's state and
   leaves a cache that is again consistent with the specification *)
Lemma get_state_for_sound t P prev c s c' : wf_vtree t -> 0 < vp_period P ->
  cache_sound t P c -> get_state_for t P prev c = Some (s, c') ->
  state_after t P prev = Some s /\ cache_sound t P c'.
Proof.
  intros Hwf Hp Hc H. unfold get_state_for, state_after in *.
  destruct (vp_start P =? BIP9_ALWAYS_ACTIVE); [injection H as <- <-; split; [reflexivity|exact Hc]|].
  destruct (vp_start P =? BIP9_NEVER_ACTIVE); [injection H as <- <-; split; [reflexivity|exact Hc]|].
  set (k := align t P prev) in *.
  destruct (walk_back t P _ k c []) as [[[k' c1] todo]|] eqn:Ew; [|discriminate].
  destruct (walk_back_ok t P Hwf Hp _ k c [] k k' c1 todo Hc eq_refl Ew) as (Hc1 & (s0 & Hs0) & Hsteps).
  rewrite Hs0 in H.
  apply (forward_ok t P Hwf Hp todo s0 c1 k' k s c' Hc1 (Hc1 k' s0 Hs0) Hsteps H).
Qed.

(* any sequence of queries, starting from an empty cache: every answer is the specification's *)
Fixpoint run_queries (t : vtree) (P : vb_params) (qs : list key) (c : cache) : option (list tstate * cache) :=
  match qs with
  | [] => Some ([], c)
  | q :: r => match get_state_for t P q c with
              | Some (s, c1) => match run_queries t P r c1 with
                                | Some (l, c2) => Some (s :: l, c2)
                                | None => None
                                end
              | None => None
              end
  end.

Lemma run_queries_sound t P : wf_vtree t -> 0 < vp_period P -> forall qs c l c',
  cache_sound t P c -> run_queries t P qs c = Some (l, c') ->
  map Some l = map (state_after t P) qs /\ cache_sound t P c'.
Proof.
  intros Hwf Hp. induction qs as [|q r IH]; intros c l c' Hc H.
  - cbn [run_queries] in H. injection H as <- <-. split; [reflexivity|exact Hc].
  - cbn [run_queries] in H. destruct (get_state_for t P q c) as [[s c1]|] eqn:Eg; [|discriminate].
    destruct (run_queries t P r c1) as [[l2 c2]|] eqn:Er; [|discriminate]. injection H as <- <-.
    destruct (get_state_for_sound t P q c s c1 Hwf Hp Hc Eg) as [Hs Hc1].
    destruct (IH c1 l2 c2 Hc1 Er) as [Hl Hc2]. split; [|exact Hc2].
    cbn [map]. rewrite Hs, Hl. reflexivity.
Qed.

(* ------------------------------------------------------------------------------------------ *)
(* all blocks of a period share the state                                                       *)

Lemma align_same_period t P b1 n1 b2 n2 : wf_vtree t -> 0 < vp_period P ->
  vnode_at t b1 = Some n1 -> vnode_at t b2 = Some n2 ->
  v_ancestor t b2 (vn_height n1) = Some b1 ->
  (vn_height n1 + 1) / vp_period P = (vn_height n2 + 1) / vp_period P ->
  align t P (Some b1) = align t P (Some b2).
Proof.
  intros Hwf Hp H1 H2 Hanc Hq. unfold align. rewrite H1, H2.
  destruct (Hwf b1 n1 H1) as [H10 _]. destruct (Hwf b2 n2 H2) as [H20 _].
  unfold cmod. rewrite !Z.rem_mod_nonneg by lia.
  assert (E : vn_height n1 - (vn_height n1 + 1) mod vp_period P = vn_height n2 - (vn_height n2 + 1) mod vp_period P).
  { pose proof (Z.div_mod (vn_height n1 + 1) (vp_period P) ltac:(lia)).
    pose proof (Z.div_mod (vn_height n2 + 1) (vp_period P) ltac:(lia)). rewrite Hq in *. lia. }
  rewrite <- E. apply (v_ancestor_trans t Hwf b2 n2 (vn_height n1) b1 _ H2 Hanc).
  pose proof (Z.mod_pos_bound (vn_height n1 + 1) (vp_period P) Hp). lia.
Qed.

Lemma same_within_period t P b1 n1 b2 n2 : wf_vtree t -> 0 < vp_period P ->
  vnode_at t b1 = Some n1 -> vnode_at t b2 = Some n2 ->
  v_ancestor t b2 (vn_height n1) = Some b1 ->
  (vn_height n1 + 1) / vp_period P = (vn_height n2 + 1) / vp_period P ->
  state_after t P (Some b1) = state_after t P (Some b2).
Proof.
  intros Hwf Hp H1 H2 Hanc Hq. unfold state_after.
  rewrite (align_same_period t P b1 n1 b2 n2 Hwf Hp H1 H2 Hanc Hq). reflexivity.
Qed.

(* ------------------------------------------------------------------------------------------ *)
(* the BIP9 transitions                                                                         *)

(* the state at a boundary block b in terms of the previous boundary's state *)
Lemma state_step t P b : wf_vtree t -> 0 < vp_period P ->
  state_of_key t P (Some b) =
    match v_mtp t b with
    | Some m => if m <? vp_start P then Some DEFINED
                else match state_of_key t P (prev_boundary t P b) with
                     | Some s => transition t P s b
                     | None => None
                     end
    | None => None
    end.
Proof. intros Hwf Hp. rewrite state_of_key_unfold by assumption. reflexivity. Qed.

Lemma transition_not_defined t P s b s' m : v_mtp t b = Some m -> vp_start P <= m ->
  transition t P s b = Some s' -> s' <> DEFINED.
Proof.
  intros Em Hm Ht. destruct s; cbn [transition] in Ht.
  - rewrite Em in Ht. replace (m >=? vp_start P) with true in Ht by lia. congruence.
  - destruct (count_signals _ _ _ _); [|discriminate]. rewrite Em in Ht.
    destruct (_ >=? vp_threshold P); [congruence|]. destruct (_ >=? vp_timeout P); congruence.
  - destruct (vnode_at t b); [|discriminate]. destruct (_ >=? _); congruence.
  - congruence.
  - congruence.
Qed.

(* DEFINED exactly while the boundary's median time past is below the start time *)
Lemma defined_iff t P b s m : wf_vtree t -> 0 < vp_period P ->
  state_of_key t P (Some b) = Some s -> v_mtp t b = Some m ->
  (s = DEFINED <-> m < vp_start P).
Proof.
  intros Hwf Hp Hs Em. rewrite state_step in Hs by assumption. rewrite Em in Hs.
  destruct (m <? vp_start P) eqn:E.
  - injection Hs as <-. split; intros; [lia|reflexivity].
  - destruct (state_of_key t P (prev_boundary t P b)) as [s0|]; [|discriminate].
    pose proof (transition_not_defined t P s0 b s m Em ltac:(lia) Hs). split; intros; [contradiction|lia].
Qed.

(* when median times do not decrease from the previous boundary to this one, the state at this
   boundary is the BIP9 transition of the previous boundary's state: the early exit of the
   backwards walk agrees with it *)
Definition mtp_not_decreasing (t : vtree) (P : vb_params) (b : nat) : Prop :=
  match prev_boundary t P b with
  | Some p => forall mp m, v_mtp t p = Some mp -> v_mtp t b = Some m -> mp <= m
  | None => True
  end.

Lemma bip9_step t P b s0 m : wf_vtree t -> 0 < vp_period P -> mtp_not_decreasing t P b ->
  state_of_key t P (prev_boundary t P b) = Some s0 -> v_mtp t b = Some m ->
  state_of_key t P (Some b) = transition t P s0 b.
Proof.
  intros Hwf Hp Hmono Hs0 Em. rewrite state_step by assumption. rewrite Em, Hs0.
  destruct (m <? vp_start P) eqn:E; [|reflexivity].
  (* below the start: the previous boundary was below it too, so its state is DEFINED *)
  assert (Hd : s0 = DEFINED).
  { unfold mtp_not_decreasing in Hmono. destruct (prev_boundary t P b) as [p|] eqn:Ep.
    - rewrite state_step in Hs0 by assumption.
      destruct (v_mtp t p) as [mp|] eqn:Emp; [|discriminate].
      specialize (Hmono mp m eq_refl Em). replace (mp <? vp_start P) with true in Hs0 by lia. congruence.
    - cbn in Hs0. congruence. }
  subst s0. cbn [transition]. rewrite Em. replace (m >=? vp_start P) with false by lia. reflexivity.
Qed.

(* the five clauses, spelled out *)
Lemma bip9_clauses t P b s0 m : wf_vtree t -> 0 < vp_period P -> mtp_not_decreasing t P b ->
  state_of_key t P (prev_boundary t P b) = Some s0 -> v_mtp t b = Some m ->
  match s0 with
  | DEFINED => state_of_key t P (Some b) = Some (if m >=? vp_start P then STARTED else DEFINED)
  | STARTED => forall count, count_signals t P (Z.to_nat (vp_period P)) (Some b) = Some count ->
               state_of_key t P (Some b) =
                 Some (if count >=? vp_threshold P then LOCKED_IN
                       else if m >=? vp_timeout P then FAILED else STARTED)
  | LOCKED_IN => forall nd, vnode_at t b = Some nd ->
                 state_of_key t P (Some b) = Some (if vn_height nd + 1 >=? vp_min_height P then ACTIVE else LOCKED_IN)
  | ACTIVE => state_of_key t P (Some b) = Some ACTIVE
  | FAILED => state_of_key t P (Some b) = Some FAILED
  end.
Proof.
  intros Hwf Hp Hmono Hs0 Em. rewrite (bip9_step t P b s0 m Hwf Hp Hmono Hs0 Em).
  destruct s0; cbn [transition]; try reflexivity.
  - rewrite Em. reflexivity.
  - intros count Hc. rewrite Hc, Em. reflexivity.
  - intros nd Hb. rewrite Hb. reflexivity.
Qed.

(* ACTIVE and FAILED are never left: along any run of later period boundaries whose median times
   do not decrease *)
Fixpoint path_up (t : vtree) (P : vb_params) (k' : key) (bs : list nat) (k : key) : Prop :=
  match bs with
  | [] => k = k'
  | b :: r => prev_boundary t P b = k' /\ path_up t P (Some b) r k
  end.

Lemma terminal_absorbing t P : wf_vtree t -> 0 < vp_period P -> forall bs p k s,
  (s = ACTIVE \/ s = FAILED) ->
  path_up t P (Some p) bs k ->
  (forall b, In b bs -> mtp_not_decreasing t P b /\ exists m, v_mtp t b = Some m) ->
  state_of_key t P (Some p) = Some s -> state_of_key t P k = Some s.
Proof.
  intros Hwf Hp. induction bs as [|b r IH]; intros p k s Hs Hpath Hall Hst.
  - cbn [path_up] in Hpath. subst k. exact Hst.
  - cbn [path_up] in Hpath. destruct Hpath as [Hprev Hrest].
    destruct (Hall b ltac:(left; reflexivity)) as [Hmono [m Em]].
    apply (IH b k s Hs Hrest).
    + intros b' Hin. apply Hall. right. exact Hin.
    + rewrite <- Hprev in Hst. rewrite (bip9_step t P b s m Hwf Hp Hmono Hst Em).
      destruct Hs as [-> | ->]; reflexivity.
Qed.

(* without that premise the early exit can take a chain out of a terminal state: a concrete
   (invalid-timestamp) chain is in props/Properties_C53.v *)

(* ---- GetStateStatisticsFor ---- *)
Lemma count_signals_bounds t P : forall n k c, count_signals t P n k = Some c -> 0 <= c <= Z.of_nat n.
Proof.
  induction n as [|n IH]; intros k c H.
  - cbn [count_signals] in H. injection H as <-. lia.
  - cbn [count_signals] in H. destruct k as [b|]; [|discriminate].
    destruct (vnode_at t b) as [nd|]; [|discriminate].
    destruct (count_signals t P n (vn_parent nd)) as [c0|] eqn:E; [|discriminate].
    injection H as <-. specialize (IH _ _ E). destruct (condition P (vn_version nd)); lia.
Qed.

Lemma statistics_spec t P b nd : wf_vtree t ->
  0 < vp_period P < 2 ^ 31 -> 0 <= vp_threshold P < 2 ^ 31 -> vn_height nd < 2 ^ 31 ->
  vnode_at t b = Some nd ->
  forall r, get_state_statistics_for t P (Some b) = Some r ->
  exists count, count_signals t P (Z.to_nat (1 + vn_height nd mod vp_period P)) (Some b) = Some count /\
    r = (vp_period P, vp_threshold P, 1 + vn_height nd mod vp_period P, count,
         wrapu32 (vp_period P - vp_threshold P) >=? 1 + vn_height nd mod vp_period P - count) /\
    0 <= count <= 1 + vn_height nd mod vp_period P.
Proof.
  intros Hwf Hp Ht Hh Hb r H. unfold get_state_statistics_for in H. rewrite Hb in H.
  destruct (Hwf b nd Hb) as [H0 _].
  assert (E31 : 2 ^ 31 = 2147483648) by reflexivity.
  rewrite (wrapu32_id (vp_period P)) in H by (unfold UINT32_MAX; lia).
  rewrite (wrapu32_id (vp_threshold P)) in H by (unfold UINT32_MAX; lia).
  rewrite (wrapu32_id (vn_height nd)) in H by (unfold UINT32_MAX; lia).
  pose proof (Z.mod_pos_bound (vn_height nd) (vp_period P) ltac:(lia)) as Hm.
  rewrite wrap32_id in H by (unfold INT32_MIN, INT32_MAX; lia).
  remember (1 + vn_height nd mod vp_period P) as e eqn:He.
  destruct (count_signals t P _ (Some b)) as [count|] eqn:Ec; [|discriminate].
  pose proof (count_signals_bounds t P _ _ _ Ec) as Hcb.
  injection H as <-. exists count. split; [reflexivity|]. split; [|lia].
  rewrite (wrapu32_id (e - count)) by (unfold UINT32_MAX; lia). reflexivity.
Qed.

(* ---- GetStateSinceHeightFor ---- *)
Lemma tstate_eqb_eq a b : tstate_eqb a b = true <-> a = b.
Proof. destruct a, b; cbn; split; intros H; try reflexivity; try discriminate. Qed.

Lemma path_up_snoc t P : forall bs k' k p, path_up t P k' bs k -> prev_boundary t P p = k ->
  path_up t P k' (bs ++ [p]) (Some p).
Proof.
  induction bs as [|b r IH]; intros k' k p Hpath Hp.
  - cbn [path_up] in Hpath. subst k. cbn [app path_up]. split; [exact Hp|reflexivity].
  - cbn [path_up] in Hpath. destruct Hpath as [Hb Hr]. cbn [app path_up]. split; [exact Hb|].
    apply (IH (Some b) k p Hr Hp).
Qed.

(* what the loop of GetStateSinceHeightFor returns: the height of the first block of the earliest
   period q in the unbroken run of periods, ending at p, whose state is `initial` *)
Definition since_result (t : vtree) (P : vb_params) (p : nat) (initial : tstate) (r : Z) : Prop :=
  exists q nq bs, vnode_at t q = Some nq /\ r = vn_height nq + 1 /\ path_up t P (Some q) bs (Some p) /\
    (forall x, In x (q :: bs) -> x = p \/ state_after t P (Some x) = Some initial) /\
    (prev_boundary t P q = None \/
     exists pp s', prev_boundary t P q = Some pp /\ state_after t P (Some pp) = Some s' /\ s' <> initial).

Lemma since_loop_ok t P : wf_vtree t -> 0 < vp_period P -> forall fuel p initial c r c',
  cache_sound t P c -> since_loop t P fuel p initial c = Some (r, c') ->
  cache_sound t P c' /\ since_result t P p initial r.
Proof.
  intros Hwf Hp. induction fuel as [|f IH]; intros p initial c r c' Hc H; [discriminate|].
  cbn [since_loop] in H. destruct (prev_boundary t P p) as [pp|] eqn:Epp.
  - destruct (get_state_for t P (Some pp) c) as [[s c1]|] eqn:Eg; [|discriminate].
    destruct (get_state_for_sound t P (Some pp) c s c1 Hwf Hp Hc Eg) as [Hs Hc1].
    destruct (tstate_eqb s initial) eqn:Eeq.
    + apply tstate_eqb_eq in Eeq. subst s.
      destruct (IH pp initial c1 r c' Hc1 H) as [Hc' (q & nq & bs & Hq & Hr & Hpath & Hall & Hend)].
      split; [exact Hc'|]. exists q, nq, (bs ++ [p]). split; [exact Hq|]. split; [exact Hr|].
      split; [apply (path_up_snoc t P bs (Some q) (Some pp) p Hpath Epp)|]. split; [|exact Hend].
      intros x Hin. rewrite app_comm_cons in Hin. apply in_app_or in Hin. destruct Hin as [Hin|Hin].
      * destruct (Hall x Hin) as [->|Hx]; [right; exact Hs|right; exact Hx].
      * destruct Hin as [<-|[]]. left. reflexivity.
    + destruct (vnode_at t p) as [np|] eqn:Enp; [|discriminate]. injection H as <- <-.
      split; [exact Hc1|]. exists p, np, []. split; [exact Enp|]. split; [reflexivity|].
      split; [reflexivity|]. split.
      * intros x [<-|[]]. left. reflexivity.
      * right. exists pp, s. split; [exact Epp|]. split; [exact Hs|].
        intros E. subst s. destruct initial; discriminate.
  - destruct (vnode_at t p) as [np|] eqn:Enp; [|discriminate]. injection H as <- <-.
    split; [exact Hc|]. exists p, np, []. split; [exact Enp|]. split; [reflexivity|].
    split; [reflexivity|]. split.
    + intros x [<-|[]]. left. reflexivity.
    + left. exact Epp.
Qed.

Lemma since_height_sound t P prev c r c' : wf_vtree t -> 0 < vp_period P -> cache_sound t P c ->
  get_state_since_height_for t P prev c = Some (r, c') ->
  cache_sound t P c' /\
  ((vp_start P = BIP9_ALWAYS_ACTIVE \/ vp_start P = BIP9_NEVER_ACTIVE) /\ r = 0 \/
   vp_start P <> BIP9_ALWAYS_ACTIVE /\ vp_start P <> BIP9_NEVER_ACTIVE /\
   exists initial, state_after t P prev = Some initial /\
     (initial = DEFINED /\ r = 0 \/
      initial <> DEFINED /\ exists p, align t P prev = Some p /\ since_result t P p initial r)).
Proof.
  intros Hwf Hp Hc H. unfold get_state_since_height_for in H.
  destruct ((vp_start P =? BIP9_ALWAYS_ACTIVE) || (vp_start P =? BIP9_NEVER_ACTIVE)) eqn:Esp.
  - injection H as <- <-. split; [exact Hc|]. left. split; [lia|reflexivity].
  - destruct (get_state_for t P prev c) as [[initial c1]|] eqn:Eg; [|discriminate].
    destruct (get_state_for_sound t P prev c initial c1 Hwf Hp Hc Eg) as [Hs Hc1].
    destruct (tstate_eqb initial DEFINED) eqn:Ed.
    + apply tstate_eqb_eq in Ed. injection H as <- <-. split; [exact Hc1|]. right.
      split; [lia|]. split; [lia|]. exists initial. split; [exact Hs|]. left. split; [exact Ed|reflexivity].
    + destruct (align t P prev) as [p|] eqn:Ea; [|discriminate].
      destruct (since_loop_ok t P Hwf Hp _ p initial c1 r c' Hc1 H) as [Hc' Hres].
      split; [exact Hc'|]. right. split; [lia|]. split; [lia|]. exists initial. split; [exact Hs|]. right.
      split; [intros E; subst initial; discriminate|]. exists p. split; [reflexivity|exact Hres].
Qed.

Lemma special_cases blocks P prev :
  (vp_start P = BIP9_ALWAYS_ACTIVE -> state_after (vbuild blocks) P prev = Some ACTIVE) /\
  (vp_start P = BIP9_NEVER_ACTIVE -> state_after (vbuild blocks) P prev = Some FAILED) /\
  (vp_start P <> BIP9_ALWAYS_ACTIVE -> vp_start P <> BIP9_NEVER_ACTIVE -> state_after (vbuild blocks) P None = Some DEFINED).
Proof.
  unfold state_after. repeat split.
  - intros ->. reflexivity.
  - intros ->. reflexivity.
  - intros H1 H2. replace (vp_start P =? BIP9_ALWAYS_ACTIVE) with false by lia.
    replace (vp_start P =? BIP9_NEVER_ACTIVE) with false by lia. reflexivity.
Qed.

Lemma vb_constants : BIP9_ALWAYS_ACTIVE = -1 /\ BIP9_NEVER_ACTIVE = -2 /\
  VERSIONBITS_TOP_BITS = 0x20000000 /\ VERSIONBITS_TOP_MASK = 0xE0000000 /\ MEDIAN_TIME_SPAN = 11.
Proof. vm_compute. repeat split; reflexivity. Qed.

(* ------------------------------------------------------------------------------------------ *)
(* GetStateFor is total: with any cache, on any tree, it terminates, its assert holds and no     *)
(* nullptr is dereferenced                                                                       *)
From Coq Require Import Sorting.Permutation.

Lemma vinsert_length x l : length (vinsert x l) = S (length l).
Proof. induction l as [|y r IH]; cbn [vinsert]; [reflexivity|]. destruct (x <=? y); cbn [length]; lia. Qed.
Lemma vsort_length l : length (vsort l) = length l.
Proof. induction l as [|x r IH]; cbn [vsort]; [reflexivity|]. rewrite vinsert_length, IH. reflexivity. Qed.

Lemma v_mtp_some t b nd : vnode_at t b = Some nd -> exists m, v_mtp t b = Some m.
Proof.
  intros Hb. unfold v_mtp. set (ts := vsort _).
  assert (Hl : (0 < length ts)%nat).
  { unfold ts. rewrite vsort_length. change (Z.to_nat MEDIAN_TIME_SPAN) with 11%nat.
    cbn [times_back]. rewrite Hb. cbn [length]. lia. }
  destruct (nth_error ts (Nat.div (length ts) 2)) eqn:E; [eexists; reflexivity|].
  apply nth_error_None in E. pose proof (Nat.div_lt (length ts) 2 Hl ltac:(lia)). lia.
Qed.

Lemma count_signals_some t P : wf_vtree t -> forall n b nd, vnode_at t b = Some nd ->
  Z.of_nat n <= vn_height nd + 1 -> exists c, count_signals t P n (Some b) = Some c.
Proof.
  intros Hwf. induction n as [|n IH]; intros b nd Hb Hn; [eexists; reflexivity|].
  cbn [count_signals]. rewrite Hb. destruct (Hwf b nd Hb) as [H0 Hp].
  destruct (vn_parent nd) as [p|].
  - destruct Hp as (_ & pn & Hpn & Hh). destruct (IH p pn Hpn ltac:(lia)) as [c Hc]. rewrite Hc. eexists. reflexivity.
  - assert (n = 0%nat) by lia. subst n. cbn [count_signals]. eexists. reflexivity.
Qed.

Definition aligned (t : vtree) (P : vb_params) (k : key) : Prop :=
  match k with
  | None => True
  | Some b => exists nd, vnode_at t b = Some nd /\ (vn_height nd + 1) mod vp_period P = 0
  end.

Lemma prev_boundary_aligned t P b : wf_vtree t -> 0 < vp_period P -> aligned t P (Some b) -> aligned t P (prev_boundary t P b).
Proof.
  intros Hwf Hp (nd & Hb & Hm). unfold prev_boundary. rewrite Hb.
  destruct (Hwf b nd Hb) as [H0 _].
  destruct (Z_le_gt_dec 0 (vn_height nd - vp_period P)) as [Hge|Hlt].
  - destruct (v_ancestor_some t Hwf b nd (vn_height nd - vp_period P) Hb ltac:(lia)) as (a & na & Ha & Hna & Hha).
    rewrite Ha. exists na. split; [exact Hna|]. rewrite Hha.
    replace (vn_height nd - vp_period P + 1) with (vn_height nd + 1 + (-1) * vp_period P) by lia.
    rewrite Z.mod_add by lia. exact Hm.
  - rewrite (v_ancestor_none t b nd (vn_height nd - vp_period P) Hb ltac:(lia)). exact I.
Qed.

Lemma align_aligned t P prev : wf_vtree t -> 0 < vp_period P ->
  (match prev with Some b => exists nd, vnode_at t b = Some nd | None => True end) ->
  aligned t P (align t P prev).
Proof.
  intros Hwf Hp Hex. destruct prev as [b|]; [|exact I]. destruct Hex as [nd Hb].
  unfold align. rewrite Hb. destruct (Hwf b nd Hb) as [H0 _].
  unfold cmod. rewrite Z.rem_mod_nonneg by lia.
  pose proof (Z.mod_pos_bound (vn_height nd + 1) (vp_period P) Hp) as Hr.
  set (r := (vn_height nd + 1) mod vp_period P) in *.
  destruct (Z_le_gt_dec 0 (vn_height nd - r)) as [Hge|Hlt].
  - destruct (v_ancestor_some t Hwf b nd (vn_height nd - r) Hb ltac:(lia)) as (a & na & Ha & Hna & Hha).
    rewrite Ha. exists na. split; [exact Hna|]. rewrite Hha. unfold r.
    replace (vn_height nd - (vn_height nd + 1) mod vp_period P + 1)
      with ((vn_height nd + 1) - (vn_height nd + 1) mod vp_period P) by lia.
    rewrite Zminus_mod, Z.mod_mod by lia. rewrite Z.sub_diag. apply Z.mod_0_l. lia.
  - rewrite (v_ancestor_none t b nd (vn_height nd - r) Hb ltac:(lia)). exact I.
Qed.

Lemma transition_some t P s b : wf_vtree t -> 0 < vp_period P -> aligned t P (Some b) ->
  exists s', transition t P s b = Some s'.
Proof.
  intros Hwf Hp (nd & Hb & Hm). destruct (v_mtp_some t b nd Hb) as [m Em].
  destruct (Hwf b nd Hb) as [H0 _].
  assert (Hge : vp_period P <= vn_height nd + 1).
  { destruct (Z_le_gt_dec (vp_period P) (vn_height nd + 1)); [assumption|].
    rewrite Z.mod_small in Hm by lia. lia. }
  destruct (count_signals_some t P Hwf (Z.to_nat (vp_period P)) b nd Hb ltac:(lia)) as [c Hc].
  destruct s; cbn [transition]; rewrite ?Em, ?Hc, ?Hb; eexists; reflexivity.
Qed.

Lemma walk_back_total t P : wf_vtree t -> 0 < vp_period P -> forall fuel k c todo,
  key_height t k + 1 < Z.of_nat fuel -> aligned t P k -> Forall (fun b => aligned t P (Some b)) todo ->
  exists k' c' todo', walk_back t P fuel k c todo = Some (k', c', todo') /\
    (exists s, cache_get c' k' = Some s) /\ Forall (fun b => aligned t P (Some b)) todo'.
Proof.
  intros Hwf Hp. induction fuel as [|f IH]; intros k c todo Hf Hal Htodo.
  { pose proof (key_height_lower t k Hwf). lia. }
  cbn [walk_back]. destruct (cache_get c k) as [s|] eqn:Eg.
  - exists k, c, todo. split; [reflexivity|]. split; [exists s; exact Eg|exact Htodo].
  - destruct k as [b|].
    + destruct Hal as (nd & Hb & Hm). destruct (v_mtp_some t b nd Hb) as [m Em]. rewrite Em.
      destruct (m <? vp_start P).
      * eexists _, _, _. split; [reflexivity|]. split; [|exact Htodo].
        exists DEFINED. unfold cache_set. cbn [cache_get key_eqb]. rewrite Nat.eqb_refl. reflexivity.
      * pose proof (key_height_prev t P b Hwf Hp) as [Hlt Hge].
        apply IH; [lia| |].
        -- apply prev_boundary_aligned; try assumption. exists nd. split; assumption.
        -- constructor; [exists nd; split; assumption|exact Htodo].
    + eexists _, _, _. split; [reflexivity|]. split; [exists DEFINED; reflexivity|exact Htodo].
Qed.

Lemma forward_total t P : wf_vtree t -> 0 < vp_period P -> forall todo s c,
  Forall (fun b => aligned t P (Some b)) todo -> exists sf c', forward t P todo s c = Some (sf, c').
Proof.
  intros Hwf Hp. induction todo as [|b r IH]; intros s c Hall; [eexists _, _; reflexivity|].
  cbn [forward]. inversion Hall as [|? ? Hb Hr]; subst.
  destruct (transition_some t P s b Hwf Hp Hb) as [s' Hs']. rewrite Hs'. apply IH. exact Hr.
Qed.

Lemma get_state_for_total t P prev c : wf_vtree t -> 0 < vp_period P ->
  (match prev with Some b => exists nd, vnode_at t b = Some nd | None => True end) ->
  exists s c', get_state_for t P prev c = Some (s, c').
Proof.
  intros Hwf Hp Hex. unfold get_state_for.
  destruct (vp_start P =? BIP9_ALWAYS_ACTIVE); [eexists _, _; reflexivity|].
  destruct (vp_start P =? BIP9_NEVER_ACTIVE); [eexists _, _; reflexivity|].
  pose proof (align_aligned t P prev Hwf Hp Hex) as Hal.
  pose proof (key_height_lower t (align t P prev) Hwf) as Hlow.
  destruct (walk_back_total t P Hwf Hp (S (S (Z.to_nat (key_height t (align t P prev) + 1)))) (align t P prev) c []
              ltac:(lia) Hal ltac:(constructor)) as (k' & c1 & todo & Hw & (s0 & Hs0) & Htodo).
  rewrite Hw, Hs0. apply forward_total; assumption.
Qed.
