(* C14 -- what Complete() returns, for every schedule. *)
From Coq Require Import Permutation.
From BV Require Import lib.Ints model.CheckQueue proofs.CheckQueueInv proofs.CheckQueueStep.
Local Open Scope nat_scope.

Lemma exec_inv bs V : forall l s s', Inv V s -> exec bs V s l = Some s' -> Inv V s'.
Proof.
  induction l as [|a l IH]; intros s s' HI H; simpl in H.
  - inversion H; subst. exact HI.
  - destruct (step bs V s a) as [s1|] eqn:E; [|discriminate]. eapply IH; [|exact H]. eapply step_inv; eauto.
Qed.

Theorem reachable_inv bs V n l s : exec bs V (init n) l = Some s -> Inv V s.
Proof. apply exec_inv. apply Inv_init. Qed.

Lemma all_pass_serial V : forall cs, (forall c, In c cs -> V c = None) <-> serial V cs = None.
Proof.
  unfold serial. intros cs. split.
  - induction cs as [|c r IH]; simpl; intros H; [reflexivity|].
    rewrite (H c (or_introl eq_refl)). destruct (run_checks V r None) as [l ev] eqn:E. simpl in *. apply IH. intros x Hx. apply H. right; exact Hx.
  - intros H. apply (ff_none V cs H).
Qed.

Lemma result_ok_none V added : result_ok V added None = true <-> forall c, In c added -> V c = None.
Proof.
  simpl. rewrite forallb_forall. split; intros H c Hc; specialize (H c Hc); destruct (V c); congruence.
Qed.

Lemma result_ok_some V added r : result_ok V added (Some r) = true <-> exists c, In c added /\ V c = Some r.
Proof.
  simpl. rewrite existsb_exists. split; intros [c [Hc Hv]]; exists c; split; auto.
  - destruct (V c) as [e|]; [apply Z.eqb_eq in Hv; subst; reflexivity | discriminate].
  - rewrite Hv. apply Z.eqb_refl.
Qed.

(* Every Complete() of every schedule: *)
Lemma ret_ok_here bs V n l s res added evaluated :
  exec bs V (init n) l = Some s -> In (res, added, evaluated) (q_returned s) -> ret_ok V (res, added, evaluated).
Proof.
  intros Hexec Hret. destruct (reachable_inv bs V n l s Hexec) as [HC _]. pose proof (i_ret V s HC) as H. rewrite Forall_forall in H. exact (H _ Hret).
Qed.

(* success is reported iff every check of the session passes ... *)
Theorem complete_success_iff_all_pass bs V n l s res added evaluated :
  exec bs V (init n) l = Some s -> In (res, added, evaluated) (q_returned s) ->
  (res = None <-> forall c, In c added -> V c = None).
Proof.
  intros He Hr. destruct (ret_ok_here bs V n l s res added evaluated He Hr) as [H1 H2]. split.
  - intros E. subst res. apply result_ok_none. exact H1.
  - intros Hall. destruct res as [r|]; [|reflexivity]. apply result_ok_some in H1. destruct H1 as [c [Hc Hv]]. rewrite (Hall c Hc) in Hv. discriminate.
Qed.

(* ... a reported failure is the failure of one of the session's checks (which one depends on the schedule) ... *)
Theorem complete_failure_is_some_failing_check bs V n l s res added evaluated :
  exec bs V (init n) l = Some s -> In (res, added, evaluated) (q_returned s) ->
  forall r, res = Some r -> exists c, In c added /\ V c = Some r.
Proof. intros He Hr r E. subst res. destruct (ret_ok_here bs V n l s _ added evaluated He Hr) as [H1 _]. apply result_ok_some. exact H1. Qed.

(* ... so the verdict (pass / fail) is the serial one ... *)
Theorem complete_agrees_with_serial bs V n l s res added evaluated :
  exec bs V (init n) l = Some s -> In (res, added, evaluated) (q_returned s) ->
  (res = None <-> serial V added = None).
Proof. intros He Hr. rewrite (complete_success_iff_all_pass bs V n l s res added evaluated He Hr). apply all_pass_serial. Qed.

Corollary serial_failure_is_reported bs V n l s res added evaluated :
  exec bs V (init n) l = Some s -> In (res, added, evaluated) (q_returned s) ->
  forall r, serial V added = Some r -> exists r' c, res = Some r' /\ In c added /\ V c = Some r'.
Proof.
  intros He Hr r Hs. destruct res as [r'|] eqn:E.
  - destruct (complete_failure_is_some_failing_check bs V n l s (Some r') added evaluated He Hr r' eq_refl) as [c [Hc Hv]]. exists r', c. auto.
  - exfalso. assert (serial V added = None) by (apply (complete_agrees_with_serial bs V n l s None added evaluated He Hr); reflexivity). congruence.
Qed.

(* ... and success is only reported after every added check has actually run *)
Theorem success_means_everything_ran bs V n l s res added evaluated :
  exec bs V (init n) l = Some s -> In (res, added, evaluated) (q_returned s) ->
  res = None -> forall c, In c added -> In c evaluated.
Proof. intros He Hr. destruct (ret_ok_here bs V n l s res added evaluated He Hr) as [_ H2]. exact H2. Qed.

(* When Complete() returns, the queue is as new: nothing queued, nothing held by any thread, no result left over.
   (q_added is emptied exactly when the master returns.) *)
Theorem returned_queue_is_clean V s :
  Inv V s -> q_added s = [] -> q_queue s = [] /\ inflight s = [] /\ q_todo s = 0 /\ q_result s = None.
Proof.
  intros [[H1 H2 H3 H4 H5 H6 H7 H8] H9] Ha.
  assert (Hq : q_queue s = []).
  { destruct (q_queue s) as [|c q] eqn:E; [reflexivity|]. exfalso. assert (In c (q_added s)) by (apply H3; left; left; reflexivity). rewrite Ha in H. exact H. }
  assert (Hi : inflight s = []).
  { destruct (inflight s) as [|c q] eqn:E; [reflexivity|]. exfalso. assert (In c (q_added s)) by (apply H3; right; left; left; reflexivity). rewrite Ha in H. exact H. }
  repeat split; auto.
  - rewrite H1, Hq, Hi. reflexivity.
  - destruct (q_result s) as [r|] eqn:E; [|reflexivity]. destruct (H4 r eq_refl) as [c [Hc _]]. rewrite Ha in Hc. destruct Hc.
Qed.

(* A batch is skipped (not executed) only when a failure is already recorded, and a thread never carries a failure of
   an earlier session into a later one: whatever a thread is about to publish was produced by its current batch. *)
Theorem skipped_only_after_failure V s t th cs :
  Inv V s -> get_thread s t = Some th -> (t_pc th = PBatch cs false \/ t_pc th = PRet cs false) -> q_result s <> None.
Proof.
  intros HI Hg Hp. pose proof (thread_ok_get V s t th HI Hg) as H. unfold thread_ok in H.
  destruct Hp as [E|E]; rewrite E in H; [destruct H as [_ H] | destruct H as (_ & H & _)]; apply H; reflexivity.
Qed.

Theorem published_failure_is_fresh V s t th cs r :
  Inv V s -> get_thread s t = Some th -> t_pc th = PRet cs true -> t_local th = Some r -> exists c, In c cs /\ V c = Some r.
Proof.
  intros HI Hg Hp Hl. pose proof (thread_ok_get V s t th HI Hg) as H. unfold thread_ok in H. rewrite Hp in H.
  destruct H as (_ & _ & H). destruct (H eq_refl) as [H1 _]. rewrite Hl in H1. symmetry in H1. apply ff_some in H1. exact H1.
Qed.
