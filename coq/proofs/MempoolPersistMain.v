(* C55: the end-to-end statements (dump, then load) and the instance for the SerTx transaction codec. *)
From Coq Require Import NArith Lia.
From BV Require Import lib.Ints gen.Params_gen model.SerBase model.SerTx model.CryptoSHA256 model.MempoolPersist
                       proofs.SerBaseLemmas proofs.SerTxLemmas proofs.MempoolPersistLemmas proofs.MempoolPersistPool
                       proofs.MempoolPersistRestore proofs.MempoolPersistSafety proofs.MempoolPersistTrunc.
Local Open Scope Z_scope.

(* what the C++ types guarantee about the pool that is dumped *)
Definition pool_wf (p : pool) : Prop :=
  dmap_wf (p_deltas p)
  /\ Forall (fun kv => length (fst kv) = 32%nat /\ INT64_MIN <= snd kv <= INT64_MAX /\ snd kv <> 0) (p_deltas p)   (* PrioritiseTransaction never stores 0 *)
  /\ Z.of_nat (length (p_deltas p)) <= MAX_SIZE
  /\ sorted_keys (p_unb p) /\ Forall (fun k => length k = 32%nat) (p_unb p) /\ Z.of_nat (length (p_unb p)) <= MAX_SIZE.

Lemma dm_erase_incl k m : incl (dm_erase k m) m.
Proof.
  induction m as [|[k' v] m IH]; cbn; [apply incl_refl|].
  destruct (bytes_eqb k k'); [apply incl_tl, incl_refl|]. apply incl_cons; [left; reflexivity|apply incl_tl; exact IH].
Qed.

Lemma dm_erase_length k m : (length (dm_erase k m) <= length m)%nat.
Proof. induction m as [|[k' v] m IH]; cbn; [lia|]. destruct (bytes_eqb k k'); cbn; lia. Qed.

Section Main.
  Variable T : Type.
  Variable ser : T -> list N.
  Variable unser : list N -> res T.
  Variable txid : T -> list N.
  Variable wfT : T -> Prop.
  Variable accept : pool -> T -> Z -> bool.
  Variables now expiry : Z.
  Hypothesis unser_ser : forall t rest, wfT t -> unser (ser t ++ rest) = Ok t rest.

  Notation rid := (rec_id T txid).

  (* what infoAll() returns: well-formed records with pairwise different txids *)
  Definition infos_wf (infos : list (mrec T)) : Prop :=
    Forall (rec_wf T wfT) infos /\ NoDup (map rid infos) /\ Z.of_nat (length infos) <= UINT64_MAX.

  Lemma erase_fold_incl (infos : list (mrec T)) : forall m,
    incl (fold_left (fun m r => dm_erase (txid (r_tx r)) m) infos m) m /\
    (length (fold_left (fun m r => dm_erase (txid (r_tx r)) m) infos m) <= length m)%nat.
  Proof.
    induction infos as [|r l IH]; intros m; cbn [fold_left]; [split; [apply incl_refl|lia]|].
    destruct (IH (dm_erase (txid (r_tx r)) m)) as [A B]. split.
    - eapply incl_tran; [exact A|apply dm_erase_incl].
    - pose proof (dm_erase_length (txid (r_tx r)) m). lia.
  Qed.

  Lemma dump_snapshot_wf infos p0 : infos_wf infos -> pool_wf p0 ->
    snapshot_wf T wfT (dump_snapshot T txid infos (p_deltas p0) (p_unb p0)).
  Proof.
    intros [Wr [_ Wn]] [Wd [Wp [Wdn [Wu [Wul Wun]]]]].
    unfold snapshot_wf, dump_snapshot. cbn [sn_recs sn_deltas sn_unb].
    destruct (erase_fold_incl infos (p_deltas p0)) as [INC LEN].
    destruct (erase_ids_spec T txid infos (p_deltas p0) Wd) as [Wm _].
    repeat split; try assumption.
    - rewrite Forall_forall in *. intros kv Hin. destruct (Wp kv (INC kv Hin)) as [A [B _]]. split; assumption.
    - lia.
  Qed.

  (* DUMP, THEN LOAD (startup options) INTO AN EMPTY POOL *)
  Theorem dump_then_load v1 key infos p0 :
    infos_wf infos -> pool_wf p0 -> length key = 8%nat ->
    exists q,
      load_file T unser txid accept now expiry startup_opts (dump_file T ser txid v1 key infos p0) empty_pool = LOk q []
      /\ p_entries q = map (entry_of T txid) (accepted_recs T txid accept now expiry startup_opts empty_pool infos)
      /\ (forall r, In r infos -> dm_find (rid r) (p_deltas q) = if r_delta r =? 0 then None else Some (r_delta r))
      /\ (forall id, ~ In id (map rid infos) -> dm_find id (p_deltas q) = dm_find id (p_deltas p0))
      /\ p_unb q = filter (fun id => in_pool id q) (p_unb p0).
  Proof.
    intros WI WP K. pose proof (dump_snapshot_wf infos p0 WI WP) as WS.
    eexists. split.
    - apply load_parse_ok. unfold dump_file. apply (parse_file_encode T ser unser wfT unser_ser); assumption.
    - destruct WI as [Wr [ND _]]. destruct WP as [Wd [Wp [_ [Wu _]]]].
      apply restore_main; try assumption.
      + rewrite Forall_forall in *. intros r Hin. destruct (Wr r Hin) as [_ [_ R]]. exact R.
      + rewrite Forall_forall in *. intros kv Hin. destruct (Wp kv Hin) as [_ [A B]]. split; assumption.
  Qed.

  (* the same file loaded into ANY pool, with ANY options: success, and the state is the fold over the saved contents *)
  Theorem dump_then_load_any opts v1 key infos p0 p :
    infos_wf infos -> pool_wf p0 -> length key = 8%nat ->
    load_file T unser txid accept now expiry opts (dump_file T ser txid v1 key infos p0) p
    = LOk (apply_snapshot T txid accept now expiry opts (dump_snapshot T txid infos (p_deltas p0) (p_unb p0)) p) [].
  Proof.
    intros WI WP K. apply load_parse_ok. unfold dump_file.
    apply (parse_file_encode T ser unser wfT unser_ser); [apply dump_snapshot_wf; assumption|exact K].
  Qed.
End Main.

(* ---- the SerTx instance satisfies the round-trip premise ---- *)
Definition tx_ok (t : tx) : Prop := tx_wf t /\ (tx_vin t <> [] \/ tx_vout t = []).

Lemma instance_roundtrip t rest : tx_ok t -> tx_unser (tx_ser t ++ rest) = Ok t rest.
Proof. intros [W S]. unfold tx_unser, tx_ser. apply tx_roundtrip_witness; assumption. Qed.
