(* C45 — the 74-byte serialisation of CExtKey / CExtPubKey round-trips (depth, fingerprint, big-endian
   child number, chain code, key), with the validity rules of Decode. *)
From Coq Require Import NArith ZArith Lia.
From BV Require Import lib.Ints model.EC model.Bip32 proofs.ECLemmas proofs.ECParse.
Local Open Scope Z_scope.

Definition zero_bytes (l : list N) : Prop := Forall (fun b => b = 0%N) l.

Lemma fpr_nonzero_zero : forall f, zero_bytes f -> fpr_nonzero f = false.
Proof. induction f; intros H; simpl; auto. inversion H; subst. simpl. apply IHf; assumption. Qed.

Record ext_wf {key : Type} (x : ext key) : Prop := {
  wf_depth : 0 <= x_depth x < 256;
  wf_fpr : length (x_fpr x) = 4%nat;
  wf_child : 0 <= x_child x < 2 ^ 32;
  wf_cc : length (x_cc x) = 32%nat;
  wf_master : x_depth x = 0 -> x_child x = 0 /\ zero_bytes (x_fpr x) }.

Lemma split4 : forall (a b c d : list N) n1 n2 n3, length a = n1 -> length b = n2 -> length c = n3 ->
  let rest := a ++ b ++ c ++ d in
  firstn n1 rest = a /\ firstn n2 (skipn n1 rest) = b /\ firstn n3 (skipn (n1 + n2) rest) = c /\ skipn (n1 + n2 + n3) rest = d.
Proof.
  intros a b c d n1 n2 n3 H1 H2 H3 rest. subst rest.
  destruct (firstn_skipn_app_len a (b ++ c ++ d) n1 H1) as [E1 E2].
  destruct (firstn_skipn_app_len b (c ++ d) n2 H2) as [E3 E4].
  assert (H12 : length (a ++ b) = (n1 + n2)%nat) by (rewrite app_length; lia).
  destruct (firstn_skipn_app_len (a ++ b) (c ++ d) (n1 + n2) H12) as [_ E5]. rewrite <- app_assoc in E5.
  destruct (firstn_skipn_app_len c d n3 H3) as [E6 _].
  assert (H123 : length (a ++ b ++ c) = (n1 + n2 + n3)%nat) by (rewrite !app_length; lia).
  destruct (firstn_skipn_app_len (a ++ b ++ c) d (n1 + n2 + n3) H123) as [_ E7]. rewrite <- !app_assoc in E7.
  rewrite E1, E2, E3, E5, E6, E7. auto.
Qed.

Theorem extkey_decode_encode : forall n (x : ext Z), ext_wf x -> 0 < x_key x < n -> n <= 2 ^ 256 ->
  extkey_decode n (extkey_encode x) = Some x.
Proof.
  intros n [depth fpr child cc k] [Hd Hf Hc Hcc Hm] Hk Hn. cbn [x_depth x_fpr x_child x_cc x_key] in *.
  unfold extkey_encode, extkey_decode. cbn [x_depth x_fpr x_child x_cc x_key].
  assert (L4 : length (be_bytes_z 4 child) = 4%nat) by apply be_bytes_z_length.
  assert (L32 : length (be_bytes_z 32 k) = 32%nat) by apply be_bytes_z_length.
  destruct (split4 fpr (be_bytes_z 4 child) cc (0%N :: be_bytes_z 32 k) 4 4 32 Hf L4 Hcc) as (E1 & E2 & E3 & E4).
  cbv zeta in E1, E2, E3, E4. change (4 + 4)%nat with 8%nat in E3. change (4 + 4 + 32)%nat with 40%nat in E4.
  rewrite E1, E2, E3.
  assert (Elen : length (Z.to_N depth :: fpr ++ be_bytes_z 4 child ++ cc ++ 0%N :: be_bytes_z 32 k) = 74%nat)
    by (cbn [length]; rewrite !app_length; cbn [length]; lia).
  rewrite Elen. change (74 =? 74)%nat with true. cbn [negb].
  assert (E41 : skipn 41 (fpr ++ be_bytes_z 4 child ++ cc ++ 0%N :: be_bytes_z 32 k) = be_bytes_z 32 k).
  { assert (R : fpr ++ be_bytes_z 4 child ++ cc ++ 0%N :: be_bytes_z 32 k = (fpr ++ be_bytes_z 4 child ++ cc ++ [0%N]) ++ be_bytes_z 32 k)
      by (rewrite <- !app_assoc; reflexivity).
    rewrite R. apply firstn_skipn_app_len. rewrite !app_length. cbn [length]. lia. }
  rewrite E41.
  assert (Epad : nth_error (fpr ++ be_bytes_z 4 child ++ cc ++ 0%N :: be_bytes_z 32 k) 40 = Some 0%N).
  { rewrite <- (firstn_skipn 40 (fpr ++ be_bytes_z 4 child ++ cc ++ 0%N :: be_bytes_z 32 k)), E4.
    rewrite nth_error_app2; rewrite firstn_length, !app_length; cbn [length]; rewrite ?app_length; cbn [length];
      replace (Nat.min 40 _) with 40%nat by lia; [rewrite Nat.sub_diag; reflexivity|lia]. }
  rewrite Epad.
  rewrite !be_val_be_bytes by (try (change (256 ^ Z.of_nat 4) with (2 ^ 32)); try (change (256 ^ Z.of_nat 32) with (2 ^ 256)); lia).
  destruct (Z.ltb_spec 0 k); [|lia]. destruct (Z.ltb_spec k n); [|lia]. cbn [andb negb].
  assert (Emaster : ((Z.to_N depth =? 0)%N && (negb (child =? 0) || fpr_nonzero fpr)) = false).
  { destruct (N.eqb_spec (Z.to_N depth) 0) as [E0|]; [|reflexivity].
    assert (depth = 0) by lia. destruct (Hm H1) as [-> Hz]. rewrite (fpr_nonzero_zero fpr Hz). reflexivity. }
  rewrite Emaster. rewrite Z2N.id by lia. reflexivity.
Qed.

Theorem extpub_decode_encode : forall (pt : Type) (ser33 : pt -> list N) (parse33 : list N -> option pt) (x : ext pt),
  ext_wf x -> length (ser33 (x_key x)) = 33%nat -> parse33 (ser33 (x_key x)) = Some (x_key x) ->
  extpub_decode pt parse33 (extpub_encode pt ser33 x) = Some x.
Proof.
  intros pt ser33 parse33 [depth fpr child cc K] [Hd Hf Hc Hcc Hm] HL HP. cbn [x_depth x_fpr x_child x_cc x_key] in *.
  unfold extpub_encode, extpub_decode. cbn [x_depth x_fpr x_child x_cc x_key].
  assert (L4 : length (be_bytes_z 4 child) = 4%nat) by apply be_bytes_z_length.
  destruct (split4 fpr (be_bytes_z 4 child) cc (ser33 K) 4 4 32 Hf L4 Hcc) as (E1 & E2 & E3 & E4).
  cbv zeta in E1, E2, E3, E4. change (4 + 4)%nat with 8%nat in E3. change (4 + 4 + 32)%nat with 40%nat in E4.
  rewrite E1, E2, E3, E4.
  assert (Elen : length (Z.to_N depth :: fpr ++ be_bytes_z 4 child ++ cc ++ ser33 K) = 74%nat)
    by (cbn [length]; rewrite !app_length; lia).
  rewrite Elen. change (74 =? 74)%nat with true. cbn [negb]. rewrite HP.
  rewrite be_val_be_bytes by (change (256 ^ Z.of_nat 4) with (2 ^ 32); lia).
  assert (Emaster : ((Z.to_N depth =? 0)%N && (negb (child =? 0) || fpr_nonzero fpr)) = false).
  { destruct (N.eqb_spec (Z.to_N depth) 0) as [E0|]; [|reflexivity].
    assert (depth = 0) by lia. destruct (Hm H) as [-> Hz]. rewrite (fpr_nonzero_zero fpr Hz). reflexivity. }
  rewrite Emaster. rewrite Z2N.id by lia. reflexivity.
Qed.

(* Decode rejects what the code rejects: a non-zero padding byte, a key outside [1, n-1], and a depth-0 key
   with a child number or a parent fingerprint *)
Theorem extkey_decode_sound : forall n code x, extkey_decode n code = Some x ->
  length code = 74%nat /\ 0 < x_key x < n /\ nth_error code 41 = Some 0%N /\
  (x_depth x = 0 -> x_child x = 0 /\ fpr_nonzero (x_fpr x) = false).
Proof.
  intros n [|d rest] x H; [discriminate|]. unfold extkey_decode in H.
  destruct (Nat.eqb_spec (length (d :: rest)) 74) as [L|]; [|discriminate]. cbn [negb] in H.
  destruct (Z.ltb_spec 0 (be_val (skipn 41 rest))); [|discriminate].
  destruct (Z.ltb_spec (be_val (skipn 41 rest)) n); [|discriminate]. cbn [andb negb] in H.
  destruct ((d =? 0)%N && _) eqn:Em; [discriminate|].
  destruct (nth_error rest 40) as [[|p]|] eqn:Ep; try discriminate.
  match type of H with Some ?v = Some x => assert (Ex : x = v) by congruence end. clear H. subst x.
  cbn [x_key x_depth x_child x_fpr].
  split; [assumption|]. split; [lia|]. split; [exact Ep|].
  intros Hz. apply Bool.andb_false_iff in Em. destruct Em as [Em|Em].
  - apply N.eqb_neq in Em. lia.
  - apply Bool.orb_false_iff in Em. destruct Em as [Em1 Em2].
    apply Bool.negb_false_iff in Em1. apply Z.eqb_eq in Em1. auto.
Qed.

(* hardened children (index >= 2^31): the MAC input is 0x00 || ser256(k) || ser32(i), whatever the group *)
Theorem ckey_derive_hardened_input : forall (pt : Type) (mulG : Z -> pt) n ser33 hmac512 k cc i, HARDENED <= i ->
  ckey_derive pt mulG n ser33 hmac512 k cc i =
  let out := hmac512 cc (0%N :: be_bytes_z 32 k ++ be_bytes_z 4 i) in
  match priv_tweak_add n k (be_val (firstn 32 out)) with Some k' => Some (k', skipn 32 out) | None => None end.
Proof.
  intros pt mulG n ser33 hmac512 k cc i Hi. unfold ckey_derive. destruct (Z.ltb_spec i HARDENED); [lia|]. reflexivity.
Qed.
(* non-hardened children hash serP(k*G) || ser32(i) *)
Theorem ckey_derive_normal_input : forall (pt : Type) (mulG : Z -> pt) n ser33 hmac512 k cc i h x, i < HARDENED ->
  ser33 (mulG k) = h :: x ->
  ckey_derive pt mulG n ser33 hmac512 k cc i =
  let out := hmac512 cc (h :: x ++ be_bytes_z 4 i) in
  match priv_tweak_add n k (be_val (firstn 32 out)) with Some k' => Some (k', skipn 32 out) | None => None end.
Proof.
  intros pt mulG n ser33 hmac512 k cc i h x Hi Hs. unfold ckey_derive. destruct (Z.ltb_spec i HARDENED); [|lia].
  rewrite Hs. reflexivity.
Qed.
