(* C25: clusters as connected components. labels = one pass of label merging over the edges;
   two transactions carry the same label iff they are connected by the edges, in either direction. *)
From Coq Require Import List ZArith Bool Arith Lia Relations.
From BV Require Import lib.Ints model.Fee model.Lin model.TxGraph proofs.LinLemmas proofs.TxGraphRel.
Import ListNotations.

(* connected through dependencies taken in either direction *)
Definition conn (E : rel) : nat -> nat -> Prop := clos_refl_sym_trans nat (edge E).

Lemma conn_refl E x : conn E x x.
Proof. apply rst_refl. Qed.
Lemma conn_sym E x y : conn E x y -> conn E y x.
Proof. apply rst_sym. Qed.
Lemma conn_trans E x y z : conn E x y -> conn E y z -> conn E x z.
Proof. apply rst_trans. Qed.
Lemma conn_step E x y : In (x, y) E -> conn E x y.
Proof. intros H. apply rst_step. exact H. Qed.

Lemma conn_mono E F x y : (forall a b, edge E a b -> conn F a b) -> conn E x y -> conn F x y.
Proof.
  intros H C. induction C as [a b Hab | a | a b _ IH | a b c _ IH1 _ IH2].
  - apply H. exact Hab.
  - apply conn_refl.
  - apply conn_sym. exact IH.
  - eapply conn_trans; eauto.
Qed.
Lemma conn_incl E F x y : incl E F -> conn E x y -> conn F x y.
Proof. intros I. apply conn_mono. intros a b H. apply conn_step. apply I. exact H. Qed.

Lemma conn_ends E (S : nat -> Prop) x y : ends_in E S -> conn E x y -> S x -> S y.
Proof.
  intros H C. assert (G : (S x -> S y) /\ (S y -> S x)).
  { induction C as [a b Hab | a | a b _ IH | a b c _ IH1 _ IH2].
    - destruct (H _ _ Hab). tauto.
    - tauto.
    - tauto.
    - tauto. }
  tauto.
Qed.

(* a transitive closure connects nothing new *)
Lemma conn_tc E F x y : (forall a b, edge F a b <-> tc E a b) -> (conn F x y <-> conn E x y).
Proof.
  intros H. split; apply conn_mono; intros a b Hab.
  - apply H in Hab. induction Hab as [u v Huv | u v w _ IH1 _ IH2]; [apply conn_step; exact Huv | eapply conn_trans; eauto].
  - apply conn_step. apply H. apply t_step. exact Hab.
Qed.

(* ------------------------------------------------------------------------------------------- *)
Lemma lab_relabel la ld L x :
  lab (relabel la ld L) x = option_map (fun l => if Nat.eqb l ld then la else l) (lab L x).
Proof.
  induction L as [| t L IH]; simpl; [reflexivity |].
  destruct (Nat.eqb (fst t) x); [reflexivity | exact IH].
Qed.

Lemma lab_init idl x : lab (map (fun i => (i, i)) idl) x = if memn x idl then Some x else None.
Proof.
  induction idl as [| i idl IH]; simpl; [reflexivity |].
  unfold memn in *. simpl. rewrite (Nat.eqb_sym x i). destruct (Nat.eqb i x) eqn:E.
  - apply Nat.eqb_eq in E. subst. reflexivity.
  - exact IH.
Qed.

(* the invariant of the pass, after the edges E have been merged *)
Record lab_inv (idl : list nat) (E : rel) (L : list (nat * nat)) : Prop := {
  li_dom : forall x, lab L x <> None <-> In x idl;
  li_sound : forall x y l, lab L x = Some l -> lab L y = Some l -> conn E x y;
  li_edges : forall a d, In (a, d) E -> lab L a = lab L d
}.

Lemma lab_inv_init idl : lab_inv idl [] (map (fun i => (i, i)) idl).
Proof.
  split.
  - intros x. rewrite lab_init. destruct (memn x idl) eqn:E.
    + apply memn_In in E. split; [auto | intros _; discriminate].
    + apply memn_false in E. split; [intros H; exfalso; apply H; reflexivity | intros H; contradiction].
  - intros x y l Hx Hy. rewrite lab_init in Hx, Hy.
    destruct (memn x idl); [| discriminate]. destruct (memn y idl); [| discriminate].
    inversion Hx. inversion Hy. subst. subst. apply conn_refl.
  - intros a d [].
Qed.

Lemma lab_inv_step idl E L a d :
  lab_inv idl E L -> In a idl -> In d idl -> lab_inv idl (E ++ [(a, d)]) (merge_edge L (a, d)).
Proof.
  intros I Ha Hd. unfold merge_edge. simpl.
  destruct (lab L a) as [la |] eqn:Ea; [| exfalso; apply (li_dom _ _ _ I a) in Ha; contradiction].
  destruct (lab L d) as [ld |] eqn:Ed; [| exfalso; apply (li_dom _ _ _ I d) in Hd; contradiction].
  assert (Hconn : forall x y, conn E x y -> conn (E ++ [(a, d)]) x y).
  { intros x y. apply conn_incl. apply incl_appl, incl_refl. }
  assert (Had : conn (E ++ [(a, d)]) a d).
  { apply conn_step. apply in_or_app. right. left. reflexivity. }
  split.
  - intros x. rewrite lab_relabel. rewrite <- (li_dom _ _ _ I x). destruct (lab L x); simpl; split; intros H; congruence.
  - intros x y l. rewrite !lab_relabel.
    destruct (lab L x) as [lx |] eqn:Ex; [| discriminate]. destruct (lab L y) as [ly |] eqn:Ey; [| discriminate].
    simpl. intros Hx Hy. inversion Hx as [Hx']. inversion Hy as [Hy']. clear Hx Hy.
    destruct (Nat.eqb lx ld) eqn:E1, (Nat.eqb ly ld) eqn:E2;
      try apply Nat.eqb_eq in E1; try apply Nat.eqb_eq in E2; subst.
    + apply Hconn. eapply (li_sound _ _ _ I); eauto.
    + (* x ~ d, y ~ a *)
      apply conn_trans with d; [apply Hconn; eapply (li_sound _ _ _ I); eauto |].
      apply conn_trans with a; [apply conn_sym; exact Had |]. apply Hconn. eapply (li_sound _ _ _ I); eauto.
    + apply conn_trans with a; [apply Hconn; eapply (li_sound _ _ _ I); eauto |].
      apply conn_trans with d; [exact Had |]. apply Hconn. eapply (li_sound _ _ _ I); eauto.
    + apply Hconn. eapply (li_sound _ _ _ I); eauto.
  - intros u v Huv. rewrite !lab_relabel. apply in_app_or in Huv. destruct Huv as [Huv | [Huv | []]].
    + rewrite (li_edges _ _ _ I _ _ Huv). reflexivity.
    + inversion Huv. subst. rewrite Ea, Ed. simpl. rewrite Nat.eqb_refl.
      destruct (Nat.eqb la ld) eqn:E1; reflexivity.
Qed.

Lemma lab_inv_fold idl E : forall E0 L, lab_inv idl E0 L -> ends_in E (fun x => In x idl) ->
  lab_inv idl (E0 ++ E) (fold_left merge_edge E L).
Proof.
  induction E as [| [a d] E IH]; intros E0 L I H.
  - simpl. rewrite app_nil_r. exact I.
  - simpl. replace (E0 ++ (a, d) :: E) with ((E0 ++ [(a, d)]) ++ E) by (rewrite <- app_assoc; reflexivity).
    apply IH.
    + destruct (H a d (or_introl eq_refl)). apply lab_inv_step; assumption.
    + intros x y Hxy. apply H. right. exact Hxy.
Qed.

Lemma labels_inv idl E : ends_in E (fun x => In x idl) -> lab_inv idl E (labels idl E).
Proof. intros H. apply (lab_inv_fold idl E [] _ (lab_inv_init idl) H). Qed.

(* the label of a listed transaction exists *)
Lemma labels_some idl E x : ends_in E (fun y => In y idl) -> In x idl -> exists l, lab (labels idl E) x = Some l.
Proof.
  intros H Hx. pose proof (labels_inv idl E H) as I. apply (li_dom _ _ _ I) in Hx.
  destruct (lab (labels idl E) x) as [l |]; [exists l; reflexivity | contradiction].
Qed.

Lemma conn_same_label idl E L x y : lab_inv idl E L -> conn E x y -> lab L x = lab L y.
Proof.
  intros I C. induction C as [a b Hab | a | a b _ IH | a b c _ IH1 _ IH2].
  - apply (li_edges _ _ _ I). exact Hab.
  - reflexivity.
  - symmetry. exact IH.
  - congruence.
Qed.

(* same label <-> connected *)
Theorem same_cluster_iff idl E x y : ends_in E (fun z => In z idl) -> In x idl -> In y idl ->
  (same_cluster (labels idl E) x y = true <-> conn E x y).
Proof.
  intros H Hx Hy. pose proof (labels_inv idl E H) as I. unfold same_cluster.
  destruct (labels_some idl E x H Hx) as [lx Ex]. destruct (labels_some idl E y H Hy) as [ly Ey].
  rewrite Ex, Ey. split.
  - intros Heq. apply Nat.eqb_eq in Heq. subst. eapply (li_sound _ _ _ I); eauto.
  - intros C. pose proof (conn_same_label _ _ _ _ _ I C) as Hl. rewrite Ex, Ey in Hl. inversion Hl. apply Nat.eqb_refl.
Qed.

Lemma same_cluster_live idl E x y : ends_in E (fun z => In z idl) ->
  same_cluster (labels idl E) x y = true -> In x idl /\ In y idl.
Proof.
  intros H S. pose proof (labels_inv idl E H) as I. unfold same_cluster in S.
  destruct (lab (labels idl E) x) eqn:Ex; [| discriminate]. destruct (lab (labels idl E) y) eqn:Ey; [| discriminate].
  split; apply (li_dom _ _ _ I); congruence.
Qed.

Theorem cluster_in_iff idl E x y : ends_in E (fun z => In z idl) -> In x idl ->
  (In y (cluster_in idl (labels idl E) x) <-> In y idl /\ conn E x y).
Proof.
  intros H Hx. unfold cluster_in. rewrite filter_In. split.
  - intros [Hy S]. split; [exact Hy |]. apply (same_cluster_iff idl E x y H Hx Hy). exact S.
  - intros [Hy C]. split; [exact Hy |]. apply (same_cluster_iff idl E x y H Hx Hy). exact C.
Qed.
