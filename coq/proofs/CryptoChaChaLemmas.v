(* C49 — ChaCha20: the buffered object ChaCha20 (Keystream / Crypt in any sequence of lengths) produces
   consecutive slices of the block stream of ChaCha20Aligned; that stream is the RFC 8439 stream as long
   as the 32-bit block counter does not overflow; Crypt is an involution; RFC 8439 test vectors. *)
From Coq Require Import NArith Arith.
From BV Require Import lib.Ints model.CryptoBase model.CryptoChaCha proofs.CryptoBaseLemmas proofs.CryptoMDLemmas.
Local Open Scope Z_scope.

(* ---------- xor_bytes ---------- *)
Lemma xor_bytes_length : forall a b, length (xor_bytes a b) = Nat.min (length a) (length b).
Proof. induction a as [|x a IH]; intros [|y b]; simpl; auto. Qed.

Lemma xor_bytes_nil_r a : xor_bytes a [] = [].
Proof. destruct a; reflexivity. Qed.

Lemma xor_bytes_app : forall a1 b1 a2 b2, length a1 = length b1 ->
  xor_bytes (a1 ++ a2) (b1 ++ b2) = xor_bytes a1 b1 ++ xor_bytes a2 b2.
Proof.
  induction a1 as [|x a1 IH]; intros [|y b1] a2 b2 Hl; simpl in *; try discriminate; [reflexivity|].
  f_equal. apply IH. lia.
Qed.

Lemma xor_bytes_firstn_r : forall a b, xor_bytes a (firstn (length a) b) = xor_bytes a b.
Proof. induction a as [|x a IH]; intros [|y b]; simpl; auto. f_equal. apply IH. Qed.

Lemma xor_bytes_firstn_r_ge : forall a b n, (length a <= n)%nat -> xor_bytes a (firstn n b) = xor_bytes a b.
Proof.
  induction a as [|x a IH]; intros [|y b] n Hn; simpl in *; auto.
  - destruct n; reflexivity.
  - destruct n as [|n]; [lia|]. simpl. f_equal. apply IH. lia.
Qed.

Lemma xor_bytes_zeros : forall n x, xor_bytes (zeros n) x = firstn n x.
Proof.
  induction n as [|n IH]; intros [|y x]; simpl; auto. unfold zeros in *. simpl. rewrite IH. reflexivity.
Qed.

Lemma xor_bytes_involutive : forall m k, (length m <= length k)%nat -> xor_bytes (xor_bytes m k) k = m.
Proof.
  induction m as [|x m IH]; intros [|y k] Hl; simpl in *; try reflexivity; try lia.
  rewrite N.lxor_assoc, N.lxor_nilpotent, N.lxor_0_r. f_equal. apply IH. lia.
Qed.

(* ---------- the 16-word state keeps its size ---------- *)
Lemma upd_length i v : forall l, length (upd i v l) = length l.
Proof. induction i as [|i IH]; intros [|x l]; simpl; auto. Qed.

Lemma quarterround_length x y z w st : length (quarterround x y z w st) = length st.
Proof.
  unfold quarterround. destruct (quarter _ _ _ _) as [[[a b] c] d]. rewrite !upd_length. reflexivity.
Qed.

Lemma inner_block_length st : length (inner_block st) = length st.
Proof. unfold inner_block. rewrite !quarterround_length. reflexivity. Qed.

Lemma iterate_preserves {A} (P : A -> Prop) (f : A -> A) :
  (forall x, P x -> P (f x)) -> forall n x, P x -> P (iterate n f x).
Proof. intros Hf. induction n as [|n IH]; intros x Hx; simpl; [exact Hx|]. apply IH. apply Hf. exact Hx. Qed.

Lemma iterate_inner_length n st : length (iterate n inner_block st) = length st.
Proof.
  apply (iterate_preserves (fun s => length s = length st) inner_block); [|reflexivity].
  intros x Hx. rewrite inner_block_length. exact Hx.
Qed.

Lemma add_words_length : forall a b, length (add_words a b) = Nat.min (length a) (length b).
Proof. induction a as [|x a IH]; intros [|y b]; simpl; auto. Qed.

Lemma concat_le_bytes4_length : forall l, length (concat (map (le_bytes 4) l)) = (4 * length l)%nat.
Proof. induction l as [|x l IH]; [reflexivity|]. cbn [map concat]. rewrite app_length, le_bytes_length, IH. simpl. lia. Qed.

Lemma block_words_length st : length (chacha20_block_words st) = (4 * length st)%nat.
Proof.
  unfold chacha20_block_words. rewrite concat_le_bytes4_length, add_words_length, iterate_inner_length. lia.
Qed.

Definition input_ok (input : list Z) : Prop := length input = 12%nat.

Lemma aligned_block_length input : input_ok input -> length (aligned_block input) = 64%nat.
Proof. intros H. unfold aligned_block. rewrite block_words_length, app_length. unfold input_ok in H. rewrite H. reflexivity. Qed.

Lemma aligned_next_ok input : input_ok input -> input_ok (aligned_next input).
Proof. unfold input_ok, aligned_next. intros H. rewrite !upd_length. exact H. Qed.

(* from here on the block function is a black box *)
Local Opaque aligned_block aligned_next chacha20_block_words inner_block.

(* ---------- the block stream of ChaCha20Aligned ---------- *)
Lemma ak_ok b : forall input, input_ok input -> input_ok (snd (aligned_keystream b input)).
Proof.
  induction b as [|b IH]; intros input H; simpl; [exact H|].
  specialize (IH (aligned_next input) (aligned_next_ok _ H)).
  destruct (aligned_keystream b (aligned_next input)) as [r i']. exact IH.
Qed.

Lemma ak_length b : forall input, input_ok input -> length (fst (aligned_keystream b input)) = (64 * b)%nat.
Proof.
  induction b as [|b IH]; intros input H; simpl; [reflexivity|].
  specialize (IH (aligned_next input) (aligned_next_ok _ H)).
  destruct (aligned_keystream b (aligned_next input)) as [r i']. simpl in *.
  rewrite app_length, aligned_block_length, IH by exact H. lia.
Qed.

Lemma ak_app a : forall b input,
  aligned_keystream (a + b) input =
  (fst (aligned_keystream a input) ++ fst (aligned_keystream b (snd (aligned_keystream a input))),
   snd (aligned_keystream b (snd (aligned_keystream a input)))).
Proof.
  induction a as [|a IH]; intros b input.
  - simpl. destruct (aligned_keystream b input); reflexivity.
  - cbn [Nat.add aligned_keystream]. rewrite IH.
    destruct (aligned_keystream a (aligned_next input)) as [r1 i1]. cbn [fst snd].
    rewrite app_assoc. reflexivity.
Qed.

Definition blocks_needed (n : nat) : nat := ((n + 63) / 64)%nat.

Lemma blocks_needed_ge n : (n <= 64 * blocks_needed n)%nat.
Proof. unfold blocks_needed. pose proof (Nat.div_mod (n + 63) 64 ltac:(lia)). pose proof (Nat.mod_upper_bound (n + 63) 64 ltac:(lia)). lia. Qed.

(* ---------- abstract reader: (input words of the next block, unread tail of the current block) ---------- *)
Definition future (st : list Z * list N) (k : nat) : list N := snd st ++ fst (aligned_keystream k (fst st)).

Definition take (n : nat) (st : list Z * list N) : list N * (list Z * list N) :=
  let '(inp, lft) := st in
  if (n <=? length lft)%nat then (firstn n lft, (inp, skipn n lft))
  else
    let need := (n - length lft)%nat in
    let '(ks, inp') := aligned_keystream (blocks_needed need) inp in
    (lft ++ firstn need ks, (inp', skipn need ks)).

Lemma take_future n st : input_ok (fst st) ->
  length (fst (take n st)) = n /\ input_ok (fst (snd (take n st))) /\
  exists b0, forall k, future st (b0 + k) = fst (take n st) ++ future (snd (take n st)) k.
Proof.
  destruct st as [inp lft]. intros Hok. unfold take. cbn [fst snd] in *.
  destruct (n <=? length lft)%nat eqn:E.
  - apply Nat.leb_le in E. cbn [fst snd]. split; [apply firstn_length_le; exact E|]. split; [exact Hok|].
    exists 0%nat. intros k. unfold future. cbn [fst snd Nat.add]. rewrite app_assoc, firstn_skipn. reflexivity.
  - apply Nat.leb_gt in E.
    set (need := (n - length lft)%nat).
    pose proof (ak_length (blocks_needed need) inp Hok) as Hlen.
    pose proof (ak_ok (blocks_needed need) inp Hok) as Hok'.
    pose proof (ak_app (blocks_needed need)) as Happ.
    destruct (aligned_keystream (blocks_needed need) inp) as [ks inp'] eqn:Eak. cbn [fst snd] in *.
    pose proof (blocks_needed_ge need) as Hge.
    split; [rewrite app_length, firstn_length_le by lia; lia|]. split; [exact Hok'|].
    exists (blocks_needed need). intros k. unfold future. cbn [fst snd].
    rewrite Happ, Eak. cbn [fst snd]. rewrite <- !app_assoc. f_equal.
    rewrite app_assoc, firstn_skipn. reflexivity.
Qed.

(* ---------- arithmetic of 64-byte blocks ---------- *)
Lemma bn_exact q : blocks_needed (64 * q) = q.
Proof. unfold blocks_needed. symmetry. apply (Nat.div_unique (64 * q + 63) 64 q 63); lia. Qed.

Lemma bn_partial q r : (0 < r < 64)%nat -> blocks_needed (64 * q + r) = (q + 1)%nat.
Proof. intros Hr. unfold blocks_needed. symmetry. apply (Nat.div_unique (64 * q + r + 63) 64 (q + 1) (r - 1)); lia. Qed.

Lemma divmod64 n : (n = 64 * (n / 64) + n mod 64 /\ n mod 64 < 64)%nat.
Proof. split; [apply Nat.div_mod; lia | apply Nat.mod_upper_bound; lia]. Qed.

(* ---------- the ChaCha20 object refines the abstract reader ---------- *)
Definition Rc (c : chacha20) (st : list Z * list N) : Prop :=
  cc_input c = fst st /\ input_ok (fst st) /\ length (cc_buffer c) = 64%nat /\ (cc_bufleft c <= 64)%nat /\
  snd st = skipn (64 - cc_bufleft c) (cc_buffer c).

Lemma Rc_left_length c st : Rc c st -> length (snd st) = cc_bufleft c.
Proof. intros (_ & _ & Hb & Hle & Hl). rewrite Hl, skipn_length, Hb. lia. Qed.

Lemma keystream_refines c st n : Rc c st ->
  fst (chacha20_keystream c n) = fst (take n st) /\ Rc (snd (chacha20_keystream c n)) (snd (take n st)).
Proof.
  intros HR. pose proof (Rc_left_length c st HR) as Hll.
  destruct HR as (Hin & Hok & Hbuf & Hble & Hlft).
  destruct st as [inp lft]. cbn [fst snd] in *. subst inp.
  set (bl := cc_bufleft c) in *. set (buf := cc_buffer c) in *.
  unfold chacha20_keystream.
  destruct (n =? 0)%nat eqn:En0.
  { apply Nat.eqb_eq in En0. subst n. unfold take. cbn [Nat.leb fst snd firstn skipn].
    split; [reflexivity|]. unfold Rc. cbn [fst snd]. auto. }
  apply Nat.eqb_neq in En0.
  fold bl. fold buf. rewrite <- Hlft.
  assert (Hreuse : (if (0 <? bl)%nat then Nat.min bl n else 0%nat) = Nat.min bl n).
  { destruct (0 <? bl)%nat eqn:E; [reflexivity|]. apply Nat.ltb_ge in E. lia. }
  rewrite Hreuse. clear Hreuse.
  unfold take.
  destruct (n <=? length lft)%nat eqn:Ecase.
  - (* served from the leftover buffer *)
    apply Nat.leb_le in Ecase. rewrite Hll in Ecase.
    rewrite Nat.min_r by lia. replace (n - n)%nat with 0%nat by lia.
    cbn [Nat.leb Nat.ltb]. cbn [fst snd]. rewrite app_nil_r. split; [reflexivity|].
    unfold Rc. cbn [cc_input cc_buffer cc_bufleft fst snd].
    repeat split; try assumption; try lia.
    rewrite Hlft. fold buf. rewrite skipn_skipn'. f_equal. lia.
  - (* leftover used up, then fresh blocks *)
    apply Nat.leb_gt in Ecase. rewrite Hll in *.
    rewrite Nat.min_l by lia.
    rewrite (firstn_all2 lft) by lia.
    set (need := (n - bl)%nat).
    destruct (divmod64 need) as [Hdm Hmod].
    set (q := (need / 64)%nat) in *. set (n2 := (need mod 64)%nat) in *.
    (* phase 2, uniformly *)
    assert (Hphase2 :
      (if (64 <=? need)%nat
       then let '(o, i) := aligned_keystream q (cc_input c) in (o, i, (need - q * 64)%nat)
       else ([], cc_input c, need)) =
      (fst (aligned_keystream q (cc_input c)), snd (aligned_keystream q (cc_input c)), n2)).
    { destruct (64 <=? need)%nat eqn:E64.
      - destruct (aligned_keystream q (cc_input c)) as [o i]. cbn [fst snd]. f_equal. lia.
      - apply Nat.leb_gt in E64. assert (Hq0 : q = 0%nat) by (apply Nat.div_small; exact E64).
        rewrite Hq0. cbn [aligned_keystream fst snd]. f_equal. lia. }
    rewrite Hphase2. clear Hphase2.
    pose proof (ak_length q (cc_input c) Hok) as Hl2.
    pose proof (ak_ok q (cc_input c) Hok) as Hok2.
    destruct (aligned_keystream q (cc_input c)) as [o2 i2] eqn:Eq2. cbn [fst snd] in *.
    destruct (0 <? n2)%nat eqn:E3.
    + apply Nat.ltb_lt in E3.
      assert (Hbn : blocks_needed need = (q + 1)%nat) by (rewrite Hdm; apply bn_partial; lia).
      rewrite Hbn, ak_app, Eq2. cbn [fst snd].
      pose proof (ak_length 1 i2 Hok2) as Hl3. pose proof (ak_ok 1 i2 Hok2) as Hok3.
      destruct (aligned_keystream 1 i2) as [blk i3]. cbn [fst snd] in *.
      assert (Hf : firstn need (o2 ++ blk) = o2 ++ firstn n2 blk).
      { rewrite firstn_app, firstn_all2 by lia. f_equal. f_equal. lia. }
      assert (Hs : skipn need (o2 ++ blk) = skipn n2 blk).
      { rewrite skipn_app, skipn_all2 by lia. cbn [app]. f_equal. lia. }
      rewrite Hf, Hs. split; [reflexivity|].
      unfold Rc. cbn [cc_input cc_buffer cc_bufleft fst snd].
      repeat split; try assumption; try lia. f_equal. lia.
    + apply Nat.ltb_ge in E3. assert (Hn20 : n2 = 0%nat) by lia.
      assert (Hbn : blocks_needed need = q) by (rewrite Hdm, Hn20, Nat.add_0_r; apply bn_exact).
      rewrite Hbn, Eq2. cbn [fst snd].
      rewrite firstn_all2 by lia. rewrite skipn_all2 by lia. split; [reflexivity|].
      unfold Rc. cbn [cc_input cc_buffer cc_bufleft fst snd].
      repeat split; try assumption; try lia.
      fold buf. rewrite skipn_all2 by lia. reflexivity.
Qed.

Lemma xor_bytes_app3 d0 d1 d2 k0 k1 k2 : length d0 = length k0 -> length d1 = length k1 ->
  xor_bytes (d0 ++ d1 ++ d2) (k0 ++ k1 ++ k2) = xor_bytes d0 k0 ++ xor_bytes d1 k1 ++ xor_bytes d2 k2.
Proof. intros H0 H1. rewrite xor_bytes_app by exact H0. rewrite xor_bytes_app by exact H1. reflexivity. Qed.

(* Crypt is Keystream of the same length XORed onto the input *)
Lemma crypt_is_xor_keystream c st data : Rc c st ->
  chacha20_crypt c data =
  (xor_bytes data (fst (chacha20_keystream c (length data))), snd (chacha20_keystream c (length data))).
Proof.
  intros HR. pose proof (Rc_left_length c st HR) as Hll.
  destruct HR as (Hin & Hok & Hbuf & Hble & Hlft). rewrite <- Hin in Hok.
  unfold chacha20_crypt, chacha20_keystream.
  set (n := length data).
  destruct (n =? 0)%nat eqn:En0.
  { apply Nat.eqb_eq in En0. apply length_zero_nil in En0. rewrite En0. reflexivity. }
  apply Nat.eqb_neq in En0.
  set (bl := cc_bufleft c) in *.
  set (X := skipn (64 - bl) (cc_buffer c)).
  assert (HX : length X = bl) by (unfold X; rewrite skipn_length, Hbuf; lia).
  set (reuse := if (0 <? bl)%nat then Nat.min bl n else 0%nat).
  assert (Hreuse : (reuse <= bl /\ reuse <= n)%nat).
  { unfold reuse. destruct (0 <? bl)%nat; lia. }
  set (data1 := skipn reuse data).
  assert (Hd1 : length data1 = (n - reuse)%nat) by (unfold data1; apply skipn_length).
  rewrite Hd1.
  assert (Hdata : data = firstn reuse data ++ data1) by (unfold data1; symmetry; apply firstn_skipn).
  assert (Hf1 : length (firstn reuse data) = reuse) by (apply firstn_length_le; fold n; lia).
  assert (Hk1 : length (firstn reuse X) = reuse) by (apply firstn_length_le; lia).
  destruct (64 <=? n - reuse)%nat eqn:E2.
  - apply Nat.leb_le in E2.
    set (q := ((n - reuse) / 64)%nat).
    assert (Hq : (q * 64 <= n - reuse)%nat) by (unfold q; pose proof (Nat.mul_div_le (n - reuse) 64); lia).
    unfold aligned_crypt.
    pose proof (ak_length q (cc_input c) Hok) as Hl2.
    destruct (aligned_keystream q (cc_input c)) as [ks i2]. cbn [fst snd] in *.
    set (data2 := skipn (q * 64) data1).
    assert (Hd2 : length data2 = (n - reuse - q * 64)%nat) by (unfold data2; rewrite skipn_length, Hd1; reflexivity).
    rewrite Hd2.
    assert (Hdata1 : data1 = firstn (q * 64) data1 ++ data2) by (unfold data2; symmetry; apply firstn_skipn).
    assert (Hf2 : length (firstn (q * 64) data1) = length ks) by (rewrite firstn_length_le by lia; lia).
    destruct (0 <? n - reuse - q * 64)%nat eqn:E3.
    + destruct (aligned_keystream 1 i2) as [blk i3]. cbn [fst snd]. f_equal.
      transitivity (xor_bytes (firstn reuse data ++ firstn (q * 64) data1 ++ data2)
                              (firstn reuse X ++ ks ++ firstn (n - reuse - q * 64) blk)).
      * rewrite xor_bytes_app3 by lia. rewrite <- Hd2, xor_bytes_firstn_r. reflexivity.
      * f_equal. rewrite <- Hdata1. symmetry. exact Hdata.
    + apply Nat.ltb_ge in E3. cbn [fst snd]. f_equal.
      assert (Hnil : data2 = []) by (apply length_zero_nil; lia).
      transitivity (xor_bytes (firstn reuse data ++ firstn (q * 64) data1) (firstn reuse X ++ ks)).
      * rewrite xor_bytes_app by lia. reflexivity.
      * f_equal. rewrite Hnil, app_nil_r in Hdata1. rewrite <- Hdata1. symmetry. exact Hdata.
  - apply Nat.leb_gt in E2. cbn beta iota. rewrite ?Hd1.
    destruct (0 <? n - reuse)%nat eqn:E3.
    + destruct (aligned_keystream 1 (cc_input c)) as [blk i3]. cbn [fst snd app]. rewrite ?Hd1. f_equal.
      transitivity (xor_bytes (firstn reuse data ++ data1) (firstn reuse X ++ firstn (n - reuse) blk)).
      * rewrite xor_bytes_app by lia. rewrite <- Hd1, xor_bytes_firstn_r. reflexivity.
      * f_equal. symmetry. exact Hdata.
    + apply Nat.ltb_ge in E3. cbn [fst snd]. f_equal. rewrite !app_nil_r.
      assert (Hnil : data1 = []) by (apply length_zero_nil; lia).
      rewrite Hnil, app_nil_r in Hdata. rewrite <- Hdata. reflexivity.
Qed.

(* ---------- any sequence of Crypt / Keystream calls ---------- *)
Definition op_size (op : cc_op) : nat := match op with OpCrypt d => length d | OpKeystream n => n end.
Definition op_data (op : cc_op) : list N := match op with OpCrypt d => d | OpKeystream n => zeros n end.
Definition ops_total (ops : list cc_op) : nat := length (concat (map op_data ops)).

Lemma op_data_length op : length (op_data op) = op_size op.
Proof. destruct op; simpl; [reflexivity|]. unfold zeros. apply repeat_length. Qed.

Lemma run_op_as_take c st op : Rc c st ->
  fst (cc_run_op c op) = xor_bytes (op_data op) (fst (take (op_size op) st)) /\
  Rc (snd (cc_run_op c op)) (snd (take (op_size op) st)).
Proof.
  intros HR. destruct op as [d|n]; cbn [cc_run_op op_data op_size].
  - rewrite (crypt_is_xor_keystream c st d HR). cbn [fst snd].
    destruct (keystream_refines c st (length d) HR) as [Ho Hr]. rewrite Ho. split; [reflexivity | exact Hr].
  - destruct (keystream_refines c st n HR) as [Ho Hr]. split; [|exact Hr].
    rewrite Ho, xor_bytes_zeros.
    destruct HR as (_ & Hok & _).
    destruct (take_future n st Hok) as [Hl _]. rewrite firstn_all2 by lia. reflexivity.
Qed.

Lemma run_ops_future ops : forall c st, Rc c st ->
  exists S b0 st',
    length S = ops_total ops /\ (forall k, future st (b0 + k) = S ++ future st' k) /\
    Rc (snd (cc_run_ops c ops)) st' /\
    concat (fst (cc_run_ops c ops)) = xor_bytes (concat (map op_data ops)) S.
Proof.
  induction ops as [|op r IH]; intros c st HR.
  - exists [], 0%nat, st. split; [reflexivity|]. split; [intros k; reflexivity|]. split; [exact HR | reflexivity].
  - cbn [cc_run_ops].
    destruct (run_op_as_take c st op HR) as [Ho HR1].
    destruct HR as (Hin & Hok & Hrest).
    destruct (take_future (op_size op) st Hok) as (Hlen & Hok1 & b1 & Hfut1).
    destruct (cc_run_op c op) as [o c1]. cbn [fst snd] in *.
    destruct (IH c1 _ HR1) as (S' & b0' & st2 & HlS & Hfut2 & HR2 & Hout).
    destruct (cc_run_ops c1 r) as [os c2]. cbn [fst snd] in *.
    exists (fst (take (op_size op) st) ++ S'), (b1 + b0')%nat, st2.
    split; [|split; [|split]].
    + unfold ops_total in *. cbn [map concat]. rewrite !app_length, HlS, Hlen, op_data_length. reflexivity.
    + intros k. rewrite <- Nat.add_assoc, Hfut1, Hfut2, app_assoc. reflexivity.
    + exact HR2.
    + cbn [concat map]. rewrite Hout, Ho. symmetry. apply xor_bytes_app.
      rewrite op_data_length, Hlen. reflexivity.
Qed.

(* MAIN: starting from an empty leftover buffer (after construction, SetKey or Seek), the outputs of any
   sequence of Crypt / Keystream calls, concatenated, are the inputs (zeros for Keystream) XORed with
   the block stream of ChaCha20Aligned from the same state, however the lengths fall *)
Theorem chacha20_ops_stream c ops K :
  input_ok (cc_input c) -> length (cc_buffer c) = 64%nat -> cc_bufleft c = 0%nat ->
  (ops_total ops <= 64 * K)%nat ->
  concat (fst (cc_run_ops c ops)) =
  xor_bytes (concat (map op_data ops)) (fst (aligned_keystream K (cc_input c))).
Proof.
  intros Hok Hbuf Hbl HK.
  assert (HR : Rc c (cc_input c, [])).
  { unfold Rc. cbn [fst snd]. rewrite Hbl. repeat split; auto; try lia. rewrite skipn_all2 by lia. reflexivity. }
  destruct (run_ops_future ops c _ HR) as (S & b0 & st' & HlS & Hfut & _ & Hout).
  rewrite Hout.
  specialize (Hfut K). unfold future in Hfut at 1. cbn [fst snd app] in Hfut.
  rewrite Nat.add_comm, ak_app in Hfut. cbn [fst] in Hfut.
  pose proof (ak_length K (cc_input c) Hok) as HlK.
  set (A := fst (aligned_keystream K (cc_input c))) in *.
  assert (HS : S = firstn (length S) A).
  { assert (H1 : firstn (length S) (A ++ fst (aligned_keystream b0 (snd (aligned_keystream K (cc_input c))))) = firstn (length S) A).
    { rewrite firstn_app. replace (length S - length A)%nat with 0%nat by lia. cbn [firstn]. apply app_nil_r. }
    rewrite <- H1, Hfut. symmetry. apply firstn_exact_app. }
  rewrite HS at 1. rewrite HlS. unfold ops_total. apply xor_bytes_firstn_r.
Qed.

Lemma crypt_seq_as_ops chunks : forall c,
  chacha20_crypt_seq c chunks = cc_run_ops c (map OpCrypt chunks).
Proof.
  induction chunks as [|d r IH]; intros c; [reflexivity|].
  cbn [chacha20_crypt_seq map cc_run_ops cc_run_op]. destruct (chacha20_crypt c d) as [o c1].
  rewrite IH. reflexivity.
Qed.

Lemma map_op_data_crypt chunks : map op_data (map OpCrypt chunks) = chunks.
Proof. induction chunks as [|d r IH]; [reflexivity|]. cbn [map op_data]. rewrite IH. reflexivity. Qed.

Theorem chacha20_crypt_seq_stream c chunks K :
  input_ok (cc_input c) -> length (cc_buffer c) = 64%nat -> cc_bufleft c = 0%nat ->
  (length (concat chunks) <= 64 * K)%nat ->
  concat (fst (chacha20_crypt_seq c chunks)) =
  xor_bytes (concat chunks) (fst (aligned_keystream K (cc_input c))).
Proof.
  intros Hok Hbuf Hbl HK. rewrite crypt_seq_as_ops.
  rewrite (chacha20_ops_stream c (map OpCrypt chunks) K Hok Hbuf Hbl).
  - rewrite map_op_data_crypt. reflexivity.
  - unfold ops_total. rewrite map_op_data_crypt. exact HK.
Qed.

(* chunking independence of Crypt *)
Theorem chacha20_crypt_chunking c chunks :
  input_ok (cc_input c) -> length (cc_buffer c) = 64%nat -> cc_bufleft c = 0%nat ->
  concat (fst (chacha20_crypt_seq c chunks)) = fst (chacha20_crypt c (concat chunks)).
Proof.
  intros Hok Hbuf Hbl.
  set (K := blocks_needed (length (concat chunks))).
  rewrite (chacha20_crypt_seq_stream c chunks K Hok Hbuf Hbl (blocks_needed_ge _)).
  pose proof (chacha20_crypt_seq_stream c [concat chunks] K Hok Hbuf Hbl) as H1.
  cbn [chacha20_crypt_seq concat] in H1. rewrite app_nil_r in H1.
  destruct (chacha20_crypt c (concat chunks)) as [o c1]. cbn [fst concat] in *. rewrite app_nil_r in H1.
  rewrite H1 by apply blocks_needed_ge. reflexivity.
Qed.

(* Crypt from the same position is an involution *)
Theorem chacha20_crypt_involution c msg :
  input_ok (cc_input c) -> length (cc_buffer c) = 64%nat -> cc_bufleft c = 0%nat ->
  fst (chacha20_crypt c (fst (chacha20_crypt c msg))) = msg.
Proof.
  intros Hok Hbuf Hbl.
  set (K := blocks_needed (length msg)).
  assert (H1 : forall m, (length m <= 64 * K)%nat ->
               fst (chacha20_crypt c m) = xor_bytes m (fst (aligned_keystream K (cc_input c)))).
  { intros m Hm. pose proof (chacha20_crypt_seq_stream c [m] K Hok Hbuf Hbl) as H.
    cbn [chacha20_crypt_seq concat] in H. rewrite app_nil_r in H.
    destruct (chacha20_crypt c m) as [o c1]. cbn [fst concat] in *. rewrite app_nil_r in H. apply H. exact Hm. }
  pose proof (ak_length K (cc_input c) Hok) as HlK.
  pose proof (blocks_needed_ge (length msg)) as Hge. fold K in Hge.
  rewrite (H1 msg Hge).
  rewrite H1 by (rewrite xor_bytes_length; lia).
  apply xor_bytes_involutive. lia.
Qed.

(* ---------- the block stream is RFC 8439's as long as the 32-bit counter does not wrap ---------- *)
Local Transparent aligned_block aligned_next.

Definition rfc_input (kw : list Z) (ctr : Z) (nw : list Z) : list Z := kw ++ [ctr] ++ nw.

Lemma aligned_block_rfc key ctr nonce :
  aligned_block (rfc_input (le32_words key) ctr (le32_words nonce)) = chacha20_block key ctr nonce.
Proof. reflexivity. Qed.

Lemma aligned_next_rfc kw ctr nw : length kw = 8%nat -> length nw = 3%nat -> 0 <= ctr -> ctr + 1 < 2 ^ 32 ->
  aligned_next (rfc_input kw ctr nw) = rfc_input kw (ctr + 1) nw.
Proof.
  intros Hk Hn H0 H1.
  do 8 (destruct kw as [|? kw]; [discriminate|]). destruct kw; [|discriminate].
  do 3 (destruct nw as [|? nw]; [discriminate|]). destruct nw; [|discriminate].
  unfold aligned_next, rfc_input. cbn [app nth].
  assert (Hw : w32 (ctr + 1) = ctr + 1) by (rewrite w32_is_mod; apply Z.mod_small; lia).
  rewrite Hw. assert (E : (ctr + 1 =? 0) = false) by (apply Z.eqb_neq; lia). rewrite E.
  reflexivity.
Qed.

Lemma rfc_input_ok kw ctr nw : length kw = 8%nat -> length nw = 3%nat -> input_ok (rfc_input kw ctr nw).
Proof. intros Hk Hn. unfold input_ok, rfc_input. rewrite !app_length, Hk, Hn. reflexivity. Qed.

Local Opaque aligned_block aligned_next.

Lemma ak_rfc kw nw K : length kw = 8%nat -> length nw = 3%nat -> forall ctr, 0 <= ctr -> ctr + Z.of_nat K <= 2 ^ 32 ->
  fst (aligned_keystream K (rfc_input kw ctr nw)) =
  concat (map (fun i => aligned_block (rfc_input kw (ctr + Z.of_nat i) nw)) (seq 0 K)).
Proof.
  intros Hk Hn. induction K as [|K IH]; intros ctr H0 H1; [reflexivity|].
  cbn [aligned_keystream seq map concat].
  destruct K as [|K'].
  - cbn [aligned_keystream seq map concat fst]. rewrite Z.add_0_r. reflexivity.
  - rewrite aligned_next_rfc by (try assumption; lia).
    specialize (IH (ctr + 1) ltac:(lia) ltac:(lia)).
    destruct (aligned_keystream (S K') (rfc_input kw (ctr + 1) nw)) as [r i']. cbn [fst] in *.
    rewrite IH. rewrite Z.add_0_r. f_equal. f_equal.
    rewrite <- seq_shift, map_map. apply map_ext. intros i. do 2 f_equal. lia.
Qed.

Lemma xor_bytes_app_r_short : forall a b1 b2, (length a <= length b1)%nat -> xor_bytes a (b1 ++ b2) = xor_bytes a b1.
Proof.
  induction a as [|x a IH]; intros [|y b1] b2 Hl; simpl in *; try reflexivity; try lia.
  f_equal. apply IH. lia.
Qed.

(* the block-by-block encryption loop of RFC 8439 2.4 is the XOR with the concatenated blocks *)
Lemma chacha20_encrypt_fuel_stream key nonce : length (le32_words key) = 8%nat -> length (le32_words nonce) = 3%nat ->
  forall K fuel ctr msg, (length msg <= fuel)%nat -> (length msg <= 64 * K)%nat ->
  chacha20_encrypt_fuel fuel key ctr nonce msg =
  xor_bytes msg (concat (map (fun i => chacha20_block key (ctr + Z.of_nat i) nonce) (seq 0 K))).
Proof.
  intros Hk Hn.
  assert (Hbl : forall c, length (chacha20_block key c nonce) = 64%nat).
  { intros c. unfold chacha20_block. rewrite block_words_length, !app_length, Hk, Hn. reflexivity. }
  induction K as [|K IH]; intros fuel ctr msg Hf HK.
  - assert (msg = []) by (apply length_zero_nil; lia). subst msg. destruct fuel; reflexivity.
  - destruct fuel as [|fuel].
    { assert (msg = []) by (apply length_zero_nil; lia). subst msg. reflexivity. }
    cbn [chacha20_encrypt_fuel seq map concat].
    destruct msg as [|b msg']; [reflexivity|].
    set (msg := b :: msg') in *.
    rewrite Z.add_0_r.
    rewrite (IH fuel (ctr + 1) (skipn 64 msg)).
    + rewrite <- seq_shift, map_map.
      rewrite (map_ext (fun x => chacha20_block key (ctr + Z.of_nat (S x)) nonce)
                       (fun i => chacha20_block key (ctr + 1 + Z.of_nat i) nonce))
        by (intros i; f_equal; lia).
      destruct (Nat.le_gt_cases 64 (length msg)) as [Hge | Hlt].
      * rewrite <- (firstn_skipn 64 msg) at 3.
        rewrite xor_bytes_app by (rewrite firstn_length_le, Hbl by exact Hge; reflexivity). reflexivity.
      * rewrite (skipn_all2 msg) by lia. cbn [xor_bytes]. rewrite app_nil_r.
        rewrite (firstn_all2 msg) by lia. rewrite xor_bytes_app_r_short by (rewrite Hbl; lia). reflexivity.
    + rewrite skipn_length. unfold msg in *. simpl length in *. lia.
    + rewrite skipn_length. lia.
Qed.

(* little endian packing of the nonce pair used by the C++ API: nonce bytes = LE32(first) || LE64(second) *)
Lemma le32_words_nonce nf ns : 0 <= nf < 2 ^ 32 -> 0 <= ns < 2 ^ 64 ->
  le32_words (le_bytes 4 nf ++ le_bytes 8 ns) = [nf; w32 ns; Z.shiftr ns 32].
Proof.
  intros Hf Hs. rewrite w32_is_mod. rewrite Z.shiftr_div_pow2 by lia.
  change (2 ^ 32) with 4294967296 in *. change (2 ^ 64) with 18446744073709551616 in *.
  cbn [le_bytes app le32_words le_value].
  rewrite !Z2N.id by (apply Z.mod_pos_bound; lia).
  f_equal; [|f_equal; [|f_equal]]; lia.
Qed.

Definition rfc_nonce (nonce_first nonce_second : Z) : list N := le_bytes 4 nonce_first ++ le_bytes 8 nonce_second.

Lemma seek_is_rfc_input ubuf key nf ns ctr : length (le32_words key) = 8%nat -> 0 <= nf < 2 ^ 32 -> 0 <= ns < 2 ^ 64 ->
  cc_input (chacha20_seek (chacha20_new ubuf key) nf ns ctr) =
  rfc_input (le32_words key) ctr (le32_words (rfc_nonce nf ns)).
Proof.
  intros Hk Hf Hs. unfold chacha20_seek, chacha20_new, aligned_seek, aligned_setkey, rfc_nonce. cbn [cc_input].
  rewrite le32_words_nonce by assumption.
  rewrite <- Hk, firstn_exact_app. reflexivity.
Qed.

(* an object positioned at block `ctr` of the (key, nonce) stream with an empty leftover buffer *)
Definition positioned (c : chacha20) (key nonce : list N) (ctr : Z) : Prop :=
  cc_input c = rfc_input (le32_words key) ctr (le32_words nonce) /\
  length (le32_words key) = 8%nat /\ length (le32_words nonce) = 3%nat /\
  length (cc_buffer c) = 64%nat /\ cc_bufleft c = 0%nat.

(* CORE: from such a position, Crypt(c1); ...; Crypt(cn) = RFC 8439 chacha20_encrypt(key, ctr, nonce, c1||...||cn) *)
Theorem chacha20_positioned_is_rfc8439 c key nonce ctr chunks :
  positioned c key nonce ctr -> 0 <= ctr ->
  ctr + Z.of_nat (blocks_needed (length (concat chunks))) <= 2 ^ 32 ->
  concat (fst (chacha20_crypt_seq c chunks)) = chacha20_encrypt key ctr nonce (concat chunks).
Proof.
  intros (Hin & Hk & Hn3 & Hbuf & Hbl) Hc Hov.
  set (K := blocks_needed (length (concat chunks))) in *.
  rewrite (chacha20_crypt_seq_stream c chunks K).
  - rewrite Hin, ak_rfc by assumption.
    unfold chacha20_encrypt.
    rewrite (chacha20_encrypt_fuel_stream key nonce Hk Hn3 K) by (try apply blocks_needed_ge; lia).
    reflexivity.
  - rewrite Hin. apply rfc_input_ok; assumption.
  - exact Hbuf.
  - exact Hbl.
  - apply blocks_needed_ge.
Qed.

(* the key words survive every operation; Seek installs counter and nonce *)
Definition key_loaded (c : chacha20) (key : list N) : Prop :=
  firstn 8 (cc_input c) = le32_words key /\ length (le32_words key) = 8%nat /\ length (cc_buffer c) = 64%nat.

Lemma seek_positioned c key nf ns ctr : key_loaded c key -> 0 <= nf < 2 ^ 32 -> 0 <= ns < 2 ^ 64 ->
  positioned (chacha20_seek c nf ns ctr) key (rfc_nonce nf ns) ctr.
Proof.
  intros (Hkw & Hk & Hbuf) Hf Hs. unfold positioned, chacha20_seek, aligned_seek. cbn [cc_input cc_buffer cc_bufleft].
  unfold rfc_nonce. rewrite le32_words_nonce by assumption. rewrite Hkw.
  repeat split; auto.
Qed.

Lemma new_key_loaded ubuf key : length ubuf = 64%nat -> length (le32_words key) = 8%nat ->
  key_loaded (chacha20_new ubuf key) key.
Proof.
  intros Hu Hk. unfold key_loaded, chacha20_new, aligned_setkey. cbn [cc_input cc_buffer].
  rewrite <- Hk at 1. rewrite firstn_exact_app. auto.
Qed.

(* ChaCha20(key); Seek({nf, ns}, ctr); Crypt(c1); ...; Crypt(cn)  =  RFC 8439 chacha20_encrypt(key, ctr, nonce, c1||...||cn) *)
Theorem chacha20_object_is_rfc8439 ubuf key nf ns ctr chunks :
  length ubuf = 64%nat -> length (le32_words key) = 8%nat ->
  0 <= nf < 2 ^ 32 -> 0 <= ns < 2 ^ 64 -> 0 <= ctr ->
  ctr + Z.of_nat (blocks_needed (length (concat chunks))) <= 2 ^ 32 ->
  concat (fst (chacha20_crypt_seq (chacha20_seek (chacha20_new ubuf key) nf ns ctr) chunks)) =
  chacha20_encrypt key ctr (rfc_nonce nf ns) (concat chunks).
Proof.
  intros Hu Hk Hf Hs Hc Hov.
  apply chacha20_positioned_is_rfc8439; try assumption.
  apply seek_positioned; try assumption. apply new_key_loaded; assumption.
Qed.

(* ---------- where an object stands after operations ---------- *)
Local Transparent aligned_next.
Lemma firstn_upd_ge : forall n i v (l : list Z), (n <= i)%nat -> firstn n (upd i v l) = firstn n l.
Proof.
  induction n as [|n IH]; intros i v l Hi; [reflexivity|].
  destruct l as [|x l]; [destruct i; reflexivity|]. destruct i as [|i]; [lia|].
  cbn [upd firstn]. f_equal. apply IH. lia.
Qed.
Lemma aligned_next_key inp : firstn 8 (aligned_next inp) = firstn 8 inp.
Proof. unfold aligned_next. rewrite !firstn_upd_ge by lia. reflexivity. Qed.
Local Opaque aligned_next.

Lemma ak_key b : forall inp, firstn 8 (snd (aligned_keystream b inp)) = firstn 8 inp.
Proof.
  induction b as [|b IH]; intros inp; [reflexivity|]. cbn [aligned_keystream].
  specialize (IH (aligned_next inp)). destruct (aligned_keystream b (aligned_next inp)) as [r i'].
  cbn [snd] in *. rewrite IH. apply aligned_next_key.
Qed.

Lemma take_key n st : firstn 8 (fst (snd (take n st))) = firstn 8 (fst st).
Proof.
  destruct st as [inp lft]. unfold take. destruct (n <=? length lft)%nat; [reflexivity|].
  pose proof (ak_key (blocks_needed (n - length lft)) inp) as H.
  destruct (aligned_keystream (blocks_needed (n - length lft)) inp) as [ks inp']. exact H.
Qed.

Lemma Rc_of_key_loaded c key : key_loaded c key -> input_ok (cc_input c) -> (cc_bufleft c <= 64)%nat ->
  Rc c (cc_input c, skipn (64 - cc_bufleft c) (cc_buffer c)).
Proof. intros (_ & _ & Hb) Hok Hle. unfold Rc. cbn [fst snd]. auto. Qed.

(* any operation keeps the key words, the state size and the buffer size *)
Lemma run_op_keeps c st op key : Rc c st -> key_loaded c key ->
  key_loaded (snd (cc_run_op c op)) key.
Proof.
  intros HR (Hkw & Hk & Hbuf).
  destruct (run_op_as_take c st op HR) as [_ HR1].
  destruct HR as (Hin & _). destruct HR1 as (Hin1 & _ & Hbuf1 & _).
  unfold key_loaded. rewrite Hin1, take_key, <- Hin. auto.
Qed.

(* ---------- RFC 8439 test vectors ---------- *)
Definition rfc_key : list N := map N.of_nat (seq 0 32).
(* 2.3.2 *)
Example chacha20_block_rfc8439_232 :
  be_value (chacha20_block rfc_key 1 [0;0;0;9;0;0;0;74;0;0;0;0]%N) =
  0x10f1e7e4d13b5915500fdd1fa32071c4c7d1f4c733c068030422aa9ac3d46c4ed2826446079faa0914c2d705d98b02a2b5129cd1de164eb9cbd083e8a2503c4e.
Proof. vm_compute. reflexivity. Qed.

(* 2.4.2: "Ladies and Gentlemen of the class of '99: If I could offer you only one tip for the future, sunscreen would be it." *)
Definition sunscreen : list N :=
  [76;97;100;105;101;115;32;97;110;100;32;71;101;110;116;108;101;109;101;110;32;111;102;32;116;104;101;32;99;108;97;115;115;32;111;102;32;39;57;57;58;32;73;102;32;73;32;99;111;117;108;100;32;111;102;102;101;114;32;121;111;117;32;111;110;108;121;32;111;110;101;32;116;105;112;32;102;111;114;32;116;104;101;32;102;117;116;117;114;101;44;32;115;117;110;115;99;114;101;101;110;32;119;111;117;108;100;32;98;101;32;105;116;46]%N.
Definition sunscreen_ct : Z :=
  0x6e2e359a2568f98041ba0728dd0d6981e97e7aec1d4360c20a27afccfd9fae0bf91b65c5524733ab8f593dabcd62b3571639d624e65152ab8f530c359f0861d807ca0dbf500d6a6156a38e088a22b65e52bc514d16ccf806818ce91ab77937365af90bbf74a35be6b40b8eedf2785e42874d.
Example chacha20_encrypt_rfc8439_242 :
  be_value (chacha20_encrypt rfc_key 1 [0;0;0;0;0;0;0;74;0;0;0;0]%N sunscreen) = sunscreen_ct.
Proof. vm_compute. reflexivity. Qed.
(* the same through the object model, cut at awkward places, with a Keystream call first consumed elsewhere *)
Example chacha20_object_rfc8439_242 :
  be_value (concat (fst (chacha20_crypt_seq (chacha20_seek (chacha20_new (zeros 64) rfc_key) 0 0x4a000000 1)
                                            [firstn 1 sunscreen; firstn 63 (skipn 1 sunscreen); []; skipn 64 sunscreen]))) = sunscreen_ct.
Proof. vm_compute. reflexivity. Qed.
