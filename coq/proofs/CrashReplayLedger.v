(* C16: ledger-level facts.  RollforwardBlock and DisconnectBlock only ever prepend state-independent
   writes to the cache log; disconnecting a valid block with its undo data restores, on every
   outpoint the block touches, the value before the block -- from ANY starting view. *)
From Coq Require Import List NArith Bool Arith Lia.
From BV Require Import model.CrashReplay proofs.CrashReplayBasics.
Import ListNotations.

(* ---------- prepending functions ---------- *)
Definition prepending (f : overlay -> overlay) : Prop := forall ov, f ov = f [] ++ ov.

Lemma prepending_id : prepending (fun ov => ov).
Proof. intro ov. reflexivity. Qed.
Lemma prepending_cons : forall x, prepending (fun ov => x :: ov).
Proof. intros x ov. reflexivity. Qed.
Lemma prepending_comp : forall f g, prepending f -> prepending g -> prepending (fun ov => g (f ov)).
Proof.
  intros f g Hf Hg ov. rewrite (Hg (f ov)), (Hg (f [])), (Hf ov). rewrite app_assoc. reflexivity.
Qed.
Lemma prepending_fold : forall (A : Type) (step : overlay -> A -> overlay) (l : list A),
  (forall a, prepending (fun ov => step ov a)) -> prepending (fun ov => fold_left step l ov).
Proof.
  intros A step l H. induction l as [|a r IH]; simpl.
  - apply prepending_id.
  - apply (prepending_comp (fun ov => step ov a) (fun ov => fold_left step r ov)); auto.
Qed.

Lemma spend_ins_prep : forall ins, prepending (spend_ins ins).
Proof. intro ins. unfold spend_ins. apply prepending_fold. intro a. apply prepending_cons. Qed.

Lemma add_outs_prep : forall outs id h cb n, prepending (add_outs id h cb n outs).
Proof.
  induction outs as [|o r IH]; intros id h cb n; simpl.
  - apply prepending_id.
  - destruct (o_spendable o).
    + apply (prepending_comp (fun ov => add_coin ov (id, n) (mkCoin h cb (o_value o))) (add_outs id h cb (S n) r)).
      * apply prepending_cons.
      * apply IH.
    + apply IH.
Qed.

Lemma rollforward_tx_prep : forall h t, prepending (rollforward_tx h t).
Proof.
  intros h t. unfold rollforward_tx. destruct (t_cb t).
  - apply add_outs_prep.
  - apply (prepending_comp (spend_ins (t_ins t)) (add_outs (t_id t) h false 0 (t_outs t))).
    apply spend_ins_prep. apply add_outs_prep.
Qed.

Lemma rollforward_block_prep : forall h b, prepending (rollforward_block h b).
Proof.
  intros h b. unfold rollforward_block. apply prepending_fold. intro t. apply rollforward_tx_prep.
Qed.

Lemma apply_chain_prep : forall bs h, prepending (apply_chain h bs).
Proof.
  induction bs as [|b r IH]; intro h; simpl.
  - apply prepending_id.
  - apply (prepending_comp (rollforward_block h b) (apply_chain (S h) r)).
    apply rollforward_block_prep. apply IH.
Qed.

Lemma apply_chain_app : forall a b h ov,
  apply_chain h (a ++ b) ov = apply_chain (h + length a) b (apply_chain h a ov).
Proof.
  induction a as [|x r IH]; intros b h ov; simpl.
  - rewrite Nat.add_0_r. reflexivity.
  - rewrite IH. f_equal. lia.
Qed.

(* ---------- which outpoints a transaction writes ---------- *)
Fixpoint out_points (id : txid) (n : nat) (outs : list txout) : list outpoint :=
  match outs with
  | [] => []
  | o :: r => (if o_spendable o then [(id, n)] else []) ++ out_points id (S n) r
  end.

Lemma add_outs_keys : forall outs id h cb n ov o,
  In o (map fst (add_outs id h cb n outs ov)) <-> In o (out_points id n outs) \/ In o (map fst ov).
Proof.
  induction outs as [|x r IH]; intros id h cb n ov o; simpl.
  - tauto.
  - rewrite IH. destruct (o_spendable x); simpl; tauto.
Qed.

Lemma spend_ins_keys : forall ins ov o,
  In o (map fst (spend_ins ins ov)) <-> In o ins \/ In o (map fst ov).
Proof.
  induction ins as [|x r IH]; intros ov o; simpl.
  - tauto.
  - unfold spend_ins in *. simpl. rewrite IH. simpl. tauto.
Qed.

Lemma spend_ins_values : forall ins ov o v, In (o, v) (spend_ins ins ov) -> v = None \/ In (o, v) ov.
Proof.
  induction ins as [|x r IH]; intros ov o v H; simpl in *; auto.
  unfold spend_ins in *. simpl in H. apply IH in H. destruct H as [H|[H|H]]; auto.
  inversion H. auto.
Qed.

Lemma log_get_in : forall l o v, log_get l o = Some v -> In (o, v) l.
Proof.
  induction l as [|[o' v'] r IH]; intros o v H; simpl in *; try discriminate.
  destruct (op_eqb_spec o o') as [E|E].
  - inversion H. subst. auto.
  - right. apply IH. auto.
Qed.

Lemma log_coin_spend_ins : forall ins s o,
  log_coin (spend_ins ins s) o = if existsb (op_eqb o) ins then None else log_coin s o.
Proof.
  induction ins as [|x r IH]; intros s o; simpl; auto.
  unfold spend_ins in *. simpl. rewrite IH.
  destruct (existsb (op_eqb o) r) eqn:Er.
  - rewrite orb_true_r. reflexivity.
  - rewrite orb_false_r. unfold log_coin, spend_coin. simpl. destruct (op_eqb o x); reflexivity.
Qed.

Lemma existsb_op_in : forall l o, existsb (op_eqb o) l = true <-> In o l.
Proof.
  intros l o. rewrite existsb_exists. split.
  - intros [x [Hx E]]. destruct (op_eqb_spec o x); congruence.
  - intro H. exists o. split; auto. apply op_eqb_refl.
Qed.
Lemma existsb_op_notin : forall l o, existsb (op_eqb o) l = false <-> ~ In o l.
Proof.
  intros l o. rewrite <- existsb_op_in. destruct (existsb (op_eqb o) l); split; congruence.
Qed.

(* ---------- "L undoes R on s" ---------- *)
(* L : the writes of a rollback, R : the writes of the corresponding roll-forward, s : the state before *)
Definition undoes (L R s : overlay) : Prop :=
  (forall o v, log_get L o = Some v -> v = log_coin s o) /\
  (forall o, log_get L o = None -> log_get R o = None).

Lemma undoes_nil : forall s, undoes [] [] s.
Proof. intro s. split; simpl; intros; auto; discriminate. Qed.

(* the later step (R2 on top of R1) is rolled back first, so its writes L2 are the older ones *)
Lemma undoes_comp : forall L1 R1 L2 R2 s,
  undoes L1 R1 s -> undoes L2 R2 (R1 ++ s) -> undoes (L1 ++ L2) (R2 ++ R1) s.
Proof.
  intros L1 R1 L2 R2 s [A1 B1] [A2 B2]. split.
  - intros o v H. rewrite log_get_app in H. destruct (log_get L1 o) eqn:E1.
    + inversion H. subst. apply A1. auto.
    + apply A2 in H. rewrite H. rewrite log_coin_app. rewrite (B1 o E1). reflexivity.
  - intros o H. rewrite log_get_app in H. destruct (log_get L1 o) eqn:E1; try discriminate.
    rewrite log_get_app. rewrite (B2 o H). apply B1. auto.
Qed.

(* ---------- DisconnectBlock as prepended writes ---------- *)
Definition erase_log (id : txid) (n : nat) (outs : list txout) : overlay :=
  rev (map (fun o => (o, @None coin)) (out_points id n outs)).

Lemma erase_outs_log : forall outs id h cb n m c ov,
  exists c', erase_outs id h cb n outs m (c, ov) = (c', erase_log id n outs ++ ov).
Proof.
  induction outs as [|x r IH]; intros id h cb n m c ov; simpl.
  - exists c. reflexivity.
  - unfold erase_log. simpl. destruct (o_spendable x); simpl.
    + destruct (IH id h cb (S n) m
                 (c && match view_get ov m (id, n) with Some c0 => coin_eqb c0 (mkCoin h cb (o_value x)) | None => false end)
                 (spend_coin ov (id, n))) as [c' Hc'].
      exists c'. rewrite Hc'. unfold erase_log, spend_coin. rewrite <- app_assoc. reflexivity.
    + apply IH.
Qed.

Definition restore_log (rins : list (outpoint * coin)) : overlay :=
  rev (map (fun oc => (fst oc, Some (snd oc))) rins).

Lemma restore_ins_log : forall rins m c ov,
  (forall o u, In (o, u) rins -> c_height u <> 0) ->
  exists c', restore_ins rins m c ov = DiscDone c' (restore_log rins ++ ov).
Proof.
  induction rins as [|[o u] r IH]; intros m c ov Hh; simpl.
  - exists c. reflexivity.
  - destruct (Nat.eqb_spec (c_height u) 0) as [E|E].
    + exfalso. apply (Hh o u); simpl; auto.
    + destruct (IH m (c && negb (have_coin ov m o)) (add_coin ov o u)) as [c' Hc'].
      { intros o' u' H. apply (Hh o' u'). simpl. auto. }
      exists c'. rewrite Hc'. unfold restore_log, add_coin. simpl. rewrite <- app_assoc. reflexivity.
Qed.

Lemma log_get_erase_log : forall id n outs o,
  log_get (erase_log id n outs) o = if existsb (op_eqb o) (out_points id n outs) then Some None else None.
Proof.
  intros id n outs o. unfold erase_log.
  destruct (existsb (op_eqb o) (out_points id n outs)) eqn:E.
  - apply existsb_op_in in E.
    destruct (log_get (rev (map (fun o0 => (o0, @None coin)) (out_points id n outs))) o) eqn:G.
    + apply log_get_in in G. apply in_rev in G. apply in_map_iff in G. destruct G as [x [Hx _]].
      inversion Hx. reflexivity.
    + apply log_get_none_iff in G. exfalso. apply G. rewrite map_rev. rewrite <- in_rev.
      rewrite map_map. simpl. rewrite map_id. auto.
  - apply existsb_op_notin in E. apply log_get_none_iff. rewrite map_rev. rewrite <- in_rev.
    rewrite map_map. simpl. rewrite map_id. auto.
Qed.

Lemma log_get_map_some : forall (l : list (outpoint * coin)) o,
  match log_get (map (fun oc => (fst oc, Some (snd oc))) l) o with
  | Some (Some c) => In (o, c) l
  | Some None => False
  | None => ~ In o (map fst l)
  end.
Proof.
  induction l as [|[o' c'] r IH]; intro o; simpl; auto.
  destruct (op_eqb_spec o o') as [E|E].
  - subst. auto.
  - specialize (IH o). destruct (log_get (map (fun oc => (fst oc, Some (snd oc))) r) o) as [[c|]|]; auto.
    intros [H|H]; [congruence | tauto].
Qed.

(* ---------- validity facts ---------- *)
Lemma ins_ok_facts : forall ins s, ins_ok ins s = true ->
  NoDup ins /\ (forall o, In o ins -> log_coin s o <> None).
Proof.
  induction ins as [|x r IH]; intros s H; simpl in *.
  - split; [constructor | tauto].
  - destruct (log_coin s x) eqn:Ex; try discriminate.
    destruct (IH _ H) as [ND Hall]. split.
    + constructor; auto. intro Hin. apply (Hall x Hin).
      unfold log_coin, spend_coin. simpl. rewrite op_eqb_refl. reflexivity.
    + intros o [E|Hin].
      * subst. congruence.
      * specialize (Hall o Hin). intro Hn. apply Hall.
        unfold log_coin, spend_coin in *. simpl. destruct (op_eqb o x); auto.
Qed.

Lemma undo_ins_nodup : forall ins s, NoDup ins -> undo_ins ins s = map (log_coin s) ins.
Proof.
  induction ins as [|x r IH]; intros s ND; simpl; auto.
  inversion ND as [|? ? Hx ND']; subst. f_equal. rewrite IH by auto.
  apply map_ext_in. intros o Ho. unfold log_coin, spend_coin. simpl.
  rewrite op_eqb_neq; auto. intro E. subst. tauto.
Qed.

Lemma outs_fresh_facts : forall outs id n s, outs_fresh id n outs s = true ->
  forall o, In o (out_points id n outs) -> log_coin s o = None.
Proof.
  induction outs as [|x r IH]; intros id n s H o Hin; simpl in *; try tauto.
  apply andb_true_iff in H. destruct H as [H1 H2].
  apply in_app_or in Hin. destruct Hin as [Hin|Hin].
  - destruct (o_spendable x); simpl in *; try tauto. destruct Hin as [E|[]]. subst.
    destruct (log_coin s (id, n)); auto; discriminate.
  - apply (IH id (S n) s H2 o Hin).
Qed.

Definition heights_pos (s : overlay) : Prop := forall o c, log_coin s o = Some c -> c_height c <> 0.

Lemma in_combine_map : forall (ins : list outpoint) (u : list coin) (f : outpoint -> option coin),
  map Some u = map f ins -> forall o c, In (o, c) (combine ins u) -> f o = Some c.
Proof.
  induction ins as [|x r IH]; intros u f H o c Hin; destruct u as [|y u']; simpl in *; try tauto; try discriminate.
  inversion H. destruct Hin as [E|Hin].
  - inversion E. subst. auto.
  - eapply IH; eauto.
Qed.

Lemma map_fst_combine : forall (A B : Type) (a : list A) (b : list B),
  length a = length b -> map fst (combine a b) = a.
Proof.
  induction a as [|x r IH]; intros [|y b'] H; simpl in *; try discriminate; auto.
  f_equal. apply IH. lia.
Qed.

(* ---------- one transaction ---------- *)
(* uo = None exactly for the first (coinbase) transaction *)
Lemma disconnect_tx_undoes : forall h t first (uo : option txundo) s m c ov,
  heights_pos s ->
  tx_ok first t s = true ->
  (first = true -> uo = None) ->
  (first = false -> exists u, uo = Some u /\ map Some u = undo_ins (t_ins t) s) ->
  exists c' L, disconnect_tx h t uo m c ov = DiscDone c' (L ++ ov) /\ undoes L (rollforward_tx h t []) s.
Proof.
  intros h t first uo s m c ov HP OK Hfirst Hrest.
  unfold tx_ok in OK. apply andb_true_iff in OK. destruct OK as [OK Hfresh].
  apply andb_true_iff in OK. destruct OK as [Hcb Hins].
  apply Bool.eqb_prop in Hcb.
  unfold disconnect_tx.
  destruct (erase_outs_log (t_outs t) (t_id t) h (t_cb t) 0 m c ov) as [c1 Hc1]. rewrite Hc1.
  destruct first.
  - (* coinbase: only erases *)
    rewrite (Hfirst eq_refl). exists c1, (erase_log (t_id t) 0 (t_outs t)). split; auto.
    unfold rollforward_tx. rewrite Hcb in *. split.
    + intros o v H. rewrite log_get_erase_log in H.
      destruct (existsb (op_eqb o) (out_points (t_id t) 0 (t_outs t))) eqn:E; try discriminate.
      inversion H. symmetry. apply existsb_op_in in E.
      eapply outs_fresh_facts; eauto.
    + intros o H. rewrite log_get_erase_log in H.
      destruct (existsb (op_eqb o) (out_points (t_id t) 0 (t_outs t))) eqn:E; try discriminate.
      apply existsb_op_notin in E. apply log_get_none_iff. rewrite add_outs_keys. simpl. tauto.
  - destruct (Hrest eq_refl) as [u [Eu Hu]]. rewrite Eu. rewrite Hcb in *.
    destruct (ins_ok_facts _ _ Hins) as [ND Hsome].
    rewrite (undo_ins_nodup _ _ ND) in Hu.
    assert (Hlen : length u = length (t_ins t)).
    { rewrite <- (map_length Some u), Hu, map_length. reflexivity. }
    rewrite Hlen. rewrite Nat.eqb_refl.
    assert (Hval : forall o c0, In (o, c0) (combine (t_ins t) u) -> log_coin s o = Some c0).
    { apply in_combine_map. auto. }
    destruct (restore_ins_log (rev (combine (t_ins t) u)) m c1 (erase_log (t_id t) 0 (t_outs t) ++ ov)) as [c2 Hc2].
    { intros o u0 H. apply in_rev in H. apply Hval in H. eapply HP; eauto. }
    rewrite Hc2. unfold restore_log. rewrite map_rev, rev_involutive.
    set (RL := map (fun oc : outpoint * coin => (fst oc, Some (snd oc))) (combine (t_ins t) u)).
    exists c2, (RL ++ erase_log (t_id t) 0 (t_outs t)). split.
    { rewrite <- app_assoc. reflexivity. }
    unfold rollforward_tx. rewrite Hcb.
    assert (Hkeys : map fst (combine (t_ins t) u) = t_ins t) by (apply map_fst_combine; lia).
    split.
    + intros o v H. rewrite log_get_app in H.
      pose proof (log_get_map_some (combine (t_ins t) u) o) as HM. fold RL in HM.
      destruct (log_get RL o) as [[c0|]|] eqn:ER.
      * inversion H. subst. symmetry. apply Hval. auto.
      * tauto.
      * rewrite Hkeys in HM. rewrite log_get_erase_log in H.
        destruct (existsb (op_eqb o) (out_points (t_id t) 0 (t_outs t))) eqn:E; try discriminate.
        inversion H. symmetry. apply existsb_op_in in E.
        pose proof (outs_fresh_facts _ _ _ _ Hfresh o E) as HF.
        rewrite log_coin_spend_ins in HF.
        apply existsb_op_notin in HM. rewrite HM in HF. auto.
    + intros o H. rewrite log_get_app in H.
      pose proof (log_get_map_some (combine (t_ins t) u) o) as HM. fold RL in HM.
      destruct (log_get RL o) as [[c0|]|] eqn:ER; try discriminate.
      rewrite Hkeys in HM. rewrite log_get_erase_log in H.
      destruct (existsb (op_eqb o) (out_points (t_id t) 0 (t_outs t))) eqn:E; try discriminate.
      apply existsb_op_notin in E. apply log_get_none_iff. rewrite add_outs_keys, spend_ins_keys. simpl. tauto.
Qed.

(* heights stay positive when blocks at positive heights are applied *)
Lemma add_outs_values : forall outs id h cb n ov o v,
  In (o, v) (add_outs id h cb n outs ov) -> (exists x, v = Some (mkCoin h cb x)) \/ In (o, v) ov.
Proof.
  induction outs as [|x r IH]; intros id h cb n ov o v H; simpl in *; auto.
  apply IH in H. destruct H as [H|H]; auto.
  destruct (o_spendable x); auto. destruct H as [H|H]; auto.
  inversion H. left. eauto.
Qed.

Lemma rollforward_tx_values : forall h t o v,
  In (o, v) (rollforward_tx h t []) -> v = None \/ exists x, v = Some (mkCoin h (t_cb t) x).
Proof.
  intros h t o v H. unfold rollforward_tx in H. apply add_outs_values in H.
  destruct H as [H|H]; auto.
  destruct (t_cb t); simpl in H; try tauto.
  apply spend_ins_values in H. simpl in H. tauto.
Qed.

Lemma heights_pos_app : forall R s h,
  h <> 0 ->
  (forall o v, In (o, v) R -> v = None \/ exists cb x, v = Some (mkCoin h cb x)) ->
  heights_pos s -> heights_pos (R ++ s).
Proof.
  intros R s h Hh HR HP o c H. rewrite log_coin_app in H.
  destruct (log_get R o) as [v|] eqn:G.
  - subst v. apply log_get_in in G. apply HR in G. destruct G as [G|[cb [x G]]]; try discriminate.
    inversion G. subst. simpl. auto.
  - eapply HP; eauto.
Qed.

Lemma heights_pos_tx : forall h t s, h <> 0 -> heights_pos s -> heights_pos (rollforward_tx h t s).
Proof.
  intros h t s Hh HP. rewrite (rollforward_tx_prep h t s). apply (heights_pos_app _ _ h); auto.
  intros o v H. apply rollforward_tx_values in H. destruct H as [H|[x H]]; eauto.
Qed.

Lemma heights_pos_nil : heights_pos [].
Proof. intros o c H. discriminate. Qed.

Lemma heights_pos_txs : forall h b s, h <> 0 -> heights_pos s ->
  heights_pos (fold_left (fun ov t => rollforward_tx h t ov) b s).
Proof.
  intros h b. induction b as [|t r IH]; intros s Hh HP; simpl; auto.
  apply IH; auto. apply heights_pos_tx; auto.
Qed.
Lemma heights_pos_block : forall h b s, h <> 0 -> heights_pos s -> heights_pos (rollforward_block h b s).
Proof. intros. unfold rollforward_block. apply heights_pos_txs; auto. Qed.
Lemma heights_pos_chain : forall bs h s, h <> 0 -> heights_pos s -> heights_pos (apply_chain h bs s).
Proof.
  induction bs as [|b r IH]; intros h s Hh HP; simpl; auto.
  apply IH; auto. apply heights_pos_block; auto.
Qed.

(* ---------- a block ---------- *)
Fixpoint ptxs_valid (h : nat) (first : bool) (p : list (tx * option txundo)) (s : overlay) : Prop :=
  match p with
  | [] => True
  | (t, uo) :: r =>
      tx_ok first t s = true /\
      (first = true -> uo = None) /\
      (first = false -> exists u, uo = Some u /\ map Some u = undo_ins (t_ins t) s) /\
      ptxs_valid h false r (rollforward_tx h t s)
  end.

Lemma disconnect_txs_app : forall h a b m c ov,
  disconnect_txs h (a ++ b) m c ov =
  match disconnect_txs h a m c ov with
  | DiscDone c' ov' => disconnect_txs h b m c' ov'
  | e => e
  end.
Proof.
  induction a as [|[t u] r IH]; intros b m c ov; simpl; auto.
  destruct (disconnect_tx h t u m c ov); auto.
Qed.

Definition txs_log (h : nat) (b : list tx) : overlay := fold_left (fun ov t => rollforward_tx h t ov) b [].

Lemma txs_log_cons : forall h t r, txs_log h (t :: r) = txs_log h r ++ rollforward_tx h t [].
Proof.
  intros. unfold txs_log. simpl.
  apply (prepending_fold tx (fun ov t => rollforward_tx h t ov) r (fun a => rollforward_tx_prep h a)).
Qed.

Lemma disconnect_txs_undoes : forall h p first s m c ov,
  h <> 0 -> heights_pos s -> ptxs_valid h first p s ->
  exists c' L, disconnect_txs h (rev p) m c ov = DiscDone c' (L ++ ov) /\
               undoes L (txs_log h (map fst p)) s.
Proof.
  intros h p. induction p as [|[t uo] r IH]; intros first s m c ov Hh HP V.
  - exists c, []. split; auto. apply undoes_nil.
  - simpl in V. destruct V as [OK [Hf [Hr V]]].
    destruct (IH false (rollforward_tx h t s) m c ov Hh (heights_pos_tx h t s Hh HP) V) as [c2 [L2 [E2 U2]]].
    destruct (disconnect_tx_undoes h t first uo s m c2 (L2 ++ ov) HP OK Hf Hr) as [c1 [L1 [E1 U1]]].
    exists c1, (L1 ++ L2). split.
    + simpl. rewrite disconnect_txs_app. rewrite E2. simpl. rewrite E1. rewrite <- app_assoc. reflexivity.
    + simpl. rewrite txs_log_cons. apply undoes_comp; auto.
      rewrite <- (rollforward_tx_prep h t s). auto.
Qed.

Lemma ptxs_valid_rest : forall h rest u s,
  txs_ok h false rest s = true ->
  map (map Some) u = undo_txs h rest s ->
  length u = length rest /\ ptxs_valid h false (combine rest (map Some u)) s.
Proof.
  intros h rest. induction rest as [|t r IH]; intros u s OK HU; destruct u as [|u0 u']; simpl in *; try discriminate; auto.
  apply andb_true_iff in OK. destruct OK as [OK1 OK2]. inversion HU as [[HU1 HU2]].
  destruct (IH u' _ OK2 HU2) as [Hl HV]. split; [lia|].
  repeat split; auto; try discriminate.
  intros _. exists u0. auto.
Qed.

Lemma disconnect_block_undoes : forall h b u s m ov,
  h <> 0 -> heights_pos s -> block_ok h b s = true -> undo_matches h b u s ->
  exists c L, disconnect_block h b u m ov = DiscDone c (L ++ ov) /\
              undoes L (rollforward_block h b []) s.
Proof.
  intros h b u s m ov Hh HP OK UM. destruct b as [|t0 rest]; simpl in OK; try discriminate.
  apply andb_true_iff in OK. destruct OK as [OK0 OKr].
  simpl in UM. destruct (ptxs_valid_rest h rest u _ OKr UM) as [Hl HV].
  unfold disconnect_block. simpl length.
  destruct (Nat.eqb_spec (S (length u)) (S (length rest))) as [_|NE]; [| exfalso; apply NE; f_equal; exact Hl].
  assert (V : ptxs_valid h true (pair_undo (t0 :: rest) u) s).
  { simpl. repeat split; auto. discriminate. }
  destruct (disconnect_txs_undoes h (pair_undo (t0 :: rest) u) true s m true ov Hh HP V) as [c [L [E U]]].
  exists c, L. split; auto.
  replace (map fst (pair_undo (t0 :: rest) u)) with (t0 :: rest) in U; auto.
  simpl. f_equal. symmetry. apply map_fst_combine. rewrite map_length. symmetry. exact Hl.
Qed.

(* ---------- a branch ---------- *)
Fixpoint chain_valid (h : nat) (l : list (block * blockundo)) (s : overlay) : Prop :=
  match l with
  | [] => True
  | (b, u) :: r => block_ok h b s = true /\ undo_matches h b u s /\ chain_valid (S h) r (rollforward_block h b s)
  end.

(* roll back the blocks of l (first block at height h), the topmost first *)
Fixpoint rollback_list (h : nat) (l : list (block * blockundo)) (m : db) (ov : overlay) : option overlay :=
  match l with
  | [] => Some ov
  | (b, u) :: r =>
      match rollback_list (S h) r m ov with
      | Some ov1 => match disconnect_block h b u m ov1 with
                    | DiscDone _ ov2 => Some ov2
                    | _ => None
                    end
      | None => None
      end
  end.

Lemma apply_chain_cons_log : forall h b r, apply_chain h (b :: r) [] = apply_chain (S h) r [] ++ rollforward_block h b [].
Proof. intros. simpl. apply (apply_chain_prep r (S h)). Qed.

Lemma rollback_list_undoes : forall l h s m ov,
  h <> 0 -> heights_pos s -> chain_valid h l s ->
  exists L, rollback_list h l m ov = Some (L ++ ov) /\ undoes L (apply_chain h (map fst l) []) s.
Proof.
  induction l as [|[b u] r IH]; intros h s m ov Hh HP V.
  - exists []. split; auto. apply undoes_nil.
  - simpl in V. destruct V as [OK [UM V]].
    destruct (IH (S h) (rollforward_block h b s) m ov (Nat.neq_succ_0 h) (heights_pos_block h b s Hh HP) V) as [L2 [E2 U2]].
    destruct (disconnect_block_undoes h b u s m (L2 ++ ov) Hh HP OK UM) as [c [L1 [E1 U1]]].
    exists (L1 ++ L2). split.
    + simpl. rewrite E2, E1. rewrite <- app_assoc. reflexivity.
    + simpl map. rewrite apply_chain_cons_log. apply undoes_comp; auto.
      rewrite <- (rollforward_block_prep h b s). auto.
Qed.

(* roll forward a list of blocks *)
Lemma apply_chain_log : forall bs h ov, apply_chain h bs ov = apply_chain h bs [] ++ ov.
Proof. intros. apply (apply_chain_prep bs h). Qed.

(* rollforward_any_subset / rollback_any_subset, the semantic form used by the main theorem:
   after rolling back branch A (valid on s_f) and rolling forward branch B from ANY view V, every
   outpoint has its value in utxo(f + B), provided V agreed with utxo(f + A) or utxo(f + B) there. *)
Lemma replay_view_correct : forall hA (lA : list (block * blockundo)) bsB sf m V L,
  undoes L (apply_chain hA (map fst lA) []) sf ->
  (forall o, view_get V m o = log_coin (apply_chain hA (map fst lA) sf) o \/
             view_get V m o = log_coin (apply_chain hA bsB sf) o) ->
  forall o, view_get (apply_chain hA bsB [] ++ L ++ V) m o = log_coin (apply_chain hA bsB sf) o.
Proof.
  intros hA lA bsB sf m V L [UA UB] HV o.
  rewrite (apply_chain_log bsB hA sf). rewrite log_coin_app.
  rewrite view_get_app. destruct (log_get (apply_chain hA bsB []) o) eqn:EB; auto.
  rewrite view_get_app. destruct (log_get L o) eqn:EL.
  - apply UA. auto.
  - specialize (UB o EL). destruct (HV o) as [H|H]; rewrite H.
    + rewrite (apply_chain_log (map fst lA) hA sf). rewrite log_coin_app. rewrite UB. reflexivity.
    + rewrite (apply_chain_log bsB hA sf). rewrite log_coin_app. rewrite EB. reflexivity.
Qed.
