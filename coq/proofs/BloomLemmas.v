(* CBloomFilter: no false negatives, for every hash function, filter size, hash count and
   insertion sequence. *)
From BV Require Import lib.Ints model.Bloom.
Local Open Scope Z_scope.

Section BloomProofs.
Variable K : Type.
Variable murmur : Z -> K -> Z.

Local Notation bloom_hash := (bloom_hash K murmur).
Local Notation bloom_insert := (bloom_insert K murmur).
Local Notation bloom_contains := (bloom_contains K murmur).

(* bit nIndex of the byte vector is set *)
Definition bit_set (data : list Z) (nIndex : Z) : Prop :=
  exists b, nth_error data (Z.to_nat (Z.shiftr nIndex 3)) = Some b /\ Z.testbit b (Z.land 7 nIndex) = true.

Lemma land7_range x : 0 <= Z.land 7 x < 8.
Proof.
  rewrite Z.land_comm. change 7 with (Z.ones 3). rewrite Z.land_ones by lia.
  change (2 ^ 3) with 8. apply Z.mod_pos_bound. lia.
Qed.

Lemma or_byte_length : forall data i m, length (or_byte data i m) = length data.
Proof. induction data as [|b r IH]; intros [|i] m; cbn; auto. Qed.

Lemma or_byte_same : forall data i m b, nth_error data i = Some b ->
  nth_error (or_byte data i m) i = Some (wrapu8 (Z.lor b m)).
Proof.
  induction data as [|x r IH]; intros [|i] m b E; cbn in *; try discriminate.
  - inversion E; reflexivity.
  - apply IH; exact E.
Qed.

Lemma or_byte_other : forall data i j m, i <> j -> nth_error (or_byte data i m) j = nth_error data j.
Proof.
  induction data as [|x r IH]; intros [|i] [|j] m Hne; cbn; try reflexivity; try congruence.
  apply IH. congruence.
Qed.

Lemma testbit_wrapu8 x k : 0 <= k < 8 -> Z.testbit (wrapu8 x) k = Z.testbit x k.
Proof. intros Hk. unfold wrapu8, wrapu. apply Z.mod_pow2_bits_low. lia. Qed.

Lemma or_byte_keeps data i m idx : bit_set data idx -> bit_set (or_byte data i m) idx.
Proof.
  intros (b & Hn & Hb). unfold bit_set.
  destruct (Nat.eq_dec i (Z.to_nat (Z.shiftr idx 3))) as [->|Hne].
  - exists (wrapu8 (Z.lor b m)). split; [apply or_byte_same; exact Hn|].
    rewrite testbit_wrapu8 by apply land7_range. rewrite Z.lor_spec, Hb. reflexivity.
  - exists b. split; [rewrite or_byte_other by exact Hne; exact Hn | exact Hb].
Qed.

Lemma or_byte_sets data idx : (Z.to_nat (Z.shiftr idx 3) < length data)%nat ->
  bit_set (or_byte data (Z.to_nat (Z.shiftr idx 3)) (Z.shiftl 1 (Z.land 7 idx))) idx.
Proof.
  intros Hlt. destruct (nth_error data (Z.to_nat (Z.shiftr idx 3))) as [b|] eqn:E.
  - exists (wrapu8 (Z.lor b (Z.shiftl 1 (Z.land 7 idx)))). split; [apply or_byte_same; exact E|].
    pose proof (land7_range idx) as Hr.
    rewrite testbit_wrapu8 by exact Hr. rewrite Z.lor_spec, Z.shiftl_spec by lia.
    rewrite Z.sub_diag. cbn. apply orb_true_r.
  - apply nth_error_None in E. lia.
Qed.

Lemma hash_in_range f i key : bl_data f <> [] ->
  (Z.to_nat (Z.shiftr (bloom_hash f i key) 3) < length (bl_data f))%nat.
Proof.
  intros Hne. unfold Bloom.bloom_hash.
  set (n := Z.of_nat (length (bl_data f))).
  assert (Hn : 0 < n) by (unfold n; destruct (bl_data f); [congruence | cbn [length]; lia]).
  set (h := wrapu32 _).
  assert (Hm : 0 <= h mod (n * 8) < n * 8) by (apply Z.mod_pos_bound; lia).
  rewrite Z.shiftr_div_pow2 by lia. change (2 ^ 3) with 8.
  assert (0 <= (h mod (n * 8)) / 8 < n) by (split; [apply Z.div_pos; lia | apply Z.div_lt_upper_bound; lia]).
  unfold n in *. lia.
Qed.

(* one round of the insert loop *)
Definition ins_step (key : K) (g : bloom) (i : Z) : bloom :=
  let nIndex := bloom_hash g i key in
  {| bl_data := or_byte (bl_data g) (Z.to_nat (Z.shiftr nIndex 3)) (Z.shiftl 1 (Z.land 7 nIndex));
     bl_nhash := bl_nhash g; bl_tweak := bl_tweak g |}.

Definition same_shape (f g : bloom) : Prop :=
  length (bl_data g) = length (bl_data f) /\ bl_nhash g = bl_nhash f /\ bl_tweak g = bl_tweak f.

Lemma hash_same_shape f g i key : same_shape f g -> bloom_hash g i key = bloom_hash f i key.
Proof. intros (E1 & _ & E3). unfold Bloom.bloom_hash. rewrite E1, E3. reflexivity. Qed.

Lemma ins_fold : forall L key g0, bl_data g0 <> [] ->
  let g := fold_left (ins_step key) L g0 in
  same_shape g0 g /\
  (forall idx, bit_set (bl_data g0) idx -> bit_set (bl_data g) idx) /\
  (forall i, In i L -> bit_set (bl_data g) (bloom_hash g0 i key)).
Proof.
  induction L as [|i L IH]; intros key g0 Hne; cbn [fold_left].
  - split; [repeat split|]. split; [auto | intros i []].
  - set (g1 := ins_step key g0 i).
    assert (Hs1 : same_shape g0 g1) by (unfold g1, ins_step, same_shape; cbn; rewrite or_byte_length; auto).
    assert (Hne1 : bl_data g1 <> []).
    { destruct Hs1 as [El _]. intros E. rewrite E in El. destruct (bl_data g0); [congruence | discriminate]. }
    destruct (IH key g1 Hne1) as (Hs & Hkeep & Hset).
    split; [|split].
    + destruct Hs as (A & B & C), Hs1 as (A1 & B1 & C1). repeat split; congruence.
    + intros idx Hb. apply Hkeep. unfold g1, ins_step; cbn. apply or_byte_keeps. exact Hb.
    + intros j [<-|Hj].
      * apply Hkeep. unfold g1, ins_step; cbn. apply or_byte_sets. apply hash_in_range. exact Hne.
      * rewrite <- (hash_same_shape g0 g1 j key Hs1). apply Hset. exact Hj.
Qed.

Lemma insert_is_fold f key : bl_data f <> [] ->
  bloom_insert f key = fold_left (ins_step key) (znums (Z.to_nat (bl_nhash f))) f.
Proof. intros Hne. unfold Bloom.bloom_insert. destruct (bl_data f) eqn:E; [congruence|]. reflexivity. Qed.

Lemma nil_dec (l : list Z) : l = [] \/ l <> [].
Proof. destruct l; [left; reflexivity | right; discriminate]. Qed.

Lemma insert_empty f key : bl_data f = [] -> bloom_insert f key = f.
Proof. intros E. unfold Bloom.bloom_insert. rewrite E. reflexivity. Qed.

Lemma insert_shape f key : same_shape f (bloom_insert f key).
Proof.
  destruct (nil_dec (bl_data f)) as [E|Hne].
  - rewrite insert_empty by exact E. repeat split.
  - rewrite insert_is_fold by exact Hne. apply (ins_fold _ key f Hne).
Qed.

Lemma insert_keeps f key idx : bit_set (bl_data f) idx -> bit_set (bl_data (bloom_insert f key)) idx.
Proof.
  intros Hb. destruct (nil_dec (bl_data f)) as [E|Hne].
  - rewrite insert_empty by exact E. exact Hb.
  - rewrite insert_is_fold by exact Hne. apply (ins_fold _ key f Hne). exact Hb.
Qed.

Lemma insert_sets f key i : bl_data f <> [] -> In i (znums (Z.to_nat (bl_nhash f))) ->
  bit_set (bl_data (bloom_insert f key)) (bloom_hash f i key).
Proof. intros Hne Hi. rewrite insert_is_fold by exact Hne. apply (ins_fold _ key f Hne). exact Hi. Qed.

Lemma testbit_land_mask b k : 0 <= k -> Z.testbit b k = true -> Z.land b (Z.shiftl 1 k) =? 0 = false.
Proof.
  intros Hk Hb. apply Z.eqb_neq. intros E.
  assert (Z.testbit (Z.land b (Z.shiftl 1 k)) k = true).
  { rewrite Z.land_spec, Hb, Z.shiftl_spec by lia. rewrite Z.sub_diag. reflexivity. }
  rewrite E, Z.bits_0 in H. discriminate.
Qed.

Lemma contains_fold f key : forall L,
  (forall i, In i L -> bit_set (bl_data f) (bloom_hash f i key)) ->
  fold_left (fun (acc : option bool) (i : Z) =>
               match acc with
               | Some true =>
                 let nIndex := bloom_hash f i key in
                 test_byte (bl_data f) (Z.to_nat (Z.shiftr nIndex 3)) (Z.shiftl 1 (Z.land 7 nIndex))
               | _ => acc
               end) L (Some true) = Some true.
Proof.
  induction L as [|i L IH]; intros Hall; [reflexivity|].
  cbn [fold_left]. destruct (Hall i (or_introl eq_refl)) as (b & Hn & Hb).
  unfold test_byte. cbn zeta. rewrite Hn. rewrite testbit_land_mask; [|apply land7_range|exact Hb].
  cbn [negb]. apply IH. intros j Hj. apply Hall. right; exact Hj.
Qed.

Lemma contains_true f key :
  (forall i, In i (znums (Z.to_nat (bl_nhash f))) -> bit_set (bl_data f) (bloom_hash f i key)) ->
  bloom_contains f key = Some true.
Proof.
  intros Hall. unfold Bloom.bloom_contains. pose proof (contains_fold f key _ Hall) as Hc.
  destruct (bl_data f) eqn:E; [reflexivity|]. exact Hc.
Qed.

(* after any sequence of inserts, every inserted key is contained *)
Theorem bloom_no_false_negative : forall (keys : list K) (f : bloom) (x : K),
  In x keys -> bloom_contains (fold_left bloom_insert keys f) x = Some true.
Proof.
  (* stronger: what is set for x stays set *)
  assert (Hkeep : forall keys f x,
            (forall i, In i (znums (Z.to_nat (bl_nhash f))) -> bit_set (bl_data f) (bloom_hash f i x)) ->
            let g := fold_left bloom_insert keys f in
            same_shape f g /\ forall i, In i (znums (Z.to_nat (bl_nhash f))) -> bit_set (bl_data g) (bloom_hash f i x)).
  { induction keys as [|k keys IH]; intros f x Hall; cbn [fold_left].
    - split; [repeat split | exact Hall].
    - pose proof (insert_shape f k) as Hs.
      destruct (IH (bloom_insert f k) x) as (Hs2 & Hall2).
      + destruct Hs as (_ & En & _). rewrite En. intros i Hi. rewrite (hash_same_shape f _ i x (insert_shape f k)).
        apply insert_keeps. apply Hall. exact Hi.
      + split.
        * destruct Hs as (A & B & C), Hs2 as (A2 & B2 & C2). repeat split; congruence.
        * intros i Hi. rewrite <- (hash_same_shape f _ i x (insert_shape f k)). apply Hall2.
          destruct Hs as (_ & En & _). rewrite En. exact Hi. }
  induction keys as [|k keys IH]; intros f x Hin; [destruct Hin|].
  cbn [fold_left]. destruct Hin as [->|Hin]; [|apply IH; exact Hin].
  destruct (nil_dec (bl_data f)) as [E|Hne].
  - (* empty filter: insert does nothing, contains answers true *)
    assert (Hall : forall ks g, bl_data g = [] -> fold_left bloom_insert ks g = g).
    { induction ks as [|k ks IHk]; intros g Eg; [reflexivity|]. cbn [fold_left]. rewrite insert_empty by exact Eg. apply IHk. exact Eg. }
    rewrite insert_empty by exact E. rewrite Hall by exact E. unfold Bloom.bloom_contains. rewrite E. reflexivity.
  - set (f1 := bloom_insert f x).
    pose proof (insert_shape f x) as Hs. fold f1 in Hs.
    destruct (Hkeep keys f1 x) as (Hs2 & Hall2).
    + destruct Hs as (_ & En & _). rewrite En. intros i Hi.
      rewrite (hash_same_shape f f1 i x (insert_shape f x)). apply insert_sets; assumption.
    + apply contains_true. destruct Hs2 as (A2 & B2 & C2). rewrite B2. intros i Hi.
      rewrite (hash_same_shape f1 _ i x (conj A2 (conj B2 C2))). apply Hall2. exact Hi.
Qed.

End BloomProofs.
