(* C37: the helper functions of AddrManImpl (Create, SwapRandom, Delete, ClearNew, MakeTried) preserve the
   generalised invariant, and none of their assertions fires. *)
From Coq Require Import Sorted.
From BV Require Import lib.Ints model.AddrMan proofs.AddrManMaps proofs.AddrManInv.
Local Open Scope Z_scope.

Ltac zf :=
  repeat match goal with
  | H : context [zfind _ (zset _ _ _)] |- _ => rewrite zfind_zset in H
  | H : context [zfind _ (zdel _ _)] |- _ => rewrite zfind_zdel in H
  | H : context [sfind _ (sset _ _ _)] |- _ => rewrite sfind_sset in H
  | H : context [sfind _ (sdel _ _)] |- _ => rewrite sfind_sdel in H
  | |- context [zfind _ (zset _ _ _)] => rewrite zfind_zset
  | |- context [zfind _ (zdel _ _)] => rewrite zfind_zdel
  | |- context [sfind _ (sset _ _ _)] => rewrite sfind_sset
  | |- context [sfind _ (sdel _ _)] => rewrite sfind_sdel
  end.
Ltac zeq x y := let E := fresh "E" in destruct (Z.eqb x y) eqn:E; [apply Z.eqb_eq in E | apply Z.eqb_neq in E].
Ltac seq x y := let E := fresh "E" in destruct (sloteqb x y) eqn:E; [apply sloteqb_true in E | idtac].
Ltac inv H := inversion H; subst; clear H.
Lemma Some_inj {A} (a b : A) : Some a = Some b -> a = b.
Proof. congruence. Qed.
Ltac sinj H := injection H as H.

Lemma b2z_true : b2z true = 1. Proof. reflexivity. Qed.
Lemma b2z_false : b2z false = 0. Proof. reflexivity. Qed.

(* two counting predicates that differ only on one key *)
Lemma mcount_differ_at {V} (f g : Z * V -> bool) id (m : list (Z * V)) :
  NoDup (keys m) -> (forall k v, k <> id -> g (k, v) = f (k, v)) ->
  mcount g m = mcount f m - match zfind id m with Some a => b2z (f (id, a)) | None => 0 end
                          + match zfind id m with Some a => b2z (g (id, a)) | None => 0 end.
Proof.
  induction m as [|[k v] r IH]; intros ND H; [reflexivity|].
  assert (ND1 : ~ In k (keys r)) by (inversion ND; auto).
  assert (ND2 : NoDup (keys r)) by (inversion ND; auto).
  rewrite !mcount_cons. unfold zfind in *. cbn [mfind]. destruct (id =? k) eqn:E.
  - apply Z.eqb_eq in E. subst k. rewrite (mcount_ext Z.eqb zeqb_spec g f r); [lia| |auto].
    intros k v0 F. apply H. intros E. subst. apply ND1. eapply z_find_key; eauto.
  - apply Z.eqb_neq in E. rewrite (H k v) by auto. specialize (IH ND2 H). lia.
Qed.

Lemma nc_get_add m net net' dn dt :
  nc_get (nc_add dn dt net m) net' =
  if net =? net' then (wrapu64 (fst (nc_get m net) + dn), wrapu64 (snd (nc_get m net) + dt)) else nc_get m net'.
Proof. unfold nc_add, nc_get at 1. rewrite zfind_zset. destruct (net =? net'); auto. Qed.

Lemma b2z_andb x y : b2z (x && y) = b2z x * b2z y.
Proof. destruct x, y; reflexivity. Qed.
Lemma b2z_range x : 0 <= b2z x <= 1.
Proof. destruct x; simpl; lia. Qed.

(* replace / insert / delete one entry of a map *)
Definition repl {V} (id : Z) (o : option V) (m : list (Z * V)) : list (Z * V) :=
  match o with Some v => zset id v m | None => zdel id m end.
Definition ob2z {V} (f : Z * V -> bool) (id : Z) (o : option V) : Z := match o with Some a => b2z (f (id, a)) | None => 0 end.
Lemma mcount_repl {V} (f g : Z * V -> bool) id o (m : list (Z * V)) :
  NoDup (keys m) -> (forall k v, k <> id -> g (k, v) = f (k, v)) ->
  mcount g (repl id o m) = mcount f m - ob2z f id (zfind id m) + ob2z g id o.
Proof.
  intros ND H. pose proof (mcount_differ_at f g id m ND H) as D. unfold ob2z.
  destruct o as [v|]; simpl.
  - destruct (zfind id m) as [a|] eqn:F.
    + rewrite (z_count_set_old g id v a m F). lia.
    + rewrite (z_count_set_new g id v m F). lia.
  - destruct (zfind id m) as [a|] eqn:F.
    + rewrite (z_count_del g id a m ND F). lia.
    + rewrite (z_count_del_none g id m F). lia.
Qed.
Lemma zfind_repl {V} id id' o (m : list (Z * V)) : zfind id' (repl id o m) = if id =? id' then o else zfind id' m.
Proof. destruct o; simpl; [rewrite zfind_zset | rewrite zfind_zdel]; destruct (id =? id'); auto. Qed.

Definition same_stats (a a' : ainfo) : Prop :=
  a_key a' = a_key a /\ a_src a' = a_src a /\ a_time a' = a_time a /\ a_services a' = a_services a /\
  a_last_try a' = a_last_try a /\ a_last_count a' = a_last_count a /\ a_last_success a' = a_last_success a /\ a_attempts a' = a_attempts a.
Lemma same_stats_refl a : same_stats a a.
Proof. unfold same_stats. tauto. Qed.
Lemma same_stats_trans a b d : same_stats a b -> same_stats b d -> same_stats a d.
Proof. unfold same_stats. intuition congruence. Qed.

Section Ops.
  Variable c : cfg.
  Variable tried_bucket : Z -> Z.
  Variable new_bucket : Z -> Z -> Z.
  Variable bucket_pos : bool -> Z -> Z -> Z.
  Variable routable : Z -> bool.
  Variable network : Z -> Z.
  Hypothesis H_NB : 0 < c_NB c.
  Hypothesis H_MAXREF : 1 <= c_MAXREF c.
  Hypothesis H_nb : forall k s, 0 <= new_bucket k s < c_NB c.
  Set Default Proof Using "All".

  Notation tslot := (tslot tried_bucket bucket_pos).
  Notation nslot := (nslot new_bucket bucket_pos).
  Notation SA := (SA c tried_bucket bucket_pos routable).
  Notation Cnt := (Cnt network).
  Notation GInv := (GInv c tried_bucket bucket_pos routable network).
  Notation info_ok := (info_ok routable).

  (* ---------- frame lemmas: which fields each predicate reads ---------- *)
  Lemma SR_frame s s' : s_info s' = s_info s -> s_random s' = s_random s -> SR s -> SR s'.
  Proof. intros E1 E2 [A B C]. constructor; rewrite ?E1, ?E2; auto. Qed.
  Lemma Cnt_frame L s s' : s_info s' = s_info s -> s_nnew s' = s_nnew s -> s_ntried s' = s_ntried s -> s_netcnt s' = s_netcnt s ->
    Cnt L s -> Cnt L s'.
  Proof. intros E1 E2 E3 E4 [A0 A B C]. constructor; rewrite ?E1, ?E2, ?E3, ?E4; auto. Qed.
  Lemma R_frame X s s' : s_info s' = s_info s -> RInv X s -> RInv X s'.
  Proof. unfold RInv. intros E H. rewrite E. auto. Qed.

  (* ---------- update of one existing entry ---------- *)
  Lemma SR_upd s id a a' : zfind id (s_info s) = Some a -> a_rpos a' = a_rpos a -> SR s -> SR (set_info (zset id a' (s_info s)) s).
  Proof. intros F E [A B C]. constructor; simpl.
    - intros id0 a0 F0. zf. zeq id id0; [inv F0; rewrite E; apply (A _ _ F) | auto].
    - intros i id0 Hn. destruct (B i id0 Hn) as (a0 & A0 & B0). zeq id id0.
      + subst. exists a'. zf. rewrite Z.eqb_refl. split; auto. congruence.
      + exists a0. zf. rewrite (proj2 (Z.eqb_neq id id0)); auto.
    - rewrite (z_len_set_old id a' a); auto.
  Qed.

  Lemma Cnt_upd L s id a a' : zfind id (s_info s) = Some a -> a_key a' = a_key a -> a_tried a' = a_tried a ->
    Cnt L s -> Cnt L (set_info (zset id a' (s_info s)) s).
  Proof. intros F E1 E2 [A0 A B C]. constructor; simpl.
    - auto.
    - rewrite A, (z_count_set_old _ id a' a) by auto. unfold is_new; simpl. rewrite E2. lia.
    - rewrite B, (z_count_set_old _ id a' a) by auto. unfold is_tried; simpl. rewrite E2. lia.
    - intros net. rewrite C, !(z_count_set_old _ id a' a) by auto. unfold is_new, is_tried, on_net; simpl. rewrite E1, E2. f_equal; lia.
  Qed.

  Lemma R_upd X s id a a' : zfind id (s_info s) = Some a -> a_tried a' = a_tried a -> a_ref a <= a_ref a' ->
    RInv X s -> RInv X (set_info (zset id a' (s_info s)) s).
  Proof. unfold RInv; simpl. intros F E1 E2 H id0 a0 F0 T N. zf. zeq id id0.
    - inv F0. specialize (H id0 a F). rewrite E1 in T. specialize (H T N). lia.
    - eauto. Qed.

  Lemma SA_upd s id a a' : zfind id (s_info s) = Some a -> a_key a' = a_key a -> a_tried a' = a_tried a -> a_ref a' = a_ref a ->
    info_ok a' -> SA s -> SA (set_info (zset id a' (s_info s)) s).
  Proof. intros F E1 E2 E3 OK H. destruct H. constructor; simpl; auto.
    - apply z_NoDup_set; auto.
    - intros id0 a0 F0. zf. zeq id id0; [subst; eauto | eauto].
    - intros id0 a0 F0. zf. zeq id id0; [inv F0; rewrite E1; eauto | eauto].
    - intros k id0 F0. destruct (S_addr2 k id0 F0) as (a0 & A0 & B0). zeq id id0.
      + subst. exists a'. zf. rewrite Z.eqb_refl. split; auto. congruence.
      + exists a0. zf. rewrite (proj2 (Z.eqb_neq id id0)); auto.
    - intros b p id0 F0. destruct (S_new b p id0 F0) as (a0 & A0 & B0 & C0 & D0). zeq id id0.
      + subst. exists a'. zf. rewrite Z.eqb_refl. rewrite F in A0. inv A0. rewrite E1, E2. auto.
      + exists a0. zf. rewrite (proj2 (Z.eqb_neq id id0)); auto.
    - intros id0 a0 F0. zf. zeq id id0; [inv F0; rewrite E3; eauto | eauto].
    - intros sl id0 F0. destruct (S_tried1 sl id0 F0) as (a0 & A0 & B0 & C0). zeq id id0.
      + subst. exists a'. zf. rewrite Z.eqb_refl. rewrite F in A0. inv A0. rewrite E1, E2. auto.
      + exists a0. zf. rewrite (proj2 (Z.eqb_neq id id0)); auto.
    - intros id0 a0 F0 T. zf. zeq id id0; [inv F0; rewrite E1; rewrite E2 in T; eauto | eauto].
    - intros id0 a0 F0. zf. zeq id id0; [inv F0; auto | eauto].
  Qed.

  Lemma G_upd L X s id a a' : zfind id (s_info s) = Some a -> a_key a' = a_key a -> a_tried a' = a_tried a -> a_ref a' = a_ref a ->
    a_rpos a' = a_rpos a -> info_ok a' -> GInv L X s -> GInv L X (set_info (zset id a' (s_info s)) s).
  Proof. intros F E1 E2 E3 E4 OK (A & B & C & D). split; [|split; [|split]].
    - eapply SA_upd; eauto.
    - eapply SR_upd; eauto.
    - eapply Cnt_upd; eauto.
    - eapply R_upd; eauto. lia.
  Qed.

  (* ---------- insertion / update / deletion of one entry together with the counters ---------- *)
  Lemma Cnt_repl L L' s s' id o k dn dt :
    NoDup (keys (s_info s)) ->
    (forall id0, id0 <> id -> in_list id0 L' = in_list id0 L) ->
    (forall a, zfind id (s_info s) = Some a -> a_key a = k) -> (forall a, o = Some a -> a_key a = k) ->
    s_info s' = repl id o (s_info s) ->
    dn = ob2z (is_new L') id o - ob2z (is_new L) id (zfind id (s_info s)) ->
    dt = ob2z is_tried id o - ob2z is_tried id (zfind id (s_info s)) ->
    s_nnew s' = s_nnew s + dn -> s_ntried s' = s_ntried s + dt ->
    s_netcnt s' = (if (dn =? 0) && (dt =? 0) then s_netcnt s else nc_add dn dt (network k) (s_netcnt s)) ->
    zlen (s_info s') <= IDLIM ->
    Cnt L s -> Cnt L' s'.
  Proof.
    intros ND HL K1 K2 EI Edn Edt EN ET ENC LEN [A0 A B C].
    assert (HN : forall k0 v, k0 <> id -> is_new L' (k0, v) = is_new L (k0, v)).
    { intros k0 v N. unfold is_new; simpl. rewrite HL; auto. }
    assert (P1 : mcount (is_new L') (s_info s') = s_nnew s + dn).
    { rewrite EI, (mcount_repl (is_new L) (is_new L') id o _ ND HN). lia. }
    assert (P2 : mcount is_tried (s_info s') = s_ntried s + dt).
    { rewrite EI, (mcount_repl is_tried is_tried id o _ ND) by auto. lia. }
    assert (P3 : forall net, mcount (fun e => is_new L' e && on_net network net e) (s_info s')
                 = fst (nc_get (s_netcnt s) net) + dn * b2z (network k =? net)).
    { intros net. rewrite EI, (mcount_repl (fun e => is_new L e && on_net network net e) _ id o _ ND).
      2:{ intros k0 v N. rewrite HN; auto. }
      rewrite C. simpl. rewrite Edn. unfold ob2z.
      destruct o as [a'|]; destruct (zfind id (s_info s)) as [a|] eqn:F; rewrite ?b2z_andb; unfold on_net; simpl;
        rewrite ?(K1 _ eq_refl), ?(K2 _ eq_refl); lia. }
    assert (P4 : forall net, mcount (fun e => is_tried e && on_net network net e) (s_info s')
                 = snd (nc_get (s_netcnt s) net) + dt * b2z (network k =? net)).
    { intros net. rewrite EI, (mcount_repl (fun e => is_tried e && on_net network net e) _ id o _ ND) by auto.
      rewrite C. simpl. rewrite Edt. unfold ob2z.
      destruct o as [a'|]; destruct (zfind id (s_info s)) as [a|] eqn:F; rewrite ?b2z_andb; unfold on_net; simpl;
        rewrite ?(K1 _ eq_refl), ?(K2 _ eq_refl); lia. }
    constructor; [rewrite ENC; destruct ((dn =? 0) && (dt =? 0)); [auto | apply z_NoDup_set; auto] | lia | lia |].
    intros net. rewrite ENC. destruct ((dn =? 0) && (dt =? 0)) eqn:Z0.
    - apply andb_true_iff in Z0. destruct Z0 as [Z1 Z2]. apply Z.eqb_eq in Z1, Z2.
      rewrite P3, P4, Z1, Z2. destruct (nc_get (s_netcnt s) net); simpl. f_equal; lia.
    - rewrite nc_get_add. rewrite P3, P4. destruct (network k =? net) eqn:E.
      + apply Z.eqb_eq in E. subst net. pose proof (P3 (network k)) as Q3. pose proof (P4 (network k)) as Q4. rewrite Z.eqb_refl in Q3, Q4.
        pose proof (mcount_nonneg (fun e => is_new L' e && on_net network (network k) e) (s_info s')) as N1.
        pose proof (mcount_le_len (fun e => is_new L' e && on_net network (network k) e) (s_info s')) as N2.
        pose proof (mcount_nonneg (fun e => is_tried e && on_net network (network k) e) (s_info s')) as N3.
        pose proof (mcount_le_len (fun e => is_tried e && on_net network (network k) e) (s_info s')) as N4.
        rewrite Q3 in N1, N2. rewrite Q4 in N3, N4. unfold IDLIM in LEN. simpl b2z in *.
        rewrite !wrapu64_id by (unfold UINT64_MAX; lia). f_equal; lia.
      + simpl b2z. destruct (nc_get (s_netcnt s) net); simpl. f_equal; lia.
  Qed.

  (* ---------- Create ---------- *)
  Lemma create_ok X s k src time services s' id :
    GInv [] X s -> s_idcount s < IDLIM ->
    (forall id0 a0, zfind id0 (s_info s) = Some a0 -> a_key a0 <> k) ->
    routable k = true -> 0 <= time < 4294967296 ->
    create network s k src time services = (s', id) ->
    id = s_idcount s /\ GInv [] (id :: X) s' /\
    zfind id (s_info s') = Some (mkInfo k src time services 0 0 0 0 0 false (zlen (s_random s))) /\
    (forall id0, id0 <> id -> zfind id0 (s_info s') = zfind id0 (s_info s)) /\
    s_new s' = s_new s /\ s_tried s' = s_tried s /\ s_coll s' = s_coll s /\ s_last_good s' = s_last_good s /\
    s_idcount s' = s_idcount s + 1.
  Proof.
    intros (HA & HR & HC & HX) LIM NK RT TM CR. unfold create in CR. inv CR.
    set (id := s_idcount s). set (a := mkInfo k src time services 0 0 0 0 0 false (zlen (s_random s))).
    assert (FN : zfind id (s_info s) = None).
    { destruct (zfind id (s_info s)) as [a0|] eqn:F; auto. pose proof (S_ids _ _ _ _ _ HA id a0 F). unfold id in *. lia. }
    assert (LT : forall id0 a0, zfind id0 (s_info s) = Some a0 -> id0 <> id).
    { intros id0 a0 F E. subst. congruence. }
    split; [reflexivity|]. split; [|split; [|split; [|repeat split; auto]]].
    - split; [|split; [|split]].
      + (* SA *) destruct HA. constructor; simpl.
        * apply z_NoDup_set; auto.
        * auto.
        * auto.
        * fold id. lia.
        * fold id. intros id0 a0 F. zf. zeq id id0; [subst; lia | specialize (S_ids _ _ F); lia].
        * fold id. intros id0 a0 F. zf. zeq id id0.
          -- inv F. simpl. rewrite Z.eqb_refl. congruence.
          -- pose proof (NK _ _ F) as N. rewrite (proj2 (Z.eqb_neq k (a_key a0))) by auto. eauto.
        * fold id. intros k0 i F. zf. zeq k k0.
          -- inv F. exists a. rewrite Z.eqb_refl. auto.
          -- destruct (S_addr2 _ _ F) as (a0 & A0 & B0). exists a0. rewrite (proj2 (Z.eqb_neq id i)); auto.
             apply not_eq_sym. eapply LT; eauto.
        * fold id. intros b p i F. destruct (S_new _ _ _ F) as (a0 & A0 & B0). exists a0. zf.
          rewrite (proj2 (Z.eqb_neq id i)); auto. apply not_eq_sym. eapply LT; eauto.
        * fold id. intros id0 a0 F. zf. zeq id id0; [|eauto]. inv F. simpl. split; [|lia].
          symmetry. apply nofind_refs_zero; auto. intros [b p] F. destruct (S_new _ _ _ F) as (a0 & A0 & _). eapply LT; eauto.
        * fold id. intros sl i F. destruct (S_tried1 _ _ F) as (a0 & A0 & B0). exists a0. zf.
          rewrite (proj2 (Z.eqb_neq id i)); auto. apply not_eq_sym. eapply LT; eauto.
        * fold id. intros id0 a0 F T. zf. zeq id id0; [inv F; discriminate | eauto].
        * fold id. intros id0 a0 F. zf. zeq id id0; [|eauto]. inv F. unfold AddrManInv.info_ok; simpl. repeat split; try lia; auto.
        * auto.
      + (* SR *) destruct HR as [R1 R2 R3]. constructor; simpl; fold id.
        * intros id0 a0 F. zf. zeq id id0.
          -- inv F. simpl. apply znth_app_last.
          -- pose proof (R1 _ _ F) as Q. rewrite znth_app_l; auto. apply znth_Some in Q. lia.
        * intros i id0 Hn. apply znth_app_cases in Hn. destruct Hn as [[Lt Hn]|[Eq Hn]].
          -- destruct (R2 _ _ Hn) as (a0 & A0 & B0). exists a0. zf. rewrite (proj2 (Z.eqb_neq id id0)); auto.
             apply not_eq_sym. eapply LT; eauto.
          -- subst. exists a. zf. rewrite Z.eqb_refl. auto.
        * rewrite zlen_app, (z_len_set_new id a _ FN), R3. reflexivity.
      + (* Cnt *) apply (Cnt_repl [] [] s _ id (Some a) k 1 0); simpl; fold id; fold a; auto.
        * apply (S_nd_info _ _ _ _ _ HA).
        * intros a0 F. congruence.
        * intros a0 E. inv E. reflexivity.
        * rewrite FN. reflexivity.
        * rewrite FN. reflexivity.
        * lia.
        * rewrite (z_len_set_new id a _ FN). pose proof (S_info_len _ _ _ _ _ HA). unfold id, IDLIM in *. lia.
      + (* R *) unfold RInv; simpl; fold id. intros id0 a0 F T N. zf. zeq id id0; [exfalso; apply N; left; auto|].
        apply (HX id0 a0 F T). intros I. apply N. right; auto.
    - simpl. fold id. zf. rewrite Z.eqb_refl. reflexivity.
    - intros id0 N. simpl. fold id. zf. rewrite (proj2 (Z.eqb_neq id id0)); auto.
  Qed.

  Lemma SA_frame s s' : s_idcount s' = s_idcount s -> s_info s' = s_info s -> s_addr s' = s_addr s -> s_tried s' = s_tried s ->
    s_new s' = s_new s -> s_coll s' = s_coll s -> SA s -> SA s'.
  Proof. intros E1 E2 E3 E4 E5 E6 H. destruct H. constructor; rewrite ?E1, ?E2, ?E3, ?E4, ?E5, ?E6; auto. Qed.

  Lemma set_rpos_same a : set_rpos (a_rpos a) a = a.
  Proof. destruct a; reflexivity. Qed.

  (* ---------- SwapRandom ---------- *)
  Definition same_fields (s s' : st) : Prop :=
    s_idcount s' = s_idcount s /\ s_addr s' = s_addr s /\ s_ntried s' = s_ntried s /\ s_nnew s' = s_nnew s /\
    s_tried s' = s_tried s /\ s_new s' = s_new s /\ s_last_good s' = s_last_good s /\ s_coll s' = s_coll s /\ s_netcnt s' = s_netcnt s.

  Lemma swap_random_ok L X s p1 p2 :
    GInv L X s -> 0 <= p1 < zlen (s_random s) -> 0 <= p2 < zlen (s_random s) ->
    exists s', swap_random s p1 p2 = Ok s' /\ GInv L X s' /\ same_fields s s' /\
      zlen (s_random s') = zlen (s_random s) /\
      znth p2 (s_random s') = znth p1 (s_random s) /\ znth p1 (s_random s') = znth p2 (s_random s) /\
      (forall i, i <> p1 -> i <> p2 -> znth i (s_random s') = znth i (s_random s)) /\
      (forall id a, zfind id (s_info s) = Some a -> exists r, zfind id (s_info s') = Some (set_rpos r a)) /\
      (forall id, zfind id (s_info s) = None -> zfind id (s_info s') = None).
  Proof.
    intros (HA & HR & HC & HX) R1 R2. unfold swap_random. zeq p1 p2.
    - subst. exists s. split; [reflexivity|]. split; [unfold AddrManInv.GInv; auto|]. split; [unfold same_fields; tauto|].
      split; [reflexivity|]. split; [reflexivity|]. split; [reflexivity|]. split; [auto|]. split; [|auto].
      intros id a F. exists (a_rpos a). rewrite set_rpos_same. auto.
    - destruct (znth_range p1 _ R1) as (id1 & N1). destruct (znth_range p2 _ R2) as (id2 & N2). rewrite N1, N2.
      destruct (S_rand2 _ HR _ _ N1) as (a1 & F1 & P1). destruct (S_rand2 _ HR _ _ N2) as (a2 & F2 & P2).
      assert (NE : id1 <> id2). { intros Q. subst id2. rewrite F1 in F2. sinj F2. subst a2. lia. }
      rewrite F1. zf. rewrite (proj2 (Z.eqb_neq id1 id2)) by auto. rewrite F2.
      set (info1 := zset id1 (set_rpos p2 a1) (s_info s)).
      set (info2 := zset id2 (set_rpos p1 a2) info1).
      set (rnd := zset_nth p2 id1 (zset_nth p1 id2 (s_random s))).
      assert (F2' : zfind id2 info1 = Some a2). { unfold info1. zf. rewrite (proj2 (Z.eqb_neq id1 id2)); auto. }
      assert (Z1 : znth p1 rnd = Some id2).
      { unfold rnd. rewrite znth_zset_nth_neq by auto. apply znth_zset_nth_eq; auto. }
      assert (Z2 : znth p2 rnd = Some id1).
      { unfold rnd. apply znth_zset_nth_eq. rewrite zlen_zset_nth. auto. }
      assert (Z3 : forall i, i <> p1 -> i <> p2 -> znth i rnd = znth i (s_random s)).
      { intros i A B. unfold rnd. rewrite !znth_zset_nth_neq; auto. }
      assert (ZL : zlen rnd = zlen (s_random s)). { unfold rnd. rewrite !zlen_zset_nth. auto. }
      eexists. split; [reflexivity|].
      assert (OK1 : info_ok (set_rpos p2 a1)) by (apply (S_stats _ _ _ _ _ HA id1 a1 F1)).
      assert (OK2 : info_ok (set_rpos p1 a2)) by (apply (S_stats _ _ _ _ _ HA id2 a2 F2)).
      assert (A1 : SA (set_info info1 s)) by (apply (SA_upd s id1 a1); auto).
      assert (A2 : SA (set_info info2 (set_info info1 s))) by (apply (SA_upd (set_info info1 s) id2 a2); auto).
      assert (C1 : Cnt L (set_info info1 s)) by (apply (Cnt_upd L s id1 a1); auto).
      assert (C2 : Cnt L (set_info info2 (set_info info1 s))) by (apply (Cnt_upd L (set_info info1 s) id2 a2); auto).
      assert (X1 : RInv X (set_info info1 s)) by (apply (R_upd X s id1 a1); simpl; auto; lia).
      assert (X2 : RInv X (set_info info2 (set_info info1 s))) by (apply (R_upd X (set_info info1 s) id2 a2); simpl; auto; lia).
      split; [split; [|split; [|split]]|].
      + eapply SA_frame; [| | | | | | exact A2]; reflexivity.
      + constructor; simpl; fold info1; fold info2; fold rnd.
        * intros id0 a0 F. unfold info2, info1 in F. zf. zeq id2 id0; [sinj F; subst a0 id0; simpl; auto|]. zeq id1 id0; [sinj F; subst a0 id0; simpl; auto|].
          pose proof (S_rand1 _ HR _ _ F) as Q. rewrite Z3; auto.
          -- intros Q2. rewrite Q2, N1 in Q. sinj Q. congruence.
          -- intros Q2. rewrite Q2, N2 in Q. sinj Q. congruence.
        * intros i id0 Hn. zeq i p1; [subst i; rewrite Z1 in Hn; sinj Hn; subst id0; exists (set_rpos p1 a2); unfold info2; zf; rewrite Z.eqb_refl; auto|].
          zeq i p2; [subst i; rewrite Z2 in Hn; sinj Hn; subst id0; exists (set_rpos p2 a1); unfold info2, info1; zf;
                     rewrite (proj2 (Z.eqb_neq id2 id1)) by auto; rewrite Z.eqb_refl; auto|].
          rewrite Z3 in Hn by auto. destruct (S_rand2 _ HR _ _ Hn) as (a0 & A0 & B0). exists a0. unfold info2, info1. zf.
          rewrite (proj2 (Z.eqb_neq id2 id0)) by (intros Q; subst id0; rewrite F2 in A0; sinj A0; subst a0; lia).
          rewrite (proj2 (Z.eqb_neq id1 id0)) by (intros Q; subst id0; rewrite F1 in A0; sinj A0; subst a0; lia). auto.
        * rewrite ZL. unfold info2. rewrite (z_len_set_old id2 _ a2) by auto. unfold info1. rewrite (z_len_set_old id1 _ a1) by auto.
          apply (S_randlen _ HR).
      + eapply Cnt_frame; [| | | | exact C2]; reflexivity.
      + eapply R_frame; [| exact X2]; reflexivity.
      + simpl; fold info1; fold info2; fold rnd. split; [unfold same_fields; simpl; tauto|].
        split; [auto|]. split; [rewrite Z2; auto|]. split; [rewrite Z1; auto|]. split; [auto|]. split.
        * intros id0 a0 F. unfold info2, info1. zf. zeq id2 id0; [subst id0; rewrite F2 in F; sinj F; subst a0; eauto|].
          zeq id1 id0; [subst id0; rewrite F1 in F; sinj F; subst a0; eauto|]. exists (a_rpos a0). rewrite set_rpos_same. auto.
        * intros id0 F. unfold info2, info1. zf. zeq id2 id0; [congruence|]. zeq id1 id0; [congruence|]. auto.
  Qed.

  (* ---------- Delete ---------- *)
  Lemma delete_ok L X s id a :
    GInv L X s -> s_idcount s <= IDLIM ->
    zfind id (s_info s) = Some a -> a_tried a = false -> a_ref a = 0 -> ~ In id L ->
    exists s', delete network s id = Ok s' /\
      (forall X', (forall x, In x X -> x = id \/ In x X') -> GInv L X' s') /\
      zfind id (s_info s') = None /\
      (forall id0 a0, id0 <> id -> zfind id0 (s_info s) = Some a0 -> exists r, zfind id0 (s_info s') = Some (set_rpos r a0)) /\
      (forall id0, zfind id0 (s_info s) = None -> zfind id0 (s_info s') = None) /\
      s_idcount s' = s_idcount s /\ s_tried s' = s_tried s /\ s_new s' = s_new s /\ s_last_good s' = s_last_good s /\
      s_coll s' = s_coll s /\ s_ntried s' = s_ntried s.
  Proof.
    intros G LIM F T R0 NL. pose proof G as (HA & HR & HC & HX).
    unfold delete. rewrite F, T, R0. simpl.
    pose proof (S_rand1 _ HR _ _ F) as N0. pose proof (znth_Some _ _ _ N0) as RG.
    destruct (swap_random_ok L X s (a_rpos a) (zlen (s_random s) - 1) G) as (s1 & SW & G1 & SF & LN & Z2 & Z1 & Z3 & FI & FN); [lia | lia |].
    rewrite SW. simpl. destruct G1 as (A1 & R1 & C1 & X1). destruct SF as (e1 & e2 & e3 & e4 & e5 & e6 & e7 & e8 & e9).
    destruct (FI _ _ F) as (r & F1). set (a1 := set_rpos r a) in *.
    rewrite N0 in Z2.
    destruct (S_rand2 _ R1 _ _ Z2) as (a1' & F1' & P1). rewrite F1 in F1'. sinj F1'. subst a1'.
    set (len := zlen (s_random s)) in *.
    assert (NS : forall sl, sfind sl (s_new s1) <> Some id).
    { intros sl Q. apply find_refs_pos in Q. destruct (S_ref _ _ _ _ _ A1 _ _ F1) as [Q1 _]. simpl in Q1. lia. }
    eexists. split; [reflexivity|].
    split; [intros X' HX'; split; [|split; [|split]] | simpl; split; [zf; rewrite Z.eqb_refl; auto | split; [|split; [|repeat split; auto]]]].
    - (* SA *) destruct A1. constructor; simpl; auto.
      + apply z_NoDup_del; auto.
      + intros id0 a0 Q. zf. zeq id id0; [discriminate | eauto].
      + intros id0 a0 Q. zf. zeq id id0; [discriminate|]. rewrite (proj2 (Z.eqb_neq (a_key a) (a_key a0))); eauto.
        intros K. apply E. symmetry. eapply (key_unique c tried_bucket bucket_pos routable s1 id0 id a0 a1); eauto. constructor; auto.
      + intros k0 i Q. zf. zeq (a_key a) k0; [discriminate|]. destruct (S_addr2 _ _ Q) as (a0 & A0 & B0). exists a0. split; auto.
        rewrite (proj2 (Z.eqb_neq id i)); auto. intros K. subst i. rewrite F1 in A0. sinj A0. subst a0. simpl in B0. congruence.
      + intros b p i Q. destruct (S_new _ _ _ Q) as (a0 & A0 & B0). exists a0. split; auto. zf.
        rewrite (proj2 (Z.eqb_neq id i)); auto. intros K. subst i. eapply NS; eauto.
      + intros id0 a0 Q. zf. zeq id id0; [discriminate | eauto].
      + intros sl i Q. destruct (S_tried1 _ _ Q) as (a0 & A0 & B0 & C0). exists a0. split; auto. zf.
        rewrite (proj2 (Z.eqb_neq id i)); auto. intros K. subst i. rewrite F1 in A0. sinj A0. subst a0. simpl in B0. congruence.
      + intros id0 a0 Q T0. zf. zeq id id0; [discriminate | eauto].
      + intros id0 a0 Q. zf. zeq id id0; [discriminate | eauto].
    - (* SR *) constructor; simpl.
      + intros id0 a0 Q. zf. zeq id id0; [discriminate|]. pose proof (S_rand1 _ R1 _ _ Q) as Q1.
        rewrite znth_removelast; auto. pose proof (znth_Some _ _ _ Q1) as Q2.
        assert (a_rpos a0 <> len - 1). { intros K. rewrite K, Z2 in Q1. sinj Q1. congruence. }
        rewrite LN. fold len. lia.
      + intros i id0 Q. pose proof (znth_Some _ _ _ Q) as Q2. rewrite zlen_removelast in Q2 by (rewrite LN; fold len; lia).
        rewrite znth_removelast in Q by lia. destruct (S_rand2 _ R1 _ _ Q) as (a0 & A0 & B0). exists a0. split; auto. zf.
        rewrite (proj2 (Z.eqb_neq id id0)); auto. intros K. subst id0. rewrite F1 in A0. sinj A0. subst a0. rewrite LN in Q2. fold len in Q2. lia.
      + rewrite zlen_removelast by (rewrite LN; fold len; lia). rewrite (z_len_del id a1) by (auto; apply (S_nd_info _ _ _ _ _ A1)).
        rewrite (S_randlen _ R1). reflexivity.
    - (* Cnt *) apply (Cnt_repl L L s1 _ id None (a_key a) (-1) 0); simpl; auto.
      + apply (S_nd_info _ _ _ _ _ A1).
      + intros a0 Q. rewrite F1 in Q. sinj Q. subst a0. reflexivity.
      + intros a0 Q. discriminate.
      + rewrite F1. simpl. unfold is_new. simpl. rewrite T. rewrite (proj2 (in_list_false id L)); auto.
      + rewrite F1. simpl. unfold is_tried. simpl. rewrite T. reflexivity.
      + lia.
      + rewrite (z_len_del id a1) by (auto; apply (S_nd_info _ _ _ _ _ A1)). pose proof (S_info_len _ _ _ _ _ A1). lia.
    - (* R *) unfold RInv; simpl. intros id0 a0 Q T0 N. zf. zeq id id0; [discriminate|]. apply (X1 id0 a0 Q T0).
      intros I. destruct (HX' _ I); [congruence | contradiction].
    - intros id0 a0 N Q. zf. rewrite (proj2 (Z.eqb_neq id id0)) by auto. apply FI; auto.
    - intros id0 Q. zf. zeq id id0; auto.
  Qed.

  (* ---------- a new-table slot loses / gains its entry ---------- *)
  Lemma new_remove_ok L X s sl idd a :
    GInv L X s -> sfind sl (s_new s) = Some idd -> zfind idd (s_info s) = Some a ->
    let s1 := set_newt (sdel sl (s_new s)) (set_info (zset idd (set_ref (a_ref a - 1) a) (s_info s)) s) in
    GInv L (if a_ref a - 1 =? 0 then idd :: X else X) s1 /\ 1 <= a_ref a /\ a_tried a = false.
  Proof.
    intros (HA & HR & HC & HX) FS F s1.
    assert (RP : 1 <= a_ref a). { destruct (S_ref _ _ _ _ _ HA _ _ F) as [Q _]. rewrite Q. eapply find_refs_pos; eauto. }
    assert (NT : a_tried a = false).
    { destruct sl as [b p]. destruct (S_new _ _ _ _ _ HA _ _ _ FS) as (a0 & A0 & B0 & _). rewrite F in A0. sinj A0. subst; auto. }
    split; [|auto]. split; [|split; [|split]].
    - destruct HA. constructor; simpl; auto.
      + apply z_NoDup_set; auto.
      + apply s_NoDup_del; auto.
      + intros id0 a0 Q. zf. zeq idd id0; [subst; eauto | eauto].
      + intros id0 a0 Q. zf. zeq idd id0; [sinj Q; subst a0 id0; simpl; eauto | eauto].
      + intros k id0 Q. destruct (S_addr2 k id0 Q) as (a0 & A0 & B0). zeq idd id0.
        * subst id0. rewrite F in A0. sinj A0. subst a0. exists (set_ref (a_ref a - 1) a). zf. rewrite ?Z.eqb_refl. auto.
        * exists a0. zf. rewrite ?(proj2 (Z.eqb_neq idd id0)) by auto; auto.
      + intros b p id0 Q. zf. seq sl (b, p); [discriminate|]. destruct (S_new b p id0 Q) as (a0 & A0 & B0). zeq idd id0.
        * subst id0. rewrite F in A0. sinj A0. subst a0. exists (set_ref (a_ref a - 1) a). zf. rewrite ?Z.eqb_refl. auto.
        * exists a0. zf. rewrite ?(proj2 (Z.eqb_neq idd id0)) by auto; auto.
      + intros id0 a0 Q. rewrite (refs_sdel_some id0 sl idd) by auto. zf. zeq idd id0.
        * sinj Q. subst a0 id0. simpl. destruct (S_ref _ _ F) as [Q1 Q2]. rewrite ?Z.eqb_refl. simpl. lia.
        * rewrite ?(proj2 (Z.eqb_neq idd id0)) by auto. simpl. destruct (S_ref _ _ Q). lia.
      + intros sl0 id0 Q. destruct (S_tried1 sl0 id0 Q) as (a0 & A0 & B0 & C0). zeq idd id0.
        * subst id0. rewrite F in A0. sinj A0. subst a0. congruence.
        * exists a0. zf. rewrite ?(proj2 (Z.eqb_neq idd id0)) by auto; auto.
      + intros id0 a0 Q T0. zf. zeq idd id0; [sinj Q; subst a0 id0; simpl in *; congruence | eauto].
      + intros id0 a0 Q. zf. zeq idd id0; [sinj Q; subst a0 id0; apply (S_stats _ _ F) | eauto].
    - apply (SR_frame (set_info (zset idd (set_ref (a_ref a - 1) a) (s_info s)) s)); auto. apply (SR_upd s idd a); auto.
    - apply (Cnt_frame L (set_info (zset idd (set_ref (a_ref a - 1) a) (s_info s)) s)); auto. apply (Cnt_upd L s idd a); auto.
    - unfold RInv; simpl. intros id0 a0 Q T0 N. zf. zeq idd id0.
      + sinj Q. subst a0 id0. simpl. zeq (a_ref a - 1) 0; [exfalso; apply N; left; auto | lia].
      + apply (HX id0 a0 Q T0). intros I. apply N. destruct (a_ref a - 1 =? 0); [right|]; auto.
  Qed.

  Lemma new_insert_ok L X s b id a :
    GInv L X s -> zfind id (s_info s) = Some a -> a_tried a = false -> 0 <= b < c_NB c ->
    sfind (b, bucket_pos true b (a_key a)) (s_new s) = None -> a_ref a + 1 <= c_MAXREF c ->
    forall X', (forall x, In x X -> x = id \/ In x X') ->
    GInv L X' (set_newt (sset (b, bucket_pos true b (a_key a)) id (s_new s)) (set_info (zset id (set_ref (a_ref a + 1) a) (s_info s)) s)).
  Proof.
    intros (HA & HR & HC & HX) F NT RB FS MX X' HX'. set (sl := (b, bucket_pos true b (a_key a))) in *.
    split; [|split; [|split]].
    - destruct HA. constructor; simpl; auto.
      + apply z_NoDup_set; auto.
      + apply s_NoDup_set; auto.
      + intros id0 a0 Q. zf. zeq id id0; [subst; eauto | eauto].
      + intros id0 a0 Q. zf. zeq id id0; [sinj Q; subst a0 id0; simpl; eauto | eauto].
      + intros k id0 Q. destruct (S_addr2 k id0 Q) as (a0 & A0 & B0). zeq id id0.
        * subst id0. rewrite F in A0. sinj A0. subst a0. exists (set_ref (a_ref a + 1) a). zf. rewrite ?Z.eqb_refl. auto.
        * exists a0. zf. rewrite ?(proj2 (Z.eqb_neq id id0)) by auto; auto.
      + intros b0 p0 id0 Q. zf. seq sl (b0, p0).
        * sinj Q. subst id0. unfold sl in E. inversion E. subst b0 p0. exists (set_ref (a_ref a + 1) a). zf. rewrite ?Z.eqb_refl. simpl. auto.
        * destruct (S_new b0 p0 id0 Q) as (a0 & A0 & B0). zeq id id0.
          -- subst id0. rewrite F in A0. sinj A0. subst a0. exists (set_ref (a_ref a + 1) a). zf. rewrite ?Z.eqb_refl. auto.
          -- exists a0. zf. rewrite ?(proj2 (Z.eqb_neq id id0)) by auto; auto.
      + intros id0 a0 Q. rewrite (refs_sset_new id0 sl id) by auto. zf. zeq id id0.
        * sinj Q. subst a0 id0. simpl. destruct (S_ref _ _ F) as [Q1 Q2]. rewrite ?Z.eqb_refl. simpl. lia.
        * rewrite ?(proj2 (Z.eqb_neq id id0)) by auto. simpl. destruct (S_ref _ _ Q). lia.
      + intros sl0 id0 Q. destruct (S_tried1 sl0 id0 Q) as (a0 & A0 & B0 & C0). zeq id id0.
        * subst id0. rewrite F in A0. sinj A0. subst a0. congruence.
        * exists a0. zf. rewrite ?(proj2 (Z.eqb_neq id id0)) by auto; auto.
      + intros id0 a0 Q T0. zf. zeq id id0; [sinj Q; subst a0 id0; simpl in *; congruence | eauto].
      + intros id0 a0 Q. zf. zeq id id0; [sinj Q; subst a0 id0; apply (S_stats _ _ F) | eauto].
    - apply (SR_frame (set_info (zset id (set_ref (a_ref a + 1) a) (s_info s)) s)); auto. apply (SR_upd s id a); auto.
    - apply (Cnt_frame L (set_info (zset id (set_ref (a_ref a + 1) a) (s_info s)) s)); auto. apply (Cnt_upd L s id a); auto.
    - unfold RInv; simpl. intros id0 a0 Q T0 N. zf. zeq id id0.
      + sinj Q. subst a0 id0. simpl. destruct (S_ref _ _ _ _ _ HA _ _ F) as [Q1 _]. pose proof (refs_nonneg id (s_new s)). lia.
      + apply (HX id0 a0 Q T0). intros I. destruct (HX' _ I); [congruence | contradiction].
  Qed.

  (* ---------- ClearNew ---------- *)
  Lemma clear_new_ok L X s sl :
    GInv L X s -> s_idcount s <= IDLIM ->
    (forall j, sfind sl (s_new s) = Some j -> ~ In j L) ->
    exists s', clear_new network s sl = Ok s' /\ GInv L X s' /\ sfind sl (s_new s') = None /\
      (forall sl', sl' <> sl -> sfind sl' (s_new s') = sfind sl' (s_new s)) /\
      (forall id0 a0, zfind id0 (s_info s) = Some a0 -> sfind sl (s_new s) <> Some id0 -> exists r, zfind id0 (s_info s') = Some (set_rpos r a0)) /\
      (forall id0, zfind id0 (s_info s) = None -> zfind id0 (s_info s') = None) /\
      s_idcount s' = s_idcount s /\ s_tried s' = s_tried s /\ s_last_good s' = s_last_good s /\ s_coll s' = s_coll s /\
      s_ntried s' = s_ntried s /\
      (forall idd a, sfind sl (s_new s) = Some idd -> zfind idd (s_info s) = Some a ->
         (zfind idd (s_info s') = None /\ a_ref a = 1 /\ a_tried a = false) \/
         (exists r, zfind idd (s_info s') = Some (set_rpos r (set_ref (a_ref a - 1) a)) /\ 1 < a_ref a)).
  Proof.
    intros G LIM NL. pose proof G as (HA & HR & HC & HX). unfold clear_new.
    destruct (sfind sl (s_new s)) as [idd|] eqn:FS.
    2:{ exists s. split; [reflexivity|]. split; [auto|]. split; [auto|]. split; [auto|]. split; [|split; [auto|repeat (split; [reflexivity|])]].
        - intros id0 a0 Q _. exists (a_rpos a0). rewrite set_rpos_same. auto.
        - intros idd a Q. discriminate. }
    assert (exists a, zfind idd (s_info s) = Some a) as (a & F).
    { destruct sl as [b p]. destruct (S_new _ _ _ _ _ HA _ _ _ FS) as (a0 & A0 & _). eauto. }
    rewrite F. destruct (new_remove_ok L X s sl idd a G FS F) as (G1 & RP & NT).
    set (s1 := set_newt (sdel sl (s_new s)) (set_info (zset idd (set_ref (a_ref a - 1) a) (s_info s)) s)) in *.
    replace (a_ref a >? 0) with true by (symmetry; apply Z.gtb_lt; lia). simpl negb. cbv iota.
    assert (FS1 : sfind sl (s_new s1) = None) by (unfold s1; simpl; zf; rewrite sloteqb_refl; auto).
    assert (FO : forall sl', sl' <> sl -> sfind sl' (s_new s1) = sfind sl' (s_new s)).
    { intros sl' N. unfold s1; simpl. zf. rewrite sloteqb_false; auto. }
    zeq (a_ref a - 1) 0.
    - assert (P1 : s_idcount s1 <= IDLIM) by exact LIM.
      assert (P2 : zfind idd (s_info s1) = Some (set_ref (a_ref a - 1) a)) by (unfold s1; simpl; zf; rewrite Z.eqb_refl; auto).
      assert (P3 : ~ In idd L) by (apply NL; auto).
      destruct (delete_ok L (idd :: X) s1 idd (set_ref (a_ref a - 1) a) G1 P1 P2 NT E P3) as (s' & D & GD & FD & FI & FN & e1 & e2 & e3 & e4 & e5 & e6).
      exists s'. split; [exact D|]. split; [apply GD; intros x [I|I]; auto|]. rewrite e3. split; [auto|]. split; [auto|].
      split; [|split; [|rewrite e1, e2, e4, e5, e6; repeat (split; [reflexivity|])]].
      + intros id0 a0 Q N. apply FI; [congruence|]. unfold s1; simpl. zf. rewrite (proj2 (Z.eqb_neq idd id0)) by congruence. auto.
      + intros id0 Q. apply FN. unfold s1; simpl. zf. zeq idd id0; [congruence | auto].
      + intros idd0 a0 Q Q2. sinj Q. subst idd0. rewrite F in Q2. sinj Q2. subst a0. left. split; [auto|]. split; [lia | auto].
    - exists s1. split; [reflexivity|]. split; [auto|]. split; [auto|]. split; [auto|]. split; [|split; [|repeat (split; [reflexivity|])]].
      + intros id0 a0 Q N. unfold s1; simpl. zf. rewrite (proj2 (Z.eqb_neq idd id0)) by congruence. exists (a_rpos a0). rewrite set_rpos_same. auto.
      + intros id0 Q. unfold s1; simpl. zf. zeq idd id0; [congruence | auto].
      + intros idd0 a0 Q Q2. sinj Q. subst idd0. rewrite F in Q2. sinj Q2. subst a0. right. exists (a_rpos a). unfold s1; simpl. zf. rewrite Z.eqb_refl.
        split; [reflexivity | lia].
  Qed.

  (* ---------- MakeTried: the loop that removes the entry from all new buckets ---------- *)
  Lemma mt_loop_spec ns start id key newt ref :
    NoDup (keys newt) -> ref = refs id newt ->
    (forall b p, sfind (b, p) newt = Some id -> p = bucket_pos true b key /\ exists n, In n ns /\ b = (start + n) mod c_NB c) ->
    forall newt' ref', mt_loop c bucket_pos ns start id key newt ref = (newt', ref') ->
    ref' = 0 /\ NoDup (keys newt') /\ refs id newt' = 0 /\
    (forall id0, id0 <> id -> refs id0 newt' = refs id0 newt) /\
    (forall sl j, sfind sl newt' = Some j -> sfind sl newt = Some j /\ j <> id) /\
    (forall sl j, sfind sl newt = Some j -> j <> id -> sfind sl newt' = Some j).
  Proof.
    revert newt ref. induction ns as [|n r IH]; intros newt ref ND ER HS newt' ref' ML.
    - simpl in ML. injection ML as E1 E2. subst newt' ref'.
      assert (Z0 : refs id newt = 0).
      { apply nofind_refs_zero; auto. intros [b p] Q. destruct (HS _ _ Q) as (_ & n & [] & _). }
      split; [lia|]. split; [auto|]. split; [auto|]. split; [auto|]. split; [|auto].
      intros sl j Q. split; auto. intros K. subst j. apply (refs_zero_nofind id newt Z0 sl Q).
    - cbn [mt_loop] in ML. set (b := (start + n) mod c_NB c) in *. set (p := bucket_pos true b key) in *.
      destruct (sfind (b, p) newt) as [i|] eqn:FS.
      + zeq i id.
        * subst i. set (nt := sdel (b, p) newt) in *.
          assert (ND1 : NoDup (keys nt)) by (apply s_NoDup_del; auto).
          assert (R1 : ref - 1 = refs id nt).
          { unfold nt. rewrite (refs_sdel_some id (b, p) id) by auto. rewrite Z.eqb_refl. simpl. lia. }
          assert (RO : forall id0, id0 <> id -> refs id0 nt = refs id0 newt).
          { intros id0 N. unfold nt. rewrite (refs_sdel_some id0 (b, p) id) by auto. rewrite (proj2 (Z.eqb_neq id id0)) by auto. simpl. lia. }
          assert (S1 : forall sl j, sfind sl nt = Some j -> sfind sl newt = Some j).
          { intros sl j Q. unfold nt in Q. zf. seq (b, p) sl; [discriminate | auto]. }
          assert (S2 : forall sl j, sfind sl newt = Some j -> j <> id -> sfind sl nt = Some j).
          { intros sl j Q N. unfold nt. zf. seq (b, p) sl; [subst sl; congruence | auto]. }
          zeq (ref - 1) 0.
          -- injection ML as E1 E2. subst newt' ref'. assert (Z0 : refs id nt = 0) by lia.
             split; [auto|]. split; [auto|]. split; [auto|]. split; [auto|]. split; [|auto].
             intros sl j Q. split; auto. intros K. subst j. apply (refs_zero_nofind id nt Z0 sl Q).
          -- destruct (IH nt (ref - 1) ND1 R1) with (newt' := newt') (ref' := ref') as (A1 & A2 & A3 & A4 & A5 & A6); auto.
             ++ intros b0 p0 Q. destruct (HS b0 p0 (S1 _ _ Q)) as (P0 & n0 & [I|I] & B0); split; auto.
                ** subst n0. exfalso. unfold nt in Q. zf. fold b in B0. subst b0. fold p in P0. subst p0. rewrite sloteqb_refl in Q. discriminate.
                ** exists n0. auto.
             ++ split; [auto|]. split; [auto|]. split; [auto|]. split; [|split].
                ** intros id0 N. rewrite A4; auto.
                ** intros sl j Q. destruct (A5 sl j Q). split; auto.
                ** intros sl j Q N. apply A6; auto.
        * apply (IH newt ref ND ER); auto.
          intros b0 p0 Q. destruct (HS b0 p0 Q) as (P0 & n0 & [I|I] & B0); split; auto.
          -- subst n0. exfalso. fold b in B0. subst b0. fold p in P0. subst p0. congruence.
          -- exists n0. auto.
      + apply (IH newt ref ND ER); auto.
        intros b0 p0 Q. destruct (HS b0 p0 Q) as (P0 & n0 & [I|I] & B0); split; auto.
        -- subst n0. exfalso. fold b in B0. subst b0. fold p in P0. subst p0. congruence.
        -- exists n0. auto.
  Qed.

  Lemma in_list_cons_neq x y l : x <> y -> in_list x (y :: l) = in_list x l.
  Proof. intros N. unfold in_list. simpl. rewrite (proj2 (Z.eqb_neq x y)); auto. Qed.
  Lemma in_list_cons_eq x l : in_list x (x :: l) = true.
  Proof. unfold in_list. simpl. rewrite Z.eqb_refl. auto. Qed.

  (* ---------- MakeTried, state after the loop: the entry has left the new table and the new counters ---------- *)
  Lemma mt_step1_ok s id a newt :
    GInv [] [] s -> s_idcount s <= IDLIM -> zfind id (s_info s) = Some a -> a_tried a = false ->
    NoDup (keys newt) -> refs id newt = 0 -> (forall id0, id0 <> id -> refs id0 newt = refs id0 (s_new s)) ->
    (forall sl j, sfind sl newt = Some j -> sfind sl (s_new s) = Some j /\ j <> id) ->
    GInv [id] [id] (mkSt (s_idcount s) (zset id (set_ref 0 a) (s_info s)) (s_addr s) (s_random s) (s_ntried s) (s_nnew s - 1)
                         (s_tried s) newt (s_last_good s) (s_coll s) (nc_add (-1) 0 (network (a_key a)) (s_netcnt s))).
  Proof.
    intros (HA & HR & HC & HX) LIM F NT ND R0 RO SUB.
    split; [|split; [|split]].
    - destruct HA. constructor; simpl; auto.
      + apply z_NoDup_set; auto.
      + intros id0 a0 Q. zf. zeq id id0; [subst; eauto | eauto].
      + intros id0 a0 Q. zf. zeq id id0; [sinj Q; subst a0 id0; simpl; eauto | eauto].
      + intros k id0 Q. destruct (S_addr2 k id0 Q) as (a0 & A0 & B0). zeq id id0.
        * subst id0. rewrite F in A0. sinj A0. subst a0. exists (set_ref 0 a). zf. rewrite ?Z.eqb_refl. auto.
        * exists a0. zf. rewrite ?(proj2 (Z.eqb_neq id id0)) by auto; auto.
      + intros b p id0 Q. destruct (SUB _ _ Q) as [Q1 Q2]. destruct (S_new b p id0 Q1) as (a0 & A0 & B0).
        exists a0. zf. rewrite ?(proj2 (Z.eqb_neq id id0)) by auto; auto.
      + intros id0 a0 Q. zf. zeq id id0.
        * sinj Q. subst a0 id0. simpl. rewrite R0. split; [auto | lia].
        * rewrite RO by auto. eauto.
      + intros sl0 id0 Q. destruct (S_tried1 sl0 id0 Q) as (a0 & A0 & B0 & C0). zeq id id0.
        * subst id0. rewrite F in A0. sinj A0. subst a0. congruence.
        * exists a0. zf. rewrite ?(proj2 (Z.eqb_neq id id0)) by auto; auto.
      + intros id0 a0 Q T0. zf. zeq id id0; [sinj Q; subst a0 id0; simpl in *; congruence | eauto].
      + intros id0 a0 Q. zf. zeq id id0; [sinj Q; subst a0 id0; apply (S_stats _ _ F) | eauto].
    - apply (SR_frame (set_info (zset id (set_ref 0 a) (s_info s)) s)); auto. apply (SR_upd s id a); auto.
    - apply (Cnt_repl [] [id] s _ id (Some (set_ref 0 a)) (a_key a) (-1) 0); cbn [s_info s_nnew s_ntried s_netcnt repl]; auto.
      + apply (S_nd_info _ _ _ _ _ HA).
      + intros id0 N. apply in_list_cons_neq; auto.
      + intros a0 Q. rewrite F in Q. sinj Q. subst; auto.
      + intros a0 Q. sinj Q. subst; auto.
      + rewrite F. unfold ob2z, is_new, in_list. simpl. rewrite NT, ?Z.eqb_refl. reflexivity.
      + rewrite F. simpl. unfold is_tried. simpl. rewrite NT. reflexivity.
      + lia.
      + rewrite (z_len_set_old id _ a) by auto. pose proof (S_info_len _ _ _ _ _ HA). lia.
    - unfold RInv; simpl. intros id0 a0 Q T0 N. zf. zeq id id0; [exfalso; apply N; left; auto|]. apply (HX id0 a0 Q T0). tauto.
  Qed.

  (* ---------- an entry leaves the tried table (to be re-entered into new) ---------- *)
  Lemma tried_remove_ok L X s idev old :
    GInv L X s -> s_idcount s <= IDLIM -> zfind idev (s_info s) = Some old -> a_tried old = true ->
    GInv (idev :: L) (idev :: X)
         (mkSt (s_idcount s) (zset idev (set_tried false old) (s_info s)) (s_addr s) (s_random s) (s_ntried s - 1) (s_nnew s)
               (sdel (tslot (a_key old)) (s_tried s)) (s_new s) (s_last_good s) (s_coll s) (nc_add 0 (-1) (network (a_key old)) (s_netcnt s))).
  Proof.
    intros (HA & HR & HC & HX) LIM F T. set (ts := tslot (a_key old)).
    assert (FT : sfind ts (s_tried s) = Some idev) by (apply (S_tried2 _ _ _ _ _ HA); auto).
    split; [|split; [|split]].
    - destruct HA. constructor; simpl; auto.
      + apply z_NoDup_set; auto.
      + apply s_NoDup_del; auto.
      + intros id0 a0 Q. zf. zeq idev id0; [subst; eauto | eauto].
      + intros id0 a0 Q. zf. zeq idev id0; [sinj Q; subst a0 id0; simpl; eauto | eauto].
      + intros k id0 Q. destruct (S_addr2 k id0 Q) as (a0 & A0 & B0). zeq idev id0.
        * subst id0. rewrite F in A0. sinj A0. subst a0. exists (set_tried false old). zf. rewrite ?Z.eqb_refl. auto.
        * exists a0. zf. rewrite ?(proj2 (Z.eqb_neq idev id0)) by auto; auto.
      + intros b p id0 Q. destruct (S_new b p id0 Q) as (a0 & A0 & B0 & C0). zeq idev id0.
        * subst id0. rewrite F in A0. sinj A0. subst a0. congruence.
        * exists a0. zf. rewrite ?(proj2 (Z.eqb_neq idev id0)) by auto; auto.
      + intros id0 a0 Q. zf. zeq idev id0; [sinj Q; subst a0 id0; simpl; eauto | eauto].
      + intros sl0 id0 Q. zf. fold ts in Q. seq ts sl0; [discriminate|]. destruct (S_tried1 sl0 id0 Q) as (a0 & A0 & B0 & C0). zeq idev id0.
        * subst id0. rewrite F in A0. sinj A0. subst a0. fold ts in C0. subst sl0. rewrite sloteqb_refl in E. discriminate.
        * exists a0. zf. rewrite ?(proj2 (Z.eqb_neq idev id0)) by auto; auto.
      + intros id0 a0 Q T0. zf. zeq idev id0; [sinj Q; subst a0 id0; simpl in *; congruence|].
        pose proof (S_tried2 _ _ Q T0) as Q2. fold ts. seq ts (tslot (a_key a0)); [|auto].
        rewrite <- E0 in Q2. rewrite FT in Q2. sinj Q2. congruence.
      + intros id0 a0 Q. zf. zeq idev id0; [|eauto]. sinj Q. subst a0 id0. destruct (S_stats _ _ F) as (P1 & P2 & P3 & P4 & P5).
        unfold AddrManInv.info_ok; simpl. repeat split; auto; try lia.
    - apply (SR_frame (set_info (zset idev (set_tried false old) (s_info s)) s)); auto. apply (SR_upd s idev old); auto.
    - apply (Cnt_repl L (idev :: L) s _ idev (Some (set_tried false old)) (a_key old) 0 (-1)); cbn [s_info s_nnew s_ntried s_netcnt repl]; auto.
      + apply (S_nd_info _ _ _ _ _ HA).
      + intros id0 N. apply in_list_cons_neq; auto.
      + intros a0 Q. rewrite F in Q. sinj Q. subst; auto.
      + intros a0 Q. sinj Q. subst; auto.
      + rewrite F. unfold ob2z, is_new, in_list. simpl. rewrite T, ?Z.eqb_refl. reflexivity.
      + rewrite F. simpl. unfold is_tried. simpl. rewrite T. reflexivity.
      + lia.
      + rewrite (z_len_set_old idev _ old) by auto. pose proof (S_info_len _ _ _ _ _ HA). lia.
    - unfold RInv; simpl. intros id0 a0 Q T0 N. zf. zeq idev id0; [exfalso; apply N; left; auto|]. apply (HX id0 a0 Q T0). tauto.
  Qed.

  (* ---------- the evicted entry re-enters the new table ---------- *)
  Lemma reentry_ok L X s idev old :
    GInv (idev :: L) (idev :: X) s -> s_idcount s <= IDLIM -> zfind idev (s_info s) = Some old -> a_tried old = false -> a_ref old = 0 ->
    ~ In idev L -> sfind (nslot (a_key old) (a_src old)) (s_new s) = None ->
    GInv L X (mkSt (s_idcount s) (zset idev (set_ref 1 old) (s_info s)) (s_addr s) (s_random s) (s_ntried s) (s_nnew s + 1) (s_tried s)
                   (sset (nslot (a_key old) (a_src old)) idev (s_new s)) (s_last_good s) (s_coll s) (nc_add 1 0 (network (a_key old)) (s_netcnt s))).
  Proof.
    intros G LIM F NT R0 NL FS. pose proof G as (HA & HR & HC & HX).
    pose proof (new_insert_ok (idev :: L) (idev :: X) s (new_bucket (a_key old) (a_src old)) idev old G F NT (H_nb _ _) FS) as NI.
    rewrite R0 in NI. specialize (NI ltac:(lia) X). destruct NI as (A1 & R1 & C1 & X1); [intros x [I|I]; auto|].
    split; [|split; [|split]].
    - eapply SA_frame; [| | | | | | exact A1]; reflexivity.
    - eapply SR_frame; [| | exact R1]; reflexivity.
    - apply (Cnt_repl (idev :: L) L s _ idev (Some (set_ref 1 old)) (a_key old) 1 0); cbn [s_info s_nnew s_ntried s_netcnt repl]; auto.
      + apply (S_nd_info _ _ _ _ _ HA).
      + intros id0 N. symmetry. apply in_list_cons_neq; auto.
      + intros a0 Q. rewrite F in Q. sinj Q. subst; auto.
      + intros a0 Q. sinj Q. subst; auto.
      + rewrite F. unfold ob2z, is_new. cbn [fst snd a_tried set_ref]. rewrite NT, in_list_cons_eq, (proj2 (in_list_false idev L)) by auto. reflexivity.
      + rewrite F. unfold ob2z, is_tried. cbn [fst snd a_tried set_ref]. rewrite NT. reflexivity.
      + lia.
      + rewrite (z_len_set_old idev _ old) by auto. pose proof (S_info_len _ _ _ _ _ HA). lia.
    - eapply R_frame; [| exact X1]; reflexivity.
  Qed.

  (* ---------- the entry enters the tried table ---------- *)
  Lemma tried_insert_ok L X s id a :
    GInv (id :: L) (id :: X) s -> s_idcount s <= IDLIM -> zfind id (s_info s) = Some a -> a_tried a = false -> a_ref a = 0 ->
    a_last_success a <> 0 -> sfind (tslot (a_key a)) (s_tried s) = None ->
    GInv L X (mkSt (s_idcount s) (zset id (set_tried true a) (s_info s)) (s_addr s) (s_random s) (s_ntried s + 1) (s_nnew s)
                   (sset (tslot (a_key a)) id (s_tried s)) (s_new s) (s_last_good s) (s_coll s) (nc_add 0 1 (network (a_key a)) (s_netcnt s))).
  Proof.
    intros (HA & HR & HC & HX) LIM F NT R0 LS FT. set (ts := tslot (a_key a)) in *.
    assert (NS : forall sl, sfind sl (s_new s) <> Some id).
    { intros sl Q. apply find_refs_pos in Q. destruct (S_ref _ _ _ _ _ HA _ _ F) as [Q1 _]. lia. }
    split; [|split; [|split]].
    - destruct HA. constructor; simpl; auto.
      + apply z_NoDup_set; auto.
      + apply s_NoDup_set; auto.
      + intros id0 a0 Q. zf. zeq id id0; [subst; eauto | eauto].
      + intros id0 a0 Q. zf. zeq id id0; [sinj Q; subst a0 id0; simpl; eauto | eauto].
      + intros k id0 Q. destruct (S_addr2 k id0 Q) as (a0 & A0 & B0). zeq id id0.
        * subst id0. rewrite F in A0. sinj A0. subst a0. exists (set_tried true a). zf. rewrite ?Z.eqb_refl. auto.
        * exists a0. zf. rewrite ?(proj2 (Z.eqb_neq id id0)) by auto; auto.
      + intros b p id0 Q. destruct (S_new b p id0 Q) as (a0 & A0 & B0 & C0). zeq id id0.
        * subst id0. exfalso. eapply NS; eauto.
        * exists a0. zf. rewrite ?(proj2 (Z.eqb_neq id id0)) by auto; auto.
      + intros id0 a0 Q. zf. zeq id id0; [sinj Q; subst a0 id0; simpl; eauto | eauto].
      + intros sl0 id0 Q. zf. fold ts in Q. seq ts sl0.
        * sinj Q. subst id0 sl0. exists (set_tried true a). zf. rewrite ?Z.eqb_refl. auto.
        * destruct (S_tried1 sl0 id0 Q) as (a0 & A0 & B0 & C0). zeq id id0.
          -- subst id0. rewrite F in A0. sinj A0. subst a0. congruence.
          -- exists a0. zf. rewrite ?(proj2 (Z.eqb_neq id id0)) by auto; auto.
      + intros id0 a0 Q T0. zf. fold ts. zeq id id0.
        * sinj Q. subst a0 id0. simpl. fold ts. rewrite sloteqb_refl. auto.
        * pose proof (S_tried2 _ _ Q T0) as Q2. seq ts (tslot (a_key a0)); [|auto]. rewrite <- E0 in Q2. congruence.
      + intros id0 a0 Q. zf. zeq id id0; [|eauto]. sinj Q. subst a0 id0. destruct (S_stats _ _ F) as (P1 & P2 & P3 & P4 & P5).
        unfold AddrManInv.info_ok; simpl. repeat split; auto; try lia.
    - apply (SR_frame (set_info (zset id (set_tried true a) (s_info s)) s)); auto. apply (SR_upd s id a); auto.
    - apply (Cnt_repl (id :: L) L s _ id (Some (set_tried true a)) (a_key a) 0 1); cbn [s_info s_nnew s_ntried s_netcnt repl]; auto.
      + apply (S_nd_info _ _ _ _ _ HA).
      + intros id0 N. symmetry. apply in_list_cons_neq; auto.
      + intros a0 Q. rewrite F in Q. sinj Q. subst; auto.
      + intros a0 Q. sinj Q. subst; auto.
      + rewrite F. unfold ob2z, is_new. cbn [fst snd a_tried set_tried]. rewrite NT, in_list_cons_eq. reflexivity.
      + rewrite F. unfold ob2z, is_tried. cbn [fst snd a_tried set_tried]. rewrite NT. reflexivity.
      + lia.
      + rewrite (z_len_set_old id _ a) by auto. pose proof (S_info_len _ _ _ _ _ HA). lia.
    - unfold RInv; simpl. intros id0 a0 Q T0 N. zf. zeq id id0; [sinj Q; subst a0; simpl in T0; discriminate|].
      apply (HX id0 a0 Q T0). intros [I|I]; [congruence | contradiction].
  Qed.

  (* ---------- MakeTried: the eviction block ---------- *)
  Lemma mt_evict_ok s1 id a1 :
    GInv [id] [id] s1 -> s_idcount s1 <= IDLIM -> zfind id (s_info s1) = Some a1 -> a_tried a1 = false -> a_ref a1 = 0 ->
    exists s2, mt_evict new_bucket bucket_pos network s1 (tslot (a_key a1)) = Ok s2 /\ GInv [id] [id] s2 /\
      sfind (tslot (a_key a1)) (s_tried s2) = None /\
      (exists r, zfind id (s_info s2) = Some (set_rpos r a1)) /\
      (forall sl, sl <> tslot (a_key a1) -> sfind sl (s_tried s2) = sfind sl (s_tried s1)) /\
      (forall id0 a0, id0 <> id -> zfind id0 (s_info s1) = Some a0 ->
         (exists a0', zfind id0 (s_info s2) = Some a0' /\ same_stats a0 a0' /\
                      (sfind (tslot (a_key a1)) (s_tried s1) <> Some id0 -> a_tried a0' = a_tried a0 /\ a_ref a0' <= a_ref a0) /\
                      (sfind (tslot (a_key a1)) (s_tried s1) = Some id0 -> a_tried a0' = false /\ a_ref a0' = 1))
         \/ (zfind id0 (s_info s2) = None /\ a_tried a0 = false /\
             exists idev old, sfind (tslot (a_key a1)) (s_tried s1) = Some idev /\ zfind idev (s_info s1) = Some old /\
                              sfind (nslot (a_key old) (a_src old)) (s_new s1) = Some id0)) /\
      (forall id0, zfind id0 (s_info s1) = None -> zfind id0 (s_info s2) = None) /\
      s_idcount s2 = s_idcount s1 /\ s_coll s2 = s_coll s1 /\ s_last_good s2 = s_last_good s1.
  Proof.
    intros G LIM F NT R0. pose proof G as (HA & HR & HC & HX). set (ts := tslot (a_key a1)) in *.
    unfold mt_evict. destruct (sfind ts (s_tried s1)) as [idev|] eqn:FT.
    - (* eviction *)
      destruct (S_tried1 _ _ _ _ _ HA _ _ FT) as (old & FO & TO & ETS).
      assert (NE : idev <> id) by (intros K; subst; rewrite F in FO; sinj FO; congruence).
      rewrite FO.
      pose proof (tried_remove_ok [id] [id] s1 idev old G LIM FO TO) as G1a. rewrite <- ETS in G1a.
      set (s1a := mkSt (s_idcount s1) (zset idev (set_tried false old) (s_info s1)) (s_addr s1) (s_random s1)
                        (s_ntried s1 - 1) (s_nnew s1) (sdel ts (s_tried s1)) (s_new s1) (s_last_good s1) (s_coll s1)
                        (nc_add 0 (-1) (network (a_key old)) (s_netcnt s1))) in *.
      set (us := nslot (a_key old) (a_src old)) in *.
      assert (RO0 : a_ref old = 0) by (eapply tried_ref0; eauto).
      assert (NOCC : forall j, sfind us (s_new s1a) = Some j -> ~ In j [idev; id]).
      { intros j Q. simpl in Q. apply find_refs_pos in Q. intros [I|[I|[]]]; subst j.
        - destruct (S_ref _ _ _ _ _ HA _ _ FO). lia.
        - destruct (S_ref _ _ _ _ _ HA _ _ F). lia. }
      destruct (clear_new_ok [idev; id] [idev; id] s1a us G1a LIM NOCC) as (s1b & CN & G1b & FS & FOth & FI & FN & e1 & e2 & e3 & e4 & e5 & OCC).
      rewrite CN. cbn [bind]. rewrite FS.
      assert (FOa : zfind idev (s_info s1a) = Some (set_tried false old)) by (unfold s1a; simpl; zf; rewrite Z.eqb_refl; auto).
      assert (NOi : sfind us (s_new s1a) <> Some idev) by (intros Q; apply (NOCC _ Q); left; auto).
      destruct (FI _ _ FOa NOi) as (r & FOb). rewrite FOb.
      set (old' := set_rpos r (set_tried false old)) in *.
      pose proof (reentry_ok [id] [id] s1b idev old' G1b) as G2. unfold old' in G2 at 2 3. cbn [a_key a_src set_rpos set_tried] in G2. fold us in G2.
      assert (LIMb : s_idcount s1b <= IDLIM) by (rewrite e1; exact LIM).
      specialize (G2 LIMb FOb eq_refl RO0). specialize (G2 ltac:(intros [I|[]]; congruence) FS).
      eexists. split; [reflexivity|]. split; [exact G2|]. cbn [s_tried s_info s_idcount s_coll s_last_good].
      assert (Fa : zfind id (s_info s1a) = Some a1) by (unfold s1a; simpl; zf; rewrite (proj2 (Z.eqb_neq idev id)); auto).
      assert (NOid : sfind us (s_new s1a) <> Some id) by (intros Q; apply (NOCC _ Q); right; left; auto).
      destruct (FI _ _ Fa NOid) as (r1 & Fb).
      split; [rewrite e2; unfold s1a; simpl; zf; rewrite sloteqb_refl; auto|].
      split; [exists r1; zf; rewrite (proj2 (Z.eqb_neq idev id)); auto|].
      split; [intros sl N; rewrite e2; unfold s1a; simpl; zf; rewrite sloteqb_false; auto|].
      split; [|split; [|rewrite e1, e4, e3; auto]].
      + intros id0 a0 N0 F0. zeq idev id0.
        * subst id0. rewrite FO in F0. sinj F0. subst a0. left. exists (set_ref 1 old'). zf. rewrite ?Z.eqb_refl.
          split; [auto|]. split; [unfold same_stats; simpl; tauto|]. split; [congruence | auto].
        * assert (F0a : zfind id0 (s_info s1a) = Some a0) by (unfold s1a; simpl; zf; rewrite (proj2 (Z.eqb_neq idev id0)); auto).
          assert (DEC : sfind us (s_new s1a) = Some id0 \/ sfind us (s_new s1a) <> Some id0).
          { destruct (sfind us (s_new s1a)) as [j|]; [zeq j id0; [left; congruence | right; congruence] | right; discriminate]. }
          destruct DEC as [OC|OC].
          -- destruct (OCC _ _ OC F0a) as [(Q1 & Q2 & Q3)|(r0 & Q1 & Q2)].
             ++ right. split; [zf; rewrite (proj2 (Z.eqb_neq idev id0)) by auto; auto|]. split; [auto|].
                exists idev, old. split; [auto|]. split; [auto|]. exact OC.
             ++ left. exists (set_rpos r0 (set_ref (a_ref a0 - 1) a0)). zf. rewrite (proj2 (Z.eqb_neq idev id0)) by auto.
                split; [auto|]. split; [unfold same_stats; simpl; tauto|]. split; [intros _; simpl; split; [auto | lia] | intros K; congruence].
          -- left. destruct (FI _ _ F0a OC) as (r0 & F0b). exists (set_rpos r0 a0). zf. rewrite (proj2 (Z.eqb_neq idev id0)) by auto.
             split; [auto|]. split; [unfold same_stats; simpl; tauto|]. split; [intros _; simpl; split; [auto | lia] | intros K; congruence].
      + intros id0 F0. zf. zeq idev id0; [congruence|]. apply FN. unfold s1a; simpl. zf. rewrite (proj2 (Z.eqb_neq idev id0)); auto.
    - exists s1. split; [reflexivity|]. split; [auto|]. split; [auto|]. split; [exists (a_rpos a1); rewrite set_rpos_same; auto|].
      split; [auto|]. split; [|auto]. intros id0 a0 N0 F0. left. exists a0. split; [auto|]. split; [apply same_stats_refl|].
      split; [intros _; split; [auto | lia] | intros K; discriminate].
  Qed.

  (* ---------- MakeTried ---------- *)
  Lemma make_tried_ok s id a :
    GInv [] [] s -> s_idcount s <= IDLIM -> zfind id (s_info s) = Some a -> a_tried a = false -> a_last_success a <> 0 ->
    exists s', make_tried c tried_bucket new_bucket bucket_pos network s id = Ok s' /\ GInv [] [] s' /\
      (exists r, zfind id (s_info s') = Some (set_rpos r (set_tried true (set_ref 0 a)))) /\
      sfind (tslot (a_key a)) (s_tried s') = Some id /\
      (forall sl, sl <> tslot (a_key a) -> sfind sl (s_tried s') = sfind sl (s_tried s)) /\
      (forall id0 a0, id0 <> id -> zfind id0 (s_info s) = Some a0 ->
         (exists a0', zfind id0 (s_info s') = Some a0' /\ same_stats a0 a0' /\
                      (sfind (tslot (a_key a)) (s_tried s) <> Some id0 -> a_tried a0' = a_tried a0 /\ a_ref a0' <= a_ref a0) /\
                      (sfind (tslot (a_key a)) (s_tried s) = Some id0 -> a_tried a0' = false /\ a_ref a0' = 1))
         \/ (zfind id0 (s_info s') = None /\ a_tried a0 = false /\
             exists idev old, sfind (tslot (a_key a)) (s_tried s) = Some idev /\ zfind idev (s_info s) = Some old /\
                              sfind (nslot (a_key old) (a_src old)) (s_new s) = Some id0)) /\
      (forall id0, zfind id0 (s_info s) = None -> zfind id0 (s_info s') = None) /\
      s_idcount s' = s_idcount s /\ s_coll s' = s_coll s /\ s_last_good s' = s_last_good s.
  Proof.
    intros G LIM F NT LS. pose proof G as (HA & HR & HC & HX).
    unfold make_tried. rewrite F.
    destruct (mt_loop c bucket_pos (zseq (c_NB c)) (new_bucket (a_key a) (a_src a)) id (a_key a) (s_new s) (a_ref a)) as [newt ref] eqn:ML.
    destruct (mt_loop_spec (zseq (c_NB c)) (new_bucket (a_key a) (a_src a)) id (a_key a) (s_new s) (a_ref a)) with (newt' := newt) (ref' := ref)
      as (R0 & ND & RZ & RO & SUB & SUP); auto.
    { apply (S_nd_new _ _ _ _ _ HA). }
    { apply (S_ref _ _ _ _ _ HA _ _ F). }
    { intros b p Q. destruct (S_new _ _ _ _ _ HA _ _ _ Q) as (a0 & A0 & B0 & C0 & D0). rewrite F in A0. sinj A0. subst a0.
      split; auto. exists ((b - new_bucket (a_key a) (a_src a)) mod c_NB c). split.
      - apply In_zseq. apply Z.mod_pos_bound. lia.
      - rewrite Zplus_mod_idemp_r. replace (new_bucket (a_key a) (a_src a) + (b - new_bucket (a_key a) (a_src a))) with b by lia.
        symmetry. apply Z.mod_small. lia. }
    subst ref. rewrite Z.eqb_refl. cbn [negb].
    pose proof (mt_step1_ok s id a newt G LIM F NT ND RZ RO SUB) as G1.
    set (s1 := mkSt (s_idcount s) (zset id (set_ref 0 a) (s_info s)) (s_addr s) (s_random s) (s_ntried s) (s_nnew s - 1)
                     (s_tried s) newt (s_last_good s) (s_coll s) (nc_add (-1) 0 (network (a_key a)) (s_netcnt s))) in *.
    assert (F1 : zfind id (s_info s1) = Some (set_ref 0 a)) by (unfold s1; simpl; zf; rewrite Z.eqb_refl; auto).
    destruct (mt_evict_ok s1 id (set_ref 0 a) G1 LIM F1 NT eq_refl) as (s2 & EV & G2 & FT2 & (r & F2) & TO & OTH & FN & e1 & e2 & e3).
    cbn [a_key set_ref] in EV, FT2, TO, OTH. rewrite EV. cbn [bind]. rewrite F2.
    pose proof (tried_insert_ok [] [] s2 id (set_rpos r (set_ref 0 a)) G2) as G3.
    cbn [a_key a_tried a_ref a_last_success set_rpos set_ref] in G3.
    assert (LIM2 : s_idcount s2 <= IDLIM) by (rewrite e1; exact LIM).
    specialize (G3 LIM2 F2 NT eq_refl LS FT2).
    eexists. split; [reflexivity|]. split; [exact G3|]. cbn [s_info s_tried s_idcount s_coll s_last_good].
    split; [exists r; zf; rewrite Z.eqb_refl; reflexivity|].
    split; [zf; rewrite sloteqb_refl; auto|].
    split; [intros sl N; zf; rewrite sloteqb_false by auto; rewrite TO; auto|].
    split; [|split; [|rewrite e1, e2, e3; auto]].
    - intros id0 a0 N0 F0.
      assert (F01 : zfind id0 (s_info s1) = Some a0) by (unfold s1; simpl; zf; rewrite (proj2 (Z.eqb_neq id id0)) by auto; auto).
      destruct (OTH id0 a0 N0 F01) as [(a0' & Q1 & Q2 & Q3 & Q4)|(Q1 & Q2 & idev & old & Q3 & Q4 & Q5)].
      + left. exists a0'. zf. rewrite (proj2 (Z.eqb_neq id id0)) by auto. auto.
      + right. zf. rewrite (proj2 (Z.eqb_neq id id0)) by auto. split; [auto|]. split; [auto|].
        assert (NEI : idev <> id).
        { intros K. subst idev. destruct (S_tried1 _ _ _ _ _ HA _ _ Q3) as (x & X1 & X2 & _). rewrite F in X1. sinj X1. congruence. }
        exists idev, old. split; [auto|]. split.
        * unfold s1 in Q4; simpl in Q4. zf. rewrite (proj2 (Z.eqb_neq id idev)) in Q4 by auto. auto.
        * unfold s1 in Q5; simpl in Q5. apply SUB in Q5. tauto.
    - intros id0 F0. zf. zeq id id0; [congruence|]. apply FN. unfold s1; simpl. zf. rewrite (proj2 (Z.eqb_neq id id0)); auto.
  Qed.
End Ops.
